import SqlObjVerif.Lemmas.ExprXFns
/-!
# C03 translation — rendering a whole object graph by the translated `__sqlrepr__` methods and converters

`sqlreprD (ifaceF P k)` is `sqlrepr(obj, db)` with every call resolved to a translated program (`k` levels deep).
`sqlrepr_toVal`: on the image of ANY `Expr.Node` it returns exactly the text-level hand model `renderS`, for every
dialect string, every naming of the columns and every `repr` of the numeric leaves that is never empty.
-/
namespace SqlObjVerif.ExprX
open SqlObjVerif.PyExpr SqlObjVerif.PyExpr.Extracted

set_option linter.unusedSimpArgs false

@[simp] theorem listItems_list (vs : List Val) : listItems (.list vs) = vs := rfl
@[simp] theorem listItems_obj (c : String) (fs : List (String × Val)) : listItems (.obj c fs) = [] := rfl
@[simp] theorem listItems_int (i : Int) : listItems (.int i) = [] := rfl
@[simp] theorem listItems_flt (b : Bool) (i : Nat) : listItems (.flt b i) = [] := rfl
@[simp] theorem listItems_none : listItems .none = [] := rfl

/-! ### the interface's components -/

@[simp] theorem ifaceF_call (P : Params) (k : Nat) : (ifaceF P (k + 1)).call = callD (ifaceF P k) := rfl
@[simp] theorem ifaceF_clsCall (P : Params) (k : Nat) : (ifaceF P (k + 1)).clsCall = clsCallD (ifaceF P k) := rfl
@[simp] theorem ifaceF_clsInit (P : Params) (k : Nat) : (ifaceF P (k + 1)).clsInit = clsInitD (ifaceF P k) := rfl
@[simp] theorem ifaceF_isSub (P : Params) (k : Nat) : (ifaceF P k).isSub = isSub := by cases k <;> rfl
@[simp] theorem ifaceF_classAttr (P : Params) (k : Nat) : (ifaceF P k).classAttr = findClassAttr := by cases k <;> rfl
@[simp] theorem ifaceF_method (P : Params) (k : Nat) : (ifaceF P k).method = methodD P := by cases k <;> rfl
@[simp] theorem ifaceF_reprInt (P : Params) (k : Nat) : (ifaceF P k).reprInt = P.reprInt := by cases k <;> rfl
@[simp] theorem ifaceF_reprFlt (P : Params) (k : Nat) : (ifaceF P k).reprFlt = P.reprFlt := by cases k <;> rfl

theorem callD_sqlrepr (I : Iface) (v db : Val) : callD I "sqlrepr" [v, db] = sqlreprD I v db := by
  simp [callD]

/-! ### facts read off the extracted tables (kernel evaluation) -/

theorem fm_SQLOp_sqlrepr : findMethod "SQLOp" "__sqlrepr__" = some SQLOp_sqlrepr := by rfl
theorem fm_SQLModulo_sqlrepr : findMethod "SQLModulo" "__sqlrepr__" = some SQLModulo_sqlrepr := by rfl
theorem fm_SQLPrefix_sqlrepr : findMethod "SQLPrefix" "__sqlrepr__" = some SQLPrefix_sqlrepr := by rfl
theorem fm_Field_sqlrepr : findMethod "SQLObjectField" "__sqlrepr__" = some Field_sqlrepr := by rfl
theorem conv_int : aget "int" converterTable = some "IntConverter" := by decide
theorem conv_float : aget "float" converterTable = some "FloatConverter" := by decide
theorem conv_none : aget "NoneType" converterTable = some "NoneConverter" := by decide
theorem conv_list : aget "list" converterTable = some "SequenceConverter" := by decide
theorem conv_tuple : aget "tuple" converterTable = some "SequenceConverter" := by decide
theorem ft_Int : aget "IntConverter" funcTable = some (f_IntConverter, false) := by rfl
theorem ft_Float : aget "FloatConverter" funcTable = some (f_FloatConverter, false) := by rfl
theorem ft_None : aget "NoneConverter" funcTable = some (f_NoneConverter, false) := by rfl
theorem ft_Seq : aget "SequenceConverter" funcTable = some (f_SequenceConverter, false) := by rfl

/-- no node of the hand model is a `Subquery` -/
theorem notSubquery_toVal (P : Params) (n : Node) : isSub (typeName (toVal P n)) "Subquery" = false := by
  cases n <;> simp only [toVal, mkOp, mkPrefix, fieldVal, typeName] <;> decide

/-! ### depth of a graph = levels of calls its rendering needs -/

def depth : Node → Nat
  | .sqlop _ l r => max (depth l) (depth r) + 1
  | .sqlin x l => max (depth x) (depth l) + 1
  | .modulo l r => max (depth l) (depth r) + 2
  | .prefix _ x => depth x + 1
  | .lcons h t => max (depth h + 1) (depth t)
  | _ => 0

/-- the renderers of the numeric leaves never return the empty string -/
def LeafOk (P : Params) : Prop := (∀ i, P.reprInt i ≠ []) ∧ (∀ n i, P.reprFlt n i ≠ [])

theorem renderS_ne_nil (P : Params) (d : String) (h : LeafOk P) (n : Node) : renderS P d n ≠ [] := by
  cases n <;> simp only [renderS, opStr, prefixStr, modStr, seqStr, nullText, modFnText]
  case int i => exact h.1 i
  case flt b i => exact h.2 b i
  case modulo l r => split <;> simp [opStr]
  all_goals simp

theorem map_toNat_inj : ∀ (a b : List Char), a.map Char.toNat = b.map Char.toNat → a = b
  | [], [], _ => rfl
  | [], _ :: _, h => by simp at h
  | _ :: _, [], h => by simp at h
  | x :: a, y :: b, h => by
    simp only [List.map_cons, List.cons.injEq] at h
    rw [Char.toNat_inj.mp h.1, map_toNat_inj a b h.2]

/-- the two lists are related item by item -/
inductive AllR {α β : Type} (r : α → β → Prop) : List α → List β → Prop where
  | nil : AllR r [] []
  | cons {a : α} {b : β} {l : List α} {m : List β} : r a b → AllR r l m → AllR r (a :: l) (b :: m)

theorem strOf_sqlite (d : String) : (strOf d = sqliteText) = (Expr.moduloInfix d = true) := by
  have e : sqliteText = strOf "sqlite" := by decide
  simp only [Expr.moduloInfix, Expr.Extracted.moduloInfixDialects, List.contains_cons, List.contains_nil,
    Bool.or_false, beq_iff_eq, e, strOf]
  apply propext
  constructor
  · intro h
    apply String.toList_injective
    exact map_toNat_inj _ _ h
  · intro h; rw [h]

/-- `SequenceConverter` with the items' renderings given as a list -/
theorem SequenceConverter_list (I : Iface) (db : Val) : ∀ (vs : List Val) (ss : List Str),
    AllR (fun v s => I.call "sqlrepr" [v, db] = .ok (.str s)) vs ss →
    run I f_SequenceConverter [.list vs, db] = .ret (.str (seqStr ss)) := by
  intro vs ss h
  have hm : mapR (fun v => I.call "sqlrepr" [v, db]) vs = .ok (ss.map Val.str) := by
    induction h with
    | nil => rfl
    | cons hx _ ih => simp only [mapR, hx, R.bind_ok, ih, List.map_cons]
  have hs := strsOf_map ss
  simp only [f_SequenceConverter, f_SequenceConverter_s0]
  pyx
  simp [seqStr]

/-- MAIN: `sqlrepr` of the image of a node, run by the translated programs, is the text-level hand model -/
theorem sqlrepr_toVal_aux (P : Params) (d : String) (hL : LeafOk P) : ∀ n : Node,
    (∀ k, depth n ≤ k → sqlreprD (ifaceF P k) (toVal P n) (.str (strOf d)) = .ok (.str (renderS P d n))) ∧
    (∀ k, depth n ≤ k + 1 → AllR (fun v s => sqlreprD (ifaceF P k) v (.str (strOf d)) = .ok (.str s))
      (listItems (toVal P n)) (itemsS P d n)) := by
  intro n
  induction n with
  | field c =>
    refine ⟨fun k _ => ?_, fun k _ => ?_⟩
    · simp only [toVal, fieldVal, sqlreprD, fm_Field_sqlrepr, renderS]
      rw [Field_sqlrepr_spec _ _ _ _ (P.table c) (P.field c) (by simp [aget]) (by simp [aget])]; rfl
    · simp only [toVal, fieldVal, mkOp, mkPrefix, listItems_list, listItems_obj, listItems_int, listItems_flt, listItems_none, itemsS]; exact .nil
  | int i =>
    refine ⟨fun k _ => ?_, fun k _ => ?_⟩
    · simp only [toVal, sqlreprD, typeName, conv_int, ft_Int, IntConverter_spec, renderS, ifaceF_reprInt]; rfl
    · simp only [toVal, fieldVal, mkOp, mkPrefix, listItems_list, listItems_obj, listItems_int, listItems_flt, listItems_none, itemsS]; exact .nil
  | flt b i =>
    refine ⟨fun k _ => ?_, fun k _ => ?_⟩
    · simp only [toVal, sqlreprD, typeName, conv_float, ft_Float, FloatConverter_spec, renderS, ifaceF_reprFlt]; rfl
    · simp only [toVal, fieldVal, mkOp, mkPrefix, listItems_list, listItems_obj, listItems_int, listItems_flt, listItems_none, itemsS]; exact .nil
  | none =>
    refine ⟨fun k _ => ?_, fun k _ => ?_⟩
    · simp only [toVal, sqlreprD, typeName, conv_none, ft_None, NoneConverter_spec, renderS]; rfl
    · simp only [toVal, fieldVal, mkOp, mkPrefix, listItems_list, listItems_obj, listItems_int, listItems_flt, listItems_none, itemsS]; exact .nil
  | sqlop o l r ihl ihr =>
    refine ⟨fun k hk => ?_, fun k _ => ?_⟩
    · obtain ⟨k, rfl⟩ : ∃ k', k = k' + 1 := ⟨k - 1, by simp only [depth] at hk; omega⟩
      simp only [depth] at hk
      have h1 := ihl.1 k (by omega)
      have h2 := ihr.1 k (by omega)
      simp only [toVal, mkOp, sqlreprD, fm_SQLOp_sqlrepr, renderS]
      rw [SQLOp_sqlrepr_spec (ifaceF P (k + 1)) _ _ _ (binText o) (renderS P d l) (renderS P d r) (toVal P l) (toVal P r)
        (by simp [aget]) (by simp [aget]) (by simp [aget])
        (by rw [ifaceF_call, callD_sqlrepr]; exact h1) (by rw [ifaceF_call, callD_sqlrepr]; exact h2)
        (renderS_ne_nil P d hL l) (renderS_ne_nil P d hL r)]
      rw [ifaceF_isSub, notSubquery_toVal]; rfl
    · simp only [toVal, fieldVal, mkOp, mkPrefix, listItems_list, listItems_obj, listItems_int, listItems_flt, listItems_none, itemsS]; exact .nil
  | sqlin x l ihl ihr =>
    refine ⟨fun k hk => ?_, fun k _ => ?_⟩
    · obtain ⟨k, rfl⟩ : ∃ k', k = k' + 1 := ⟨k - 1, by simp only [depth] at hk; omega⟩
      simp only [depth] at hk
      have h1 := ihl.1 k (by omega)
      have h2 := ihr.1 k (by omega)
      simp only [toVal, mkOp, sqlreprD, fm_SQLOp_sqlrepr, renderS]
      rw [SQLOp_sqlrepr_spec (ifaceF P (k + 1)) _ _ _ inText (renderS P d x) (renderS P d l) (toVal P x) (toVal P l)
        (by simp [aget]) (by simp [aget]) (by simp [aget])
        (by rw [ifaceF_call, callD_sqlrepr]; exact h1) (by rw [ifaceF_call, callD_sqlrepr]; exact h2)
        (renderS_ne_nil P d hL x) (renderS_ne_nil P d hL l)]
      rw [ifaceF_isSub, notSubquery_toVal]; rfl
    · simp only [toVal, fieldVal, mkOp, mkPrefix, listItems_list, listItems_obj, listItems_int, listItems_flt, listItems_none, itemsS]; exact .nil
  | modulo l r ihl ihr =>
    refine ⟨fun k hk => ?_, fun k _ => ?_⟩
    · obtain ⟨k, rfl⟩ : ∃ k', k = k' + 2 := ⟨k - 2, by simp only [depth] at hk; omega⟩
      simp only [depth] at hk
      have h1 := ihl.1 (k + 1) (by omega)
      have h2 := ihr.1 (k + 1) (by omega)
      have h1' := ihl.1 k (by omega)
      have h2' := ihr.1 k (by omega)
      simp only [toVal, mkOp, sqlreprD, fm_SQLModulo_sqlrepr, renderS]
      rw [SQLModulo_sqlrepr_spec (ifaceF P (k + 2)) _ _ _ (renderS P d l) (renderS P d r) (toVal P l) (toVal P r)
        (by simp [aget]) (by simp [aget])
        (by rw [ifaceF_call, callD_sqlrepr]; exact h1) (by rw [ifaceF_call, callD_sqlrepr]; exact h2)]
      by_cases hd : Expr.moduloInfix d = true
      · rw [if_pos ((strOf_sqlite d).mpr hd), if_pos hd]
        simp only [ifaceF_clsCall, clsCallD, fm_SQLOp_sqlrepr, toOut_toR]
        rw [SQLOp_sqlrepr_spec (ifaceF P (k + 1)) _ _ _ (binText .mod) (renderS P d l) (renderS P d r) (toVal P l) (toVal P r)
          (by simp [aget]) (by simp [aget]) (by simp [aget])
          (by rw [ifaceF_call, callD_sqlrepr]; exact h1') (by rw [ifaceF_call, callD_sqlrepr]; exact h2')
          (renderS_ne_nil P d hL l) (renderS_ne_nil P d hL r)]
        rw [ifaceF_isSub, notSubquery_toVal]; rfl
      · rw [if_neg (fun h => hd ((strOf_sqlite d).mp h)), if_neg hd]; rfl
    · simp only [toVal, fieldVal, mkOp, mkPrefix, listItems_list, listItems_obj, listItems_int, listItems_flt, listItems_none, itemsS]; exact .nil
  | «prefix» p x ih =>
    refine ⟨fun k hk => ?_, fun k _ => ?_⟩
    · obtain ⟨k, rfl⟩ : ∃ k', k = k' + 1 := ⟨k - 1, by simp only [depth] at hk; omega⟩
      simp only [depth] at hk
      have h1 := ih.1 k (by omega)
      simp only [toVal, mkPrefix, sqlreprD, fm_SQLPrefix_sqlrepr, renderS]
      rw [SQLPrefix_sqlrepr_spec (ifaceF P (k + 1)) _ _ _ (preText p) (renderS P d x) (toVal P x)
        (by simp [aget]) (by simp [aget]) (by rw [ifaceF_call, callD_sqlrepr]; exact h1)]
      rfl
    · simp only [toVal, fieldVal, mkOp, mkPrefix, listItems_list, listItems_obj, listItems_int, listItems_flt, listItems_none, itemsS]; exact .nil
  | lnil =>
    refine ⟨fun k _ => ?_, fun k _ => ?_⟩
    · simp only [toVal, sqlreprD, typeName, conv_list, ft_Seq, renderS]
      rw [SequenceConverter_list _ _ [] [] .nil]; rfl
    · simp only [toVal, listItems_list, itemsS]; exact .nil
  | lcons h t ihh iht =>
    have items : ∀ k, depth (.lcons h t) ≤ k + 1 →
        AllR (fun v s => sqlreprD (ifaceF P k) v (.str (strOf d)) = .ok (.str s))
          (listItems (toVal P (.lcons h t))) (itemsS P d (.lcons h t)) := by
      intro k hk
      simp only [depth] at hk
      simp only [toVal, listItems_list, itemsS]
      exact .cons (ihh.1 k (by omega)) (iht.2 k (by omega))
    refine ⟨fun k hk => ?_, items⟩
    obtain ⟨k, rfl⟩ : ∃ k', k = k' + 1 := ⟨k - 1, by simp only [depth] at hk; omega⟩
    have hi := items k hk
    simp only [toVal, listItems_list, itemsS] at hi
    simp only [toVal, sqlreprD, typeName, conv_list, ft_Seq, renderS]
    rw [SequenceConverter_list (ifaceF P (k + 1)) _ _ _ (by simpa only [ifaceF_call, callD_sqlrepr] using hi)]; rfl

/-- `sqlrepr(node, d)` computed by the translated source = the text-level hand model, for every node graph, every
    dialect string and `depth n` or more levels of calls -/
theorem sqlrepr_toVal (P : Params) (d : String) (hL : LeafOk P) (n : Node) (k : Nat) (hk : depth n ≤ k) :
    sqlreprX P k (toVal P n) (strOf d) = .ok (.str (renderS P d n)) := by
  rw [sqlreprX, ifaceF_call, callD_sqlrepr]
  exact (sqlrepr_toVal_aux P d hL n).1 k hk

end SqlObjVerif.ExprX
