import SqlObjVerif.Lemmas.FailChainJ
namespace SqlObjVerif.Fail

/-! ## the clean-up when the classes of the chain have dependents (none of which references the new id) -/

theorem linksQuiet_congr (K K' : Core) (h : K'.links = K.links) (t : Nat) (side : Bool) (vid : Nat) :
    linksQuiet K' t side vid = linksQuiet K t side vid := by
  unfold linksQuiet; rw [h]

theorem allPass_near {sch : Schema} {K K0 : Core} {pid t : Nat} {Pt Pi Pr : Nat → Prop}
    (h : Near K K0 pid Pt Pi Pr) (hin : ∀ c, Pt c → entryFk sch t c = [])
    (h0 : AllPass sch K0 t pid) : AllPass sch K t pid := by
  refine ⟨?_, ?_⟩
  · rw [← h0.1]
    congr 1; funext j
    exact linksQuiet_congr K0 K h.links _ _ _
  · intro kidx hk
    have hp := h0.2 kidx hk
    simp only [EntryPasses, Bool.and_eq_true, List.isEmpty_iff] at hp ⊢
    refine ⟨?_, ?_⟩
    · rw [← hp.1]
      unfold EntryLinksQuiet
      congr 1; funext j
      exact linksQuiet_congr K0 K h.links _ _ _
    · obtain ⟨ex, hex, _, hne⟩ := h.tabs kidx
      unfold refRowsK at hp ⊢
      rw [hex, List.filter_append, hp.2, List.nil_append]
      cases ex with
      | nil => rfl
      | cons a l =>
        rw [hin kidx (hne (by simp))]
        rw [List.filter_eq_nil_iff]
        intro r _
        simp [rowRefs]

/-- `destroySelf` of the newest ancestor instance: the rows of all ancestors go, root first -/
theorem run_destroy_chain (sch : Schema) (inj : Option Inj) (pid : Nat) (K0 : Core) (all : List Nat)
    (hinner : ∀ x ∈ all, ∀ c ∈ all, entryFk sch x c = []) :
    ∀ (L : List Nat) (fuel : Nat) (k : Prog) (s : St) {Pi Pr : Nat → Prop}, L ≠ [] → Chain sch L → L.length ≤ fuel →
      (∀ x ∈ L, x ∈ all ∧ AllPass sch K0 x pid ∧ Fresh0 K0 x pid ∧ x < K0.tabs.length) →
      Near s.core K0 pid (· ∈ all) Pi Pr →
      (∀ n, s.n < n → hit inj n = none) →
      ∃ s1, run sch inj (destroyProg sch fuel L.head! pid k) s = run sch inj k s1 ∧
        s1.core = rmAll L pid s.core ∧ s.n ≤ s1.n := by
  intro L
  induction L with
  | nil => intro _ _ _ _ _ h; exact absurd rfl h
  | cons t rest ih =>
    intro fuel k s Pi Pr _ hch hlen hx hnear hno
    cases fuel with
    | zero => simp at hlen
    | succ fuel =>
      have ht := hx t (by simp)
      -- the own part of `t`, from a state whose core is `K0` plus rows / instances of the chain
      have own : ∀ (s1 : St) {Pt' Pi' Pr' : Nat → Prop}, Near s1.core K0 pid Pt' Pi' Pr' → (∀ c, Pt' c → c ∈ all) →
          (∀ n, s1.n < n → hit inj n = none) →
          ∃ s2, run sch inj (.event 5 (ownLinksSeg (clsOf sch t) pid
              (depLoop (destroyProg sch fuel) sch t pid (List.range sch.length) (destroyTail t pid k)))) s1 =
            run sch inj k s2 ∧ s2.core = rmLevel s1.core t pid ∧ s1.n ≤ s2.n := by
        intro s1 Pt' Pi' Pr' hn1 hsub hno1
        have hap := allPass_near hn1 (fun c hc => hinner t ht.1 c (hsub c hc)) ht.2.1
        obtain ⟨s2, h2, hc2, hn2⟩ := QP_destroy_head sch inj s1.core (destroyProg sch fuel) t pid hap s1
          (destroyTail t pid k) rfl hno1
        obtain ⟨s3, h3, hc3, hn3⟩ := run_destroyTail sch inj t pid k s2 (hno1 _ (by omega))
        refine ⟨s3, ?_, by rw [hc3, hc2], by omega⟩
        simp only [run]
        rw [h2, h3]
      rw [show (t :: rest).head! = t from rfl, destroyProg]
      cases rest with
      | nil =>
        simp only [Chain] at hch
        simp only [hch]
        obtain ⟨s2, h2, hc2, hn2⟩ := own s hnear (fun c hc => hc) hno
        exact ⟨s2, h2, by rw [hc2]; rfl, hn2⟩
      | cons p rest' =>
        simp only [Chain] at hch
        simp only [hch.1]
        obtain ⟨s1, h1, hc1, hn1⟩ := ih fuel (.event 5 (ownLinksSeg (clsOf sch t) pid
              (depLoop (destroyProg sch fuel) sch t pid (List.range sch.length) (destroyTail t pid k)))) s
          (by simp) hch.2 (by simp at hlen ⊢; omega) (fun x hx' => hx x (by simp [hx'])) hnear hno
        rw [show (p :: rest').head! = p from rfl] at h1
        have hnear1 : Near s1.core K0 pid (fun c => c ∈ all ∧ c ∉ p :: rest') Pi (fun c => Pr c ∧ c ∉ p :: rest') := by
          rw [hc1]
          exact near_rmAll (p :: rest') hnear (fun x hx' => ⟨(hx x (by simp [hx'])).2.2.1, (hx x (by simp [hx'])).2.2.2⟩)
        obtain ⟨s2, h2, hc2, hn2⟩ := own s1 hnear1 (fun c hc => hc.1) (fun n hn => hno n (by omega))
        refine ⟨s2, by rw [h1, h2], ?_, by omega⟩
        rw [hc2, hc1]; rfl


/-! ## the chain inductions with dependents (classes of the chain may be referenced; nothing references the new id) -/

theorem createInh_casesD (sch : Schema) (inj : Option Inj) (hno : ∀ n, hit inj n = none) (fuel : Nat) (all : List Nat)
    (hinner : ∀ x ∈ all, ∀ c ∈ all, entryFk sch x c = []) :
    ∀ (L : List (Nat × List (Nat × In))), L ≠ [] → Chain sch (L.map (·.1)) →
      (∀ x ∈ L.map (·.1), x ∈ all) → L.length ≤ fuel →
    ∀ (k : Nat → Prog) (s : St),
      (∀ t ∈ L.map (·.1), t < s.core.tabs.length ∧ FreshIR s.core t (s.seqs.getD (rootOf L) 0 + 1) ∧
        AllPass sch s.core t (s.seqs.getD (rootOf L) 0 + 1)) →
      (∃ s1 e, run sch inj (createInh sch fuel L k) s = (s1, some e) ∧ s1.core = s.core) ∨
      (∃ s1, run sch inj (createInh sch fuel L k) s = run sch inj (k (s.seqs.getD (rootOf L) 0 + 1)) s1 ∧
        Near s1.core s.core (s.seqs.getD (rootOf L) 0 + 1) (· ∈ L.map (·.1)) (· ∈ L.map (·.1)) (· ∈ L.map (·.1)) ∧
        ∀ t ∈ L.map (·.1), Fresh0 s.core t (s.seqs.getD (rootOf L) 0 + 1)) := by
  intro L
  induction L with
  | nil => intro h; exact absurd rfl h
  | cons a rest ih =>
    intro _ hch hnd hlen k s hfr
    obtain ⟨c, kw⟩ := a
    cases rest with
    | nil =>
      -- the root
      have hc := hfr c (by simp)
      rw [show createInh sch fuel [(c, kw)] k = createProg sch c none false kw [] k by rw [createInh]]
      rcases run_create_root sch inj hno c kw k s with ⟨s1, e, h1, hc1⟩ | ⟨s1, h1, hc1, hrows⟩
      · exact .inl ⟨s1, e, h1, hc1⟩
      · have hf0 : Fresh0 s.core c (s.seqs.getD c 0 + 1) := ⟨hrows, hc.2.1.1, hc.2.1.2⟩
        refine .inr ⟨s1, h1, ?_, ?_⟩
        · rw [hc1]
          exact near_mono (near_mk c _ (near_refl s.core _) hf0 hc.1)
            (fun x hx => by simpa using hx) (fun x hx => by simpa using hx) (fun x hx => by simpa using hx)
        · intro t ht
          simp at ht; subst ht; exact hf0
    | cons b rest' =>
      obtain ⟨p, pkw⟩ := b
      simp only [List.map_cons, Chain] at hch
      have hroot : rootOf ((c, kw) :: (p, pkw) :: rest') = rootOf ((p, pkw) :: rest') := rfl
      rw [hroot] at hfr ⊢
      rw [createInh_step]
      have hanc := ih (by simp) (by simpa using hch.2) (fun x hx => hnd x (by simp at hx ⊢; exact .inr hx))
        (by simp at hlen ⊢; omega)
        (fun pid => .guard (childBody sch c pid kw) (destroyProg sch fuel p pid (drops ((p, pkw) :: rest') pid)) (k pid))
        s (fun t ht => hfr t (by simp at ht ⊢; exact .inr ht))
      generalize s.seqs.getD (rootOf ((p, pkw) :: rest')) 0 + 1 = pid at hanc hfr ⊢
      rcases hanc with ⟨s1, e, h1, hc1⟩ | ⟨s1, h1, hnear, hfresh⟩
      · exact .inl ⟨s1, e, h1, hc1⟩
      · rw [h1]
        simp only [run]
        have hcfr := hfr c (by simp)
        rcases run_childBody sch inj hno c pid kw s1 with ⟨s2, e, h2, hc2⟩ | ⟨s2, h2, hc2, hrows⟩
        · -- the level's own INSERT (or a value) failed: the clean-up restores everything
          left
          rw [h2]
          simp only
          obtain ⟨s3, h3, hc3, _⟩ := run_destroy_chain sch inj pid s.core all hinner (((p, pkw) :: rest').map (·.1)) fuel
            (drops ((p, pkw) :: rest') pid) s2 (by simp) (by simpa using hch.2) (by simp at hlen ⊢; omega)
            (fun x hx => ⟨hnd x (by simp at hx ⊢; exact .inr hx), (hfr x (by simp at hx ⊢; exact .inr hx)).2.2, hfresh x hx,
              (hfr x (by simp at hx ⊢; exact .inr hx)).1⟩)
            (by rw [hc2]; exact near_mono hnear (fun x hx => hnd x (by simp at hx ⊢; exact .inr hx)) (fun _ h => h) (fun _ h => h))
            (fun n _ => hno n)
          rw [show (((p, pkw) :: rest').map (·.1)).head! = p from rfl] at h3
          obtain ⟨s4, h4, hc4⟩ := run_drops sch inj pid ((p, pkw) :: rest') s3
          rw [h3]
          unfold drops
          rw [h4]
          refine ⟨s4, e, rfl, ?_⟩
          rw [hc4, hc3, hc2]
          exact restore _ hnear (fun t ht => ⟨hfresh t ht, (hfr t (by simp at ht ⊢; exact .inr ht)).1⟩)
        · -- this level is created too
          right
          rw [h2]
          simp only
          have hf0 : Fresh0 s.core c pid := by
            refine ⟨?_, hcfr.2.1.1, hcfr.2.1.2⟩
            intro row hrow
            obtain ⟨ex, hex, _, _⟩ := hnear.tabs c
            exact hrows row (by rw [hex]; exact List.mem_append_left _ hrow)
          refine ⟨s2, rfl, ?_, ?_⟩
          · rw [hc2]
            exact near_mono (near_mk c _ hnear hf0 (by rw [hnear.len]; exact hcfr.1))
              (fun x hx => by simp at hx ⊢; exact hx.symm) (fun x hx => by simp at hx ⊢; exact hx.symm)
              (fun x hx => by simp at hx ⊢; exact hx.symm)
          · intro t ht
            simp at ht
            rcases ht with rfl | ht
            · exact hf0
            · exact hfresh t (by simp; exact ht)


theorem createInh_casesJD (sch : Schema) (inj : Option Inj) (J : Nat) (hJ : ∀ n, n ≠ J → hit inj n = none) (fuel : Nat) (all : List Nat)
    (hinner : ∀ x ∈ all, ∀ c ∈ all, entryFk sch x c = []) :
    ∀ (L : List (Nat × List (Nat × In))), L ≠ [] → Chain sch (L.map (·.1)) → (L.map (·.1)).Nodup →
      (∀ x ∈ L.map (·.1), x ∈ all) → L.length ≤ fuel →
    ∀ (k : Nat → Prog) (s : St),
      (∀ t ∈ L.map (·.1), t < s.core.tabs.length ∧ FreshIR s.core t (s.seqs.getD (rootOf L) 0 + 1) ∧
        AllPass sch s.core t (s.seqs.getD (rootOf L) 0 + 1)) →
      LvOK sch s.core (s.seqs.getD (rootOf L) 0 + 1) s.n J L →
      (∃ s1 e, run sch inj (createInh sch fuel L k) s = (s1, some e) ∧ s1.core = s.core) ∨
      (∃ s1, run sch inj (createInh sch fuel L k) s = run sch inj (k (s.seqs.getD (rootOf L) 0 + 1)) s1 ∧
        Near s1.core s.core (s.seqs.getD (rootOf L) 0 + 1) (· ∈ L.map (·.1)) (· ∈ L.map (·.1)) (· ∈ L.map (·.1)) ∧
        (∀ t ∈ L.map (·.1), Fresh0 s.core t (s.seqs.getD (rootOf L) 0 + 1)) ∧ s1.n = s.n + 2 * L.length) := by
  intro L
  induction L with
  | nil => intro h; exact absurd rfl h
  | cons a rest ih =>
    intro _ hch hnd hdeps hlen k s hfr hok
    obtain ⟨c, kw⟩ := a
    cases rest with
    | nil =>
      have hc := hfr c (by simp)
      simp only [LvOK, List.length_nil, Nat.mul_zero, Nat.add_zero, true_and] at hok
      rw [show createInh sch fuel [(c, kw)] k = createProg sch c none false kw [] k by rw [createInh]]
      rcases run_create_root_J sch inj J hJ c kw k s hok.1 hok.2.1 hok.2.2 with ⟨s1, e, h1, hc1, _⟩ | ⟨s1, h1, hc1, hrows, hn1⟩
      · exact .inl ⟨s1, e, h1, hc1⟩
      · have hf0 : Fresh0 s.core c (s.seqs.getD c 0 + 1) := ⟨hrows, hc.2.1.1, hc.2.1.2⟩
        refine .inr ⟨s1, h1, ?_, ?_, by simpa using hn1⟩
        · rw [hc1]
          exact near_mono (near_mk c _ (near_refl s.core _) hf0 hc.1)
            (fun x hx => by simpa using hx) (fun x hx => by simpa using hx) (fun x hx => by simpa using hx)
        · intro t ht
          simp at ht; subst ht; exact hf0
    | cons b rest' =>
      obtain ⟨p, pkw⟩ := b
      simp only [List.map_cons, Chain] at hch
      have hroot : rootOf ((c, kw) :: (p, pkw) :: rest') = rootOf ((p, pkw) :: rest') := rfl
      rw [hroot] at hfr hok ⊢
      rw [createInh_step]
      have hnd' : c ∉ ((p, pkw) :: rest').map (·.1) ∧ (((p, pkw) :: rest').map (·.1)).Nodup :=
        List.nodup_cons.mp hnd
      have hcnot := hnd'.1
      have hanc := ih (by simp) (by simpa using hch.2) hnd'.2
        (fun x hx => hdeps x (by simp at hx ⊢; exact .inr hx))
        (by simp at hlen ⊢; omega)
        (fun pid => .guard (childBody sch c pid kw) (destroyProg sch fuel p pid (drops ((p, pkw) :: rest') pid)) (k pid))
        s (fun t ht => hfr t (by simp at ht ⊢; exact .inr ht)) hok.1
      generalize s.seqs.getD (rootOf ((p, pkw) :: rest')) 0 + 1 = pid at hanc hfr hok ⊢
      rcases hanc with ⟨s1, e, h1, hc1⟩ | ⟨s1, h1, hnear, hfresh, hn1⟩
      · exact .inl ⟨s1, e, h1, hc1⟩
      · rw [h1]
        simp only [run]
        have hcfr := hfr c (by simp)
        have htab : s1.core.tabs.getD c [] = s.core.tabs.getD c [] := by
          obtain ⟨ex, hex, _, hne⟩ := hnear.tabs c
          have : ex = [] := by
            cases ex with
            | nil => rfl
            | cons a l => exact absurd (hne (by simp)) hcnot
          rw [hex, this, List.append_nil]
        rcases run_childBody_J sch inj J hJ c pid kw s1
            (by rw [hn1]; exact hok.2.1)
            (by rw [hn1, insertOk_congr sch s.core s1.core c pid _ htab]; exact hok.2.2.1)
            (by rw [hn1]; exact hok.2.2.2) with ⟨s2, e, h2, hc2, hJle⟩ | ⟨s2, h2, hc2, hrows, hn2⟩
        · left
          rw [h2]
          simp only
          obtain ⟨s3, h3, hc3, _⟩ := run_destroy_chain sch inj pid s.core all hinner (((p, pkw) :: rest').map (·.1)) fuel
            (drops ((p, pkw) :: rest') pid) s2 (by simp) (by simpa using hch.2) (by simp at hlen ⊢; omega)
            (fun x hx => ⟨hdeps x (by simp at hx ⊢; exact .inr hx), (hfr x (by simp at hx ⊢; exact .inr hx)).2.2, hfresh x hx,
              (hfr x (by simp at hx ⊢; exact .inr hx)).1⟩)
            (by rw [hc2]; exact near_mono hnear (fun x hx => hdeps x (by simp at hx ⊢; exact .inr hx)) (fun _ h => h) (fun _ h => h))
            (fun n hn => hJ n (by omega))
          rw [show (((p, pkw) :: rest').map (·.1)).head! = p from rfl] at h3
          obtain ⟨s4, h4, hc4⟩ := run_drops sch inj pid ((p, pkw) :: rest') s3
          rw [h3]
          unfold drops
          rw [h4]
          refine ⟨s4, e, rfl, ?_⟩
          rw [hc4, hc3, hc2]
          exact restore _ hnear (fun t ht => ⟨hfresh t ht, (hfr t (by simp at ht ⊢; exact .inr ht)).1⟩)
        · right
          rw [h2]
          simp only
          have hf0 : Fresh0 s.core c pid := by
            refine ⟨?_, hcfr.2.1.1, hcfr.2.1.2⟩
            intro row hrow
            exact hrows row (by rw [htab]; exact hrow)
          refine ⟨s2, rfl, ?_, ?_, ?_⟩
          · rw [hc2]
            exact near_mono (near_mk c _ hnear hf0 (by rw [hnear.len]; exact hcfr.1))
              (fun x hx => by simp at hx ⊢; exact hx.symm) (fun x hx => by simp at hx ⊢; exact hx.symm)
              (fun x hx => by simp at hx ⊢; exact hx.symm)
          · intro t ht
            simp at ht
            rcases ht with rfl | ht
            · exact hf0
            · exact hfresh t (by simp; exact ht)
          · rw [hn2, hn1]; simp; omega


end SqlObjVerif.Fail
