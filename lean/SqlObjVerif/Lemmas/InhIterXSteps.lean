import SqlObjVerif.Lemmas.InhIterXNext
/-!
The TRANSLATED `InheritableIteration.next`, every kind of step: a row left in the batch (`next_in_batch`), empty batch with
rows pending on the own cursor (`next_refill`: `fetchmany()` + the translated `fetchChildren`, then the first row of the new
batch), nothing left (`next_stop`: `StopIteration`).
-/
set_option linter.unusedSimpArgs false
namespace SqlObjVerif.InhIter
open SqlObjVerif.PyIS
open SqlObjVerif.PyIS.Extracted
open SqlObjVerif.InhSel (toList_ofList isListVal_ofList)

theorem childrenOf_isList (crows : Nat → Sql → List (Nat × Val)) : ∀ (gl : GL) (acc : Val), isListVal acc = true →
    isListVal (childrenOf crows gl acc) = true := by
  intro gl
  induction gl with
  | nil => intro acc h; exact h
  | cons p gl ih => intro acc h; exact ih _ (storeFold_isList _ _ h)

/-- the rows are rows of the source class: with a `childName` column at index `n` they have `n` own columns -/
def RowsOK (X : ICtx) (rs : List (Nat × List Val × Option Nat)) : Prop :=
  ∀ n, X.cni = some n → ∀ r, r ∈ rs → r.2.1.length = n

/-- `fetchChildren()` on any batch: the own cursor and the batch are untouched, `_childrenResults` is a dict again -/
theorem fetch_any (X : ICtx) (crows : Nat → Sql → List (Nat × Val))
    (hrf : ∀ d e, X.rowsFor d e = (crows d e).map crowV) (hgood : ∀ d e r, r ∈ crows d e → isListVal r.2 = true)
    (w : IW) (rs : List (Nat × List Val × Option Nat)) (hres : w.results = Val.ofList (rs.map rowOf))
    (hok : RowsOK X rs) :
    ∃ w', fetchChildrenX X w = .ret w' .none ∧ w'.c1 = w.c1 ∧ w'.results = w.results ∧
      isListVal w'.children = true := by
  cases hc : X.cni with
  | some n =>
    refine ⟨_, fetchChildrenX_eq X crows hrf hgood n hc w rs hres (hok n hc), rfl, rfl, ?_⟩
    exact childrenOf_isList crows _ _ rfl
  | none =>
    refine ⟨{ w with children := .nil }, ?_, rfl, rfl, rfl⟩
    unfold fetchChildrenX fetchChildrenProg
    itrun [hc, cniVal]

def headOf : Block → Stmt
  | .cons s _ => s
  | .nil => .pass
def tailOf : Block → Block
  | .cons _ r => r
  | .nil => .nil

theorem iterNext_split : iterNextProg = .cons (headOf iterNextProg) (tailOf iterNextProg) := rfl

theorem exec_cons' {W : Type} (I : Iface W) (cur : Option Exc) (st : St W) (s : Stmt) (rest : Block) :
    Block.exec I cur st (.cons s rest) = (s.exec I cur st).seq fun st' => rest.exec I cur st' := by
  rw [Block.exec]

/-- the refill statement does nothing while the batch has rows -/
theorem head_noop (X : NCtx) (w : IW) (env : Env) (a b : Val) (hres : w.results = .cons a b) :
    (headOf iterNextProg).exec (nIface X) none ⟨w, env⟩ = .norm ⟨w, env⟩ := by
  unfold iterNextProg
  nxrun [headOf, hres]

/-- the rest of `next()` with a row in the batch -/
theorem tail_batch (X : NCtx) (w : IW) (env : Env) (r : Nat × List Val × Option Nat) (rest : List Val)
    (hres : w.results = .cons (rowOf r) (Val.ofList rest)) (hch : isListVal w.children = true) :
    ((tailOf iterNextProg).exec (nIface X) none ⟨w, env⟩).toCall =
      .ret { w with results := Val.ofList rest, children := chAfter w.children r.1 }
        (X.getRes r.1 (Val.ofList (r.2.1 ++ [tagV r.2.2])) (crOf w.children r.1)) := by
  unfold iterNextProg
  have hl : isListVal (Val.ofList rest) = true := isListVal_ofList _
  cases hg : vdGet (.nat r.1) w.children with
  | none =>
    nxrun [tailOf, hres, hch, rowOf, rowV, isListVal, vlIdx, vlLen, vlDelIdx, vlDrop, hl, hg, crOf, chAfter,
      isListVal_ofList, vdHas]
  | some cr =>
    nxrun [tailOf, hres, hch, rowOf, rowV, isListVal, vlIdx, vlLen, vlDelIdx, vlDrop, hl, hg, crOf, chAfter,
      isListVal_ofList, vdHas]

/-- … and with an empty batch: `StopIteration` -/
theorem tail_stop (X : NCtx) (w : IW) (env : Env) (hres : w.results = .nil) :
    ((tailOf iterNextProg).exec (nIface X) none ⟨w, env⟩).toCall = .exc w ⟨.stopIteration, 0⟩ := by
  unfold iterNextProg
  nxrun [tailOf, hres]


/-- the refill statement with an empty batch: `fetchmany()` moves the next `X.batch` rows from the own cursor into the
    batch, then `fetchChildren()` -/
theorem head_refill (X : NCtx) (crows : Nat → Sql → List (Nat × Val))
    (hrf : ∀ d e, X.I.rowsFor d e = (crows d e).map crowV) (hgood : ∀ d e r, r ∈ crows d e → isListVal r.2 = true)
    (w : IW) (env : Env) (pend : List (Nat × List Val × Option Nat)) (hres : w.results = .nil)
    (hc1 : w.c1 = pend.map rowOf) (hok : RowsOK X.I pend) :
    ∃ w2 env2, (headOf iterNextProg).exec (nIface X) none ⟨w, env⟩ = .norm ⟨w2, env2⟩ ∧
      w2.c1 = (pend.drop X.batch).map rowOf ∧ w2.results = Val.ofList ((pend.take X.batch).map rowOf) ∧
      isListVal w2.children = true := by
  have hok' : RowsOK X.I (pend.take X.batch) := fun n hn r hr => hok n hn r (List.mem_of_mem_take hr)
  obtain ⟨w', hf, h1, h2, h3⟩ := fetch_any X.I crows hrf hgood
    { w with c1 := w.c1.drop X.batch, results := Val.ofList ((pend.take X.batch).map rowOf) }
    (pend.take X.batch) rfl hok'
  refine ⟨w', env.put 0 (Val.ofList ((pend.map rowOf).take X.batch)), ?_, ?_, h2, h3⟩
  · unfold iterNextProg
    have ht : w.c1.take X.batch = (pend.take X.batch).map rowOf := by rw [hc1, List.map_take]
    rw [List.map_take, hc1] at hf
    nxrun [headOf, hres, isListVal_ofList, hc1, hf]
  · rw [h1]; simp [hc1, List.map_drop]

theorem nextX_unfold (X : NCtx) (w : IW) :
    nextX X w = (((headOf iterNextProg).exec (nIface X) none ⟨w, Env.ofArgs [] 0⟩).seq
      fun st' => (tailOf iterNextProg).exec (nIface X) none st').toCall := by
  unfold nextX PyIS.run
  rw [iterNext_split, exec_cons']
  rfl

def deliver (X : NCtx) (r : Nat × List Val × Option Nat) (cr : Val) : Val :=
  X.getRes r.1 (Val.ofList (r.2.1 ++ [tagV r.2.2])) cr

/-- where the iteration stands: the rows of the current batch, the rows pending on the own cursor -/
structure Stands (w : IW) (batch pend : List (Nat × List Val × Option Nat)) : Prop where
  res : w.results = Val.ofList (batch.map rowOf)
  c1 : w.c1 = pend.map rowOf
  ch : isListVal w.children = true

/-- one `next()` with a row in the batch -/
theorem next_in_batch (X : NCtx) (w : IW) (r) (batch pend : List (Nat × List Val × Option Nat))
    (hs : Stands w (r :: batch) pend) :
    ∃ w' cr, nextX X w = .ret w' (deliver X r cr) ∧ Stands w' batch pend := by
  have hres : w.results = .cons (rowOf r) (Val.ofList (batch.map rowOf)) := by rw [hs.res]; rfl
  refine ⟨{ w with results := Val.ofList (batch.map rowOf), children := chAfter w.children r.1 }, crOf w.children r.1,
    ?_, ?_⟩
  · rw [nextX_unfold, head_noop X w _ _ _ hres]
    exact tail_batch X w _ r _ hres hs.ch
  · refine ⟨rfl, hs.c1, ?_⟩
    show isListVal (chAfter w.children r.1) = true
    unfold chAfter
    split
    · exact isListVal_vdDel _ _ hs.ch
    · exact hs.ch

/-- one `next()` with an empty batch and nothing pending: `StopIteration` -/
theorem next_stop (X : NCtx) (crows : Nat → Sql → List (Nat × Val))
    (hrf : ∀ d e, X.I.rowsFor d e = (crows d e).map crowV) (hgood : ∀ d e r, r ∈ crows d e → isListVal r.2 = true)
    (w : IW) (hs : Stands w [] []) :
    ∃ w', nextX X w = .exc w' ⟨.stopIteration, 0⟩ := by
  obtain ⟨w2, env2, hh, _, h2, _⟩ := head_refill X crows hrf hgood w (Env.ofArgs [] 0) [] hs.res hs.c1
    (fun _ _ _ hr => by cases hr)
  refine ⟨w2, ?_⟩
  rw [nextX_unfold, hh]
  exact tail_stop X w2 env2 (by rw [h2, List.take_nil]; rfl)

/-- one `next()` with an empty batch and rows pending: the next batch is fetched, its first row delivered -/
theorem next_refill (X : NCtx) (hB : 1 ≤ X.batch) (crows : Nat → Sql → List (Nat × Val))
    (hrf : ∀ d e, X.I.rowsFor d e = (crows d e).map crowV) (hgood : ∀ d e r, r ∈ crows d e → isListVal r.2 = true)
    (w : IW) (p) (pend : List (Nat × List Val × Option Nat)) (hok : RowsOK X.I (p :: pend))
    (hs : Stands w [] (p :: pend)) :
    ∃ w' cr, nextX X w = .ret w' (deliver X p cr) ∧
      Stands w' ((p :: pend).take X.batch).tail ((p :: pend).drop X.batch) := by
  obtain ⟨w2, env2, hh, h1, h2, h3⟩ := head_refill X crows hrf hgood w (Env.ofArgs [] 0) (p :: pend) hs.res hs.c1 hok
  obtain ⟨B, hBe⟩ : ∃ B, X.batch = B + 1 := ⟨X.batch - 1, by omega⟩
  have htake : (p :: pend).take X.batch = p :: pend.take B := by rw [hBe]; rfl
  have hres : w2.results = .cons (rowOf p) (Val.ofList ((pend.take B).map rowOf)) := by rw [h2, htake]; rfl
  refine ⟨{ w2 with results := Val.ofList ((pend.take B).map rowOf), children := chAfter w2.children p.1 },
    crOf w2.children p.1, ?_, ?_⟩
  · rw [nextX_unfold, hh]
    exact tail_batch X w2 env2 p _ hres h3
  · refine ⟨by rw [htake]; rfl, h1, ?_⟩
    show isListVal (chAfter w2.children p.1) = true
    unfold chAfter
    split
    · exact isListVal_vdDel _ _ h3
    · exact h3

end SqlObjVerif.InhIter
