import SqlObjVerif.Lemmas.CodecWBase
/-!
# CodecW — the translated `_SO_getValue`; facts about the class / connection records (kept folded in the proofs)
-/
namespace SqlObjVerif.CodecW
open SqlObjVerif.Codec (PyVal ColT DbVal)
open SqlObjVerif.PyMainV
open SqlObjVerif.PyMainV.Extracted

theorem k_hasTo (C : Cls) (c : Nat) (hc : c < C.n) : (klassOf C).hasTo c = true := by
  simp [klassOf, Nat.blt_eq, hc]
theorem k_hasFrom (C : Cls) (c : Nat) (hc : c < C.n) : (klassOf C).hasFrom c = true := by
  simp [klassOf, Nat.blt_eq, hc]
theorem k_ncols (C : Cls) : (klassOf C).ncols = C.n := rfl
theorem k_lazy (C : Cls) : (klassOf C).lazyUpdate = C.lazyUpdate := rfl
theorem k_cache (C : Cls) : (klassOf C).cacheValues = C.cacheValues := rfl
theorem conn_sel (C : Cls) (g : Row) (cols : List Nat) :
    (conn C).selectOne g cols = some (g, some (cols.map fun c => Codec.fetch (g c))) := rfl
theorem conn_upd (C : Cls) (g : Row) (p : List (Nat × PyVal)) : (conn C).update g p = applyUpd C g p := rfl

/-- how a value-returning method ends when its last step is a validator call -/
def getOut (w : World Row) : Codec.Res PyVal → Outcome Row
  | .ok x => .ret w (.val x)
  | .invalid => .exc w .invalid
  | .reject => .exc w .other
  | .unmodelled => .unmodelled

theorem outRes_getOut (w : World Row) (r : Codec.Res PyVal) : outRes (getOut w r) = some r := by
  cases r <;> rfl

/-- `_SO_getValue(col c)` of a live instance: `to_python` of the fetched cell; the world is unchanged -/
theorem getValueX_eq (C : Cls) (o : Obj) (g : Row) (c : Nat) (hc : c < C.n) (hob : o.obsolete = false) :
    getValueX C (worldOf C o g) c = getOut (worldOf C o g) ((klassOf C).dec c (Codec.fetch (g c))) := by
  have h1 := k_hasTo C c hc
  have h2 := k_ncols C
  have h3 := conn_sel C
  unfold getValueX getValueProg getValue_nlocals getValue_nlists getValue_ndicts worldOf
  cases hd : (klassOf C).dec c (Codec.fetch (g c)) <;> pvrun <;> simp [getOut]

end SqlObjVerif.CodecW
