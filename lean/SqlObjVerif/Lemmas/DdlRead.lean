import SqlObjVerif.Model.DdlSyn
/-! # C14 — lemmas about the DDL reader (frame property, fragments, groups, string literals) -/
namespace SqlObjVerif.Ddl
def Quiet (m : Mode) : Prop := m = .top ∨ m = .strQ
instance : DecidablePred Quiet := fun m => by unfold Quiet; infer_instance

theorem run_append (bs : Bool) (s : St) (a b : Str) : run bs s (a ++ b) = run bs (run bs s a) b := by
  simp [run, List.foldl_append]

theorem run_cons (bs : Bool) (s : St) (c : Nat) (cs : Str) : run bs s (c :: cs) = run bs (step bs s c) cs := rfl
theorem run_nil (bs : Bool) (s : St) : run bs s [] = s := rfl

theorem emitted_append (cur : Str) (out e : List Tok) : emitted cur (out ++ e) = emitted cur out ++ e := by
  cases cur <;> simp [emitted]

/-- frame: the machine never looks at `out`, it only pushes onto it -/
def addOut (s : St) (e : List Tok) : St := ⟨s.mode, s.depth, s.cur, s.out ++ e⟩

theorem stepTop_frame (s : St) (c : Nat) (e : List Tok) :
    stepTop (addOut s e) c = addOut (stepTop s c) e := by
  obtain ⟨m, d, cur, out⟩ := s
  cases d with
  | zero =>
    simp only [stepTop, addOut]
    split <;> (try split) <;> (try split) <;> (try split) <;> (try split) <;> simp [emitted_append]
  | succ k =>
    simp only [stepTop, addOut]
    split <;> (try split) <;> (try split) <;> simp

theorem step_frame (bs : Bool) (s : St) (c : Nat) (e : List Tok) :
    step bs (addOut s e) c = addOut (step bs s c) e := by
  obtain ⟨m, d, cur, out⟩ := s
  cases m
  · exact stepTop_frame _ c e
  · simp only [step, addOut]; split <;> (try split) <;> simp
  · simp only [step, addOut]
    split
    · simp
    · exact stepTop_frame ⟨.strQ, d, cur, out⟩ c e
  · simp [step, addOut]
  · simp [step, addOut]

theorem run_frame (bs : Bool) (s : St) (cs : Str) (e : List Tok) :
    run bs (addOut s e) cs = addOut (run bs s cs) e := by
  induction cs generalizing s with
  | nil => rfl
  | cons c cs ih => simp only [run_cons, step_frame, ih]


/-- A fragment: preceded by one blank and run from any quiet state at column level it comes back to
    a quiet state at column level, having emitted exactly `toks` (the last word possibly pending). -/
def Frag (bs : Bool) (f : Str) (toks : List Tok) : Prop :=
  ∀ s : St, Quiet s.mode → s.depth = 0 →
    Quiet (run bs s (32 :: f)).mode ∧ (run bs s (32 :: f)).depth = 0 ∧
      emitted (run bs s (32 :: f)).cur (run bs s (32 :: f)).out = toks.reverse ++ emitted s.cur s.out

theorem step_blank (bs : Bool) (s : St) (hq : Quiet s.mode) (hd : s.depth = 0) :
    step bs s 32 = ⟨.top, 0, [], emitted s.cur s.out⟩ := by
  obtain ⟨m, d, cur, out⟩ := s
  simp only at hd; subst hd
  rcases hq with h | h <;> simp only at h <;> subst h <;> simp [step, stepTop, isBlank]

/-- decidable check of a fragment by running the reader on it alone -/
def fragCheck (bs : Bool) (f : Str) : Option (List Tok) :=
  let r := run bs init (32 :: f)
  if (r.mode = .top ∨ r.mode = .strQ) ∧ r.depth = 0 then some (emitted r.cur r.out).reverse else none

theorem frag_of_check (bs : Bool) (f : Str) (toks : List Tok) (h : fragCheck bs f = some toks) :
    Frag bs f toks := by
  intro s hq hd
  have h0 : run bs s (32 :: f) = addOut (run bs init (32 :: f)) (emitted s.cur s.out) := by
    rw [run_cons, step_blank bs s hq hd]
    have : (⟨.top, 0, [], emitted s.cur s.out⟩ : St) = addOut (step bs init 32) (emitted s.cur s.out) := by
      simp [addOut, step, init, stepTop, isBlank, emitted]
    rw [this, run_frame]
    rfl
  unfold fragCheck at h
  simp only at h
  split at h
  · rename_i hc
    simp only [Option.some.injEq] at h
    rw [h0]
    refine ⟨hc.1, hc.2, ?_⟩
    simp only [addOut, emitted_append]
    rw [← h]; simp
  · simp at h

theorem frag_append (bs : Bool) (f1 f2 : Str) (t1 t2 : List Tok) (h1 : Frag bs f1 t1) (h2 : Frag bs f2 t2) :
    Frag bs (f1 ++ 32 :: f2) (t1 ++ t2) := by
  intro s hq hd
  have e : run bs s (32 :: (f1 ++ 32 :: f2)) = run bs (run bs s (32 :: f1)) (32 :: f2) := by
    rw [← List.cons_append, run_append]
  obtain ⟨a1, a2, a3⟩ := h1 s hq hd
  obtain ⟨b1, b2, b3⟩ := h2 _ a1 a2
  rw [e]
  refine ⟨b1, b2, ?_⟩
  rw [b3, a3]; simp

theorem frag_nil (bs : Bool) : Frag bs [] [] := frag_of_check bs [] [] (by cases bs <;> decide)


def isPlain (c : Nat) : Bool := !isBlank c && c != 44 && c != 40 && c != 41 && c != 39

theorem stepTop_plain (m : Mode) (cur : Str) (out : List Tok) (c : Nat) (h : isPlain c = true) :
    stepTop ⟨m, 0, cur, out⟩ c = ⟨.top, 0, c :: cur, out⟩ := by
  simp only [isPlain, Bool.and_eq_true, Bool.not_eq_true', bne_iff_ne, ne_eq] at h
  obtain ⟨⟨⟨⟨h1, h2⟩, h3⟩, h4⟩, h5⟩ := h
  simp [stepTop, h1, h2, h3, h4, h5]

theorem run_plain_top (bs : Bool) (cur : Str) (out : List Tok) (w : Str) (h : ∀ c ∈ w, isPlain c = true) :
    run bs ⟨.top, 0, cur, out⟩ w = ⟨.top, 0, w.reverse ++ cur, out⟩ := by
  induction w generalizing cur with
  | nil => rfl
  | cons c w ih =>
    rw [run_cons]
    have : step bs ⟨.top, 0, cur, out⟩ c = ⟨.top, 0, c :: cur, out⟩ := by
      simp only [step]; exact stepTop_plain _ _ _ _ (h c (by simp))
    rw [this, ih _ (fun x hx => h x (by simp [hx]))]
    simp

/-- a word, standing as a fragment of its own -/
theorem frag_word (bs : Bool) (w : Str) (hne : w ≠ []) (h : ∀ c ∈ w, isPlain c = true) :
    Frag bs w [.w w] := by
  intro s hq hd
  rw [run_cons, step_blank bs s hq hd, run_plain_top bs _ _ w h]
  refine ⟨Or.inl rfl, rfl, ?_⟩
  cases hw : w.reverse with
  | nil => simp at hw; exact absurd hw hne
  | cons a l =>
    simp only [List.append_nil, emitted]
    rw [← hw]; simp

/-- inside parentheses: back to a quiet state at the same depth, nothing emitted -/
def Inner (bs : Bool) (g : Str) : Prop :=
  ∀ s : St, Quiet s.mode → 1 ≤ s.depth →
    Quiet (run bs s g).mode ∧ (run bs s g).depth = s.depth ∧ (run bs s g).cur = s.cur ∧ (run bs s g).out = s.out

theorem inner_nil (bs : Bool) : Inner bs [] := fun _ hq _ => ⟨hq, rfl, rfl, rfl⟩

theorem inner_append (bs : Bool) (a b : Str) (ha : Inner bs a) (hb : Inner bs b) : Inner bs (a ++ b) := by
  intro s hq hd
  rw [run_append]
  obtain ⟨a1, a2, a3, a4⟩ := ha s hq hd
  obtain ⟨b1, b2, b3, b4⟩ := hb _ a1 (by omega)
  exact ⟨b1, by omega, by rw [b3, a3], by rw [b4, a4]⟩

def isPlainIn (c : Nat) : Bool := c != 40 && c != 41 && c != 39

theorem step_plainIn (bs : Bool) (s : St) (hq : Quiet s.mode) (hd : 1 ≤ s.depth) (c : Nat) (h : isPlainIn c = true) :
    step bs s c = ⟨.top, s.depth, s.cur, s.out⟩ := by
  obtain ⟨m, d, cur, out⟩ := s
  simp only [isPlainIn, Bool.and_eq_true, bne_iff_ne, ne_eq] at h
  obtain ⟨⟨h1, h2⟩, h3⟩ := h
  simp only at hd
  obtain ⟨k, rfl⟩ : ∃ k, d = k + 1 := ⟨d - 1, by omega⟩
  rcases hq with hm | hm <;> simp only at hm <;> subst hm <;> simp [step, stepTop, h1, h2, h3]

theorem inner_plain (bs : Bool) (g : Str) (h : ∀ c ∈ g, isPlainIn c = true) : Inner bs g := by
  induction g with
  | nil => exact inner_nil bs
  | cons c g ih =>
    intro s hq hd
    rw [run_cons, step_plainIn bs s hq hd c (h c (by simp))]
    obtain ⟨a1, a2, a3, a4⟩ := ih (fun x hx => h x (by simp [hx])) ⟨.top, s.depth, s.cur, s.out⟩ (Or.inl rfl) hd
    exact ⟨a1, a2, a3, a4⟩

theorem step_open_in (bs : Bool) (s : St) (hq : Quiet s.mode) (hd : 1 ≤ s.depth) :
    step bs s 40 = ⟨.top, s.depth + 1, s.cur, s.out⟩ := by
  obtain ⟨m, d, cur, out⟩ := s
  simp only at hd
  obtain ⟨k, rfl⟩ : ∃ k, d = k + 1 := ⟨d - 1, by omega⟩
  rcases hq with hm | hm <;> simp only at hm <;> subst hm <;> simp [step, stepTop]

theorem step_close_in (bs : Bool) (s : St) (hq : Quiet s.mode) (hd : 1 ≤ s.depth) :
    step bs s 41 = ⟨.top, s.depth - 1, s.cur, s.out⟩ := by
  obtain ⟨m, d, cur, out⟩ := s
  simp only at hd
  obtain ⟨k, rfl⟩ : ∃ k, d = k + 1 := ⟨d - 1, by omega⟩
  rcases hq with hm | hm <;> simp only at hm <;> subst hm <;> simp [step, stepTop]

theorem inner_paren (bs : Bool) (g : Str) (hg : Inner bs g) : Inner bs (40 :: (g ++ [41])) := by
  intro s hq hd
  rw [run_cons, step_open_in bs s hq hd, run_append]
  obtain ⟨a1, a2, a3, a4⟩ := hg ⟨.top, s.depth + 1, s.cur, s.out⟩ (Or.inl rfl) (by simp)
  rw [run_cons, run_nil, step_close_in bs _ a1 (by rw [a2]; simp)]
  simp only at a2 a3 a4
  refine ⟨Or.inl rfl, ?_, a3, a4⟩
  simp only [a2]; omega

/-- tokens of an optional word -/
def wordToks (w : Str) : List Tok := match w with | [] => [] | _ :: _ => [.w w]

theorem emitted_rev (w : Str) (out : List Tok) : emitted w.reverse out = (wordToks w).reverse ++ out := by
  cases w with
  | nil => rfl
  | cons a l =>
    cases h : (a :: l).reverse with
    | nil => simp at h
    | cons b m => simp only [emitted, wordToks]; rw [← h]; simp

/-- `word(group)` — or a bare `(group)` when the word is empty — as a fragment -/
theorem frag_word_grp (bs : Bool) (w g : Str) (h : ∀ c ∈ w, isPlain c = true) (hg : Inner bs g) :
    Frag bs (w ++ 40 :: (g ++ [41])) (wordToks w ++ [.grp]) := by
  intro s hq hd
  have e : (32 :: (w ++ 40 :: (g ++ [41]))) = [32] ++ w ++ [40] ++ g ++ [41] := by simp
  rw [e, run_append, run_append, run_append, run_append]
  have h1 : run bs s [32] = ⟨.top, 0, [], emitted s.cur s.out⟩ := by
    rw [run_cons, step_blank bs s hq hd]; rfl
  rw [h1, run_plain_top bs _ _ w h]
  generalize emitted s.cur s.out = E
  have h2 : run bs ⟨.top, 0, w.reverse ++ [], E⟩ [40]
      = ⟨.top, 1, [], .grp :: emitted w.reverse E⟩ := by
    simp [run, step, stepTop, isBlank]
  rw [h2]
  obtain ⟨a1, a2, a3, a4⟩ := hg ⟨.top, 1, [], .grp :: emitted w.reverse E⟩ (Or.inl rfl) (by simp)
  generalize run bs ⟨.top, 1, [], .grp :: emitted w.reverse E⟩ g = r at a1 a2 a3 a4
  rw [run_cons, run_nil, step_close_in bs r a1 (by rw [a2]; simp)]
  simp only at a2 a3 a4
  refine ⟨Or.inl rfl, by simp [a2], ?_⟩
  rw [a3, a4, emitted_rev]
  simp [emitted]


/-- the reader's backslash convention is compatible with the literal syntax -/
def bsOK (bs : Bool) (l : LitDb) : Prop := bs = true → l ≠ .plain

theorem strbody_char (bs : Bool) (l : LitDb) (h : bsOK bs l) (c : Nat) (d : Nat) (cur : Str) (out : List Tok) :
    run bs ⟨.str, d, cur, out⟩ (escChar l c) = ⟨.str, d, cur, out⟩ := by
  unfold escChar
  by_cases hl : l = .plain
  · have hb : bs = false := by
      cases bs with
      | false => rfl
      | true => exact absurd hl (h rfl)
    subst hb
    simp only [hl, if_true, escQuote]
    split
    · simp [run, step]
    · rename_i hc; simp [run, step, hc]
  · simp only [hl, if_false, escFull]
    cases bs <;>
    (repeat' split) <;> simp_all [run, step]

theorem strbody (bs : Bool) (l : LitDb) (h : bsOK bs l) (v : Str) (d : Nat) (cur : Str) (out : List Tok) :
    run bs ⟨.str, d, cur, out⟩ (escape l v) = ⟨.str, d, cur, out⟩ := by
  induction v with
  | nil => rfl
  | cons c v ih =>
    simp only [escape, List.flatMap_cons] at ih ⊢
    rw [run_append, strbody_char bs l h, ih]

theorem step_quote_in (bs : Bool) (s : St) (hq : Quiet s.mode) (hd : 1 ≤ s.depth) :
    step bs s 39 = ⟨.str, s.depth, s.cur, s.out⟩ := by
  obtain ⟨m, d, cur, out⟩ := s
  simp only at hd
  obtain ⟨k, rfl⟩ : ∃ k, d = k + 1 := ⟨d - 1, by omega⟩
  rcases hq with hm | hm <;> simp only at hm <;> subst hm <;> simp [step, stepTop]

theorem inner_lit (bs : Bool) (l : LitDb) (h : bsOK bs l) (v : Str) : Inner bs (sqlLit l v) := by
  have hq : Inner bs (39 :: (escape l v ++ [39])) := by
    intro s hq hd
    rw [run_cons, step_quote_in bs s hq hd, run_append, strbody bs l h]
    simp [run, step, Quiet]
  unfold sqlLit
  split
  · exact inner_append bs [69] _ (inner_plain bs [69] (by decide)) hq
  · simpa using hq

end SqlObjVerif.Ddl
