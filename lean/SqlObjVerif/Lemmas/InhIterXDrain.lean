import SqlObjVerif.Lemmas.InhIterXSteps
/-!
The drain theorem for the TRANSLATED `InheritableIteration`: calling `next()` until `StopIteration` delivers one
`get(id, selectResults=<rest of the row>, childResults=…)` per selected root row — the rows of the current batch and the
rows still pending on the iteration's own cursor — in order, each once, for every batch size ≥ 1 (`drain_all`).
-/
set_option linter.unusedSimpArgs false
namespace SqlObjVerif.InhIter
open SqlObjVerif.PyIS
open SqlObjVerif.PyIS.Extracted

theorem drain_all (X : NCtx) (hB : 1 ≤ X.batch) (crows : Nat → Sql → List (Nat × Val))
    (hrf : ∀ d e, X.I.rowsFor d e = (crows d e).map crowV) (hgood : ∀ d e r, r ∈ crows d e → isListVal r.2 = true) :
    ∀ (N : Nat) (pend : List (Nat × List Val × Option Nat)), pend.length ≤ N → RowsOK X.I pend →
    ∀ (batch : List (Nat × List Val × Option Nat)) (w : IW), Stands w batch pend →
    ∀ fuel, batch.length + pend.length + 1 ≤ fuel →
    ∃ crs : List Val, crs.length = (batch ++ pend).length ∧
      drain X fuel w = (List.zipWith (deliver X) (batch ++ pend) crs, true) := by
  intro N
  induction N with
  | zero =>
    intro pend hlen hok batch
    have hp : pend = [] := List.eq_nil_of_length_eq_zero (by omega)
    subst hp
    induction batch with
    | nil =>
      intro w hs fuel hf
      obtain ⟨f, rfl⟩ : ∃ f, fuel = f + 1 := ⟨fuel - 1, by omega⟩
      obtain ⟨w', hn⟩ := next_stop X crows hrf hgood w hs
      exact ⟨[], rfl, by simp [drain, hn]⟩
    | cons r b ih =>
      intro w hs fuel hf
      obtain ⟨f, rfl⟩ : ∃ f, fuel = f + 1 := ⟨fuel - 1, by omega⟩
      obtain ⟨w', cr, hn, hs'⟩ := next_in_batch X w r b [] hs
      obtain ⟨crs, hl, hd⟩ := ih w' hs' f (by simp at hf ⊢; omega)
      exact ⟨cr :: crs, by simp [hl], by simp [drain, hn, hd]⟩
  | succ N ihN =>
    intro pend hlen hok batch
    induction batch with
    | nil =>
      intro w hs fuel hf
      obtain ⟨f, rfl⟩ : ∃ f, fuel = f + 1 := ⟨fuel - 1, by omega⟩
      cases pend with
      | nil =>
        obtain ⟨w', hn⟩ := next_stop X crows hrf hgood w hs
        exact ⟨[], rfl, by simp [drain, hn]⟩
      | cons p ps =>
        obtain ⟨w', cr, hn, hs'⟩ := next_refill X hB crows hrf hgood w p ps hok hs
        obtain ⟨B, hBe⟩ : ∃ B, X.batch = B + 1 := ⟨X.batch - 1, by omega⟩
        have htk : ((p :: ps).take X.batch).tail = ps.take B := by rw [hBe]; rfl
        have hdr : (p :: ps).drop X.batch = ps.drop B := by rw [hBe]; rfl
        rw [htk, hdr] at hs'
        have hlen' : (ps.drop B).length ≤ N := by
          have := List.length_drop (i := B) (l := ps); simp at hlen; omega
        have hok' : RowsOK X.I (ps.drop B) := fun n hn r hr =>
          hok n hn r (List.mem_cons_of_mem _ (List.mem_of_mem_drop hr))
        have htd : ps.take B ++ ps.drop B = ps := List.take_append_drop B ps
        have hlen2 : (ps.take B).length + (ps.drop B).length = ps.length := by
          rw [← List.length_append, htd]
        obtain ⟨crs, hl, hd⟩ := ihN (ps.drop B) hlen' hok' (ps.take B) w' hs' f (by simp at hf; omega)
        rw [htd] at hl hd
        exact ⟨cr :: crs, by simp [hl], by simp [drain, hn, hd]⟩
    | cons r b ih =>
      intro w hs fuel hf
      obtain ⟨f, rfl⟩ : ∃ f, fuel = f + 1 := ⟨fuel - 1, by omega⟩
      obtain ⟨w', cr, hn, hs'⟩ := next_in_batch X w r b pend hs
      obtain ⟨crs, hl, hd⟩ := ih w' hs' f (by simp at hf ⊢; omega)
      exact ⟨cr :: crs, by simp [hl], by simp [drain, hn, hd]⟩

end SqlObjVerif.InhIter
