import SqlObjVerif.Lemmas.FailXSetExLazy
import SqlObjVerif.Model.FailInhSetX
/-!
C06, setters of the extra keywords of `set()` as TRANSLATED code, part 1:

* `setValueF_run`: the translated `_SO_setValue` in ANY world of a reachable instance (generalises `setValueF_eq`):
  ends like the hand model's one-column tree `setProg sch c id [(col, v)] [] .done` — same error, `obs`-equal state,
  the two oracle entries of the value consumed, nothing else of the world changed;
* `setfuncN_succ` / `setfuncN_run`: the translated `setfunc` (`Extracted/PyInhSet.lean`) does nothing but assign the
  attribute on `self._parent`; along the ancestor chain it ends in the declaring ancestor's translated `_SO_setValue`;
* `propCallT_sim` (**a**): for every kind of extra keyword the call table with translated setters
  `propCallT parentSetT` ends like the hand model's tree for that keyword (`setProp`).
-/
namespace SqlObjVerif.PyFail
open SqlObjVerif.PyMain (PV FnKind ofVal)
open SqlObjVerif.PyMain.Extracted
open SqlObjVerif.Fail (Err Schema Inj Extra clsOf applyMem In)

/-- the translated `_SO_setValue` in ANY world of a reachable instance -/
theorem setValueF_run (w : FW) (col : Nat) (v : In) (rest : List Bool)
    (hcr : w.creating = false) (hvq : w.vq = v.fromOk :: v.toOk :: rest)
    (hcol : col < (clsOf w.sch w.c).cols.length) :
    ∃ s' q, setValueF w col v =
        propOutcome { w with vq := q } (s', (Fail.run w.sch w.inj (Fail.setProg w.sch w.c w.id [(col, v)] [] .done) w.s).2) ∧
      obs s' = obs (Fail.run w.sch w.inj (Fail.setProg w.sch w.c w.id [(col, v)] [] .done) w.s).1 ∧
      ((Fail.run w.sch w.inj (Fail.setProg w.sch w.c w.id [(col, v)] [] .done) w.s).2 = none → q = rest) := by
  obtain ⟨sch, inj, props, s, c, id, cr, nobj, sig, lk, vq⟩ := w
  simp only at hcr hvq hcol
  subst hcr hvq
  unfold setValueF setValueProg setValue_nlocals setValue_nlists setValue_ndicts
  have hb : Nat.blt col (clsOf sch c).cols.length = true := by simpa [Nat.blt_eq] using hcol
  cases hl : (clsOf sch c).lazy
  · cases v
    · pfwith [In.fromOk, In.toOk, In.val]
      simp [Fail.run, Fail.setProg, Fail.validates, Fail.asgOf, Fail.extras, hl, In.fromOk, FW.setS]
    · pfwith [In.fromOk, In.toOk, In.val]
      simp [Fail.run, Fail.setProg, Fail.validates, Fail.asgOf, Fail.extras, hl, In.fromOk, In.toOk, FW.setS]
    · rename_i v
      simp only [Fail.setProg, hl, Fail.validates, Fail.asgOf, Fail.extras, List.foldr, List.map, In.fromOk, In.toOk, In.val,
        Fail.sortAsg, Fail.insertAsg, List.isEmpty, Bool.false_eq_true, if_false]
      cases hs : sendStmt sch inj (Fail.Stmt.update c id [(col, v)]) s with
      | mk s1 r =>
      cases r
      · pfwith [In.fromOk, In.toOk, In.val, hl, hb, hcol, hs]
        frun [hs]
        simp [FW.setS, FW.setVal, FW.mem, obs]
      · pfwith [In.fromOk, In.toOk, In.val, hl, hb, hcol, hs]
        frun [hs]
        simp [FW.setS, obs]
  · cases v
    · pfwith [In.fromOk, In.toOk, In.val]
      simp [Fail.run, Fail.setProg, Fail.validates, Fail.asgOf, Fail.extras, hl, In.fromOk, FW.setS]
    · pfwith [In.fromOk, In.toOk, In.val]
      simp [Fail.run, Fail.setProg, Fail.validates, Fail.asgOf, Fail.extras, hl, In.fromOk, In.toOk, FW.setS]
    · rename_i v
      simp only [Fail.setProg, hl, Fail.validates, Fail.asgOf, Fail.extras, List.foldr, List.map, In.fromOk, In.toOk, In.val,
        Fail.precheck, Fail.hasUnknown, List.any, List.isEmpty, Bool.false_eq_true, if_false, if_true]
      pfwith [In.fromOk, In.toOk, In.val, hl, hb, hcol]
      frun []
      simp [FW.setVal, FW.mem, FW.setDirty, FW.updCV, obs, FW.setS]
      simp only [applyMem, mapInst_mapInst']

/-- one column assignment as the hand model's `set` tree = validation of the value, then `attrProg` -/
theorem run_setProg_single (sch : Schema) (inj : Option Inj) (c id col : Nat) (v : In) (s : Fail.St) :
    Fail.run sch inj (Fail.setProg sch c id [(col, v)] [] .done) s =
      Fail.run sch inj (.validate v.fromOk (.validate v.toOk (Fail.attrProg sch c id col v.val .done))) s := by
  unfold Fail.setProg Fail.attrProg
  cases (clsOf sch c).lazy <;>
    simp [Fail.validates, Fail.asgOf, Fail.extras, Fail.precheck, Fail.hasUnknown, Fail.sortAsg, Fail.insertAsg, Fail.run]

end SqlObjVerif.PyFail

namespace SqlObjVerif.FailInhSet
open SqlObjVerif.PyInhSet (Expr Cond Stmt Block)
open SqlObjVerif.PyInhSet.Extracted
open SqlObjVerif.PyMain (PDict PV ofVal)
open SqlObjVerif.PyFail (FW Outcome setFWith propCallT setValueF setValueV propOutcome setProp obs)
open SqlObjVerif.Fail (Err Schema In clsOf Extra)

section
variable {α : Type}
@[simp] theorem optRes_some (a : α) (f : α → Res) : optRes (some a) f = f a := rfl
@[simp] theorem optRes_none (f : α → Res) : optRes (Option.none : Option α) f = .stuck := rfl
end
@[simp] theorem afterCall_ret (w : FW) (v : PV) (st : St) : afterCall (.ret w v) st = .norm { st with w := w } := rfl
@[simp] theorem afterCall_exc (w : FW) (e : Err) (st : St) : afterCall (.exc w e) st = .exc w e := rfl
@[simp] theorem afterCall_deadlock (w : FW) (st : St) : afterCall (.deadlock w) st = .deadlock w := rfl
@[simp] theorem afterCall_stuck (st : St) : afterCall .stuck st = .stuck := rfl
@[simp] theorem setattrOf_parent (I : Iface) (st : St) (p col : Nat) (x : In) :
    setattrOf I st .parent (.attrName p col) (.inp x) = afterCall (I.setParentAttr st.w p col x) st := rfl
@[simp] theorem setattrOf_none (I : Iface) (st : St) (n v : Val) : setattrOf I st .none n v = .stuck := rfl
@[simp] theorem pyBool_bool (b : Bool) : pyBool (.bool b) = some b := rfl
@[simp] theorem pyBool_parent : pyBool .parent = some true := rfl
@[simp] theorem pyBool_none : pyBool .none = some false := rfl

/-- the value a call returns is dropped by the caller's expression statement -/
def dropVal : Outcome → Outcome
  | .ret w _ => .ret w .none
  | o => o

/-- evaluate the PyInhSet interpreter on a concrete program -/
macro "ihs" "[" args:Lean.Parser.Tactic.simpLemma,* "]" : tactic => `(tactic|
  simp [run, execB, execS, evalE, evalEs, evalC, attrOf, getattr3Of, Env.get, Res.toOutcome, classCallOf, supOf, $args,*])

theorem setfuncN_succ (n : Nat) (w : FW) (p col : Nat) (v : In) :
    setfuncN (n + 1) w p col v = dropVal (assignOnParent (setfuncN n) w p col v) := by
  unfold setfuncN setfuncProg setfunc_nlocals
  cases hp : (clsOf w.sch w.c).parent with
  | none =>
    have h0 : assignOnParent (setfuncN n) w p col v = .stuck := by simp [assignOnParent, hp]
    rw [h0]
    cases hc : w.creating <;> cases hs : w.sigSuppress <;> ihs [hp, hc, hs, dropVal]
  | some p' =>
    generalize ho : assignOnParent (setfuncN n) w p col v = o
    cases hc : w.creating <;> cases hs : w.sigSuppress <;> ihs [hp, hc, hs, ho] <;> cases o <;> simp [dropVal]

theorem dropVal_backTo_propOutcome (c : Nat) (w : FW) (r : Fail.St × Option Err) :
    dropVal (backTo c (propOutcome w r)) = propOutcome { w with c := c } r := by
  obtain ⟨s, e⟩ := r
  cases e <;> rfl

/-- the translated `setfunc` along the ancestor chain = the translated `_SO_setValue` of the declaring ancestor's
    instance = the hand model's one-column tree at that ancestor -/
theorem setfuncN_run (n : Nat) : ∀ (w : FW) (p col : Nat) (v : In) (rest : List Bool),
    w.creating = false → w.vq = v.fromOk :: v.toOk :: rest → col < (clsOf w.sch p).cols.length →
    isAnc w.sch n w.c p = true →
    ∃ s' q, setfuncN n w p col v =
        propOutcome { w with vq := q } (s', (Fail.run w.sch w.inj (Fail.setProg w.sch p w.id [(col, v)] [] .done) w.s).2) ∧
      obs s' = obs (Fail.run w.sch w.inj (Fail.setProg w.sch p w.id [(col, v)] [] .done) w.s).1 ∧
      ((Fail.run w.sch w.inj (Fail.setProg w.sch p w.id [(col, v)] [] .done) w.s).2 = none → q = rest) := by
  induction n with
  | zero => intro w p col v rest _ _ _ h; simp [isAnc] at h
  | succ n ih =>
    intro w p col v rest hcr hvq hcol hanc
    rw [setfuncN_succ]
    unfold assignOnParent
    unfold isAnc at hanc
    cases hp : (clsOf w.sch w.c).parent with
    | none => simp [hp] at hanc
    | some p' =>
      simp only [hp] at hanc ⊢
      by_cases hpp : p' = p
      · subst hpp
        obtain ⟨s', q, h1, h2, h3⟩ := PyFail.setValueF_run { w with c := p' } col v rest hcr hvq hcol
        refine ⟨s', q, ?_, h2, h3⟩
        simp only [if_true]
        rw [h1, dropVal_backTo_propOutcome]
      · have hanc' : isAnc w.sch n p' p = true := by simpa [hpp] using hanc
        obtain ⟨s', q, h1, h2, h3⟩ := ih { w with c := p' } p col v rest hcr hvq hcol hanc'
        refine ⟨s', q, ?_, h2, h3⟩
        simp only [hpp, if_false]
        rw [h1, dropVal_backTo_propOutcome]

/-- **(a)** `setattr(self, <extra keyword k>, value)` with the TRANSLATED setters ends like the hand model's tree for that
    kind of keyword (`setProp`): same error, `obs`-equal state, the oracle entries of that keyword consumed, nothing
    else changed -/
theorem propCallT_sim (w : FW) (k : Nat) (pv : PV) (rest : List Bool)
    (hcr : w.creating = false) (hvq : w.vq = PyFail.vqEx [w.props k] ++ rest) (hok : exOk w.sch w.c (w.props k)) :
    ∃ s' q, propCallT parentSetT "__setattr__" [.name k, pv] [] w = propOutcome { w with vq := q } (s', (setProp w k).2) ∧
      obs s' = obs (setProp w k).1 ∧ ((setProp w k).2 = none → q = rest) := by
  unfold setProp at *
  cases hk : w.props k with
  | unknown =>
    have hcall : propCallT parentSetT "__setattr__" [.name k, pv] [] w = propOutcome w (setProp w k) := by simp [propCallT, hk]
    rw [hcall, setProp, hk]; rw [hk] at hvq
    exact ⟨_, w.vq, by cases w; rfl, rfl, fun _ => by simpa [PyFail.vqEx] using hvq⟩
  | okProp =>
    have hcall : propCallT parentSetT "__setattr__" [.name k, pv] [] w = propOutcome w (setProp w k) := by simp [propCallT, hk]
    rw [hcall, setProp, hk]; rw [hk] at hvq
    exact ⟨_, w.vq, by cases w; rfl, rfl, fun _ => by simpa [PyFail.vqEx] using hvq⟩
  | badProp =>
    have hcall : propCallT parentSetT "__setattr__" [.name k, pv] [] w = propOutcome w (setProp w k) := by simp [propCallT, hk]
    rw [hcall, setProp, hk]; rw [hk] at hvq
    exact ⟨_, w.vq, by cases w; rfl, rfl, fun _ => by simpa [PyFail.vqEx] using hvq⟩
  | fk col v =>
    have hcall : propCallT parentSetT "__setattr__" [.name k, pv] [] w = setValueF w col (.ok v) := by
      simp [propCallT, hk]; rfl
    rw [hcall]
    rw [hk] at hvq hok
    have hrun : Fail.run w.sch w.inj (Fail.extras w.sch w.c w.id [Extra.fk col v] .done) w.s =
        Fail.run w.sch w.inj (Fail.setProg w.sch w.c w.id [(col, .ok v)] [] .done) w.s := by
      rw [PyFail.run_setProg_single]
      simp [Fail.extras, In.fromOk, In.toOk, In.val, PyFail.run_validate]
    rw [hrun]
    exact PyFail.setValueF_run w col (.ok v) rest hcr (by simpa [PyFail.vqEx, In.fromOk, In.toOk] using hvq) hok
  | parentAttr p col v =>
    have hcall : propCallT parentSetT "__setattr__" [.name k, pv] [] w = parentSetT w p col v := by simp [propCallT, hk]
    rw [hcall]
    rw [hk] at hvq hok
    have hrun : Fail.run w.sch w.inj (Fail.extras w.sch w.c w.id [Extra.parentAttr p col v] .done) w.s =
        Fail.run w.sch w.inj (Fail.setProg w.sch p w.id [(col, v)] [] .done) w.s := by
      rw [PyFail.run_setProg_single]
      simp [Fail.extras]
    rw [hrun]
    exact setfuncN_run w.sch.length w p col v rest hcr (by simpa [PyFail.vqEx] using hvq) hok.1 hok.2

end SqlObjVerif.FailInhSet
