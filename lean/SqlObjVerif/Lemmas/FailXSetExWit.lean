import SqlObjVerif.Lemmas.FailXSetExLazy
/-!
C06, `set(**kw)` with extra keywords: witnesses of `Props/C06.lean` replayed through the TRANSLATED `set`
(`Extracted/PyMain.lean`) under the exception-injecting semantics, by kernel evaluation; and the general theorems
`setF_extras_eager_eq` / `setF_extras_lazy_eq` instantiated at them (their hypotheses are satisfiable).
-/
namespace SqlObjVerif.PyFail
open SqlObjVerif.Fail (Err Schema Inj Extra clsOf In)

/-- W-fk: class with a plain column 0 and a unique column 1; name 2 = the ForeignKey behind column 0 given by object -/
def WFk.sch : Schema := [{ cols := [{}, { unique := true }] }]
def WFk.s : Fail.St :=
  { core := { tabs := [[⟨1, [some 1, some 1]⟩, ⟨2, [some 1, some 2]⟩]], links := [],
              insts := [⟨0, 1, [some 1, some 1], [], false, false⟩], reg := [(0, 1)] },
    seqs := [2], lastId := 0, n := 0, changes := 0, log := [] }
def WFk.props (k : Nat) : Extra := if k = 2 then .fk 0 (some 2) else .unknown
/-- the Python dict of `obj.set(fk=<object>, w=2)`: the extra keyword first -/
def WFk.pd : List (Nat × In) := [(2, .ok none), (1, .ok (some 2))]

/-- `C06_set_fk_by_object_full_FALSE` replayed through the TRANSLATED `set`: eager `set(fk=<object>, w=<duplicate>)`
    raises DuplicateEntryError and leaves the ForeignKey written (its own UPDATE came first) -/
example :
    viewObs (setF (mkW WFk.sch none WFk.props WFk.s 0 1 (vqOf [(1, .ok (some 2))])) (kwPV WFk.pd)) =
      some (runObs (Fail.step WFk.sch WFk.s (.set 0 1 [(1, .ok (some 2))] [.fk 0 (some 2)]) none)) ∧
    (viewObs (setF (mkW WFk.sch none WFk.props WFk.s 0 1 (vqOf [(1, .ok (some 2))])) (kwPV WFk.pd))).map
        (fun r => (r.2, r.1.core.tabs, r.1.log)) =
      some (some .duplicate, [[⟨1, [some 2, some 1]⟩, ⟨2, [some 1, some 2]⟩]],
        [.update 0 1 [(1, some 2)], .update 0 1 [(0, some 2)]]) := by
  decide +kernel

/-- W-unk: lazy class with one column; name 1 is no attribute of the class -/
def WUnk.sch : Schema := [{ cols := [{}], lazy := true }]
def WUnk.s : Fail.St :=
  { core := { tabs := [[⟨1, [some 7]⟩]], links := [], insts := [⟨0, 1, [some 7], [], false, false⟩], reg := [(0, 1)] },
    seqs := [1], lastId := 0, n := 0, changes := 0, log := [] }
def WUnk.pd : List (Nat × In) := [(0, .ok (some 9)), (1, .ok none)]

/-- `C06_lazy_set_unknown_keyword_is_noop` replayed through the TRANSLATED `set`: lazy `set(v=9, nosuch=…)` raises
    TypeError and changes nothing -/
example :
    viewObs (setF (mkW WUnk.sch none (fun _ => .unknown) WUnk.s 0 1 (vqOf [(0, .ok (some 9))])) (kwPV WUnk.pd)) =
      some (runObs (Fail.step WUnk.sch WUnk.s (.set 0 1 [(0, .ok (some 9))] [.unknown]) none)) ∧
    viewObs (setF (mkW WUnk.sch none (fun _ => .unknown) WUnk.s 0 1 (vqOf [(0, .ok (some 9))])) (kwPV WUnk.pd)) =
      some (obs WUnk.s, some .typeError) := by
  decide +kernel

/-- `C06_lazy_set_raising_user_setter_not_atomic` replayed: a raising property setter inside a lazy `set()` runs
    after the columns were cached -/
example :
    (viewObs (setF (mkW WUnk.sch none (fun _ => .badProp) WUnk.s 0 1 (vqOf [(0, .ok (some 9))])) (kwPV WUnk.pd))).map
        (fun r => (r.2, r.1.core.insts)) =
      some (some .attrError, [⟨0, 1, [some 9], [(0, some 9)], false, false⟩]) := by
  decide +kernel

/-- the general theorems at the witnesses -/
example := setF_extras_eager_eq WFk.sch none WFk.props WFk.s 0 1 WFk.pd rfl (by decide)
example := setF_extras_lazy_eq WUnk.sch none (fun _ => .unknown) WUnk.s 0 1 WUnk.pd rfl (by decide)

end SqlObjVerif.PyFail
