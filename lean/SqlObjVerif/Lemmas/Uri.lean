import SqlObjVerif.Model.Uri
/-!
# Lemmas for the `Uri` model (C18)
-/
namespace SqlObjVerif.Uri

/-! ## percent coding: `pctDecode ∘ quoteBytes = id` -/

theorem hexVal_hexU (d : Nat) (h : d < 16) : hexVal? (hexU d) = some d := by
  unfold hexU hexVal?
  by_cases h10 : d < 10
  · have : 48 ≤ 48 + d ∧ 48 + d ≤ 57 := by omega
    simp [h10, this]
  · have h1 : ¬ (48 ≤ 55 + d ∧ 55 + d ≤ 57) := by omega
    have h2 : 65 ≤ 55 + d ∧ 55 + d ≤ 70 := by omega
    simp [h10, h1, h2]

theorem pctDecode_cons_ne (c : Nat) (l : List Nat) (h : c ≠ 37) : pctDecode (c :: l) = c :: pctDecode l := by
  match l with
  | [] => simp [pctDecode]
  | [a] => simp [pctDecode]
  | a :: b :: rest =>
    rw [pctDecode]
    simp [pctByte?, h]

theorem pctDecode_quoted (hi lo : Nat) (rest : List Nat) (h1 : hi < 16) (h2 : lo < 16) :
    pctDecode (37 :: hexU hi :: hexU lo :: rest) = (hi * 16 + lo) :: pctDecode rest := by
  rw [pctDecode]
  simp [pctByte?, hexVal_hexU, h1, h2]

theorem isSafe_ne_pct (safe : List Nat) (b : Nat) (hs : 37 ∉ safe) (h : isSafe safe b = true) : b ≠ 37 := by
  intro hb
  subst hb
  simp [isSafe, isAlwaysSafe] at h
  exact hs h

theorem pctDecode_quoteByte (safe : List Nat) (b : Nat) (rest : List Nat) (hb : b < 256)
    (hs : 37 ∉ safe) :
    pctDecode (quoteByte safe b ++ rest) = b :: pctDecode rest := by
  unfold quoteByte
  by_cases h : isSafe safe b = true
  · simp only [h, if_true, List.singleton_append]
    exact pctDecode_cons_ne _ _ (isSafe_ne_pct safe b hs h)
  · simp only [h]
    rw [if_neg (by simp)]
    simp only [List.cons_append, List.nil_append]
    rw [pctDecode_quoted _ _ _ (by omega) (by omega)]
    congr 1
    omega

theorem pctDecode_quoteBytes (safe : List Nat) (bs : List Nat) (hb : ∀ b ∈ bs, b < 256)
    (hs : 37 ∉ safe) : pctDecode (quoteBytes safe bs) = bs := by
  induction bs with
  | nil => simp [quoteBytes, pctDecode]
  | cons b bs ih =>
    have : quoteBytes safe (b :: bs) = quoteByte safe b ++ quoteBytes safe bs := by
      simp [quoteBytes]
    rw [this, pctDecode_quoteByte safe b _ (hb b (by simp)) hs, ih (fun x hx => hb x (by simp [hx]))]


/-! ## UTF-8: decode ∘ encode = id -/

theorem decStep1 (c : Nat) (rest : List Nat) (h : c < 0x80) : decStep (c :: rest) = (c, 1) := by
  simp [decStep, h]

theorem decStep2 (c : Nat) (rest : List Nat) (h0 : 0x80 ≤ c) (h : c < 0x800) :
    decStep ((0xC0 + c / 64) :: (0x80 + c % 64) :: rest) = (c, 2) := by
  have h1 : ¬ (0xC0 + c / 64 < 0x80) := by omega
  have h2 : ¬ (0xC0 + c / 64 < 0xC2) := by omega
  have h3 : 0xC0 + c / 64 < 0xE0 := by omega
  have h4 : 0x80 + c % 64 < 0xC0 := by omega
  simp only [decStep, h1, h2, h3, isCont, if_false, if_true]
  simp [h4]
  omega

theorem decStep3 (c : Nat) (rest : List Nat) (h0 : 0x800 ≤ c) (h : c < 0x10000)
    (hs : ¬ (0xD800 ≤ c ∧ c ≤ 0xDFFF)) :
    decStep ((0xE0 + c / 4096) :: (0x80 + c / 64 % 64) :: (0x80 + c % 64) :: rest) = (c, 3) := by
  have h1 : ¬ (0xE0 + c / 4096 < 0x80) := by omega
  have h2 : ¬ (0xE0 + c / 4096 < 0xC2) := by omega
  have h3 : ¬ (0xE0 + c / 4096 < 0xE0) := by omega
  have h3' : 0xE0 + c / 4096 < 0xF0 := by omega
  have h4 : 0x80 + c / 64 % 64 < 0xC0 := by omega
  have h5 : 0x80 + c % 64 < 0xC0 := by omega
  have h6 : (if 0x80 + c / 64 % 64 < 0xA0 then (0xE0 + c / 4096 == 0xE0) else (0xE0 + c / 4096 == 0xED)) = false := by
    split <;> simp <;> omega
  simp only [decStep, h1, h2, h3, h3', isCont, if_false, if_true, h6]
  simp [h4, h5]
  omega

theorem decStep4 (c : Nat) (rest : List Nat) (h0 : 0x10000 ≤ c) (h : c < 0x110000) :
    decStep ((0xF0 + c / 262144) :: (0x80 + c / 4096 % 64) :: (0x80 + c / 64 % 64) :: (0x80 + c % 64) :: rest)
      = (c, 4) := by
  have h1 : ¬ (0xF0 + c / 262144 < 0x80) := by omega
  have h2 : ¬ (0xF0 + c / 262144 < 0xC2) := by omega
  have h3 : ¬ (0xF0 + c / 262144 < 0xE0) := by omega
  have h3' : ¬ (0xF0 + c / 262144 < 0xF0) := by omega
  have h3'' : 0xF0 + c / 262144 < 0xF5 := by omega
  have h4 : 0x80 + c / 4096 % 64 < 0xC0 := by omega
  have h5 : 0x80 + c / 64 % 64 < 0xC0 := by omega
  have h7 : 0x80 + c % 64 < 0xC0 := by omega
  have h6 : (if 0x80 + c / 4096 % 64 < 0x90 then (0xF0 + c / 262144 == 0xF0) else (0xF0 + c / 262144 == 0xF4)) = false := by
    split <;> simp <;> omega
  simp only [decStep, h1, h2, h3, h3', h3'', isCont, if_false, if_true, h6]
  simp [h4, h5, h7]
  omega

theorem utf8DecodeF_utf8Cp (c : Nat) (rest : List Nat) (k : Nat) (hv : validCp c = true) :
    utf8DecodeF (k + 1) (utf8Cp c ++ rest) = c :: utf8DecodeF k rest := by
  simp only [validCp, Bool.and_eq_true, decide_eq_true_eq, Bool.not_eq_true', Bool.and_eq_false_iff,
    decide_eq_false_iff_not] at hv
  unfold utf8Cp
  by_cases h1 : c < 0x80
  · simp only [h1, if_true, List.cons_append, List.nil_append]
    rw [utf8DecodeF, decStep1 _ _ h1]; simp
  · by_cases h2 : c < 0x800
    · simp only [h1, h2, if_true, if_false, List.cons_append, List.nil_append]
      rw [utf8DecodeF, decStep2 _ _ (by omega) h2]; simp
    · by_cases h3 : c < 0x10000
      · simp only [h1, h2, h3, if_true, if_false, List.cons_append, List.nil_append]
        rw [utf8DecodeF, decStep3 _ _ (by omega) h3 (by omega)]; simp
      · simp only [h1, h2, h3, if_false, List.cons_append, List.nil_append]
        rw [utf8DecodeF, decStep4 _ _ (by omega) (by omega)]; simp

theorem utf8_cons (c : Nat) (cs : Str) : utf8 (c :: cs) = utf8Cp c ++ utf8 cs := by simp [utf8]

theorem utf8Cp_length_pos (c : Nat) : 1 ≤ (utf8Cp c).length := by
  unfold utf8Cp; split <;> (try split) <;> (try split) <;> simp

theorem utf8_length_ge (s : Str) : s.length ≤ (utf8 s).length := by
  induction s with
  | nil => simp [utf8]
  | cons c cs ih =>
    rw [utf8_cons, List.length_append, List.length_cons]
    have := utf8Cp_length_pos c
    omega

theorem utf8DecodeF_utf8 (s : Str) (hv : validStr s = true) (fuel : Nat) (hf : s.length ≤ fuel) :
    utf8DecodeF fuel (utf8 s) = s := by
  induction s generalizing fuel with
  | nil => cases fuel <;> simp [utf8, utf8DecodeF]
  | cons c cs ih =>
    simp only [validStr, List.all_cons, Bool.and_eq_true] at hv
    obtain ⟨k, rfl⟩ : ∃ k, fuel = k + 1 := ⟨fuel - 1, by simp at hf; omega⟩
    rw [utf8_cons, utf8DecodeF_utf8Cp c _ k hv.1, ih (by simpa [validStr] using hv.2) k (by simp at hf; omega)]

/-- decoding inverts encoding, for every string of scalar values -/
theorem utf8Decode_utf8 (s : Str) (hv : validStr s = true) : utf8Decode (utf8 s) = s :=
  utf8DecodeF_utf8 s hv _ (utf8_length_ge s)

theorem utf8Decode_cons_ascii (c : Nat) (l : List Nat) (h : c < 128) : utf8Decode (c :: l) = c :: utf8Decode l := by
  simp [utf8Decode, utf8DecodeF, decStep1 _ _ h]

theorem utf8Cp_lt (c : Nat) (hv : validCp c = true) : ∀ b ∈ utf8Cp c, b < 256 := by
  simp only [validCp, Bool.and_eq_true, decide_eq_true_eq] at hv
  intro b hb
  unfold utf8Cp at hb
  split at hb
  · simp at hb; omega
  · split at hb
    · simp at hb; omega
    · split at hb
      · simp at hb; omega
      · simp at hb; omega

theorem utf8_lt (s : Str) (hv : validStr s = true) : ∀ b ∈ utf8 s, b < 256 := by
  intro b hb
  simp only [utf8, List.mem_flatMap] at hb
  obtain ⟨c, hc, hb⟩ := hb
  exact utf8Cp_lt c (by simpa using (List.all_eq_true.mp hv) c hc) b hb


/-! ## the alphabet of quoted text; `unquote` on ASCII text -/

/-- characters `quote(_, safe)` can emit -/
def quoteChar (safe : List Nat) (x : Nat) : Bool :=
  isSafe safe x || x == 37 || (48 ≤ x && x ≤ 57) || (65 ≤ x && x ≤ 70)

theorem hexU_range (d : Nat) (h : d < 16) : (48 ≤ hexU d ∧ hexU d ≤ 57) ∨ (65 ≤ hexU d ∧ hexU d ≤ 70) := by
  unfold hexU; split <;> omega

theorem quoteChar_hexU (safe : List Nat) (d : Nat) (h : d < 16) : quoteChar safe (hexU d) = true := by
  have := hexU_range d h
  simp only [quoteChar, Bool.or_eq_true, Bool.and_eq_true, decide_eq_true_eq]
  omega

theorem mem_quoteByte (safe : List Nat) (b : Nat) (hb : b < 256) : ∀ x ∈ quoteByte safe b, quoteChar safe x = true := by
  intro x hx
  unfold quoteByte at hx
  split at hx
  · simp at hx; subst hx; simp [quoteChar, *]
  · simp only [List.mem_cons, List.not_mem_nil, or_false] at hx
    rcases hx with rfl | rfl | rfl
    · simp [quoteChar]
    · exact quoteChar_hexU _ _ (by omega)
    · exact quoteChar_hexU _ _ (by omega)

theorem mem_quoteBytes (safe : List Nat) (bs : List Nat) (hb : ∀ b ∈ bs, b < 256) :
    ∀ x ∈ quoteBytes safe bs, quoteChar safe x = true := by
  intro x hx
  simp only [quoteBytes, List.mem_flatMap] at hx
  obtain ⟨b, hbm, hx⟩ := hx
  exact mem_quoteByte safe b (hb b hbm) x hx

theorem quoteChar_lt (safe : List Nat) (x : Nat) (h : quoteChar safe x = true) : x < 128 := by
  simp only [quoteChar, isSafe, isAlwaysSafe, Bool.or_eq_true, Bool.and_eq_true, decide_eq_true_eq, beq_iff_eq] at h
  omega

theorem unquoteGo_ascii (s : Str) (h : ∀ c ∈ s, c < 128) (acc : List Nat) :
    unquoteGo acc s = flush (acc ++ s) := by
  induction s generalizing acc with
  | nil => simp [unquoteGo]
  | cons c cs ih =>
    have hc : c < 128 := h c (by simp)
    simp only [unquoteGo, hc, if_true]
    rw [ih (fun x hx => h x (by simp [hx]))]
    simp


/-! ## string functions -/

theorem breakOn_append (c : Nat) (pre post : Str) (h : c ∉ pre) :
    breakOn c (pre ++ c :: post) = some (pre, post) := by
  induction pre with
  | nil => simp [breakOn]
  | cons x xs ih =>
    have hx : x ≠ c := fun e => h (by simp [e])
    have hxs : c ∉ xs := fun e => h (by simp [e])
    simp [breakOn, hx, ih hxs]

theorem breakOn_none (c : Nat) (l : Str) (h : c ∉ l) : breakOn c l = none := by
  induction l with
  | nil => simp [breakOn]
  | cons x xs ih =>
    have hx : x ≠ c := fun e => h (by simp [e])
    have hxs : c ∉ xs := fun e => h (by simp [e])
    simp [breakOn, hx, ih hxs]

theorem rbreakOn_append (c : Nat) (pre post : Str) (h : c ∉ post) :
    rbreakOn c (pre ++ c :: post) = some (pre, post) := by
  unfold rbreakOn
  have : (pre ++ c :: post).reverse = post.reverse ++ c :: pre.reverse := by simp
  rw [this, breakOn_append c _ _ (by simpa using h)]
  simp

theorem rbreakOn_none (c : Nat) (l : Str) (h : c ∉ l) : rbreakOn c l = none := by
  unfold rbreakOn
  rw [breakOn_none c _ (by simpa using h)]
  rfl

theorem breakP_append (p : Nat → Bool) (pre post : Str) (d : Nat) (h : ∀ x ∈ pre, p x = false) (hd : p d = true) :
    breakP p (pre ++ d :: post) = (pre, d :: post) := by
  induction pre with
  | nil => simp [breakP, hd]
  | cons x xs ih =>
    have hx : p x = false := h x (by simp)
    have := ih (fun y hy => h y (by simp [hy]))
    simp [breakP, hx, this]

theorem breakP_all (p : Nat → Bool) (l : Str) (h : ∀ x ∈ l, p x = false) : breakP p l = (l, []) := by
  induction l with
  | nil => simp [breakP]
  | cons x xs ih =>
    have hx : p x = false := h x (by simp)
    have := ih (fun y hy => h y (by simp [hy]))
    simp [breakP, hx, this]

theorem lstripC0_id (c : Nat) (cs : Str) (h : 32 < c) : lstripC0 (c :: cs) = c :: cs := by
  simp [lstripC0]; omega

theorem removeTRN_id (s : Str) (h : ∀ c ∈ s, c ≠ 9 ∧ c ≠ 13 ∧ c ≠ 10) : removeTRN s = s := by
  unfold removeTRN
  rw [List.filter_eq_self]
  intro c hc
  have := h c hc
  simp [this]

theorem decDigits_digits (n : Nat) : ∀ c ∈ decDigits n, isDigit c = true := by
  induction n using Nat.strongRecOn with
  | _ n ih =>
    intro c hc
    rw [decDigits] at hc
    split at hc
    · simp at hc; subst hc; simp [isDigit]; omega
    · simp only [List.mem_append, List.mem_singleton] at hc
      rcases hc with hc | hc
      · exact ih (n / 10) (by omega) c hc
      · subst hc; simp [isDigit]; omega

theorem parseDec_append (a : Str) (d : Nat) : parseDec (a ++ [d]) = parseDec a * 10 + (d - 48) := by
  simp [parseDec, List.foldl_append]

theorem parseDec_decDigits (n : Nat) : parseDec (decDigits n) = n := by
  induction n using Nat.strongRecOn with
  | _ n ih =>
    rw [decDigits]
    split
    · simp [parseDec]
    · rw [parseDec_append, ih (n / 10) (by omega)]
      omega

theorem decDigits_ne_nil (n : Nat) : decDigits n ≠ [] := by
  rw [decDigits]; split <;> simp



/-! ## `unquote ∘ quote` -/

theorem quoteBytes_ascii (safe : List Nat) (bs : List Nat) (hb : ∀ b ∈ bs, b < 256) :
    ∀ x ∈ quoteBytes safe bs, x < 128 :=
  fun x hx => quoteChar_lt safe x (mem_quoteBytes safe bs hb x hx)

theorem unquote_ascii (q : Str) (h : ∀ c ∈ q, c < 128) : unquote q = utf8Decode (pctDecode q) := by
  simp [unquote, unquoteGo_ascii q h, flush]

/-- `unquote(quote(s, safe)) == s` for every string and every `safe` set without `%` -/
theorem unquote_quote (safe : List Nat) (s q : Str) (hs : 37 ∉ safe) (hq : quote safe s = some q) :
    unquote q = s := by
  unfold quote at hq
  split at hq
  · rename_i hv
    simp only [Option.some.injEq] at hq
    subst hq
    rw [unquote_ascii _ (quoteBytes_ascii safe _ (utf8_lt s hv)),
      pctDecode_quoteBytes safe _ (utf8_lt s hv) hs, utf8Decode_utf8 s hv]
  · simp at hq

theorem unquote_cons (c : Nat) (q : Str) (hc : c < 128) (hne : c ≠ 37) (h : ∀ x ∈ q, x < 128) :
    unquote (c :: q) = c :: unquote q := by
  rw [unquote_ascii q h, unquote_ascii (c :: q) (by intro x hx; simp at hx; rcases hx with rfl | hx; exact hc; exact h x hx),
    pctDecode_cons_ne c q hne, utf8Decode_cons_ascii c _ hc]

theorem quote_ok (safe : List Nat) (s : Str) (hv : validStr s = true) :
    quote safe s = some (quoteBytes safe (utf8 s)) := by simp [quote, hv]

/-- no character of `bad` occurs in `quote(s, safe)` when `quote` cannot emit it -/
theorem quote_avoids (safe : List Nat) (s : Str) (hv : validStr s = true) (d : Nat)
    (hd : quoteChar safe d = false) : d ∉ quoteBytes safe (utf8 s) := by
  intro hm
  have := mem_quoteBytes safe _ (utf8_lt s hv) d hm
  simp [hd] at this


/-! ## the `urlparse` model inverts the assembly of a URI from delimiter-free pieces -/

/-- the pieces a built URI is made of (user / password already quoted) -/
structure Parts where
  scheme : Str
  ui : Option (Str × Option Str)
  host : Str
  portText : Option Str
  tail : Str

def Parts.auth (p : Parts) : Str :=
  match p.ui with
  | none => []
  | some (u, none) => u ++ [64]
  | some (u, some w) => u ++ [58] ++ w ++ [64]

def Parts.hostport (p : Parts) : Str :=
  p.host ++ (match p.portText with | none => [] | some t => 58 :: t)

def Parts.netloc (p : Parts) : Str := p.auth ++ p.hostport

def assemble (p : Parts) : Str := p.scheme ++ [58, 47, 47] ++ p.netloc ++ [47] ++ p.tail

def validScheme : Str → Bool
  | [] => false
  | x :: xs => isAsciiAlpha x && (x :: xs).all isSchemeChar

/-- may occur in a netloc without ending it / changing how `urlsplit` treats it -/
def okNet (c : Nat) : Bool := !(c == 47 || c == 63 || c == 35 || c == 91 || c == 93 || c == 9 || c == 10 || c == 13)

/-- may occur in the path without starting a query / fragment / params -/
def okTail (c : Nat) : Bool := !(c == 63 || c == 35 || c == 59 || c == 9 || c == 10 || c == 13)

structure PartsOk (p : Parts) : Prop where
  scheme : validScheme p.scheme = true
  net : p.netloc.all okNet = true
  tail : p.tail.all okTail = true

theorem schemeChar_facts (c : Nat) (h : isSchemeChar c = true) : c ≠ 58 ∧ c ≠ 9 ∧ c ≠ 13 ∧ c ≠ 10 ∧ c < 128 := by
  simp only [isSchemeChar, isAsciiAlpha, isDigit, Bool.or_eq_true, Bool.and_eq_true, decide_eq_true_eq, beq_iff_eq] at h
  omega

theorem urlparse_assemble (p : Parts) (ok : PartsOk p) :
    urlparse (assemble p) = .ok ⟨p.scheme.map lowerAscii, p.netloc, 47 :: p.tail, []⟩ := by
  obtain ⟨hs, hn, ht⟩ := ok
  have hn' : ∀ c ∈ p.netloc, okNet c = true := List.all_eq_true.mp hn
  have ht' : ∀ c ∈ p.tail, okTail c = true := List.all_eq_true.mp ht
  match hsc : p.scheme, hs with
  | x :: xs, hs =>
    simp only [validScheme, Bool.and_eq_true] at hs
    obtain ⟨hx, hall⟩ := hs
    have hall' : ∀ c ∈ x :: xs, isSchemeChar c = true := List.all_eq_true.mp hall
    have hx32 : 32 < x := by
      simp only [isAsciiAlpha, Bool.or_eq_true, Bool.and_eq_true, decide_eq_true_eq] at hx; omega
    have hx128 : x < 128 := (schemeChar_facts x (hall' x (by simp))).2.2.2.2
    have h58 : 58 ∉ x :: xs := fun hm => (schemeChar_facts 58 (hall' 58 hm)).1 rfl
    -- the text
    have hu : assemble p = (x :: xs) ++ 58 :: ([47, 47] ++ p.netloc ++ 47 :: p.tail) := by
      simp [assemble, hsc]
    have hstrip : lstripC0 (assemble p) = assemble p := by
      rw [hu]; exact lstripC0_id x _ hx32
    have htrn : removeTRN (assemble p) = assemble p := by
      apply removeTRN_id
      intro c hc
      rw [hu] at hc
      simp only [List.mem_append, List.mem_cons, List.not_mem_nil, or_false] at hc
      rcases hc with hc | rfl | ((rfl | rfl) | hc) | rfl | hc
      · have := schemeChar_facts c (hall' c (by simpa using hc)); omega
      · decide
      · decide
      · decide
      · have := hn' c hc; simp [okNet] at this; omega
      · decide
      · have := ht' c hc; simp [okTail] at this; omega
    unfold urlparse
    simp only [hstrip, htrn]
    have hsplit : splitScheme (assemble p) = ((x :: xs).map lowerAscii, [47, 47] ++ p.netloc ++ 47 :: p.tail) := by
      unfold splitScheme
      rw [hu, breakOn_append 58 _ _ h58]
      simp [hx, hx128, hall]
    rw [hsplit]
    have hbp : breakP isNetlocEnd (p.netloc ++ 47 :: p.tail) = (p.netloc, 47 :: p.tail) := by
      apply breakP_append
      · intro c hc; have := hn' c hc; simp [okNet] at this; simp [isNetlocEnd]; omega
      · decide
    have h35 : breakOn 35 (47 :: p.tail) = none := by
      apply breakOn_none
      intro hm
      simp at hm
      have := ht' 35 hm; simp [okTail] at this
    have h63 : breakOn 63 (47 :: p.tail) = none := by
      apply breakOn_none
      intro hm
      simp at hm
      have := ht' 63 hm; simp [okTail] at this
    have h59 : 59 ∉ p.tail := by
      intro hm
      have := ht' 59 hm; simp [okTail] at this
    have h91 : 91 ∉ p.netloc := by
      intro hm
      have := hn' 91 hm; simp [okNet] at this
    have h93 : 93 ∉ p.netloc := by
      intro hm
      have := hn' 93 hm; simp [okNet] at this
    simp [startsWith, hbp, h35, h63, h59, h91, h93]


structure PartsSep (p : Parts) : Prop where
  at_hostport : 64 ∉ p.hostport
  colon_user : ∀ u w, p.ui = some (u, w) → 58 ∉ u
  colon_host : 58 ∉ p.host

def Parts.user (p : Parts) : Option Str := p.ui.map (·.1)
def Parts.password (p : Parts) : Option Str := p.ui.bind (·.2)
def Parts.port (p : Parts) : Option Str :=
  match p.portText with
  | some t => if t.isEmpty then none else some t
  | none => none

theorem userinfo_netloc (p : Parts) (sep : PartsSep p) : userinfo p.netloc = (p.user, p.password) := by
  obtain ⟨h64, hcu, _⟩ := sep
  unfold userinfo Parts.netloc Parts.auth Parts.user Parts.password
  match hui : p.ui with
  | none =>
    simp only [List.nil_append, Option.map_none, Option.bind_none]
    rw [rbreakOn_none 64 _ h64]
  | some (u, none) =>
    have : u ++ [64] ++ p.hostport = u ++ 64 :: p.hostport := by simp
    simp only [this, rbreakOn_append 64 u _ h64, breakOn_none 58 u (hcu u none hui)]
    simp
  | some (u, some w) =>
    have : u ++ [58] ++ w ++ [64] ++ p.hostport = (u ++ 58 :: w) ++ 64 :: p.hostport := by simp
    simp only [this, rbreakOn_append 64 _ _ h64, breakOn_append 58 u w (hcu u (some w) hui)]
    simp

theorem hostinfo_netloc (p : Parts) (sep : PartsSep p) : hostinfo p.netloc = (p.host, p.port) := by
  obtain ⟨h64, _, hch⟩ := sep
  have hhi : hostpart p.netloc = p.hostport := by
    unfold hostpart Parts.netloc Parts.auth
    match hui : p.ui with
    | none =>
      simp only [List.nil_append]
      rw [rbreakOn_none 64 _ h64]
    | some (u, none) =>
      have : u ++ [64] ++ p.hostport = u ++ 64 :: p.hostport := by simp
      simp only [this, rbreakOn_append 64 u _ h64]
    | some (u, some w) =>
      have : u ++ [58] ++ w ++ [64] ++ p.hostport = (u ++ 58 :: w) ++ 64 :: p.hostport := by simp
      simp only [this, rbreakOn_append 64 _ _ h64]
  unfold hostinfo
  simp only [hhi]
  unfold Parts.hostport Parts.port
  match p.portText with
  | none => simp [breakOn_none 58 _ hch]
  | some t => simp [breakOn_append 58 _ t hch]

theorem parseQsl_nil : parseQsl [] = [] := by simp [parseQsl]

theorem parseURI_assemble (p : Parts) (ok : PartsOk p) (sep : PartsSep p) :
    parseURI (assemble p) =
      match portOfText p.port with
      | none => .valueError
      | some port =>
        .ok { user := (nonEmpty? p.user).map unquote
              password := (nonEmpty? p.password).map unquote
              host := hostnameOf p.host
              port := match port with
                | some 0 => none
                | x => x
              path := unquote (47 :: p.tail)
              args := [] } := by
  unfold parseURI
  rw [urlparse_assemble p ok]
  simp only [userinfo_netloc p sep, portOf, hostname, hostinfo_netloc p sep, parseQsl_nil, dictOf, List.foldl_nil]
  generalize portOfText p.port = r
  cases r <;> rfl


end SqlObjVerif.Uri
