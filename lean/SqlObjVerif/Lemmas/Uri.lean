import SqlObjVerif.Model.Uri
/-!
# Lemmas for the `Uri` model (C18)
-/
namespace SqlObjVerif.Uri

/-! ## percent coding: `pctDecode ∘ quoteBytes = id` -/

theorem hexVal_hexU (d : Nat) (h : d < 16) : hexVal? (hexU d) = some d := by
  unfold hexU hexVal?
  by_cases h10 : d < 10
  · have : 48 ≤ 48 + d ∧ 48 + d ≤ 57 := by omega
    simp [h10, this]
  · have h1 : ¬ (48 ≤ 55 + d ∧ 55 + d ≤ 57) := by omega
    have h2 : 65 ≤ 55 + d ∧ 55 + d ≤ 70 := by omega
    simp [h10, h1, h2]

theorem pctDecode_cons_ne (c : Nat) (l : List Nat) (h : c ≠ 37) : pctDecode (c :: l) = c :: pctDecode l := by
  match l with
  | [] => simp [pctDecode]
  | [a] => simp [pctDecode]
  | a :: b :: rest =>
    rw [pctDecode]
    simp [pctByte?, h]

theorem pctDecode_quoted (hi lo : Nat) (rest : List Nat) (h1 : hi < 16) (h2 : lo < 16) :
    pctDecode (37 :: hexU hi :: hexU lo :: rest) = (hi * 16 + lo) :: pctDecode rest := by
  rw [pctDecode]
  simp [pctByte?, hexVal_hexU, h1, h2]

theorem isSafe_ne_pct (safe : List Nat) (b : Nat) (hs : 37 ∉ safe) (h : isSafe safe b = true) : b ≠ 37 := by
  intro hb
  subst hb
  simp [isSafe, isAlwaysSafe] at h
  exact hs h

theorem pctDecode_quoteByte (safe : List Nat) (b : Nat) (rest : List Nat) (hb : b < 256)
    (hs : 37 ∉ safe) :
    pctDecode (quoteByte safe b ++ rest) = b :: pctDecode rest := by
  unfold quoteByte
  by_cases h : isSafe safe b = true
  · simp only [h, if_true, List.singleton_append]
    exact pctDecode_cons_ne _ _ (isSafe_ne_pct safe b hs h)
  · simp only [h]
    rw [if_neg (by simp)]
    simp only [List.cons_append, List.nil_append]
    rw [pctDecode_quoted _ _ _ (by omega) (by omega)]
    congr 1
    omega

theorem pctDecode_quoteBytes (safe : List Nat) (bs : List Nat) (hb : ∀ b ∈ bs, b < 256)
    (hs : 37 ∉ safe) : pctDecode (quoteBytes safe bs) = bs := by
  induction bs with
  | nil => simp [quoteBytes, pctDecode]
  | cons b bs ih =>
    have : quoteBytes safe (b :: bs) = quoteByte safe b ++ quoteBytes safe bs := by
      simp [quoteBytes]
    rw [this, pctDecode_quoteByte safe b _ (hb b (by simp)) hs, ih (fun x hx => hb x (by simp [hx]))]


/-! ## UTF-8: decode ∘ encode = id -/

theorem decStep1 (c : Nat) (rest : List Nat) (h : c < 0x80) : decStep (c :: rest) = (c, 1) := by
  simp [decStep, h]

theorem decStep2 (c : Nat) (rest : List Nat) (h0 : 0x80 ≤ c) (h : c < 0x800) :
    decStep ((0xC0 + c / 64) :: (0x80 + c % 64) :: rest) = (c, 2) := by
  have h1 : ¬ (0xC0 + c / 64 < 0x80) := by omega
  have h2 : ¬ (0xC0 + c / 64 < 0xC2) := by omega
  have h3 : 0xC0 + c / 64 < 0xE0 := by omega
  have h4 : 0x80 + c % 64 < 0xC0 := by omega
  simp only [decStep, h1, h2, h3, isCont, if_false, if_true]
  simp [h4]
  omega

theorem decStep3 (c : Nat) (rest : List Nat) (h0 : 0x800 ≤ c) (h : c < 0x10000)
    (hs : ¬ (0xD800 ≤ c ∧ c ≤ 0xDFFF)) :
    decStep ((0xE0 + c / 4096) :: (0x80 + c / 64 % 64) :: (0x80 + c % 64) :: rest) = (c, 3) := by
  have h1 : ¬ (0xE0 + c / 4096 < 0x80) := by omega
  have h2 : ¬ (0xE0 + c / 4096 < 0xC2) := by omega
  have h3 : ¬ (0xE0 + c / 4096 < 0xE0) := by omega
  have h3' : 0xE0 + c / 4096 < 0xF0 := by omega
  have h4 : 0x80 + c / 64 % 64 < 0xC0 := by omega
  have h5 : 0x80 + c % 64 < 0xC0 := by omega
  have h6 : (if 0x80 + c / 64 % 64 < 0xA0 then (0xE0 + c / 4096 == 0xE0) else (0xE0 + c / 4096 == 0xED)) = false := by
    split <;> simp <;> omega
  simp only [decStep, h1, h2, h3, h3', isCont, if_false, if_true, h6]
  simp [h4, h5]
  omega

theorem decStep4 (c : Nat) (rest : List Nat) (h0 : 0x10000 ≤ c) (h : c < 0x110000) :
    decStep ((0xF0 + c / 262144) :: (0x80 + c / 4096 % 64) :: (0x80 + c / 64 % 64) :: (0x80 + c % 64) :: rest)
      = (c, 4) := by
  have h1 : ¬ (0xF0 + c / 262144 < 0x80) := by omega
  have h2 : ¬ (0xF0 + c / 262144 < 0xC2) := by omega
  have h3 : ¬ (0xF0 + c / 262144 < 0xE0) := by omega
  have h3' : ¬ (0xF0 + c / 262144 < 0xF0) := by omega
  have h3'' : 0xF0 + c / 262144 < 0xF5 := by omega
  have h4 : 0x80 + c / 4096 % 64 < 0xC0 := by omega
  have h5 : 0x80 + c / 64 % 64 < 0xC0 := by omega
  have h7 : 0x80 + c % 64 < 0xC0 := by omega
  have h6 : (if 0x80 + c / 4096 % 64 < 0x90 then (0xF0 + c / 262144 == 0xF0) else (0xF0 + c / 262144 == 0xF4)) = false := by
    split <;> simp <;> omega
  simp only [decStep, h1, h2, h3, h3', h3'', isCont, if_false, if_true, h6]
  simp [h4, h5, h7]
  omega

theorem utf8DecodeF_utf8Cp (c : Nat) (rest : List Nat) (k : Nat) (hv : validCp c = true) :
    utf8DecodeF (k + 1) (utf8Cp c ++ rest) = c :: utf8DecodeF k rest := by
  simp only [validCp, Bool.and_eq_true, decide_eq_true_eq, Bool.not_eq_true', Bool.and_eq_false_iff,
    decide_eq_false_iff_not] at hv
  unfold utf8Cp
  by_cases h1 : c < 0x80
  · simp only [h1, if_true, List.cons_append, List.nil_append]
    rw [utf8DecodeF, decStep1 _ _ h1]; simp
  · by_cases h2 : c < 0x800
    · simp only [h1, h2, if_true, if_false, List.cons_append, List.nil_append]
      rw [utf8DecodeF, decStep2 _ _ (by omega) h2]; simp
    · by_cases h3 : c < 0x10000
      · simp only [h1, h2, h3, if_true, if_false, List.cons_append, List.nil_append]
        rw [utf8DecodeF, decStep3 _ _ (by omega) h3 (by omega)]; simp
      · simp only [h1, h2, h3, if_false, List.cons_append, List.nil_append]
        rw [utf8DecodeF, decStep4 _ _ (by omega) (by omega)]; simp

theorem utf8_cons (c : Nat) (cs : Str) : utf8 (c :: cs) = utf8Cp c ++ utf8 cs := by simp [utf8]

theorem utf8Cp_length_pos (c : Nat) : 1 ≤ (utf8Cp c).length := by
  unfold utf8Cp; split <;> (try split) <;> (try split) <;> simp

theorem utf8_length_ge (s : Str) : s.length ≤ (utf8 s).length := by
  induction s with
  | nil => simp [utf8]
  | cons c cs ih =>
    rw [utf8_cons, List.length_append, List.length_cons]
    have := utf8Cp_length_pos c
    omega

theorem utf8DecodeF_utf8 (s : Str) (hv : validStr s = true) (fuel : Nat) (hf : s.length ≤ fuel) :
    utf8DecodeF fuel (utf8 s) = s := by
  induction s generalizing fuel with
  | nil => cases fuel <;> simp [utf8, utf8DecodeF]
  | cons c cs ih =>
    simp only [validStr, List.all_cons, Bool.and_eq_true] at hv
    obtain ⟨k, rfl⟩ : ∃ k, fuel = k + 1 := ⟨fuel - 1, by simp at hf; omega⟩
    rw [utf8_cons, utf8DecodeF_utf8Cp c _ k hv.1, ih (by simpa [validStr] using hv.2) k (by simp at hf; omega)]

/-- decoding inverts encoding, for every string of scalar values -/
theorem utf8Decode_utf8 (s : Str) (hv : validStr s = true) : utf8Decode (utf8 s) = s :=
  utf8DecodeF_utf8 s hv _ (utf8_length_ge s)

theorem utf8Decode_cons_ascii (c : Nat) (l : List Nat) (h : c < 128) : utf8Decode (c :: l) = c :: utf8Decode l := by
  simp [utf8Decode, utf8DecodeF, decStep1 _ _ h]

theorem utf8Cp_lt (c : Nat) (hv : validCp c = true) : ∀ b ∈ utf8Cp c, b < 256 := by
  simp only [validCp, Bool.and_eq_true, decide_eq_true_eq] at hv
  intro b hb
  unfold utf8Cp at hb
  split at hb
  · simp at hb; omega
  · split at hb
    · simp at hb; omega
    · split at hb
      · simp at hb; omega
      · simp at hb; omega

theorem utf8_lt (s : Str) (hv : validStr s = true) : ∀ b ∈ utf8 s, b < 256 := by
  intro b hb
  simp only [utf8, List.mem_flatMap] at hb
  obtain ⟨c, hc, hb⟩ := hb
  exact utf8Cp_lt c (by simpa using (List.all_eq_true.mp hv) c hc) b hb


/-! ## the alphabet of quoted text; `unquote` on ASCII text -/

/-- characters `quote(_, safe)` can emit -/
def quoteChar (safe : List Nat) (x : Nat) : Bool :=
  isSafe safe x || x == 37 || (48 ≤ x && x ≤ 57) || (65 ≤ x && x ≤ 70)

theorem hexU_range (d : Nat) (h : d < 16) : (48 ≤ hexU d ∧ hexU d ≤ 57) ∨ (65 ≤ hexU d ∧ hexU d ≤ 70) := by
  unfold hexU; split <;> omega

theorem quoteChar_hexU (safe : List Nat) (d : Nat) (h : d < 16) : quoteChar safe (hexU d) = true := by
  have := hexU_range d h
  simp only [quoteChar, Bool.or_eq_true, Bool.and_eq_true, decide_eq_true_eq]
  omega

theorem mem_quoteByte (safe : List Nat) (b : Nat) (hb : b < 256) : ∀ x ∈ quoteByte safe b, quoteChar safe x = true := by
  intro x hx
  unfold quoteByte at hx
  split at hx
  · simp at hx; subst hx; simp [quoteChar, *]
  · simp only [List.mem_cons, List.not_mem_nil, or_false] at hx
    rcases hx with rfl | rfl | rfl
    · simp [quoteChar]
    · exact quoteChar_hexU _ _ (by omega)
    · exact quoteChar_hexU _ _ (by omega)

theorem mem_quoteBytes (safe : List Nat) (bs : List Nat) (hb : ∀ b ∈ bs, b < 256) :
    ∀ x ∈ quoteBytes safe bs, quoteChar safe x = true := by
  intro x hx
  simp only [quoteBytes, List.mem_flatMap] at hx
  obtain ⟨b, hbm, hx⟩ := hx
  exact mem_quoteByte safe b (hb b hbm) x hx

theorem quoteChar_lt (safe : List Nat) (x : Nat) (h : quoteChar safe x = true) : x < 128 := by
  simp only [quoteChar, isSafe, isAlwaysSafe, Bool.or_eq_true, Bool.and_eq_true, decide_eq_true_eq, beq_iff_eq] at h
  omega

theorem unquoteGo_ascii (s : Str) (h : ∀ c ∈ s, c < 128) (acc : List Nat) :
    unquoteGo acc s = flush (acc ++ s) := by
  induction s generalizing acc with
  | nil => simp [unquoteGo]
  | cons c cs ih =>
    have hc : c < 128 := h c (by simp)
    simp only [unquoteGo, hc, if_true]
    rw [ih (fun x hx => h x (by simp [hx]))]
    simp


/-! ## string functions -/

theorem breakOn_append (c : Nat) (pre post : Str) (h : c ∉ pre) :
    breakOn c (pre ++ c :: post) = some (pre, post) := by
  induction pre with
  | nil => simp [breakOn]
  | cons x xs ih =>
    have hx : x ≠ c := fun e => h (by simp [e])
    have hxs : c ∉ xs := fun e => h (by simp [e])
    simp [breakOn, hx, ih hxs]

theorem breakOn_none (c : Nat) (l : Str) (h : c ∉ l) : breakOn c l = none := by
  induction l with
  | nil => simp [breakOn]
  | cons x xs ih =>
    have hx : x ≠ c := fun e => h (by simp [e])
    have hxs : c ∉ xs := fun e => h (by simp [e])
    simp [breakOn, hx, ih hxs]

theorem rbreakOn_append (c : Nat) (pre post : Str) (h : c ∉ post) :
    rbreakOn c (pre ++ c :: post) = some (pre, post) := by
  unfold rbreakOn
  have : (pre ++ c :: post).reverse = post.reverse ++ c :: pre.reverse := by simp
  rw [this, breakOn_append c _ _ (by simpa using h)]
  simp

theorem rbreakOn_none (c : Nat) (l : Str) (h : c ∉ l) : rbreakOn c l = none := by
  unfold rbreakOn
  rw [breakOn_none c _ (by simpa using h)]
  rfl

theorem breakP_append (p : Nat → Bool) (pre post : Str) (d : Nat) (h : ∀ x ∈ pre, p x = false) (hd : p d = true) :
    breakP p (pre ++ d :: post) = (pre, d :: post) := by
  induction pre with
  | nil => simp [breakP, hd]
  | cons x xs ih =>
    have hx : p x = false := h x (by simp)
    have := ih (fun y hy => h y (by simp [hy]))
    simp [breakP, hx, this]

theorem breakP_all (p : Nat → Bool) (l : Str) (h : ∀ x ∈ l, p x = false) : breakP p l = (l, []) := by
  induction l with
  | nil => simp [breakP]
  | cons x xs ih =>
    have hx : p x = false := h x (by simp)
    have := ih (fun y hy => h y (by simp [hy]))
    simp [breakP, hx, this]

theorem lstripC0_id (c : Nat) (cs : Str) (h : 32 < c) : lstripC0 (c :: cs) = c :: cs := by
  simp [lstripC0]; omega

theorem removeTRN_id (s : Str) (h : ∀ c ∈ s, c ≠ 9 ∧ c ≠ 13 ∧ c ≠ 10) : removeTRN s = s := by
  unfold removeTRN
  rw [List.filter_eq_self]
  intro c hc
  have := h c hc
  simp [this]

theorem decDigits_digits (n : Nat) : ∀ c ∈ decDigits n, isDigit c = true := by
  induction n using Nat.strongRecOn with
  | _ n ih =>
    intro c hc
    rw [decDigits] at hc
    split at hc
    · simp at hc; subst hc; simp [isDigit]; omega
    · simp only [List.mem_append, List.mem_singleton] at hc
      rcases hc with hc | hc
      · exact ih (n / 10) (by omega) c hc
      · subst hc; simp [isDigit]; omega

theorem parseDec_append (a : Str) (d : Nat) : parseDec (a ++ [d]) = parseDec a * 10 + (d - 48) := by
  simp [parseDec, List.foldl_append]

theorem parseDec_decDigits (n : Nat) : parseDec (decDigits n) = n := by
  induction n using Nat.strongRecOn with
  | _ n ih =>
    rw [decDigits]
    split
    · simp [parseDec]
    · rw [parseDec_append, ih (n / 10) (by omega)]
      omega

theorem decDigits_ne_nil (n : Nat) : decDigits n ≠ [] := by
  rw [decDigits]; split <;> simp



/-! ## `unquote ∘ quote` -/

theorem quoteBytes_ascii (safe : List Nat) (bs : List Nat) (hb : ∀ b ∈ bs, b < 256) :
    ∀ x ∈ quoteBytes safe bs, x < 128 :=
  fun x hx => quoteChar_lt safe x (mem_quoteBytes safe bs hb x hx)

theorem unquote_ascii (q : Str) (h : ∀ c ∈ q, c < 128) : unquote q = utf8Decode (pctDecode q) := by
  simp [unquote, unquoteGo_ascii q h, flush]

/-- `unquote(quote(s, safe)) == s` for every string and every `safe` set without `%` -/
theorem unquote_quote (safe : List Nat) (s q : Str) (hs : 37 ∉ safe) (hq : quote safe s = some q) :
    unquote q = s := by
  unfold quote at hq
  split at hq
  · rename_i hv
    simp only [Option.some.injEq] at hq
    subst hq
    rw [unquote_ascii _ (quoteBytes_ascii safe _ (utf8_lt s hv)),
      pctDecode_quoteBytes safe _ (utf8_lt s hv) hs, utf8Decode_utf8 s hv]
  · simp at hq

theorem unquote_cons (c : Nat) (q : Str) (hc : c < 128) (hne : c ≠ 37) (h : ∀ x ∈ q, x < 128) :
    unquote (c :: q) = c :: unquote q := by
  rw [unquote_ascii q h, unquote_ascii (c :: q) (by intro x hx; simp at hx; rcases hx with rfl | hx; exact hc; exact h x hx),
    pctDecode_cons_ne c q hne, utf8Decode_cons_ascii c _ hc]

theorem quote_ok (safe : List Nat) (s : Str) (hv : validStr s = true) :
    quote safe s = some (quoteBytes safe (utf8 s)) := by simp [quote, hv]

/-- no character of `bad` occurs in `quote(s, safe)` when `quote` cannot emit it -/
theorem quote_avoids (safe : List Nat) (s : Str) (hv : validStr s = true) (d : Nat)
    (hd : quoteChar safe d = false) : d ∉ quoteBytes safe (utf8 s) := by
  intro hm
  have := mem_quoteBytes safe _ (utf8_lt s hv) d hm
  simp [hd] at this



/-! ## the `urlparse` model inverts the assembly of a URI from delimiter-free pieces -/

/-- the pieces a built URI is made of (user / password already quoted) -/
structure Parts where
  scheme : Str
  ui : Option (Str × Option Str)
  host : Str
  /-- the host is written in brackets -/
  br : Bool
  portText : Option Str
  tail : Str

def Parts.auth (p : Parts) : Str :=
  match p.ui with
  | none => []
  | some (u, none) => u ++ [64]
  | some (u, some w) => u ++ [58] ++ w ++ [64]

def Parts.hostText (p : Parts) : Str := if p.br then 91 :: (p.host ++ [93]) else p.host

def Parts.portPart (p : Parts) : Str :=
  match p.portText with
  | none => []
  | some t => 58 :: t

def Parts.hostport (p : Parts) : Str := p.hostText ++ p.portPart

def Parts.netloc (p : Parts) : Str := p.auth ++ p.hostport

def assemble (p : Parts) : Str := p.scheme ++ [58, 47, 47] ++ p.netloc ++ [47] ++ p.tail

def validScheme : Str → Bool
  | [] => false
  | x :: xs => isAsciiAlpha x && (x :: xs).all isSchemeChar

/-- may occur in a netloc without ending it / changing how `urlsplit` treats it -/
def okNet (c : Nat) : Bool := !(c == 47 || c == 63 || c == 35 || c == 91 || c == 93 || c == 9 || c == 10 || c == 13)

/-- may occur in the path without starting a query / fragment / params -/
def okTail (c : Nat) : Bool := !(c == 63 || c == 35 || c == 59 || c == 9 || c == 10 || c == 13)

structure PartsOk (p : Parts) : Prop where
  scheme : validScheme p.scheme = true
  auth : p.auth.all okNet = true
  host : p.host.all okNet = true
  port : p.portPart.all okNet = true
  brok : p.br = true → bracketedHostOk p.host = true
  tail : p.tail.all okTail = true

theorem schemeChar_facts (c : Nat) (h : isSchemeChar c = true) : c ≠ 58 ∧ c ≠ 9 ∧ c ≠ 13 ∧ c ≠ 10 ∧ c < 128 := by
  simp only [isSchemeChar, isAsciiAlpha, isDigit, Bool.or_eq_true, Bool.and_eq_true, decide_eq_true_eq, beq_iff_eq] at h
  omega

theorem okNet_facts (c : Nat) (h : okNet c = true) :
    c ≠ 47 ∧ c ≠ 63 ∧ c ≠ 35 ∧ c ≠ 91 ∧ c ≠ 93 ∧ c ≠ 9 ∧ c ≠ 10 ∧ c ≠ 13 := by
  simp [okNet] at h; omega

/-- every netloc character is harmless or one of the two brackets -/
theorem netloc_chars (p : Parts) (ok : PartsOk p) : ∀ c ∈ p.netloc, okNet c = true ∨ c = 91 ∨ c = 93 := by
  intro c hc
  have ha := List.all_eq_true.mp ok.auth
  have hh := List.all_eq_true.mp ok.host
  have hp := List.all_eq_true.mp ok.port
  simp only [Parts.netloc, Parts.hostport, Parts.hostText, List.mem_append] at hc
  rcases hc with hc | hc | hc
  · exact Or.inl (ha c hc)
  · split at hc
    · simp only [List.mem_cons, List.mem_append, List.not_mem_nil, or_false] at hc
      rcases hc with rfl | hc | rfl
      · exact Or.inr (Or.inl rfl)
      · exact Or.inl (hh c hc)
      · exact Or.inr (Or.inr rfl)
    · exact Or.inl (hh c hc)
  · exact Or.inl (hp c hc)

theorem not_mem_of_all_okNet (l : Str) (h : l.all okNet = true) (d : Nat) (hd : okNet d = false) : d ∉ l := by
  intro hm
  have := List.all_eq_true.mp h d hm
  simp [hd] at this

theorem netloc_br (p : Parts) (ok : PartsOk p) :
    p.netloc.contains 91 = p.br ∧ p.netloc.contains 93 = p.br ∧ (p.br = true → bracketed p.netloc = p.host) := by
  have a91 := not_mem_of_all_okNet _ ok.auth 91 (by decide)
  have a93 := not_mem_of_all_okNet _ ok.auth 93 (by decide)
  have h91 := not_mem_of_all_okNet _ ok.host 91 (by decide)
  have h93 := not_mem_of_all_okNet _ ok.host 93 (by decide)
  have p91 := not_mem_of_all_okNet _ ok.port 91 (by decide)
  have p93 := not_mem_of_all_okNet _ ok.port 93 (by decide)
  cases hbr : p.br with
  | false =>
    refine ⟨?_, ?_, by simp⟩ <;>
      simp [Parts.netloc, Parts.hostport, Parts.hostText, hbr, a91, a93, h91, h93, p91, p93]
  | true =>
    refine ⟨?_, ?_, ?_⟩
    · simp [Parts.netloc, Parts.hostport, Parts.hostText, hbr]
    · simp [Parts.netloc, Parts.hostport, Parts.hostText, hbr]
    · intro _
      have e : p.netloc = p.auth ++ 91 :: (p.host ++ 93 :: p.portPart) := by
        simp [Parts.netloc, Parts.hostport, Parts.hostText, hbr]
      simp only [bracketed, e, breakOn_append 91 _ _ a91, breakOn_append 93 _ _ h93]

theorem urlparse_assemble (p : Parts) (ok : PartsOk p) :
    urlparse (assemble p) = .ok ⟨p.scheme.map lowerAscii, p.netloc, 47 :: p.tail, []⟩ := by
  have hn' := netloc_chars p ok
  have ht' : ∀ c ∈ p.tail, okTail c = true := List.all_eq_true.mp ok.tail
  obtain ⟨hO, hC, hB⟩ := netloc_br p ok
  have hs := ok.scheme
  match hsc : p.scheme, hs with
  | x :: xs, hs =>
    simp only [validScheme, Bool.and_eq_true] at hs
    obtain ⟨hx, hall⟩ := hs
    have hall' : ∀ c ∈ x :: xs, isSchemeChar c = true := List.all_eq_true.mp hall
    have hx32 : 32 < x := by
      simp only [isAsciiAlpha, Bool.or_eq_true, Bool.and_eq_true, decide_eq_true_eq] at hx; omega
    have hx128 : x < 128 := (schemeChar_facts x (hall' x (by simp))).2.2.2.2
    have h58 : 58 ∉ x :: xs := fun hm => (schemeChar_facts 58 (hall' 58 hm)).1 rfl
    have hu : assemble p = (x :: xs) ++ 58 :: ([47, 47] ++ p.netloc ++ 47 :: p.tail) := by
      simp [assemble, hsc]
    have hstrip : lstripC0 (assemble p) = assemble p := by
      rw [hu]; exact lstripC0_id x _ hx32
    have htrn : removeTRN (assemble p) = assemble p := by
      apply removeTRN_id
      intro c hc
      rw [hu] at hc
      simp only [List.mem_append, List.mem_cons, List.not_mem_nil, or_false] at hc
      rcases hc with hc | rfl | ((rfl | rfl) | hc) | rfl | hc
      · have := schemeChar_facts c (hall' c (by simpa using hc)); omega
      · decide
      · decide
      · decide
      · rcases hn' c hc with h | rfl | rfl
        · have := okNet_facts c h; omega
        · decide
        · decide
      · decide
      · have := ht' c hc; simp [okTail] at this; omega
    unfold urlparse
    simp only [hstrip, htrn]
    have hsplit : splitScheme (assemble p) = ((x :: xs).map lowerAscii, [47, 47] ++ p.netloc ++ 47 :: p.tail) := by
      unfold splitScheme
      rw [hu, breakOn_append 58 _ _ h58]
      simp [hx, hx128, hall]
    rw [hsplit]
    have hbp : breakP isNetlocEnd (p.netloc ++ 47 :: p.tail) = (p.netloc, 47 :: p.tail) := by
      apply breakP_append
      · intro c hc
        rcases hn' c hc with h | rfl | rfl
        · have := okNet_facts c h; simp [isNetlocEnd]; omega
        · decide
        · decide
      · decide
    have h35 : breakOn 35 (47 :: p.tail) = none := by
      apply breakOn_none
      intro hm
      simp at hm
      have := ht' 35 hm; simp [okTail] at this
    have h63 : breakOn 63 (47 :: p.tail) = none := by
      apply breakOn_none
      intro hm
      simp at hm
      have := ht' 63 hm; simp [okTail] at this
    have h59 : 59 ∉ p.tail := by
      intro hm
      have := ht' 59 hm; simp [okTail] at this
    have hdrop : ([47, 47] ++ p.netloc ++ 47 :: p.tail).drop 2 = p.netloc ++ 47 :: p.tail := by simp
    have hsw : startsWith [47, 47] ([47, 47] ++ p.netloc ++ 47 :: p.tail) = true := by simp [startsWith]
    simp only [hsw, if_true, hdrop, hbp, hO, hC, bne_self_eq_false, Bool.false_eq_true, if_false]
    cases hbr : p.br with
    | false => simp [h35, h63, h59]
    | true => simp [hB hbr, ok.brok hbr, h35, h63, h59]

structure PartsSep (p : Parts) : Prop where
  at_host : 64 ∉ p.host
  at_port : 64 ∉ p.portPart
  colon_user : ∀ u w, p.ui = some (u, w) → 58 ∉ u
  colon_host : p.br = false → 58 ∉ p.host

def Parts.user (p : Parts) : Option Str := p.ui.map (·.1)
def Parts.password (p : Parts) : Option Str := p.ui.bind (·.2)
def Parts.port (p : Parts) : Option Str :=
  match p.portText with
  | some t => if t.isEmpty then none else some t
  | none => none

theorem at_hostport (p : Parts) (sep : PartsSep p) : 64 ∉ p.hostport := by
  have h1 := sep.at_host
  have h2 := sep.at_port
  unfold Parts.hostport Parts.hostText
  split <;> simp [h1, h2]

theorem userinfo_netloc (p : Parts) (sep : PartsSep p) : userinfo p.netloc = (p.user, p.password) := by
  have h64 := at_hostport p sep
  have hcu := sep.colon_user
  unfold userinfo Parts.netloc Parts.auth Parts.user Parts.password
  match hui : p.ui with
  | none =>
    simp only [List.nil_append, Option.map_none, Option.bind_none]
    rw [rbreakOn_none 64 _ h64]
  | some (u, none) =>
    have : u ++ [64] ++ p.hostport = u ++ 64 :: p.hostport := by simp
    simp only [this, rbreakOn_append 64 u _ h64, breakOn_none 58 u (hcu u none hui)]
    simp
  | some (u, some w) =>
    have : u ++ [58] ++ w ++ [64] ++ p.hostport = (u ++ 58 :: w) ++ 64 :: p.hostport := by simp
    simp only [this, rbreakOn_append 64 _ _ h64, breakOn_append 58 u w (hcu u (some w) hui)]
    simp

theorem hostpart_netloc (p : Parts) (sep : PartsSep p) : hostpart p.netloc = p.hostport := by
  have h64 := at_hostport p sep
  unfold hostpart Parts.netloc Parts.auth
  match hui : p.ui with
  | none =>
    simp only [List.nil_append]
    rw [rbreakOn_none 64 _ h64]
  | some (u, none) =>
    have : u ++ [64] ++ p.hostport = u ++ 64 :: p.hostport := by simp
    simp only [this, rbreakOn_append 64 u _ h64]
  | some (u, some w) =>
    have : u ++ [58] ++ w ++ [64] ++ p.hostport = (u ++ 58 :: w) ++ 64 :: p.hostport := by simp
    simp only [this, rbreakOn_append 64 _ _ h64]

theorem hostinfo_netloc (p : Parts) (ok : PartsOk p) (sep : PartsSep p) : hostinfo p.netloc = (p.host, p.port) := by
  have h91 := not_mem_of_all_okNet _ ok.host 91 (by decide)
  have h93 := not_mem_of_all_okNet _ ok.host 93 (by decide)
  have p91 := not_mem_of_all_okNet _ ok.port 91 (by decide)
  unfold hostinfo
  simp only [hostpart_netloc p sep]
  cases hbr : p.br with
  | true =>
    have e : p.hostport = [] ++ 91 :: (p.host ++ 93 :: p.portPart) := by
      simp [Parts.hostport, Parts.hostText, hbr]
    simp only [e, breakOn_append 91 [] _ (by simp), breakOn_append 93 _ _ h93]
    unfold Parts.portPart Parts.port
    match p.portText with
    | none => simp [breakOn]
    | some t => simp [breakOn]
  | false =>
    have hch := sep.colon_host hbr
    have e : p.hostport = p.host ++ p.portPart := by simp [Parts.hostport, Parts.hostText, hbr]
    have hno : 91 ∉ p.host ++ p.portPart := by simp [h91, p91]
    simp only [e, breakOn_none 91 _ hno]
    unfold Parts.portPart Parts.port
    match p.portText with
    | none => simp [breakOn_none 58 _ hch]
    | some t => simp [breakOn_append 58 _ t hch]

theorem parseQsl_nil : parseQsl [] = [] := by simp [parseQsl]

/-- the parser on an assembled URI: the pieces come back (decoded), or ValueError for a bad port -/
theorem parseURI_assemble (p : Parts) (ok : PartsOk p) (sep : PartsSep p) :
    parseURI (assemble p) =
      match portOfText p.port with
      | none => .valueError
      | some port =>
        .ok { user := (nonEmpty? p.user).map unquote
              password := (nonEmpty? p.password).map unquote
              host := hostnameOf p.host
              port := match port with
                | some 0 => none
                | x => x
              path := unquote (47 :: p.tail)
              args := [] } := by
  unfold parseURI
  rw [urlparse_assemble p ok]
  simp only [userinfo_netloc p sep, portOf, hostname, hostinfo_netloc p ok sep, parseQsl_nil, dictOf, List.foldl_nil]
  generalize portOfText p.port = r
  cases r <;> rfl


/-! ## the sqlite builder -/
open Extracted

theorem all_ok_of_quote (safe bad : List Nat) (ok : Nat → Bool) (hbad : ∀ x, ok x = false → x ∈ bad)
    (hq : ∀ d ∈ bad, quoteChar safe d = false) (s : Str) (hv : validStr s = true) :
    (quoteBytes safe (utf8 s)).all ok = true := by
  rw [List.all_eq_true]
  intro x hx
  cases h : ok x with
  | true => rfl
  | false => exact absurd hx (quote_avoids safe s hv x (hq x (hbad x h)))

theorem okTail_bad (x : Nat) (h : okTail x = false) : x ∈ [63, 35, 59, 9, 10, 13] := by
  simp [okTail] at h; simp; omega

theorem okNet_bad (x : Nat) (h : okNet x = false) : x ∈ [47, 63, 35, 91, 93, 9, 10, 13] := by
  simp [okNet] at h; simp; omega

theorem utf8_cons_ascii (c : Nat) (l : Str) (h : c < 128) : utf8 (c :: l) = c :: utf8 l := by
  simp [utf8, utf8Cp, h]

theorem quoteBytes_cons_safe (safe : List Nat) (b : Nat) (bs : List Nat) (h : isSafe safe b = true) :
    quoteBytes safe (b :: bs) = b :: quoteBytes safe bs := by
  simp [quoteBytes, quoteByte, h]

theorem validStr_cons (c : Nat) (l : Str) : validStr (c :: l) = (validCp c && validStr l) := by
  simp [validStr]

theorem startsWith_slash (fn : Str) (h : startsWith [47] fn = true) : ∃ t, fn = 47 :: t := by
  match fn with
  | [] => simp [startsWith] at h
  | x :: t =>
    simp [startsWith, List.isPrefixOf] at h
    exact ⟨t, by rw [h]⟩

/-- the scheme of the sqlite builder (its prefix without the colon) -/
def sqliteScheme : Str := sqlitePrefix.dropLast

theorem sqlite_abs_uri (t : Str) (hv : validStr (47 :: t) = true) :
    sqliteUri (47 :: t) = .ok (assemble ⟨sqliteScheme, none, [], false, none, quoteBytes sqliteSafe (utf8 t)⟩) := by
  have hv' : validStr t = true := by
    rw [validStr_cons] at hv; simp at hv; exact hv.2
  have hne : (47 :: t) ≠ sqliteMemoryName := by
    intro h; simp [sqliteMemoryName] at h
  have hvv : validStr (47 :: 47 :: 47 :: t) = true := by
    simp [validStr_cons, hv', validCp]
  have h47 : isSafe sqliteSafe 47 = true := by decide
  simp only [sqliteUri, hne, if_false]
  have hp : (if startsWith sqliteAbsTest (47 :: t) = true then sqliteAbsPrefix else sqliteRelPrefix) ++ (47 :: t)
      = 47 :: 47 :: 47 :: t := by
    simp [startsWith, sqliteAbsTest, sqliteAbsPrefix, List.isPrefixOf]
  rw [hp, quote_ok _ _ hvv]
  simp only [utf8_cons_ascii 47 _ (by decide), quoteBytes_cons_safe _ _ _ h47]
  simp [assemble, Parts.netloc, Parts.auth, Parts.hostport, Parts.hostText, Parts.portPart, sqliteScheme, sqlitePrefix]

theorem sqlite_parts_ok (t : Str) (hv : validStr t = true) :
    PartsOk ⟨sqliteScheme, none, [], false, none, quoteBytes sqliteSafe (utf8 t)⟩ where
  scheme := by show validScheme sqliteScheme = true; decide
  auth := by simp [Parts.auth]
  host := by simp
  port := by simp [Parts.portPart]
  brok := by simp
  tail := all_ok_of_quote sqliteSafe _ okTail okTail_bad (by decide) t hv

theorem sqlite_parts_sep (t : Str) : PartsSep ⟨sqliteScheme, none, [], false, none, quoteBytes sqliteSafe (utf8 t)⟩ where
  at_host := by simp
  at_port := by simp [Parts.portPart]
  colon_user := by intro u w h; simp at h
  colon_host := by simp

theorem sqlite_abs_parse (t : Str) (hv : validStr (47 :: t) = true) :
    ∃ u, sqliteUri (47 :: t) = .ok u ∧ parseURI u = .ok ⟨none, none, none, none, 47 :: t, []⟩ := by
  have hv' : validStr t = true := by
    rw [validStr_cons] at hv; simp at hv; exact hv.2
  refine ⟨_, sqlite_abs_uri t hv, ?_⟩
  rw [parseURI_assemble _ (sqlite_parts_ok t hv') (sqlite_parts_sep t)]
  have hq : quote sqliteSafe t = some (quoteBytes sqliteSafe (utf8 t)) := quote_ok _ _ hv'
  have hun : unquote (47 :: quoteBytes sqliteSafe (utf8 t)) = 47 :: t := by
    rw [unquote_cons 47 _ (by decide) (by decide) (quoteBytes_ascii _ _ (utf8_lt t hv')),
      unquote_quote sqliteSafe t _ (by decide) hq]
  simp [Parts.port, Parts.user, Parts.password, portOfText, nonEmpty?, truthyS, hostnameOf, hun]


/-! ## the generic builder -/
open Extracted

def okHostChar (c : Nat) : Bool := okNet c && c != 64

/-- a host the generic builder can express: no URI delimiter / bracket / `@` / tab, CR, LF;
    already lower-case (before a `%`); with a colon only if it is an IPv6 literal -/
def wfHost (h : Str) : Bool :=
  h.all okHostChar && lowerHost h == h && (if h.contains 58 then bracketedHostOk h else true)

/-- well-formed connection description, port aside -/
structure WfBase (c : Conn) : Prop where
  scheme : validScheme c.scheme = true
  user : ∀ u, truthyS c.user = some u → validStr u = true
  password : ∀ p, truthyS c.password = some p → validStr p = true ∧ (truthyS c.user).isSome = true
  db : validStr c.db = true
  host : ∀ h, truthyS c.host = some h → wfHost h = true

/-- … and the port is absent (`None` / 0) or in 1..65535 -/
structure WfConn (c : Conn) : Prop extends WfBase c where
  port : ∀ p, truthyI c.port = some p → 1 ≤ p ∧ p ≤ 65535

def partsOf (c : Conn) : Parts :=
  { scheme := c.scheme
    ui := match truthyS c.user with
      | none => none
      | some u => some (quoteBytes userSafe (utf8 u),
          (truthyS c.password).map fun p => quoteBytes passwordSafe (utf8 p))
    host := (truthyS c.host).getD []
    br := ((truthyS c.host).getD []).contains 58
    portText := (truthyI c.port).map fmtD
    tail := quoteBytes dbSafe (utf8 (dbOf c)) }

theorem truthyS_ne (x : Option Str) (u : Str) (h : truthyS x = some u) : ∃ a l, u = a :: l := by
  unfold truthyS at h
  split at h
  · rename_i a l; simp at h; exact ⟨a, l, h.symm⟩
  · simp at h

theorem quoteBytes_utf8_ne (safe : List Nat) (a : Nat) (l : Str) : quoteBytes safe (utf8 (a :: l)) ≠ [] := by
  rw [utf8_cons]
  have h1 := utf8Cp_length_pos a
  match hb : utf8Cp a with
  | [] => simp [hb] at h1
  | b :: bs =>
    simp only [List.cons_append, quoteBytes, List.flatMap_cons]
    unfold quoteByte
    split <;> simp

theorem nonEmpty_some (q : Str) (h : q ≠ []) : nonEmpty? (some q) = some q := by
  match q, h with
  | a :: l, _ => rfl

theorem validStr_dbOf (c : Conn) (h : validStr c.db = true) : validStr (dbOf c) = true := by
  unfold dbOf
  split
  · simp only [validStr, List.all_eq_true] at h ⊢
    intro x hx
    exact h x (List.mem_of_mem_drop hx)
  · exact h

theorem wfHost_facts (h : Str) (w : wfHost h = true) :
    h.all okNet = true ∧ 64 ∉ h ∧ lowerHost h = h ∧ (h.contains 58 = true → bracketedHostOk h = true) := by
  simp only [wfHost, Bool.and_eq_true, beq_iff_eq] at w
  obtain ⟨⟨h1, h2⟩, h3⟩ := w
  have h1' := List.all_eq_true.mp h1
  refine ⟨?_, ?_, h2, ?_⟩
  · rw [List.all_eq_true]; intro x hx
    have := h1' x hx; simp [okHostChar] at this; exact this.1
  · intro hm; have := h1' 64 hm; simp [okHostChar] at this
  · intro hc
    have hm : 58 ∈ h := by simpa using hc
    simp only [hc, if_true] at h3
    exact h3

theorem hostText_eq (h : Str) (hn : h.all okNet = true) :
    hostText h = if h.contains 58 then 91 :: (h ++ [93]) else h := by
  have h91 : 91 ∉ h := not_mem_of_all_okNet h hn 91 (by decide)
  have hsw : startsWith hostBracketSkip h = false := by
    match h, h91 with
    | [], _ => simp [startsWith, hostBracketSkip]
    | x :: xs, h91 =>
      have : 91 ≠ x := fun e => h91 (by simp [e])
      simp [startsWith, hostBracketSkip, List.isPrefixOf, this]
  simp [hostText, hasChar, hostBracketTest, hostBracketOpen, hostBracketClose, hsw]

theorem fmtD_pos (p : Int) (h1 : 1 ≤ p) : fmtD p = decDigits p.toNat := by
  unfold fmtD
  rw [if_neg (by omega)]

theorem genericUri_eq (c : Conn) (wf : WfBase c) : genericUri c = .ok (assemble (partsOf c)) := by
  have hauth : authOf c = .ok (partsOf c).auth := by
    unfold authOf partsOf Parts.auth
    cases hu : truthyS c.user with
    | none =>
      cases hp : truthyS c.password with
      | none => simp
      | some p => have := (wf.password p hp).2; simp [hu] at this
    | some u =>
      simp only [quote_ok _ _ (wf.user u hu)]
      cases hp : truthyS c.password with
      | none => simp [authEnd]
      | some p => simp [quote_ok _ _ (wf.password p hp).1, passwordSep, authEnd]
  have hhp : hostportOf c = (partsOf c).hostport := by
    unfold hostportOf partsOf Parts.hostport Parts.hostText Parts.portPart
    cases hh : truthyS c.host with
    | none => cases hp : truthyI c.port <;> simp [portSep]
    | some h =>
      have hf := wfHost_facts h (wf.host h hh)
      cases hp : truthyI c.port <;> simp [portSep, hostText_eq h hf.1]
  unfold genericUri
  simp only [hauth, quote_ok _ _ (validStr_dbOf c wf.db), hhp]
  simp [assemble, Parts.netloc, partsOf, schemeSep, pathSep]



theorem digits_okNet (l : Str) (h : ∀ c ∈ l, isDigit c = true) : l.all okNet = true := by
  rw [List.all_eq_true]; intro c hc
  have := h c hc
  simp [isDigit] at this
  simp [okNet]; omega

theorem digits_no_at (l : Str) (h : ∀ c ∈ l, isDigit c = true) : 64 ∉ l := by
  intro hm; have := h 64 hm; simp [isDigit] at this

theorem fmtD_chars (p : Int) : ∀ x ∈ fmtD p, isDigit x = true ∨ x = 45 := by
  intro x hx
  unfold fmtD at hx
  split at hx
  · simp only [List.mem_cons] at hx
    rcases hx with rfl | hx
    · exact Or.inr rfl
    · exact Or.inl (decDigits_digits _ x hx)
  · exact Or.inl (decDigits_digits _ x hx)

theorem portPart_facts (c : Conn) :
    (partsOf c).portPart.all okNet = true ∧ 64 ∉ (partsOf c).portPart := by
  unfold Parts.portPart partsOf
  cases hp : truthyI c.port with
  | none => simp
  | some p =>
    have hd := fmtD_chars p
    simp only [Option.map_some]
    refine ⟨?_, ?_⟩
    · simp only [List.all_cons, Bool.and_eq_true]
      refine ⟨by decide, List.all_eq_true.mpr ?_⟩
      intro x hx
      rcases hd x hx with h | rfl
      · simp [isDigit] at h; simp [okNet]; omega
      · decide
    · intro hm
      simp at hm
      rcases hd 64 hm with h | h
      · simp [isDigit] at h
      · simp at h

theorem auth_okNet (c : Conn) (wf : WfBase c) : (partsOf c).auth.all okNet = true := by
  unfold Parts.auth partsOf
  cases hu : truthyS c.user with
  | none => simp
  | some u =>
    have qu := all_ok_of_quote userSafe _ okNet okNet_bad (by decide) u (wf.user u hu)
    cases hp : truthyS c.password with
    | none => simp [List.all_append, qu]; decide
    | some p =>
      have qp := all_ok_of_quote passwordSafe _ okNet okNet_bad (by decide) p (wf.password p hp).1
      simp [List.all_append, qu, qp]; decide

theorem partsOf_ok (c : Conn) (wf : WfBase c) : PartsOk (partsOf c) where
  scheme := wf.scheme
  auth := auth_okNet c wf
  host := by
    show ((truthyS c.host).getD []).all okNet = true
    cases hh : truthyS c.host with
    | none => simp
    | some h => exact (wfHost_facts h (wf.host h hh)).1
  port := (portPart_facts c).1
  brok := by
    show ((truthyS c.host).getD []).contains 58 = true → bracketedHostOk ((truthyS c.host).getD []) = true
    cases hh : truthyS c.host with
    | none => simp
    | some h => exact (wfHost_facts h (wf.host h hh)).2.2.2
  tail := all_ok_of_quote dbSafe _ okTail okTail_bad (by decide) (dbOf c) (validStr_dbOf c wf.db)

theorem partsOf_sep (c : Conn) (wf : WfBase c) : PartsSep (partsOf c) where
  at_host := by
    show 64 ∉ (truthyS c.host).getD []
    cases hh : truthyS c.host with
    | none => simp
    | some h => exact (wfHost_facts h (wf.host h hh)).2.1
  at_port := (portPart_facts c).2
  colon_user := by
    intro u w h
    simp only [partsOf] at h
    cases hu : truthyS c.user with
    | none => simp [hu] at h
    | some u' =>
      simp only [hu, Option.some.injEq, Prod.mk.injEq] at h
      rw [← h.1]
      exact quote_avoids userSafe u' (wf.user u' hu) 58 (by decide)
  colon_host := by
    intro hbr
    have : ((truthyS c.host).getD []).contains 58 = false := hbr
    show 58 ∉ (truthyS c.host).getD []
    simpa using this



theorem user_back (c : Conn) (wf : WfBase c) :
    (nonEmpty? (partsOf c).user).map unquote = truthyS c.user := by
  unfold Parts.user partsOf
  cases hu : truthyS c.user with
  | none => rfl
  | some u =>
    obtain ⟨a, l, rfl⟩ := truthyS_ne _ _ hu
    simp only [Option.map_some]
    rw [nonEmpty_some _ (quoteBytes_utf8_ne userSafe a l)]
    simp only [Option.map_some]
    rw [unquote_quote userSafe (a :: l) _ (by decide) (quote_ok _ _ (wf.user _ hu))]

theorem password_back (c : Conn) (wf : WfBase c) :
    (nonEmpty? (partsOf c).password).map unquote = truthyS c.password := by
  unfold Parts.password partsOf
  cases hp : truthyS c.password with
  | none =>
    cases hu : truthyS c.user <;> rfl
  | some p =>
    have hpw := wf.password p hp
    cases hu : truthyS c.user with
    | none => simp [hu] at hpw
    | some u =>
      obtain ⟨a, l, rfl⟩ := truthyS_ne _ _ hp
      simp only [Option.map_some, Option.bind_some]
      rw [nonEmpty_some _ (quoteBytes_utf8_ne passwordSafe a l)]
      simp only [Option.map_some]
      rw [unquote_quote passwordSafe (a :: l) _ (by decide) (quote_ok _ _ hpw.1)]

theorem host_back (c : Conn) (wf : WfBase c) : hostnameOf (partsOf c).host = truthyS c.host := by
  show hostnameOf ((truthyS c.host).getD []) = truthyS c.host
  cases hh : truthyS c.host with
  | none => rfl
  | some h =>
    obtain ⟨a, l, rfl⟩ := truthyS_ne _ _ hh
    have := (wfHost_facts _ (wf.host _ hh)).2.2.1
    simp [hostnameOf, this]

theorem port_back (c : Conn) (wf : WfConn c) :
    portOfText (partsOf c).port = some ((truthyI c.port).map Int.toNat) ∧
    ∀ n, (truthyI c.port).map Int.toNat = some n → n ≠ 0 := by
  unfold Parts.port partsOf
  cases hp : truthyI c.port with
  | none => simp [portOfText]
  | some p =>
    have hr := wf.port p hp
    have hd := decDigits_digits p.toNat
    have hne := decDigits_ne_nil p.toNat
    simp only [Option.map_some, fmtD_pos p hr.1]
    have he : (decDigits p.toNat).isEmpty = false := by
      cases h : decDigits p.toNat with
      | nil => exact absurd h hne
      | cons _ _ => rfl
    simp only [he]
    refine ⟨?_, ?_⟩
    · have hall : (decDigits p.toNat).all isDigit = true := List.all_eq_true.mpr hd
      have hle : parseDec (decDigits p.toNat) ≤ 65535 := by rw [parseDec_decDigits]; omega
      simp [portOfText, hall, parseDec_decDigits]
      exact hr.2
    · intro n hn
      simp at hn
      omega

theorem path_back (c : Conn) (wf : WfBase c) : unquote (47 :: (partsOf c).tail) = 47 :: dbOf c := by
  have hv := validStr_dbOf c wf.db
  show unquote (47 :: quoteBytes dbSafe (utf8 (dbOf c))) = 47 :: dbOf c
  rw [unquote_cons 47 _ (by decide) (by decide) (quoteBytes_ascii _ _ (utf8_lt _ hv)),
    unquote_quote dbSafe _ _ (by decide) (quote_ok _ _ hv)]

/-- the generic builder's URI parses back to the components (absent = `None`, `''` or port 0) -/
theorem parse_build (c : Conn) (wf : WfConn c) :
    ∃ u, genericUri c = .ok u ∧
      parseURI u = .ok ⟨truthyS c.user, truthyS c.password, truthyS c.host,
        (truthyI c.port).map Int.toNat, 47 :: dbOf c, []⟩ := by
  have wb := wf.toWfBase
  refine ⟨_, genericUri_eq c wb, ?_⟩
  rw [parseURI_assemble _ (partsOf_ok c wb) (partsOf_sep c wb)]
  obtain ⟨hp1, hp2⟩ := port_back c wf
  simp only [hp1, user_back c wb, password_back c wb, host_back c wb, path_back c wb]
  cases hq : (truthyI c.port).map Int.toNat with
  | none => rfl
  | some n =>
    have := hp2 n hq
    match n, this with
    | n + 1, _ => rfl

/-! ## bad ports -/

/-- a URI assembled from well-formed pieces and an arbitrary port text -/
def withPortText (c : Conn) (t : Str) : Parts := { partsOf c with portText := some t }

theorem bad_port (c : Conn) (wf : WfBase c) (t : Str) (hne : t ≠ [])
    (hchars : t.all (fun x => okNet x && x != 64) = true)
    (hbad : ¬ (t.all isDigit = true ∧ parseDec t ≤ 65535)) :
    parseURI (assemble (withPortText c t)) = .valueError := by
  have ht := List.all_eq_true.mp hchars
  have ok := partsOf_ok c wf
  have sep := partsOf_sep c wf
  have ok' : PartsOk (withPortText c t) :=
    { scheme := ok.scheme, auth := ok.auth, host := ok.host, brok := ok.brok, tail := ok.tail
      port := by
        show (58 :: t).all okNet = true
        simp only [List.all_cons, Bool.and_eq_true]
        refine ⟨by decide, List.all_eq_true.mpr ?_⟩
        intro x hx; have := ht x hx; simp at this; exact this.1 }
  have sep' : PartsSep (withPortText c t) :=
    { at_host := sep.at_host, colon_user := sep.colon_user, colon_host := sep.colon_host
      at_port := by
        show 64 ∉ 58 :: t
        intro hm
        simp at hm
        have := ht 64 hm; simp at this }
  rw [parseURI_assemble _ ok' sep']
  have hport : (withPortText c t).port = some t := by
    show (if t.isEmpty then none else some t) = some t
    cases t with
    | nil => exact absurd rfl hne
    | cons _ _ => rfl
  rw [hport]
  unfold portOfText
  by_cases h1 : t.all isDigit = true
  · have h2 : ¬ parseDec t ≤ 65535 := fun h => hbad ⟨h1, h⟩
    simp [h1, h2]
  · simp [h1]


theorem parseDec_nonneg_toNat (p : Int) (h : 0 ≤ p) : parseDec (fmtD p) = p.toNat := by
  unfold fmtD
  rw [if_neg (by omega), parseDec_decDigits]

/-- a connection whose port is negative or above 65535 reports a URI that the parser rejects -/
theorem bad_port_built (c : Conn) (wf : WfBase c) (p : Int) (hc : c.port = some p) (hp : p < 0 ∨ 65535 < p) :
    ∃ u, genericUri c = .ok u ∧ parseURI u = .valueError := by
  refine ⟨_, genericUri_eq c wf, ?_⟩
  rw [parseURI_assemble _ (partsOf_ok c wf) (partsOf_sep c wf)]
  have ht : truthyI c.port = some p := by
    simp only [hc, truthyI]; rw [if_neg (by omega)]
  have hne : (fmtD p).isEmpty = false := by
    unfold fmtD
    split
    · rfl
    · cases h : decDigits p.toNat with
      | nil => exact absurd h (decDigits_ne_nil _)
      | cons _ _ => rfl
  have hport : (partsOf c).port = some (fmtD p) := by
    simp [Parts.port, partsOf, ht, hne]
  rw [hport]
  unfold portOfText
  rcases hp with hneg | hbig
  · have : (fmtD p).all isDigit = false := by
      unfold fmtD
      rw [if_pos hneg]
      simp [isDigit]
    simp [this]
  · by_cases h1 : (fmtD p).all isDigit = true
    · have : ¬ parseDec (fmtD p) ≤ 65535 := by rw [parseDec_nonneg_toNat p (by omega)]; omega
      simp [h1, this]
    · simp [h1]

/-! ## URIs with a query: extra parameters -/

/-- may occur in a query without starting a fragment / being removed by `urlsplit` -/
def okQuery (c : Nat) : Bool := !(c == 35 || c == 9 || c == 10 || c == 13)

/-- `?query` suffix -/
def querySuffix : Option Str → Str
  | none => []
  | some q => 63 :: q

theorem urlparse_assembleQ_some (p : Parts) (ok : PartsOk p) (qx : Str) (hq : qx.all okQuery = true) :
    urlparse (assemble p ++ 63 :: qx) = .ok ⟨p.scheme.map lowerAscii, p.netloc, 47 :: p.tail, qx⟩ := by
  have hn' := netloc_chars p ok
  have ht' : ∀ c ∈ p.tail, okTail c = true := List.all_eq_true.mp ok.tail
  have hs' : ∀ c ∈ 63 :: qx, c ≠ 35 ∧ c ≠ 9 ∧ c ≠ 13 ∧ c ≠ 10 := by
    intro c hc
    simp only [List.mem_cons] at hc
    rcases hc with rfl | hc
    · decide
    · have := List.all_eq_true.mp hq c hc
      simp [okQuery] at this; omega
  obtain ⟨hO, hC, hB⟩ := netloc_br p ok
  have hs := ok.scheme
  match hsc : p.scheme, hs with
  | x :: xs, hs =>
    simp only [validScheme, Bool.and_eq_true] at hs
    obtain ⟨hx, hall⟩ := hs
    have hall' : ∀ c ∈ x :: xs, isSchemeChar c = true := List.all_eq_true.mp hall
    have hx32 : 32 < x := by
      simp only [isAsciiAlpha, Bool.or_eq_true, Bool.and_eq_true, decide_eq_true_eq] at hx; omega
    have hx128 : x < 128 := (schemeChar_facts x (hall' x (by simp))).2.2.2.2
    have h58 : 58 ∉ x :: xs := fun hm => (schemeChar_facts 58 (hall' 58 hm)).1 rfl
    have hu : assemble p ++ (63 :: qx)
        = (x :: xs) ++ 58 :: ([47, 47] ++ p.netloc ++ 47 :: (p.tail ++ (63 :: qx))) := by
      simp [assemble, hsc]
    have hstrip : lstripC0 (assemble p ++ (63 :: qx)) = assemble p ++ (63 :: qx) := by
      rw [hu]; exact lstripC0_id x _ hx32
    have htrn : removeTRN (assemble p ++ (63 :: qx)) = assemble p ++ (63 :: qx) := by
      apply removeTRN_id
      intro c hc
      rw [hu] at hc
      simp only [List.mem_append, List.mem_cons, List.not_mem_nil, or_false] at hc
      rcases hc with hc | rfl | ((rfl | rfl) | hc) | rfl | hc | hc
      · have := schemeChar_facts c (hall' c (by simpa using hc)); omega
      · decide
      · decide
      · decide
      · rcases hn' c hc with h | rfl | rfl
        · have := okNet_facts c h; omega
        · decide
        · decide
      · decide
      · have := ht' c hc; simp [okTail] at this; omega
      · have := hs' c (List.mem_cons.mpr hc); omega
    unfold urlparse
    simp only [hstrip, htrn]
    have hsplit : splitScheme (assemble p ++ (63 :: qx))
        = ((x :: xs).map lowerAscii, [47, 47] ++ p.netloc ++ 47 :: (p.tail ++ (63 :: qx))) := by
      unfold splitScheme
      rw [hu, breakOn_append 58 _ _ h58]
      simp [hx, hx128, hall]
    rw [hsplit]
    have hbp : breakP isNetlocEnd (p.netloc ++ 47 :: (p.tail ++ (63 :: qx)))
        = (p.netloc, 47 :: (p.tail ++ (63 :: qx))) := by
      apply breakP_append
      · intro c hc
        rcases hn' c hc with h | rfl | rfl
        · have := okNet_facts c h; simp [isNetlocEnd]; omega
        · decide
        · decide
      · decide
    have h35 : breakOn 35 (47 :: (p.tail ++ (63 :: qx))) = none := by
      apply breakOn_none
      intro hm
      simp only [List.mem_cons, List.mem_append] at hm
      rcases hm with hm | hm | hm
      · simp at hm
      · have := ht' 35 hm; simp [okTail] at this
      · exact (hs' 35 (List.mem_cons.mpr hm)).1 rfl
    have h63t : 63 ∉ 47 :: p.tail := by
      intro hm
      simp at hm
      have := ht' 63 hm; simp [okTail] at this
    have h59 : 59 ∉ p.tail := by
      intro hm
      have := ht' 59 hm; simp [okTail] at this
    have hdrop : ([47, 47] ++ p.netloc ++ 47 :: (p.tail ++ (63 :: qx))).drop 2
        = p.netloc ++ 47 :: (p.tail ++ (63 :: qx)) := by simp
    have hsw : startsWith [47, 47] ([47, 47] ++ p.netloc ++ 47 :: (p.tail ++ (63 :: qx))) = true := by
      simp [startsWith]
    have h63 : breakOn 63 (47 :: (p.tail ++ (63 :: qx))) = some (47 :: p.tail, qx) := by
      have : 47 :: (p.tail ++ (63 :: qx)) = (47 :: p.tail) ++ 63 :: qx := by simp
      rw [this, breakOn_append 63 _ _ h63t]
    simp only [hsw, if_true, hdrop, hbp, hO, hC, bne_self_eq_false, Bool.false_eq_true, if_false, h35, h63]
    cases hbr : p.br with
    | false => simp [h59]
    | true => simp [hB hbr, ok.brok hbr, h59]

theorem urlparse_assembleQ (p : Parts) (ok : PartsOk p) (q : Option Str)
    (hq : ∀ x, q = some x → x.all okQuery = true) :
    urlparse (assemble p ++ querySuffix q) = .ok ⟨p.scheme.map lowerAscii, p.netloc, 47 :: p.tail, q.getD []⟩ := by
  cases q with
  | none => simpa [querySuffix] using urlparse_assemble p ok
  | some x => simpa [querySuffix] using urlparse_assembleQ_some p ok x (hq x rfl)

theorem parseURI_assembleQ (p : Parts) (ok : PartsOk p) (sep : PartsSep p) (q : Option Str)
    (hq : ∀ x, q = some x → x.all okQuery = true) :
    parseURI (assemble p ++ querySuffix q) =
      match portOfText p.port with
      | none => .valueError
      | some port =>
        .ok { user := (nonEmpty? p.user).map unquote
              password := (nonEmpty? p.password).map unquote
              host := hostnameOf p.host
              port := match port with
                | some 0 => none
                | x => x
              path := unquote (47 :: p.tail)
              args := dictOf (parseQsl (q.getD [])) } := by
  unfold parseURI
  rw [urlparse_assembleQ p ok q hq]
  simp only [userinfo_netloc p sep, portOf, hostname, hostinfo_netloc p ok sep]
  generalize portOfText p.port = r
  cases r <;> rfl



theorem splitOn_ne_nil (sep : Nat) (l : Str) : splitOn sep l ≠ [] := by
  induction l with
  | nil => simp [splitOn]
  | cons c cs ih =>
    rw [splitOn]
    split
    · simp
    · split <;> simp

theorem splitOn_no (sep : Nat) (a : Str) (h : sep ∉ a) : splitOn sep a = [a] := by
  induction a with
  | nil => simp [splitOn]
  | cons c cs ih =>
    have hc : c ≠ sep := fun e => h (by simp [e])
    rw [splitOn, ih (fun e => h (by simp [e]))]
    simp [hc]

theorem splitOn_append (sep : Nat) (a rest : Str) (h : sep ∉ a) :
    splitOn sep (a ++ sep :: rest) = a :: splitOn sep rest := by
  induction a with
  | nil =>
    simp only [List.nil_append]
    rw [splitOn]
    match hs : splitOn sep rest with
    | [] => exact absurd hs (splitOn_ne_nil sep rest)
    | x :: t => simp
  | cons c cs ih =>
    have hc : c ≠ sep := fun e => h (by simp [e])
    simp only [List.cons_append]
    rw [splitOn, ih (fun e => h (by simp [e]))]
    simp [hc]

/-- one `name=value` piece of `parse_qsl` -/
def qslItem (nv : Str) : Option (Str × Str) :=
  match breakOn 61 nv with
  | some (n, v) => if v.isEmpty then none else some (unquote (plusToSpace n), unquote (plusToSpace v))
  | none => none

theorem parseQsl_eq (q : Str) : parseQsl q = if q.isEmpty then [] else (splitOn 38 q).filterMap qslItem := by
  unfold parseQsl qslItem; rfl

def decPair (kv : Str × Str) : Str × Str := (unquote (plusToSpace kv.1), unquote (plusToSpace kv.2))

/-- an encoded pair that `parse_qsl` splits where `urlencode` joined -/
def pairOk (kv : Str × Str) : Prop := 38 ∉ kv.1 ∧ 61 ∉ kv.1 ∧ 38 ∉ kv.2 ∧ kv.2 ≠ []

theorem qslItem_pair (k v : Str) (h : pairOk (k, v)) : qslItem (k ++ 61 :: v) = some (decPair (k, v)) := by
  obtain ⟨_, h61, _, hne⟩ := h
  unfold qslItem
  rw [breakOn_append 61 k v h61]
  cases v with
  | nil => exact absurd rfl hne
  | cons _ _ => simp [decPair]

theorem pair_no_amp (k v : Str) (h : pairOk (k, v)) : 38 ∉ k ++ 61 :: v := by
  obtain ⟨h1, _, h2, _⟩ := h
  simp [h1, h2]

theorem items_join (qps : List (Str × Str)) (hne : qps ≠ []) (hok : ∀ kv ∈ qps, pairOk kv) :
    (splitOn 38 (joinParams qps)).filterMap qslItem = qps.map decPair := by
  induction qps with
  | nil => exact absurd rfl hne
  | cons kv rest ih =>
    obtain ⟨k, v⟩ := kv
    have hkv := hok (k, v) (by simp)
    cases rest with
    | nil =>
      simp only [joinParams]
      rw [splitOn_no 38 _ (pair_no_amp k v hkv)]
      simp [qslItem_pair k v hkv]
    | cons kv2 rest2 =>
      have e : joinParams ((k, v) :: kv2 :: rest2) = (k ++ 61 :: v) ++ 38 :: joinParams (kv2 :: rest2) := by
        simp [joinParams]
      rw [e, splitOn_append 38 _ _ (pair_no_amp k v hkv)]
      simp only [List.filterMap_cons, qslItem_pair k v hkv, List.map_cons]
      rw [ih (by simp) (fun x hx => hok x (by simp [hx]))]
      simp

theorem joinParams_ne (qps : List (Str × Str)) (hne : qps ≠ []) : (joinParams qps).isEmpty = false := by
  match qps, hne with
  | [(k, v)], _ => simp [joinParams]
  | (k, v) :: _ :: _, _ => simp [joinParams]

theorem parseQsl_join (qps : List (Str × Str)) (hne : qps ≠ []) (hok : ∀ kv ∈ qps, pairOk kv) :
    parseQsl (joinParams qps) = qps.map decPair := by
  rw [parseQsl_eq, joinParams_ne qps hne]
  simp only [Bool.false_eq_true, if_false]
  exact items_join qps hne hok

/-! decoding a `quote_plus`ed string -/

theorem quotePlus_chars (s : Str) (hv : validStr s = true) :
    ∀ c ∈ quoteBytes [32] (utf8 s), quoteChar [32] c = true := mem_quoteBytes [32] _ (utf8_lt s hv)

theorem plusToSpace_quotePlusB (s : Str) (hv : validStr s = true) :
    plusToSpace (quotePlusB s) = quoteBytes [32] (utf8 s) := by
  unfold plusToSpace quotePlusB
  rw [List.map_map]
  have h43 : 43 ∉ quoteBytes [32] (utf8 s) := quote_avoids [32] s hv 43 (by decide)
  conv => rhs; rw [← List.map_id (quoteBytes [32] (utf8 s))]
  apply List.map_congr_left
  intro c hc
  have hne : c ≠ 43 := fun e => h43 (e ▸ hc)
  by_cases h : c = 32
  · simp [h]
  · simp [h, hne]

theorem decode_quotePlusB (s : Str) (hv : validStr s = true) : unquote (plusToSpace (quotePlusB s)) = s := by
  rw [plusToSpace_quotePlusB s hv]
  exact unquote_quote [32] s _ (by decide) (quote_ok _ _ hv)

theorem quotePlusB_avoids (s : Str) (hv : validStr s = true) (d : Nat) (hd : quoteChar [32] d = false) (h43 : d ≠ 43) :
    d ∉ quotePlusB s := by
  intro hm
  simp only [quotePlusB, List.mem_map] at hm
  obtain ⟨c, hc, he⟩ := hm
  by_cases h : c = 32
  · simp [h] at he; exact h43 he.symm
  · simp [h] at he; subst he
    have := quotePlus_chars s hv c hc
    simp [hd] at this

theorem quotePlusB_ne (a : Nat) (l : Str) : quotePlusB (a :: l) ≠ [] := by
  unfold quotePlusB
  intro h
  have := quoteBytes_utf8_ne [32] a l
  simp at h
  exact this h

theorem quotePlusB_okQuery (s : Str) (hv : validStr s = true) : (quotePlusB s).all okQuery = true := by
  rw [List.all_eq_true]
  intro c hc
  cases h : okQuery c with
  | true => rfl
  | false =>
    have hb : c ∈ [35, 9, 10, 13] := by simp [okQuery] at h; simp; omega
    have hq : quoteChar [32] c = false := by
      simp only [List.mem_cons, List.not_mem_nil, or_false] at hb
      rcases hb with rfl | rfl | rfl | rfl <;> decide
    have hne : c ≠ 43 := by
      simp only [List.mem_cons, List.not_mem_nil, or_false] at hb
      rcases hb with rfl | rfl | rfl | rfl <;> decide
    exact absurd hc (quotePlusB_avoids s hv c hq hne)



theorem dictSet_new (d : List (Str × Str)) (k v : Str) (h : d.any (·.1 == k) = false) :
    dictSet d k v = d ++ [(k, v)] := by
  simp [dictSet, h]

theorem foldl_dictSet (l d : List (Str × Str))
    (hd : ∀ kv ∈ l, d.any (·.1 == kv.1) = false) (hp : l.Pairwise (fun a b => a.1 ≠ b.1)) :
    l.foldl (fun d kv => dictSet d kv.1 kv.2) d = d ++ l := by
  induction l generalizing d with
  | nil => simp
  | cons kv rest ih =>
    simp only [List.foldl_cons]
    rw [dictSet_new d kv.1 kv.2 (hd kv (by simp))]
    rw [List.pairwise_cons] at hp
    rw [ih (d ++ [(kv.1, kv.2)]) ?_ hp.2]
    · simp
    · intro x hx
      have h1 := hd x (by simp [hx])
      have h2 := hp.1 x hx
      simp only [List.any_append, h1, Bool.false_or, List.any_cons, List.any_nil, Bool.or_false, beq_eq_false_iff_ne]
      exact h2

theorem dictOf_distinct (l : List (Str × Str)) (hp : l.Pairwise (fun a b => a.1 ≠ b.1)) : dictOf l = l := by
  unfold dictOf
  rw [foldl_dictSet l [] (by simp) hp]
  simp

/-- extra parameters as `connectionForURI(uri, **args)` accepts them -/
structure ParamsOk (ps : List (Str × Str)) : Prop where
  valid : ∀ kv ∈ ps, validStr kv.1 = true ∧ validStr kv.2 = true
  nonempty : ∀ kv ∈ ps, kv.2 ≠ []
  distinct : ps.Pairwise (fun a b => a.1 ≠ b.1)

def encPair (kv : Str × Str) : Str × Str := (quotePlusB kv.1, quotePlusB kv.2)

theorem urlencode_ok (ps : List (Str × Str)) (ok : ParamsOk ps) :
    urlencode ps = some (joinParams (ps.map encPair)) := by
  unfold urlencode
  have : ps.all (fun kv => validStr kv.1 && validStr kv.2) = true := by
    rw [List.all_eq_true]; intro kv hkv
    have := ok.valid kv hkv
    simp [this.1, this.2]
  simp only [this, if_true]
  rfl

theorem encPair_ok (kv : Str × Str) (hv : validStr kv.1 = true ∧ validStr kv.2 = true) (hne : kv.2 ≠ []) :
    pairOk (encPair kv) := by
  refine ⟨?_, ?_, ?_, ?_⟩
  · exact quotePlusB_avoids kv.1 hv.1 38 (by decide) (by decide)
  · exact quotePlusB_avoids kv.1 hv.1 61 (by decide) (by decide)
  · exact quotePlusB_avoids kv.2 hv.2 38 (by decide) (by decide)
  · show quotePlusB kv.2 ≠ []
    match h : kv.2, hne with
    | a :: l, _ => exact quotePlusB_ne a l

theorem decPair_encPair (kv : Str × Str) (hv : validStr kv.1 = true ∧ validStr kv.2 = true) :
    decPair (encPair kv) = kv := by
  simp [decPair, encPair, decode_quotePlusB _ hv.1, decode_quotePlusB _ hv.2]

theorem joinParams_chars (qps : List (Str × Str)) :
    ∀ c ∈ joinParams qps, c = 61 ∨ c = 38 ∨ ∃ kv ∈ qps, c ∈ kv.1 ∨ c ∈ kv.2 := by
  induction qps with
  | nil => simp [joinParams]
  | cons kv rest ih =>
    obtain ⟨k, v⟩ := kv
    intro c hc
    cases rest with
    | nil =>
      simp only [joinParams, List.mem_append, List.mem_cons] at hc
      rcases hc with hc | rfl | hc
      · exact Or.inr (Or.inr ⟨(k, v), by simp, Or.inl hc⟩)
      · exact Or.inl rfl
      · exact Or.inr (Or.inr ⟨(k, v), by simp, Or.inr hc⟩)
    | cons kv2 rest2 =>
      have e : joinParams ((k, v) :: kv2 :: rest2) = k ++ 61 :: v ++ 38 :: joinParams (kv2 :: rest2) := by
        simp [joinParams]
      rw [e] at hc
      simp only [List.mem_append, List.mem_cons] at hc
      rcases hc with (hc | rfl | hc) | rfl | hc
      · exact Or.inr (Or.inr ⟨(k, v), by simp, Or.inl hc⟩)
      · exact Or.inl rfl
      · exact Or.inr (Or.inr ⟨(k, v), by simp, Or.inr hc⟩)
      · exact Or.inr (Or.inl rfl)
      · rcases ih c hc with h | h | ⟨x, hx, h⟩
        · exact Or.inl h
        · exact Or.inr (Or.inl h)
        · exact Or.inr (Or.inr ⟨x, by simp [hx], h⟩)

/-- `parse_qsl(urlencode(args))` gives the arguments back, and the encoded text is a legal query -/
theorem params_back (ps : List (Str × Str)) (ok : ParamsOk ps) (hne : ps ≠ []) :
    ∃ q, urlencode ps = some q ∧ q.all okQuery = true ∧ dictOf (parseQsl q) = ps := by
  refine ⟨_, urlencode_ok ps ok, ?_, ?_⟩
  · rw [List.all_eq_true]
    intro c hc
    rcases joinParams_chars _ c hc with rfl | rfl | ⟨x, hx, h⟩
    · decide
    · decide
    · simp only [List.mem_map] at hx
      obtain ⟨kv, hkv, rfl⟩ := hx
      have hv := ok.valid kv hkv
      rcases h with h | h
      · exact List.all_eq_true.mp (quotePlusB_okQuery kv.1 hv.1) c h
      · exact List.all_eq_true.mp (quotePlusB_okQuery kv.2 hv.2) c h
  · rw [parseQsl_join _ (by simpa using hne)]
    · rw [List.map_map]
      have : ps.map (decPair ∘ encPair) = ps := by
        conv => rhs; rw [← List.map_id ps]
        apply List.map_congr_left
        intro kv hkv
        exact decPair_encPair kv (ok.valid kv hkv)
      rw [this]
      exact dictOf_distinct ps ok.distinct
    · intro x hx
      simp only [List.mem_map] at hx
      obtain ⟨kv, hkv, rfl⟩ := hx
      exact encPair_ok kv (ok.valid kv hkv) (ok.nonempty kv hkv)

theorem assemble_no_q (p : Parts) (ok : PartsOk p) : 63 ∉ assemble p := by
  have hn := netloc_chars p ok
  have ht := List.all_eq_true.mp ok.tail
  have hs := ok.scheme
  intro hm
  simp only [assemble, List.mem_append] at hm
  rcases hm with (((hm | hm) | hm) | hm) | hm
  · match hsc : p.scheme, hs with
    | x :: xs, hs =>
      simp only [validScheme, Bool.and_eq_true] at hs
      have := List.all_eq_true.mp hs.2 63 (hsc ▸ hm)
      simp [isSchemeChar, isAsciiAlpha, isDigit] at this
  · simp at hm
  · rcases hn 63 hm with h | h | h
    · simp [okNet] at h
    · omega
    · omega
  · simp at hm
  · have := ht 63 hm; simp [okTail] at this

/-- a URI assembled from delimiter-free pieces, extended the way `connectionForURI(uri, **args)` does
    it, parses to the same components plus exactly the parameters -/
theorem with_params (p : Parts) (ok : PartsOk p) (sep : PartsSep p) (P : Parsed)
    (hbase : parseURI (assemble p) = .ok P) (ps : List (Str × Str)) (pok : ParamsOk ps) :
    ∃ u', withParams (assemble p) ps = some u' ∧ parseURI u' = .ok { P with args := P.args ++ ps } := by
  have hargs : P.args = [] := by
    rw [parseURI_assemble p ok sep] at hbase
    revert hbase
    generalize portOfText p.port = r
    cases r with
    | none => intro h; cases h
    | some port => intro h; cases h; rfl
  cases ps with
  | nil =>
    refine ⟨assemble p, by simp [withParams], ?_⟩
    rw [hbase]
    cases P
    simp at hargs
    simp [hargs]
  | cons kv rest =>
    obtain ⟨q, hq, hokq, hback⟩ := params_back (kv :: rest) pok (by simp)
    have hn := assemble_no_q p ok
    refine ⟨assemble p ++ [63] ++ q, by simp [withParams, hq, hn], ?_⟩
    have e : assemble p ++ [63] ++ q = assemble p ++ querySuffix (some q) := by simp [querySuffix]
    rw [e, parseURI_assembleQ p ok sep (some q) (by intro x hx; cases hx; exact hokq)]
    rw [parseURI_assemble p ok sep] at hbase
    revert hbase
    generalize portOfText p.port = r
    cases r with
    | none => intro h; cases h
    | some port =>
      intro h
      cases h
      simp [hback]

/-- the generic builder's URI extended with extra parameters parses back to components + parameters -/
theorem parse_build_params (c : Conn) (wf : WfConn c) (ps : List (Str × Str)) (ok : ParamsOk ps) :
    ∃ u u', genericUri c = .ok u ∧ withParams u ps = some u' ∧
      parseURI u' = .ok ⟨truthyS c.user, truthyS c.password, truthyS c.host,
        (truthyI c.port).map Int.toNat, 47 :: dbOf c, ps⟩ := by
  obtain ⟨u, hu, hp⟩ := parse_build c wf
  have wb := wf.toWfBase
  have hu' : u = assemble (partsOf c) := by
    have := genericUri_eq c wb
    rw [hu] at this
    cases this; rfl
  subst hu'
  obtain ⟨u', h1, h2⟩ := with_params _ (partsOf_ok c wb) (partsOf_sep c wb) _ hp ps ok
  exact ⟨_, u', hu, h1, by simpa using h2⟩

/-- the same for the sqlite builder and an absolute file name -/
theorem sqlite_parse_build_params (t : Str) (hv : validStr (47 :: t) = true) (ps : List (Str × Str))
    (ok : ParamsOk ps) :
    ∃ u u', sqliteUri (47 :: t) = .ok u ∧ withParams u ps = some u' ∧
      parseURI u' = .ok ⟨none, none, none, none, 47 :: t, ps⟩ := by
  have hv' : validStr t = true := by
    rw [validStr_cons] at hv; simp at hv; exact hv.2
  obtain ⟨u, hu, hp⟩ := sqlite_abs_parse t hv
  have hu' := sqlite_abs_uri t hv
  rw [hu] at hu'
  cases hu'
  obtain ⟨u', h1, h2⟩ := with_params _ (sqlite_parts_ok t hv') (sqlite_parts_sep t) _ hp ps ok
  exact ⟨_, u', hu, h1, by simpa using h2⟩


end SqlObjVerif.Uri
