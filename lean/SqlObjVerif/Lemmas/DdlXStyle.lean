import SqlObjVerif.Lemmas.DdlXBase
import SqlObjVerif.Lemmas.DdlStyle
/-!
# C14 translation — styles.py: `mixedToUnderSub`, `mixedToUnder`, `underToMixed`, `capword`, `lowerword` and the three
style classes, as translated, = `Model/DdlStyle.lean`
-/
namespace SqlObjVerif.DdlX
open SqlObjVerif.Ddl
open SqlObjVerif.PyDdl hiding Str isUpperC
open SqlObjVerif.PyDdl.Extracted

/-! ### Python slices / indices on strings -/

theorem slice_to_neg (s : Str) (k : Nat) (hk : 0 < k) :
    pySlice (.str s) none (some (.int (-(k : Int)))) = .ok (.str (dropEnd k s)) := by
  have h : clampIdx s.length (-(k : Int)) = s.length - k := by
    unfold clampIdx
    have : ¬ (0 : Int) ≤ -(k : Int) := by omega
    rw [if_neg this]; simp; omega
  simp [pySlice, h, dropEnd]

theorem slice_from_one (s : Str) : pySlice (.str s) (some (.int 1)) none = .ok (.str (s.drop 1)) := by
  cases s with
  | nil => simp [pySlice, clampIdx]
  | cons c cs => simp [pySlice, clampIdx]

theorem index_neg1 (s : Str) (h : s ≠ []) : pyIndex (.str s) (.int (-1)) = .ok (.str (lastStr s)) := by
  have hl : 0 < s.length := List.length_pos_iff.2 h
  have hn : normIdx s.length (-1) = some (s.length - 1) := by
    simp [normIdx]; omega
  rw [pyIndex_str, hn]
  simp only [Option.bind_some, lastStr]
  have hlt : s.length - 1 < s.length := by omega
  rw [List.getElem?_eq_getElem hlt, idxRes_some, List.drop_eq_getElem_cons hlt]
  have : s.length - 1 + 1 = s.length := by omega
  simp [this]

theorem index_zero (c : Nat) (s : Str) : pyIndex (.str (c :: s)) (.int 0) = .ok (.str [c]) := by
  simp [pyIndex_str, normIdx]

theorem index_one (c d : Nat) (s : Str) : pyIndex (.str (c :: d :: s)) (.int 1) = .ok (.str [d]) := by
  simp [pyIndex_str, normIdx]

/-! ### `mixedToUnderSub` -/

theorem mixedToUnderSub_call (n : Nat) (run : Str) :
    callN prog ddlI (n + 1) (.func F_mixedToUnderSub) [.rematch run] = .ok (.str (mixedToUnderSub run)) := by
  have hs : pySlice (.str (run.map lowerC)) none (some (.int (-1))) = .ok (.str (dropEnd 1 (run.map lowerC))) :=
    slice_to_neg (run.map lowerC) 1 (by decide)
  by_cases hl2 : 1 < run.length
  · have hne : run.map lowerC ≠ [] := by intro h; have := congrArg List.length h; simp only [List.length_map, List.length_nil] at this; omega
    have hi := index_neg1 _ hne
    have hl' : (1 : Int) < ↑(List.length run) := by omega
    pyxc [strMethod, mixedToUnderSub, hl2]
  · have hl' : ¬ (1 : Int) < ↑(List.length run) := by omega
    pyxc [strMethod, mixedToUnderSub, hl2]

/-! ### `re.sub('[A-Z]+', mixedToUnderSub, s)` -/

theorem flushRunR_ok (rrun : Str) :
    flushRunR (fun r => R.ok (mixedToUnderSub r)) rrun = .ok (flushRun rrun) := by
  unfold flushRunR flushRun; split <;> rfl

theorem subUpperR_ok (s : Str) : ∀ rrun, subUpperR (fun r => R.ok (mixedToUnderSub r)) rrun s = .ok (subUpper rrun s) := by
  induction s with
  | nil => intro rrun; simp [subUpperR, subUpper, flushRunR_ok]
  | cons c cs ih =>
    intro rrun
    have e : PyDdl.isUpperC c = Ddl.isUpperC c := rfl
    by_cases hc : Ddl.isUpperC c = true
    · simp [subUpperR, subUpper, e, hc, ih]
    · simp [subUpperR, subUpper, e, hc, ih, flushRunR_ok]

theorem subFn_sub (n : Nat) :
    subFn (fun m => callN prog ddlI (n + 1) (.func F_mixedToUnderSub) [m]) = fun r => R.ok (mixedToUnderSub r) := by
  funext r; simp [subFn, mixedToUnderSub_call]

theorem stripUnder_eq (t : Str) : (if [95].isPrefixOf t = true then t.drop 1 else t) = stripUnder t := by
  cases t with
  | nil => rfl
  | cons c cs =>
    by_cases h : c = 95
    · subst h; rfl
    · have h2 : ¬ 95 = c := fun e => h e.symm
      simp [stripUnder, h, h2]

/-- `mixedToUnder` on a name that does not end in `ID` -/
theorem mixedToUnder_core_call (n : Nat) (s : Str) (h : endsWith s [73, 68] = false) :
    callN prog ddlI (n + 3) (.func F_mixedToUnder) [.str s] = .ok (.str (mixedToUnderCore s)) := by
  have h' : [73, 68].isSuffixOf s = false := h
  have hsub : subFn (fun m => callN prog ddlI (n + 2) (.func F_mixedToUnderSub) [m]) =
      fun r => R.ok (mixedToUnderSub r) := subFn_sub (n + 1)
  have hp := slice_from_one (subUpper [] s)
  rw [callX_succ _ _ _ _ res_func_mixedToUnder]
  by_cases hq : [95].isPrefixOf (subUpper [] s) = true
  · have e := stripUnder_eq (subUpper [] s); rw [if_pos hq] at e
    rw [mixedToUnderCore, ← e]; clear e
    pyxwith [strMethod, reSub, subUpperR_ok]
  · have e := stripUnder_eq (subUpper [] s); rw [if_neg hq] at e
    rw [mixedToUnderCore, ← e]; clear e
    pyxwith [strMethod, reSub, subUpperR_ok]

theorem not_endsWith_ID_id (p : Str) : endsWith (p ++ [95, 105, 100]) [73, 68] = false := by
  cases h : endsWith (p ++ [95, 105, 100]) [73, 68] with
  | false => rfl
  | true =>
    obtain ⟨q, hq⟩ := (endsWith_iff _ _).1 h
    have := congrArg List.reverse hq
    simp at this

/-- **`styles.mixedToUnder` translated = `mixedToUnder`** (the recursive call included) -/
theorem mixedToUnder_call (n : Nat) (s : Str) :
    callN prog ddlI (n + 4) (.func F_mixedToUnder) [.str s] = .ok (.str (mixedToUnder s)) := by
  by_cases h : endsWith s [73, 68] = true
  · have h' : [73, 68].isSuffixOf s = true := h
    have hs : pySlice (.str s) none (some (.int (-2))) = .ok (.str (dropEnd 2 s)) := slice_to_neg s 2 (by decide)
    have hrec := mixedToUnder_core_call n (dropEnd 2 s ++ [95, 105, 100]) (not_endsWith_ID_id _)
    rw [callX_succ _ _ _ _ res_func_mixedToUnder]
    pyxwith [strMethod, mixedToUnder, h]
  · have h0 : endsWith s [73, 68] = false := by simpa using h
    rw [mixedToUnder, h0, mixedToUnder_core_call (n + 1) s h0]; rfl

/-! ### `underToMixed` -/

theorem subUnderR_ok (f : Str → R Str) (hf : ∀ c d, f [c, d] = .ok [upperC d]) :
    ∀ (n : Nat) (s : Str), s.length ≤ n → subUnderR f s = .ok (subUnder s) := by
  intro n
  induction n with
  | zero => intro s hs; cases s <;> simp_all [subUnderR, subUnder]
  | succ n ih =>
    intro s hs
    match s with
    | [] => rfl
    | [c] => rfl
    | c :: d :: ds =>
      have h1 := ih ds (by simp at hs; omega)
      have h2 := ih (d :: ds) (by simp at hs ⊢; omega)
      by_cases hc : (c = 95 && d != 10) = true
      · rw [subUnderR, subUnder, if_pos hc, if_pos hc, hf, h1]; rfl
      · rw [subUnderR, subUnder, if_neg hc, if_neg hc, h2]; rfl

theorem not_endsWith_id_ID (p : Str) : endsWith (p ++ [73, 68]) [95, 105, 100] = false := by
  cases h : endsWith (p ++ [73, 68]) [95, 105, 100] with
  | false => rfl
  | true =>
    obtain ⟨q, hq⟩ := (endsWith_iff _ _).1 h
    have := congrArg List.reverse hq
    simp at this

theorem underToMixed_core_call (n : Nat) (s : Str) (h : endsWith s [95, 105, 100] = false) :
    callN prog ddlI (n + 1) (.func F_underToMixed) [.str s] = .ok (.str (subUnder s)) := by
  have h' : [95, 105, 100].isSuffixOf s = false := h
  pyxc [strMethod, reSub]
  rw [subUnderR_ok _ _ s.length s (Nat.le_refl _)]
  · rfl
  · intro c d; simp [subFn, normIdx, strMethod]

/-- **`styles.underToMixed` translated = `underToMixed`** -/
theorem underToMixed_call (n : Nat) (s : Str) :
    callN prog ddlI (n + 2) (.func F_underToMixed) [.str s] = .ok (.str (underToMixed s)) := by
  by_cases h : endsWith s [95, 105, 100] = true
  · have h' : [95, 105, 100].isSuffixOf s = true := h
    have hs : pySlice (.str s) none (some (.int (-3))) = .ok (.str (dropEnd 3 s)) := slice_to_neg s 3 (by decide)
    have hrec := underToMixed_core_call n (dropEnd 3 s ++ [73, 68]) (not_endsWith_id_ID _)
    rw [callX_succ _ _ _ _ res_func_underToMixed]
    pyxwith [strMethod, underToMixed, h]
  · have h0 : endsWith s [95, 105, 100] = false := by simpa using h
    rw [underToMixed, h0, underToMixed_core_call (n + 1) s h0]; rfl

/-! ### `capword`, `lowerword` (on a non-empty word; Python raises IndexError on `''`) -/

theorem capword_call (n : Nat) (c : Nat) (s : Str) :
    callN prog ddlI (n + 1) (.func F_capword) [.str (c :: s)] = .ok (.str (capword (c :: s))) := by
  have h1 := index_zero c s
  have h2 := slice_from_one (c :: s)
  pyxc [strMethod, capword]

theorem lowerword_call (n : Nat) (c : Nat) (s : Str) :
    callN prog ddlI (n + 1) (.func F_lowerword) [.str (c :: s)] = .ok (.str (lowerword (c :: s))) := by
  have h1 := index_zero c s
  have h2 := slice_from_one (c :: s)
  pyxc [strMethod, lowerword]

theorem capword_call_empty (n : Nat) : callN prog ddlI (n + 1) (.func F_capword) [.str []] = .exc .indexError := by
  pyxc [strMethod, normIdx]

/-! ### the style classes -/

def styleCls : Style → Nat
  | .under => C_MixedCaseUnderscoreStyle
  | .mixed => C_MixedCaseStyle
  | .plain => C_Style

/-- a style object -/
def styleV (st : Style) (longID : Bool) : Val := .obj (styleCls st) [("longID", .bool longID)]

macro "styeval" : tactic =>
  `(tactic| (rw [callX_succ _ _ _ _ (by rfl)]
             pyxwith [styleV, styleCls, strMethod, mixedToUnder_call, underToMixed_call, capword_call, lowerword_call,
               index_zero, normIdx, slice_from_one, Style.attrToCol, Style.colToAttr, Style.classToTable, Style.tableReference,
               Style.attrToIDAttr, Style.classToAttr]))

/-- `pythonAttrToDBColumn` of the three style classes -/
theorem style_attrToCol_call (n : Nat) (st : Style) (lid : Bool) (c : Nat) (s : Str) :
    callN prog ddlI (n + 5) (.meth (styleCls st) M_pythonAttrToDBColumn) [styleV st lid, .str (c :: s)] =
      .ok (.str (st.attrToCol (c :: s))) := by
  cases st <;> styeval

/-- `dbColumnToPythonAttr` -/
theorem style_colToAttr_call (n : Nat) (st : Style) (lid : Bool) (c : Nat) (s : Str) :
    callN prog ddlI (n + 3) (.meth (styleCls st) M_dbColumnToPythonAttr) [styleV st lid, .str (c :: s)] =
      .ok (.str (st.colToAttr (c :: s))) := by
  cases st <;> styeval

/-- `pythonClassToDBTable` -/
theorem style_classToTable_call (n : Nat) (st : Style) (lid : Bool) (c : Nat) (s : Str) :
    callN prog ddlI (n + 5) (.meth (styleCls st) M_pythonClassToDBTable) [styleV st lid, .str (c :: s)] =
      .ok (.str (st.classToTable (c :: s))) := by
  cases st <;> styeval

/-- `tableReference` -/
theorem style_tableReference_call (n : Nat) (st : Style) (lid : Bool) (t : Str) :
    callN prog ddlI (n + 1) (.meth (styleCls st) M_tableReference) [styleV st lid, .str t] =
      .ok (.str (st.tableReference t)) := by
  cases st <;> styeval

/-- `idForTable` (through `self.tableReference` when `longID`) -/
theorem style_idForTable_call (n : Nat) (st : Style) (lid : Bool) (t : Str) :
    callN prog ddlI (n + 2) (.meth (styleCls st) M_idForTable) [styleV st lid, .str t] =
      .ok (.str (st.idForTable lid t)) := by
  have h := style_tableReference_call n st lid t
  cases st <;> cases lid <;>
    (rw [callX_succ _ _ _ _ (by rfl)]
     simp only [styleV, styleCls] at h
     pyxwith [styleV, styleCls, Style.idForTable])

/-- `instanceAttrToIDAttr` / `pythonClassToAttr` (the same in all three classes) -/
theorem style_attrToIDAttr_call (n : Nat) (st : Style) (lid : Bool) (a : Str) :
    callN prog ddlI (n + 1) (.meth (styleCls st) M_instanceAttrToIDAttr) [styleV st lid, .str a] =
      .ok (.str (Style.attrToIDAttr a)) := by
  cases st <;> styeval

theorem style_classToAttr_call (n : Nat) (st : Style) (lid : Bool) (c : Nat) (s : Str) :
    callN prog ddlI (n + 2) (.meth (styleCls st) M_pythonClassToAttr) [styleV st lid, .str (c :: s)] =
      .ok (.str (Style.classToAttr (c :: s))) := by
  cases st <;> styeval

end SqlObjVerif.DdlX
