import SqlObjVerif.Lemmas.JoinsXAcc
/-!
Symbolic execution of the TRANSLATED join accessors (C13), part 5: the query-flavoured `SOSQLMultipleJoin.performJoin` and
the new-style `SOManyToMany.__get__`, `SOOneToMany.__get__`, `_ManyToManySelectWrapper.add / remove / create`.
-/
namespace SqlObjVerif.Joins
open SqlObjVerif.Graph
open SqlObjVerif.PyJoins
open SqlObjVerif.PyJoins.Extracted

section attrs
variable (P : Params) (db : DB)
@[simp] theorem ga_qns_id (k) : jGetAttr P db (.obj (.qns k)) "id" = .ok (.obj (.idfield k)) := by simp [jGetAttr]
@[simp] theorem ga_cmeta_table (k) : jGetAttr P db (.obj (.cmeta k)) "table" = .ok (.obj (.ctable k)) := by simp [jGetAttr]
@[simp] theorem ga_m2m_oc : jGetAttr P db (.obj .m2m) "otherClass" = .ok (.obj (.cls P.D.other)) := by simp [jGetAttr]
@[simp] theorem ga_m2m_it : jGetAttr P db (.obj .m2m) "intermediateTable" = .ok (.obj (.tbl P.D.table)) := by simp [jGetAttr]
@[simp] theorem ga_m2m_jc : jGetAttr P db (.obj .m2m) "joinColumn" = .ok (.obj (.lcol P.D.ownFirst)) := by simp [jGetAttr]
@[simp] theorem ga_m2m_otc : jGetAttr P db (.obj .m2m) "otherColumn" = .ok (.obj (.lcol (!P.D.ownFirst))) := by simp [jGetAttr]
@[simp] theorem ga_o2m_oc : jGetAttr P db (.obj .o2m) "otherClass" = .ok (.obj (.cls P.D.other)) := by simp [jGetAttr]
@[simp] theorem ga_o2m_jc : jGetAttr P db (.obj .o2m) "joinColumn" = .ok (.obj (.col P.D.fkcol)) := by simp [jGetAttr]
@[simp] theorem ga_wrap_fo (a b c : PVal) : jGetAttr P db (.app "M2MWrapper" (.cons a (.cons b (.cons c .nil)))) "forObject" = .ok a := by
  simp [jGetAttr]
@[simp] theorem ga_wrap_join (a b c : PVal) : jGetAttr P db (.app "M2MWrapper" (.cons a (.cons b (.cons c .nil)))) "join" = .ok b := by
  simp [jGetAttr]
@[simp] theorem jEqOver_idfield (k : Nat) (v : PVal) :
    jEqOver (.obj (.idfield k)) v = some (.app "==" (.cons (.obj (.idfield k)) (.cons v .nil))) := rfl
@[simp] theorem jEqOver_Field (a v : PVal) :
    jEqOver (.app "Field" a) v = some (.app "==" (.cons (.app "Field" a) (.cons v .nil))) := by simp [jEqOver]
@[simp] theorem jEqOver_inst (k j : Nat) (v : PVal) : jEqOver (.obj (.inst k j)) v = none := rfl
@[simp] theorem jBinop_and (t1 t2 : String) (a b : PVal) :
    jBinop "&" (.app t1 a) (.app t2 b) = some (.app "AND" (.cons (.app t1 a) (.cons (.app t2 b) .nil))) := by simp [jBinop]
@[simp] theorem jFn_Field (a b : PVal) : jFn P db "sqlbuilder.Field" [a, b] = .ok (.app "Field" (.cons a (.cons b .nil))) := by simp [jFn]
@[simp] theorem jGlob_m2mW : jGlob "_ManyToManySelectWrapper" = some (.obj (.wcls true)) := by simp [jGlob]
@[simp] theorem jGlob_o2mW : jGlob "_OneToManySelectWrapper" = some (.obj (.wcls false)) := by simp [jGlob]
@[simp] theorem jq_select_and (k : Nat) (t : String) (x y : PVal) :
    jQuery P db (.obj (.cls k)) "select" [.app "AND" (.cons (.app t x) y)] [] =
    .ok (.app "select" (.cons (.obj (.cls k)) (.cons (.app "AND" (.cons (.app t x) y)) .nil))) := by simp [jQuery]
@[simp] theorem jq_select_eqField (k : Nat) (a v : PVal) :
    jQuery P db (.obj (.cls k)) "select" [.app "==" (.cons (.app "Field" a) (.cons v .nil))] [] =
    .ok (.app "select" (.cons (.obj (.cls k)) (.cons (.app "==" (.cons (.app "Field" a) (.cons v .nil))) .nil))) := by simp [jQuery]
@[simp] theorem jq_orderBy (a ob : PVal) : jQuery P db (.app "select" a) "orderBy" [ob] [] =
    .ok (.app "orderBy" (.cons (.app "select" a) (.cons ob .nil))) := by simp [jQuery]
end attrs

/-- the TRANSLATED `SOSQLMultipleJoin.performJoin`: the select expression `otherClass.select(q.<key> == inst.id)` with the
    join's `orderBy` applied by the database -/
theorem sqlMultiplePerformJoinX_eq (P : Params) (db : DB) (k j : Nat) :
    sqlMultiplePerformJoinX P db k j = .ret db Heap.empty
      (.app "orderBy" (.cons (.app "select" (.cons (.obj (.cls P.D.other)) (.cons (.obj (.col P.D.fkcol)) (.cons (.int j) .nil))))
        (.cons P.D.orderBy .nil))) := by
  unfold sqlMultiplePerformJoinX PyJoins.run sqlMultiplePerformJoinProg sqlMultiplePerformJoinBody
  cases hpc : P.D.perConn <;>
    simp [Block.exec, Stmt.exec, Cond.eval, Expr.eval, Exprs.eval, St.setVar, zipKw, Const.val, Env.ofArgs, Res.toCall,
      jq_select, hpc]

/-- the TRANSLATED `SOManyToMany.__get__`: on an instance, the wrapper around
    `otherClass.select(otherClass.q.id == Field(t, otherColumn) & Field(t, joinColumn) == obj.id)`; on the class, the join itself -/
theorem m2mGetX_eq (P : Params) (db : DB) (k j : Nat) (ty : PVal) :
    m2mGetX P db (.obj (.inst k j)) ty = .ret db Heap.empty
      (.app "M2MWrapper" (.cons (.obj (.inst k j)) (.cons (.obj .m2m) (.cons
        (.app "select" (.cons (.obj (.cls P.D.other)) (.cons (m2mQuery P.D.other P.D.table (!P.D.ownFirst) P.D.ownFirst j) .nil))) .nil)))) := by
  unfold m2mGetX PyJoins.run m2mGetProg m2mGetBody
  simp [Block.exec, Stmt.exec, Cond.eval, Expr.eval, Exprs.eval, St.setVar, St.setOpt, afterCall, zipKw, starKwOf, Const.val,
    Env.ofArgs, Res.toCall, jCallV, m2mQuery]

theorem m2mGetX_none (P : Params) (db : DB) (ty : PVal) : m2mGetX P db .none ty = .ret db Heap.empty (.obj .m2m) := by
  unfold m2mGetX PyJoins.run m2mGetProg m2mGetBody
  simp [Block.exec, Stmt.exec, Cond.eval, Expr.eval, Const.val, Env.ofArgs, Res.toCall]

/-- the TRANSLATED `SOOneToMany.__get__` -/
theorem o2mGetX_eq (P : Params) (db : DB) (k j : Nat) (ty : PVal) :
    o2mGetX P db (.obj (.inst k j)) ty = .ret db Heap.empty
      (.app "O2MWrapper" (.cons (.obj (.inst k j)) (.cons (.obj .o2m) (.cons
        (.app "select" (.cons (.obj (.cls P.D.other)) (.cons (o2mQuery P.D.other P.D.fkcol j) .nil))) .nil)))) := by
  unfold o2mGetX PyJoins.run o2mGetProg o2mGetBody
  simp [Block.exec, Stmt.exec, Cond.eval, Expr.eval, Exprs.eval, St.setVar, St.setOpt, afterCall, zipKw, starKwOf, Const.val,
    Env.ofArgs, Res.toCall, jCallV, o2mQuery]

/-- the select expressions denote the model's rows -/
theorem queryRows_m2m (db : DB) (k t : Nat) (s : Bool) (owner : Nat) :
    queryRows modelConn db (.app "select" (.cons (.obj (.cls k)) (.cons (m2mQuery k t (!s) s owner) .nil))) =
      some ((manyToMany db t s owner).map some) := by
  simp [queryRows, whereRows, m2mQuery, modelConn, manyToMany, relatedBy, Extracted.Graph.m2mSelect,
    Extracted.Graph.JCol.first, Extracted.Graph.JVal.get]

theorem queryRows_o2m (db : DB) (k f owner : Nat) :
    queryRows modelConn db (.app "select" (.cons (.obj (.cls k)) (.cons (o2mQuery k f owner) .nil))) =
      some ((referrers db k f owner).map some) := by
  simp [queryRows, whereRows, o2mQuery, modelConn]

theorem queryRows_sqlMultiple (db : DB) (k f owner : Nat) :
    queryRows modelConn db (.app "select" (.cons (.obj (.cls k)) (.cons (.obj (.col f)) (.cons (.int owner) .nil)))) =
      some ((referrers db k f owner).map some) := by
  simp [queryRows, modelConn]

/-! ### the wrapper's `add` / `remove` / `create` -/

/-- the wrapper `__get__` returns for the instance `(k, j)` -/
def m2mWrapper (P : Params) (k j : Nat) : PVal :=
  .app "M2MWrapper" (.cons (.obj (.inst k j)) (.cons (.obj .m2m) (.cons
    (.app "select" (.cons (.obj (.cls P.D.other)) (.cons (m2mQuery P.D.other P.D.table (!P.D.ownFirst) P.D.ownFirst j) .nil))) .nil)))

theorem m2mAddX_eq (P : Params) (db : DB) (heap : Heap Hnd) (k j k' j' : Nat) :
    m2mAddX P (m2mWrapper P k j) db heap [.obj (.inst k' j')] =
      .ret (P.C.interInsert db P.D.table P.D.ownFirst j (!P.D.ownFirst) j') heap .none := by
  have e1 := getIDX_inst P db k j
  have e2 := getIDX_inst P db k' j'
  unfold m2mAddX PyJoins.run m2mAddProg m2mAddBody m2mWrapper
  jrun
  simp [jCallConn]

theorem m2mRemoveX_eq (P : Params) (db : DB) (heap : Heap Hnd) (k j k' j' : Nat) :
    m2mRemoveX P (m2mWrapper P k j) db heap [.obj (.inst k' j')] =
      .ret (P.C.interDelete db P.D.table P.D.ownFirst j (!P.D.ownFirst) j') heap .none := by
  have e1 := getIDX_inst P db k j
  have e2 := getIDX_inst P db k' j'
  unfold m2mRemoveX PyJoins.run m2mRemoveProg m2mRemoveBody m2mWrapper
  jrun
  simp [jCallConn]

@[simp] theorem pairsOf_ofList (kw : List (PVal × PVal)) : pairsOf (Val.ofList (kw.map fun p => .pair p.1 p.2)) = some kw := by
  induction kw with
  | nil => rfl
  | cons p l ih => simp [Val.ofList, pairsOf, ih]

/-- the TRANSLATED `create(**kw)`: `otherClass(**kw)` (the parameter `C.createKw`), then the translated `add` of the new
    instance, which is returned -/
theorem m2mCreateX_eq (P : Params) (db : DB) (k j : Nat) (kw : List (PVal × PVal)) :
    m2mCreateX P (m2mWrapper P k j) db kw =
      .ret (P.C.interInsert (P.C.createKw db P.D.other kw).1 P.D.table P.D.ownFirst j (!P.D.ownFirst) (P.C.createKw db P.D.other kw).2)
        Heap.empty (.obj (.inst P.D.other (P.C.createKw db P.D.other kw).2)) := by
  have e := m2mAddX_eq P (P.C.createKw db P.D.other kw).1 Heap.empty k j P.D.other (P.C.createKw db P.D.other kw).2
  unfold m2mCreateX PyJoins.run m2mCreateProg m2mCreateBody
  unfold m2mWrapper at e ⊢
  simp [Block.exec, Stmt.exec, Cond.eval, Expr.eval, Exprs.eval, St.setVar, St.setOpt, afterCall, zipKw, starKwOf, Const.val,
    Env.ofArgs, Res.toCall, jCallVKw, e]

end SqlObjVerif.Joins
