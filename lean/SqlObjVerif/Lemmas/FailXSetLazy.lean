import SqlObjVerif.Lemmas.FailXSet
/-!
C06, `obj.set(**kw)`, the LAZY / CREATING branch, any number of keywords (all plain columns, distinct):
`setF_lazyBranch` for ANY world (every value is validated before anything changes; then the shown values, the
pending values, the dirty flag), `setF_lazy_eq` = the hand-compiled tree `setProg` of a lazy class under the same
schedule, `lazyEnd_creating` = what the branch does to an object under construction (used by create).
-/
namespace SqlObjVerif.PyFail
open SqlObjVerif.PyMain (PV FnKind Flag Expr Cond LExpr Target DRef ColAttr R mapR ofOpt PDict CVal
  dget dhas dset dupdate dictOf sortByKey ofVal toVal? pvIdx pyBool nameOf natOf itemsOf dbNameOf optMap
  updItemOf dictItemOf cvOf Block)
open SqlObjVerif.PyMain.Extracted
open SqlObjVerif.Fail (Err Schema Inj Extra clsOf hit exec bump applyMem Mem updPending rowVals In allOk)
open SqlObjVerif.PyPure (dset_not_mem dictOf_nodup filter_fst_none filter_fst_all mapR_ok_of)

/-- the world the lazy / creating branch of `set` ends in when every value is valid -/
def lazyEnd (w : FW) (tail : List Bool) (kw : List (Nat × In)) : FW :=
  let w2 := (setVals { w with vq := tail } (Fail.asgOf kw)).updCV (Fail.asgOf kw)
  if kw.isEmpty then w2 else w2.setDirty true

theorem cvOf_kwPV (kw : List (Nat × In)) : cvOf (kw.map fun e => (e.1, ofVal e.2.val)) = some (Fail.asgOf kw) := by
  induction kw with
  | nil => rfl
  | cons e kw ih => simp [cvOf, ih, Fail.asgOf]

/-- `set(**kw)`, lazy / creating branch, all keywords plain columns -/
theorem setF_lazyBranch (w : FW) (tail : List Bool) (kw : List (Nat × In))
    (hbr : (w.creating || (clsOf w.sch w.c).lazy) = true) (hsig : w.sigSuppress = false)
    (hvq : w.vq = vqOf kw ++ tail)
    (hlt : ∀ e ∈ kw, e.1 < (clsOf w.sch w.c).cols.length) (hnd : (kw.map (·.1)).Nodup) :
    (allOk kw = true → setF w (kwPV kw) = .ret (lazyEnd w tail kw) .none) ∧
    (allOk kw = false → ∃ q, setF w (kwPV kw) = .exc { w with vq := q } .invalid) := by
  have hkw0 : dictOf (kw.map fun e => (e.1, ofVal e.2.val)) = kw.map fun e => (e.1, ofVal e.2.val) :=
    dictOf_nodup _ (by simpa [Function.comp_def] using hnd)
  have hf1 := filter_fst_none kw (fun x => !Nat.blt x.fst (clsOf w.sch w.c).cols.length) (fun x => (PV.name x.fst).pair (ofVal x.snd.val))
    (fun x hx => by simp [Nat.blt_eq, hlt x hx])
  have hf2 := filter_fst_all kw (fun x => Nat.blt x.fst (clsOf w.sch w.c).cols.length) (fun x => (PV.name x.fst).pair (ofVal x.snd.val))
    (fun x hx => by simp [Nat.blt_eq, hlt x hx])
  obtain ⟨hOk, hBad⟩ := set_for0_loop propCall kw w tail (some (.bool false)) none none none none none none none none none none none
    [[], [], []] (kwPV kw) [] [] [] hvq (fun e he => by simpa [Nat.blt_eq] using hlt e he) hnd (by simp)
    (fun e he => dset_same _ _ _ (by simpa [kwPV, Function.comp_def] using hnd)
      (List.mem_map.mpr ⟨e, he, by simp [pvOfIn]⟩))
  have hlz : w.creating = false → (clsOf w.sch w.c).lazy = true := by
    intro hc; simpa [hc] using hbr
  unfold setF setFWith setProg set_nlocals set_nlists set_ndicts
  constructor
  · intro hok
    obtain ⟨b3, b4, b5, b6, b7, hb⟩ := hOk hok
    simp only [setSt, kwPV, pvOfIn] at hb
    have hitems : kw.map (fun x => (PV.name x.1).pair (ofVal x.2.val)) =
        (Fail.asgOf kw).map fun e => PV.pair (.name e.1) (ofVal e.2) := by simp [Fail.asgOf]
    obtain ⟨c3, c4, hcl⟩ := set_cache_loop propCall set_for2 rfl (Fail.asgOf kw)
      { w with vq := tail } (some (.bool false)) none none b3 b4 b5 b6 b7 none none none none
      [[], [], []] (List.map (fun e => (e.1, ofVal e.2.val)) kw) [] (List.map (fun e => (e.1, ofVal e.2.val)) kw) []
    simp only [setSt] at hcl
    have hfin : ∀ b : Bool, (w.creating = b) → (b = false → (clsOf w.sch w.c).lazy = true) →
        (if b = true then R.ok true else R.ok (clsOf w.sch w.c).lazy) = (R.ok true : R Bool) := by
      intro b _ h; cases b <;> simp_all
    cases hc : w.creating
    · have hl := hlz hc
      pfwith [kwPV, hf1, hf2, hkw0, FW.ncols, hsig, hc, hl]
      simp only [Function.comp_def]
      rw [hb]
      pfwith [hc]
      simp only [Function.comp_def]
      simp only [hc] at hcl
      rw [hitems, hcl]
      pfwith [cvOf_kwPV]
      cases kw <;> simp [lazyEnd, hc]
    · pfwith [kwPV, hf1, hf2, hkw0, FW.ncols, hsig, hc]
      simp only [Function.comp_def]
      rw [hb]
      pfwith [hc]
      simp only [Function.comp_def]
      simp only [hc] at hcl
      rw [hitems, hcl]
      pfwith [cvOf_kwPV]
      cases kw <;> simp [lazyEnd, hc]
  · intro hok
    obtain ⟨st', q, hb, hw⟩ := hBad hok
    simp only [setSt, kwPV, pvOfIn] at hb
    refine ⟨q, ?_⟩
    cases hc : w.creating
    · have hl := hlz hc
      pfwith [kwPV, hf1, hf2, hkw0, FW.ncols, hsig, hc, hl]
      simp only [Function.comp_def]
      rw [hb]
      simp [hw, hc, hsig]
    · pfwith [kwPV, hf1, hf2, hkw0, FW.ncols, hsig, hc]
      simp only [Function.comp_def]
      rw [hb]
      simp [hw, hc, hsig]

theorem setVals_creating (xs : List (Nat × Fail.Val)) : ∀ (w : FW), w.creating = true →
    setVals w xs = { w with nobj := { w.nobj with vals := dupdate xs w.nobj.vals } } := by
  induction xs with
  | nil => intro w _; rfl
  | cons e xs ih =>
    intro w hw
    have h1 : w.setVal e.1 e.2 = { w with nobj := { w.nobj with vals := dset e.1 e.2 w.nobj.vals } } := by
      simp [FW.setVal, hw]
    simp only [setVals, List.foldl_cons] at ih ⊢
    rw [h1, ih { w with nobj := { w.nobj with vals := dset e.1 e.2 w.nobj.vals } } hw]
    rfl

/-- the creating branch, spelled out: only the object under construction (and the oracle queue) changes -/
theorem lazyEnd_creating (w : FW) (tail : List Bool) (kw : List (Nat × In)) (hc : w.creating = true) :
    lazyEnd w tail kw = { w with vq := tail, nobj := ⟨dupdate (Fail.asgOf kw) w.nobj.vals,
      updPending w.nobj.cv (Fail.asgOf kw), if kw.isEmpty then w.nobj.dirty else true⟩ } := by
  unfold lazyEnd
  rw [setVals_creating _ { w with vq := tail } hc]
  cases kw <;> simp [FW.updCV, FW.setDirty, hc]

/-- **`set(**kw)` on a LAZY class** = the hand-compiled tree under the same schedule -/
theorem setF_lazy_eq (sch : Schema) (inj : Option Inj) (props : Nat → Extra) (s : Fail.St) (c id : Nat) (kw : List (Nat × In))
    (hl : (clsOf sch c).lazy = true) (hlt : ∀ e ∈ kw, e.1 < (clsOf sch c).cols.length) (hnd : (kw.map (·.1)).Nodup) :
    viewObs (setF (mkW sch inj props s c id (vqOf kw)) (kwPV kw)) =
      some (runObs (Fail.run sch inj (Fail.setProg sch c id kw [] .done) s)) := by
  obtain ⟨hOk, hBad⟩ := setF_lazyBranch (mkW sch inj props s c id (vqOf kw)) [] kw (by simp [mkW, hl]) rfl (by simp [mkW])
    hlt hnd
  have hasg : (Fail.asgOf kw).isEmpty = kw.isEmpty := by cases kw <;> rfl
  cases hok : allOk kw
  · obtain ⟨q, hq⟩ := hBad hok
    rw [hq]
    simp [viewObs, Outcome.view, runObs, mkW, Fail.setProg, hl, run_event, Fail.run_validates, hok]
  · rw [hOk hok]
    simp only [Fail.setProg, hl, if_true, Fail.precheck, Fail.hasUnknown, List.any, Bool.false_eq_true, if_false, Fail.extras,
      List.foldr, hasg]
    frun [Fail.run_validates, hok]
    unfold lazyEnd
    rw [setVals_eq _ { mkW sch inj props s c id (vqOf kw) with vq := [] } rfl]
    cases hP : kw.isEmpty
    · simp only [Bool.false_eq_true, if_false]
      frun []
      simp [viewObs, Outcome.view, runObs, mkW, FW.updCV, FW.setDirty, FW.mem, obs, cacheFold_core, cacheFold_rest]
      simp only [applyMem, mapInst_mapInst']
    · simp only [if_true]
      frun []
      simp [viewObs, Outcome.view, runObs, mkW, FW.updCV, obs, cacheFold_core, cacheFold_rest]
      simp only [applyMem, mapInst_mapInst']

end SqlObjVerif.PyFail
