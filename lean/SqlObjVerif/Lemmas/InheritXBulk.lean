import SqlObjVerif.Lemmas.InheritX
/-!
Symbolic execution of the TRANSLATED `InheritableSQLObject.deleteMany` / `deleteBy`: the loop
`for obj in list(cls.select(…)): obj.destroySelf()` by induction over the list of ids the select returned
(`bulk_loop`: it folds `destroyInst` over the ids), `foldl_destroyStep_eq` + the interface assumption on `X.ids`
turn that into the hand model's `deleteSel`.
-/
namespace SqlObjVerif.Inherit
open SqlObjVerif.PyInh
open SqlObjVerif.PyInh.Extracted

/-- what the loop of `deleteMany` / `deleteBy` does to the tables -/
def destroyStep (T : Tree) (sel : Nat → Option Res) (d : DB) (j : Nat) : DB :=
  match sel j with
  | some (.ok m) => destroyInst T d m j
  | _ => d

def instOf (k : Nat) (sel : Nat → Option Res) (j : Nat) : PVal :=
  match sel j with
  | some (.ok m) => PyInh.Val.inst k m j
  | _ => .none

theorem selInsts_eq (k : Nat) (sel : Nat → Option Res) (ids : List Nat) :
    selInsts k sel ids = Val.ofList (ids.map (instOf k sel)) := rfl

/-- the loop `for obj in list(…): obj.destroySelf()` (the same term in `deleteMany` and `deleteBy`) -/
theorem bulk_loop (X : Ctx) (C : Calls) (s : PVal) (k : Nat) (sel : Nat → Option Res) (par : Nat → Nat → Nat → PVal)
    (hC : ∀ (w' : XW) j m, w'.par = par → sel j = some (.ok m) →
      C.destroy w' k m j = .ret (w'.setCur k (destroyInst X.T (w'.cur k) m j)) .none)
    (v0 v1 v3 : Option PVal) : ∀ (ids : List Nat) (w : XW) (v2 : Option PVal), w.par = par →
      (∀ j, j ∈ ids → ∃ m, sel j = some (.ok m)) → ∃ v2',
      forLoop (fun st a => deleteMany_loop0.exec (xIface X C s) none (st.setVar 2 a)) (ids.map (instOf k sel))
        { w := w, vars := [v0, v1, v2, v3] } =
      .norm { w := w.setCur k (ids.foldl (destroyStep X.T sel) (w.cur k)), vars := [v0, v1, v2', v3] } := by
  intro ids
  induction ids with
  | nil => intro w v2 _ _; exact ⟨v2, by simp [forLoop]⟩
  | cons j ids ih =>
    intro w v2 hw hall
    obtain ⟨m, hm⟩ := hall j (List.mem_cons_self)
    have hstep : deleteMany_loop0.exec (xIface X C s) none
        (St.setVar { w := w, vars := [v0, v1, v2, v3] } 2 (instOf k sel j)) =
        .norm { w := w.setCur k (destroyInst X.T (w.cur k) m j), vars := [v0, v1, some (.inst k m j), v3] } := by
      unfold deleteMany_loop0
      simp only [instOf, hm]
      ihrun
    simp only [List.map_cons, forLoop, hstep, List.foldl_cons]
    obtain ⟨v2', hrest⟩ := ih (w.setCur k (destroyInst X.T (w.cur k) m j)) (some (.inst k m j)) (by simpa using hw)
      (fun j' hj' => hall j' (List.mem_cons_of_mem _ hj'))
    refine ⟨v2', ?_⟩
    rw [hrest]
    simp [destroyStep, hm]

theorem bulk_loop' (X : Ctx) (C : Calls) (s : PVal) (k : Nat) (sel : Nat → Option Res) (par : Nat → Nat → Nat → PVal)
    (hC : ∀ (w' : XW) j m, w'.par = par → sel j = some (.ok m) →
      C.destroy w' k m j = .ret (w'.setCur k (destroyInst X.T (w'.cur k) m j)) .none)
    {v0 v1 v2 v3 : Option PVal} {ids : List Nat} {w : XW} {r : PyInh.Res XW}
    (hF : forLoop (fun st a => deleteMany_loop0.exec (xIface X C s) none (st.setVar 2 a)) (ids.map (instOf k sel))
        { w := w, vars := [v0, v1, v2, v3] } = r)
    (hw : w.par = par) (hall : ∀ j, j ∈ ids → ∃ m, sel j = some (.ok m)) :
    ∃ v2', r = .norm { w := w.setCur k (ids.foldl (destroyStep X.T sel) (w.cur k)), vars := [v0, v1, v2', v3] } := by
  obtain ⟨v2', h⟩ := bulk_loop X C s k sel par hC v0 v1 v3 ids w v2 hw hall
  exact ⟨v2', by rw [← hF, h]⟩

theorem foldl_destroyStep_spec (T : Tree) (sel : Nat → Option Res) (c' j' : Nat) : ∀ (ids : List Nat) (d : DB),
    (ids.foldl (destroyStep T sel) d) c' j' =
      if j' ∈ ids then
        (match sel j' with
         | some (.ok m) => if c' ∈ T.anc m then none else d c' j'
         | _ => d c' j')
      else d c' j' := by
  have hw : Extracted.destroyWalksParents = true := rfl
  intro ids
  induction ids with
  | nil => intro d; simp
  | cons j ids ih =>
    intro d
    simp only [List.foldl_cons, ih, List.mem_cons]
    have hd : ∀ a, destroyStep T sel d j a j' =
        match sel j with
        | some (.ok m) => if j' = j ∧ a ∈ T.anc m then none else d a j'
        | _ => d a j' := by
      intro a
      unfold destroyStep
      cases hs : sel j with
      | none => rfl
      | some res =>
        cases res with
        | ok m => simp [destroyInst, hw, destroyG_spec]
        | notFound => rfl
        | keyError => rfl
    by_cases hj : j' = j
    · subst hj
      simp only [true_or, if_true, hd]
      cases hs : sel j' with
      | none => simp
      | some res =>
        cases res with
        | ok m => by_cases hc : c' ∈ T.anc m <;> simp [hc]
        | notFound => simp
        | keyError => simp
    · simp only [hj, false_or, hd]
      cases hs : sel j with
      | none => rfl
      | some res =>
        cases res with
        | ok m => simp
        | notFound => rfl
        | keyError => rfl

theorem foldl_destroyStep_eq (T : Tree) (db : DB) (c : Nat) (sel : Nat → Option Res) (ids : List Nat)
    (hids : ∀ j, j ∈ ids ↔ ∃ m, sel j = some (.ok m)) :
    ids.foldl (destroyStep T sel) db = deleteSel T db c sel := by
  funext c' j'
  rw [foldl_destroyStep_spec, deleteSel_spec]
  by_cases hj : j' ∈ ids
  · simp only [hj, if_true]
    cases hs : sel j' with
    | none => rfl
    | some res => cases res <;> rfl
  · simp only [hj, if_false]
    cases hs : sel j' with
    | none => rfl
    | some res =>
      cases res with
      | ok m => exact absurd ((hids j').2 ⟨m, hs⟩) hj
      | notFound => rfl
      | keyError => rfl

/-- `cls.deleteMany(where, connection=k)`: `C.destroy` is what `obj.destroySelf()` does -/
theorem deleteManyX_eq (X : Ctx) (C : Calls) (w : XW) (k c : Nat) (wh : PVal)
    (hwh : wh = noDefault ∨ wh = .none ∨ wh = .ref 5 0)
    (hids : ∀ j, j ∈ X.ids ↔ ∃ m, selectRow X.T (w.cur k) c (filterOf X wh) j = some (.ok m))
    (hC : ∀ (w' : XW) j m, w'.par = w.par → selectRow X.T (w.cur k) c (filterOf X wh) j = some (.ok m) →
      C.destroy w' k m j = .ret (w'.setCur k (destroyInst X.T (w'.cur k) m j)) .none) :
    deleteManyX X C w c wh (.conn k) = .ret (w.setCur k (deleteMany X.T (w.cur k) c (filterOf X wh))) .none := by
  unfold deleteManyX deleteManyProg deleteMany_nlocals deleteMany
  rw [← foldl_destroyStep_eq X.T (w.cur k) c _ X.ids hids]
  rcases hwh with rfl | rfl | rfl
  all_goals
    simp only [filterOf, noDefault] at hids hC ⊢
    ihrun
    simp [noDefault, connOf, filterOf, selInsts_eq, isListVal_ofList, toList_ofList, zipKw]
    generalize hF : forLoop _ _ _ = r
    obtain ⟨v2', rfl⟩ := bulk_loop' X C (.cls c) k _ w.par hC hF rfl (fun j hj => (hids j).1 hj)
    rfl

theorem deleteBy_loop0_eq : deleteBy_loop0 = deleteMany_loop0 := rfl

/-- `cls.deleteBy(connection=k, **kw)`: `C.destroy` is what `obj.destroySelf()` does -/
theorem deleteByX_eq (X : Ctx) (C : Calls) (w : XW) (k c : Nat)
    (hids : ∀ j, j ∈ X.ids ↔ ∃ m, selectByRow X.T (w.cur k) c X.kvs j = some (.ok m))
    (hC : ∀ (w' : XW) j m, w'.par = w.par → selectByRow X.T (w.cur k) c X.kvs j = some (.ok m) →
      C.destroy w' k m j = .ret (w'.setCur k (destroyInst X.T (w'.cur k) m j)) .none) :
    deleteByX X C w c (.conn k) = .ret (w.setCur k (deleteBy X.T (w.cur k) c X.kvs)) .none := by
  unfold deleteByX deleteByProg deleteBy_nlocals deleteBy
  rw [← foldl_destroyStep_eq X.T (w.cur k) c _ X.ids hids, deleteBy_loop0_eq]
  ihrun
  simp [connOf, selInsts_eq, isListVal_ofList, toList_ofList]
  generalize hF : forLoop _ _ _ = r
  obtain ⟨v2', rfl⟩ := bulk_loop' X C (.cls c) k _ w.par hC hF rfl (fun j hj => (hids j).1 hj)
  rfl

/-- what `obj.destroySelf()` is when it is the hand model's function and nothing is restricted -/
theorem bulk_hC_model (X : Ctx) (hb : ∀ a, X.blocked a = false) (k : Nat) (w' : XW) (j m : Nat) :
    destroyModel X w' k m j = .ret (w'.setCur k (destroyInst X.T (w'.cur k) m j)) .none :=
  destroyModel_unblocked X w' k m j (fun a _ => hb a)

/-- … and when it is the translated `destroySelf` calling itself along `_parent` -/
theorem bulk_hC_chain {X : Ctx} (h : X.T.WF) (hb : ∀ a, X.blocked a = false) (k : Nat) (w w' : XW) (j m : Nat)
    (hw : w'.par = w.par) (hpar : ∀ a, a ∈ X.T.anc m → w.par k a j = parVal X.T k a j) :
    destroySelfC X w' k m j = .ret (w'.setCur k (destroyInst X.T (w'.cur k) m j)) .none := by
  rw [destroySelfC_eq h w' k m j (by rw [hw]; exact hpar)]
  exact bulk_hC_model X hb k w' j m

end SqlObjVerif.Inherit
