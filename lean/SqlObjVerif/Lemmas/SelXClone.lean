import SqlObjVerif.Lemmas.SelXOps
import SqlObjVerif.Lemmas.ExprXCalls
/-!
# C03 translation — `Select.clone` is fresh; `newClause` / `filter` on the model of a Select

Through the tied interface `sIfaceF P Q k` (every call resolved to a translated program): `clone_fresh` — for ANY ops
dict and ANY keyword dict, a returning `clone` leaves every existing heap cell as it was and puts the derived Select's
ops at a new address; `newClause_run`, `filter_run` — the derived Select's ops are the base's with the clause replaced
by `x`, resp. by `SQLOp("AND", <base clause>, c)`.
-/
namespace SqlObjVerif.SelX
open SqlObjVerif.PyExpr hiding Expr Exprs Stmt Block Res
open SqlObjVerif.PySel SqlObjVerif.PySel.Extracted

set_option linter.unusedSimpArgs false

@[simp] theorem sIfaceF_callH (P : ExprX.Params) (Q : ParamsQ) (k : Nat) :
    (sIfaceF P Q (k + 1)).callH = callHD (sIfaceF P Q k) := rfl
@[simp] theorem sIfaceF_E (P : ExprX.Params) (Q : ParamsQ) (k : Nat) :
    (sIfaceF P Q (k + 1)).E = eLevel P Q (sIfaceF P Q k) := rfl
theorem sIfaceF_isSub (P : ExprX.Params) (Q : ParamsQ) (k : Nat) (h : Heap) :
    ((sIfaceF P Q k).E h).isSub = ExprX.isSub := by cases k <;> rfl
@[simp] theorem sIfaceF_hasAttr (P : ExprX.Params) (Q : ParamsQ) (k : Nat) : (sIfaceF P Q k).hasAttr = hasAttrX := by
  cases k <;> rfl
@[simp] theorem sIfaceF_strLe (P : ExprX.Params) (Q : ParamsQ) (k : Nat) : (sIfaceF P Q k).strLe = Q.strLe := by
  cases k <;> rfl

/-- the dict is one `__init__` leaves alone: `items` is a list / tuple, `staticTables` is set -/
def Canon (o : OpsM) : Prop := normItems o.items = o.items ∧ staticOf o.staticTables = o.staticTables

theorem clauseOf_noDefault (c : Val) : clauseOf c noDefault = c := by
  simp [clauseOf, noDefault, globV]

/-- `self.__class__(**d)` for a dict `d` that is the ops of a Select: a new Select with an equal, FRESH dict -/
theorem constructSel_opsDict (J : SIface) (hsub : ∀ h, (J.E h).isSub = ExprX.isSub) (o : OpsM) (hc : Canon o) (h : Heap) :
    constructSel J [] (opsDict o) h = .ok (selObj h.next, (h.alloc (opsDict o)).1) := by
  have hk : kwOk Select_init_paramKeys (opsDict o) = true := by
    simp [kwOk, Select_init_paramKeys, opsDict, k_items, k_clause, k_groupBy, k_having, k_orderBy, k_limit, k_join,
      k_lazyColumns, k_distinct, k_distinctOn, k_start, k_end, k_reversed, k_forUpdate, k_staticTables]
  have hb : bindParams (Select_init_paramKeys.drop 1) (Select_init_defaults.drop 1) [] (opsDict o) =
      some [o.items, noDefault, o.groupBy, o.having, o.orderBy, o.limit, o.join, o.lazyColumns, o.distinct, o.start,
        o.end_, o.reversed, o.forUpdate, o.clause, o.staticTables, o.distinctOn] := by
    simp [bindParams, Select_init_paramKeys, Select_init_defaults, opsDict, aget, noDefault, k_items, k_clause, k_groupBy,
      k_having, k_orderBy, k_limit, k_join, k_lazyColumns, k_distinct, k_distinctOn, k_start, k_end, k_reversed,
      k_forUpdate, k_staticTables]
  simp only [constructSel, hk, if_true, hb]
  rw [Select_init_spec J hsub]
  simp only [initOps, hc.1, hc.2, clauseOf_noDefault]

theorem len16 (l : List Val) (h : l.length = 16) :
    ∃ a1 a2 a3 a4 a5 a6 a7 a8 a9 a10 a11 a12 a13 a14 a15 a16, l = [a1, a2, a3, a4, a5, a6, a7, a8, a9, a10, a11, a12, a13, a14, a15, a16] := by
  cases l with
  | nil => simp at h
  | cons a1 l =>
    cases l with
    | nil => simp at h
    | cons a2 l =>
      cases l with
      | nil => simp at h
      | cons a3 l =>
        cases l with
        | nil => simp at h
        | cons a4 l =>
          cases l with
          | nil => simp at h
          | cons a5 l =>
            cases l with
            | nil => simp at h
            | cons a6 l =>
              cases l with
              | nil => simp at h
              | cons a7 l =>
                cases l with
                | nil => simp at h
                | cons a8 l =>
                  cases l with
                  | nil => simp at h
                  | cons a9 l =>
                    cases l with
                    | nil => simp at h
                    | cons a10 l =>
                      cases l with
                      | nil => simp at h
                      | cons a11 l =>
                        cases l with
                        | nil => simp at h
                        | cons a12 l =>
                          cases l with
                          | nil => simp at h
                          | cons a13 l =>
                            cases l with
                            | nil => simp at h
                            | cons a14 l =>
                              cases l with
                              | nil => simp at h
                              | cons a15 l =>
                                cases l with
                                | nil => simp at h
                                | cons a16 l =>
                                  cases l with
                                  | nil => exact ⟨a1, a2, a3, a4, a5, a6, a7, a8, a9, a10, a11, a12, a13, a14, a15, a16, rfl⟩
                                  | cons b l => simp at h

theorem bindParams_length : ∀ (ks : List Str) (ds : List (Option Val)) (pos : List Val) (kw : Dict) (args : List Val),
    bindParams ks ds pos kw = some args → args.length = ks.length
  | [], _, [], _, args, h => by simp [bindParams] at h; subst h; rfl
  | [], _, _ :: _, _, args, h => by simp [bindParams] at h
  | _ :: ks, _ :: ds, v :: pos, kw, args, h => by
    simp only [bindParams, Option.map_eq_some_iff] at h
    obtain ⟨r, hr, rfl⟩ := h
    simp [bindParams_length ks ds pos kw r hr]
  | k :: ks, d :: ds, [], kw, args, h => by
    simp only [bindParams] at h
    split at h
    · simp only [Option.map_eq_some_iff] at h
      obtain ⟨r, hr, rfl⟩ := h
      simp [bindParams_length ks ds [] kw r hr]
    · simp only [Option.map_eq_some_iff] at h
      obtain ⟨r, hr, rfl⟩ := h
      simp [bindParams_length ks ds [] kw r hr]
    · cases h
  | _ :: _, [], _ :: _, _, args, h => by simp [bindParams] at h
  | _ :: _, [], [], _, args, h => by simp [bindParams] at h

/-- `self.__class__(**kw)` for ANY keyword dict: when it returns, the result is a new Select whose ops dict sits at the
    allocation pointer, and no existing cell was written -/
theorem constructSel_fresh (J : SIface) (hsub : ∀ h, (J.E h).isSub = ExprX.isSub) (kw : Dict) (h : Heap) (v : Val)
    (h' : Heap) (hr : constructSel J [] kw h = .ok (v, h')) :
    v = selObj h.next ∧ h'.next = h.next + 1 ∧ (∀ a, a ≠ h.next → h'.cells a = h.cells a) ∧
      ∃ o, h'.cells h.next = some (opsDict o) := by
  unfold constructSel at hr
  split at hr
  · split at hr
    · next args hb =>
      have hl := bindParams_length _ _ _ _ _ hb
      have : (List.drop 1 Select_init_paramKeys).length = 16 := by decide
      rw [this] at hl
      obtain ⟨a1, a2, a3, a4, a5, a6, a7, a8, a9, a10, a11, a12, a13, a14, a15, a16, rfl⟩ := len16 args hl
      rw [Select_init_spec J hsub] at hr
      injection hr with hr
      injection hr with hv hh
      subst hv hh
      refine ⟨rfl, rfl, fun a ha => by simp [ha], ⟨initOps a1 a2 a3 a4 a5 a6 a7 a8 a9 a10 a11 a12 a13 a14 a15 a16, by simp⟩⟩
    · cases hr
  · cases hr

/-- **clone is fresh**: `self.clone(**newOps)` on the translated source, for ANY ops dict `d` of the base Select and ANY
    keyword dict: when it returns, the derived Select's ops dict is a NEW address and every cell that existed before
    the call (the base Select's ops at `p` in particular) is unchanged -/
theorem clone_fresh (P : ExprX.Params) (Q : ParamsQ) (k : Nat) (h : Heap) (p q : Nat) (d kw : Dict)
    (hp : h.cells p = some d) (hq : h.cells q = some kw) (hq' : q < h.next) (v : Val) (h' : Heap)
    (hr : runH (sIfaceF P Q (k + 2)) Select_clone [selObj p, refV q] h = .ok (v, h')) :
    v = selObj (h.next + 2) ∧ (∀ a, a < h.next → h'.cells a = h.cells a) ∧
      ∃ o, h'.cells (h.next + 2) = some (opsDict o) := by
  rw [Select_clone_spec _ h p q d kw hp hq (by omega), sIfaceF_callH] at hr
  have hcell : ((h.alloc (dupdate d kw)).1.alloc (dupdate d kw)).1.cells (h.next + 1) = some (dupdate d kw) := by simp
  simp only [callHD, selObj, typeName, if_true, hcell] at hr
  obtain ⟨hv, _, hframe, ho⟩ := constructSel_fresh _ (sIfaceF_isSub P Q (k + 1)) _ _ _ _ hr
  simp only [Heap.alloc_next] at hv hframe ho
  refine ⟨hv, fun a ha => ?_, ho⟩
  rw [hframe a (by omega)]
  have h1 : ¬ a = h.next + 1 := by omega
  have h2 : ¬ a = h.next := by omega
  simp [h1, h2]

theorem canon_clause (o : OpsM) (x : Val) (hc : Canon o) : Canon { o with clause := x } := hc

theorem dupdate_clause (o : OpsM) (x : Val) : dupdate (opsDict o) [(k_clause, x)] = opsDict { o with clause := x } := by
  simp [dupdate, opsDict, aset, k_items, k_clause, k_groupBy, k_having, k_orderBy, k_limit, k_join,
    k_lazyColumns, k_distinct, k_distinctOn, k_start, k_end, k_reversed, k_forUpdate, k_staticTables]

/-- `base.newClause(x)` on the translated source (through `clone` and `__init__`): a new Select whose ops are the
    base's with `clause := x`, at a fresh address; every old cell unchanged -/
theorem newClause_run (P : ExprX.Params) (Q : ParamsQ) (k : Nat) (h : Heap) (p : Nat) (o : OpsM) (hc : Canon o)
    (hp : h.cells p = some (opsDict o)) (hpn : p < h.next) (x : Val) :
    ∃ h', runH (sIfaceF P Q (k + 3)) Select_newClause [selObj p, x] h = .ok (selObj (h.next + 3), h') ∧
      h'.cells (h.next + 3) = some (opsDict { o with clause := x }) ∧ ∀ a, a < h.next → h'.cells a = h.cells a := by
  rw [Select_newClause_spec, sIfaceF_callH]
  have hcell : (h.alloc [(k_clause, x)]).1.cells h.next = some [(k_clause, x)] := by simp
  have hne : ("clone" = "__class__") = False := by decide
  simp only [callHD, selObj, typeName, if_true, hcell, hne, if_false, List.isEmpty_nil]
  have hp1 : (h.alloc [(k_clause, x)]).1.cells p = some (opsDict o) := by
    simp only [Heap.alloc_cells]; rw [if_neg (by omega)]; exact hp
  have := Select_clone_spec (sIfaceF P Q (k + 2)) (h.alloc [(k_clause, x)]).1 p h.next (opsDict o) [(k_clause, x)] hp1 hcell
    (by simp)
  simp only [selObj] at this
  rw [this, sIfaceF_callH, dupdate_clause]
  simp only [callHD, typeName, if_true, Heap.alloc_next, Heap.alloc_cells]
  rw [constructSel_opsDict _ (sIfaceF_isSub P Q (k + 1)) _ (canon_clause o x hc)]
  refine ⟨_, rfl, by simp, fun a ha => ?_⟩
  have h1 : ¬ a = h.next + 1 + 1 + 1 := by omega
  have h2 : ¬ a = h.next + 1 + 1 := by omega
  have h3 : ¬ a = h.next + 1 := by omega
  have h4 : ¬ a = h.next := by omega
  simp [h1, h2, h3, h4]

/-- a module-level name that PySel does not translate goes to the translated programs of `Model/ExprX.lean` -/
theorem callE_other (J : SIface) (h : Heap) (f : String) (args : List Val) (h1 : (f = "sqlrepr") = False)
    (h2 : (f = "_str_or_sqlrepr") = False) (h3 : (f = "tablesUsedSet") = False)
    (h4 : (f = "dbConnectionForScheme") = False) : callE J h f args = ExprX.callD (J.E h) f args := by
  simp only [callE, h1, h2, h3, h4, if_false]

/-- `AND(a, b)` through the tied interface builds `SQLOp("AND", a, b)` -/
theorem call_AND2 (P : ExprX.Params) (Q : ParamsQ) (k : Nat) (h : Heap) (a b : Val)
    (ha : ExprX.isSub (typeName a) "Subquery" = false) :
    ((sIfaceF P Q (k + 3)).E h).call "AND" [a, b] = .ok (ExprX.mkOp "SQLOp" (ExprX.binText Expr.Extracted.andFn) a b) := by
  simp only [sIfaceF_E, eLevel]
  rw [callE_other _ _ _ _ (by decide) (by decide) (by decide) (by decide),
    ExprX.callD_fn _ "AND" PyExpr.Extracted.f_AND true _ (by decide) (by decide) (by rfl)]
  simp only [if_true, ExprX.AND_cons, ExprX.toOut_toR, sIfaceF_E, eLevel]
  rw [callE_other _ _ _ _ (by decide) (by decide) (by decide) (by decide),
    ExprX.callD_fn _ "AND" PyExpr.Extracted.f_AND true _ (by decide) (by decide) (by rfl)]
  simp only [if_true, ExprX.AND_one, Out.toR_ret, R.bind_ok]
  rw [callE_other _ _ _ _ (by decide) (by decide) (by decide) (by decide),
    ExprX.call_SQLOp _ (sIfaceF_isSub P Q (k + 1) h) _ _ _ ha, ExprX.upper_binText]

/-- **filter = AND of the clauses**: `base.filter(c)` on the translated source derives a Select whose clause is
    `SQLOp("AND", <base clause>, c)`, all other ops equal, at a fresh address; the base's cells are unchanged.
    `base.filter(None)` is `base` itself and changes nothing. -/
theorem filter_run (P : ExprX.Params) (Q : ParamsQ) (k : Nat) (h : Heap) (p : Nat) (o : OpsM) (hc : Canon o)
    (hp : h.cells p = some (opsDict o)) (hpn : p < h.next) (fc : Val) (hfc : isNoneV fc = false)
    (hstr : ExprX.isSub (typeName o.clause) "str" = false)
    (hsq : ExprX.isSub (typeName o.clause) "Subquery" = false) :
    ∃ h', runH (sIfaceF P Q (k + 4)) Select_filter [selObj p, fc] h = .ok (selObj (h.next + 4), h') ∧
      h'.cells (h.next + 4) = some (opsDict { o with
        clause := ExprX.mkOp "SQLOp" (ExprX.binText Expr.Extracted.andFn) o.clause fc }) ∧
      ∀ a, a < h.next → h'.cells a = h.cells a := by
  rw [Select_filter_spec _ (sIfaceF_isSub P Q (k + 4)) h p (opsDict o) o.clause fc hp (by simp [opsDict, aget, k_clause, k_items]) hfc
    hstr, call_AND2 P Q (k + 1) h _ _ hsq]
  simp only [sIfaceF_callH]
  have hcell : (h.alloc []).1.cells h.next = some [] := by simp
  have hn1 : ("newClause" = "__class__") = False := by decide
  have hn2 : ("newClause" = "clone") = False := by decide
  have hfm : findMethodS "Select" "newClause" = some Select_newClause := by rfl
  simp only [callHD, selObj, typeName, if_true, hcell, hn1, hn2, if_false, runDeriver, hfm]
  have hp1 : (h.alloc []).1.cells p = some (opsDict o) := by
    simp only [Heap.alloc_cells]; rw [if_neg (by omega)]; exact hp
  obtain ⟨h', hrun, hcl, hfr⟩ := newClause_run P Q k (h.alloc []).1 p o hc hp1 (by simp; omega)
    (ExprX.mkOp "SQLOp" (ExprX.binText Expr.Extracted.andFn) o.clause fc)
  simp only [selObj, Heap.alloc_next] at hrun hcl hfr
  refine ⟨h', hrun, hcl, fun a ha => ?_⟩
  rw [hfr a (by omega)]
  have h4 : ¬ a = h.next := by omega
  simp [h4]

theorem filter_none_run (P : ExprX.Params) (Q : ParamsQ) (k : Nat) (h : Heap) (self : Val) :
    runH (sIfaceF P Q k) Select_filter [self, .none] h = .ok (self, h) := Select_filter_none _ h self
end SqlObjVerif.SelX
