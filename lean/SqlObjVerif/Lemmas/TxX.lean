import SqlObjVerif.Model.TxX
import SqlObjVerif.Lemmas.Tx
/-!
Symbolic execution of the TRANSLATED `Transaction` methods (PyTx programs regenerated from /repo's
dbconnection.py on every run) against the hand-written model `Model/Tx.lean`: each `…X_eq` theorem says that
running the translated method from the image `img s lo` of ANY model state ends in the image of the state the hand
model's function for that operation yields (and raises where it refuses).  `txrun` evaluates the interpreter on
the concrete program under the path's facts.  This file: dict-value lemmas and the loop-free methods
(`assertActive`, `_makeObsolete`, `begin`, `_SO_delete`); `Lemmas/TxXLoop.lean`: `rollback`, `commit`, `__del__`.
-/
namespace SqlObjVerif.Tx
open SqlObjVerif.PyTx
open SqlObjVerif.PyTx.Extracted

theorem vdGet_nonpair (k d : PVal) (h : ∀ (k' v t : PyTx.Val), d = (k'.pair v).cons t → False) : vdGet k d = none := by
  unfold vdGet
  split
  · rename_i k0 v0 t; exact absurd rfl (h k0 v0 t)
  · rfl

theorem vdGet_vdSet (k k' v d : PVal) : vdGet k' (vdSet k v d) = if k' = k then some v else vdGet k' d := by
  fun_induction vdSet k v d with
  | case1 v0 t =>
    by_cases h : k' = k
    · subst h; simp [vdGet]
    · have h' : ¬ k = k' := fun e => h e.symm
      simp [vdGet, h, h']
  | case2 k0 v0 t h ih =>
    by_cases h1 : k' = k
    · subst h1; simp [vdGet, h, ih]
    · simp only [vdGet, ih, h1, if_false]
  | case3 d h =>
    simp only [vdGet, vdGet_nonpair k' d h]
    by_cases h1 : k' = k
    · subst h1; simp
    · have h' : ¬ k = k' := fun e => h1 e.symm
      simp [h1, h']

theorem vdSet_vdSet (k v1 v2 d : PVal) : vdSet k v2 (vdSet k v1 d) = vdSet k v2 d := by
  fun_induction vdSet k v1 d with
  | case1 v0 t => simp [vdSet]
  | case2 k0 v0 t h ih => simp [vdSet, h, ih]
  | case3 d h =>
    simp only [vdSet, if_true]

theorem isListVal_vdSet (k v d : PVal) (hd : isListVal d = true) : isListVal (vdSet k v d) = true := by
  fun_induction vdSet k v d with
  | case1 v0 t => simpa [isListVal] using hd
  | case2 k0 v0 t h ih => simp only [isListVal] at hd ⊢; exact ih hd
  | case3 d h => simp [isListVal]

theorem isListVal_vlSnoc (v l : PVal) : isListVal (vlSnoc v l) = true := by
  fun_induction vlSnoc v l with
  | case1 h t ih => simpa [isListVal] using ih
  | case2 l h => simp [isListVal]

/-- a dict whose values are lists -/
def DelDict (d : PVal) : Prop := isListVal d = true ∧ ∀ k l, vdGet k d = some l → isListVal l = true

theorem delDict_encDel (ks : List Key) : DelDict (encDel ks) := by
  induction ks with
  | nil => exact ⟨rfl, fun k l h => by simp [encDel, vdGet] at h⟩
  | cons k ks ih =>
    obtain ⟨h1, h2⟩ := ih
    simp only [encDel, delAdd]
    cases hg : vdGet (Val.int (clsOf k)) (encDel ks) with
    | none =>
      refine ⟨isListVal_vdSet _ _ _ h1, ?_⟩
      intro k' l h
      rw [vdGet_vdSet] at h
      split at h
      · cases h; rfl
      · exact h2 k' l h
    | some l0 =>
      refine ⟨isListVal_vdSet _ _ _ h1, ?_⟩
      intro k' l h
      rw [vdGet_vdSet] at h
      split at h
      · cases h; exact isListVal_vlSnoc _ _
      · exact h2 k' l h

macro "txrun" : tactic => `(tactic|
  simp [PyTx.run, Block.exec, Stmt.exec, Cond.eval, Expr.eval, Exprs.eval, Env.get, St.setVar, St.setOpt, afterCall,
        Res.toCall, pyBool, zipKw, ExcPat.catches, iface0, iface1, txIface, txGetAttr, txSetAttr, txAttrOf, txCall0, txCall1,
        txCallFn, img, Val.isNone, isListVal, vdGet_vdSet, vdSet_vdSet, isListVal_vdSet, isListVal_vlSnoc, vdHas, *])

/-- the transaction's view, as a function of the committed rows and the write set -/
def viewOf (db : Key → Option Row) (ws : Key → Option (Option Row)) (k : Key) : Option Row :=
  match ws k with
  | some w => w
  | none => db k

theorem viewT_eq (x : XT) : x.viewT = viewOf x.db x.ws := rfl
theorem view_T_eq (s : Tx.St) : s.view .T = viewOf s.db s.ws := by
  funext k; simp only [St.view, viewOf]; cases s.ws k <;> rfl

theorem soDeleteX_eq (A : AllIDs) (s : Tx.St) (lo : Low) (j : Nat) :
    soDeleteX A (img s lo) j =
      if s.obsolete then .exc (img (soDelete s j).1 lo) ⟨.assertionError, 0⟩
      else .ret (img (soDelete s j).1 lo) .none := by
  unfold soDeleteX SO_deleteProg SO_delete_nlocals soDelete
  obtain ⟨hd1, hd2⟩ := delDict_encDel s.del
  cases hg : vdGet (Val.int (clsOf (s.t.insts j).key)) (encDel s.del) with
  | none =>
    cases hob : s.obsolete <;> txrun <;> simp [viewT_eq, view_T_eq, encDel, delAdd, vlSnoc, hg]
    split <;> simp_all
  | some l0 =>
    have := hd2 _ _ hg
    cases hob : s.obsolete <;> txrun <;> simp [viewT_eq, view_T_eq, encDel, delAdd, hg]
    split <;> simp_all

theorem decValues_encValues (c : Col) (v : Int) : decValues (encValues c v) = some (c, v) := by
  simp only [encValues, decValues]
  by_cases h : v < 0
  · simp only [h, decide_true, if_true]
    have : -((v.natAbs : Nat) : Int) = v := by rw [Int.ofNat_natAbs_of_nonpos (by omega)]; omega
    rw [this]
  · simp only [h, decide_false, Bool.false_eq_true, if_false]
    have : ((v.natAbs : Nat) : Int) = v := Int.natAbs_of_nonneg (by omega)
    rw [this]

theorem soUpdateX_eq (A : AllIDs) (s : Tx.St) (lo : Low) (j : Nat) (c : Col) (v : Tx.Val) :
    soUpdateX A (img s lo) j c v =
      if s.obsolete then .exc (img (soUpdate s j c v).1 lo) ⟨.assertionError, 0⟩
      else .ret (img (soUpdate s j c v).1 lo) .none := by
  unfold soUpdateX SO_updateProg SO_update_nlocals soUpdate
  obtain ⟨hd1, hd2⟩ := delDict_encDel s.upd
  have hdv := decValues_encValues c v
  cases hg : vdGet (Val.int (clsOf (s.t.insts j).key)) (encDel s.upd) with
  | none =>
    cases hob : s.obsolete <;> txrun <;> simp [viewT_eq, view_T_eq, encDel, delAdd, vlSnoc, hg]
  | some l0 =>
    have := hd2 _ _ hg
    cases hob : s.obsolete <;> txrun <;> simp [viewT_eq, view_T_eq, encDel, delAdd, hg]

theorem opSet_T_eq (s : Tx.St) (j : Nat) (c : Col) (v : Tx.Val) (hj : j < s.t.n) :
    opSet s .T j c v = afterSoUpdate (soUpdate s j c v) j c v := by
  have : ¬ (j ≥ s.t.n) := by omega
  unfold opSet soUpdate afterSoUpdate
  simp only [St.conn, this, if_false]
  cases s.obsolete <;> simp
  rfl

theorem opDestroy_T_eq (s : Tx.St) (j : Nat) (hj : j < s.t.n) : opDestroy s .T j = afterSoDelete (soDelete s j) j := by
  have : ¬ (j ≥ s.t.n) := by omega
  unfold opDestroy soDelete afterSoDelete
  simp only [St.conn, this, if_false]
  cases s.obsolete <;> simp

theorem assertActiveX_eq (A : AllIDs) (s : Tx.St) (lo : Low) :
    assertActiveX A (img s lo) =
      if s.refused .T then .exc (img s lo) ⟨.assertionError, 0⟩ else .ret (img s lo) .none := by
  unfold assertActiveX assertActiveProg assertActive_nlocals
  cases h : s.obsolete <;> txrun <;> simp [St.refused, h]

theorem makeObsoleteX_eq (A : AllIDs) (s : Tx.St) (lo : Low) (h : s.obsolete = false) :
    makeObsoleteX A (img s lo) = .ret (img { s with obsolete := true, del := [], upd := [] } lo.release) .none := by
  unfold makeObsoleteX makeObsoleteProg makeObsolete_nlocals
  cases hac : lo.ac <;> txrun <;> simp [Low.release, encDel, hac]

theorem beginX_eq (A : AllIDs) (s : Tx.St) (lo : Low) :
    beginX A (img s lo) =
      if s.obsolete then .ret (img (opBegin s).1 lo.acquire) .none else .exc (img s lo) ⟨.assertionError, 0⟩ := by
  unfold beginX beginProg begin_nlocals opBegin
  cases h : s.obsolete <;> txrun
  simp [Low.acquire]
end SqlObjVerif.Tx
