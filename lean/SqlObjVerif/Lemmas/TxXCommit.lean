import SqlObjVerif.Lemmas.TxXLoop
/-!
Symbolic execution of the TRANSLATED `Transaction.commit`: `self._deletedCache` / `self._updatedCache` as a Lean list of
(class, ids) entries (`delL`, `encDel_eq`, `mem_dKeys_delL`), the two list comprehensions (`commit_comp1/2`),
`subCaches.extend(…)`, the nested loops by induction over the collected list (`commit_inner`, `commit_outer`: they
compute `expireKeys` on the PARENT connection), `expireKeys_eq` + `AllIDsSpec` turn that into the hand model's
`commitExpire` (`commitKeys_spec`: the keys walked are exactly `St.reached`), `_makeObsolete` when `close`.
-/
set_option linter.unusedSimpArgs false
namespace SqlObjVerif.Tx
open SqlObjVerif.PyTx
open SqlObjVerif.PyTx.Extracted

/-- a dict class ↦ list of ids as a Lean list, insertion order -/
abbrev D := List (Nat × List Nat)

def encIds (is : List Nat) : PVal := Val.ofList (is.map Val.int)
def encEntry (e : Nat × List Nat) : PVal := .pair (.int e.1) (encIds e.2)
def encD (d : D) : PVal := Val.ofList (d.map encEntry)

def dGet (c : Nat) : D → Option (List Nat)
  | [] => none
  | e :: t => if e.1 = c then some e.2 else dGet c t

def dSet (c : Nat) (is : List Nat) : D → D
  | [] => [(c, is)]
  | e :: t => if e.1 = c then (c, is) :: t else e :: dSet c is t

def dAdd (d : D) (k : Key) : D :=
  match dGet (clsOf k) d with
  | some is => dSet (clsOf k) (is ++ [idOf k]) d
  | none => dSet (clsOf k) [idOf k] d

/-- the model's deleted log (newest first) as the dict `_SO_delete` builds -/
def delL : List Key → D
  | [] => []
  | k :: l => dAdd (delL l) k

theorem vdGet_encD (c : Nat) (d : D) : vdGet (.int c) (encD d) = (dGet c d).map encIds := by
  induction d with
  | nil => rfl
  | cons e t ih =>
    simp only [encD, List.map_cons, Val.ofList, encEntry, vdGet, dGet] at ih ⊢
    by_cases h : e.1 = c
    · simp [h]
    · simp [h, ih]

theorem vdSet_encD (c : Nat) (is : List Nat) (d : D) : vdSet (.int c) (encIds is) (encD d) = encD (dSet c is d) := by
  induction d with
  | nil => rfl
  | cons e t ih =>
    simp only [encD, List.map_cons, Val.ofList, encEntry, vdSet, dSet] at ih ⊢
    by_cases h : e.1 = c
    · simp [h, Val.ofList, encEntry]
    · simp [h, ih, Val.ofList, encEntry]

theorem vlSnoc_encIds (i : Nat) (is : List Nat) : vlSnoc (.int i) (encIds is) = encIds (is ++ [i]) := by
  induction is with
  | nil => rfl
  | cons a t ih =>
    simp only [encIds, List.map_cons, Val.ofList, vlSnoc, List.cons_append] at ih ⊢
    rw [ih]

theorem encDel_eq (l : List Key) : encDel l = encD (delL l) := by
  induction l with
  | nil => rfl
  | cons k l ih =>
    simp only [encDel, delAdd, delL, dAdd, ih, vdGet_encD]
    cases dGet (clsOf k) (delL l) with
    | none =>
      simp only [Option.map_none]
      exact vdSet_encD _ [idOf k] _
    | some is =>
      simp only [Option.map_some, vlSnoc_encIds, vdSet_encD]

def dKeys (d : D) : List Key := d.flatMap fun e => e.2.map (mkKey e.1)

theorem mem_dKeys_dSet_some (c i : Nat) (d : D) (x : Key) : ∀ is, dGet c d = some is →
    (x ∈ dKeys (dSet c (is ++ [i]) d) ↔ x = mkKey c i ∨ x ∈ dKeys d) := by
  induction d with
  | nil => intro is h; simp [dGet] at h
  | cons e t ih =>
    intro is h
    by_cases he : e.1 = c
    · simp only [dGet, he, if_true, Option.some.injEq] at h
      subst h
      simp only [dSet, he, if_true, dKeys, List.flatMap_cons, List.mem_append, List.mem_map, List.map_append,
        List.map_cons, List.map_nil, List.mem_cons, List.not_mem_nil, or_false]
      constructor
      · rintro ((h | h) | h)
        · exact Or.inr (Or.inl h)
        · exact Or.inl h
        · exact Or.inr (Or.inr h)
      · rintro (h | h | h)
        · exact Or.inl (Or.inr h)
        · exact Or.inl (Or.inl h)
        · exact Or.inr h
    · simp only [dGet, he, if_false] at h
      have := ih is h
      simp only [dSet, he, if_false, dKeys, List.flatMap_cons, List.mem_append] at this ⊢
      rw [this]
      constructor
      · rintro (h | h | h)
        · exact Or.inr (Or.inl h)
        · exact Or.inl h
        · exact Or.inr (Or.inr h)
      · rintro (h | h | h)
        · exact Or.inr (Or.inl h)
        · exact Or.inl h
        · exact Or.inr (Or.inr h)

theorem mem_dKeys_dSet_none (c i : Nat) (d : D) (x : Key) : dGet c d = none →
    (x ∈ dKeys (dSet c [i] d) ↔ x = mkKey c i ∨ x ∈ dKeys d) := by
  induction d with
  | nil => intro _; simp [dSet, dKeys]
  | cons e t ih =>
    intro h
    by_cases he : e.1 = c
    · simp [dGet, he] at h
    · simp only [dGet, he, if_false] at h
      have := ih h
      simp only [dSet, he, if_false, dKeys, List.flatMap_cons, List.mem_append] at this ⊢
      rw [this]
      constructor
      · rintro (h | h | h)
        · exact Or.inr (Or.inl h)
        · exact Or.inl h
        · exact Or.inr (Or.inr h)
      · rintro (h | h | h)
        · exact Or.inr (Or.inl h)
        · exact Or.inl h
        · exact Or.inr (Or.inr h)

theorem mem_dKeys_delL (l : List Key) (x : Key) : x ∈ dKeys (delL l) ↔ x ∈ l := by
  induction l with
  | nil => simp [delL, dKeys]
  | cons k l ih =>
    simp only [delL, dAdd, List.mem_cons]
    cases h : dGet (clsOf k) (delL l) with
    | none => simp only; rw [mem_dKeys_dSet_none _ _ _ _ h, mkKey_clsOf_idOf, ih]
    | some is => simp only; rw [mem_dKeys_dSet_some _ _ _ _ is h, mkKey_clsOf_idOf, ih]


theorem vlAppend_encD (d1 d2 : D) : vlAppend (encD d2) (encD d1) = encD (d1 ++ d2) := by
  simp only [encD, vlAppend_ofList, List.map_append]

@[simp] theorem isListVal_encD (d : D) : isListVal (encD d) = true := isListVal_ofList _
@[simp] theorem toList_encD (d : D) : (encD d).toList = some (d.map encEntry) := toList_ofList _

/-- the per-class caches of the transaction and their `allIDs()`, as `commit` collects them -/
def subsD (A : AllIDs) (dc : Bool) (t : Conn) : D := (A.classes t).map fun c => (c, A.ids dc t c)

/-- `[(sub[0], sub[1].allIDs()) for sub in self.cache.allSubCachesByClassNames().items()]` -/
theorem commit_comp1 (A : AllIDs) (call) (x : XT) (env : Env) :
    Expr.eval (txIface A call) x env
      (.comp 2 (.items (.query (.selfAttr ["cache"]) "allSubCachesByClassNames" .nil))
        (.pair (.idx (.var 2) 0) (.query (.idx (.var 2) 1) "allIDs" .nil)))
    = .ok (encD (subsD A x.dc x.t)) := by
  simp [Expr.eval, Exprs.eval, txGetAttr, txQuery]
  rw [mapR_map_ok _ _ (fun c => encEntry (c, A.ids x.dc x.t c))]
  · simp [encD, subsD, List.map_map, Function.comp_def]
  · intro c _
    simp [Env.get_put_self, encEntry, encIds]

/-- `[(x[0], x[1]) for x in self._deletedCache.items()]` -/
theorem commit_comp2 (A : AllIDs) (call) (x : XT) (env : Env) (d : D) (hd : x.delv = encD d) :
    Expr.eval (txIface A call) x env
      (.comp 3 (.items (.selfAttr ["_deletedCache"])) (.pair (.idx (.var 3) 0) (.idx (.var 3) 1)))
    = .ok (encD d) := by
  simp [Expr.eval, txGetAttr, hd]
  rw [encD, mapR_map_ok _ _ encEntry]
  intro e _
  simp [Env.get_put_self, encEntry]

/-- the inner loop of `commit` for class `c`: `for id in list(ids): …` -/
theorem commit_inner (A : AllIDs) (c : Nat) (v0 v1 v2 v3 v5 : Option PVal) (is : List Nat) :
    ∀ (x : XT) (v6 v7 : Option PVal), ∃ v6' v7',
      forLoop (fun st a => commit_for1.exec (iface1 A) none (st.setVar 6 a)) (is.map Val.int)
        { w := x, vars := [v0, v1, v2, v3, some (.int c), v5, v6, v7] } =
      .norm { w := { x with p := expireKeys x.dc x.p (is.map (mkKey c)) },
              vars := [v0, v1, v2, v3, some (.int c), v5, v6', v7'] } := by
  induction is with
  | nil => intro x v6 v7; exact ⟨v6, v7, rfl⟩
  | cons i is ih =>
    intro x v6 v7
    simp only [List.map_cons, forLoop, expireKeys_cons]
    cases ht : x.p.tryGet x.dc (mkKey c i) with
    | none =>
      have : commit_for1.exec (iface1 A) none (St.setVar { w := x, vars := [v0, v1, v2, v3, some (.int c), v5, v6, v7] } 6 (Val.int i))
          = .norm { w := x, vars := [v0, v1, v2, v3, some (.int c), v5, some (.int i), some .none] } := by
        unfold commit_for1
        txrun2
        simp [txQuery, optInst, ht]
      rw [this]
      simp only [expireKey, ht]
      exact ih x _ _
    | some j =>
      have : commit_for1.exec (iface1 A) none (St.setVar { w := x, vars := [v0, v1, v2, v3, some (.int c), v5, v6, v7] } 6 (Val.int i))
          = .norm { w := { x with p := expireInst x.p j }, vars := [v0, v1, v2, v3, some (.int c), v5, some (.int i), some (.ref 5 j)] } := by
        unfold commit_for1
        txrun2
        simp [txQuery, optInst, ht]
      rw [this]
      simp only [expireKey, ht]
      exact ih { x with p := expireInst x.p j } _ _

/-- the outer loop of `commit`: `for cls, ids in subCaches: …` -/
theorem commit_outer (A : AllIDs) (v0 v1 v2 v3 : Option PVal) (d : D) :
    ∀ (x : XT) (v4 v5 v6 v7 : Option PVal), ∃ v4' v5' v6' v7',
      forLoop (pairBody fun st p q => commit_for0.exec (iface1 A) none ((st.setVar 4 p).setVar 5 q)) (d.map encEntry)
        { w := x, vars := [v0, v1, v2, v3, v4, v5, v6, v7] } =
      .norm { w := { x with p := expireKeys x.dc x.p (dKeys d) }, vars := [v0, v1, v2, v3, v4', v5', v6', v7'] } := by
  induction d with
  | nil => intro x v4 v5 v6 v7; exact ⟨v4, v5, v6, v7, rfl⟩
  | cons e d ih =>
    intro x v4 v5 v6 v7
    obtain ⟨a6, a7, hin⟩ := commit_inner A e.1 v0 v1 v2 v3 (some (encIds e.2)) e.2 x v6 v7
    have : commit_for0.exec (iface1 A) none
        (St.setVar (St.setVar { w := x, vars := [v0, v1, v2, v3, v4, v5, v6, v7] } 4 (.int e.1)) 5 (encIds e.2))
        = .norm { w := { x with p := expireKeys x.dc x.p (e.2.map (mkKey e.1)) },
                  vars := [v0, v1, v2, v3, some (.int e.1), some (encIds e.2), a6, a7] } := by
      unfold commit_for0
      simp only [St.setVar, encIds] at hin
      simp [Block.exec, Stmt.exec, Expr.eval, Env.get, St.setVar, encIds]
      rw [hin]
    simp only [List.map_cons, forLoop, encEntry, pairBody]
    rw [this]
    simp only [dKeys, List.flatMap_cons, expireKeys_append]
    exact ih _ _ _ _ _


/-- `commit_outer` in the form that applies to a loop found in a goal -/
theorem commit_outer' (A : AllIDs) {v0 v1 v2 v3 v4 v5 v6 v7 : Option PVal} {d : D} {x : XT} {r : Res XT}
    (hF : forLoop (pairBody fun st p q => commit_for0.exec (iface1 A) none ((st.setVar 4 p).setVar 5 q)) (d.map encEntry)
        { w := x, vars := [v0, v1, v2, v3, v4, v5, v6, v7] } = r) :
    ∃ v4' v5' v6' v7', r =
      .norm { w := { x with p := expireKeys x.dc x.p (dKeys d) }, vars := [v0, v1, v2, v3, v4', v5', v6', v7'] } := by
  obtain ⟨a4, a5, a6, a7, h⟩ := commit_outer A v0 v1 v2 v3 d x v4 v5 v6 v7
  exact ⟨a4, a5, a6, a7, hF ▸ h⟩

theorem dKeys_subsD (A : AllIDs) (dc : Bool) (t : Conn) : dKeys (subsD A dc t) = subKeys (A.ids dc t) (A.classes t) := by
  simp [dKeys, subsD, subKeys, List.flatMap_map]

theorem dKeys_append (d1 d2 : D) : dKeys (d1 ++ d2) = dKeys d1 ++ dKeys d2 := by
  simp [dKeys, List.flatMap_append]

/-- `[(x[0], x[1]) for x in self._updatedCache.items()]` -/
theorem commit_comp3 (A : AllIDs) (call) (x : XT) (env : Env) (d : D) (hd : x.updv = encD d) :
    Expr.eval (txIface A call) x env
      (.comp 3 (.items (.selfAttr ["_updatedCache"])) (.pair (.idx (.var 3) 0) (.idx (.var 3) 1)))
    = .ok (encD d) := by
  simp [Expr.eval, txGetAttr, hd]
  rw [encD, mapR_map_ok _ _ encEntry]
  intro e _
  simp [Env.get_put_self, encEntry]

/-- the keys `commit` walks are exactly the hand model's `reached` -/
theorem commitKeys_spec (A : AllIDs) (s : Tx.St) (hA : AllIDsSpec A s.dc s.t) (k : Key) :
    (dKeys ((subsD A s.dc s.t ++ delL s.del) ++ delL s.upd)).contains k = s.reached k := by
  rw [dKeys_append, dKeys_append, List.contains_eq_mem, dKeys_subsD]
  have h1 := subKeys_spec A s.dc s.t hA k
  have h2 := mem_dKeys_delL s.del k
  have h3 := mem_dKeys_delL s.upd k
  simp only [List.contains_eq_mem] at h1
  simp only [St.reached, List.mem_append, List.contains_eq_mem, ← h1]
  simp [h2, h3]

/-- like `txrun2`, but list comprehensions stay folded (the `commit_comp*` lemmas rewrite them) -/
macro "txrun3" : tactic => `(tactic|
  simp [PyTx.run, Block.exec, Stmt.exec, Cond.eval, eval_var, eval_const, eval_self, eval_selfAttr, eval_attrOf, eval_global,
        eval_query, eval_pair, eval_idx, eval_listOf, eval_items, eval_methodType, eval_emptyList, Exprs.eval,
        Env.get, St.setVar, St.setOpt, afterCall, Res.toCall, pyBool, zipKw, ExcPat.catches, txGetAttr, txSetAttr, txAttrOf,
        txCall0, txCall1, txCallFn, img, Val.isNone, isListVal, commit_comp1, vlAppend_encD, *])

theorem commitX_eq (A : AllIDs) (s : Tx.St) (hA : AllIDsSpec A s.dc s.t) (lo : Low) (close : Bool) (wf : ConnWF s.p) :
    commitX A (img s lo) close =
      .ret (img (opCommit s close).1 (if close && !s.obsolete then lo.release else lo)) .none := by
  unfold commitX commitProg commit_nlocals opCommit
  cases hob : s.obsolete
  · have hexp : expireKeys s.dc s.p (dKeys ((subsD A s.dc s.t ++ delL s.del) ++ delL s.upd)) = s.commitExpire := by
      rw [expireKeys_eq wf, commitExpire_eq]
      apply expireOn_congr
      intro k _
      exact commitKeys_spec A s hA k
    have hmo := makeObsoleteX_eq A { s with db := s.view .T, ws := fun _ => none, lock := false, p := s.commitExpire, upd := [] } lo hob
    have hnil : encD (delL []) = Val.nil := rfl
    simp [img, hob, encDel_eq, view_T_eq, hnil] at hmo
    rw [List.append_assoc] at hexp
    have hc2 := fun call x env => commit_comp2 A call x env (delL s.del)
    have hc3 := fun call x env => commit_comp3 A call x env (delL s.upd)
    cases hdb : lo.debug <;> cases close
    all_goals
      simp [PyTx.run, Block.exec, Stmt.exec, Cond.eval, eval_var, eval_const, eval_self, eval_selfAttr, eval_attrOf, eval_global,
        eval_query, eval_pair, eval_idx, eval_listOf, eval_items, eval_methodType, eval_emptyList, Exprs.eval,
        Env.get, St.setVar, St.setOpt, afterCall, Res.toCall, pyBool, zipKw, ExcPat.catches, txGetAttr, txSetAttr, txAttrOf,
        txCall0, txCall1, txCallFn, img, Val.isNone, isListVal, commit_comp1, hc2, hc3, encDel_eq, XT.lowCommit, vlAppend_encD, hob, hdb]
      rw [← List.map_append, ← List.map_append]
      generalize hF : forLoop _ _ _ = r
      obtain ⟨a4, a5, a6, a7, rfl⟩ := commit_outer' A hF
      clear hF
      simp [hexp, hmo, viewT_eq, view_T_eq, hnil]
  · txrun2

end SqlObjVerif.Tx
