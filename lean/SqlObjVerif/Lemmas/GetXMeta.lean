import SqlObjVerif.Lemmas.GetXOrder
set_option linter.unusedSimpArgs false
namespace SqlObjVerif.Cache
open SqlObjVerif.PyGet
open SqlObjVerif.PyGet.Extracted

/-- between calls, class `c`'s factory holding nothing strongly -/
structure QuietC (w : GW) (c : Cls) : Prop where
  wf : w.WF
  lock : w.lock c = false
  wlock : ∀ h, w.wlock h = false
  nostrong : (w.s.fac c).strong = []

theorem quietC_expire {w : GW} {c : Cls} (q : QuietC w c) (h : Handle) :
    QuietC { w with s := expireOne w.s h, dirty := upd w.dirty h false } c := by
  refine ⟨?_, q.lock, q.wlock, ?_⟩
  · intro c' hc
    refine ⟨?_, (q.wf c' hc).2⟩
    show (expireOne w.s h).fac c' = emptyFactory
    rw [expireOne_fac]
    split
    · simp [(q.wf c' hc).1, emptyFactory, aerase]
    · exact (q.wf c' hc).1
  · show ((expireOne w.s h).fac c).strong = []
    rw [expireOne_fac]
    split
    · simp [q.nostrong, aerase]
    · exact q.nostrong

theorem expireCall_quietC {w : GW} {c : Cls} (q : QuietC w c) (h : Handle) (hc : (w.s.obj h).cls = c) :
    expireCall w h = .ret { w with s := expireOne w.s h, dirty := upd w.dirty h false } .none := by
  have := expireG_eq w h q.wf (by rw [hc]; exact q.lock) (q.wlock h) (fun _ => by rw [hc]; exact q.nostrong)
    (by intro e he; rw [hc, q.nostrong] at he; cases he)
  unfold expireG at this
  unfold expireCall
  rw [this]
  rfl

theorem expireFold_quietC (hs : List Handle) {w : GW} {c : Cls} (q : QuietC w c)
    (hcls : ∀ h ∈ hs, (w.s.obj h).cls = c) :
    expireFold hs w = .ret { w with s := hs.foldl expireOne w.s,
                                    dirty := hs.foldl (fun d h => upd d h false) w.dirty } .none := by
  induction hs generalizing w with
  | nil => rfl
  | cons h hs ih =>
    simp only [expireFold, expireCall_quietC q h (hcls h (by simp)), List.foldl_cons]
    apply ih (quietC_expire q h)
    intro h' hh'
    show ((expireOne w.s h).obj h').cls = c
    rw [expireOne_obj]
    split
    · rename_i e; subst e; exact hcls h' (by simp)
    · exact hcls h' (by simp [hh'])

theorem soIface_truthy_none (v : Val) (ext) (w : GW) : pyBool (soIface v ext) w .none = some false := rfl

/-- `cls.sqlmeta.expireAll(connection)`: `cache.weakrefAll(cls)` = that class's `CacheFactory.expireAll()`
    (`weakrefOne`), then `item.expire()` = the model's `expireOne` for every instance `cache.getAll(cls)` lists.
    `hcls` — the "class of a cached object" hypothesis: what class `c`'s factory refers to is an instance of class `c`
    (part of the invariant `CInv`) -/
theorem metaExpireAllG_eq (w : GW) (c : Cls) (conn : Val) (hconn : conn = .none ∨ conn = Vconn)
    (hwf : w.WF) (hl : w.lock c = false) (hwl : ∀ h, w.wlock h = false)
    (hrel : ∀ e ∈ (w.s.fac c).strong, relOf w.s e.2 = false)
    (hnc : w.s.cfg.doCache = false → (w.s.fac c).strong = [])
    (hcls : ∀ e, Ent w.s c e → (w.s.obj e.2).cls = c) :
    metaExpireAllG w c conn =
      let W1 : GW := if c ∈ w.made then { w with s := weakrefOne w.s c } else w
      let items := if c ∈ w.made then facObjs W1 c else []
      .ret { W1 with s := items.foldl expireOne W1.s, dirty := items.foldl (fun d h => upd d h false) w.dirty } .none := by
  have h1 := csWeakrefAll_cls w c hl hrel
  by_cases hc : c ∈ w.made
  · simp only [hc, if_true] at h1 ⊢
    have h2 := csGetAll_cls { w with s := weakrefOne w.s c } c
    simp only [hc, if_true] at h2
    have hobj : (weakrefOne w.s c).obj = w.s.obj := by unfold weakrefOne; split <;> rfl
    have q : QuietC { w with s := weakrefOne w.s c } c := by
      refine ⟨?_, hl, hwl, ?_⟩
      · intro c' hc'
        have hne : c' ≠ c := fun e => hc' (e ▸ hc)
        refine ⟨?_, (hwf c' hc').2⟩
        show (weakrefOne w.s c).fac c' = emptyFactory
        unfold weakrefOne
        split
        · simp [setFac, upd, hne, (hwf c' hc').1]
        · exact (hwf c' hc').1
      · show ((weakrefOne w.s c).fac c).strong = []
        unfold weakrefOne
        cases hd : w.s.cfg.doCache with
        | true => simp [setFac, upd, wk]
        | false => simpa using hnc hd
    have hitems : ∀ h ∈ facObjs { w with s := weakrefOne w.s c } c, (({ w with s := weakrefOne w.s c } : GW).s.obj h).cls = c := by
      intro h hh
      show ((weakrefOne w.s c).obj h).cls = c
      rw [hobj]
      have : ∃ k, Ent w.s c (k, h) := by
        simp only [facObjs, List.mem_append, List.mem_map, List.mem_filter] at hh
        have hsub : ∀ e, e ∈ ((weakrefOne w.s c).fac c).strong ∨ e ∈ ((weakrefOne w.s c).fac c).weak → Ent w.s c e := by
          intro e he
          unfold weakrefOne at he
          split at he
          · simp only [setFac, upd, if_true, wk] at he
            rcases he with he | he
            · cases he
            · rcases mem_asetAll_sound _ _ _ he with a | a
              · exact Or.inr a
              · exact Or.inl a
          · exact he
        rcases hh with hh | ⟨e, ⟨he, _⟩, rfl⟩
        · split at hh
          · obtain ⟨e, he, rfl⟩ := List.mem_map.1 hh
            exact ⟨e.1, hsub e (Or.inl he)⟩
          · cases hh
        · exact ⟨e.1, hsub e (Or.inr he)⟩
      obtain ⟨k, hk⟩ := this
      exact hcls (k, h) hk
    have h3 := loop_expire (soIface (.ref "sqlmeta" c) (ext3 (fun _ _ => .stuck)))
      (by intro w h; simp [soIface, soCall, ext3])
      3 (facObjs { w with s := weakrefOne w.s c } c) { w with s := weakrefOne w.s c }
      [some Vconn, some (.cls c), some VcacheSet, none,
       some (Val.ofList ((facObjs { w with s := weakrefOne w.s c } c).map Val.obj))]
      (by simp)
    rw [expireFold_quietC _ q hitems] at h3
    obtain ⟨vars', h3⟩ := h3
    rw [← show metaExpireAll_loop0 = Block.cons (.call none (.var 3) "expire" [] [] []) .nil from rfl] at h3
    simp only [St.setVar, VcacheSet, Vconn] at h3
    unfold metaExpireAllG metaExpireAllProg metaExpireAll_nlocals
    rcases hconn with rfl | rfl <;> yrun
  · simp only [hc, if_false] at h1 ⊢
    have h2 := csGetAll_cls w c
    simp only [hc, if_false] at h2
    unfold metaExpireAllG metaExpireAllProg metaExpireAll_nlocals
    rcases hconn with rfl | rfl <;> yrun <;> simp [PyGet.forLoop, Val.toList]

end SqlObjVerif.Cache
