import SqlObjVerif.Lemmas.InhSelXSelectRun
import SqlObjVerif.Lemmas.InhSelXSelGen
import SqlObjVerif.Lemmas.InhSelXAll
/-!
The TRANSLATED `InheritableSQLObject.select` along the whole class chain (`selectN_deleg`, `selectN_eq`: for every clause
it ends in the translated constructor on the root class with the clause `selClauseR`), and against the hand model
(`select_model`: any clause under tables / meaning hypotheses; `select_filter_model`: the clause of a filter over own and
inherited columns and the id, no id comparison below a NOT).
-/
set_option linter.unusedSimpArgs false
namespace SqlObjVerif.InhSel
open SqlObjVerif.PyIS
open SqlObjVerif.PyIS.Extracted
open SqlObjVerif.Inherit hiding Val Res Cmp Out

/-- a delegated `select` climbs to the root class unchanged and ends in the translated constructor there -/
theorem selectN_deleg (X : SCtx) (h : X.T.WF) (n : Nat) (w : SW) (cl : SVal) (oc : Option Nat) : ∀ m c, c < m →
    selectN X n m w c cl (kwDeleg oc) = selFin X w (X.T.root c) cl oc := by
  intro m
  induction m with
  | zero => intro c hc; omega
  | succ m ih =>
    intro c hc
    simp only [selectN]
    cases hp : X.T.parent c with
    | none => rw [selectX_deleg_root X _ n w c cl oc hp, root_self h hp]
    | some p =>
      rw [selectX_deleg_parent X _ n w c p cl oc hp, ih p (by have := (h.lt c p hp).1; omega), root_cons h hp]

/-- the clause `cls.select(e)` hands to the constructor on the root class -/
def selClauseR (T : Tree) (c : Nat) (e : Sql) : Sql :=
  match T.parent c with
  | none => e
  | some p => if e = .tt then .kind p c else .and (patchSql c p e) (.kind p c)

/-- **`cls.select(e, connection=…)`, translated, for every clause**: patched by the translated nested functions,
    `AND parent.childName == cls`, delegated up the class chain, built by the translated constructor on the root -/
theorem selectN_eq (X : SCtx) (h : X.T.WF) (w : SW) (c : Nat) (e : Sql) (oc : Option Nat) :
    ∃ N, ∀ n, N ≤ n →
      selectN X n (c + 1) w c (.sql e) (opsOf oc) = selFin X w (X.T.root c) (.sql (selClauseR X.T c e)) oc := by
  cases hp : X.T.parent c with
  | none =>
    refine ⟨0, fun n _ => ?_⟩
    simp only [selectN, selClauseR, hp]
    rw [selectX_app_root X _ n w c _ oc hp, root_self h hp]
  | some p =>
    have hpc := (h.lt c p hp).1
    by_cases he : e = .tt
    · refine ⟨0, fun n _ => ?_⟩
      subst he
      simp only [selectN, selClauseR, hp, if_true]
      rw [selectX_app_true X _ n w c p _ oc hp (Or.inr (Or.inl rfl)), selectN_deleg X h n w _ oc c p hpc, root_cons h hp]
    · obtain ⟨N, hN⟩ := patch_eq c p e
      refine ⟨N, fun n hn => ?_⟩
      simp only [selectN, selClauseR, hp, he, if_false]
      rw [selectX_app_clause X _ n w c p e oc hp he (hN n hn), selectN_deleg X h n w _ oc c p hpc, root_cons h hp]

/-- `cls.select()` / `cls.select(None)` / `'all'` -/
theorem selectN_all (X : SCtx) (h : X.T.WF) (w : SW) (c : Nat) (oc : Option Nat) (cl : SVal)
    (hcl : cl = .none ∨ cl = .str "all") (n : Nat) :
    selectN X n (c + 1) w c cl (opsOf oc) = selFin X w (X.T.root c) (.sql (selClauseR X.T c .tt)) oc := by
  cases hp : X.T.parent c with
  | none =>
    simp only [selectN, selClauseR, hp]
    rw [selectX_app_root X _ n w c _ oc hp, root_self h hp]
    simp only [selFin, selInitX_all X w c _ cl hcl]
  | some p =>
    have hpc := (h.lt c p hp).1
    simp only [selectN, selClauseR, hp, if_true]
    rw [selectX_app_true X _ n w c p _ oc hp (by rcases hcl with h | h <;> simp [h]),
      selectN_deleg X h n w _ oc c p hpc, root_cons h hp]


/-- **`cls.select(e)`, translated, against the hand model** — for ANY clause `e` whose final form `selClauseR` uses
    exactly the tables `selNeeded` of a filter `f` and means `kindOk ∧ f` on a joined row: the select object returned runs
    a query whose rows are exactly the ids `selectRow` selects, one row per id -/
theorem select_model (X : SCtx) (h : X.T.WF) (hreg : X.reg.Nodup) (w : SW) (c : Nat) (f : Filter) (e : Sql)
    (oc : Option Nat) (hregAll : ∀ a, a ∈ X.T.anc c → a ∈ X.reg) (hf : ∀ a, a ∈ f.classes → a ∈ X.T.anc c)
    (hu : ∀ x, x ∈ sqlTables (selClauseR X.T c e) ++ [X.T.root c] ↔ selNeeded X.T c f x = true)
    (hev : ∀ (db : DB) (i : Nat), sqlEval db (fun _ => i) (selClauseR X.T c e) = (kindOk X.T db c i && f.eval db i)) :
    ∃ g N, (∀ n, N ≤ n → selectN X n (c + 1) w c (.sql e) (opsOf oc) =
        .ret { w with made := some ⟨X.T.root c, g, oc.getD X.dflt⟩ } (.ref 10 0)) ∧
      ∀ db : DB,
        (∀ i, (∃ σ, Sat db (X.T.root c) g σ ∧ σ (X.T.root c) = i) ↔ (selectRow X.T db c f i).isSome = true) ∧
        (∀ σ σ', Sat db (X.T.root c) g σ → Sat db (X.T.root c) g σ' → σ (X.T.root c) = σ' (X.T.root c) →
          ∀ a, a ∈ sqlTables g ++ [X.T.root c] → σ a = σ' a) := by
  obtain ⟨g, hrun, hsem⟩ := selInit_select_gen X h hreg w c f (selClauseR X.T c e) oc hu hev hregAll hf
  obtain ⟨N, hN⟩ := selectN_eq X h w c e oc
  refine ⟨g, N, fun n hn => ?_, hsem⟩
  rw [hN n hn]
  simp only [selFin, hrun]

/-- an id comparison occurs in the filter -/
def hasId : Filter → Bool
  | .idc _ _ => true
  | .and f g => hasId f || hasId g
  | .or f g => hasId f || hasId g
  | .not f => hasId f
  | _ => false

/-- no id comparison below a NOT (`_patch_id_clause` does not look below an `SQLPrefix`) -/
def idOutsideNot : Filter → Bool
  | .and f g => idOutsideNot f && idOutsideNot g
  | .or f g => idOutsideNot f && idOutsideNot g
  | .not f => !hasId f
  | _ => true

theorem sqlOf_noId (t t' : Nat) : ∀ f : Filter, hasId f = false → sqlOf t f = sqlOf t' f := by
  intro f
  induction f with
  | tt => intro _; rfl
  | attr a k op v => intro _; rfl
  | idc op v => intro hh; simp [hasId] at hh
  | and f g ihf ihg =>
    intro hh; simp only [hasId, Bool.or_eq_false_iff] at hh; simp only [sqlOf, ihf hh.1, ihg hh.2]
  | or f g ihf ihg =>
    intro hh; simp only [hasId, Bool.or_eq_false_iff] at hh; simp only [sqlOf, ihf hh.1, ihg hh.2]
  | not f ih => intro hh; simp only [hasId] at hh; simp only [sqlOf, ih hh]

theorem patch_sqlOf (c p : Nat) : ∀ f : Filter, idOutsideNot f = true → patchSql c p (sqlOf c f) = sqlOf p f := by
  intro f
  induction f with
  | tt => intro _; rfl
  | attr a k op v => intro _; rfl
  | idc op v => intro _; simp [sqlOf, patchSql]
  | and f g ihf ihg =>
    intro hh; simp only [idOutsideNot, Bool.and_eq_true] at hh; simp only [sqlOf, patchSql, ihf hh.1, ihg hh.2]
  | or f g ihf ihg =>
    intro hh; simp only [idOutsideNot, Bool.and_eq_true] at hh; simp only [sqlOf, patchSql, ihf hh.1, ihg hh.2]
  | not f _ =>
    intro hh
    simp only [idOutsideNot, Bool.not_eq_true'] at hh
    simp only [sqlOf, patchSql, sqlOf_noId c p f hh]

theorem sqlOf_eq_tt (t : Nat) (f : Filter) : sqlOf t f = .tt ↔ f = .tt := by
  cases f <;> simp [sqlOf]

/-- **`cls.select(<filter f over own and inherited columns and the id>)`, translated = the hand model's `selectRow`** -/
theorem select_filter_model (X : SCtx) (h : X.T.WF) (hreg : X.reg.Nodup) (w : SW) (c : Nat) (f : Filter)
    (oc : Option Nat) (hregAll : ∀ a, a ∈ X.T.anc c → a ∈ X.reg) (hf : ∀ a, a ∈ f.classes → a ∈ X.T.anc c)
    (hid : idOutsideNot f = true) :
    ∃ g N, (∀ n, N ≤ n → selectN X n (c + 1) w c (.sql (sqlOf c f)) (opsOf oc) =
        .ret { w with made := some ⟨X.T.root c, g, oc.getD X.dflt⟩ } (.ref 10 0)) ∧
      ∀ db : DB,
        (∀ i, (∃ σ, Sat db (X.T.root c) g σ ∧ σ (X.T.root c) = i) ↔ (selectRow X.T db c f i).isSome = true) ∧
        (∀ σ σ', Sat db (X.T.root c) g σ → Sat db (X.T.root c) g σ' → σ (X.T.root c) = σ' (X.T.root c) →
          ∀ a, a ∈ sqlTables g ++ [X.T.root c] → σ a = σ' a) := by
  apply select_model X h hreg w c f (sqlOf c f) oc hregAll hf
  · intro x
    cases hp : X.T.parent c with
    | none =>
      have := used_iff_needed h c f x
      simpa [selClauseR, selClause, hp] using this
    | some p =>
      by_cases hft : f = .tt
      · subst hft
        simp only [selClauseR, hp, sqlOf, if_true, sqlTables, List.mem_append, List.mem_singleton, selNeeded,
          Filter.classes, Bool.or_eq_true, beq_iff_eq, List.contains_iff_mem, List.not_mem_nil, or_false,
          Option.some.injEq]
        constructor
        · rintro (hx | hx)
          · exact Or.inr hx.symm
          · exact Or.inl hx
        · rintro (hx | hx)
          · exact Or.inr hx
          · exact Or.inl hx.symm
      · have hne : sqlOf c f ≠ .tt := fun e => hft ((sqlOf_eq_tt c f).1 e)
        have := used_iff_needed h c f x
        simpa [selClauseR, selClause, hp, hne, patch_sqlOf c p f hid] using this
  · intro db i
    cases hp : X.T.parent c with
    | none =>
      have := eval_selClause X.T db c i f
      simpa [selClauseR, selClause, hp] using this
    | some p =>
      by_cases hft : f = .tt
      · subst hft
        simp [selClauseR, hp, sqlOf, sqlEval, kindIs_kindOk X.T db c p i hp, Filter.eval]
      · have hne : sqlOf c f ≠ .tt := fun e => hft ((sqlOf_eq_tt c f).1 e)
        have := eval_selClause X.T db c i f
        simpa [selClauseR, selClause, hp, hne, patch_sqlOf c p f hid] using this

end SqlObjVerif.InhSel
