import SqlObjVerif.Lemmas.OrmValXSetN
/-!
`set(**kw)` for ANY keyword list with distinct column names: the translated method = `opSet`
(lazy and eager branch, any mix of valid / rejected values, the refused UPDATE); and a keyword list with a
name that is not a column: `TypeError`, nothing changed (`setX_badcol`).
-/
namespace SqlObjVerif.OrmVal
open SqlObjVerif.PyMain
open SqlObjVerif.PyMain.Extracted

/-- `dict(items)` of items with distinct keys -/
theorem dupdate_append_of_disjoint {α : Type} (l d : List (Nat × α)) (hl : (l.map (·.1)).Nodup)
    (hd : ∀ k ∈ l.map (·.1), k ∉ d.map (·.1)) : dupdate l d = d ++ l := by
  induction l generalizing d with
  | nil => simp [dupdate]
  | cons x l ih =>
    simp only [List.map_cons, List.nodup_cons] at hl
    rw [dupdate_cons, dset_not_mem _ _ _ (hd x.1 (by simp)), ih _ hl.2]
    · simp
    · intro k hk
      simp only [List.map_append, List.map_cons, List.map_nil, List.mem_append, List.mem_singleton, not_or]
      exact ⟨hd k (by simp [hk]), fun e => hl.1 (e ▸ hk)⟩

theorem dictOf_nodup {α : Type} (l : List (Nat × α)) (hl : (l.map (·.1)).Nodup) : dictOf l = l := by
  unfold dictOf
  rw [dupdate_append_of_disjoint l [] hl (by simp)]
  simp

@[simp] theorem dictOf_nil' {α : Type} : dictOf ([] : List (Nat × α)) = [] := rfl

theorem filter_fst_none {α β : Type} (l : List α) (p : α → Bool) (g : α → β) (h : ∀ x ∈ l, p x = false) :
    List.filter (fun x => x.1) (l.map fun x => (p x, g x)) = [] := by
  rw [List.filter_eq_nil_iff]
  intro a ha
  simp only [List.mem_map] at ha
  obtain ⟨x, hx, rfl⟩ := ha
  simp [h x hx]

theorem filter_fst_all {α β : Type} (l : List α) (p : α → Bool) (g : α → β) (h : ∀ x ∈ l, p x = true) :
    List.filter (fun x => x.1) (l.map fun x => (p x, g x)) = l.map fun x => (p x, g x) := by
  rw [List.filter_eq_self]
  intro a ha
  simp only [List.mem_map] at ha
  obtain ⟨x, hx, rfl⟩ := ha
  simp [h x hx]

theorem encE_klassOf (cfg : Cfg) (i : Iface) (cls : Cls) (hi : i.Ok cfg cls) (c : Nat) (v : CVal) :
    encE (klassOf cfg i cls) c v = cfg.enc cls c v := by
  unfold encE klassOf
  cases hf : i.hasFrom c
  · simp [hi.enc c v hf]
  · simp [hf]

/-- what the object shows for the keywords -/
def shC (cfg : Cfg) (cls : Cls) (kvs : List (Col × Inp)) : Pend :=
  (dbC (cfg.enc cls) kvs).map fun e => (e.1, cfg.dec cls e.1 e.2)

theorem dbPV_map_ok (cfg : Cfg) (i : Iface) (cls : Cls) (hi : i.Ok cfg cls) (kvs : List (Col × Inp))
    (hok : ∀ e ∈ kvs, e.2 ≠ .bad) :
    (kvs.map fun e => (e.1, dbPV (klassOf cfg i cls) e)) = (dbC (cfg.enc cls) kvs).map fun e => (e.1, ofVal e.2) := by
  unfold dbC
  rw [List.map_map]
  apply List.map_congr_left
  intro e he
  obtain ⟨k, inp⟩ := e
  cases inp with
  | bad => exact absurd rfl (hok _ he)
  | ok v => simp [dbPV, encE_klassOf cfg i cls hi]

theorem shownPV_map_ok (cfg : Cfg) (i : Iface) (cls : Cls) (hi : i.Ok cfg cls) (kvs : List (Col × Inp))
    (hok : ∀ e ∈ kvs, e.2 ≠ .bad) :
    (kvs.map fun e => (e.1, shownPV (klassOf cfg i cls) e)) = (shC cfg cls kvs).map fun e => (e.1, ofVal e.2) := by
  unfold shC dbC
  rw [List.map_map, List.map_map]
  apply List.map_congr_left
  intro e he
  obtain ⟨k, inp⟩ := e
  cases inp with
  | bad => exact absurd rfl (hok _ he)
  | ok v => simp [shownPV, encE_klassOf cfg i cls hi, decE_klassOf cfg i cls hi]

theorem shC_keys (cfg : Cfg) (cls : Cls) (kvs : List (Col × Inp)) : (shC cfg cls kvs).map (·.1) = kvs.map (·.1) := by
  simp [shC, dbC, Function.comp_def]

/-- caching the shown values = `cacheAll` of the validated (sorted) database-side values -/
theorem putVals_cacheAll (cfg : Cfg) (cls : Cls) (kvs : List (Col × Inp)) (cached : Col → Option Val)
    (hnd : (kvs.map (·.1)).Nodup) :
    putVals (shC cfg cls kvs) cached = cacheAll (cfg.dec cls) cached (sortByKey (dbC (cfg.enc cls) kvs)) := by
  funext c
  unfold putVals cacheAll shC
  rw [plookup_sortByKey c _ (by rw [dbC_keys]; exact hnd), dget_map_val (fun k x => cfg.dec cls k x)]
  cases dget c (dbC (cfg.enc cls) kvs) <;> rfl

theorem setX_eq (cfg : Cfg) (i : Iface) (s : State) (h : Hnd) (o : Inst) (cv : Pend) (fail : Bool) (kvs : List (Col × Inp))
    (ho : s.objs h = some o) (hrep : Rep cv o.pending) (hcols : colsOk (cfg.ncols o.cls) kvs = true)
    (hkw : (kvs.map (·.1)).Nodup) (hi : i.Ok cfg o.cls) (hbad : ∀ e ∈ kvs, e.2 = .bad → i.hasFrom e.1 = true) :
    absUnit o.cls o.id h (setX o.cls o.id (cfg.ncols o.cls) h (absW cfg i s o cv fail) kvs) =
      some (opSet cfg s h kvs fail) := by
  obtain ⟨cls, id, cached, expired, dirty, pending, obsolete, inCache⟩ := o
  have hs := hrep.sorted
  have hnd := hrep.nodup
  simp only at hs hcols hi
  subst hs
  have hlt : ∀ e ∈ kvs, e.1 < cfg.ncols cls := by
    simpa [colsOk] using hcols
  have hkw0 : dictOf (kvs.map fun e => (e.1, pvOfInp e.2)) = kvs.map fun e => (e.1, pvOfInp e.2) :=
    dictOf_nodup _ (by simpa [Function.comp_def] using hkw)
  have hf1 := filter_fst_none kvs (fun x => !Nat.blt x.fst (cfg.ncols cls)) (fun x => (PV.name x.fst).pair (pvOfInp x.snd))
    (fun x hx => by simp [Nat.blt_eq, hlt x hx])
  have hf2 := filter_fst_all kvs (fun x => Nat.blt x.fst (cfg.ncols cls)) (fun x => (PV.name x.fst).pair (pvOfInp x.snd))
    (fun x hx => by simp [Nat.blt_eq, hlt x hx])
  unfold setX setProg set_nlocals set_nlists set_ndicts opSet
  have hsame : ∀ c, (klassOf cfg i cls).hasFrom c = (klassOf cfg i cls).hasTo c := hi.same
  have hbad' : ∀ e ∈ kvs, e.2 = .bad → (klassOf cfg i cls).hasFrom e.1 = true := hbad
  cases hlz : cfg.lazyUpdate cls
  · pymwith [ho, hcols, hf1, hf2, hkw0, hlz]
    simp only [Function.comp_def]
    generalize hF : forLoop _ _ _ = r
    rcases set_for4_loop hF hkw (by simpa [klassOf, hlz] using hsame) (by simpa [klassOf, hlz] using hbad') with
      ⟨b3, b4, b5, b6, b7, hok, rfl⟩ | ⟨st', rfl, hw, hb⟩
    · clear hF
      simp only [setSt]
      have hdb := dbPV_map_ok cfg i cls hi kvs hok
      have hsh := shownPV_map_ok cfg i cls hi kvs hok
      simp only [klassOf, hlz] at hdb hsh
      have hPk : ((dbC (cfg.enc cls) kvs).map (·.1)).Nodup := by rw [dbC_keys]; exact hkw
      have hPlt : ∀ x ∈ dbC (cfg.enc cls) kvs, x.1 < cfg.ncols cls := by
        intro x hx
        simp only [dbC, List.mem_map] at hx
        obtain ⟨e, he, rfl⟩ := hx
        exact hlt e he
      have hval := validate_ok (cfg.enc cls) kvs hok hkw
      have hcache := putVals_cacheAll cfg cls kvs cached hkw
      by_cases hP : dbC (cfg.enc cls) kvs = []
      · have hk : kvs = [] := by simpa [dbC] using hP
        subst hk
        cases hcv : cfg.cacheValues cls <;> pymwith [ho, hlz, hcv, dbC, shC, colsOk, validate] <;>
          simp [absUnit, conc, instOf, ho]
        all_goals exact setObj_self _ _ _ ho
      · have hS : sortByKey (dbC (cfg.enc cls) kvs) ≠ [] := by rw [Ne, sortByKey_eq_nil]; exact hP
        pymwith [ho, hcols, hlz, hdb, hsh, hP]
        generalize hM : mapR _ (dbC (cfg.enc cls) kvs) = m
        have hm := mapR_ok_of hM (fun e => (e.1, PV.pair (.name e.1) (ofVal e.2))) (by
          intro x hx
          simp [hPlt x hx])
        subst hm
        clear hM
        simp only [R.bind_ok, sortByKey_map, List.map_map]
        pymwith [ho, hcols, hlz, hP]
        generalize hM : mapR _ (sortByKey (dbC (cfg.enc cls) kvs)) = m
        have hm := mapR_ok_of hM (fun e => PV.pair (.dbName e.1) (ofVal e.2)) (by
          intro x hx
          simp [hPlt x ((mem_sortByKey _ _).mp hx)])
        subst hm
        clear hM
        cases fail
        · cases hcv : cfg.cacheValues cls
          · pymwith [ho, hcols, hlz, hP, hcv]
            simp [absUnit, conc, instOf, sendUpdate, hval, hS]
            exact setObj_self _ _ _ (by simpa using ho)
          · pymwith [ho, hcols, hlz, hP, hcv]
            simp only [Function.comp_def]
            generalize hF : forLoop _ _ _ = r
            obtain ⟨c3, c4, rfl⟩ := set_cache_loop hF rfl (by rw [shC_keys]; exact hkw)
            clear hF
            simp only [setSt, withVals]
            pymwith [ho, hcols, hlz, hcv]
            simp [absUnit, conc, instOf, sendUpdate, hval, hS, hcache]
        · pymwith [ho, hcols, hlz, hP]
          simp [absUnit, conc, instOf, excOut, sendUpdate, hval, hS]
          exact setObj_self _ _ _ (by simpa using ho)
    · clear hF
      pymwith [ho, hcols, hlz, hw, validate_bad _ _ hb]
      simp [absUnit, conc, instOf, excOut]
      exact setObj_self _ _ _ ho
  · pymwith [ho, hcols, hf1, hf2, hkw0, hlz]
    simp only [Function.comp_def]
    generalize hF : forLoop _ _ _ = r
    rcases set_for0_loop hF hkw (by simpa [klassOf, hlz] using hsame) (by simpa [klassOf, hlz] using hbad') with
      ⟨b3, b4, b5, b6, b7, hok, rfl⟩ | ⟨st', rfl, hw, hb⟩
    · clear hF
      simp only [setSt]
      have hdb := dbPV_map_ok cfg i cls hi kvs hok
      have hsh := shownPV_map_ok cfg i cls hi kvs hok
      simp only [klassOf, hlz] at hdb hsh
      pymwith [ho, hcols, hlz, hdb, hsh]
      simp only [Function.comp_def]
      generalize hF : forLoop _ _ _ = r
      obtain ⟨c3, c4, rfl⟩ := set_cache_loop hF rfl (by rw [shC_keys]; exact hkw)
      clear hF
      simp only [setSt, withVals]
      pymwith [ho, hcols, hlz, dupdate_map_ofVal]
      have hPk : ((dbC (cfg.enc cls) kvs).map (·.1)).Nodup := by rw [dbC_keys]; exact hkw
      have hval := validate_ok (cfg.enc cls) kvs hok hkw
      have hpend := sortByKey_dupdate (dbC (cfg.enc cls) kvs) cv hPk hnd
      have hcache := putVals_cacheAll cfg cls kvs cached hkw
      by_cases hP : dbC (cfg.enc cls) kvs = []
      · rw [hP] at hval hpend hcache
        simp [hP, absUnit, conc, instOf, hval, hcache]
        rfl
      · have hS : sortByKey (dbC (cfg.enc cls) kvs) ≠ [] := by rw [Ne, sortByKey_eq_nil]; exact hP
        simp [hP, hS, absUnit, conc, instOf, hval, hpend, hcache]
    · clear hF
      pymwith [ho, hcols, hlz, hw, validate_bad _ _ hb]
      simp [absUnit, conc, instOf, excOut]
      exact setObj_self _ _ _ ho

/-! ### a keyword that is not a column: `TypeError` before anything is changed -/

theorem filter_fst_map {α β : Type} (l : List α) (p : α → Bool) (g : α → β) :
    List.filter (fun x => x.1) (l.map fun x => (p x, g x)) = (l.filter p).map fun x => (p x, g x) := by
  induction l with
  | nil => rfl
  | cons a l ih =>
    simp only [List.map_cons, List.filter_cons]
    cases hp : p a <;> simp [ih, hp]

theorem nodup_keys_filter {α : Type} (l : List (Nat × α)) (p : Nat × α → Bool) (h : (l.map (·.1)).Nodup) :
    ((l.filter p).map (·.1)).Nodup :=
  List.Nodup.sublist (List.Sublist.map _ List.filter_sublist) h

theorem setX_badcol (cfg : Cfg) (i : Iface) (s : State) (h : Hnd) (o : Inst) (cv : Pend) (fail : Bool) (kvs : List (Col × Inp))
    (ho : s.objs h = some o) (hrep : Rep cv o.pending) (hcols : colsOk (cfg.ncols o.cls) kvs = false)
    (hkw : (kvs.map (·.1)).Nodup) (hi : i.Ok cfg o.cls)
    (hok : ∀ e ∈ kvs, e.1 < cfg.ncols o.cls → e.2 ≠ .bad)
    (hattr : ∀ e ∈ kvs, cfg.ncols o.cls ≤ e.1 → i.classAttr e.1 = false) :
    absUnit o.cls o.id h (setX o.cls o.id (cfg.ncols o.cls) h (absW cfg i s o cv fail) kvs) =
      some (opSet cfg s h kvs fail) := by
  obtain ⟨cls, id, cached, expired, dirty, pending, obsolete, inCache⟩ := o
  have hs := hrep.sorted
  simp only at hs hcols hi hok hattr
  subst hs
  have hf1 := filter_fst_map kvs (fun x => !Nat.blt x.fst (cfg.ncols cls)) (fun x => (PV.name x.fst).pair (pvOfInp x.snd))
  have hf2 := filter_fst_map kvs (fun x => Nat.blt x.fst (cfg.ncols cls)) (fun x => (PV.name x.fst).pair (pvOfInp x.snd))
  -- the column keywords and the others
  have hk1nd := nodup_keys_filter kvs (fun x => Nat.blt x.fst (cfg.ncols cls)) hkw
  have hexnd := nodup_keys_filter kvs (fun x => !Nat.blt x.fst (cfg.ncols cls)) hkw
  have hk1ok : ∀ e ∈ List.filter (fun x => Nat.blt x.fst (cfg.ncols cls)) kvs, e.2 ≠ .bad := by
    intro e he
    simp only [List.mem_filter, Nat.blt_eq] at he
    exact hok e he.1 he.2
  have hexmem : ∀ e ∈ List.filter (fun x => !Nat.blt x.fst (cfg.ncols cls)) kvs, e ∈ kvs ∧ cfg.ncols cls ≤ e.1 := by
    intro e he
    simp only [List.mem_filter] at he
    refine ⟨he.1, ?_⟩
    have h2 : Nat.blt e.fst (cfg.ncols cls) = false := by simpa using he.2
    exact Nat.le_of_not_lt (fun hlt => by rw [← Nat.blt_eq, h2] at hlt; exact absurd hlt (by simp))
  have hexne : List.filter (fun x => !Nat.blt x.fst (cfg.ncols cls)) kvs ≠ [] := by
    intro hnil
    rw [List.filter_eq_nil_iff] at hnil
    have : colsOk (cfg.ncols cls) kvs = true := by
      simp only [colsOk, List.all_eq_true, decide_eq_true_eq]
      intro e he
      have := hnil e he
      simpa [Nat.blt_eq] using this
    rw [this] at hcols; exact absurd hcols (by simp)
  generalize List.filter (fun x => Nat.blt x.fst (cfg.ncols cls)) kvs = kw1 at hf2 hk1nd hk1ok
  generalize List.filter (fun x => !Nat.blt x.fst (cfg.ncols cls)) kvs = ex1 at hf1 hexnd hexmem hexne
  obtain ⟨x, xs, rfl⟩ : ∃ x xs, ex1 = x :: xs := by
    cases ex1 with
    | nil => exact absurd rfl hexne
    | cons x xs => exact ⟨x, xs, rfl⟩
  have hx := hexmem x (by simp)
  have hxattr := hattr x hx.1 hx.2
  have hxlt : Nat.blt x.1 (cfg.ncols cls) = false := by
    cases hb : Nat.blt x.1 (cfg.ncols cls)
    · rfl
    · rw [Nat.blt_eq] at hb; exact absurd hb (Nat.not_lt_of_ge hx.2)
  have hd1 := dictOf_nodup (kw1.map fun e => (e.1, pvOfInp e.2)) (by simpa [Function.comp_def] using hk1nd)
  have hd2 := dictOf_nodup ((x :: xs).map fun e => (e.1, pvOfInp e.2)) (by simpa [Function.comp_def] using hexnd)
  have hsame : ∀ c, (klassOf cfg i cls).hasFrom c = (klassOf cfg i cls).hasTo c := hi.same
  unfold setX setProg set_nlocals set_nlists set_ndicts opSet
  cases hlz : cfg.lazyUpdate cls
  · pymwith [ho, hcols, hf1, hf2, hlz]
    simp only [List.map_cons] at hd2
    pymwith [hd1, hd2]
    simp only [Function.comp_def]
    generalize hF : forLoop _ _ _ = r
    rcases set_for4_loop hF hk1nd (by simpa [klassOf, hlz] using hsame)
        (fun e he hb => absurd hb (hk1ok e he)) with
      ⟨b3, b4, b5, b6, b7, _, rfl⟩ | ⟨st', rfl, _, e, he, hb⟩
    · clear hF
      simp only [setSt]
      have hxn : ¬ x.1 < cfg.ncols cls := Nat.not_lt_of_ge hx.2
      pymwith [ho, hcols, hlz, set_for5, Klass.hasAttr, hxlt, hxattr, hxn]
      simp [absUnit, conc, instOf, excOut]
      exact setObj_self _ _ _ ho
    · exact absurd hb (hk1ok e he)
  · pymwith [ho, hcols, hf1, hf2, hlz]
    simp only [List.map_cons] at hd2
    pymwith [hd1, hd2]
    simp only [Function.comp_def]
    generalize hF : forLoop _ _ _ = r
    rcases set_for0_loop hF hk1nd (by simpa [klassOf, hlz] using hsame)
        (fun e he hb => absurd hb (hk1ok e he)) with
      ⟨b3, b4, b5, b6, b7, _, rfl⟩ | ⟨st', rfl, _, e, he, hb⟩
    · clear hF
      simp only [setSt]
      pymwith [ho, hcols, hlz, set_for1, Klass.hasAttr, hxlt, hxattr]
      simp [absUnit, conc, instOf, excOut]
      exact setObj_self _ _ _ ho
    · exact absurd hb (hk1ok e he)

end SqlObjVerif.OrmVal
