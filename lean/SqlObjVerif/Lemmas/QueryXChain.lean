import SqlObjVerif.Lemmas.QueryXRep
import SqlObjVerif.Lemmas.QueryXOps
import SqlObjVerif.Lemmas.QueryXAgg
/-!
# C11 — composed chains: the method calls resolved by the translated callees themselves

`cm1` (`_mungeOrderBy`, `_getConnection`), `cm2` (`__class__` = `__init__`), `cm3` (`clone`): `reversed()` / `distinct()`
→ `clone` → `__init__` build an object that represents `Sel.rev` / `Sel.dist` (`reversed_rep`, `distinct_rep`; invariant
`Good`).  `cmMany`, `cmOne`: `sum / min / max / avg` → `accumulateOne` → `accumulateMany` hand `accumulate` the text of
the item of `aggPlan` (`sum_plan_text`).
-/
namespace SqlObjVerif.QueryX
open SqlObjVerif.PyQ
open SqlObjVerif.PyQ.Extracted

section
variable (sr : Val → Str) (sch : Schema) (P : Params) (fnRec : String → List Val → List (Str × Val) → R Val)
  (cm0 : Val → String → List Val → List (Str × Val) → R Val) (cv : Val → List Val → R Val)

/-- level 1: `_mungeOrderBy` and `_getConnection` are the translated methods -/
def cm1 (recv : Val) (m : String) (args : List Val) (kw : List (Str × Val)) : R Val :=
  if m = "_mungeOrderBy" then
    match args, kw with
    | [a], [] => toR (mungeX (qIface sch P fnRec cm0 cv) recv a)
    | _, _ => .stuck
  else if m = "_getConnection" then
    match args, kw with
    | [], [] => toR (getConnectionX (qIface sch P fnRec cm0 cv) recv)
    | _, _ => .stuck
  else cm0 recv m args kw

/-- level 2: `self.__class__(sourceClass, clause, clauseTables, **ops)` runs the translated `__init__` -/
def cm2 (recv : Val) (m : String) (args : List Val) (kw : List (Str × Val)) : R Val :=
  if m = "__class__" then
    match args with
    | [sc, cl, ct] => construct (qIface sch P fnRec (cm1 sch P fnRec cm0 cv) cv) "SelectResults" srInit [sc, cl, ct, .dict kw]
    | _ => .stuck
  else cm1 sch P fnRec cm0 cv recv m args kw

/-- level 3: `clone(**newOps)` is the translated method -/
def cm3 (recv : Val) (m : String) (args : List Val) (kw : List (Str × Val)) : R Val :=
  if m = "clone" then
    match args with
    | [] => toR (cloneX (qIface sch P fnRec (cm2 sch P fnRec cm0 cv) cv) recv kw)
    | _ => .stuck
  else cm2 sch P fnRec cm0 cv recv m args kw

/-- `_mungeOrderBy` never calls a method of another object: its value does not depend on the resolver -/
theorem mungeX_indep (cm cm' : Val → String → List Val → List (Str × Val) → R Val) (c : String) (fs : List (String × Val))
    (hsc : aget "sourceClass" fs = some clsV) (a : Val) :
    mungeX (qIface sch P fnRec cm cv) (.obj c fs) a = mungeX (qIface sch P fnRec cm' cv) (.obj c fs) a := by
  cases a with
  | str s => rw [munge_str sch P fnRec cm cv c fs hsc s, munge_str sch P fnRec cm' cv c fs hsc s]
  | _ => unfold mungeX run mungeOrderBy mungeOrderBy_s0 mungeOrderBy_s1; pyq

theorem mungeIs_cm1 : MungeIs sch P fnRec (cm1 sch P fnRec cm0 cv) cv := by
  intro c fs a hsc
  simp only [cm1, if_true]
  rw [mungeX_indep sch P fnRec cv cm0 (cm1 sch P fnRec cm0 cv) c fs hsc a]

theorem toVal_notNoDefault (o : Query.OrderBy) : isGlobV "NoDefault" (OrderBy.toVal sch o) = false := by
  cases o with
  | none => rfl
  | one a => cases a with
    | str s => rfl
    | expr e => cases e <;> rfl
  | many k l => cases k <;> rfl

theorem opsDefault_present (d : List (Str × Val)) (o : Query.OrderBy) (h : aget kOrderBy d = some (OrderBy.toVal sch o)) :
    opsDefault sch d = d := by
  unfold opsDefault
  simp [h, toVal_notNoDefault]

theorem aget_initOps (d : List (Str × Val)) (o : Query.OrderBy) (k : Str) (h1 : kConnection ≠ k) (h2 : kDbOrderBy ≠ k)
    (h3 : kOrderBy ≠ k) : aget k (initOps sch d o) = aget k d := by
  unfold initOps
  rw [aget_opsConn _ _ h1, aget_aset_ne _ _ _ _ h2, aget_opsDefault _ _ _ h3]

theorem aget_adel_self (d : List (Str × Val)) (k : Str) : aget k (adel d k) = none := by
  unfold adel
  induction d with
  | nil => rfl
  | cons e d ih => by_cases h : e.1 = k <;> simp_all [aget, List.filter_cons]

theorem conn_initOps (d : List (Str × Val)) (o : Query.OrderBy) (h : truthyOpt d kConnection = false) :
    truthyOpt (initOps sch d o) kConnection = false := by
  unfold initOps opsConn truthyOpt at *
  split
  · rw [aget_adel_self]; rfl
  · rw [aget_aset_ne _ _ _ _ (by decide), aget_opsDefault _ _ _ (by decide)]; exact h

/-- the invariant of a `SelectResults` built by the translated constructor: it represents `s`, its `ops['dbOrderBy']` is
    the munged `ops['orderBy']`, no window, no explicit connection -/
structure Good (d : List (Str × Val)) (s : Query.Sel) (o : Query.OrderBy) : Prop where
  rep : Rep sr sch (clauseV sr sch s.clause) d s
  ob : aget kOrderBy d = some (OrderBy.toVal sch o)
  ord : s.order = Query.mungeAll sch o
  lim : truthyOpt d kLimit = false
  conn : truthyOpt d kConnection = false

/-- **`clone(k=v)`** through the translated `clone`, `__class__` = the translated `__init__`, `_mungeOrderBy`,
    `_getConnection`: the new object, for an `ops` update that leaves an order key `o'` in place -/
theorem clone1 (dbn : Val) (hdb : ∀ cm, attrOf (qIface sch P fnRec cm cv) P.conn "dbName" = .ok dbn)
    (e : Query.Expr) (ct ts : Val) (hct : truthy ct = false) (d : List (Str × Val)) (k : Str) (v : Val) (o' : Query.OrderBy)
    (ho : aget kOrderBy (aset d k v) = some (OrderBy.toVal sch o'))
    (hl : truthyOpt (aset d k v) kLimit = false) (hc : truthyOpt (aset d k v) kConnection = false) :
    cm3 sch P fnRec cm0 cv (srObj clsV (clauseV sr sch e) (.dict d) ct ts) "clone" [] [(k, v)] =
      .ok (srObj clsV (clauseV sr sch e) (.dict (initOps sch (aset d k v) o')) ct
        (.list (P.listOf (.obj "set" (P.tablesUsed (clauseV sr sch e) dbn)) ++ [.str sch.table]))) := by
  simp only [cm3, if_true]
  rw [clone_translated]
  have hu : aupdate d [(k, v)] = aset d k v := rfl
  rw [hu]
  have hod := opsDefault_present sch (aset d k v) o' ho
  have hinit := init_translated sr sch P fnRec (cm1 sch P fnRec cm0 cv) cv (mungeIs_cm1 sch P fnRec cm0 cv) (some e) ct hct
    (aset d k v) o' P.conn dbn (by rw [hod]; exact ho)
    (by
      have := aget_initOps sch (aset d k v) o' kLimit (by decide) (by decide) (by decide)
      unfold truthyOpt at hl; rw [this]; exact hl)
    (by
      simp only [cm1, if_true]
      have hcc := conn_initOps sch (aset d k v) o' hc
      unfold truthyOpt at hcc
      have : ("_getConnection" = "_mungeOrderBy") = False := by decide
      simp only [this, if_false]
      rw [getConnection_translated sch P fnRec cm0 cv "SelectResults" _ (initOps sch (aset d k v) o') rfl rfl]
      simp [hcc, toR])
    (hdb _)
  simp only [cm2, if_true, construct]
  simp only [optClauseV, Option.getD_some] at hinit
  unfold initX at hinit
  rw [hinit]
  simp [toR, ofR]

theorem truthy_getD_false (d : List (Str × Val)) (k : Str) :
    truthy ((aget k d).getD (.bool false)) = truthyOpt d k := by
  unfold truthyOpt; cases aget k d <;> rfl

/-- `Good` is kept by an update of a flag key -/
theorem good_flag (d : List (Str × Val)) (s : Query.Sel) (o : Query.OrderBy) (g : Good sr sch d s o) (k : Str) (v : Val)
    (h1 : k ≠ kOrderBy) (h2 : k ≠ kLimit) (h3 : k ≠ kConnection) (s' : Query.Sel)
    (hs' : s' = { clause := s.clause, order := s.order, reversed := truthyOpt (aset d k v) kReversed,
                  distinct := truthyOpt (aset d k v) kDistinct }) :
    Good sr sch (initOps sch (aset d k v) o) s' o := by
  have hob : aget kOrderBy (aset d k v) = some (OrderBy.toVal sch o) := by rw [aget_aset_ne _ _ _ _ h1]; exact g.ob
  subst hs'
  refine ⟨?_, ?_, g.ord, ?_, ?_⟩
  · have := initOps_rep sr sch (some s.clause) (aset d k v) o
    simp only [Option.getD_some] at this
    rw [g.ord]; exact this
  · unfold initOps
    rw [aget_opsConn _ _ (by decide), aget_aset_ne _ _ _ _ (by decide), opsDefault_present sch _ o hob]; exact hob
  · unfold truthyOpt
    rw [aget_initOps sch _ _ _ (by decide) (by decide) (by decide), aget_aset_ne _ _ _ _ h2]; exact g.lim
  · apply conn_initOps
    unfold truthyOpt; rw [aget_aset_ne _ _ _ _ h3]; exact g.conn

variable (dbn : Val) (hdb : ∀ cm, attrOf (qIface sch P fnRec cm cv) P.conn "dbName" = .ok dbn)
include hdb

/-- **`reversed()` → `clone` → `__init__`**: the translated chain builds an object that represents `Sel.rev` -/
theorem reversed_rep (s : Query.Sel) (o : Query.OrderBy) (d : List (Str × Val)) (ct ts : Val) (hct : truthy ct = false)
    (g : Good sr sch d s o) :
    ∃ d' ts', reversedX (qIface sch P fnRec (cm3 sch P fnRec cm0 cv) cv) (srObj clsV (clauseV sr sch s.clause) (.dict d) ct ts)
        = .ret (srObj clsV (clauseV sr sch s.clause) (.dict d') ct ts') ∧ Good sr sch d' s.rev o := by
  rw [reversed_translated]
  have hk : ∀ k, kReversed ≠ k → aget k (aset d kReversed (.bool (!truthy ((aget kReversed d).getD (.bool false))))) = aget k d :=
    fun k h => aget_aset_ne _ _ _ _ h
  rw [show (qIface sch P fnRec (cm3 sch P fnRec cm0 cv) cv).callMethod = cm3 sch P fnRec cm0 cv from rfl,
    clone1 sr sch P fnRec cm0 cv dbn hdb s.clause ct ts hct d kReversed _ o
      (by rw [hk _ (by decide)]; exact g.ob) (by unfold truthyOpt; rw [hk _ (by decide)]; exact g.lim)
      (by unfold truthyOpt; rw [hk _ (by decide)]; exact g.conn)]
  refine ⟨_, _, rfl, ?_⟩
  apply good_flag sr sch d s o g kReversed _ (by decide) (by decide) (by decide)
  unfold truthyOpt
  rw [aget_aset_self, hk _ (by decide), truthy_getD_false]
  have h1 := g.rep.reversed
  have h2 := g.rep.distinct
  unfold truthyOpt at h1 h2
  cases s
  simp_all [Query.Sel.rev, truthyOpt]

/-- **`distinct()`** through the translated chain represents `Sel.dist` -/
theorem distinct_rep (s : Query.Sel) (o : Query.OrderBy) (d : List (Str × Val)) (ct ts : Val) (hct : truthy ct = false)
    (g : Good sr sch d s o) :
    ∃ d' ts', distinctX (qIface sch P fnRec (cm3 sch P fnRec cm0 cv) cv) (srObj clsV (clauseV sr sch s.clause) (.dict d) ct ts)
        = .ret (srObj clsV (clauseV sr sch s.clause) (.dict d') ct ts') ∧ Good sr sch d' s.dist o := by
  rw [distinct_translated _ (srObj clsV (clauseV sr sch s.clause) (.dict d) ct ts) "SelectResults" _ rfl]
  have hk : ∀ k, kDistinct ≠ k → aget k (aset d kDistinct (.bool true)) = aget k d := fun k h => aget_aset_ne _ _ _ _ h
  rw [show (qIface sch P fnRec (cm3 sch P fnRec cm0 cv) cv).callMethod = cm3 sch P fnRec cm0 cv from rfl,
    clone1 sr sch P fnRec cm0 cv dbn hdb s.clause ct ts hct d kDistinct _ o
      (by rw [hk _ (by decide)]; exact g.ob) (by unfold truthyOpt; rw [hk _ (by decide)]; exact g.lim)
      (by unfold truthyOpt; rw [hk _ (by decide)]; exact g.conn)]
  refine ⟨_, _, rfl, ?_⟩
  apply good_flag sr sch d s o g kDistinct _ (by decide) (by decide) (by decide)
  unfold truthyOpt
  rw [aget_aset_self, hk _ (by decide)]
  have h1 := g.rep.reversed
  unfold truthyOpt at h1
  cases s
  simp_all [Query.Sel.dist, truthyOpt]
end

/-! ### `sum / min / max / avg` → `accumulateOne` → `accumulateMany` → `accumulate(<plan item text>)` -/

section
variable (sr : Val → Str) (sch : Schema) (P : Params) (fnRec : String → List Val → List (Str × Val) → R Val)
  (cm0 : Val → String → List Val → List (Str × Val) → R Val) (cv : Val → List Val → R Val)

/-- `accumulateMany(*attributes)` is the translated method (over `_getConnection` translated) -/
def cmMany (recv : Val) (m : String) (args : List Val) (kw : List (Str × Val)) : R Val :=
  if m = "accumulateMany" then
    match kw with
    | [] => toR (accumulateManyX (qIface sch P fnRec (cm1 sch P fnRec cm0 cv) cv) recv args)
    | _ :: _ => .stuck
  else cm1 sch P fnRec cm0 cv recv m args kw

/-- `accumulateOne(func_name, attribute)` is the translated method -/
def cmOne (recv : Val) (m : String) (args : List Val) (kw : List (Str × Val)) : R Val :=
  if m = "accumulateOne" then
    match args, kw with
    | [f, a], [] => toR (accumulateOneX (qIface sch P fnRec (cmMany sch P fnRec cm0 cv) cv) recv f a)
    | _, _ => .stuck
  else cmMany sch P fnRec cm0 cv recv m args kw

def aggFnName : Query.AggFn → Str
  | .SUM => ['S', 'U', 'M'] | .MIN => ['M', 'I', 'N'] | .MAX => ['M', 'A', 'X'] | .AVG => ['A', 'V', 'G']
  | .COUNT => ['C', 'O', 'U', 'N', 'T']

/-- the attribute a term is given as: a raw string, or `T.q.<col>` -/
def termArgV (sch : Schema) : Query.Term → Val
  | .field c => fieldV (colName sch c)
  | .const s => .str s

/-- the text of one item of an accumulate plan (`Items.text` with `sqlrepr` of a field as a parameter) -/
def itemText (P : Params) (sch : Schema) : Query.Items → Str
  | .agg f dd t => aggFnName f ++ ['('] ++ (if dd = true then ['D', 'I', 'S', 'T', 'I', 'N', 'C', 'T', ' '] else [])
      ++ attrText P (termArgV sch t) ++ [')']
  | _ => []

/-- `accumulateOne(F, attr)` through the translated `accumulateMany`: `self.accumulate('F([DISTINCT ]attr)')` -/
theorem accumulateOne_chain (cl ct ts : Val) (d : List (Str × Val)) (hc : truthyOpt d kConnection = false)
    (hsr : ∀ cm a, methodOf (qIface sch P fnRec cm cv) P.conn "sqlrepr" [a] [] = .ok (.str (P.sqlrepr a)))
    (f : Str) (a : Val) :
    cmOne sch P fnRec cm0 cv (srObj clsV cl (.dict d) ct ts) "accumulateOne" [.str f, a] [] =
      cm0 (srObj clsV cl (.dict d) ct ts) "accumulate" [aggText P (distinctWord d) f a] [] := by
  simp only [cmOne, if_true]
  rw [accumulateOne_translated _ (srObj clsV cl (.dict d) ct ts) (.str f) a "SelectResults" _ rfl]
  simp only [cmMany, if_true]
  have hgc : cm1 sch P fnRec cm0 cv (srObj clsV cl (.dict d) ct ts) "_getConnection" [] [] = .ok P.conn := by
    have : ("_getConnection" = "_mungeOrderBy") = False := by decide
    simp only [cm1, this, if_false, if_true]
    rw [show srObj clsV cl (.dict d) ct ts = .obj "SelectResults" _ from rfl,
      getConnection_translated sch P fnRec cm0 cv "SelectResults" _ d rfl rfl]
    unfold truthyOpt at hc
    simp [hc, toR]
  have := accumulateMany_translated sch P fnRec (cm1 sch P fnRec cm0 cv) cv clsV cl ct ts d P.conn hgc (hsr _) [(f, a)]
  simp only [List.map_cons, List.map_nil, pairV] at this
  rw [this]
  have e1 : ("accumulate" = "_mungeOrderBy") = False := by decide
  have e2 : ("accumulate" = "_getConnection") = False := by decide
  simp only [cm1, e1, e2, if_false]
  cases cm0 (srObj clsV cl (.dict d) ct ts) "accumulate" [aggText P (distinctWord d) f a] [] <;> simp [toR, ofR]

/-- `self.accumulate(<text of the item of aggPlan s m t>)` -/
def aggAcc (m : Query.AggMethod) (s : Query.Sel) (t : Query.Term) (self : Val) : Out :=
  ofR (cm0 self "accumulate" [.str (itemText P sch (Query.aggPlan s m t).items)] [])

/-- **`sum / min / max / avg` → plan text**: through the translated `accumulateOne` and `accumulateMany` the select
    accumulates exactly the text of the item of the hand model's `aggPlan` of the represented select -/
theorem sum_plan_text (cl ct ts : Val) (d : List (Str × Val)) (s : Query.Sel) (hrep : Rep sr sch cl d s)
    (hc : truthyOpt d kConnection = false)
    (hsr : ∀ cm a, methodOf (qIface sch P fnRec cm cv) P.conn "sqlrepr" [a] [] = .ok (.str (P.sqlrepr a)))
    (t : Query.Term) :
    sumX (qIface sch P fnRec (cmOne sch P fnRec cm0 cv) cv) (srObj clsV cl (.dict d) ct ts) (termArgV sch t)
        = aggAcc sch P cm0 .sum s t (srObj clsV cl (.dict d) ct ts)
    ∧ minX (qIface sch P fnRec (cmOne sch P fnRec cm0 cv) cv) (srObj clsV cl (.dict d) ct ts) (termArgV sch t)
        = aggAcc sch P cm0 .min s t (srObj clsV cl (.dict d) ct ts)
    ∧ maxX (qIface sch P fnRec (cmOne sch P fnRec cm0 cv) cv) (srObj clsV cl (.dict d) ct ts) (termArgV sch t)
        = aggAcc sch P cm0 .max s t (srObj clsV cl (.dict d) ct ts)
    ∧ avgX (qIface sch P fnRec (cmOne sch P fnRec cm0 cv) cv) (srObj clsV cl (.dict d) ct ts) (termArgV sch t)
        = aggAcc sch P cm0 .avg s t (srObj clsV cl (.dict d) ct ts) := by
  have hd : ∀ m, Val.str (itemText P sch (Query.aggPlan s m t).items) =
      aggText P (distinctWord d) (aggFnName (Query.AggMethod.fn m)) (termArgV sch t) := by
    intro m
    simp only [Query.aggPlan, Query.accumulatePlan, itemText, aggText, distinctWord, hrep.distinct,
      Query.Extracted.aggDistinctWhenDistinct, Query.Extracted.aggDistinctWhenPlain]
    cases s.distinct <;> simp
  have hch := accumulateOne_chain sch P fnRec cm0 cv cl ct ts d hc hsr
  have hcm : (qIface sch P fnRec (cmOne sch P fnRec cm0 cv) cv).callMethod = cmOne sch P fnRec cm0 cv := rfl
  refine ⟨?_, ?_, ?_, ?_⟩
  · rw [sum_translated _ (srObj clsV cl (.dict d) ct ts) _ "SelectResults" _ rfl, hcm, hch, aggAcc, hd]; rfl
  · rw [min_translated _ (srObj clsV cl (.dict d) ct ts) _ "SelectResults" _ rfl, hcm, hch, aggAcc, hd]; rfl
  · rw [max_translated _ (srObj clsV cl (.dict d) ct ts) _ "SelectResults" _ rfl, hcm, hch, aggAcc, hd]; rfl
  · rw [avg_translated _ (srObj clsV cl (.dict d) ct ts) _ "SelectResults" _ rfl, hcm, hch, aggAcc, hd]; rfl
end
end SqlObjVerif.QueryX
