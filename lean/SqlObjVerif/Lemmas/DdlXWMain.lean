import SqlObjVerif.Lemmas.DdlXWLoop
/-!
# C14 translation (stateful part) — `SQLObject.createTable` / `dropTable` = `createTableG` / `dropTableG`
-/
namespace SqlObjVerif.DdlX
open SqlObjVerif.Ddl
open SqlObjVerif.PyDdl hiding Str isUpperC
open SqlObjVerif.PyDdl.Extracted

variable {x : ClsX}

/-- the connection classes that use `DBAPI.createTable` (Firebird and MaxDB add a generator / sequence statement) -/
def plainConn (d : Dialect) : Prop := d ≠ .firebird ∧ d ≠ .maxdb

theorem constraints_none (d : Dialect) (hd : d = .firebird ∨ d = .maxdb) (decl : Decl) : constraints TX d decl = [] := by
  have h : ∀ col, alterFk TX d decl col = none := by
    intro col
    obtain ⟨name, dbn, kind, nn, uq, alt, ds⟩ := col
    rcases hd with rfl | rfl <;> cases kind <;> rfl
  simp [constraints, h]

/-- `conn.createTable(soClass)` of the classes on `DBAPI.createTable`: the CREATE TABLE statement; returns the
    constraint statements -/
theorem connCreateTable_plain (n : Nat) (d : Dialect) (hd : plainConn d) (c : Caps) (decl : Decl) (c0 : Val) (w : Cat)
    (text : Str) (ht : createTableSQL TX d c decl = some text) (hb : 32 ∉ decl.tableName) :
    callNW prog ddlI EX (n + 10) w (.meth (connCls d) M_createTable) [connV d c, soClassV decl c0 x] =
      createRes decl.tableName (strList (constraints TX d decl)) w := by
  have hr : prog.resolve (.meth (connCls d) M_createTable) = some DBAPI__createTable_fn := by
    cases d <;> first | rfl | exact absurd rfl hd.1 | exact absurd rfl hd.2
  rw [callXW_succ _ _ _ _ _ hr]
  have hs := createTableSQL_agrees (x := x) n d c decl c0
  rw [ht] at hs
  simp only [agreesT] at hs
  obtain ⟨rest, hshape⟩ := createTableSQL_shape d c decl text ht
  have he := exec_create decl.tableName rest w hb
  rw [← hshape] at he
  clear hshape ht
  by_cases hm : decl.tableName ∈ w.tables
  · rw [if_pos hm] at he
    pyw [DBAPI__createTable_fn, DBAPI__createTable, DBAPI__createTable_s0, DBAPI__createTable_s1, DBAPI__createTable_s2,
      createRes, unpackOf, bindAll]
  · rw [if_neg hm] at he
    pyw [DBAPI__createTable_fn, DBAPI__createTable, DBAPI__createTable_s0, DBAPI__createTable_s1, DBAPI__createTable_s2,
      createRes, unpackOf, bindAll]

theorem exec_generator (t : Str) (w : Cat) :
    execSQL ([67, 82, 69, 65, 84, 69, 32, 71, 69, 78, 69, 82, 65, 84, 79, 82, 32, 71, 69, 78, 95] ++ t) w = .ok w := by
  simp [execSQL, strip, pCT, pDT, pCI, pCUI, pAT]

theorem exec_sequence (t : Str) (w : Cat) :
    execSQL ([67, 82, 69, 65, 84, 69, 32, 83, 69, 81, 85, 69, 78, 67, 69, 32] ++ t) w = .ok w := by
  simp [execSQL, strip, pCT, pDT, pCI, pCUI, pAT]

/-- Firebird / MaxDB `createTable`: CREATE TABLE, then the generator / sequence statement (no catalogue effect) -/
theorem connCreateTable_seq (n : Nat) (d : Dialect) (hd : d = .firebird ∨ d = .maxdb) (c : Caps) (decl : Decl) (c0 : Val)
    (w : Cat) (text : Str) (ht : createTableSQL TX d c decl = some text) (hb : 32 ∉ decl.tableName) :
    callNW prog ddlI EX (n + 10) w (.meth (connCls d) M_createTable) [connV d c, soClassV decl c0 x] =
      createRes decl.tableName (strList (constraints TX d decl)) w := by
  rw [constraints_none d hd decl]
  have hcols := createColumns_agrees (x := x) (n + 1) d c decl c0
  rw [createTableSQL_eq_colsModel] at ht
  cases hm0 : colsModel d c decl with
  | none => rw [hm0] at ht; cases ht
  | some b =>
    rw [hm0] at ht hcols
    simp only [agrees] at hcols
    injection ht with ht
    have he := exec_create decl.tableName (40 :: 10 :: (b ++ [10, 41])) w hb
    have hg := exec_generator decl.tableName
    have hq := exec_sequence (decl.tableName.take 28 ++ [95, 83, 69, 81])
    simp only [pCT, List.cons_append, List.nil_append, List.append_assoc] at he hg hq
    clear ht
    by_cases hm : decl.tableName ∈ w.tables
    · rw [if_pos hm] at he
      rcases hd with rfl | rfl
      · rw [callXW_succ _ _ _ _ _ (by rfl)]
        pyw [FirebirdConnection__createTable_fn, FirebirdConnection__createTable, FirebirdConnection__createTable_s0,
          FirebirdConnection__createTable_s1, FirebirdConnection__createTable_s2, createRes, metaV, strList]
      · rw [callXW_succ _ _ _ _ _ (by rfl)]
        pyw [MaxdbConnection__createTable_fn, MaxdbConnection__createTable, MaxdbConnection__createTable_s0,
          MaxdbConnection__createTable_s1, MaxdbConnection__createTable_s2, createRes, metaV, strList]
    · rw [if_neg hm] at he
      rcases hd with rfl | rfl
      · rw [callXW_succ _ _ _ _ _ (by rfl)]
        pyw [FirebirdConnection__createTable_fn, FirebirdConnection__createTable, FirebirdConnection__createTable_s0,
          FirebirdConnection__createTable_s1, FirebirdConnection__createTable_s2, createRes, metaV, strList]
      · rw [callXW_succ _ _ _ _ _ (by rfl)]
        pyw [MaxdbConnection__createTable_fn, MaxdbConnection__createTable, MaxdbConnection__createTable_s0,
          MaxdbConnection__createTable_s1, MaxdbConnection__createTable_s2, createRes, metaV, strList, extMethX]

/-- `conn.createTable(soClass)` of all seven connection classes -/
theorem connCreateTable (n : Nat) (d : Dialect) (c : Caps) (decl : Decl) (c0 : Val) (w : Cat)
    (text : Str) (ht : createTableSQL TX d c decl = some text) (hb : 32 ∉ decl.tableName) :
    callNW prog ddlI EX (n + 10) w (.meth (connCls d) M_createTable) [connV d c, soClassV decl c0 x] =
      createRes decl.tableName (strList (constraints TX d decl)) w := by
  by_cases h1 : d = .firebird
  · exact connCreateTable_seq n d (Or.inl h1) c decl c0 w text ht hb
  by_cases h2 : d = .maxdb
  · exact connCreateTable_seq n d (Or.inr h2) c decl c0 w text ht hb
  exact connCreateTable_plain n d ⟨h1, h2⟩ c decl c0 w text ht hb

def dropTableFn : Dialect → Fn
  | .postgres => PostgresConnection__dropTable_fn
  | .firebird => FirebirdConnection__dropTable_fn
  | .maxdb => MaxdbConnection__dropTable_fn
  | _ => DBAPI__dropTable_fn

theorem exec_drop_other (k : Nat) (hk : k ≠ 84) (rest : Str) (w : Cat) :
    execSQL (68 :: 82 :: 79 :: 80 :: 32 :: k :: rest) w = .ok w := by
  have hk' : ¬ (84 = k) := fun e => hk e.symm
  simp [execSQL, strip, pCT, pDT, pCI, pCUI, pAT, hk']

/-- `conn.dropTable(table, cascade)` of all seven connection classes: one `DROP TABLE` statement (`… CASCADE` on
    PostgreSQL when asked), followed on Firebird / MaxDB by the generator / sequence statement (no catalogue effect) -/
theorem connDropTable (n : Nat) (d : Dialect) (c : Caps) (t : Name) (cas : Bool) (w : Cat) (hb : 32 ∉ t) :
    callNW prog ddlI EX (n + 1) w (.meth (connCls d) M_dropTable) [connV d c, .str t, .bool cas] = dropRes t w := by
  have hr : prog.resolve (.meth (connCls d) M_dropTable) = some (dropTableFn d) := by cases d <;> rfl
  rw [callXW_succ _ _ _ _ _ hr]
  have he := exec_drop t w hb
  have he' := fun rest => exec_drop' t rest w hb
  have hg := fun rest w => exec_drop_other 71 (by decide) rest w
  have hq := fun rest w => exec_drop_other 83 (by decide) rest w
  simp only [pDT, List.cons_append, List.nil_append] at he he'
  by_cases hm : t ∈ w.tables
  · simp only [if_pos hm] at he he'
    cases d <;> cases cas <;>
      pyw [dropTableFn, DBAPI__dropTable_fn, DBAPI__dropTable, DBAPI__dropTable_s0, PostgresConnection__dropTable_fn,
        PostgresConnection__dropTable, PostgresConnection__dropTable_s0, FirebirdConnection__dropTable_fn,
        FirebirdConnection__dropTable, FirebirdConnection__dropTable_s0, FirebirdConnection__dropTable_s1,
        MaxdbConnection__dropTable_fn, MaxdbConnection__dropTable, MaxdbConnection__dropTable_s0,
        MaxdbConnection__dropTable_s1, extMethX, dropRes]
  · simp only [if_neg hm] at he he'
    cases d <;> cases cas <;>
      pyw [dropTableFn, DBAPI__dropTable_fn, DBAPI__dropTable, DBAPI__dropTable_s0, PostgresConnection__dropTable_fn,
        PostgresConnection__dropTable, PostgresConnection__dropTable_s0, FirebirdConnection__dropTable_fn,
        FirebirdConnection__dropTable, FirebirdConnection__dropTable_s0, FirebirdConnection__dropTable_s1,
        MaxdbConnection__dropTable_fn, MaxdbConnection__dropTable, MaxdbConnection__dropTable_s0,
        MaxdbConnection__dropTable_s1, extMethX, dropRes]

@[simp] theorem read_cls_tableExists (w : Cat) (decl : Decl) (c0 : Val) (d : Dialect) (c : Caps) :
    EX.read w (soClassV decl c0 x) "tableExists" [connV d c] =
      some (.ok (.bool (decide (decl.tableName ∈ w.tables)))) := rfl

theorem agreesW_ok {r : R Val × Cat} {w' : Cat} (h : agreesW r (.ok w')) : ∃ v, r = (.ok v, w') := by
  obtain ⟨h2, v, h1⟩ := h
  exact ⟨v, Prod.ext h1 h2⟩

theorem agreesW_error {r : R Val × Cat} {e : Unit} (h : agreesW r (.error e)) : ∃ w', r = (.exc .operationalError, w') :=
  ⟨r.2, Prod.ext h rfl⟩

/-- a successful translated run determines the model's verdict -/
theorem agreesW_ok_inv {r : R Val × Cat} {m : Except Unit Cat} {v : Val} {w1 : Cat} (h : agreesW r m)
    (hr : r = (.ok v, w1)) : m = .ok w1 := by
  cases m with
  | ok w' => obtain ⟨h2, _⟩ := h; rw [hr] at h2; rw [← h2]
  | error e => simp only [agreesW] at h; rw [hr] at h; cases h

macro "dropeval" : tactic =>
  `(tactic| pyw [SQLObject__dropTable_fn, SQLObject__dropTable, SQLObject__dropTable_s0, SQLObject__dropTable_s1,
      SQLObject__dropTable_s2, SQLObject__dropTable_s3, SQLObject__dropTable_s4, SQLObject__dropTable_s5,
      SQLObject__dropTable_s6, SQLObject__dropTable_s7, SQLObject__dropTable_s8, forLoopW, dropRes, metaV, agreesW, extX,
      dropTableG, Ddl.Extracted.dropPassesIfExists, Ddl.Extracted.dropDedupes])

set_option maxHeartbeats 1000000 in
/-- **`SQLObject.dropTable(ifExists, dropJoinTables, cascade, connection)` translated = `dropTableG`** of the
    catalogue model with the flags read from the source (`dropPassesIfExists`, `dropDedupes`) -/
theorem dropTable_eq (n : Nat) (d : Dialect) (c : Caps) (decl : Decl) (c0 : Val)
    (ie dj cas : Bool) (w : Cat) (idx : List Name)
    (hb : 32 ∉ decl.tableName) (hbl : ∀ j ∈ joinsToCreateX x.joins, 32 ∉ j.join.table) :
    agreesW (callNW prog ddlI EX (n + 3) w (.meth C_SQLObject M_dropTable)
        [soClassV decl c0 x, .bool ie, .bool dj, .bool cas, connV d c])
      (dropTableG Ddl.Extracted.dropPassesIfExists Ddl.Extracted.dropDedupes ie dj
        ⟨decl.tableName, linkNames x.joins, idx⟩ w) := by
  rw [callXW_succ _ _ _ _ _ res_SQLObject_dropTable]
  have hcd : callNW prog ddlI EX (n + 2) w (.meth (connCls d) M_dropTable) [connV d c, .str decl.tableName, .bool cas] =
      dropRes decl.tableName w := connDropTable (n + 1) d c decl.tableName cas w hb
  have hr : recvCls (soClassV decl c0 x) = .ok C_SQLObject := rfl
  by_cases hm : decl.tableName ∈ w.tables
  · cases dj
    · cases ie <;> dropeval
    · have hj := dropJoinTables_eq (x := x) n d c decl c0 ie (dropTbl decl.tableName w) hbl
      cases hl : dropLinks ie (linksOf true (linkNames x.joins)) (dropTbl decl.tableName w) with
      | ok w' =>
        rw [hl] at hj
        obtain ⟨v, hv⟩ := agreesW_ok hj
        cases ie <;> dropeval
      | error e =>
        rw [hl] at hj
        obtain ⟨w', hv⟩ := agreesW_error hj
        cases ie <;> dropeval
  · cases ie <;> cases dj <;> dropeval

end SqlObjVerif.DdlX
