import SqlObjVerif.Lemmas.DdlXWLoop
/-!
# C14 translation (stateful part) — `SQLObject.createTable` / `dropTable` = `createTableG` / `dropTableG`
-/
namespace SqlObjVerif.DdlX
open SqlObjVerif.Ddl
open SqlObjVerif.PyDdl hiding Str isUpperC
open SqlObjVerif.PyDdl.Extracted

variable {x : ClsX}

/-- the connection classes that use `DBAPI.createTable` (Firebird and MaxDB add a generator / sequence statement) -/
def plainConn (d : Dialect) : Prop := d ≠ .firebird ∧ d ≠ .maxdb

/-- `conn.createTable(soClass)`: the CREATE TABLE statement; returns the constraint statements -/
theorem connCreateTable (n : Nat) (d : Dialect) (hd : plainConn d) (c : Caps) (decl : Decl) (c0 : Val) (w : Cat)
    (text : Str) (ht : createTableSQL TX d c decl = some text) (hb : 32 ∉ decl.tableName) :
    callNW prog ddlI EX (n + 10) w (.meth (connCls d) M_createTable) [connV d c, soClassV decl c0 x] =
      createRes decl.tableName (strList (constraints TX d decl)) w := by
  have hr : prog.resolve (.meth (connCls d) M_createTable) = some DBAPI__createTable_fn := by
    cases d <;> first | rfl | exact absurd rfl hd.1 | exact absurd rfl hd.2
  rw [callXW_succ _ _ _ _ _ hr]
  have hs := createTableSQL_agrees (x := x) n d c decl c0
  rw [ht] at hs
  simp only [agreesT] at hs
  obtain ⟨rest, hshape⟩ := createTableSQL_shape d c decl text ht
  have he := exec_create decl.tableName rest w hb
  rw [← hshape] at he
  clear hshape ht
  by_cases hm : decl.tableName ∈ w.tables
  · rw [if_pos hm] at he
    pyw [DBAPI__createTable_fn, DBAPI__createTable, DBAPI__createTable_s0, DBAPI__createTable_s1, DBAPI__createTable_s2,
      createRes, unpackOf, bindAll]
  · rw [if_neg hm] at he
    pyw [DBAPI__createTable_fn, DBAPI__createTable, DBAPI__createTable_s0, DBAPI__createTable_s1, DBAPI__createTable_s2,
      createRes, unpackOf, bindAll]

def dropTableFn : Dialect → Fn
  | .postgres => PostgresConnection__dropTable_fn
  | _ => DBAPI__dropTable_fn

/-- `conn.dropTable(table, cascade)`: one `DROP TABLE` statement (`… CASCADE` on PostgreSQL when asked) -/
theorem connDropTable (n : Nat) (d : Dialect) (hd : plainConn d) (c : Caps) (t : Name) (cas : Bool) (w : Cat)
    (hb : 32 ∉ t) :
    callNW prog ddlI EX (n + 1) w (.meth (connCls d) M_dropTable) [connV d c, .str t, .bool cas] = dropRes t w := by
  have hr : prog.resolve (.meth (connCls d) M_dropTable) = some (dropTableFn d) := by
    cases d <;> first | rfl | exact absurd rfl hd.1 | exact absurd rfl hd.2
  rw [callXW_succ _ _ _ _ _ hr]
  have he := exec_drop t w hb
  have he' := fun rest => exec_drop' t rest w hb
  simp only [pDT, List.cons_append, List.nil_append] at he he'
  by_cases hm : t ∈ w.tables
  · simp only [if_pos hm] at he he'
    cases d <;> cases cas <;>
      pyw [dropTableFn, DBAPI__dropTable_fn, DBAPI__dropTable, DBAPI__dropTable_s0, PostgresConnection__dropTable_fn,
        PostgresConnection__dropTable, PostgresConnection__dropTable_s0, dropRes]
  · simp only [if_neg hm] at he he'
    cases d <;> cases cas <;>
      pyw [dropTableFn, DBAPI__dropTable_fn, DBAPI__dropTable, DBAPI__dropTable_s0, PostgresConnection__dropTable_fn,
        PostgresConnection__dropTable, PostgresConnection__dropTable_s0, dropRes]

@[simp] theorem read_cls_tableExists (w : Cat) (decl : Decl) (c0 : Val) (d : Dialect) (c : Caps) :
    EX.read w (soClassV decl c0 x) "tableExists" [connV d c] =
      some (.ok (.bool (decide (decl.tableName ∈ w.tables)))) := rfl

theorem agreesW_ok {r : R Val × Cat} {w' : Cat} (h : agreesW r (.ok w')) : ∃ v, r = (.ok v, w') := by
  obtain ⟨h2, v, h1⟩ := h
  exact ⟨v, Prod.ext h1 h2⟩

theorem agreesW_error {r : R Val × Cat} {e : Unit} (h : agreesW r (.error e)) : ∃ w', r = (.exc .operationalError, w') :=
  ⟨r.2, Prod.ext h rfl⟩

macro "dropeval" : tactic =>
  `(tactic| pyw [SQLObject__dropTable_fn, SQLObject__dropTable, SQLObject__dropTable_s0, SQLObject__dropTable_s1,
      SQLObject__dropTable_s2, SQLObject__dropTable_s3, SQLObject__dropTable_s4, SQLObject__dropTable_s5,
      SQLObject__dropTable_s6, SQLObject__dropTable_s7, SQLObject__dropTable_s8, forLoopW, dropRes, metaV, agreesW, extX,
      dropTableG, Ddl.Extracted.dropPassesIfExists, Ddl.Extracted.dropDedupes])

set_option maxHeartbeats 1000000 in
/-- **`SQLObject.dropTable(ifExists, dropJoinTables, cascade, connection)` translated = `dropTableG`** of the
    catalogue model with the flags read from the source (`dropPassesIfExists`, `dropDedupes`) -/
theorem dropTable_eq (n : Nat) (d : Dialect) (hd : plainConn d) (c : Caps) (decl : Decl) (c0 : Val)
    (ie dj cas : Bool) (w : Cat) (idx : List Name)
    (hb : 32 ∉ decl.tableName) (hbl : ∀ j ∈ joinsToCreateX x.joins, 32 ∉ j.join.table) :
    agreesW (callNW prog ddlI EX (n + 3) w (.meth C_SQLObject M_dropTable)
        [soClassV decl c0 x, .bool ie, .bool dj, .bool cas, connV d c])
      (dropTableG Ddl.Extracted.dropPassesIfExists Ddl.Extracted.dropDedupes ie dj
        ⟨decl.tableName, linkNames x.joins, idx⟩ w) := by
  rw [callXW_succ _ _ _ _ _ res_SQLObject_dropTable]
  have hcd : callNW prog ddlI EX (n + 2) w (.meth (connCls d) M_dropTable) [connV d c, .str decl.tableName, .bool cas] =
      dropRes decl.tableName w := connDropTable (n + 1) d hd c decl.tableName cas w hb
  have hr : recvCls (soClassV decl c0 x) = .ok C_SQLObject := rfl
  by_cases hm : decl.tableName ∈ w.tables
  · cases dj
    · cases ie <;> dropeval
    · have hj := dropJoinTables_eq (x := x) n d c decl c0 ie (dropTbl decl.tableName w) hbl
      cases hl : dropLinks ie (linksOf true (linkNames x.joins)) (dropTbl decl.tableName w) with
      | ok w' =>
        rw [hl] at hj
        obtain ⟨v, hv⟩ := agreesW_ok hj
        cases ie <;> dropeval
      | error e =>
        rw [hl] at hj
        obtain ⟨w', hv⟩ := agreesW_error hj
        cases ie <;> dropeval
  · cases ie <;> cases dj <;> dropeval

end SqlObjVerif.DdlX
