import SqlObjVerif.Lemmas.FailCreateXLoop
/-!
C06, operation CREATE: the translated `SQLObject.__init__` → `_create` → `set` → `_SO_finishCreate`
(`Model/FailCreateX.lean: createF`) = the hand-compiled micro-step tree `Fail.createProg` under the same schedule.
`create_tail_good` / `create_good`: `_create` (the loop lemma of `FailCreateXLoop`, then `set` on the object under
construction — `PyFail.setF_lazyBranch`, proved in `Lemmas/FailXSetLazy.lean` about the translated `set` —, then
`finishCreate_good`); `init_good`: `__init__` around ANY `_create` that ends `Good`; `C06_translated_create_eq_model`.
-/
namespace SqlObjVerif.PyCreate
open SqlObjVerif.PyMain (PV R mapR ofOpt PDict dget dhas dset dupdate sortByKey ofVal toVal? pvIdx pyBool)
open SqlObjVerif.PyCreate.Extracted
open SqlObjVerif.Fail (Err Schema Inj Extra In clsOf colOf Mem valsOf allOk updPending asgOf)
open SqlObjVerif.PyFail (FW sendStmt memStep excErr mkW kwPV vqOf viewObs runObs obs)

theorem updPending_append (asg : List (Nat × Fail.Val)) : ∀ p : List (Nat × Fail.Val), (asg.map (·.1)).Nodup →
    (∀ a ∈ asg, ∀ b ∈ p, b.1 ≠ a.1) → updPending p asg = p ++ asg := by
  induction asg with
  | nil => intro p _ _; simp [updPending]
  | cons a asg ih =>
    intro p hnd hdis
    simp only [List.map_cons, List.nodup_cons] at hnd
    have hf : p.filter (fun b => b.1 != a.1) = p :=
      List.filter_eq_self.2 (fun b hb => by simpa using hdis a (by simp) b hb)
    have := ih (p ++ [a]) hnd.2 (by
      intro x hx b hb
      simp only [List.mem_append, List.mem_singleton] at hb
      rcases hb with hb | rfl
      · exact hdis x (by simp [hx]) b hb
      · intro h; exact hnd.1 (h ▸ List.mem_map_of_mem hx))
    unfold updPending at this ⊢
    simp only [List.foldl_cons, hf, this, List.append_assoc, List.singleton_append]

theorem hasKey_iff (pk : List (Nat × In)) (j : Nat) : hasKey pk j = true ↔ j ∈ pk.map (·.1) := by
  simp [hasKey]

theorem defaulted_keys (dflt : Nat → Option In) (pk : List (Nat × In)) (cs : List Nat) :
    (defaulted dflt pk cs).map (·.1) = cs.filter fun j => !hasKey pk j && (dflt j).isSome := by
  induction cs with
  | nil => rfl
  | cons j cs ih =>
    simp only [defaulted, List.filterMap_cons, List.filter_cons] at ih ⊢
    by_cases hk : hasKey pk j = true
    · simp [hk, ih]
    · simp only [Bool.not_eq_true] at hk
      cases hd : dflt j <;> simp [hk, ih]

theorem kwFull_nodup (dflt : Nat → Option In) (n : Nat) (pk : List (Nat × In)) (hnd : (pk.map (·.1)).Nodup) :
    ((kwFullOf dflt n pk).map (·.1)).Nodup := by
  unfold kwFullOf
  rw [List.map_append, defaulted_keys, List.nodup_append]
  refine ⟨hnd, List.Nodup.sublist List.filter_sublist List.nodup_range, ?_⟩
  intro a ha b hb hab
  subst hab
  simp only [List.mem_filter, Bool.and_eq_true, Bool.not_eq_eq_eq_not, Bool.not_true] at hb
  have := (hasKey_iff pk a).2 ha
  rw [hb.2.1] at this
  cases this

theorem kwFull_lt (dflt : Nat → Option In) (n : Nat) (pk : List (Nat × In)) (hlt : ∀ e ∈ pk, e.1 < n) :
    ∀ e ∈ kwFullOf dflt n pk, e.1 < n := by
  intro e he
  unfold kwFullOf at he
  rw [List.mem_append] at he
  rcases he with he | he
  · exact hlt e he
  · have : e.1 ∈ (defaulted dflt pk (List.range n)).map (·.1) := List.mem_map_of_mem he
    rw [defaulted_keys] at this
    exact List.mem_range.1 (List.mem_filter.1 this).1

theorem asgOf_keys (kw : List (Nat × In)) : (asgOf kw).map (·.1) = kw.map (·.1) := by
  simp [asgOf]

theorem createProg_eq (sch : Schema) (c : Nat) (id? : Option Nat) (missing : Bool) (kw : List (Nat × In)) :
    Fail.createProg sch c id? missing kw [] (fun _ => .done) =
      .event 3 (if missing then .fail .typeError
                else Fail.validates kw (insertTail c id? (valsOf (clsOf sch c).cols.length (asgOf kw)))) := by
  simp [Fail.createProg, Fail.precheck, Fail.hasUnknown, Fail.extrasPure, insertTail]

theorem good_afterCall (ctx : Ctx) (call : CallT) (o : Outcome) (r : Fail.St × Option Err) (st : St) (h : Good ctx o r) :
    Good ctx ((afterCall o st).seq fun st' => Block.exec ctx call st' .nil).toOutcome r := by
  cases o with
  | ret xw v => simpa [Good, exec_nil, St.setXW] using h
  | exc xw e => simpa [Good, St.setXW] using h
  | deadlock xw => exact h.elim
  | stuck => exact h.elim

/-- `_create` from the default-filling loop on, from ANY state in which the object is under construction and fresh -/
theorem create_tail_good (ctx : Ctx) (hclos : ctx.clos 0 = finishCreate_clos0) (st : St) (idv : Val) (id? : Option Nat)
    (hid : idArg idv = some id?) (pk : List (Nat × In)) (hnd : (pk.map (·.1)).Nodup)
    (n : Nat) (hn : st.xw.w.ncols = n) (hlt : ∀ e ∈ pk, e.1 < n)
    (hd : st.fr.dicts 0 = some ⟨kwPV pk, []⟩) (hv : st.fr.vars 0 = some idv)
    (hcr : st.xw.w.creating = true) (hborn : st.xw.born = false) (habs : st.xw.cvAbsent = false)
    (hpost : st.xw.postponed = some []) (hlock : st.xw.w.lock = false) (hsig : st.xw.w.sigSuppress = false)
    (hnobj : st.xw.w.nobj = ⟨[], [], false⟩) (hvq : st.xw.w.vq = vqOf (kwFullOf ctx.dflt n pk)) :
    Good ctx (Block.exec ctx (createCall ctx PyFail.setF) st (.cons create_s3 (.cons create_s4 (.cons create_s5 .nil)))).toOutcome
      (Fail.run st.xw.w.sch st.xw.w.inj (Fail.createProg st.xw.w.sch st.xw.w.c id? (missingOf ctx.dflt ctx.dsql n pk)
         (kwFullOf ctx.dflt n pk) [] (fun _ => .done)) st.xw.w.s) := by
  subst hn
  obtain ⟨fr', h1, h2, h3⟩ := create_loop ctx (createCall ctx PyFail.setF) (List.range st.xw.w.ncols) pk st hd hlt
    (by simp [List.mem_range])
  rw [fillFrom_range] at h1 h3
  rw [exec_cons, create_s3, Stmt.exec]
  simp only [LExpr.eval, withR_ok]
  rw [h1, createProg_eq]
  frun []
  by_cases hm : missingOf ctx.dflt ctx.dsql st.xw.w.ncols pk = true
  · simp [hm, loopEnd, Good, hpost, hlock, hsig, PyFail.run_fail]
  · simp only [hm, Bool.false_eq_true, if_false, loopEnd, seq_norm] at h3 ⊢
    have hfull := h3 _ rfl
    have hndF := kwFull_nodup ctx.dflt st.xw.w.ncols pk hnd
    have hltF := kwFull_lt ctx.dflt st.xw.w.ncols pk hlt
    have hset := PyFail.setF_lazyBranch st.xw.w [] (kwFullOf ctx.dflt st.xw.w.ncols pk) (by simp [hcr]) hsig (by simp [hvq]) hltF hndF
    rw [exec_cons, create_s4, Stmt.exec]
    simp only [mapR, withR_ok, dictArg_some, hfull, ofOptRes_some, createCall, if_true, List.isEmpty_nil, Bool.and_self]
    rw [Fail.run_validates]
    cases hok : allOk (kwFullOf ctx.dflt st.xw.w.ncols pk)
    · obtain ⟨q, hq⟩ := hset.2 hok
      rw [hq]
      simp [Good, St.setXW, hpost, hlock, hsig]
    · rw [hset.1 hok, PyFail.lazyEnd_creating _ _ _ hcr]
      simp only [liftSet_ret, afterCall_ret, seq_norm, if_true]
      rw [exec_cons, create_s5, Stmt.exec]
      simp only [mapR, Expr.eval, St.setXW, h2, hv, PyPure.ofOpt_some, PyPure.R.bind_ok, withR_ok, dictArg_none, ofOptRes_some, createCall]
      have hne : ("_SO_finishCreate" = "set") = False := by decide
      simp only [hne, if_false, if_true, hnobj]
      refine good_afterCall ctx _ _ _ _ ?_
      have hkeys : ((asgOf (kwFullOf ctx.dflt st.xw.w.ncols pk)).map (·.1)).Nodup := by rw [asgOf_keys]; exact hndF
      have hdu : dupdate (asgOf (kwFullOf ctx.dflt st.xw.w.ncols pk)) [] = asgOf (kwFullOf ctx.dflt st.xw.w.ncols pk) :=
        PyPure.dictOf_nodup _ hkeys
      have hup : updPending [] (asgOf (kwFullOf ctx.dflt st.xw.w.ncols pk)) = asgOf (kwFullOf ctx.dflt st.xw.w.ncols pk) := by
        rw [updPending_append _ _ hkeys (by simp)]; rfl
      rw [hdu, hup]
      exact finishCreate_good ctx
        { st.xw with w := { st.xw.w with vq := [], nobj := ⟨asgOf (kwFullOf ctx.dflt st.xw.w.ncols pk),
            asgOf (kwFullOf ctx.dflt st.xw.w.ncols pk), if (kwFullOf ctx.dflt st.xw.w.ncols pk).isEmpty then false else true⟩ } }
        idv id? hid hclos hcr hborn habs hpost hlock hsig hkeys
        (fun e he => by
          obtain ⟨a, ha, rfl⟩ := List.mem_map.1 he
          exact hltF a ha)
        _ rfl rfl

theorem createProg_split (ctx : Ctx) (call : CallT) (st : St) :
    Block.exec ctx call st createProg =
      (Stmt.exec ctx call st create_s0).seq fun st1 => (Stmt.exec ctx call st1 create_s1).seq fun st2 =>
        (Stmt.exec ctx call st2 create_s2).seq fun st3 =>
          Block.exec ctx call st3 (.cons create_s3 (.cons create_s4 (.cons create_s5 .nil))) := by
  simp only [createProg, exec_cons]

/-- the translated `_create` = the hand-compiled tree, from any fresh world -/
theorem create_good (ctx : Ctx) (hclos : ctx.clos 0 = finishCreate_clos0) (xw : XW) (idv : Val) (id? : Option Nat)
    (hid : idArg idv = some id?) (pk : List (Nat × In)) (hnd : (pk.map (·.1)).Nodup)
    (n : Nat) (hn : xw.w.ncols = n) (hlt : ∀ e ∈ pk, e.1 < n)
    (hcr : xw.w.creating = false) (hborn : xw.born = false) (hpost : xw.postponed = some [])
    (hlock : xw.w.lock = false) (hsig : xw.w.sigSuppress = false)
    (hnobj : xw.w.nobj = ⟨[], [], false⟩) (hvq : xw.w.vq = vqOf (kwFullOf ctx.dflt n pk)) :
    Good ctx (run ctx (createCall ctx PyFail.setF) createProg create_params create_hasKw [idv] ⟨kwPV pk, []⟩ xw)
      (Fail.run xw.w.sch xw.w.inj (Fail.createProg xw.w.sch xw.w.c id? (missingOf ctx.dflt ctx.dsql n pk)
         (kwFullOf ctx.dflt n pk) [] (fun _ => .done)) xw.w.s) := by
  obtain ⟨w, born, cvAbsent, postponed, heap⟩ := xw
  obtain ⟨sch, inj, props, s, c, id, creating, nobj, sig, lock, vq⟩ := w
  simp only [PyFail.ncols_mk] at hn hcr hborn hpost hlock hsig hnobj hvq
  subst hcr hborn hpost hlock hsig hnobj hn hvq
  simp only [PyCreate.run, create_params, create_hasKw, argsOk, createProg_split]
  simp only [List.length_cons, List.length_nil, Nat.ble, List.drop, List.all_nil, Bool.and_true, Bool.true_or, if_true,
    create_s0, create_s1, create_s2]
  simp [Stmt.exec, St.setW, St.setXW, XW.cvNew]
  refine create_tail_good ctx hclos _ idv id? hid pk hnd _ rfl hlt rfl ?_ rfl rfl rfl rfl rfl rfl rfl rfl
  simp [bindVars]

/-- the `id` argument `__init__` hands to `_create` -/
def idVal : Option Nat → Val
  | Option.none => .pv .none
  | some i => .pv (.nat i)

theorem idArg_idVal (id? : Option Nat) : idArg (idVal id?) = some id? := by cases id? <;> rfl

theorem init_good (ctx : Ctx) (call : CallT) (w : FW) (pk : List (Nat × In)) (id? : Option Nat) (r : Fail.St × Option Err)
    (hgood : Good ctx (call "_create" [idVal id?] ⟨kwPV pk, []⟩ ⟨{ w with lock := false }, false, false, some [], []⟩) r) :
    viewObs (run ctx call initProg init_params init_hasKw [] ⟨kwPV pk, idKw id?⟩ (mkXW w)).toFail = some (runObs r) := by
  obtain ⟨sch, inj, props, s, c, id, creating, nobj, sig, lock, vq⟩ := w
  cases id? <;>
  ( simp only [idVal] at hgood
    simp only [PyCreate.run, init_params, init_hasKw, argsOk, initProg, init_s0, init_s1, init_try0_body, init_try0_handler,
      init_try1_body, init_try1_fin, init_try2_body, init_try2_fin, mkXW, idKw]
    pcwith [strHas, strGet, strErase]
    revert hgood
    generalize call "_create" _ _ _ = o
    intro hgood
    cases o with
    | ret xw v =>
      obtain ⟨hr, hl, hs, k, fid, fr, hp, hh, hc⟩ := hgood
      subst hr
      pcwith [St.setXW, hp, init_for1, init_for0, hh, hc]
      simp [Outcome.toFail, viewObs, PyFail.Outcome.view, runObs, hl, hs]
    | exc xw e =>
      obtain ⟨hr, hp, hl, hs⟩ := hgood
      subst hr
      pcwith [St.setXW, hp]
      simp [Outcome.toFail, viewObs, PyFail.Outcome.view, runObs, hl, hs]
    | deadlock xw => exact hgood.elim
    | stuck => exact hgood.elim )

/-- **CREATE, translated = hand model.**  For every schema, state, class, keyword list (distinct column names), `id=`
    keyword, defaults table and schedule (`inj`; validator oracle = the outcomes of the keywords then of the
    defaulted columns): the translated `__init__` → `_create` → `set` → `_SO_finishCreate` ends with the error, the
    statement log and counter, the tables, instances, registered ids, `seqs` and `lastId` of the hand-compiled tree
    `Fail.createProg` under the same schedule. -/
theorem C06_translated_create_eq_model (dflt : Nat → Option In) (dsql : Nat → Bool) (sch : Schema) (inj : Option Inj)
    (props : Nat → Extra) (s : Fail.St) (c : Nat) (id? : Option Nat) (pk : List (Nat × In))
    (hnd : (pk.map (·.1)).Nodup) (hlt : ∀ e ∈ pk, e.1 < (clsOf sch c).cols.length) :
    viewObs (createF dflt dsql sch inj props s c (vqOf (kwFullOf dflt (clsOf sch c).cols.length pk)) id? pk) =
      some (runObs (Fail.run sch inj (Fail.createProg sch c id? (missingOf dflt dsql (clsOf sch c).cols.length pk)
        (kwFullOf dflt (clsOf sch c).cols.length pk) [] (fun _ => .done)) s)) := by
  unfold createF createFWith
  apply init_good
  simp only [initCall, if_true]
  exact create_good (mkCtx dflt dsql) (by simp [mkCtx, closTable]) _ (idVal id?) id? (idArg_idVal id?) pk hnd
    (clsOf sch c).cols.length rfl hlt rfl rfl rfl rfl rfl rfl rfl

/-- non-vacuity, and the witness of `C06_create_db_error_after_insert_full_FALSE` run through the TRANSLATED program:
    the database error injected at statement 2 (the SELECT that reads the new row back) leaves the inserted row and the
    registered instance behind -/
example :
    (viewObs (createF (fun _ => Option.none) (fun _ => false) [{ cols := [{}] }] (some ⟨2, .operational⟩) (fun _ => .unknown)
        { core := { tabs := [[]], links := [], insts := [], reg := [] }, seqs := [0], lastId := 0, n := 0, changes := 0, log := [] }
        0 (vqOf [(0, .ok (some 5))]) Option.none [(0, .ok (some 5))])).map (fun r => (r.1.core.tabs, r.1.core.reg, r.1.n, r.2)) =
      some ([[⟨1, [some 5]⟩]], [(0, 1)], 2, some .operational) := by
  decide +kernel

/-- a defaulted column, an explicit `id=`, no fault: both values are inserted under that id -/
example :
    (viewObs (createF (fun j => if j = 1 then some (.ok (some 7)) else Option.none) (fun _ => false) [{ cols := [{}, {}] }]
        Option.none (fun _ => .unknown)
        { core := { tabs := [[]], links := [], insts := [], reg := [] }, seqs := [0], lastId := 0, n := 0, changes := 0, log := [] }
        0 (vqOf [(0, .ok (some 5)), (1, .ok (some 7))]) (some 4) [(0, .ok (some 5))])).map (fun r => (r.1.core.tabs, r.2)) =
      some ([[⟨4, [some 5, some 7]⟩]], Option.none) := by
  decide +kernel

end SqlObjVerif.PyCreate
