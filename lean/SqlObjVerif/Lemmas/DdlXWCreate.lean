import SqlObjVerif.Lemmas.DdlXWMain
/-!
# C14 translation (stateful part) — `SQLObject.createIndexes` = `createIdx`, `SQLObject.createTable` = `createTableG`
-/
namespace SqlObjVerif.DdlX
open SqlObjVerif.Ddl
open SqlObjVerif.PyDdl hiding Str isUpperC
open SqlObjVerif.PyDdl.Extracted

variable {x : ClsX}

@[simp] theorem truthy_ixV (decl : Decl) (ix : Index) : truthy (ixV decl ix) = true := rfl

/-- the loop of `createIndexes` -/
theorem createIdx_loop (n : Nat) (d : Dialect) (c : Caps) (decl : Decl) (c0 : Val)
    (ht : 32 ∉ decl.tableName) (l : List Index) (hb : ∀ ix ∈ l, 32 ∉ ix.name) : ∀ (w : Cat) (env : Env),
      env 0 = some (soClassV decl c0 x) → env 3 = some (connV d c) →
      match createIdx decl.tableName (l.map (·.name)) w with
      | .ok w' => ∃ env', forLoopW (loopStepW 4 fun w e => Block.execW (callNW prog ddlI EX (n + 3))
          (callN prog ddlI (n + 3)) IX EX w e SQLObject__createIndexes_for0) (l.map (ixV decl)) w env = .norm w' env'
      | .error _ => ∃ w' env', forLoopW (loopStepW 4 fun w e => Block.execW (callNW prog ddlI EX (n + 3))
          (callN prog ddlI (n + 3)) IX EX w e SQLObject__createIndexes_for0) (l.map (ixV decl)) w env =
            .exc w' env' .operationalError := by
  induction l with
  | nil => intro w env _ _; exact ⟨env, rfl⟩
  | cons ix l ih =>
    intro w env h0 h3
    have hc := connCreateIndex n d c decl c0 x ix w ht (hb ix (by simp))
    have ih' := ih (fun k hk => hb k (by simp [hk]))
    simp only [List.map_cons, createIdx]
    by_cases hm : (decl.tableName, ix.name) ∈ w.indexes
    · simp only [hm, if_true]
      refine ⟨w, env.put 4 (ixV decl ix), ?_⟩
      pyw [forLoopW, loopStepW, SQLObject__createIndexes_for0, indexRes, hm]
    · simp only [hm, if_false]
      have := ih' { w with indexes := w.indexes ++ [(decl.tableName, ix.name)] } (env.put 4 (ixV decl ix))
        (by simpa using h0) (by simpa using h3)
      revert this
      cases createIdx decl.tableName (l.map (·.name)) { w with indexes := w.indexes ++ [(decl.tableName, ix.name)] } <;>
        intro this
      · obtain ⟨w', env', h⟩ := this
        refine ⟨w', env', ?_⟩
        rw [← h]; pyw [forLoopW, loopStepW, SQLObject__createIndexes_for0, indexRes, hm]
      · obtain ⟨env', h⟩ := this
        refine ⟨env', ?_⟩
        rw [← h]; pyw [forLoopW, loopStepW, SQLObject__createIndexes_for0, indexRes, hm]

/-- **`SQLObject.createIndexes(ifNotExists, connection)` translated = `createIdx`** (the flag is ignored, as in the
    model; all seven dialects) -/
theorem createIndexes_eq (n : Nat) (d : Dialect) (c : Caps) (decl : Decl) (c0 : Val) (ine : Bool)
    (w : Cat) (ht : 32 ∉ decl.tableName) (hb : ∀ ix ∈ decl.indexes, 32 ∉ ix.name) :
    agreesW (callNW prog ddlI EX (n + 4) w (.meth C_SQLObject M_createIndexes)
        [soClassV decl c0 x, .bool ine, connV d c])
      (createIdx decl.tableName (decl.indexes.map (·.name)) w) := by
  rw [callXW_succ _ _ _ _ _ res_SQLObject_createIndexes]
  have hl := createIdx_loop (x := x) n d c decl c0 ht decl.indexes hb w
    ((Env.ofArgs [soClassV decl c0 x, .bool ine, connV d c]).put 3 (connV d c)) (by simp) (by simp)
  revert hl
  cases createIdx decl.tableName (decl.indexes.map (·.name)) w <;> intro hl
  · obtain ⟨w', env', h⟩ := hl
    simp only [agreesW]
    pyw [SQLObject__createIndexes_fn, SQLObject__createIndexes, SQLObject__createIndexes_s0,
      SQLObject__createIndexes_s1, metaV]
  · obtain ⟨env', h⟩ := hl
    simp only [agreesW]
    pyw [SQLObject__createIndexes_fn, SQLObject__createIndexes, SQLObject__createIndexes_s0,
      SQLObject__createIndexes_s1, metaV]

/-! ### `createTable` -/

theorem constraints_alter (d : Dialect) (decl : Decl) (hb : 32 ∉ decl.tableName) :
    ∀ s ∈ constraints TX d decl, ∀ w, execSQL s w = .ok w := by
  intro s hs w
  simp only [constraints, List.mem_filterMap] at hs
  obtain ⟨col, _, hcol⟩ := hs
  obtain ⟨name, dbn, kind, nn, uq, alt, ds⟩ := col
  have key : ∀ rest : Str, execSQL (pAT ++ (decl.tableName ++ 32 :: 65 :: 68 :: 68 :: 32 :: 67 :: rest)) w = .ok w :=
    fun rest => exec_alter decl.tableName 65 68 68 32 67 rest w hb (by decide)
  cases d <;> cases kind <;> simp [alterFk] at hcol <;>
    (subst hcol; simpa [lit, pAT] using key _)

/-- a loop `for s in l: conn.query(s)` over statements that leave the catalogue alone -/
theorem query_loop_noop (callW : Cat → Callee → List Val → R Val × Cat) (call : Callee → List Val → R Val)
    (cv : Nat) (body : Block) (sv : Nat)
    (hbody : body = .cons (.expr (.bmeth (.var cv) "query" (.cons (.var sv) .nil))) .nil)
    (l : List Str) (hl : ∀ s ∈ l, ∀ w, execSQL s w = .ok w) (w : Cat) (conn : Val) (hcs : cv ≠ sv) :
    ∀ env : Env, env cv = some conn →
      ∃ env', forLoopW (loopStepW sv fun w e => Block.execW callW call IX EX w e body) (l.map .str) w env = .norm w env' ∧
        ∀ k, k ≠ sv → env' k = env k := by
  subst hbody
  induction l with
  | nil => intro env _; exact ⟨env, rfl, fun _ _ => rfl⟩
  | cons s l ih =>
    intro env hc
    have hs := hl s (by simp) w
    obtain ⟨env', h1, h2⟩ := ih (fun t ht => hl t (by simp [ht])) (env.put sv (.str s))
      (by simp [hcs, hc])
    refine ⟨env', ?_, ?_⟩
    · rw [← h1]
      pyw [forLoopW, loopStepW, hcs]
    · intro k hk; rw [h2 k hk]; simp [hk]

macro "createeval" : tactic =>
  `(tactic| pyw [SQLObject__createTable_fn, SQLObject__createTable, SQLObject__createTable_s0, SQLObject__createTable_s1,
      SQLObject__createTable_s2, SQLObject__createTable_s3, SQLObject__createTable_s4, SQLObject__createTable_s5,
      SQLObject__createTable_s6, SQLObject__createTable_s7, SQLObject__createTable_s8, SQLObject__createTable_s9,
      SQLObject__createTable_s10, forLoopW, createRes, metaV, agreesW, extX, strList,
      createTableG, Ddl.Extracted.createPassesIfNotExists, Ddl.Extracted.createDedupes])

/-- the part of `createTable` after the CREATE TABLE statement: join tables, then indexes -/
def afterCreate (ine cj : Bool) (decl : Decl) (js : List (Option JoinD)) (w1 : Cat) : Except Unit Cat :=
  match (if cj then createLinks ine (linksOf true (linkNames js)) w1 else .ok w1) with
  | .error e => .error e
  | .ok w2 => createIdx decl.tableName (decl.indexes.map (·.name)) w2

/-- the statements of `createTable` after the constraints -/
def createTail : Block :=
  .cons SQLObject__createTable_s7 (.cons SQLObject__createTable_s8 (.cons SQLObject__createTable_s9
    (.cons SQLObject__createTable_s10 .nil)))

theorem createTable_split : SQLObject__createTable =
    .cons SQLObject__createTable_s0 (.cons SQLObject__createTable_s1 (.cons SQLObject__createTable_s2
      (.cons SQLObject__createTable_s3 (.cons SQLObject__createTable_s4 (.cons SQLObject__createTable_s5
        (.cons SQLObject__createTable_s6 createTail)))))) := rfl

set_option maxHeartbeats 2000000 in
/-- the tail of `SQLObject.createTable` from an environment in which the table has been created -/
theorem createTable_tail (n : Nat) (d : Dialect) (c : Caps) (decl : Decl) (c0 : Val)
    (ine cj : Bool) (w1 : Cat) (env : Env)
    (hb : 32 ∉ decl.tableName) (hbl : ∀ j ∈ joinsToCreateX x.joins, 32 ∉ j.join.table)
    (hbi : ∀ ix ∈ decl.indexes, 32 ∉ ix.name)
    (e0 : env 0 = some (soClassV decl c0 x)) (e1 : env 1 = some (.bool ine)) (e2 : env 2 = some (.bool cj))
    (e3 : env 3 = some (.bool true)) (e6 : env 6 = some (connV d c)) (e8 : env 8 = some (.list []))
    (e7 : ∃ v, env 7 = some v) :
    agreesW (Block.execW (callNW prog ddlI EX (n + 10)) (callN prog ddlI (n + 10)) IX EX w1 env createTail).out
      (afterCreate ine cj decl x.joins w1) := by
  unfold createTail
  obtain ⟨v7, e7⟩ := e7
  have hj : ∀ w, agreesW (callNW prog ddlI EX (n + 10) w (.meth C_SQLObject M_createJoinTables)
      [soClassV decl c0 x, .bool ine, connV d c]) (createLinks ine (linksOf true (linkNames x.joins)) w) :=
    fun w => createJoinTables_eq (x := x) (n + 6) d c decl c0 ine w hbl
  have hi : ∀ w, agreesW (callNW prog ddlI EX (n + 10) w (.meth C_SQLObject M_createIndexes)
      [soClassV decl c0 x, .bool ine, connV d c]) (createIdx decl.tableName (decl.indexes.map (·.name)) w) :=
    fun w => createIndexes_eq (x := x) (n + 6) d c decl c0 ine w hb hbi
  cases cj
  · -- no join tables
    have hi1 := hi w1
    simp only [afterCreate, Bool.false_eq_true, if_false]
    cases hx : createIdx decl.tableName (decl.indexes.map (·.name)) w1 with
    | ok w3 =>
      rw [hx] at hi1; obtain ⟨v, hv⟩ := agreesW_ok hi1
      pyw [SQLObject__createTable_s7, SQLObject__createTable_s8, SQLObject__createTable_s9, SQLObject__createTable_s10,
        forLoopW, agreesW]
    | error e =>
      rw [hx] at hi1; obtain ⟨w', hv⟩ := agreesW_error hi1
      pyw [SQLObject__createTable_s7, SQLObject__createTable_s8, SQLObject__createTable_s9, SQLObject__createTable_s10,
        forLoopW, agreesW]
  · have hj1 := hj w1
    simp only [afterCreate, if_true]
    cases hl : createLinks ine (linksOf true (linkNames x.joins)) w1 with
    | error e =>
      rw [hl] at hj1; obtain ⟨w', hv⟩ := agreesW_error hj1
      pyw [SQLObject__createTable_s7, SQLObject__createTable_s8, SQLObject__createTable_s9, SQLObject__createTable_s10,
        forLoopW, agreesW]
    | ok w2 =>
      rw [hl] at hj1; obtain ⟨vj, hvj⟩ := agreesW_ok hj1
      have hi2 := hi w2
      cases hx : createIdx decl.tableName (decl.indexes.map (·.name)) w2 with
      | ok w3 =>
        rw [hx] at hi2; obtain ⟨v, hv⟩ := agreesW_ok hi2
        pyw [SQLObject__createTable_s7, SQLObject__createTable_s8, SQLObject__createTable_s9,
          SQLObject__createTable_s10, forLoopW, agreesW]
      | error e =>
        rw [hx] at hi2; obtain ⟨w', hv⟩ := agreesW_error hi2
        pyw [SQLObject__createTable_s7, SQLObject__createTable_s8, SQLObject__createTable_s9,
          SQLObject__createTable_s10, forLoopW, agreesW]

theorem createTableG_missing (ine cj : Bool) (decl : Decl) (js : List (Option JoinD)) (w : Cat)
    (hm : decl.tableName ∉ w.tables) :
    createTableG Ddl.Extracted.createPassesIfNotExists Ddl.Extracted.createDedupes ine cj
        ⟨decl.tableName, linkNames js, decl.indexes.map (·.name)⟩ w =
      afterCreate ine cj decl js (addTbl decl.tableName w) := by
  cases cj
  · simp [createTableG, afterCreate, hm, Ddl.Extracted.createPassesIfNotExists, Ddl.Extracted.createDedupes]
  · simp only [createTableG, afterCreate, hm, Ddl.Extracted.createPassesIfNotExists, Ddl.Extracted.createDedupes,
      and_false, if_false, if_true, Bool.true_and]
    cases createLinks ine (linksOf true (linkNames js)) (addTbl decl.tableName w) <;> rfl

macro "headeval'" : tactic =>
  `(tactic| pyw [SQLObject__createTable_fn, createTable_split, SQLObject__createTable_s0, SQLObject__createTable_s1,
      SQLObject__createTable_s2, SQLObject__createTable_s3, SQLObject__createTable_s4, SQLObject__createTable_s5,
      SQLObject__createTable_s6, createRes, metaV, extX, strList])

macro "headeval" : tactic =>
  `(tactic| pyw [SQLObject__createTable_fn, createTable_split, SQLObject__createTable_s0, SQLObject__createTable_s1,
      SQLObject__createTable_s2, SQLObject__createTable_s3, SQLObject__createTable_s4, SQLObject__createTable_s5,
      SQLObject__createTable_s6, createRes, metaV, agreesW, extX, strList,
      createTableG, Ddl.Extracted.createPassesIfNotExists, Ddl.Extracted.createDedupes])

set_option maxHeartbeats 2000000 in
/-- **`SQLObject.createTable(ifNotExists, createJoinTables, createIndexes=True, applyConstraints, connection)`
    translated = `createTableG`** of the catalogue model with the flags read from the source
    (`createPassesIfNotExists`, `createDedupes`): the `tableExists` early return, `conn.createTable` (CREATE TABLE; the
    ALTER TABLE constraints executed or handed back: no effect on the catalogue), `createJoinTables` with the flag
    handed on, `createIndexes`.  All seven connection classes. -/
theorem createTable_eq (n : Nat) (d : Dialect) (c : Caps) (decl : Decl) (c0 : Val)
    (ine cj ac : Bool) (w : Cat) (text : Str) (ht : createTableSQL TX d c decl = some text)
    (hb : 32 ∉ decl.tableName) (hbl : ∀ j ∈ joinsToCreateX x.joins, 32 ∉ j.join.table)
    (hbi : ∀ ix ∈ decl.indexes, 32 ∉ ix.name) :
    agreesW (callNW prog ddlI EX (n + 11) w (.meth C_SQLObject M_createTable)
        [soClassV decl c0 x, .bool ine, .bool cj, .bool true, .bool ac, connV d c])
      (createTableG Ddl.Extracted.createPassesIfNotExists Ddl.Extracted.createDedupes ine cj
        ⟨decl.tableName, linkNames x.joins, decl.indexes.map (·.name)⟩ w) := by
  rw [callXW_succ _ _ _ _ _ res_SQLObject_createTable]
  have hct := connCreateTable (x := x) n d c decl c0 w text ht hb
  by_cases hm : decl.tableName ∈ w.tables
  · cases ine <;> headeval
  · rw [createTableG_missing ine cj decl x.joins w hm]
    cases ac
    · -- the constraints are handed back in `extra_sql`
      cases ine <;> headeval' <;>
        (refine createTable_tail (x := x) n d c decl c0 _ cj _ _ hb hbl hbi ?_ ?_ ?_ ?_ ?_ ?_ ?_ <;> simp)
    · -- the constraints are executed: ALTER TABLE … ADD CONSTRAINT, no effect on the catalogue
      obtain ⟨env', h1, h2⟩ := query_loop_noop (callNW prog ddlI EX (n + 10)) (callN prog ddlI (n + 10)) 6
        SQLObject__createTable_for0 10 rfl (constraints TX d decl) (constraints_alter d decl hb)
        (addTbl decl.tableName w) (connV d c) (by decide)
        (((((Env.ofArgs [soClassV decl c0 x, .bool ine, .bool cj, .bool true, .bool true, connV d c]).put 6
          (connV d c)).put 7 (.list [])).put 8 (.list [])).put 9 (strList (constraints TX d decl))) (by simp)
      have e0 := h2 0 (by decide); have e1 := h2 1 (by decide); have e2 := h2 2 (by decide)
      have e3 := h2 3 (by decide); have e6 := h2 6 (by decide); have e7 := h2 7 (by decide)
      have e8 := h2 8 (by decide)
      simp only [Env.put_apply, Env.ofArgs_zero, Env.ofArgs_succ, strList] at e0 e1 e2 e3 e6 e7 e8 h1
      have ht' := createTable_tail (x := x) n d c decl c0 ine cj (addTbl decl.tableName w) env' hb hbl hbi
        (by simpa using e0) (by simpa using e1) (by simpa using e2) (by simpa using e3) (by simpa using e6)
        (by simpa using e8) ⟨_, by simpa using e7⟩
      cases ine <;> headeval' <;> exact ht'

end SqlObjVerif.DdlX
