import SqlObjVerif.Model.ExprX
/-!
# C03 translation — what each translated function of sqlbuilder.py / converters.py computes

One theorem per translated function, for EVERY interface `I` (the calls a function makes are hypotheses or appear in
the result), every receiver / argument value and every dialect string.  The right-hand sides are the hand model's
own vocabulary: `opStr` / `wrapStr` (the paren rule), `prefixStr`, `modStr`, `seqStr`, `mkOp` / `mkPrefix` and the
operator tables of `Extracted/Expr.lean` (`ovArgs Extracted.add …`).
-/
namespace SqlObjVerif.ExprX
open SqlObjVerif.PyExpr SqlObjVerif.PyExpr.Extracted

def _root_.SqlObjVerif.PyExpr.R.toOut : R Val → Out
  | .ok v => .ret v
  | .exc e => .exc e
  | .stuck => .stuck

@[simp] theorem toOut_ok (v : Val) : (R.ok v).toOut = .ret v := rfl
@[simp] theorem toOut_exc (e : Exc) : (R.exc e : R Val).toOut = .exc e := rfl
@[simp] theorem toOut_stuck : (R.stuck : R Val).toOut = .stuck := rfl
@[simp] theorem toOut_toR (r : R Val) : r.toOut.toR = r := by cases r <;> rfl

theorem withR_ret_out (env : Env) (r : R Val) : (withR env r fun v => Res.ret env v).out = r.toOut := by
  cases r <;> simp

@[simp] theorem withR_seq (env : Env) (r : R Val) (f : Val → Res) (k : Env → Res) :
    (withR env r f).seq k = withR env r fun v => (f v).seq k := by
  cases r <;> simp

@[simp] theorem withRs_seq (env : Env) (r : R (List Val)) (f : List Val → Res) (k : Env → Res) :
    (withRs env r f).seq k = withRs env r fun v => (f v).seq k := by
  cases r <;> simp

theorem Env.put_same (env : Env) (x : Nat) (v : Val) (h : env x = some v) : env.put x v = env := by
  funext y; simp only [Env.put_apply]; split
  · next h' => rw [h', h]
  · rfl

/-- symbolic evaluation of a translated block -/
macro "pyx" : tactic => `(tactic|
  simp [run, runInit, Block.exec, Stmt.exec, PyExpr.Expr.eval, Exprs.eval, Env.ofArgs, callFn, attrOf, Target.bind, bindAll,
    pyFormat, setAttrOf, aset, aget, strMethod, withR_ret_out, *])

/-! ## constructors -/

/-- `SQLOp.__init__`: the operator is upper-cased, a `Subquery` first operand is swapped to the right -/
theorem SQLOp_init_spec (I : Iface) (c : String) (op : Str) (a b : Val) :
    runInit I SQLOp_init [.obj c [], .str op, a, b] =
      .ok (if I.isSub (typeName a) "Subquery" then mkOp c (op.map upperC) b a else mkOp c (op.map upperC) a b) := by
  simp only [SQLOp_init, SQLOp_init_s0, SQLOp_init_s1, SQLOp_init_s2, SQLOp_init_s3]
  cases h : I.isSub (typeName a) "Subquery" <;> pyx <;> simp [mkOp]

/-- `SQLModulo.__init__` is `SQLOp.__init__(self, '%', expr1, expr2)` -/
theorem SQLModulo_init_spec (I : Iface) (self a b : Val) :
    runInit I SQLModulo_init [self, a, b] = I.clsInit "SQLOp" self [.str [37], a, b] := by
  simp only [SQLModulo_init, SQLModulo_init_s0]
  pyx
  cases I.clsInit "SQLOp" self [.str [37], a, b] <;> simp

theorem SQLPrefix_init_spec (I : Iface) (p x : Val) :
    runInit I SQLPrefix_init [.obj "SQLPrefix" [], p, x] = .ok (.obj "SQLPrefix" [("prefix", p), ("expr", x)]) := by
  simp only [SQLPrefix_init, SQLPrefix_init_s0, SQLPrefix_init_s1]
  pyx

theorem SQLCall_init_spec (I : Iface) (c : String) (e a : Val) :
    runInit I SQLCall_init [.obj c [], e, a] = .ok (.obj c [("expr", e), ("args", a)]) := by
  simp only [SQLCall_init, SQLCall_init_s0, SQLCall_init_s1]
  pyx

theorem SQLConstant_init_spec (I : Iface) (c : String) (k : Val) :
    runInit I SQLConstant_init [.obj c [], k] = .ok (.obj c [("const", k)]) := by
  simp only [SQLConstant_init, SQLConstant_init_s0]
  pyx

theorem Field_init_spec (I : Iface) (c : String) (t f : Val) :
    runInit I Field_init [.obj c [], t, f] = .ok (.obj c [("tableName", t), ("fieldName", f)]) := by
  simp only [Field_init, Field_init_s0, Field_init_s1]
  pyx

theorem INSubquery_init_spec (I : Iface) (c : String) (item sub : Val) :
    runInit I INSubquery_init [.obj c [], item, sub] = .ok (.obj c [("item", item), ("subquery", sub)]) := by
  simp only [INSubquery_init, INSubquery_init_s0, INSubquery_init_s1]
  pyx

/-! ## renderers -/

theorem wrapStr_cons (c : Nat) (t : Str) :
    wrapStr (c :: t) = if c = 40 ∨ (c :: t) = nullText then c :: t else 40 :: (c :: t ++ [41]) := by
  simp [wrapStr]

/-- the statement `if s1[0] != '(' and s1 != 'NULL': s1 = '(' + s1 + ')'` applies `wrapStr` to slot 2 -/
theorem SQLOp_sqlrepr_s2_exec (I : Iface) (env : Env) (s : Str) (hs : s ≠ []) (h2 : env 2 = some (.str s)) :
    Stmt.exec I env SQLOp_sqlrepr_s2 = .norm (env.put 2 (.str (wrapStr s))) := by
  cases s with
  | nil => exact absurd rfl hs
  | cons c t =>
  rw [wrapStr_cons]
  by_cases hc : c = 40
  · subst hc
    rw [Env.put_same _ _ _ (by simpa using h2)]
    simp only [SQLOp_sqlrepr_s2]; pyx
  · by_cases hn : (c :: t) = nullText
    · rw [if_pos (Or.inr hn), Env.put_same _ _ _ h2]
      simp only [SQLOp_sqlrepr_s2]; simp only [nullText] at hn; pyx
    · rw [if_neg (by simp [hc, hn])]
      simp only [SQLOp_sqlrepr_s2]; simp only [nullText] at hn; pyx
      intro a b; subst a b; exact absurd rfl hn

/-- the statement `if s2[0] != '(' and s2 != 'NULL' and not isinstance(self.expr2, Subquery): …` -/
theorem SQLOp_sqlrepr_s3_exec (I : Iface) (env : Env) (s : Str) (c : String) (fs : List (String × Val)) (e2 : Val)
    (hs : s ≠ []) (h3 : env 3 = some (.str s)) (h0 : env 0 = some (.obj c fs)) (he : aget "expr2" fs = some e2) :
    Stmt.exec I env SQLOp_sqlrepr_s3 =
      .norm (env.put 3 (.str (if I.isSub (typeName e2) "Subquery" then s else wrapStr s))) := by
  cases s with
  | nil => exact absurd rfl hs
  | cons c t =>
  cases hsub : I.isSub (typeName e2) "Subquery"
  · simp only [Bool.false_eq_true, if_false]
    rw [wrapStr_cons]
    by_cases hc : c = 40
    · subst hc
      rw [Env.put_same _ _ _ (by simpa using h3)]
      simp only [SQLOp_sqlrepr_s3]; pyx
    · by_cases hn : (c :: t) = nullText
      · rw [if_pos (Or.inr hn), Env.put_same _ _ _ h3]
        simp only [SQLOp_sqlrepr_s3]; simp only [nullText] at hn; pyx
      · rw [if_neg (by simp [hc, hn])]
        simp only [SQLOp_sqlrepr_s3]; simp only [nullText] at hn
        have hn' : ¬c = 78 ∨ ¬t = [85, 76, 76] := by
          by_cases h78 : c = 78
          · right; intro ht; exact hn (by rw [h78, ht])
          · left; exact h78
        pyx
  · simp only [if_true]
    rw [Env.put_same _ _ _ h3]
    simp only [SQLOp_sqlrepr_s3]
    by_cases hc : c = 40
    · subst hc; pyx
    · by_cases hn : (c :: t) = nullText
      · simp only [nullText] at hn; pyx
      · simp only [nullText] at hn
        have hn' : ¬c = 78 ∨ ¬t = [85, 76, 76] := by
          by_cases h78 : c = 78
          · right; intro ht; exact hn (by rw [h78, ht])
          · left; exact h78
        pyx

/-- `SQLOp.__sqlrepr__`: `(s1 op s2)` with the paren rule applied to the operand renderings, for every operator
    string, every dialect value and every operand rendering (an empty rendering makes `s1[0]` raise IndexError) -/
theorem SQLOp_sqlrepr_spec (I : Iface) (cls : String) (fs : List (String × Val)) (db : Val) (op s1 s2 : Str)
    (e1 e2 : Val) (hop : aget "op" fs = some (.str op)) (h1 : aget "expr1" fs = some e1)
    (h2 : aget "expr2" fs = some e2)
    (hs1 : I.call "sqlrepr" [e1, db] = .ok (.str s1)) (hs2 : I.call "sqlrepr" [e2, db] = .ok (.str s2))
    (hn1 : s1 ≠ []) (hn2 : s2 ≠ []) :
    run I SQLOp_sqlrepr [.obj cls fs, db] = .ret (.str (opStr op s1 s2 (I.isSub (typeName e2) "Subquery"))) := by
  have hsr : ("sqlrepr" = "int") = False := by decide
  have hsr2 : ("sqlrepr" = "repr") = False := by decide
  simp only [SQLOp_sqlrepr, run, Block.exec]
  have e0 : Stmt.exec I (Env.ofArgs [.obj cls fs, db]) SQLOp_sqlrepr_s0 =
      .norm ((Env.ofArgs [.obj cls fs, db]).put 2 (.str s1)) := by
    simp only [SQLOp_sqlrepr_s0]; pyx
  rw [e0, Res.seq_norm]
  have e1' : Stmt.exec I ((Env.ofArgs [.obj cls fs, db]).put 2 (.str s1)) SQLOp_sqlrepr_s1 =
      .norm (((Env.ofArgs [.obj cls fs, db]).put 2 (.str s1)).put 3 (.str s2)) := by
    simp only [SQLOp_sqlrepr_s1]; pyx
  rw [e1', Res.seq_norm, SQLOp_sqlrepr_s2_exec I _ s1 hn1 rfl, Res.seq_norm,
    SQLOp_sqlrepr_s3_exec I _ s2 cls fs e2 hn2 rfl rfl h2, Res.seq_norm]
  simp only [SQLOp_sqlrepr_s4]
  pyx
  simp [opStr]

theorem SQLOp_sqlrepr_empty (I : Iface) (cls : String) (fs : List (String × Val)) (db : Val) (s2 : Str)
    (e1 e2 : Val) (h1 : aget "expr1" fs = some e1) (h2 : aget "expr2" fs = some e2)
    (hs1 : I.call "sqlrepr" [e1, db] = .ok (.str [])) (hs2 : I.call "sqlrepr" [e2, db] = .ok (.str s2)) :
    run I SQLOp_sqlrepr [.obj cls fs, db] = .exc .indexError := by
  simp only [SQLOp_sqlrepr, SQLOp_sqlrepr_s0, SQLOp_sqlrepr_s1, SQLOp_sqlrepr_s2]
  pyx

/-- `SQLModulo.__sqlrepr__`: `SQLOp.__sqlrepr__(self, db)` when `db == 'sqlite'`, else `MOD(s1, s2)` -/
theorem SQLModulo_sqlrepr_spec (I : Iface) (cls : String) (fs : List (String × Val)) (d s1 s2 : Str)
    (e1 e2 : Val) (h1 : aget "expr1" fs = some e1) (h2 : aget "expr2" fs = some e2)
    (hs1 : I.call "sqlrepr" [e1, .str d] = .ok (.str s1)) (hs2 : I.call "sqlrepr" [e2, .str d] = .ok (.str s2)) :
    run I SQLModulo_sqlrepr [.obj cls fs, .str d] =
      if d = sqliteText then (I.clsCall "SQLOp" "__sqlrepr__" [.obj cls fs, .str d]).toOut
      else .ret (.str (modStr s1 s2)) := by
  simp only [SQLModulo_sqlrepr, SQLModulo_sqlrepr_s0, SQLModulo_sqlrepr_s1, SQLModulo_sqlrepr_s2,
    SQLModulo_sqlrepr_s3]
  by_cases hd : d = sqliteText
  · rw [if_pos hd]; simp only [sqliteText] at hd; subst hd; pyx
  · rw [if_neg hd]; simp only [sqliteText] at hd; pyx; simp [modStr, modFnText]

/-- `SQLPrefix.__sqlrepr__`: `<prefix> <operand>` -/
theorem SQLPrefix_sqlrepr_spec (I : Iface) (cls : String) (fs : List (String × Val)) (db : Val) (p s : Str)
    (e : Val) (hp : aget "prefix" fs = some (.str p)) (he : aget "expr" fs = some e)
    (hs : I.call "sqlrepr" [e, db] = .ok (.str s)) :
    run I SQLPrefix_sqlrepr [.obj cls fs, db] = .ret (.str (prefixStr p s)) := by
  simp only [SQLPrefix_sqlrepr, SQLPrefix_sqlrepr_s0]
  pyx
  simp [prefixStr]

/-- `SQLCall.__sqlrepr__`: the function text followed by the rendered argument tuple -/
theorem SQLCall_sqlrepr_spec (I : Iface) (cls : String) (fs : List (String × Val)) (db : Val) (s1 s2 : Str)
    (e a : Val) (he : aget "expr" fs = some e) (ha : aget "args" fs = some a)
    (hs1 : I.call "sqlrepr" [e, db] = .ok (.str s1)) (hs2 : I.call "sqlrepr" [a, db] = .ok (.str s2)) :
    run I SQLCall_sqlrepr [.obj cls fs, db] = .ret (.str (s1 ++ s2)) := by
  simp only [SQLCall_sqlrepr, SQLCall_sqlrepr_s0]
  pyx

theorem SQLConstant_sqlrepr_spec (I : Iface) (cls : String) (fs : List (String × Val)) (db k : Val)
    (hk : aget "const" fs = some k) : run I SQLConstant_sqlrepr [.obj cls fs, db] = .ret k := by
  simp only [SQLConstant_sqlrepr, SQLConstant_sqlrepr_s0]
  pyx

/-- `SQLTrueClause` renders `1 = 1` -/
theorem SQLTrueClause_sqlrepr_spec (I : Iface) (self db : Val) :
    run I SQLTrueClauseClass_sqlrepr [self, db] = .ret (.str [49, 32, 61, 32, 49]) := by
  simp only [SQLTrueClauseClass_sqlrepr, SQLTrueClauseClass_sqlrepr_s0]
  pyx

/-- `Field.__sqlrepr__`: `tableName.fieldName` -/
theorem Field_sqlrepr_spec (I : Iface) (cls : String) (fs : List (String × Val)) (db : Val) (t f : Str)
    (ht : aget "tableName" fs = some (.str t)) (hf : aget "fieldName" fs = some (.str f)) :
    run I Field_sqlrepr [.obj cls fs, db] = .ret (.str (t ++ 46 :: f)) := by
  simp only [Field_sqlrepr, Field_sqlrepr_s0]
  pyx

/-- `INSubquery.__sqlrepr__`: `<item> <op> (<subquery>)` — the item is NOT parenthesised -/
theorem INSubquery_sqlrepr_spec (I : Iface) (cls : String) (fs : List (String × Val)) (db : Val) (op s1 s2 : Str)
    (item sub : Val) (hi : aget "item" fs = some item) (hq : aget "subquery" fs = some sub)
    (ho : aget "op" fs = Option.none) (hc : I.classAttr cls "op" = some (.str op))
    (hs1 : I.call "sqlrepr" [item, db] = .ok (.str s1)) (hs2 : I.call "sqlrepr" [sub, db] = .ok (.str s2)) :
    run I INSubquery_sqlrepr [.obj cls fs, db] = .ret (.str (s1 ++ 32 :: (op ++ 32 :: 40 :: (s2 ++ [41])))) := by
  simp only [INSubquery_sqlrepr, INSubquery_sqlrepr_s0]
  pyx

/-! ## converters of expression leaves -/

theorem IntConverter_spec (I : Iface) (i : Int) (db : Val) :
    run I f_IntConverter [.int i, db] = .ret (.str (I.reprInt i)) := by
  simp only [f_IntConverter, f_IntConverter_s0]
  pyx

theorem FloatConverter_spec (I : Iface) (n : Bool) (i : Nat) (db : Val) :
    run I f_FloatConverter [.flt n i, db] = .ret (.str (I.reprFlt n i)) := by
  simp only [f_FloatConverter, f_FloatConverter_s0]
  pyx

theorem NoneConverter_spec (I : Iface) (v db : Val) :
    run I f_NoneConverter [v, db] = .ret (.str nullText) := by
  simp only [f_NoneConverter, f_NoneConverter_s0]
  pyx
  rfl

theorem mapR_ok_of {α β : Type} (f : α → R β) (g : α → β) (l : List α) (h : ∀ a ∈ l, f a = .ok (g a)) :
    mapR f l = .ok (l.map g) := by
  induction l with
  | nil => rfl
  | cons a l ih =>
    simp only [mapR, h a (List.mem_cons_self), R.bind_ok, ih fun x hx => h x (List.mem_cons_of_mem _ hx),
      List.map_cons]

theorem strsOf_map (l : List Str) : strsOf (l.map Val.str) = some l := by
  induction l with
  | nil => rfl
  | cons a l ih => simp [strsOf, ih]

/-- `SequenceConverter`: `(` + the items' renderings joined by `, ` + `)`, for a list or a tuple -/
theorem SequenceConverter_spec (I : Iface) (vs : List Val) (db : Val) (g : Val → Str)
    (h : ∀ v ∈ vs, I.call "sqlrepr" [v, db] = .ok (.str (g v))) :
    run I f_SequenceConverter [.list vs, db] = .ret (.str (seqStr (vs.map g))) ∧
    run I f_SequenceConverter [.tuple vs, db] = .ret (.str (seqStr (vs.map g))) := by
  have hm : mapR (fun v => I.call "sqlrepr" [v, db]) vs = .ok (vs.map fun v => .str (g v)) :=
    mapR_ok_of _ _ vs h
  have hs : strsOf (vs.map fun v => Val.str (g v)) = some (vs.map g) := by
    have := strsOf_map (vs.map g); rwa [List.map_map] at this
  constructor <;>
  · simp only [f_SequenceConverter, f_SequenceConverter_s0]
    pyx
    simp [seqStr]

/-! ## operator overloads of `SQLExpression` / `SQLObjectField` -/

/-- the arguments of the `SQLOp(…)` call an overloaded binary operator makes -/
def ovArgs (ov : Expr.OvBin) (self other : Val) : List Val :=
  if ov.swapped then [.str (binText ov.op), other, self] else [.str (binText ov.op), self, other]

macro "ovx" d:ident s:ident e:ident : tactic => `(tactic|
  (simp only [$d:ident, $s:ident]; pyx; simp [ovArgs, $e:ident, binText, preText]))

theorem add_spec (I : Iface) (a b : Val) :
    run I SQLExpression_add [a, b] = (I.call "SQLOp" (ovArgs Expr.Extracted.add a b)).toOut := by
  ovx SQLExpression_add SQLExpression_add_s0 Expr.Extracted.add
theorem radd_spec (I : Iface) (a b : Val) :
    run I SQLExpression_radd [a, b] = (I.call "SQLOp" (ovArgs Expr.Extracted.radd a b)).toOut := by
  ovx SQLExpression_radd SQLExpression_radd_s0 Expr.Extracted.radd
theorem sub_spec (I : Iface) (a b : Val) :
    run I SQLExpression_sub [a, b] = (I.call "SQLOp" (ovArgs Expr.Extracted.sub a b)).toOut := by
  ovx SQLExpression_sub SQLExpression_sub_s0 Expr.Extracted.sub
theorem rsub_spec (I : Iface) (a b : Val) :
    run I SQLExpression_rsub [a, b] = (I.call "SQLOp" (ovArgs Expr.Extracted.rsub a b)).toOut := by
  ovx SQLExpression_rsub SQLExpression_rsub_s0 Expr.Extracted.rsub
theorem mul_spec (I : Iface) (a b : Val) :
    run I SQLExpression_mul [a, b] = (I.call "SQLOp" (ovArgs Expr.Extracted.mul a b)).toOut := by
  ovx SQLExpression_mul SQLExpression_mul_s0 Expr.Extracted.mul
theorem rmul_spec (I : Iface) (a b : Val) :
    run I SQLExpression_rmul [a, b] = (I.call "SQLOp" (ovArgs Expr.Extracted.rmul a b)).toOut := by
  ovx SQLExpression_rmul SQLExpression_rmul_s0 Expr.Extracted.rmul
theorem truediv_spec (I : Iface) (a b : Val) :
    run I SQLExpression_truediv [a, b] = (I.call "SQLOp" (ovArgs Expr.Extracted.div a b)).toOut := by
  ovx SQLExpression_truediv SQLExpression_truediv_s0 Expr.Extracted.div
theorem rtruediv_spec (I : Iface) (a b : Val) :
    run I SQLExpression_rtruediv [a, b] = (I.call "SQLOp" (ovArgs Expr.Extracted.rdiv a b)).toOut := by
  ovx SQLExpression_rtruediv SQLExpression_rtruediv_s0 Expr.Extracted.rdiv
theorem lt_spec (I : Iface) (a b : Val) :
    run I SQLExpression_lt [a, b] = (I.call "SQLOp" (ovArgs Expr.Extracted.lt a b)).toOut := by
  ovx SQLExpression_lt SQLExpression_lt_s0 Expr.Extracted.lt
theorem le_spec (I : Iface) (a b : Val) :
    run I SQLExpression_le [a, b] = (I.call "SQLOp" (ovArgs Expr.Extracted.le a b)).toOut := by
  ovx SQLExpression_le SQLExpression_le_s0 Expr.Extracted.le
theorem gt_spec (I : Iface) (a b : Val) :
    run I SQLExpression_gt [a, b] = (I.call "SQLOp" (ovArgs Expr.Extracted.gt a b)).toOut := by
  ovx SQLExpression_gt SQLExpression_gt_s0 Expr.Extracted.gt
theorem ge_spec (I : Iface) (a b : Val) :
    run I SQLExpression_ge [a, b] = (I.call "SQLOp" (ovArgs Expr.Extracted.ge a b)).toOut := by
  ovx SQLExpression_ge SQLExpression_ge_s0 Expr.Extracted.ge
theorem and_spec (I : Iface) (a b : Val) :
    run I SQLExpression_and [a, b] = (I.call "SQLOp" (ovArgs Expr.Extracted.andOp a b)).toOut := by
  ovx SQLExpression_and SQLExpression_and_s0 Expr.Extracted.andOp
theorem or_spec (I : Iface) (a b : Val) :
    run I SQLExpression_or [a, b] = (I.call "SQLOp" (ovArgs Expr.Extracted.orOp a b)).toOut := by
  ovx SQLExpression_or SQLExpression_or_s0 Expr.Extracted.orOp

theorem neg_spec (I : Iface) (a : Val) :
    run I SQLExpression_neg [a] = (I.call "SQLPrefix" [.str (preText Expr.Extracted.negOp), a]).toOut := by
  ovx SQLExpression_neg SQLExpression_neg_s0 Expr.Extracted.negOp
theorem pos_spec (I : Iface) (a : Val) :
    run I SQLExpression_pos [a] = (I.call "SQLPrefix" [.str (preText Expr.Extracted.posOp), a]).toOut := by
  ovx SQLExpression_pos SQLExpression_pos_s0 Expr.Extracted.posOp
theorem invert_spec (I : Iface) (a : Val) :
    run I SQLExpression_invert [a] = (I.call "SQLPrefix" [.str (preText Expr.Extracted.invertOp), a]).toOut := by
  ovx SQLExpression_invert SQLExpression_invert_s0 Expr.Extracted.invertOp
theorem mod_spec (I : Iface) (a b : Val) :
    run I SQLExpression_mod [a, b] = (I.call "SQLModulo" [a, b]).toOut := by
  simp only [SQLExpression_mod, SQLExpression_mod_s0]; pyx

/-- what `__eq__` / `__ne__` call when the other side is `None` -/
def noneCall (I : Iface) (rule : Expr.NoneRule) (ov : Expr.OvBin) (self : Val) : R Val :=
  match rule with
  | .isNull => I.call "ISNULL" [self]
  | .isNotNull => I.call "ISNOTNULL" [self]
  | .fallThrough => I.call "SQLOp" (ovArgs ov self .none)

/-- `SQLExpression.__eq__`: `ISNULL(self)` for `None`, else `SQLOp("=", self, other)` -/
theorem eq_spec (I : Iface) (a b : Val) :
    run I SQLExpression_eq [a, b] =
      if isNoneV b then (noneCall I Expr.Extracted.exprEqNone Expr.Extracted.exprEq a).toOut
      else (I.call "SQLOp" (ovArgs Expr.Extracted.exprEq a b)).toOut := by
  simp only [SQLExpression_eq, SQLExpression_eq_s0]
  cases h : isNoneV b <;> pyx <;> simp [ovArgs, noneCall, Expr.Extracted.exprEq, Expr.Extracted.exprEqNone, binText]

theorem ne_spec (I : Iface) (a b : Val) :
    run I SQLExpression_ne [a, b] =
      if isNoneV b then (noneCall I Expr.Extracted.exprNeNone Expr.Extracted.exprNe a).toOut
      else (I.call "SQLOp" (ovArgs Expr.Extracted.exprNe a b)).toOut := by
  simp only [SQLExpression_ne, SQLExpression_ne_s0]
  cases h : isNoneV b <;> pyx <;> simp [ovArgs, noneCall, Expr.Extracted.exprNe, Expr.Extracted.exprNeNone, binText]

/-- `SQLObjectField.__eq__`: `ISNULL(self)` for `None`, else the other side goes through `self._from_python`
    (whatever that returns or raises) before `SQLOp('=', self, other)` -/
theorem field_eq_spec (I : Iface) (c : String) (fs : List (String × Val)) (b : Val) :
    run I SQLObjectField_eq [.obj c fs, b] =
      if isNoneV b then (noneCall I Expr.Extracted.fieldEqNone Expr.Extracted.fieldEq (.obj c fs)).toOut
      else ((I.method (.obj c fs) "_from_python" [b]).bind fun v =>
        I.call "SQLOp" (ovArgs Expr.Extracted.fieldEq (.obj c fs) v)).toOut := by
  simp only [SQLObjectField_eq, SQLObjectField_eq_s0, SQLObjectField_eq_s1, SQLObjectField_eq_s2]
  cases h : isNoneV b
  · pyx
    cases I.method (.obj c fs) "_from_python" [b] <;>
      simp [ovArgs, Expr.Extracted.fieldEq, binText, withR_ret_out]
  · pyx; simp [noneCall, Expr.Extracted.fieldEqNone]

theorem field_ne_spec (I : Iface) (c : String) (fs : List (String × Val)) (b : Val) :
    run I SQLObjectField_ne [.obj c fs, b] =
      if isNoneV b then (noneCall I Expr.Extracted.fieldNeNone Expr.Extracted.fieldNe (.obj c fs)).toOut
      else ((I.method (.obj c fs) "_from_python" [b]).bind fun v =>
        I.call "SQLOp" (ovArgs Expr.Extracted.fieldNe (.obj c fs) v)).toOut := by
  simp only [SQLObjectField_ne, SQLObjectField_ne_s0, SQLObjectField_ne_s1, SQLObjectField_ne_s2]
  cases h : isNoneV b
  · pyx
    cases I.method (.obj c fs) "_from_python" [b] <;>
      simp [ovArgs, Expr.Extracted.fieldNe, binText, withR_ret_out]
  · pyx; simp [noneCall, Expr.Extracted.fieldNeNone]

/-! ## builder functions -/

theorem AND_nil (I : Iface) : run I f_AND [.tuple []] = .ret .none := by
  simp only [f_AND, f_AND_s0, f_AND_s1, f_AND_s2, f_AND_s3]; pyx

theorem AND_one (I : Iface) (a : Val) : run I f_AND [.tuple [a]] = .ret a := by
  simp only [f_AND, f_AND_s0, f_AND_s1, f_AND_s2, f_AND_s3]; pyx

/-- `AND(a, b, …)` = `SQLOp("AND", a, AND(b, …))` -/
theorem AND_cons (I : Iface) (a b : Val) (rest : List Val) :
    run I f_AND [.tuple (a :: b :: rest)] =
      ((I.call "AND" (b :: rest)).bind fun r => I.call "SQLOp" [.str (binText Expr.Extracted.andFn), a, r]).toOut := by
  simp only [f_AND, f_AND_s0, f_AND_s1, f_AND_s2, f_AND_s3]
  pyx
  cases I.call "AND" (b :: rest) <;> simp [Expr.Extracted.andFn, binText]

theorem OR_nil (I : Iface) : run I f_OR [.tuple []] = .ret .none := by
  simp only [f_OR, f_OR_s0, f_OR_s1, f_OR_s2, f_OR_s3]; pyx

theorem OR_one (I : Iface) (a : Val) : run I f_OR [.tuple [a]] = .ret a := by
  simp only [f_OR, f_OR_s0, f_OR_s1, f_OR_s2, f_OR_s3]; pyx

theorem OR_cons (I : Iface) (a b : Val) (rest : List Val) :
    run I f_OR [.tuple (a :: b :: rest)] =
      ((I.call "OR" (b :: rest)).bind fun r => I.call "SQLOp" [.str (binText Expr.Extracted.orFn), a, r]).toOut := by
  simp only [f_OR, f_OR_s0, f_OR_s1, f_OR_s2, f_OR_s3]
  pyx
  cases I.call "OR" (b :: rest) <;> simp [Expr.Extracted.orFn, binText]

theorem NOT_spec (I : Iface) (a : Val) :
    run I f_NOT [a] = (I.call "SQLPrefix" [.str (preText Expr.Extracted.notFn), a]).toOut := by
  ovx f_NOT f_NOT_s0 Expr.Extracted.notFn

theorem IN0_spec (I : Iface) (a l : Val) : run I f__IN [a, l] = (I.call "SQLOp" [.str inText, a, l]).toOut := by
  simp only [f__IN, f__IN_s0]; pyx; rfl

theorem ISNULL_spec (I : Iface) (a : Val) :
    run I f_ISNULL [a] = (I.call "SQLOp" [.str (binText Expr.Extracted.isnullOp), a, .none]).toOut := by
  ovx f_ISNULL f_ISNULL_s0 Expr.Extracted.isnullOp

theorem ISNOTNULL_spec (I : Iface) (a : Val) :
    run I f_ISNOTNULL [a] = (I.call "SQLOp" [.str (binText Expr.Extracted.isnotnullOp), a, .none]).toOut := by
  ovx f_ISNOTNULL f_ISNOTNULL_s0 Expr.Extracted.isnotnullOp

/-- `IN(item, list)` for anything that is not a `SelectResults`: a `Select` gives an `INSubquery`, everything else
    `_IN(item, list)` -/
theorem IN_spec (I : Iface) (a l : Val) (hsr : I.isSub (typeName l) "SelectResults" = false) :
    run I f_IN [a, l] =
      if I.isSub (typeName l) "Select" then (I.call "INSubquery" [a, l]).toOut else (I.call "_IN" [a, l]).toOut := by
  simp only [f_IN, f_IN_s0, f_IN_s1, f_IN_s2]
  cases h : I.isSub (typeName l) "Select" <;> pyx

/-- `NOTIN(item, list)`: `NOTINSubquery` for a `Select`, else `NOT(_IN(item, list))` -/
theorem NOTIN_spec (I : Iface) (a l : Val) :
    run I f_NOTIN [a, l] =
      if I.isSub (typeName l) "Select" then (I.call "NOTINSubquery" [a, l]).toOut
      else ((I.call "_IN" [a, l]).bind fun r => I.call "NOT" [r]).toOut := by
  simp only [f_NOTIN, f_NOTIN_s0]
  cases h : I.isSub (typeName l) "Select"
  · pyx
    cases I.call "_IN" [a, l] <;> simp
  · pyx

end SqlObjVerif.ExprX
