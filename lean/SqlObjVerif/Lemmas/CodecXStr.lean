import SqlObjVerif.Lemmas.CodecXBase
import SqlObjVerif.Lemmas.Codec
/-!
# CodecX — the string operations of the `.%f` fix-up (`'.' in v`, `v.split('.')`, `l[-1]`, `'.'.join(l)`, `'0' * n`)
against the hand model's `splitLastDot` / `fixMicro`
-/
namespace SqlObjVerif.PyCodec

open SqlObjVerif.Codec (Str PyVal FTok SPiece DT)
open Extracted

theorem splitChr_ne_nil (c : Nat) (s : Str) : splitChr c s ≠ [] := by
  induction s with
  | nil => simp [splitChr]
  | cons x xs ih =>
    rw [splitChr]
    split
    · simp
    · cases h : splitChr c xs <;> simp

theorem joinStr_cons_ne (sep a : Str) (l : List Str) (h : l ≠ []) : joinStr sep (a :: l) = a ++ sep ++ joinStr sep l := by
  cases l with
  | nil => exact absurd rfl h
  | cons b l => rw [joinStr]

/-- `'.'.join(s.split('.')) == s` -/
theorem joinStr_splitChr (c : Nat) (s : Str) : joinStr [c] (splitChr c s) = s := by
  induction s with
  | nil => simp [splitChr, joinStr]
  | cons x xs ih =>
    rw [splitChr]
    split
    · rename_i hx
      rw [joinStr_cons_ne _ _ _ (splitChr_ne_nil c xs), ih]; simp [hx]
    · cases h : splitChr c xs with
      | nil => exact absurd h (splitChr_ne_nil c xs)
      | cons a t =>
        rw [h] at ih
        cases t with
        | nil => simp [joinStr] at ih ⊢; exact ih
        | cons b t =>
          rw [joinStr] at ih ⊢
          simp only [List.cons_append, ih]

theorem splitChr_no (c : Nat) (u : Str) (h : c ∉ u) : splitChr c u = [u] := by
  induction u with
  | nil => simp [splitChr]
  | cons x xs ih =>
    have hx : x ≠ c := fun e => h (by simp [e])
    have hxs : c ∉ xs := fun e => h (by simp [e])
    rw [splitChr, if_neg hx, ih hxs]

/-- the text after the last separator is the last piece -/
theorem splitChr_snoc (c : Nat) (p u : Str) (h : c ∉ u) : splitChr c (p ++ c :: u) = splitChr c p ++ [u] := by
  induction p with
  | nil => simp [splitChr, splitChr_no c u h]
  | cons x xs ih =>
    simp only [List.cons_append]
    rw [splitChr, splitChr]
    split
    · simp [ih]
    · rw [ih]
      cases h2 : splitChr c xs with
      | nil => exact absurd h2 (splitChr_ne_nil c xs)
      | cons a t => simp

theorem joinStr_snoc (sep x : Str) (l : List Str) (h : l ≠ []) : joinStr sep (l ++ [x]) = joinStr sep l ++ sep ++ x := by
  induction l with
  | nil => exact absurd rfl h
  | cons a t ih =>
    cases t with
    | nil => simp [joinStr]
    | cons b t =>
      have := ih (by simp)
      simp only [List.cons_append] at this ⊢
      rw [joinStr, this, joinStr]
      simp [List.append_assoc]

/-- `'.'.join(p.split('.') + [x]) == p + '.' + x` -/
theorem joinStr_split_snoc (c : Nat) (p x : Str) : joinStr [c] (splitChr c p ++ [x]) = p ++ c :: x := by
  rw [joinStr_snoc _ _ _ (splitChr_ne_nil c p), joinStr_splitChr]; simp

theorem setLast_snoc {α : Type} (l : List α) (u x : α) : setLast (l ++ [u]) x = l ++ [x] := by
  simp [setLast, List.dropLast_concat]

theorem pyIndex_last (l : List Str) (u : Str) : pyIndex (.strs (l ++ [u])) (.py (.int (-1))) = .ok (.py (.str u)) := by
  have h1 : normIdx (l.length + 1) (-1) = some l.length := by
    simp [normIdx]
  rw [pyIndex]
  simp [h1]

theorem findFrom_single (c : Nat) (s : Str) (i : Nat) : (findFrom [c] s i).isSome = decide (c ∈ s) := by
  induction s generalizing i with
  | nil => simp [findFrom]
  | cons x xs ih =>
    rw [findFrom]
    by_cases hx : c = x
    · subst hx; simp [List.isPrefixOf]
    · have : ([c].isPrefixOf (x :: xs)) = false := by simp [List.isPrefixOf, hx]
      rw [this]; simp only [Bool.false_eq_true, if_false]; rw [ih]
      simp [hx]

/-- `'.' in s` -/
theorem strIn_single (c : Nat) (s : Str) : strIn [c] s = decide (c ∈ s) := by
  rw [strIn, findFrom_single]

/-- `'0' * n` -/
theorem strMul_single (c : Nat) (n : Nat) : (List.replicate n [c]).flatten = List.replicate n c := by
  induction n with
  | zero => rfl
  | succ n ih => simp [List.replicate_succ, ih]

theorem strMul_pad (c : Nat) (n : Nat) : strMul [c] (6 - (n : Int)) = List.replicate (6 - n) c := by
  have : (6 - (n : Int)).toNat = 6 - n := by omega
  rw [strMul, this, strMul_single]

/-- a text with a `.` is `p ++ '.' ++ u` with no `.` in `u` -/
theorem last_dot_decomp (s : Str) (h : 46 ∈ s) : ∃ p u, s = p ++ 46 :: u ∧ 46 ∉ u := by
  induction s with
  | nil => simp at h
  | cons x xs ih =>
    by_cases hxs : 46 ∈ xs
    · obtain ⟨p, u, rfl, hu⟩ := ih hxs
      exact ⟨x :: p, u, by simp, hu⟩
    · have hx : x = 46 := by
        rcases List.mem_cons.mp h with h | h
        · exact h.symm
        · exact absurd h hxs
      exact ⟨[], xs, by simp [hx], hxs⟩

/-- the hand model's fix-up on `p ++ '.' ++ u` -/
theorem fixMicro_app (p u : Str) (hu : 46 ∉ u) :
    Codec.fixMicro (p ++ 46 :: u) =
      if u.length < 6 then p ++ 46 :: (u ++ List.replicate (6 - u.length) 48)
      else if u.length > 6 then p ++ 46 :: u.take 6 else p ++ 46 :: u := by
  rw [Codec.fixMicro, Codec.splitLastDot_app p u hu]
  simp [List.append_assoc]

theorem fixMicro_nodot (s : Str) (h : 46 ∉ s) : Codec.fixMicro s = s ++ [46, 48] := by
  rw [Codec.fixMicro, Codec.splitLastDot_none s h]

def dtRes : Option DT → Codec.Res PyVal
  | some d => .ok (Codec.dtOf d)
  | Option.none => .invalid

theorem model_dt_str (F : List SPiece) (s : Str) : Codec.dtToPython F (.str s) = dtRes (Codec.parseWith F s) := by
  simp only [Codec.dtToPython, Codec.passes]
  generalize Codec.parseWith F s = r
  cases r <;> simp [dtRes]

/-- what the translated code computes on `p ++ '.' ++ u`, stated with the hand model's parser -/
def DotGoal (fs : Str) (F : List SPiece) (p u : Str) : Prop :=
  runV (cfgDt fs) dtToPython (.str (p ++ 46 :: u)) = some (dtRes (Codec.strptime F (Codec.fixMicro (p ++ 46 :: u))))

end SqlObjVerif.PyCodec
