import SqlObjVerif.Lemmas.Uri
import SqlObjVerif.Lemmas.UriXOpen
import SqlObjVerif.Lemmas.UriXSqlite
/-!
# C18 — the whole chain on the translated code: `connectionForURI(conn.uri(), **ps)` for a sqlite connection

The method calls `cls._parseURI`, `cls._connectionFromParams`, `connCls.connectionFromURI` are resolved by RUNNING the
translated methods (`sqliteCm1`, `sqliteCm2` of `Model/UriX.lean`); the only parameters left are the standard library
(hand model), the registry lookup `dbConnectionForScheme` and the constructor call `cls(filename=…, **args)`.
-/
namespace SqlObjVerif.UriX
open SqlObjVerif.Uri
open SqlObjVerif.PyUri hiding Str

theorem toR_ofR (r : R Val) : toR (ofR r) = r := by cases r <;> rfl

/-- a class object (anything that is not a `str`) -/
def IsObj : Val → Prop
  | .str _ => False
  | _ => True

theorem methodOf_isObj (I : Iface) (v : Val) (h : IsObj v) (m : String) (args : List Val) :
    methodOf I v m args = I.callMethod v m args := by
  cases v <;> first | rfl | exact absurd h (by simp [IsObj])

theorem assemble_scheme (p : Parts) :
    assemble p = p.scheme ++ 58 :: (47 :: 47 :: (p.netloc ++ 47 :: p.tail)) := by simp [assemble]

theorem breakOn_sqlite (rest : List Nat) :
    breakOn 58 (sqliteScheme ++ 58 :: rest) = some (sqliteScheme, rest) :=
  breakOn_append 58 sqliteScheme rest (by decide)

/-- END TO END, on the translated code: the URI a sqlite connection on an absolute file reports, given (with any
    extra parameters) to `connectionForURI` of an opener that has not cached it, calls the constructor of the class
    registered for the scheme with exactly `filename=<that file>` and those parameters, and caches the result
    under the URI. -/
theorem sqlite_roundtrip_opens (os : List Nat) (hos : os ≠ [110, 116])
    (cv : Val → List Val → List (List Nat × Val) → R Val) (reg : List Nat → Option Val) (cls : Val)
    (hcls : IsObj cls) (hreg : reg sqliteScheme = some cls)
    (fn : List Nat) (hv : validStr fn = true) (hd : startsWith [47] fn = true)
    (hx : fn ≠ Extracted.sqliteOpenMemoryPath) (ps : List (List Nat × List Nat)) (ok : ParamsOk ps) (o : Opener) :
    ∃ u u', sqliteUriX (uriIface os (sqliteCm2 os cv reg) cv) fn = .ret (.str u) ∧ withParams u ps = some u' ∧
      (aget u' o.cached = none →
        connectionForURIX (uriIface os (sqliteCm2 os cv reg) cv) o u (.bool false) ps =
          remember o u' (cv cls [] ((filenameKw, .str fn) :: strDict ps))) := by
  obtain ⟨t, rfl⟩ := startsWith_slash fn hd
  obtain ⟨u, u', hu, hw, hp⟩ := sqlite_parse_build_params t hv ps ok
  refine ⟨u, u', ?_, hw, ?_⟩
  · rw [sqliteUri_translated, hu]; rfl
  · intro hc
    rw [connectionForURI_translated _ _ _ _ _ _ _ rfl]
    have hu2 := sqlite_abs_uri t hv
    rw [hu] at hu2
    cases hu2
    -- the extended URI still starts with `sqlite:`
    have hbr : ∃ rest, u' = sqliteScheme ++ 58 :: rest := by
      unfold withParams at hw
      by_cases he : ps.isEmpty = true
      · simp only [he, if_true, Option.some.injEq] at hw
        exact ⟨_, by rw [← hw, assemble_scheme]⟩
      · simp only [he] at hw
        cases hq : urlencode ps with
        | none => simp [hq] at hw
        | some q =>
          simp only [hq, Option.map_some, Option.some.injEq, Bool.false_eq_true, if_false] at hw
          exact ⟨_, by rw [← hw, assemble_scheme]; simp only [List.append_assoc, List.cons_append]; rfl⟩
    obtain ⟨rest, hrest⟩ := hbr
    unfold connectionForURI
    have hb : breakOn 58 u' = some (sqliteScheme, rest) := by rw [hrest]; exact breakOn_sqlite rest
    simp only [hw, hc, hb]
    have h1 : sqliteCm2 os cv reg (openerObj o) "dbConnectionForScheme" [.str sqliteScheme] = .ok cls := by
      simp [sqliteCm2, hreg]
    rw [h1]
    simp only [R.bind_ok]
    rw [methodOf_isObj _ cls hcls]
    have h2 : (uriIface os (sqliteCm2 os cv reg) cv).callMethod cls "connectionFromURI" [.str u'] =
        cv cls [] ((filenameKw, .str (47 :: t)) :: strDict ps) := by
      show sqliteCm2 os cv reg cls "connectionFromURI" [.str u'] = _
      simp only [sqliteCm2, if_true]
      rw [connectionFromURI_translated, toR_ofR, methodOf_isObj _ cls hcls]
      show (sqliteCm1 os cv cls "_parseURI" [.str u']).bind _ = _
      simp only [sqliteCm1, if_true]
      rw [parseURI_translated os _ _ u' hos, hp]
      simp only [ofParseOut, toR, parsedTuple, R.bind_ok]
      rw [methodOf_isObj _ cls hcls]
      show sqliteCm1 os cv cls "_connectionFromParams" _ = _
      simp only [sqliteCm1]
      have := sqliteOpen_translated os noMethods cv cls ⟨none, none, none, none, 47 :: t, ps⟩
      unfold sqliteOpenX at this
      simp only [optStr_none, optNat_none] at this
      simp [this, sqliteOpenSpec, sqliteOpen, hx, toR_ofR]
    rw [h2]

end SqlObjVerif.UriX
