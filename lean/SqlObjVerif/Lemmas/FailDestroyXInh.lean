import SqlObjVerif.Model.FailDestroyInhX
import SqlObjVerif.Lemmas.FailDestroyXMain
/-!
C06, translated `destroySelf`, part 8: the inheritable override.  `destroyI` — the TRANSLATED
`InheritableSQLObject.destroySelf` (parent instance first, then `super().destroySelf()`) on top of the TRANSLATED
`SQLObject.destroySelf`, every inner `destroySelf()` call bound to `destroyI` itself — ends exactly as the hand
model's `Fail.destroyProg`, for EVERY schema (`C06_translated_inhdestroy_eq_model`): the `match cl.parent` of
`destroyProg` is the override's `if … self._parent: self._parent.destroySelf()`.
-/
namespace SqlObjVerif.FailDX
open SqlObjVerif.Fail (Err Schema Inj clsOf Prog)

theorem errOfName_errName (e : Err) : errOfName (errName e) = some e := by cases e <;> decide
theorem errOfExc_excOfI (e : Err) : errOfExc (excOfI e) = some e := by cases e <;> decide

@[simp] theorem outOfCall_outCall (r : Out) : outOfCall (outCall r) = some r := by
  rcases r with ⟨s, _ | e⟩
  · rfl
  · simp [outCall, outOfCall, errOfName_errName]

@[simp] theorem outOfInh_inhOut (r : Out) : outOfInh (inhOut r) = some r := by
  rcases r with ⟨s, _ | e⟩
  · rfl
  · simp [inhOut, outOfInh, errOfExc_excOfI]

/-- one activation of the translated override: the parent instance first (if there is one), then `super()` -/
theorem inhRun_eq (sch : Schema) (parentCall : Nat → Nat → Fail.St → PyInh.CallRes Fail.St)
    (superCall : Fail.St → PyInh.CallRes Fail.St) (c id : Nat) (s : Fail.St) (rp : Nat → Out) (rs : Fail.St → Out)
    (hp : ∀ p, parentCall p id s = inhOut (rp p)) (hs : ∀ s', superCall s' = inhOut (rs s')) :
    outOfInh (PyInh.run (inhIface sch parentCall superCall c id) PyInh.Extracted.destroySelfProg [] 0 s) =
      some (match (clsOf sch c).parent with
            | some p => (match rp p with
              | (s1, none) => rs s1
              | (s1, some e) => (s1, some e))
            | none => rs s) := by
  unfold PyInh.run PyInh.Extracted.destroySelfProg
  cases hpar : (clsOf sch c).parent with
  | none =>
    simp [PyInh.Block.exec, PyInh.Stmt.exec, PyInh.Cond.eval, PyInh.Expr.eval, PyInh.eval2, inhIface, hpar, PyInh.pyBool,
      PyInh.evalArgs, PyInh.Exprs.eval, PyInh.evalStar, PyInh.zipKw, hs]
    rcases rs s with ⟨s1, _ | e⟩ <;> simp [inhOut, PyInh.afterCall, PyInh.Res.toCall, outOfInh, errOfExc_excOfI, PyInh.St.setOpt]
  | some p =>
    have hp' := hp p
    simp [PyInh.Block.exec, PyInh.Stmt.exec, PyInh.Cond.eval, PyInh.Expr.eval, PyInh.eval2, inhIface, hpar, PyInh.pyBool,
      PyInh.evalArgs, PyInh.Exprs.eval, PyInh.evalStar, PyInh.zipKw, hs, hp']
    rcases rp p with ⟨s1, _ | e⟩
    · simp [inhOut, PyInh.afterCall, PyInh.St.setOpt]
      rcases rs s1 with ⟨s2, _ | e⟩ <;> simp [inhOut, PyInh.afterCall, PyInh.Res.toCall, outOfInh, errOfExc_excOfI, PyInh.St.setOpt]
    · simp [inhOut, PyInh.afterCall, PyInh.Res.toCall, outOfInh, errOfExc_excOfI]

/-- **C06, translator tie, inheritable classes included.**  For EVERY schema, every `isInh` that marks at least the
    classes with a parent as inheritable, every schedule, fuel, victim and state: `obj.destroySelf()` through the
    TRANSLATED methods (the override of `inheritance/__init__.py` for inheritable classes, `main.py`'s for the
    others; all inner `destroySelf()` calls dispatched the same way) ends exactly as `Fail.destroyProg` run by
    `Fail.run` under the same schedule: same error, same complete state (statement log, counters included). -/
theorem C06_translated_inhdestroy_eq_model (sch : Schema) (inj : Option Inj) (isInh : Nat → Bool)
    (hinh : ∀ c, (clsOf sch c).parent ≠ none → isInh c = true) :
    ∀ (fuel c id : Nat) (s : Fail.St),
      destroyI sch inj isInh fuel c id s = some (Fail.run sch inj (Fail.destroyProg sch fuel c id .done) s)
  | 0, c, id, s => by
    rw [destroyI, Fail.destroyProg, run_fail]
  | fuel + 1, c, id, s => by
    have ih := C06_translated_inhdestroy_eq_model sch inj isInh hinh fuel
    have hrec : ∀ k j s', callOfOut (destroyI sch inj isInh fuel k j s') =
        outCall (Fail.run sch inj (Fail.destroyProg sch fuel k j .done) s') := fun k j s' => by rw [ih]; rfl
    have hbase : ∀ s', destroySelfF sch inj (fun k j s'' => callOfOut (destroyI sch inj isInh fuel k j s'')) c id s' =
        outCall (Fail.run sch inj (ownProg (Fail.destroyProg sch fuel) sch c id (List.range sch.length) .done) s') := fun s' => by
      rw [destroySelfF_eq sch inj _ c id (Fail.destroyProg sch fuel) (fun k j => nat_destroyProg sch inj fuel k j) hrec s',
        ownProg_dependents]
    rw [destroyI, destroyProg_succ]
    by_cases hi : isInh c = true
    · simp only [hi, if_true]
      rw [inhRun_eq sch _ _ c id s (fun p => Fail.run sch inj (Fail.destroyProg sch fuel p id .done) s)
        (fun s' => Fail.run sch inj (ownProg (Fail.destroyProg sch fuel) sch c id (List.range sch.length) .done) s')
        (fun p => by rw [ih]; rfl) (fun s' => by rw [hbase, outOfCall_outCall]; rfl)]
      cases hpar : (clsOf sch c).parent with
      | none => rfl
      | some p =>
        simp only
        rw [nat_destroyProg sch inj fuel p id (ownProg (Fail.destroyProg sch fuel) sch c id (List.range sch.length) .done) s]
        rcases Fail.run sch inj (Fail.destroyProg sch fuel p id .done) s with ⟨s1, _ | e⟩ <;> rfl
    · have hpar : (clsOf sch c).parent = none := by
        cases h : (clsOf sch c).parent with
        | none => rfl
        | some p => exact absurd (hinh c (by rw [h]; exact Option.some_ne_none p)) hi
      simp only [hi, if_false, Bool.false_eq_true, hbase, outOfCall_outCall, hpar]

end SqlObjVerif.FailDX
