import SqlObjVerif.Model.DdlCat

namespace SqlObjVerif.Ddl

/-! ### (1) Link-table ownership -/

theorem pyLt_irrefl (a : List Nat) : pyLt a a = false := by
  induction a with
  | nil => rfl
  | cons x xs ih => simp [pyLt, ih]

theorem pyLt_asymm : ∀ a b : List Nat, pyLt a b = true → pyLt b a = false
  | [], [] => by simp [pyLt]
  | [], _ :: _ => by simp [pyLt]
  | _ :: _, [] => by simp [pyLt]
  | x :: xs, y :: ys => by
    intro h
    simp only [pyLt] at h ⊢
    split at h
    · have : ¬ y < x := by omega
      simp [*]
    · split at h
      · simp [*]
      · simp [*, pyLt_asymm xs ys h]

theorem pyLt_total : ∀ a b : List Nat, a ≠ b → pyLt a b = true ∨ pyLt b a = true
  | [], [] => by simp
  | [], _ :: _ => by simp [pyLt]
  | _ :: _, [] => by simp [pyLt]
  | x :: xs, y :: ys => by
    intro h
    simp only [pyLt]
    by_cases h1 : x < y
    · simp [h1]
    · by_cases h2 : y < x
      · simp [h2]
      · have hxy : x = y := by omega
        subst hxy
        have hne : xs ≠ ys := fun e => h (by rw [e])
        simpa [h1] using pyLt_total xs ys hne

/-- Exactly one of two distinct classes creates the link table. -/
theorem join_once_distinct {a b : Name} (h : a ≠ b) :
    (createsLink a b = true ∧ createsLink b a = false) ∨
    (createsLink a b = false ∧ createsLink b a = true) := by
  unfold createsLink
  rcases pyLt_total a b h with h1 | h1
  · left; simp [h1, pyLt_asymm a b h1]
  · right; simp [h1, pyLt_asymm b a h1]

/-- DEFECT witness: a self-referential join declared twice in one class makes BOTH
declarations create the same intermediate table. -/
theorem join_self_both (a : Name) : createsLink a a = true := by
  simp [createsLink, pyLt_irrefl]

/-- DEFECT witness: a join declared only in the alphabetically later class is never created. -/
theorem join_one_sided_never {a b : Name} (h : pyLt b a = true) : createsLink a b = false := by
  simp [createsLink, h]

/-! ### (2) Catalogue -/

theorem createLinks_mono (b : Bool) : ∀ (ls : List Name) (c c1 : Cat),
    createLinks b ls c = .ok c1 → ∀ t, t ∈ c.tables → t ∈ c1.tables
  | [], c, c1, h, t, ht => by
    simp only [createLinks, Except.ok.injEq] at h; subst h; exact ht
  | l :: ls, c, c1, h, t, ht => by
    rw [createLinks] at h
    split at h
    · exact createLinks_mono b ls c c1 h t ht
    · split at h
      · cases h
      · exact createLinks_mono b ls _ c1 h t (by simp [addTbl, ht])

theorem createLinks_indexes (b : Bool) : ∀ (ls : List Name) (c c1 : Cat),
    createLinks b ls c = .ok c1 → c1.indexes = c.indexes
  | [], c, c1, h => by
    simp only [createLinks, Except.ok.injEq] at h; subst h; rfl
  | l :: ls, c, c1, h => by
    rw [createLinks] at h
    split at h
    · exact createLinks_indexes b ls c c1 h
    · split at h
      · cases h
      · exact (createLinks_indexes b ls _ c1 h).trans rfl

/-- With `ifNotExists = true`, `createJoinTables` never fails and afterwards all links exist. -/
theorem createLinks_true_ok : ∀ (ls : List Name) (c : Cat),
    ∃ c1, createLinks true ls c = .ok c1 ∧ ∀ l ∈ ls, l ∈ c1.tables
  | [], c => ⟨c, by simp [createLinks]⟩
  | l :: ls, c => by
    rw [createLinks]
    by_cases hl : l ∈ c.tables
    · obtain ⟨c1, h1, h2⟩ := createLinks_true_ok ls c
      refine ⟨c1, by simp [hl, h1], ?_⟩
      intro l' hl'
      rcases List.mem_cons.mp hl' with rfl | h
      · exact createLinks_mono true ls c c1 h1 _ hl
      · exact h2 _ h
    · obtain ⟨c1, h1, h2⟩ := createLinks_true_ok ls (addTbl l c)
      refine ⟨c1, by simp [hl, h1], ?_⟩
      intro l' hl'
      rcases List.mem_cons.mp hl' with rfl | h
      · exact createLinks_mono true ls _ c1 h1 _ (by simp [addTbl])
      · exact h2 _ h

/-- Plain `createJoinTables` succeeds only on fresh, pairwise distinct names, and appends them. -/
theorem createLinks_false_spec : ∀ (ls : List Name) (c c1 : Cat),
    createLinks false ls c = .ok c1 →
      c1.tables = c.tables ++ ls ∧ c1.indexes = c.indexes ∧ ls.Nodup ∧ ∀ l ∈ ls, l ∉ c.tables
  | [], c, c1, h => by
    simp only [createLinks, Except.ok.injEq] at h; subst h; simp
  | l :: ls, c, c1, h => by
    rw [createLinks] at h
    simp only [Bool.false_eq_true, false_and, if_false] at h
    split at h
    · cases h
    · rename_i hl
      obtain ⟨h1, h2, h3, h4⟩ := createLinks_false_spec ls _ c1 h
      simp only [addTbl] at h1 h2 h4
      refine ⟨by simp [h1], h2, ?_, ?_⟩
      · refine List.nodup_cons.mpr ⟨?_, h3⟩
        intro hmem
        exact h4 l hmem (by simp)
      · intro l' hl'
        rcases List.mem_cons.mp hl' with rfl | h
        · exact hl
        · intro hc; exact h4 l' h (by simp [hc])

theorem createIdx_spec (t : Name) : ∀ (is : List Name) (c c1 : Cat),
    createIdx t is c = .ok c1 →
      c1.tables = c.tables ∧ c1.indexes = c.indexes ++ is.map (fun i => (t, i))
  | [], c, c1, h => by
    simp only [createIdx, Except.ok.injEq] at h; subst h; simp
  | i :: is, c, c1, h => by
    rw [createIdx] at h
    split at h
    · cases h
    · obtain ⟨h1, h2⟩ := createIdx_spec t is _ c1 h
      exact ⟨h1, by simp [h2]⟩

theorem createIdx_ok (t : Name) : ∀ (is : List Name) (c : Cat),
    is.Nodup → (∀ i ∈ is, (t, i) ∉ c.indexes) → ∃ c1, createIdx t is c = .ok c1
  | [], c, _, _ => ⟨c, by simp [createIdx]⟩
  | i :: is, c, hn, hf => by
    rw [createIdx]
    have hi : (t, i) ∉ c.indexes := hf i (by simp)
    simp only [hi, if_false]
    obtain ⟨hni, hn'⟩ := List.nodup_cons.mp hn
    apply createIdx_ok t is _ hn'
    intro j hj
    have := hf j (by simp [hj])
    simp only [List.mem_append, List.mem_singleton, Prod.mk.injEq, true_and, not_or]
    exact ⟨this, fun e => hni (e ▸ hj)⟩

/-- After any successful `createTable`, the class's own table exists. -/
theorem create_table_present {b : Bool} {r : Req} {c c1 : Cat}
    (h : createTable b r c = .ok c1) : r.table ∈ c1.tables := by
  unfold createTable at h
  split at h
  · rename_i hc; cases h; exact hc.2
  · split at h
    · cases h
    · split at h
      · cases h
      · rename_i c2 h2
        rw [(createIdx_spec _ _ _ _ h).1]
        exact createLinks_mono b _ _ _ h2 _ (by simp [addTbl])

theorem create_if_missing_idempotent {r : Req} {c c1 : Cat}
    (h : createTable true r c = .ok c1) : createTable true r c1 = .ok c1 := by
  have hp := create_table_present h
  simp [createTable, hp]

theorem create_plain_twice_fails {r : Req} {c c1 : Cat}
    (h : createTable false r c = .ok c1) : createTable false r c1 = .error () := by
  have hp := create_table_present h
  simp [createTable, hp]

/-- DEFECT witness: when the class table already exists, `createTable(ifNotExists=True)`
does nothing at all -- missing link tables and indexes are not repaired. -/
theorem create_if_missing_skips_everything {r : Req} {c : Cat}
    (h : r.table ∈ c.tables) : createTable true r c = .ok c := by
  simp [createTable, h]

theorem create_others_untouched {b : Bool} {r : Req} {c c1 : Cat} {t : Name}
    (h : createTable b r c = .ok c1) (ht : t ∈ c.tables) : t ∈ c1.tables := by
  unfold createTable at h
  split at h
  · cases h; exact ht
  · split at h
    · cases h
    · split at h
      · cases h
      · rename_i c2 h2
        rw [(createIdx_spec _ _ _ _ h).1]
        exact createLinks_mono b _ _ _ h2 _ (by simp [addTbl, ht])

/-- Total correctness of `createTable(ifNotExists=True)` on a fresh table name:
it succeeds provided the index names are distinct and unused for this table,
and afterwards the table and all its link tables exist. (Link names need no hypothesis.) -/
theorem create_if_missing_never_fails_when_fresh {r : Req} {c : Cat}
    (hfresh : r.table ∉ c.tables) (hnd : r.idx.Nodup)
    (hidx : ∀ i ∈ r.idx, (r.table, i) ∉ c.indexes) :
    ∃ c1, createTable true r c = .ok c1 ∧ r.table ∈ c1.tables ∧
      (∀ l ∈ r.links, l ∈ c1.tables) ∧ (∀ i ∈ r.idx, (r.table, i) ∈ c1.indexes) := by
  obtain ⟨c2, h2, hl⟩ := createLinks_true_ok r.links (addTbl r.table c)
  have hi2 : c2.indexes = c.indexes := (createLinks_indexes _ _ _ _ h2).trans rfl
  obtain ⟨c1, h1⟩ := createIdx_ok r.table r.idx c2 hnd (by rw [hi2]; exact hidx)
  have hc : createTable true r c = .ok c1 := by
    simp [createTable, hfresh, h2, h1]
  obtain ⟨ht, hi⟩ := createIdx_spec _ _ _ _ h1
  refine ⟨c1, hc, create_table_present hc, ?_, ?_⟩
  · intro l hl'; rw [ht]; exact hl l hl'
  · intro i hi'; rw [hi]; simp [hi']

/-- If the table was missing, a successful `createTable(ifNotExists=True)` leaves
all owned link tables in the catalogue. -/
theorem create_if_missing_links_present {r : Req} {c c1 : Cat}
    (hfresh : r.table ∉ c.tables) (h : createTable true r c = .ok c1) :
    ∀ l ∈ r.links, l ∈ c1.tables := by
  obtain ⟨c2, h2, hl⟩ := createLinks_true_ok r.links (addTbl r.table c)
  simp only [createTable, hfresh, and_false, if_false, h2] at h
  intro l hl'
  rw [(createIdx_spec _ _ _ _ h).1]
  exact hl l hl'

/-- What a successful plain `createTable` did, exactly. -/
theorem create_plain_spec {r : Req} {c c1 : Cat} (h : createTable false r c = .ok c1) :
    r.table ∉ c.tables ∧ r.table ∉ r.links ∧ r.links.Nodup ∧ (∀ l ∈ r.links, l ∉ c.tables) ∧
    c1.tables = c.tables ++ r.table :: r.links ∧
    c1.indexes = c.indexes ++ r.idx.map (fun i => (r.table, i)) := by
  unfold createTable at h
  simp only [Bool.false_eq_true, false_and, if_false] at h
  split at h
  · cases h
  · rename_i hfresh
    split at h
    · cases h
    · rename_i c2 h2
      obtain ⟨a1, a2, a3, a4⟩ := createLinks_false_spec _ _ _ h2
      obtain ⟨b1, b2⟩ := createIdx_spec _ _ _ _ h
      simp only [addTbl] at a1 a2 a4
      refine ⟨hfresh, ?_, a3, ?_, ?_, ?_⟩
      · intro hm; exact a4 _ hm (by simp)
      · intro l hl hc; exact a4 l hl (by simp [hc])
      · rw [b1, a1]; simp
      · rw [b2, a2]

theorem dropLinks_subset (b : Bool) : ∀ (ls : List Name) (c c1 : Cat),
    dropLinks b ls c = .ok c1 → ∀ t, t ∈ c1.tables → t ∈ c.tables
  | [], c, c1, h, t, ht => by
    simp only [dropLinks, Except.ok.injEq] at h; subst h; exact ht
  | l :: ls, c, c1, h, t, ht => by
    rw [dropLinks] at h
    split at h
    · exact dropLinks_subset b ls c c1 h t ht
    · split at h
      · cases h
      · have := dropLinks_subset b ls _ c1 h t ht
        simp only [dropTbl, List.mem_filter] at this
        exact this.1

theorem drop_table_absent {b : Bool} {r : Req} {c c1 : Cat}
    (h : dropTable b r c = .ok c1) : r.table ∉ c1.tables := by
  unfold dropTable at h
  split at h
  · rename_i hc; cases h; exact hc.2
  · split at h
    · cases h
    · intro hm
      have := dropLinks_subset b _ _ _ h _ hm
      simp [dropTbl] at this

theorem drop_if_present_idempotent {r : Req} {c c1 : Cat}
    (h : dropTable true r c = .ok c1) : dropTable true r c1 = .ok c1 := by
  have hp := drop_table_absent h
  simp [dropTable, hp]

theorem drop_plain_twice_fails {r : Req} {c c1 : Cat}
    (h : dropTable false r c = .ok c1) : dropTable false r c1 = .error () := by
  have hp := drop_table_absent h
  simp [dropTable, hp]

theorem drop_others_untouched_aux (b : Bool) : ∀ (ls : List Name) (c c1 : Cat),
    dropLinks b ls c = .ok c1 → ∀ t, t ∉ ls → t ∈ c.tables → t ∈ c1.tables
  | [], c, c1, h, t, _, ht => by
    simp only [dropLinks, Except.ok.injEq] at h; subst h; exact ht
  | l :: ls, c, c1, h, t, hn, ht => by
    rw [dropLinks] at h
    simp only [List.mem_cons, not_or] at hn
    split at h
    · exact drop_others_untouched_aux b ls c c1 h t hn.2 ht
    · split at h
      · cases h
      · exact drop_others_untouched_aux b ls _ c1 h t hn.2 (by simp [dropTbl, ht, hn.1])

/-- `dropTable` removes nothing but the class table and its owned link tables. -/
theorem drop_others_untouched {b : Bool} {r : Req} {c c1 : Cat} {t : Name}
    (h : dropTable b r c = .ok c1) (h1 : t ≠ r.table) (h2 : t ∉ r.links)
    (ht : t ∈ c.tables) : t ∈ c1.tables := by
  unfold dropTable at h
  split at h
  · cases h; exact ht
  · split at h
    · cases h
    · exact drop_others_untouched_aux b _ _ _ h t h2 (by simp [dropTbl, ht, h1])

/-- Dropping distinct, present link tables succeeds and filters them out. -/
theorem dropLinks_ok (b : Bool) : ∀ (ls : List Name) (c : Cat),
    ls.Nodup → (∀ l ∈ ls, l ∈ c.tables) →
    dropLinks b ls c = .ok ⟨c.tables.filter (fun x => x ∉ ls),
                            c.indexes.filter (fun p => p.1 ∉ ls)⟩
  | [], c, _, _ => by
    have e1 : c.tables.filter (fun x => decide (x ∉ ([] : List Name))) = c.tables :=
      List.filter_eq_self.mpr (by simp)
    have e2 : c.indexes.filter (fun p => decide (p.1 ∉ ([] : List Name))) = c.indexes :=
      List.filter_eq_self.mpr (by simp)
    rw [dropLinks, e1, e2]
  | l :: ls, c, hn, hp => by
    obtain ⟨hl, hn'⟩ := List.nodup_cons.mp hn
    have hlc : l ∈ c.tables := hp l (by simp)
    rw [dropLinks]
    simp only [hlc, not_true_eq_false, and_false, if_false]
    rw [dropLinks_ok b ls (dropTbl l c) hn']
    · simp only [dropTbl, List.filter_filter, List.mem_cons, not_or]
      congr 2
      · congr 1; funext x; simp [Bool.and_comm]
      · congr 1; funext p; simp [Bool.and_comm]
    · intro l' hl'
      have hne : l' ≠ l := fun e => hl (e ▸ hl')
      simp [dropTbl, hp l' (by simp [hl']), hne]

/-- `dropTable` right after a successful plain `createTable` succeeds and restores the
table list exactly (no freshness hypotheses are needed: success of the plain
create already implies them). -/
theorem drop_after_create_ok {r : Req} {c c1 : Cat} (h : createTable false r c = .ok c1) :
    ∃ c2, dropTable false r c1 = .ok c2 ∧ c2.tables = c.tables ∧
      c2.indexes = c.indexes.filter (fun p => p.1 ≠ r.table ∧ p.1 ∉ r.links) := by
  obtain ⟨h1, h2, h3, h4, h5, h6⟩ := create_plain_spec h
  have hp : r.table ∈ c1.tables := by rw [h5]; simp
  have hlp : ∀ l ∈ r.links, l ∈ (dropTbl r.table c1).tables := by
    intro l hl
    have hne : l ≠ r.table := fun e => h2 (e ▸ hl)
    simp [dropTbl, h5, hl, hne]
  have hd := dropLinks_ok false r.links (dropTbl r.table c1) h3 hlp
  have hdt : dropTable false r c1 = dropLinks false r.links (dropTbl r.table c1) := by
    simp [dropTable, hp]
  rw [hdt, hd]
  refine ⟨_, rfl, ?_, ?_⟩
  · simp only [dropTbl, h5, List.filter_filter]
    rw [List.filter_append, List.filter_cons]
    simp only [ne_eq, not_true_eq_false, decide_false, Bool.and_false, Bool.false_eq_true,
      if_false]
    have e1 : List.filter (fun a => decide (a ∉ r.links) && decide (¬a = r.table)) c.tables
        = c.tables := by
      apply List.filter_eq_self.mpr
      intro a ha
      have : a ≠ r.table := fun e => h1 (e ▸ ha)
      have : a ∉ r.links := fun hm => h4 a hm ha
      simp [*]
    have e2 : List.filter (fun a => decide (a ∉ r.links) && decide (¬a = r.table)) r.links
        = [] := by
      apply List.filter_eq_nil_iff.mpr
      intro a ha
      simp [ha]
    rw [e1, e2]; simp
  · simp only [dropTbl, h6, List.filter_filter]
    rw [List.filter_append]
    have e2 : List.filter (fun a => decide (a.fst ∉ r.links) && decide (a.fst ≠ r.table))
        (r.idx.map (fun i => (r.table, i))) = [] := by
      apply List.filter_eq_nil_iff.mpr
      intro a ha
      obtain ⟨i, _, rfl⟩ := List.mem_map.mp ha
      simp
    rw [e2, List.append_nil]
    congr 1
    funext p; simp [Bool.and_comm]

theorem drop_after_create {r : Req} {c c1 c2 : Cat}
    (h : createTable false r c = .ok c1) (hd : dropTable false r c1 = .ok c2) :
    ∀ t, t ∈ c2.tables ↔ t ∈ c.tables := by
  obtain ⟨c2', e, ht, _⟩ := drop_after_create_ok h
  rw [hd] at e
  cases e
  intro t; rw [ht]

/-- On a well-formed catalogue, create followed by drop is the identity on the whole catalogue. -/
theorem drop_after_create_exact {r : Req} {c c1 : Cat} (hok : CatOK c)
    (h : createTable false r c = .ok c1) : dropTable false r c1 = .ok c := by
  obtain ⟨h1, _, _, h4, _, _⟩ := create_plain_spec h
  obtain ⟨c2, e, ht, hi⟩ := drop_after_create_ok h
  rw [e]
  have hi' : c2.indexes = c.indexes := by
    rw [hi]
    apply List.filter_eq_self.mpr
    intro p hp
    have hpt := hok p hp
    have : p.1 ≠ r.table := fun e => h1 (e ▸ hpt)
    have : p.1 ∉ r.links := fun hm => h4 _ hm hpt
    simp [*]
  have : c2 = c := by
    cases c2; cases c
    simp only [Cat.mk.injEq]
    exact ⟨ht, hi'⟩
  rw [this]

/-! ### (3) addColumn / delColumn -/

theorem add_cols (t : Tbl) (c : Name) : (addColumn t c).cols = t.cols ++ [c] := rfl

theorem add_rows (t : Tbl) (c : Name) :
    (addColumn t c).rows = t.rows.map (fun row => row ++ [(c, none)]) := rfl

theorem add_row_count (t : Tbl) (c : Name) : (addColumn t c).rows.length = t.rows.length := by
  simp [addColumn]

theorem get_append_other (row : Row) {c c' : Name} (v : Option Int) (h : c' ≠ c) :
    get (row ++ [(c, v)]) c' = get row c' := by
  induction row with
  | nil =>
    have : (c' == c) = false := by simp [h]
    simp [get, List.lookup, this]
  | cons p ps ih =>
    obtain ⟨k, w⟩ := p
    simp only [get, List.cons_append, List.lookup_cons] at ih ⊢
    split
    · rfl
    · exact ih

/-- Adding a column leaves every other column of every row unchanged. -/
theorem add_preserves_others (t : Tbl) {c c' : Name} (h : c' ≠ c) (i : Nat) :
    ((addColumn t c).rows[i]?).map (fun row => get row c') =
      (t.rows[i]?).map (fun row => get row c') := by
  simp only [addColumn, List.getElem?_map, Option.map_map]
  congr 1
  funext row
  exact get_append_other row none h

theorem add_preserves_others_map (t : Tbl) {c c' : Name} (h : c' ≠ c) :
    (addColumn t c).rows.map (fun row => get row c') = t.rows.map (fun row => get row c') := by
  simp only [addColumn, List.map_map]
  congr 1
  funext row
  exact get_append_other row none h

/-- The new column reads as NULL in every row that did not already carry it. -/
theorem add_new_is_null (row : Row) (c : Name) (h : get row c = none) :
    get (row ++ [(c, none)]) c = some none := by
  induction row with
  | nil => simp [get]
  | cons p ps ih =>
    obtain ⟨k, w⟩ := p
    simp only [get, List.cons_append, List.lookup_cons] at ih h ⊢
    cases e : (c == k) with
    | true => simp [e] at h
    | false => simp only [e] at h ⊢; exact ih h

theorem del_cols (t : Tbl) (c : Name) : (delColumn t c).cols = t.cols.filter (· ≠ c) := rfl

theorem del_rows (t : Tbl) (c : Name) :
    (delColumn t c).rows = t.rows.map (rebuildRow (t.cols.filter (· ≠ c))) := rfl

theorem del_row_count (t : Tbl) (c : Name) : (delColumn t c).rows.length = t.rows.length := by
  simp [delColumn]

theorem del_then_no_c (t : Tbl) (c : Name) : c ∉ (delColumn t c).cols := by
  simp [delColumn]

theorem get_rebuildRow (row : Row) (c' : Name) : ∀ keep : List Name,
    get (rebuildRow keep row) c' = if c' ∈ keep then get row c' else none
  | [] => by simp [rebuildRow, get]
  | k :: ks => by
    have ih := get_rebuildRow row c' ks
    simp only [rebuildRow, get] at ih ⊢
    rw [List.filterMap_cons]
    cases hk : List.lookup k row with
    | none =>
      simp only [Option.map_none, ih, List.mem_cons]
      by_cases e : c' = k
      · subst e; simp [hk]
      · simp [e]
    | some v =>
      simp only [Option.map_some, List.lookup_cons, List.mem_cons]
      by_cases e : c' = k
      · subst e; simp [hk]
      · have : (c' == k) = false := by simp [e]
        simp only [this, ih, e, false_or]

/-- Dropping a column leaves every other declared column of every row unchanged.
(The copy is column-by-column, so no well-formedness of the row is needed.) -/
theorem del_preserves_others_row (cols : List Name) (row : Row) {c c' : Name}
    (h : c' ≠ c) (hc : c' ∈ cols) :
    get (rebuildRow (cols.filter (· ≠ c)) row) c' = get row c' := by
  rw [get_rebuildRow]
  simp [hc, h]

theorem del_preserves_others (t : Tbl) {c c' : Name} (h : c' ≠ c) (hc : c' ∈ t.cols) (i : Nat) :
    ((delColumn t c).rows[i]?).map (fun row => get row c') =
      (t.rows[i]?).map (fun row => get row c') := by
  simp only [delColumn, List.getElem?_map, Option.map_map]
  congr 1
  funext row
  exact del_preserves_others_row t.cols row h hc

/-- The dropped column is really gone from every row. -/
theorem del_removes_c (t : Tbl) (c : Name) :
    ∀ row ∈ (delColumn t c).rows, get row c = none := by
  intro row hrow
  simp only [delColumn, List.mem_map] at hrow
  obtain ⟨old, _, rfl⟩ := hrow
  rw [get_rebuildRow]
  simp

/-- Well-formedness is preserved by both schema changes. -/
theorem add_TblOK {t : Tbl} {c : Name} (hc : c ∉ t.cols) (h : TblOK t) : TblOK (addColumn t c) := by
  obtain ⟨hn, hr⟩ := h
  refine ⟨?_, ?_⟩
  · simp only [addColumn]
    rw [List.nodup_append]
    refine ⟨hn, by simp, ?_⟩
    intro a ha b hb
    simp only [List.mem_singleton] at hb
    subst hb
    intro e; exact hc (e ▸ ha)
  · intro row hrow
    simp only [addColumn, List.mem_map] at hrow
    obtain ⟨old, ho, rfl⟩ := hrow
    have := hr old ho
    simp only [RowOK] at this
    simp [RowOK, this, addColumn]

theorem lookup_of_mem_nodup : ∀ (row : Row) (k : Name) (v : Option Int),
    (row.map Prod.fst).Nodup → (k, v) ∈ row → List.lookup k row = some v
  | [], _, _, _, h => by cases h
  | (k0, v0) :: ps, k, v, hn, hm => by
    simp only [List.map_cons, List.nodup_cons] at hn
    rw [List.lookup_cons]
    rcases List.mem_cons.mp hm with e | hm'
    · cases e; simp
    · have hne : k ≠ k0 := by
        intro e; subst e
        exact hn.1 (List.mem_map.mpr ⟨(k, v), hm', rfl⟩)
      have : (k == k0) = false := by simp [hne]
      simp only [this]
      exact lookup_of_mem_nodup ps k v hn.2 hm'

theorem rebuild_sub (full : Row) : ∀ sub : Row,
    (∀ p ∈ sub, List.lookup p.1 full = some p.2) →
    rebuildRow (sub.map Prod.fst) full = sub
  | [], _ => by simp [rebuildRow]
  | (k, v) :: ps, h => by
    have ih := rebuild_sub full ps (fun p hp => h p (by simp [hp]))
    have hk : List.lookup k full = some v := h (k, v) (by simp)
    simp only [rebuildRow, get] at ih ⊢
    simp [hk, ih]

theorem filter_ne_append_self (cols : List Name) (c : Name) (hc : c ∉ cols) :
    (cols ++ [c]).filter (· ≠ c) = cols := by
  rw [List.filter_append]
  have : cols.filter (· ≠ c) = cols := by
    apply List.filter_eq_self.mpr
    intro a ha
    have : a ≠ c := fun e => hc (e ▸ ha)
    simp [this]
  rw [this]; simp

/-- Adding a fresh column and dropping it again restores the table exactly. -/
theorem add_del_cancel {t : Tbl} {c : Name} (hc : c ∉ t.cols) (h : TblOK t) :
    delColumn (addColumn t c) c = t := by
  obtain ⟨hn, hr⟩ := h
  cases t with
  | mk cols rows =>
    simp only [delColumn, addColumn, Tbl.mk.injEq] at hc hn hr ⊢
    rw [filter_ne_append_self cols c hc]
    refine ⟨rfl, ?_⟩
    rw [List.map_map]
    conv => rhs; rw [← List.map_id rows]
    apply List.map_congr_left
    intro row hrow
    have hk : row.map Prod.fst = cols := hr row hrow
    simp only [Function.comp, id]
    rw [← hk]
    apply rebuild_sub
    intro p hp
    rw [List.lookup_append]
    rw [lookup_of_mem_nodup row p.1 p.2 (hk ▸ hn) hp]
    rfl

/-- Column-list part of the cancellation law, with no hypothesis on the rows. -/
theorem add_del_cancel_cols (t : Tbl) {c : Name} (hc : c ∉ t.cols) :
    (delColumn (addColumn t c) c).cols = t.cols :=
  filter_ne_append_self t.cols c hc

end SqlObjVerif.Ddl
