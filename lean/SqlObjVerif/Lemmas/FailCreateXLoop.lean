import SqlObjVerif.Lemmas.FailCreateX
/-!
C06, operation CREATE: the default-filling loop of the translated `SQLObject._create` (`create_for0`).
`create_loop`: run over ANY list of columns from ANY state whose `**kw` holds the keywords `cur`, the loop ends as the
function `fillFrom` says (the completed keywords in `kw`, nothing else changed; or `TypeError` at the first column
without default, without defaultSQL and without keyword); `fillFrom_range`: over `columnList` that is
`missingOf` / `kwFullOf` of `Model/FailCreateX.lean` (the arguments the hand model `Fail.createProg` takes).
`create_loopS`: the same loop for a `**kw` that also holds ForeignKey-by-object names — a column whose `foreignName` is
a keyword (`fkGiven`) is passed over, like a column with a defaultSQL (`maskD` / `maskQ`); `create_loop` is the case
without such names.
-/
namespace SqlObjVerif.PyCreate
open SqlObjVerif.PyMain (PV R mapR ofOpt PDict dget dhas dset dupdate sortByKey ofVal toVal? pvIdx pyBool)
open SqlObjVerif.PyCreate.Extracted
open SqlObjVerif.Fail (Err Schema Inj Extra In clsOf colOf Mem valsOf allOk updPending asgOf)
open SqlObjVerif.PyFail (FW sendStmt memStep excErr mkW kwPV vqOf viewObs runObs obs)

/-- the default-filling loop of `_create` over the columns `cs`, as a function: the completed keywords, or
    `none` when a column without default and without defaultSQL is not given -/
def fillFrom (dflt : Nat → Option In) (dsql : Nat → Bool) : List Nat → List (Nat × In) → Option (List (Nat × In))
  | [], cur => some cur
  | j :: cs, cur =>
    if hasKey cur j then fillFrom dflt dsql cs cur else
      match dflt j with
      | some v => fillFrom dflt dsql cs (cur ++ [(j, v)])
      | Option.none => if dsql j then fillFrom dflt dsql cs cur else Option.none

/-- how the loop ends -/
def loopEnd (xw : XW) (fr : Frame) : Option (List (Nat × In)) → Res
  | some _ => .norm ⟨xw, fr⟩
  | Option.none => .exc ⟨xw, fr⟩ .typeError

theorem dhas_kwPV (cur : List (Nat × In)) (j : Nat) : dhas j (kwPV cur) = hasKey cur j := by
  rw [Bool.eq_iff_iff]
  simp [dhas, kwPV, hasKey]

theorem kwPV_append (a b : List (Nat × In)) : kwPV (a ++ b) = kwPV a ++ kwPV b := by simp [kwPV]

theorem not_mem_keys (cur : List (Nat × In)) (j : Nat) (h : hasKey cur j = false) : j ∉ (kwPV cur).map (·.1) := by
  intro hm
  rw [← PyPure.dhas_iff, dhas_kwPV, h] at hm
  cases hm

/-- the defaults table as the loop sees it when the columns `skip` are given by object (`column.foreignName in kw`):
    such a column is passed over like a column with a defaultSQL -/
def maskD (skip : Nat → Bool) (dflt : Nat → Option In) : Nat → Option In := fun j => if skip j then Option.none else dflt j
def maskQ (skip : Nat → Bool) (dsql : Nat → Bool) : Nat → Bool := fun j => skip j || dsql j

/-- `column.foreignName in kw` for column `j` and the keywords `cur` -/
def fkGiven (w : FW) (cur : List (Nat × In)) (j : Nat) : Bool :=
  (colOf (clsOf w.sch w.c).cols j).fk.isSome && fkIn w j (kwPV cur)

theorem fkIn_append_col (w : FW) (cur : List (Nat × In)) (j j' : Nat) (v : In) (hj : j < w.ncols) :
    fkIn w j' (kwPV (cur ++ [(j, v)])) = fkIn w j' (kwPV cur) := by
  have hb : Nat.blt j w.ncols = true := by simpa [Nat.blt_eq] using hj
  simp [fkIn, kwPV, List.any_append, fkKeyFor, hb]

theorem fkIn_cols (w : FW) (cur : List (Nat × In)) (j : Nat) (h : ∀ e ∈ cur, e.1 < w.ncols) : fkIn w j (kwPV cur) = false := by
  simp only [fkIn, kwPV, List.any_map, List.any_eq_false, Function.comp]
  intro e he
  have hb : Nat.blt e.1 w.ncols = true := by simpa [Nat.blt_eq] using h e he
  simp [fkKeyFor, hb]

/-- the default-filling loop for ANY keyword dict (column names and by-object names): a column whose `foreignName`
    is a keyword (`skip`) is passed over -/
theorem create_loopS (ctx : Ctx) (call : CallT) (skip : Nat → Bool) (cs : List Nat) : ∀ (cur : List (Nat × In)) (st : St),
    st.fr.dicts 0 = some ⟨kwPV cur, []⟩ → (∀ j ∈ cs, j < st.xw.w.ncols) → (∀ j ∈ cs, fkGiven st.xw.w cur j = skip j) →
    ∃ fr', forLoop (fun st' v => Block.exec ctx call (st'.setVar 1 v) create_for0) (cs.map fun j => .pv (.col j)) st =
        loopEnd st.xw fr' (fillFrom (maskD skip ctx.dflt) (maskQ skip ctx.dsql) cs cur) ∧ fr'.vars 0 = st.fr.vars 0 ∧
      ∀ full, fillFrom (maskD skip ctx.dflt) (maskQ skip ctx.dsql) cs cur = some full → fr'.dicts 0 = some ⟨kwPV full, []⟩ := by
  induction cs with
  | nil =>
    intro cur st hd _ _
    exact ⟨st.fr, by simp [forLoop, fillFrom, loopEnd], rfl, by simp [fillFrom, hd]⟩
  | cons j cs ih =>
    intro cur st hd hcs hsk
    have hj : j < st.xw.w.ncols := hcs j (by simp)
    have hsj := hsk j (by simp)
    simp only [List.map_cons, forLoop, fillFrom]
    cases hk : hasKey cur j
    · cases hs : skip j
      · -- the column was not given, neither by name nor by object
        rw [hs] at hsj
        have hmd : maskD skip ctx.dflt j = ctx.dflt j := by simp [maskD, hs]
        have hmq : maskQ skip ctx.dsql j = ctx.dsql j := by simp [maskQ, hs]
        rw [hmd, hmq]
        have hfkc : ∀ b, (colOf (clsOf st.xw.w.sch st.xw.w.c).cols j).fk.isSome = b → b = true → fkIn st.xw.w j (kwPV cur) = false := by
          intro b hb hbt
          subst hbt
          simpa [fkGiven, hb] using hsj
        cases hdf : ctx.dflt j with
        | some v =>
          have hbody : Block.exec ctx call (st.setVar 1 (.pv (.col j))) create_for0 =
              .norm ((st.setVar 1 (.pv (.col j))).setVar 2 (.pv (ofVal v.val)) |>.setDict 0 ⟨kwPV (cur ++ [(j, v)]), []⟩) := by
            unfold create_for0
            cases hfk : (colOf (clsOf st.xw.w.sch st.xw.w.c).cols j).fk.isSome
            · pcwith [hd, dhas_kwPV, hk, hdf, hfk, PyPure.dset_not_mem _ _ _ (not_mem_keys cur j hk), kwPV_append]; rfl
            · have hin := hfkc _ hfk rfl
              pcwith [hd, dhas_kwPV, hk, hdf, hfk, hin, PyPure.dset_not_mem _ _ _ (not_mem_keys cur j hk), kwPV_append]; rfl
          rw [hbody]
          simp only [Bool.false_eq_true, if_false]
          obtain ⟨fr', h1, h2, h3⟩ := ih (cur ++ [(j, v)])
            ((st.setVar 1 (.pv (.col j))).setVar 2 (.pv (ofVal v.val)) |>.setDict 0 ⟨kwPV (cur ++ [(j, v)]), []⟩)
            (by simp [St.setDict, Frame.setDict])
            (fun j' hj' => hcs j' (by simp [hj']))
            (fun j' hj' => by
              have := hsk j' (by simp [hj'])
              rw [← this]
              show fkGiven st.xw.w (cur ++ [(j, v)]) j' = fkGiven st.xw.w cur j'
              simp only [fkGiven, fkIn_append_col _ _ _ _ _ hj])
          exact ⟨fr', h1, by rw [h2]; simp [St.setDict, St.setVar, Frame.setDict, Frame.setVar], h3⟩
        | none =>
          cases hq : ctx.dsql j
          · -- missing: TypeError
            have hbody : Block.exec ctx call (st.setVar 1 (.pv (.col j))) create_for0 =
                .exc ((st.setVar 1 (.pv (.col j))).setVar 2 .noDefault) .typeError := by
              unfold create_for0
              cases hfk : (colOf (clsOf st.xw.w.sch st.xw.w.c).cols j).fk.isSome
              · pcwith [hd, dhas_kwPV, hk, hdf, hfk, hq]
              · have hin := hfkc _ hfk rfl
                pcwith [hd, dhas_kwPV, hk, hdf, hfk, hin, hq]
            rw [hbody]
            exact ⟨_, by simp [loopEnd, St.setVar]; rfl, by simp [Frame.setVar], by simp⟩
          · -- defaultSQL: continue
            have hbody : Block.exec ctx call (st.setVar 1 (.pv (.col j))) create_for0 =
                .cont ((st.setVar 1 (.pv (.col j))).setVar 2 .noDefault) := by
              unfold create_for0
              cases hfk : (colOf (clsOf st.xw.w.sch st.xw.w.c).cols j).fk.isSome
              · pcwith [hd, dhas_kwPV, hk, hdf, hfk, hq]
              · have hin := hfkc _ hfk rfl
                pcwith [hd, dhas_kwPV, hk, hdf, hfk, hin, hq]
            rw [hbody]
            simp only [Bool.false_eq_true, if_false, if_true]
            obtain ⟨fr', h1, h2, h3⟩ := ih cur ((st.setVar 1 (.pv (.col j))).setVar 2 .noDefault)
              (by simpa [St.setVar, Frame.setVar] using hd) (fun j' hj' => hcs j' (by simp [hj']))
              (fun j' hj' => hsk j' (by simp [hj']))
            exact ⟨fr', h1, by rw [h2]; simp [St.setVar, Frame.setVar], h3⟩
      · -- the column is given by object: `column.foreignName in kw`
        rw [hs] at hsj
        have hmd : maskD skip ctx.dflt j = Option.none := by simp [maskD, hs]
        have hmq : maskQ skip ctx.dsql j = true := by simp [maskQ, hs]
        rw [hmd, hmq]
        have hfk : (colOf (clsOf st.xw.w.sch st.xw.w.c).cols j).fk.isSome = true := by
          simp only [fkGiven, Bool.and_eq_true] at hsj; exact hsj.1
        have hin : fkIn st.xw.w j (kwPV cur) = true := by
          simp only [fkGiven, Bool.and_eq_true] at hsj; exact hsj.2
        have hbody : Block.exec ctx call (st.setVar 1 (.pv (.col j))) create_for0 = .norm (st.setVar 1 (.pv (.col j))) := by
          unfold create_for0
          pcwith [hd, dhas_kwPV, hk, hfk, hin]
        rw [hbody]
        simp only [Bool.false_eq_true, if_false, if_true]
        obtain ⟨fr', h1, h2, h3⟩ := ih cur (st.setVar 1 (.pv (.col j)))
          (by simpa [St.setVar, Frame.setVar] using hd) (fun j' hj' => hcs j' (by simp [hj']))
          (fun j' hj' => hsk j' (by simp [hj']))
        exact ⟨fr', h1, by rw [h2]; simp [St.setVar, Frame.setVar], h3⟩
    · -- the column was given
      have hbody : Block.exec ctx call (st.setVar 1 (.pv (.col j))) create_for0 = .norm (st.setVar 1 (.pv (.col j))) := by
        unfold create_for0
        pcwith [hd, dhas_kwPV, hk]
      rw [hbody]
      simp only [if_true]
      obtain ⟨fr', h1, h2, h3⟩ := ih cur (st.setVar 1 (.pv (.col j)))
        (by simpa [St.setVar, Frame.setVar] using hd) (fun j' hj' => hcs j' (by simp [hj']))
        (fun j' hj' => hsk j' (by simp [hj']))
      exact ⟨fr', h1, by rw [h2]; simp [St.setVar, Frame.setVar], h3⟩

theorem maskD_false (dflt : Nat → Option In) : maskD (fun _ => false) dflt = dflt := by funext j; simp [maskD]
theorem maskQ_false (dsql : Nat → Bool) : maskQ (fun _ => false) dsql = dsql := by funext j; simp [maskQ]

/-- all keywords are column names: nothing is passed over -/
theorem create_loop (ctx : Ctx) (call : CallT) (cs : List Nat) (cur : List (Nat × In)) (st : St)
    (hd : st.fr.dicts 0 = some ⟨kwPV cur, []⟩) (hcur : ∀ e ∈ cur, e.1 < st.xw.w.ncols) (hcs : ∀ j ∈ cs, j < st.xw.w.ncols) :
    ∃ fr', forLoop (fun st' v => Block.exec ctx call (st'.setVar 1 v) create_for0) (cs.map fun j => .pv (.col j)) st =
        loopEnd st.xw fr' (fillFrom ctx.dflt ctx.dsql cs cur) ∧ fr'.vars 0 = st.fr.vars 0 ∧
      ∀ full, fillFrom ctx.dflt ctx.dsql cs cur = some full → fr'.dicts 0 = some ⟨kwPV full, []⟩ := by
  have h := create_loopS ctx call (fun _ => false) cs cur st hd hcs
    (fun j _ => by simp [fkGiven, fkIn_cols _ _ _ hcur])
  rw [maskD_false, maskQ_false] at h
  exact h

theorem hasKey_append (a b : List (Nat × In)) (j : Nat) : hasKey (a ++ b) j = (hasKey a j || hasKey b j) := by
  simp [hasKey, List.any_append]

theorem hasKey_false_of (b : List (Nat × In)) (j : Nat) (h : ∀ e ∈ b, e.1 ≠ j) : hasKey b j = false := by
  simp only [hasKey, List.any_eq_false, beq_iff_eq]
  intro e he; exact h e he

/-- the loop as a closed form: `missing`, or the keywords followed by the defaulted columns -/
theorem fillFrom_eq (dflt : Nat → Option In) (dsql : Nat → Bool) (pk : List (Nat × In)) (cs : List Nat) :
    ∀ (extra : List (Nat × In)), cs.Nodup → (∀ e ∈ extra, e.1 ∉ cs) →
    fillFrom dflt dsql cs (pk ++ extra) =
      if (cs.any fun j => !hasKey pk j && (dflt j).isNone && !dsql j) then Option.none
      else some (pk ++ extra ++ defaulted dflt pk cs) := by
  induction cs with
  | nil => intro extra _ _; simp [fillFrom, defaulted]
  | cons j cs ih =>
    intro extra hnd hdis
    simp only [List.nodup_cons] at hnd
    have hex : hasKey extra j = false := hasKey_false_of extra j (fun e he h => hdis e he (by simp [h]))
    have hdis' : ∀ e ∈ extra, e.1 ∉ cs := fun e he h => hdis e he (by simp [h])
    have hdef : ∀ cs', defaulted dflt pk cs' =
        cs'.filterMap fun j => if hasKey pk j then Option.none else (dflt j).map fun v => (j, v) := fun _ => rfl
    by_cases hk : hasKey pk j = true
    · have := ih extra hnd.2 hdis'
      simp only [fillFrom, hasKey_append, hex, Bool.or_false, List.any_cons, hk, if_true, this, hdef, List.filterMap_cons]
      simp
    · simp only [Bool.not_eq_true] at hk
      cases hdf : dflt j with
      | some v =>
        have := ih (extra ++ [(j, v)]) hnd.2 (by
          intro e he
          simp only [List.mem_append, List.mem_singleton] at he
          rcases he with he | rfl
          · exact hdis' e he
          · exact hnd.1)
        simp only [← List.append_assoc] at this
        simp only [fillFrom, hasKey_append, hex, Bool.or_false, List.any_cons, hk, hdf, this, hdef, List.filterMap_cons]
        simp
      | none =>
        have := ih extra hnd.2 hdis'
        by_cases hq : dsql j = true
        · simp only [fillFrom, hasKey_append, hex, Bool.or_false, List.any_cons, hk, hdf, hq, this, hdef, List.filterMap_cons]
          simp
        · simp only [Bool.not_eq_true] at hq
          simp only [fillFrom, hasKey_append, hex, Bool.or_false, List.any_cons, hk, hdf, hq]
          simp

theorem fillFrom_range (dflt : Nat → Option In) (dsql : Nat → Bool) (n : Nat) (pk : List (Nat × In)) :
    fillFrom dflt dsql (List.range n) pk =
      if missingOf dflt dsql n pk then Option.none else some (kwFullOf dflt n pk) := by
  have := fillFrom_eq dflt dsql pk (List.range n) [] List.nodup_range (by simp)
  simpa [missingOf, kwFullOf] using this

end SqlObjVerif.PyCreate
