import SqlObjVerif.Model.PyEv
/-!
Rewrite lemmas for the PyEv embedding (`Model/PyEv.lean`): constructor-only equations of its helper functions, the
pure list / dict facts the translated methods need, and the evaluation macro `evrun`.
-/
namespace SqlObjVerif.PyEv
open SqlObjVerif.Events (Val Kw Key Sig Listener Entry Cfg)
open SqlObjVerif.PyMain (R mapR ofOpt dget dhas dset dupdate dictOf sortByKey insByKey Exc FnKind)

section
variable {α β : Type}
@[simp] theorem bind_ok (a : α) (f : α → R β) : (R.ok a).bind f = f a := rfl
@[simp] theorem bind_exc (e : Exc) (f : α → R β) : (R.exc e : R α).bind f = .exc e := rfl
@[simp] theorem bind_stuck (f : α → R β) : (R.stuck : R α).bind f = .stuck := rfl
@[simp] theorem ofOpt_some (a : α) : ofOpt (some a) = .ok a := rfl
@[simp] theorem ofOpt_none : ofOpt (Option.none : Option α) = .stuck := rfl
@[simp] theorem withR_ok (st : St) (a : α) (f : α → Res) : withR st (.ok a) f = f a := rfl
@[simp] theorem withR_exc (st : St) (e : Exc) (f : α → Res) : withR st (.exc e) f = .exc st e := rfl
@[simp] theorem withR_stuck (st : St) (f : α → Res) : withR st .stuck f = .stuck := rfl
@[simp] theorem ofOptRes_some (a : α) (f : α → Res) : ofOptRes (some a) f = f a := rfl
@[simp] theorem ofOptRes_none (f : α → Res) : ofOptRes (Option.none : Option α) f = .stuck := rfl
@[simp] theorem put_apply (e : Env α) (x y : Nat) (v : α) : (e.put x v) y = if y = x then some v else e y := rfl
@[simp] theorem empty_apply (y : Nat) : (Env.empty : Env α) y = Option.none := rfl
theorem put_put (e : Env α) (x : Nat) (v v' : α) : (e.put x v).put x v' = e.put x v' := by
  funext y; simp only [put_apply]; split <;> rfl
end

@[simp] theorem afterCall_ret (w : World) (v : PV) (st : St) : afterCall (.ret w v) st = .norm { st with w := w } := rfl
@[simp] theorem afterCall_exc (w : World) (e : Exc) (st : St) : afterCall (.exc w e) st = .exc { st with w := w } e := rfl
@[simp] theorem afterCall_deadlock (w : World) (st : St) : afterCall (.deadlock w) st = .deadlock { st with w := w } := rfl
@[simp] theorem afterCall_stuck (st : St) : afterCall .stuck st = .stuck := rfl
@[simp] theorem tbind_one (st : St) (x : Nat) (v : PV) : Target.bind st (.one x) v = some (st.setVar x v) := rfl
@[simp] theorem tbind_two (st : St) (x y : Nat) (a b : PV) :
    Target.bind st (.two x y) (.pair a b) = some ((st.setVar x a).setVar y b) := rfl
@[simp] theorem bind_one (k : St → Res) (st : St) (x : Nat) (v : PV) : bindThen (.one x) k st v = k (st.setVar x v) := rfl
@[simp] theorem bind_two (k : St → Res) (st : St) (x y : Nat) (a b : PV) :
    bindThen (.two x y) k st (.pair a b) = k ((st.setVar x a).setVar y b) := rfl
@[simp] theorem bindIdx_eq (x : Nat) (k : St → Res) (st : St) (i : Nat) : bindIdx x k st i = k (st.setVar x (.thunkAt i)) := rfl

@[simp] theorem seq_norm (st : St) (k : St → Res) : (Res.norm st).seq k = k st := by rw [Res.seq]
@[simp] theorem seq_ret (st : St) (v : PV) (k : St → Res) : (Res.ret st v).seq k = .ret st v := by rw [Res.seq]
@[simp] theorem seq_exc (st : St) (e : Exc) (k : St → Res) : (Res.exc st e).seq k = .exc st e := by rw [Res.seq]
@[simp] theorem seq_cont (st : St) (k : St → Res) : (Res.cont st).seq k = .cont st := by rw [Res.seq]
@[simp] theorem seq_deadlock (st : St) (k : St → Res) : (Res.deadlock st).seq k = .deadlock st := by rw [Res.seq]
@[simp] theorem seq_stuck (k : St → Res) : Res.stuck.seq k = .stuck := by rw [Res.seq]

@[simp] theorem finish_norm (st : St) (fin : St → Res) : finish (.norm st) fin = fin st := by rw [finish]
@[simp] theorem finish_deadlock (st : St) (fin : St → Res) : finish (.deadlock st) fin = .deadlock st := by rw [finish]
@[simp] theorem finish_stuck (fin : St → Res) : finish .stuck fin = .stuck := by rw [finish]
@[simp] theorem finish_ret (st : St) (v : PV) (fin : St → Res) :
    finish (.ret st v) fin = finishWith (fun st'' => .ret st'' v) (fin st) := by rw [finish]
@[simp] theorem finish_exc (st : St) (e : Exc) (fin : St → Res) :
    finish (.exc st e) fin = finishWith (fun st'' => .exc st'' e) (fin st) := by rw [finish]
@[simp] theorem finishWith_norm (mk : St → Res) (st : St) : finishWith mk (.norm st) = mk st := by rw [finishWith]
@[simp] theorem finishWith_exc (mk : St → Res) (st : St) (e : Exc) : finishWith mk (.exc st e) = .exc st e := by rw [finishWith]
@[simp] theorem finishWith_ret (mk : St → Res) (st : St) (v : PV) : finishWith mk (.ret st v) = .ret st v := by rw [finishWith]
@[simp] theorem finishWith_stuck (mk : St → Res) : finishWith mk .stuck = .stuck := by rw [finishWith]
@[simp] theorem finishWith_deadlock (mk : St → Res) (st : St) : finishWith mk (.deadlock st) = .deadlock st := by rw [finishWith]

@[simp] theorem toVal_ofVal (v : Val) : toVal? (ofVal v) = some v := by cases v <;> rfl
@[simp] theorem toVal_none : toVal? PV.none = some .null := rfl
@[simp] theorem toVal_int (i : Int) : toVal? (PV.int i) = some (.int i) := rfl
@[simp] theorem toVal_bad : toVal? PV.bad = some .bad := rfl
@[simp] theorem ofVal_null : ofVal .null = .none := rfl
@[simp] theorem ofVal_bad : ofVal .bad = .bad := rfl

@[simp] theorem pvIdx_pair0 (a b : PV) : pvIdx (.pair a b) 0 = .ok a := rfl
@[simp] theorem pvIdx_pair1 (a b : PV) : pvIdx (.pair a b) 1 = .ok b := rfl
@[simp] theorem colAttrOf_name (k : Cfg) (c : Nat) : colAttrOf k (.col c) .name = .ok (.name c) := rfl
@[simp] theorem colAttrOf_dbName (k : Cfg) (c : Nat) : colAttrOf k (.col c) .dbName = .ok (.dbName c) := rfl
@[simp] theorem colAttrOf_creationOrder (k : Cfg) (c : Nat) : colAttrOf k (.col c) .creationOrder = .ok (.nat c) := rfl
@[simp] theorem colAttrOf_default (k : Cfg) (c : Nat) : colAttrOf k (.col c) .default = .ok (ofVal (k.dflt c)) := rfl
@[simp] theorem colAttrOf_defaultSQL (k : Cfg) (c : Nat) : colAttrOf k (.col c) .defaultSQL = .ok .none := rfl
@[simp] theorem colAttrOf_foreignName (k : Cfg) (c : Nat) : colAttrOf k (.col c) .foreignName = .ok .none := rfl
@[simp] theorem callFn_from (c : Nat) (v : Val) :
    callFn (.fn .fromPy c) (ofVal v) = if v = .bad then .exc .invalid else .ok (ofVal v) := by cases v <;> rfl
@[simp] theorem callFn_to (c : Nat) (v : Val) : callFn (.fn .toPy c) (ofVal v) = .ok (ofVal v) := by cases v <;> rfl
@[simp] theorem callFn_from_bad (c : Nat) : callFn (.fn .fromPy c) .bad = .exc .invalid := rfl
@[simp] theorem callFn_to_bad (c : Nat) : callFn (.fn .toPy c) .bad = .ok .bad := rfl
@[simp] theorem callFn_none (k : FnKind) (c : Nat) : callFn (.fn k c) .none = .ok .none := by cases k <;> rfl
@[simp] theorem callFn_int (k : FnKind) (c : Nat) (i : Int) : callFn (.fn k c) (.int i) = .ok (.int i) := by cases k <;> rfl
@[simp] theorem nameOf_name (c : Nat) : nameOf (.name c) = some c := rfl
@[simp] theorem natOf_nat (c : Nat) : natOf (.nat c) = some c := rfl
@[simp] theorem dbNameOf_dbName (c : Nat) : dbNameOf (.dbName c) = some c := rfl
@[simp] theorem updItemOf_pair (c : Nat) (v : PV) : updItemOf (.pair (.dbName c) v) = (toVal? v).map fun x => (c, x) := rfl
@[simp] theorem dictItemOf_pair (c : Nat) (v : PV) : dictItemOf (.pair (.name c) v) = some (c, v) := rfl
@[simp] theorem postOf_post (p : Nat) : postOf (.post p) = some p := rfl
@[simp] theorem pyBool_none : pyBool .none = some false := rfl
@[simp] theorem pyBool_bool (b : Bool) : pyBool (.bool b) = some b := rfl
@[simp] theorem pyBool_row (r : List Val) : pyBool (.row r) = some (!r.isEmpty) := rfl
@[simp] theorem pyBool_fn (k : FnKind) (c : Nat) : pyBool (.fn k c) = some true := rfl
@[simp] theorem isNone_none : PV.isNone .none = true := rfl
@[simp] theorem isNone_nat (n : Nat) : PV.isNone (.nat n) = false := rfl
@[simp] theorem isNone_row (r : List Val) : PV.isNone (.row r) = false := rfl
@[simp] theorem isNoDefault_ofVal (v : Val) : PV.isNoDefault (ofVal v) = false := by cases v <;> rfl
@[simp] theorem keyIn_name (l : PDict) (c : Nat) : keyIn l (.name c) = some (dhas c l) := rfl
@[simp] theorem keyIn_str (l : PDict) (s : String) : keyIn l (.str s) = some false := rfl
@[simp] theorem keyIn_none (l : PDict) : keyIn l .none = some false := rfl

@[simp] theorem optMap_map {α β γ : Type} (f : β → Option γ) (g : α → β) (l : List α) :
    optMap f (l.map g) = optMap (fun x => f (g x)) l := by
  induction l with
  | nil => rfl
  | cons a l ih => simp [optMap, ih]

@[simp] theorem optMap_some {α β : Type} (g : α → β) (l : List α) : optMap (fun x => some (g x)) l = some (l.map g) := by
  induction l with
  | nil => rfl
  | cons a l ih => simp [optMap, ih]

@[simp] theorem optMap_some_id {α : Type} (l : List α) : optMap (fun x => some x) l = some l := by
  induction l with
  | nil => rfl
  | cons a l ih => simp [optMap, ih]

@[simp] theorem mapR_map {α β γ : Type} (f : β → R γ) (g : α → β) (l : List α) :
    mapR f (l.map g) = mapR (fun x => f (g x)) l := by
  induction l with
  | nil => rfl
  | cons a l ih => simp [mapR, ih]

@[simp] theorem mapR_ok {α β : Type} (g : α → β) (l : List α) : mapR (fun x => R.ok (g x)) l = .ok (l.map g) := by
  induction l with
  | nil => rfl
  | cons a l ih => simp [mapR, ih]

/-- a list computed element by element, every element succeeding -/
theorem mapR_ok_of {α β : Type} {f : α → R β} {l : List α} {m : R (List β)} (hm : mapR f l = m) (g : α → β)
    (hf : ∀ x ∈ l, f x = .ok (g x)) : m = .ok (l.map g) := by
  subst hm
  induction l with
  | nil => rfl
  | cons a l ih =>
    simp only [mapR, hf a (by simp), bind_ok, List.map_cons]
    rw [ih (fun x hx => hf x (by simp [hx]))]
    rfl

@[simp] theorem kwOf_kwPV (kw : Kw) : kwOf (kwPV kw) = some kw := by
  induction kw with
  | nil => rfl
  | cons e l ih =>
    have : kwPV (e :: l) = (e.1, ofVal e.2) :: kwPV l := rfl
    rw [this, kwOf, toVal_ofVal, ih]

@[simp] theorem kwPV_nil : kwPV [] = [] := rfl

@[simp] theorem mapR_kwPV {β : Type} (f : Nat × PV → R β) (l : Kw) : mapR f (kwPV l) = mapR (fun e => f (e.1, ofVal e.2)) l := by
  unfold kwPV; rw [mapR_map]
@[simp] theorem map_kwPV {β : Type} (f : Nat × PV → β) (l : Kw) : List.map f (kwPV l) = List.map (fun e => f (e.1, ofVal e.2)) l := by
  unfold kwPV; rw [List.map_map]; rfl
@[simp] theorem kwOf_nil : kwOf [] = some [] := rfl
@[simp] theorem kwPV_eq_nil (l : Kw) : kwPV l = [] ↔ l = [] := by cases l <;> simp [kwPV]


/-! ### sorting by creation order -/

theorem insByKey_map {α β : Type} (g : Nat × α → β) (x : Nat × α) (l : List (Nat × α)) :
    insByKey (x.1, g x) (l.map fun e => (e.1, g e)) = (insByKey x l).map fun e => (e.1, g e) := by
  induction l with
  | nil => rfl
  | cons y r ih =>
    simp only [List.map_cons, insByKey]
    split
    · rfl
    · simp [ih]

theorem sortByKey_map {α β : Type} (g : Nat × α → β) (l : List (Nat × α)) :
    sortByKey (l.map fun e => (e.1, g e)) = (sortByKey l).map fun e => (e.1, g e) := by
  induction l with
  | nil => rfl
  | cons x l ih =>
    simp only [sortByKey, List.map_cons, List.foldr_cons] at ih ⊢
    rw [ih, insByKey_map]

@[simp] theorem sortByKey_nil {α : Type} : sortByKey ([] : List (Nat × α)) = [] := rfl

theorem mem_insByKey {α : Type} (x e : Nat × α) (l : List (Nat × α)) : e ∈ insByKey x l ↔ e = x ∨ e ∈ l := by
  induction l with
  | nil => simp [insByKey]
  | cons y r ih =>
    simp only [insByKey]
    split
    · simp
    · simp [ih]; constructor <;> (intro h; rcases h with h | h | h <;> simp [h])

theorem mem_sortByKey {α : Type} (e : Nat × α) (l : List (Nat × α)) : e ∈ sortByKey l ↔ e ∈ l := by
  induction l with
  | nil => simp [sortByKey]
  | cons x l ih =>
    simp only [sortByKey, List.foldr_cons] at ih ⊢
    rw [mem_insByKey, ih]; simp

theorem lookup_insByKey {α : Type} (k : Nat) (x : Nat × α) (l : List (Nat × α)) (hx : ∀ e ∈ l, e.1 ≠ x.1) :
    List.lookup k (insByKey x l) = if k = x.1 then some x.2 else List.lookup k l := by
  induction l with
  | nil =>
    by_cases h : k = x.1
    · simp [insByKey, List.lookup, h]
    · have : (k == x.1) = false := by simpa using h
      simp [insByKey, List.lookup, h, this]
  | cons y r ih =>
    have hy : y.1 ≠ x.1 := hx y (by simp)
    simp only [insByKey]
    split
    · by_cases h : k = x.1
      · simp [List.lookup, h]
      · simp only [h, if_false]
        rw [List.lookup]
        have : (k == x.1) = false := by simpa using h
        simp [this]
    · rw [List.lookup_cons, List.lookup_cons, ih (fun e he => hx e (by simp [he]))]
      by_cases h : k = x.1
      · subst h
        have : (x.1 == y.1) = false := by simpa using fun e => hy e.symm
        simp [this]
      · simp [h]

/-- sorting a dict by key does not change what a key is bound to -/
theorem lookup_sortByKey {α : Type} (k : Nat) (l : List (Nat × α)) (hnd : (l.map (·.1)).Nodup) :
    List.lookup k (sortByKey l) = List.lookup k l := by
  induction l with
  | nil => rfl
  | cons x l ih =>
    simp only [List.map_cons, List.nodup_cons] at hnd
    have : sortByKey (x :: l) = insByKey x (sortByKey l) := rfl
    rw [this, lookup_insByKey, ih hnd.2, List.lookup_cons]
    · by_cases h : k = x.1
      · simp [h]
      · have : (k == x.1) = false := by simpa using h
        simp [h, this]
    · intro e he hk
      apply hnd.1
      rw [← hk]
      exact List.mem_map_of_mem (f := (·.1)) ((mem_sortByKey e l).mp he)

/-! ### dicts -/

theorem dhas_iff {α : Type} (k : Nat) (l : List (Nat × α)) : dhas k l = true ↔ k ∈ l.map (·.1) := by
  simp [dhas]

theorem dset_not_mem {α : Type} (k : Nat) (v : α) (l : List (Nat × α)) (h : k ∉ l.map (·.1)) : dset k v l = l ++ [(k, v)] := by
  unfold dset
  have : dhas k l = false := by
    cases hd : dhas k l
    · rfl
    · exact absurd ((dhas_iff k l).mp hd) h
  simp [this]

theorem dset_mem {α : Type} (k : Nat) (v : α) (l : List (Nat × α)) (h : k ∈ l.map (·.1)) :
    dset k v l = l.map (fun e => if e.1 = k then (k, v) else e) := by
  unfold dset
  simp [(dhas_iff k l).mpr h]

theorem dget_eq_lookup {α : Type} (k : Nat) (l : List (Nat × α)) : dget k l = List.lookup k l := by
  induction l with
  | nil => rfl
  | cons e l ih =>
    rw [dget, List.lookup_cons, ih]
    by_cases h : e.1 = k
    · subst h; simp
    · have : (k == e.1) = false := by simpa using fun x => h x.symm
      simp [h, this]

theorem dhas_eq_lookup {α : Type} (k : Nat) (l : List (Nat × α)) : dhas k l = (List.lookup k l).isSome := by
  induction l with
  | nil => rfl
  | cons e l ih =>
    rw [List.lookup_cons]
    have : dhas k (e :: l) = (decide (e.1 = k) || dhas k l) := by simp [dhas]
    rw [this, ih]
    by_cases h : e.1 = k
    · subst h; simp
    · have : (k == e.1) = false := by simpa using fun x => h x.symm
      simp [h, this]

theorem eq_of_key_eq {α : Type} {l : List (Nat × α)} (hnd : (l.map (·.1)).Nodup) {a b : Nat × α} (ha : a ∈ l) (hb : b ∈ l)
    (h : a.1 = b.1) : a = b := by
  induction l with
  | nil => simp at ha
  | cons x l ih =>
    simp only [List.map_cons, List.nodup_cons] at hnd
    simp only [List.mem_cons] at ha hb
    rcases ha with rfl | ha <;> rcases hb with rfl | hb
    · rfl
    · exact absurd (List.mem_map_of_mem (f := (·.1)) hb) (by rw [← h]; exact hnd.1)
    · exact absurd (List.mem_map_of_mem (f := (·.1)) ha) (by rw [h]; exact hnd.1)
    · exact ih hnd.2 ha hb

/-- `d[k] = v` where `d` already binds `k` to `v` -/
theorem dset_same {α : Type} (k : Nat) (v : α) (l : List (Nat × α)) (hnd : (l.map (·.1)).Nodup) (h : (k, v) ∈ l) :
    dset k v l = l := by
  rw [dset_mem _ _ _ (List.mem_map_of_mem (f := (·.1)) h)]
  conv => rhs; rw [← List.map_id l]
  apply List.map_congr_left
  intro e he
  by_cases hk : e.1 = k
  · simp [eq_of_key_eq hnd he h hk]
  · simp [hk]

theorem dupdate_cons {α : Type} (x : Nat × α) (l d : List (Nat × α)) : dupdate (x :: l) d = dupdate l (dset x.1 x.2 d) := rfl

theorem dictOf_nodup {α : Type} (l : List (Nat × α)) (hl : (l.map (·.1)).Nodup) : dictOf l = l := by
  suffices h : ∀ (d : List (Nat × α)), (∀ k ∈ l.map (·.1), k ∉ d.map (·.1)) → dupdate l d = d ++ l by
    simpa [dictOf] using h [] (by simp)
  induction l with
  | nil => intro d _; simp [dupdate]
  | cons x l ih =>
    intro d hd
    simp only [List.map_cons, List.nodup_cons] at hl
    rw [dupdate_cons, dset_not_mem _ _ _ (hd x.1 (by simp)), ih hl.2]
    · simp
    · intro k hk
      simp only [List.map_append, List.map_cons, List.map_nil, List.mem_append, List.mem_singleton, not_or]
      exact ⟨hd k (by simp [hk]), fun e => hl.1 (e ▸ hk)⟩

/-! ### the evaluation macro -/

macro "evwith" "[" args:Lean.Parser.Tactic.simpLemma,* "]" : tactic => `(tactic|
  simp [PyEv.run, PyEv.runFrame, Block.exec, Stmt.exec, Cond.eval, Expr.eval, LExpr.eval, St.setVar, St.setList, St.setW,
        St.setObj, St.getDict, St.setDict, St.frame, getFlag, Obj.setFlag, Obj.setVal, itemsOf, Res.toOutcome, mapR, optMap,
        forLoop, doSend, sargDict, sargList, sargsOk, envOfList, thunkOf, tagLog, $args,*])

macro "evrun" : tactic => `(tactic|
  simp [PyEv.run, PyEv.runFrame, Block.exec, Stmt.exec, Cond.eval, Expr.eval, LExpr.eval, St.setVar, St.setList, St.setW,
        St.setObj, St.getDict, St.setDict, St.frame, getFlag, Obj.setFlag, Obj.setVal, itemsOf, Res.toOutcome, mapR, optMap,
        forLoop, doSend, sargDict, sargList, sargsOk, envOfList, thunkOf, tagLog, *])

end SqlObjVerif.PyEv
