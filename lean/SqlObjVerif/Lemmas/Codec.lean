import SqlObjVerif.Model.Codec
set_option linter.unusedSimpArgs false
namespace SqlObjVerif.Codec

theorem isDigit_iff (c : Nat) : isDigit c = true ↔ 48 ≤ c ∧ c ≤ 57 := by
  simp [isDigit]

theorem valD_append_single (s : Str) (c : Nat) : valD (s ++ [c]) = valD s * 10 + (c - 48) := by
  simp [valD, List.foldl_append]

theorem showNat_digits (n : Nat) : ∀ c ∈ showNat n, isDigit c = true := by
  induction n using Nat.strongRecOn with
  | _ n ih =>
    intro c hc
    rw [showNat] at hc
    split at hc
    · simp at hc; subst hc; simp [isDigit]; omega
    · simp at hc
      rcases hc with hc | hc
      · exact ih (n / 10) (by omega) c hc
      · subst hc; simp [isDigit]; omega

theorem valD_showNat (n : Nat) : valD (showNat n) = n := by
  induction n using Nat.strongRecOn with
  | _ n ih =>
    rw [showNat]
    split
    · simp [valD]
    · rw [valD_append_single, ih (n / 10) (by omega)]; omega

theorem showNat_ne_nil (n : Nat) : showNat n ≠ [] := by
  rw [showNat]; split <;> simp

theorem showNat_length_le (k : Nat) : ∀ n, n < 10 ^ (k + 1) → (showNat n).length ≤ k + 1 := by
  induction k with
  | zero => intro n h; rw [showNat]; simp at h; simp [h]
  | succ k ih =>
    intro n h
    rw [showNat]
    split
    · simp
    · have : n / 10 < 10 ^ (k + 1) := by
        rw [Nat.pow_succ] at h; omega
      have := ih _ this
      simp; omega

theorem fmtD_digits (w n : Nat) : ∀ c ∈ fmtD w n, isDigit c = true := by
  intro c hc
  simp [fmtD] at hc
  rcases hc with ⟨_, rfl⟩ | hc
  · simp [isDigit]
  · exact showNat_digits n c hc

theorem valD_replicate_zero (k : Nat) (s : Str) : valD (List.replicate k 48 ++ s) = valD s := by
  induction k with
  | zero => simp
  | succ k ih =>
    simp only [List.replicate_succ, List.cons_append]
    simp only [valD, List.foldl_cons] at ih ⊢
    simpa using ih

theorem valD_fmtD (w n : Nat) : valD (fmtD w n) = n := by
  simp [fmtD, valD_replicate_zero, valD_showNat]

theorem fmtD_ne_nil (w n : Nat) : fmtD w n ≠ [] := by
  simp [fmtD, showNat_ne_nil]

theorem fmtD_length (w n : Nat) : (fmtD w n).length = max w (showNat n).length := by
  simp [fmtD]; omega

theorem fmtD_length_le (w k n : Nat) (hw : w ≤ k + 1) (hn : n < 10 ^ (k + 1)) : (fmtD w n).length ≤ k + 1 := by
  have := showNat_length_le k n hn
  rw [fmtD_length]; omega

theorem fmtD_length_eq (k n : Nat) (hn : n < 10 ^ (k + 1)) : (fmtD (k + 1) n).length = k + 1 := by
  have := showNat_length_le k n hn
  rw [fmtD_length]; omega

/-! string literals -/
theorem lexStr_cons_ne (c : Nat) (cs : Str) (h : c ≠ 39) :
    lexStr (c :: cs) = (lexStr cs).map (fun p => (c :: p.1, p.2)) := by
  cases cs <;> simp [lexStr, h]

theorem lexStr_qq (cs : Str) : lexStr (39 :: 39 :: cs) = (lexStr cs).map (fun p => (39 :: p.1, p.2)) := by
  simp [lexStr]

theorem lexStr_q_end : lexStr [39] = some ([], []) := by simp [lexStr]

theorem lexStr_escape (s : Str) : lexStr (replace1 39 [39, 39] s ++ [39]) = some (s, []) := by
  induction s with
  | nil => simp [replace1, lexStr_q_end]
  | cons c cs ih =>
    by_cases h : c = 39
    · subst h
      simp only [replace1, if_true, List.cons_append, List.nil_append]
      rw [lexStr_qq, ih]; rfl
    · simp only [replace1, h, if_false, List.cons_append]
      rw [lexStr_cons_ne _ _ h, ih]; rfl

theorem replace1_noquote (s : Str) (h : 39 ∉ s) : replace1 39 [39, 39] s = s := by
  induction s with
  | nil => rfl
  | cons c cs ih =>
    simp at h
    have hc : c ≠ 39 := fun e => h.1 e.symm
    simp [replace1, hc, ih h.2]

theorem lexStr_noquote (b : Str) (h : 39 ∉ b) : lexStr (b ++ [39]) = some (b, []) := by
  have := lexStr_escape b
  rwa [replace1_noquote b h] at this

theorem mem_replace1 (x : Nat) (s : Str) : x ∈ replace1 39 [39, 39] s → x ∈ s := by
  induction s with
  | nil => simp [replace1]
  | cons c cs ih =>
    by_cases h : c = 39
    · subst h; simp [replace1]; intro h; rcases h with h | h
      · exact Or.inl h
      · exact Or.inr (ih h)
    · simp [replace1, h]; intro h; rcases h with h | h
      · exact Or.inl h
      · exact Or.inr (ih h)

theorem evalLit_quoteStr (s : Str) (h0 : 0 ∉ s) : evalLit (quoteStr s) = some (.text s) := by
  have hq : quoteStr s = 39 :: (replace1 39 [39, 39] s ++ [39]) := by
    simp [quoteStr, Extracted.strPre, Extracted.strPost, Extracted.strReplOrig, Extracted.strReplNew]
  have hz : 0 ∉ quoteStr s := by
    rw [hq]; simp; intro h; exact h0 (mem_replace1 0 s h)
  unfold evalLit; rw [if_neg hz, hq]
  simp [Extracted.nullLit, lexStr_escape]

/-! integer literals -/
theorem showNat_all_digits (n : Nat) : (showNat n).all isDigit = true := by
  simp only [List.all_eq_true]; exact showNat_digits n

theorem showNat_head_ne (n : Nat) (x : Nat) (hx : isDigit x = false) : ∀ r, showNat n ≠ x :: r := by
  intro r h
  have := showNat_digits n x (by rw [h]; simp)
  simp [this] at hx

theorem evalLit_reprInt (i : Int) :
    evalLit (reprInt i) = some (if int64 i then .integer i else .real (.ofInt i)) := by
  have hz : ∀ n, 0 ∉ showNat n := fun n h => by have := showNat_digits n 0 h; simp [isDigit] at this
  by_cases hi : i < 0
  · have hr : reprInt i = 45 :: showNat i.natAbs := by simp [reprInt, hi]
    have h0 : 0 ∉ reprInt i := by rw [hr]; simp; exact hz _
    unfold evalLit; rw [if_neg h0, hr]
    have hv : (-(valD (showNat i.natAbs) : Int)) = i := by rw [valD_showNat]; omega
    simp [Extracted.nullLit, numLit, showNat_ne_nil, showNat_all_digits, hv]
    split <;> rfl
  · have hr : reprInt i = showNat i.toNat := by simp [reprInt, hi]
    have h0 : 0 ∉ reprInt i := by rw [hr]; exact hz _
    unfold evalLit; rw [if_neg h0, hr]
    have hv : ((valD (showNat i.toNat) : Nat) : Int) = i := by rw [valD_showNat]; omega
    have hn : showNat i.toNat ≠ Extracted.nullLit := by
      simp only [Extracted.nullLit]; exact showNat_head_ne _ 78 (by decide) _
    rw [if_neg hn]
    have h39 := showNat_head_ne i.toNat 39 (by decide)
    have h45 := showNat_head_ne i.toNat 45 (by decide)
    cases hs : showNat i.toNat with
    | nil => exact absurd hs (showNat_ne_nil _)
    | cons c r =>
      have hc39 : c ≠ 39 := fun e => h39 r (by rw [hs, e])
      have hc45 : c ≠ 45 := fun e => h45 r (by rw [hs, e])
      simp only [hc39, hc45, if_false]
      rw [← hs]
      simp [numLit, showNat_ne_nil, showNat_all_digits, hv]
      split <;> rfl

/-- "next character is not a digit (or end of input)" -/
def endsField : Str → Prop
  | [] => True
  | c :: _ => isDigit c = false

theorem takeDigits_field (ds rest : Str) (k : Nat) (hd : ∀ c ∈ ds, isDigit c = true)
    (hl : ds.length ≤ k) (hr : endsField rest) : takeDigits k (ds ++ rest) = (ds, rest) := by
  induction ds generalizing k with
  | nil =>
    cases k with
    | zero => simp [takeDigits]
    | succ k =>
      cases rest with
      | nil => simp [takeDigits]
      | cons c r => simp [endsField] at hr; simp [takeDigits, hr]
  | cons d ds ih =>
    cases k with
    | zero => simp at hl
    | succ k =>
      have hd' : isDigit d = true := hd d (by simp)
      have := ih k (fun c hc => hd c (by simp [hc])) (by simpa using hl)
      simp [takeDigits, hd', this]

theorem dropDigits_field (ds rest : Str) (hd : ∀ c ∈ ds, isDigit c = true) (hr : endsField rest) :
    dropDigits (ds ++ rest) = rest := by
  induction ds with
  | nil =>
    cases rest with
    | nil => simp [dropDigits]
    | cons c r => simp [endsField] at hr; simp [dropDigits, hr]
  | cons d ds ih =>
    have hd' : isDigit d = true := hd d (by simp)
    simp [dropDigits, hd', ih (fun c hc => hd c (by simp [hc]))]

/-- one numeric directive of `strp` over a rendered field -/
theorem strp_field (p : SPiece) (ps : List SPiece) (ds rest : Str) (acc : DT)
    (hp : ∀ c, p ≠ .lit c) (hd : ∀ c ∈ ds, isDigit c = true) (hne : ds ≠ [])
    (hl : ds.length ≤ p.width) (hY : p = .Y → ds.length = 4) (hf : p = .f → ds.length = 6)
    (hr : endsField rest) :
    strp (p :: ps) (ds ++ rest) acc = strp ps rest (acc.set p (valD ds)) := by
  have ht := takeDigits_field ds rest p.width hd hl hr
  cases p with
  | lit c => exact absurd rfl (hp c)
  | Y => simp [strp, ht, hne, hY rfl]
  | f =>
    have h6 := hf rfl
    simp [strp, ht, hne, h6]
  | m => simp [strp, ht, hne]
  | d => simp [strp, ht, hne]
  | H => simp [strp, ht, hne]
  | M => simp [strp, ht, hne]
  | S => simp [strp, ht, hne]

theorem strp_lit (c : Nat) (hc : isPyWs c = false) (ps : List SPiece) (xs : Str) (acc : DT) :
    strp (.lit c :: ps) (c :: xs) acc = strp ps xs acc := by
  simp [strp, hc]

theorem strp_ws_fail (ps : List SPiece) (x : Nat) (xs : Str) (acc : DT) (hx : isPyWs x = false) :
    strp (.lit 32 :: ps) (x :: xs) acc = none := by
  have h32 : isPyWs 32 = true := by decide
  rw [strp]; simp [h32, hx]

/-- step over a `-`, `:` or `.` of the format -/
macro "strp_lit_step" : tactic =>
  `(tactic| first
    | rw [strp_lit 45 (by decide)]
    | rw [strp_lit 58 (by decide)]
    | rw [strp_lit 46 (by decide)])

theorem strp_ws (ps : List SPiece) (ds rest : Str) (acc : DT) (hd : ∀ c ∈ ds, isDigit c = true) (hne : ds ≠ []) :
    strp (.lit 32 :: ps) (32 :: (ds ++ rest)) acc = strp ps (ds ++ rest) acc := by
  obtain ⟨c, t, rfl⟩ := List.exists_cons_of_ne_nil hne
  have hc := (isDigit_iff c).1 (hd c (by simp))
  have hw : isPyWs c = false := by simp [isPyWs]; omega
  have h32 : isPyWs 32 = true := by decide
  simp [strp, h32, List.dropWhile, hw]

/-- the text a datetime is rendered to -/
def bodyDT (v : DT) : Str :=
  fmtD 4 v.y ++ 45 :: (fmtD 2 v.mo ++ 45 :: (fmtD 2 v.d ++ 32 :: (fmtD 2 v.h ++ 58 :: (fmtD 2 v.mi ++ 58 ::
    (fmtD 2 v.s ++ 46 :: fmtD 6 v.us)))))
def bodyD (v : DT) : Str := fmtD 4 v.y ++ 45 :: (fmtD 2 v.mo ++ 45 :: fmtD 2 v.d)
def bodyT (v : DT) : Str := fmtD 2 v.h ++ 58 :: (fmtD 2 v.mi ++ 58 :: (fmtD 2 v.s ++ 46 :: fmtD 6 v.us))

theorem render_dt (v : DT) : Extracted.convDateTime.render v = 39 :: (bodyDT v ++ [39]) := by
  simp [Conv.render, Extracted.convDateTime, printf, DField.get, bodyDT]
theorem render_d (v : DT) : Extracted.convDate.render v = 39 :: (bodyD v ++ [39]) := by
  simp [Conv.render, Extracted.convDate, printf, DField.get, bodyD]
theorem render_t (v : DT) : Extracted.convTime.render v = 39 :: (bodyT v ++ [39]) := by
  simp [Conv.render, Extracted.convTime, printf, DField.get, bodyT]

theorem fmtD_not_mem (w n x : Nat) (hx : isDigit x = false) : x ∉ fmtD w n := by
  intro h; have := fmtD_digits w n x h; simp [this] at hx

theorem daysIn_le (y mo : Nat) : daysIn y mo ≤ 31 := by
  unfold daysIn; split <;> split <;> omega

theorem DT.valid_bounds (v : DT) (h : v.valid = true) :
    v.y < 10 ^ 4 ∧ v.mo < 10 ^ 2 ∧ v.d < 10 ^ 2 ∧ v.h < 10 ^ 2 ∧ v.mi < 10 ^ 2 ∧ v.s < 10 ^ 2 ∧ v.us < 10 ^ 6 := by
  simp [DT.valid] at h
  obtain ⟨⟨⟨⟨⟨⟨⟨⟨⟨h1, h2⟩, h3⟩, h4⟩, h5⟩, h6⟩, h7⟩, h8⟩, h9⟩, h10⟩ := h
  have := daysIn_le v.y v.mo
  refine ⟨by omega, by omega, by omega, by omega, by omega, by omega, by omega⟩

theorem strptime_bodyDT (v : DT) (hv : v.valid = true) :
    strptime Extracted.fmtDateTime (bodyDT v) = some v := by
  obtain ⟨hy, hmo, hd, hh, hmi, hs, hus⟩ := DT.valid_bounds v hv
  have e2 : ∀ n, n < 10 ^ 2 → (fmtD 2 n).length = 2 := fun n h => fmtD_length_eq 1 n h
  have e4 := fmtD_length_eq 3 v.y hy
  have e6 := fmtD_length_eq 5 v.us hus
  simp only [strptime, Extracted.fmtDateTime, bodyDT]
  rw [strp_field .Y _ _ _ _ (by simp) (fmtD_digits _ _) (fmtD_ne_nil _ _) (by simp [SPiece.width, e4]) (fun _ => e4) (by simp) (by simp [endsField, isDigit])]
  strp_lit_step
  rw [strp_field .m _ _ _ _ (by simp) (fmtD_digits _ _) (fmtD_ne_nil _ _) (by simp [SPiece.width, e2 _ hmo]) (by simp) (by simp) (by simp [endsField, isDigit])]
  strp_lit_step
  rw [strp_field .d _ _ _ _ (by simp) (fmtD_digits _ _) (fmtD_ne_nil _ _) (by simp [SPiece.width, e2 _ hd]) (by simp) (by simp) (by simp [endsField, isDigit])]
  rw [strp_ws _ _ _ _ (fmtD_digits _ _) (fmtD_ne_nil _ _)]
  rw [strp_field .H _ _ _ _ (by simp) (fmtD_digits _ _) (fmtD_ne_nil _ _) (by simp [SPiece.width, e2 _ hh]) (by simp) (by simp) (by simp [endsField, isDigit])]
  strp_lit_step
  rw [strp_field .M _ _ _ _ (by simp) (fmtD_digits _ _) (fmtD_ne_nil _ _) (by simp [SPiece.width, e2 _ hmi]) (by simp) (by simp) (by simp [endsField, isDigit])]
  strp_lit_step
  rw [strp_field .S _ _ _ _ (by simp) (fmtD_digits _ _) (fmtD_ne_nil _ _) (by simp [SPiece.width, e2 _ hs]) (by simp) (by simp) (by simp [endsField, isDigit])]
  strp_lit_step
  have := strp_field .f [] (fmtD 6 v.us) [] ⟨v.y, v.mo, v.d, v.h, v.mi, v.s, 0⟩ (by simp) (fmtD_digits _ _) (fmtD_ne_nil _ _) (by simp [SPiece.width, e6]) (by simp) (fun _ => e6) (by simp [endsField])
  simp only [List.append_nil] at this
  simp only [DT.set, valD_fmtD]
  simp only [DT.set, valD_fmtD] at this
  rw [this]
  simp [strp, hv]

theorem strptime_bodyD (v : DT) (hv : v.valid = true) :
    strptime Extracted.fmtDate (bodyD v) = some ⟨v.y, v.mo, v.d, 0, 0, 0, 0⟩ := by
  obtain ⟨hy, hmo, hd, hh, hmi, hs, hus⟩ := DT.valid_bounds v hv
  have e2 : ∀ n, n < 10 ^ 2 → (fmtD 2 n).length = 2 := fun n h => fmtD_length_eq 1 n h
  have e4 := fmtD_length_eq 3 v.y hy
  simp only [strptime, Extracted.fmtDate, bodyD]
  rw [strp_field .Y _ _ _ _ (by simp) (fmtD_digits _ _) (fmtD_ne_nil _ _) (by simp [SPiece.width, e4]) (fun _ => e4) (by simp) (by simp [endsField, isDigit])]
  strp_lit_step
  rw [strp_field .m _ _ _ _ (by simp) (fmtD_digits _ _) (fmtD_ne_nil _ _) (by simp [SPiece.width, e2 _ hmo]) (by simp) (by simp) (by simp [endsField, isDigit])]
  strp_lit_step
  have := strp_field .d [] (fmtD 2 v.d) [] ⟨v.y, v.mo, 1, 0, 0, 0, 0⟩ (by simp) (fmtD_digits _ _) (fmtD_ne_nil _ _) (by simp [SPiece.width, e2 _ hd]) (by simp) (by simp) (by simp [endsField])
  simp only [List.append_nil] at this
  simp only [DT.set, valD_fmtD]
  simp only [DT.set, valD_fmtD] at this
  rw [this]
  simp [DT.valid] at hv
  simp [strp, DT.valid, hv]

theorem strptime_bodyT (v : DT) (hv : v.valid = true) :
    strptime Extracted.fmtTime (bodyT v) = some ⟨1900, 1, 1, v.h, v.mi, v.s, v.us⟩ := by
  obtain ⟨hy, hmo, hd, hh, hmi, hs, hus⟩ := DT.valid_bounds v hv
  have e2 : ∀ n, n < 10 ^ 2 → (fmtD 2 n).length = 2 := fun n h => fmtD_length_eq 1 n h
  have e6 := fmtD_length_eq 5 v.us hus
  simp only [strptime, Extracted.fmtTime, bodyT]
  rw [strp_field .H _ _ _ _ (by simp) (fmtD_digits _ _) (fmtD_ne_nil _ _) (by simp [SPiece.width, e2 _ hh]) (by simp) (by simp) (by simp [endsField, isDigit])]
  strp_lit_step
  rw [strp_field .M _ _ _ _ (by simp) (fmtD_digits _ _) (fmtD_ne_nil _ _) (by simp [SPiece.width, e2 _ hmi]) (by simp) (by simp) (by simp [endsField, isDigit])]
  strp_lit_step
  rw [strp_field .S _ _ _ _ (by simp) (fmtD_digits _ _) (fmtD_ne_nil _ _) (by simp [SPiece.width, e2 _ hs]) (by simp) (by simp) (by simp [endsField, isDigit])]
  strp_lit_step
  have := strp_field .f [] (fmtD 6 v.us) [] ⟨1900, 1, 1, v.h, v.mi, v.s, 0⟩ (by simp) (fmtD_digits _ _) (fmtD_ne_nil _ _) (by simp [SPiece.width, e6]) (by simp) (fun _ => e6) (by simp [endsField])
  simp only [List.append_nil] at this
  simp only [DT.set, valD_fmtD]
  simp only [DT.set, valD_fmtD] at this
  rw [this]
  simp [DT.valid] at hv
  simp [strp, DT.valid, hv, daysIn, isLeap]

/-! the rendered bodies contain no quote, no NUL, no …: every character is a digit or one of `- : . space` -/
def plainChar (c : Nat) : Prop := isDigit c = true ∨ c = 45 ∨ c = 58 ∨ c = 46 ∨ c = 32

theorem plain_fmtD (w n : Nat) : ∀ c ∈ fmtD w n, plainChar c := fun c h => Or.inl (fmtD_digits w n c h)

theorem plain_bodyDT (v : DT) : ∀ c ∈ bodyDT v, plainChar c := by
  intro c h
  simp only [bodyDT, List.mem_append, List.mem_cons] at h
  rcases h with h | h | h | h | h | h | h | h | h | h | h | h | h
  all_goals first
    | exact plain_fmtD _ _ c h
    | (subst h; simp [plainChar])

theorem plain_bodyD (v : DT) : ∀ c ∈ bodyD v, plainChar c := by
  intro c h
  simp only [bodyD, List.mem_append, List.mem_cons] at h
  rcases h with h | h | h | h | h
  all_goals first
    | exact plain_fmtD _ _ c h
    | (subst h; simp [plainChar])

theorem plain_bodyT (v : DT) : ∀ c ∈ bodyT v, plainChar c := by
  intro c h
  simp only [bodyT, List.mem_append, List.mem_cons] at h
  rcases h with h | h | h | h | h | h | h
  all_goals first
    | exact plain_fmtD _ _ c h
    | (subst h; simp [plainChar])

theorem plain_ne (c x : Nat) (h : plainChar c) (hx : isDigit x = false) (h1 : x ≠ 45) (h2 : x ≠ 58) (h3 : x ≠ 46)
    (h4 : x ≠ 32) : c ≠ x := by
  intro e; subst e
  rcases h with h | h | h | h | h
  · simp [h] at hx
  all_goals contradiction

/-- a quoted plain body evaluates to itself as TEXT -/
theorem evalLit_plain (b : Str) (hb : ∀ c ∈ b, plainChar c) : evalLit (39 :: (b ++ [39])) = some (.text b) := by
  have h39 : 39 ∉ b := fun h => plain_ne 39 39 (hb 39 h) (by decide) (by decide) (by decide) (by decide) (by decide) rfl
  have h0 : 0 ∉ b := fun h => plain_ne 0 0 (hb 0 h) (by decide) (by decide) (by decide) (by decide) (by decide) rfl
  have hz : 0 ∉ 39 :: (b ++ [39]) := by simp [h0]
  unfold evalLit
  rw [if_neg hz]
  simp [Extracted.nullLit, lexStr_noquote b h39]

/-- text that starts with digits followed by `-` or `:` is not a well-formed number for SQLite -/
theorem isNumericText_field (ds rest : Str) (x : Nat) (hd : ∀ c ∈ ds, isDigit c = true) (hne : ds ≠ [])
    (hx : x = 45 ∨ x = 58) : isNumericText (ds ++ x :: rest) = false := by
  obtain ⟨c, t, rfl⟩ := List.exists_cons_of_ne_nil hne
  have hc : isDigit c = true := hd c (by simp)
  have hc' : 48 ≤ c ∧ c ≤ 57 := (isDigit_iff c).1 hc
  have hsp : isSpace c = false := by simp [isSpace]; omega
  have hxd : isDigit x = false := by rcases hx with rfl | rfl <;> decide
  have h1 : (c :: t ++ x :: rest).dropWhile isSpace = c :: t ++ x :: rest := by
    simp [List.dropWhile, hsp]
  have h2 : stripSign (c :: t ++ x :: rest) = c :: t ++ x :: rest := by
    have : ¬ (c = 43 ∨ c = 45) := by omega
    simp [stripSign, this]
  have h3 : dropDigits (c :: t ++ x :: rest) = x :: rest :=
    dropDigits_field (c :: t) (x :: rest) hd (by simp [endsField, hxd])
  unfold isNumericText
  rw [h1, h2, h3]
  rcases hx with rfl | rfl <;> simp [numTail, expTail, isSpace]

theorem splitLastDot_app (p u : Str) (hu : 46 ∉ u) : splitLastDot (p ++ 46 :: u) = some (p ++ [46], u) := by
  have hr : (p ++ 46 :: u).reverse = u.reverse ++ 46 :: p.reverse := by simp
  have htw : List.takeWhile (· ≠ 46) (u.reverse ++ 46 :: p.reverse) = u.reverse := by
    rw [List.takeWhile_append_of_pos]
    · simp
    · intro a ha; simp at ha; simp; intro e; subst e; exact hu ha
  unfold splitLastDot
  simp only [hr, htw]
  simp

theorem fixMicro_six (p u : Str) (hu : 46 ∉ u) (h6 : u.length = 6) : fixMicro (p ++ 46 :: u) = p ++ 46 :: u := by
  simp [fixMicro, splitLastDot_app p u hu, h6]

theorem fixMicro_bodyDT (v : DT) (hv : v.valid = true) : fixMicro (bodyDT v) = bodyDT v := by
  obtain ⟨_, _, _, _, _, _, hus⟩ := DT.valid_bounds v hv
  have e6 := fmtD_length_eq 5 v.us hus
  have h46 : 46 ∉ fmtD 6 v.us := fmtD_not_mem _ _ 46 (by decide)
  have := fixMicro_six (fmtD 4 v.y ++ 45 :: (fmtD 2 v.mo ++ 45 :: (fmtD 2 v.d ++ 32 :: (fmtD 2 v.h ++ 58 ::
    (fmtD 2 v.mi ++ 58 :: fmtD 2 v.s))))) (fmtD 6 v.us) h46 e6
  simpa [bodyDT, List.append_assoc] using this

theorem fixMicro_bodyT (v : DT) (hv : v.valid = true) : fixMicro (bodyT v) = bodyT v := by
  obtain ⟨_, _, _, _, _, _, hus⟩ := DT.valid_bounds v hv
  have e6 := fmtD_length_eq 5 v.us hus
  have h46 : 46 ∉ fmtD 6 v.us := fmtD_not_mem _ _ 46 (by decide)
  have := fixMicro_six (fmtD 2 v.h ++ 58 :: (fmtD 2 v.mi ++ 58 :: fmtD 2 v.s)) (fmtD 6 v.us) h46 e6
  simpa [bodyT, List.append_assoc] using this

theorem aff_dateTime : aff .dateTime = .numeric := by decide
theorem aff_timestamp : aff .timestamp = .numeric := by decide
theorem aff_date : aff .date = .numeric := by decide
theorem aff_time : aff .time = .numeric := by decide

theorem hasDotF_dt : hasDotF Extracted.fmtDateTime = true := by decide
theorem hasDotF_t : hasDotF Extracted.fmtTime = true := by decide
theorem hasDotF_d : hasDotF Extracted.fmtDate = false := by decide

/-- a rendered date/time body stored in a NUMERIC-affinity column comes back as the same text -/
theorem roundtrip_text_numeric (T : ColT) (y : PyVal) (b : Str) (hT : aff T = .numeric)
    (hl : lit y = .ok (39 :: (b ++ [39]))) (hb : ∀ c ∈ b, plainChar c) (hn : isNumericText b = false) :
    roundtrip T y = .ok (.str b) := by
  simp [roundtrip, hl, evalLit_plain b hb, hT, applyAff, hn, fetch]

theorem isNumericText_bodyDT (v : DT) : isNumericText (bodyDT v) = false :=
  isNumericText_field _ _ 45 (fmtD_digits _ _) (fmtD_ne_nil _ _) (Or.inl rfl)
theorem isNumericText_bodyD (v : DT) : isNumericText (bodyD v) = false :=
  isNumericText_field _ _ 45 (fmtD_digits _ _) (fmtD_ne_nil _ _) (Or.inl rfl)
theorem isNumericText_bodyT (v : DT) : isNumericText (bodyT v) = false :=
  isNumericText_field _ _ 58 (fmtD_digits _ _) (fmtD_ne_nil _ _) (Or.inr rfl)

theorem readBack_dateTime (T : ColT) (hT : T = .dateTime ∨ T = .timestamp) (v : DT) (hv : v.valid = true) :
    readBack T (dtOf v) = .ok (dtOf v) := by
  have ha : aff T = .numeric := by rcases hT with rfl | rfl <;> decide
  have hdb : toDb T (dtOf v) = .ok (dtOf v) := by
    rcases hT with rfl | rfl <;> simp [toDb, dtFromPython, dtOf, passes, Extracted.dtFromPythonPass]
  have hrt : roundtrip T (dtOf v) = .ok (.str (bodyDT v)) :=
    roundtrip_text_numeric T _ _ ha (by simp [lit, dtOf, render_dt]) (plain_bodyDT v) (isNumericText_bodyDT v)
  have hpy : toPy T (.str (bodyDT v)) = .ok (dtOf v) := by
    rcases hT with rfl | rfl <;>
      simp [toPy, dtToPython, passes, parseWith, hasDotF_dt, fixMicro_bodyDT v hv, strptime_bodyDT v hv]
  simp [readBack, Res.bind, hdb, hrt, hpy]

theorem readBack_date (y mo d : Nat) (hv : (⟨y, mo, d, 0, 0, 0, 0⟩ : DT).valid = true) :
    readBack .date (.date y mo d) = .ok (.date y mo d) := by
  have hdb : toDb .date (.date y mo d) = .ok (.date y mo d) := by simp [toDb, dateToPython]
  have hrt : roundtrip .date (.date y mo d) = .ok (.str (bodyD ⟨y, mo, d, 0, 0, 0, 0⟩)) :=
    roundtrip_text_numeric .date _ _ aff_date (by simp [lit, render_d]) (plain_bodyD _) (isNumericText_bodyD _)
  have hpy : toPy .date (.str (bodyD ⟨y, mo, d, 0, 0, 0, 0⟩)) = .ok (.date y mo d) := by
    simp [toPy, dateToPython, dtToPython, passes, parseWith, hasDotF_d, strptime_bodyD _ hv, dtOf]
  simp [readBack, Res.bind, hdb, hrt, hpy]

theorem readBack_time (h mi s us : Nat) (hv : (⟨1900, 1, 1, h, mi, s, us⟩ : DT).valid = true) :
    readBack .time (.time h mi s us) = .ok (.time h mi s us) := by
  have hdb : toDb .time (.time h mi s us) = .ok (.time h mi s us) := by simp [toDb, timeToPython]
  have hb : bodyT ⟨0, 0, 0, h, mi, s, us⟩ = bodyT ⟨1900, 1, 1, h, mi, s, us⟩ := rfl
  have hrt : roundtrip .time (.time h mi s us) = .ok (.str (bodyT ⟨1900, 1, 1, h, mi, s, us⟩)) :=
    roundtrip_text_numeric .time _ _ aff_time (by simp [lit, render_t, hb]) (plain_bodyT _) (isNumericText_bodyT _)
  have hpy : toPy .time (.str (bodyT ⟨1900, 1, 1, h, mi, s, us⟩)) = .ok (.time h mi s us) := by
    simp [toPy, timeToPython, dtToPython, passes, parseWith, hasDotF_t, fixMicro_bodyT _ hv, strptime_bodyT _ hv, dtOf]
  simp [readBack, Res.bind, hdb, hrt, hpy]

/-- any NUL-free text written as a string literal into a TEXT-affinity column comes back unaltered -/
theorem roundtrip_text (T : ColT) (s : Str) (hT : aff T = .text) (h0 : 0 ∉ s) :
    roundtrip T (.str s) = .ok (.str s) := by
  simp [roundtrip, lit, evalLit_quoteStr s h0, hT, applyAff, fetch]

theorem aff_enum (vals : List Str) : aff (.enum vals) = .text := by
  show affinityOf Extracted.ty_enum = .text
  decide

theorem readBack_string (s : Str) (h0 : 0 ∉ s) : readBack .string (.str s) = .ok (.str s) := by
  simp [readBack, Res.bind, toDb, toPy, stringV, roundtrip_text .string s (by decide) h0]

theorem readBack_unicode (s : Str) (h0 : 0 ∉ s) : readBack .unicode (.str s) = .ok (.str s) := by
  simp [readBack, Res.bind, toDb, toPy, unicodeV, roundtrip_text .unicode s (by decide) h0]

theorem readBack_enum (vals : List Str) (s : Str) (hs : s ∈ vals) (h0 : 0 ∉ s) :
    readBack (.enum vals) (.str s) = .ok (.str s) := by
  have hdb : toDb (.enum vals) (.str s) = .ok (.str s) := by simp [toDb, enumV, hs]
  have hpy : toPy (.enum vals) (.str s) = .ok (.str s) := by simp [toPy, enumV, hs]
  simp [readBack, Res.bind, hdb, hpy, roundtrip_text (.enum vals) s (aff_enum vals) h0]

def intFamily (T : ColT) : Prop := T = .int ∨ T = .tinyInt ∨ T = .smallInt ∨ T = .mediumInt ∨ T = .bigInt

theorem aff_intFamily (T : ColT) (h : intFamily T) : aff T = .integer := by
  rcases h with rfl | rfl | rfl | rfl | rfl <;> decide

theorem roundtrip_int (T : ColT) (i : Int) (ha : aff T = .integer ∨ aff T = .numeric) (h : int64 i = true) :
    roundtrip T (.int i) = .ok (.int i) := by
  rcases ha with ha | ha <;> simp [roundtrip, lit, evalLit_reprInt, h, ha, applyAff, fetch]

theorem readBack_int (T : ColT) (hT : intFamily T) (i : Int) (h : int64 i = true) :
    readBack T (.int i) = .ok (.int i) := by
  have hrt := roundtrip_int T i (Or.inl (aff_intFamily T hT)) h
  rcases hT with rfl | rfl | rfl | rfl | rfl <;> simp [readBack, Res.bind, toDb, toPy, intV, hrt]

/-- outside int64 the cell is a REAL: the double nearest to the integer -/
theorem store_int_outside (T : ColT) (hT : intFamily T) (i : Int) (h : int64 i = false) :
    store (aff T) (reprInt i) = some (.real (.ofInt i)) := by
  simp [store, evalLit_reprInt, h, aff_intFamily T hT, applyAff]

/-- ForeignKey to a class with int ids, declared in a class with int ids (`fkInt`) or str ids (`fkIntS`):
    the column type is the extracted `key_type` of the REFERENCED class's idType -/
def fkToInt (T : ColT) : Prop := T = .fkInt ∨ T = .fkIntS

theorem aff_fkToInt (T : ColT) (hT : fkToInt T) : aff T = .integer := by
  rcases hT with rfl | rfl <;> decide

theorem readBack_fk (T : ColT) (hT : fkToInt T) (i : Int) (h : int64 i = true) :
    readBack T (.int i) = .ok (.int i) := by
  have hrt := roundtrip_int T i (Or.inl (aff_fkToInt T hT)) h
  rcases hT with rfl | rfl <;> simp [readBack, Res.bind, toDb, toPy, fkFromPython, hrt]

theorem aff_fkStr : aff .fkStr = .text := by decide

/-- ForeignKey to a class with str ids: any NUL-free id text ('007', '1e3', ' 5', …) stays that text -/
theorem readBack_fkStr (s : Str) (h0 : 0 ∉ s) : readBack .fkStr (.str s) = .ok (.str s) := by
  simp [readBack, Res.bind, toDb, toPy, fkStrFromPython, roundtrip_text .fkStr s aff_fkStr h0]

theorem readBack_bool (b : Bool) : readBack .bool (.bool b) = .ok (.bool b) := by
  have ha : aff .bool = .numeric := by decide
  cases b <;>
    simp [readBack, Res.bind, toDb, toPy, boolV, roundtrip, lit, Extracted.boolTrue, Extracted.boolFalse, evalLit,
      Extracted.nullLit, numLit, isDigit, valD, int64, ha, applyAff, fetch]

theorem readBack_none (T : ColT) : readBack T .none = .ok .none := by
  have hrt : roundtrip T .none = .ok .none := by
    simp [roundtrip, lit, evalLit, Extracted.nullLit, applyAff, fetch]
  cases T <;> simp [readBack, Res.bind, toDb, toPy, hrt, stringV, unicodeV, intV, boolV, floatV, dtFromPython,
    dtToPython, dateToPython, timeToPython, enumV, binFromPython, binToPython, fkFromPython, fkStrFromPython]

theorem b64_idx_chr : ∀ i, i < 64 → b64idx (b64chr i) = some i := by decide
theorem b64_chr_ne_pad : ∀ i, i < 64 → b64chr i ≠ 61 := by decide
theorem b64_chr_plain : ∀ i, i < 64 → b64chr i ≠ 0 ∧ b64chr i ≠ 39 ∧ b64chr i < 128 := by decide

theorem b64dec_enc (bs : Str) (hb : ∀ x ∈ bs, x < 256) : b64dec (b64enc bs) = some bs := by
  fun_induction b64enc bs with
  | case1 => simp [b64dec]
  | case2 a =>
    have ha : a < 256 := hb a (by simp)
    have h0 := b64_idx_chr (a / 4) (by omega)
    have h1 := b64_idx_chr (a % 4 * 16) (by omega)
    simp [b64dec, h0, h1]; omega
  | case3 a b =>
    have ha : a < 256 := hb a (by simp)
    have hbb : b < 256 := hb b (by simp)
    have h0 := b64_idx_chr (a / 4) (by omega)
    have h1 := b64_idx_chr (a % 4 * 16 + b / 16) (by omega)
    have h2 := b64_idx_chr (b % 16 * 4) (by omega)
    have n2 := b64_chr_ne_pad (b % 16 * 4) (by omega)
    simp [b64dec, h0, h1, h2, n2]; omega
  | case4 a b c rest ih =>
    have ha : a < 256 := hb a (by simp)
    have hbb : b < 256 := hb b (by simp)
    have hc : c < 256 := hb c (by simp)
    have h0 := b64_idx_chr (a / 4) (by omega)
    have h1 := b64_idx_chr (a % 4 * 16 + b / 16) (by omega)
    have h2 := b64_idx_chr (b % 16 * 4 + c / 64) (by omega)
    have h3 := b64_idx_chr (c % 64) (by omega)
    have n2 := b64_chr_ne_pad (b % 16 * 4 + c / 64) (by omega)
    have n3 := b64_chr_ne_pad (c % 64) (by omega)
    have := ih (fun x hx => hb x (by simp [hx]))
    simp [b64dec, h0, h1, h2, h3, n2, n3, this]; omega

theorem b64enc_plain (bs : Str) (hb : ∀ x ∈ bs, x < 256) : ∀ x ∈ b64enc bs, x ≠ 0 ∧ x ≠ 39 ∧ x < 128 := by
  fun_induction b64enc bs with
  | case1 => simp
  | case2 a =>
    have ha : a < 256 := hb a (by simp)
    intro x hx
    simp at hx
    rcases hx with rfl | rfl | rfl
    · exact b64_chr_plain _ (by omega)
    · exact b64_chr_plain _ (by omega)
    · decide
  | case3 a b =>
    have ha : a < 256 := hb a (by simp)
    have hbb : b < 256 := hb b (by simp)
    intro x hx
    simp at hx
    rcases hx with rfl | rfl | rfl | rfl
    · exact b64_chr_plain _ (by omega)
    · exact b64_chr_plain _ (by omega)
    · exact b64_chr_plain _ (by omega)
    · decide
  | case4 a b c rest ih =>
    have ha : a < 256 := hb a (by simp)
    have hbb : b < 256 := hb b (by simp)
    have hc : c < 256 := hb c (by simp)
    intro x hx
    simp at hx
    rcases hx with rfl | rfl | rfl | rfl | hx
    · exact b64_chr_plain _ (by omega)
    · exact b64_chr_plain _ (by omega)
    · exact b64_chr_plain _ (by omega)
    · exact b64_chr_plain _ (by omega)
    · exact ih (fun x hx => hb x (by simp [hx])) x hx

theorem readBack_blob (bs : Str) (hb : ∀ x ∈ bs, x < 256) : readBack .blob (.bytes bs) = .ok (.bytes bs) := by
  have hp := b64enc_plain bs hb
  have h0 : 0 ∉ b64enc bs := fun h => (hp 0 h).1 rfl
  have hasc : isAscii (b64enc bs) = true := by
    simp only [isAscii, List.all_eq_true, decide_eq_true_eq]; exact fun x hx => (hp x hx).2.2
  have hrt := roundtrip_text .blob (b64enc bs) (by decide) h0
  simp [readBack, Res.bind, toDb, toPy, binFromPython, binToPython, stringV, hrt, hasc, b64dec_enc bs hb]

theorem readBack_pickle (bs : Str) (hb : ∀ x ∈ bs, x < 256) : readBack .pickle (.pickled bs) = .ok (.pickled bs) := by
  have hp := b64enc_plain bs hb
  have h0 : 0 ∉ b64enc bs := fun h => (hp 0 h).1 rfl
  have hasc : isAscii (b64enc bs) = true := by
    simp only [isAscii, List.all_eq_true, decide_eq_true_eq]; exact fun x hx => (hp x hx).2.2
  have hrt := roundtrip_text .pickle (b64enc bs) (by decide) h0
  simp [readBack, Res.bind, toDb, toPy, binFromPython, binToPython, stringV, hrt, hasc, b64dec_enc bs hb]

theorem sqlEq_refl (c : DbVal) (h : c ≠ .null) : sqlEq c c = true := by
  cases c with
  | null => exact absurd rfl h
  | integer i => simp [sqlEq]
  | real t => simp [sqlEq]
  | text s => simp [sqlEq]
  | blob b => simp [sqlEq]

theorem applyAff_integer_eq_numeric (v : DbVal) : applyAff .integer v = applyAff .numeric v := by
  cases v with
  | null => rfl
  | integer i => rfl
  | real t => cases t <;> rfl
  | text s => simp [applyAff]
  | blob b => rfl

/-- the literal compared with the column evaluates, after the comparison conversion, to a value SQLite's `=`
    holds equal to the stored cell -/
theorem finds_generic (a : Aff) (v cell : DbVal) (hs : applyAff a v = some cell) (hn : cell ≠ .null)
    (hx : a = .real → ∀ i, cell = .real (.ofInt i) → exactInt i = true) :
    ∃ w, cmpConv a v = some w ∧ sqlEq cell w = true := by
  cases a with
  | text => exact ⟨cell, by simpa [cmpConv] using hs, sqlEq_refl cell hn⟩
  | blob =>
    refine ⟨cell, ?_, sqlEq_refl cell hn⟩
    cases v <;> simp_all [cmpConv, applyAff]
  | numeric =>
    refine ⟨cell, ?_, sqlEq_refl cell hn⟩
    cases v with
    | real t => cases t <;> simp_all [cmpConv, applyAff]
    | _ => simp_all [cmpConv, applyAff]
  | integer =>
    rw [applyAff_integer_eq_numeric] at hs
    refine ⟨cell, ?_, sqlEq_refl cell hn⟩
    cases v with
    | real t => cases t <;> simp_all [cmpConv, applyAff]
    | _ => simp_all [cmpConv, applyAff]
  | real =>
    cases v with
    | null => simp [applyAff] at hs; exact absurd hs.symm hn
    | blob b => exact ⟨cell, by simpa [applyAff, cmpConv] using hs, sqlEq_refl cell hn⟩
    | integer i =>
      simp [applyAff] at hs; subst hs
      exact ⟨.integer i, by simp [cmpConv], by simp [sqlEq, hx rfl i rfl]⟩
    | real t =>
      simp [applyAff] at hs; subst hs
      exact ⟨.real t, by simp [cmpConv], sqlEq_refl _ hn⟩
    | text s =>
      simp only [applyAff] at hs
      by_cases hnum : isNumericText s = true
      · simp only [hnum, if_true] at hs
        cases hi : intText s with
        | none => simp [hi] at hs
        | some i =>
          simp only [hi] at hs
          by_cases h64 : int64 i = true
          · simp [h64] at hs; subst hs
            exact ⟨.integer i, by simp [cmpConv, applyAff, hnum, hi, h64], by simp [sqlEq, hx rfl i rfl]⟩
          · simp [h64] at hs
      · simp [hnum] at hs; subst hs
        exact ⟨.text s, by simp [cmpConv, applyAff, hnum], by simp [sqlEq]⟩

theorem whereFinds_of_store (T : ColT) (y : PyVal) (l : Str) (cell : DbVal) (hy : y ≠ .none)
    (hl : lit y = .ok l) (hs : store (aff T) l = some cell) (hn : cell ≠ .null)
    (hx : aff T = .real → ∀ i, cell = .real (.ofInt i) → exactInt i = true) :
    whereFinds T y cell = .ok true := by
  simp only [store] at hs
  cases hv : evalLit l with
  | none => simp [hv] at hs
  | some v =>
    simp [hv] at hs
    obtain ⟨w, hw, he⟩ := finds_generic (aff T) v cell hs hn hx
    cases y <;> simp_all [whereFinds]

theorem takeWhile_all {α} (p : α → Bool) (l : List α) (h : ∀ a ∈ l, p a = true) : l.takeWhile p = l := by
  induction l with
  | nil => rfl
  | cons a l ih => simp [List.takeWhile, h a (by simp), ih (fun b hb => h b (by simp [hb]))]

theorem splitLastDot_none (b : Str) (h : 46 ∉ b) : splitLastDot b = none := by
  have htw : List.takeWhile (· ≠ 46) b.reverse = b.reverse :=
    takeWhile_all _ _ (by intro a ha; simp at ha; simp; intro e; subst e; exact h ha)
  unfold splitLastDot
  simp only [htw]
  simp

theorem no_dot_bodyD (v : DT) : 46 ∉ bodyD v := by
  intro h
  simp only [bodyD, List.mem_append, List.mem_cons] at h
  rcases h with h | h | h | h | h
  · exact fmtD_not_mem _ _ 46 (by decide) h
  · simp at h
  · exact fmtD_not_mem _ _ 46 (by decide) h
  · simp at h
  · exact fmtD_not_mem _ _ 46 (by decide) h

/-- what `DateConverter` writes cannot be parsed with the DateTimeCol format -/
theorem parse_dateTime_bodyD (v : DT) (hv : v.valid = true) : parseWith Extracted.fmtDateTime (bodyD v) = none := by
  obtain ⟨hy, hmo, hd, _, _, _, _⟩ := DT.valid_bounds v hv
  have e2 : ∀ n, n < 10 ^ 2 → (fmtD 2 n).length = 2 := fun n h => fmtD_length_eq 1 n h
  have e4 := fmtD_length_eq 3 v.y hy
  have hfix : fixMicro (bodyD v) = fmtD 4 v.y ++ 45 :: (fmtD 2 v.mo ++ 45 :: (fmtD 2 v.d ++ [46, 48])) := by
    unfold fixMicro
    rw [splitLastDot_none _ (no_dot_bodyD v)]
    simp [bodyD]
  unfold parseWith
  rw [hasDotF_dt]
  simp only [if_true, hfix, strptime, Extracted.fmtDateTime]
  rw [strp_field .Y _ _ _ _ (by simp) (fmtD_digits _ _) (fmtD_ne_nil _ _) (by simp [SPiece.width, e4]) (fun _ => e4) (by simp) (by simp [endsField, isDigit])]
  strp_lit_step
  rw [strp_field .m _ _ _ _ (by simp) (fmtD_digits _ _) (fmtD_ne_nil _ _) (by simp [SPiece.width, e2 _ hmo]) (by simp) (by simp) (by simp [endsField, isDigit])]
  strp_lit_step
  rw [strp_field .d _ _ _ _ (by simp) (fmtD_digits _ _) (fmtD_ne_nil _ _) (by simp [SPiece.width, e2 _ hd]) (by simp) (by simp) (by simp [endsField, isDigit])]
  rw [strp_ws_fail _ 46 _ _ (by decide)]

/-- DateTimeCol / TimestampCol given a `datetime.date`: normalised to midnight of that day -/
theorem toDb_dateTime_of_date (T : ColT) (hT : T = .dateTime ∨ T = .timestamp) (y mo d : Nat) :
    toDb T (.date y mo d) = .ok (.datetime y mo d 0 0 0 0) := by
  rcases hT with rfl | rfl <;> simp [toDb, dtFromPython, passes, Extracted.dtFromPythonPass]

/-- well-formed values of the universe: NUL-free text, bytes < 256, calendar-valid dates and times -/
def wf : PyVal → Prop
  | .str s => 0 ∉ s
  | .bytes b => ∀ x ∈ b, x < 256
  | .datetime y mo d h mi s us => (⟨y, mo, d, h, mi, s, us⟩ : DT).valid = true
  | .date y mo d => (⟨y, mo, d, 0, 0, 0, 0⟩ : DT).valid = true
  | .time h mi s us => (⟨1900, 1, 1, h, mi, s, us⟩ : DT).valid = true
  | .decimal t => 0 ∉ t
  | .uuid t => 0 ∉ t
  | .json t => 0 ∉ t
  | .pickled b => ∀ x ∈ b, x < 256
  | .sqlobjS id => 0 ∉ id
  | _ => True

def isDateTimeT (T : ColT) : Bool := T == .dateTime || T == .timestamp
def isIntLikeT (T : ColT) : Bool :=
  T == .int || T == .tinyInt || T == .smallInt || T == .mediumInt || T == .bigInt || T == .fkInt || T == .fkIntS
    || T == .decimal || T == .currency

/-- (column, value) pairs the CURRENT code accepts and then cannot read back, or alters (each replayed on the
    implementation by the harness under its own key) -/
def knownBad (T : ColT) (x : PyVal) : Bool :=
  match x with
  | .int i => (isIntLikeT T && !int64 i) || (T == .float && !exactInt i)
  | .sqlobj id => (T == .fkInt || T == .fkIntS) && !int64 id
  | .str s => (T == .fkInt || T == .fkIntS) && (match intText s with | some i => !int64 i | none => false)
  | _ => false

/-- pairs whose codec is an uninterpreted stdlib function, or a parser run on arbitrary text -/
def outsideFragment (T : ColT) (x : PyVal) : Bool :=
  match x with
  | .float _ => true
  | .decimal _ => T == .decimal || T == .currency
  | .str _ => T == .date || T == .time
  | _ => false

def Readable (T : ColT) (x y : PyVal) : Prop :=
  roundtrip T y = .reject ∨ ∃ v, (roundtrip T y).bind (toPy T) = .ok v ∧ normalises T x v = true

theorem readable_of (T : ColT) (x y r v : PyVal) (hr : roundtrip T y = .ok r) (hp : toPy T r = .ok v)
    (hn : normalises T x v = true) : Readable T x y :=
  Or.inr ⟨v, by simp [hr, hp, Res.bind], hn⟩

theorem roundtrip_none (T : ColT) : roundtrip T .none = .ok .none := by
  simp [roundtrip, lit, evalLit, Extracted.nullLit, applyAff, fetch]

theorem roundtrip_bool (T : ColT) (b : Bool) (ha : aff T = .integer ∨ aff T = .numeric) :
    roundtrip T (.bool b) = .ok (.int (if b then 1 else 0)) := by
  rcases ha with ha | ha <;> cases b <;>
    simp [roundtrip, lit, Extracted.boolTrue, Extracted.boolFalse, evalLit, Extracted.nullLit, numLit, isDigit, valD,
      int64, ha, applyAff, fetch]

theorem zero_not_mem_reprInt (i : Int) : 0 ∉ reprInt i := by
  have hz : ∀ n, 0 ∉ showNat n := fun n h => by have := showNat_digits n 0 h; simp [isDigit] at this
  unfold reprInt; split
  · simp; exact hz _
  · exact hz _

theorem pyEq_refl (v : PyVal) : pyEq v v = true := by
  cases v <;> simp [pyEq]

theorem norm_refl (T : ColT) (v : PyVal) : normalises T v v = true := by simp [normalises, pyEq_refl]

theorem accepted_string (x y : PyVal) (hw : wf x) (h : toDb .string x = .ok y) : Readable .string x y := by
  cases x <;> simp [toDb, stringV] at h <;> subst h
  · exact readable_of _ _ _ _ _ (roundtrip_none _) (by simp [toPy, stringV]) (norm_refl _ _)
  · exact readable_of _ _ _ _ _ (roundtrip_text _ _ (by decide) hw) (by simp [toPy, stringV]) (norm_refl _ _)
  · exact Or.inl (by simp [roundtrip, lit])

theorem accepted_unicode (x y : PyVal) (hw : wf x) (h : toDb .unicode x = .ok y) : Readable .unicode x y := by
  cases x <;> simp [toDb, unicodeV] at h <;> subst h
  · exact readable_of _ _ _ _ _ (roundtrip_none _) (by simp [toPy, unicodeV]) (norm_refl _ _)
  · exact readable_of _ _ _ _ _ (roundtrip_text _ _ (by decide) hw) (by simp [toPy, unicodeV]) (norm_refl _ _)

theorem accepted_int (T : ColT) (hT : intFamily T) (x y : PyVal) (hf : outsideFragment T x = false)
    (hk : knownBad T x = false) (h : toDb T x = .ok y) : Readable T x y := by
  have ha := aff_intFamily T hT
  have hdb : toDb T x = intV x := by rcases hT with rfl | rfl | rfl | rfl | rfl <;> rfl
  have hpy : ∀ r, toPy T r = intV r := by intro r; rcases hT with rfl | rfl | rfl | rfl | rfl <;> rfl
  have hil : isIntLikeT T = true := by rcases hT with rfl | rfl | rfl | rfl | rfl <;> rfl
  rw [hdb] at h
  cases x <;> simp [intV, outsideFragment] at h hf <;> subst h
  · exact readable_of _ _ _ _ _ (roundtrip_none _) (by simp [hpy, intV]) (norm_refl _ _)
  · rename_i b
    exact readable_of _ _ _ (.int (if b then 1 else 0)) (.int (if b then 1 else 0)) (roundtrip_bool T b (Or.inl ha))
      (by simp [hpy, intV]) (by cases b <;> simp [normalises, pyEq])
  · rename_i i
    have h64 : int64 i = true := by simp [knownBad, hil] at hk; exact hk.1
    exact readable_of _ _ _ _ _ (roundtrip_int T i (Or.inl ha) h64) (by simp [hpy, intV]) (norm_refl _ _)

/-- a float given to an Int-family column: `int(value)` when the float is integral, then an ordinary int -/
theorem readBack_int_of_float (T : ColT) (hT : intFamily T) (t : Str) (n : Int)
    (hc : floatClass t = .integral n) (h64 : int64 n = true) : readBack T (.float (.lit t)) = .ok (.int n) := by
  have hdb : toDb T (.float (.lit t)) = .ok (.int n) := by
    rcases hT with rfl | rfl | rfl | rfl | rfl <;> simp [toDb, intV, intOfFloat, hc]
  have h2 := readBack_int T hT n h64
  have hdb2 : toDb T (.int n) = .ok (.int n) := by rcases hT with rfl | rfl | rfl | rfl | rfl <;> rfl
  simp only [readBack, hdb2, Res.bind] at h2
  simp only [readBack, hdb, Res.bind]
  exact h2

theorem accepted_bool (x y : PyVal) (h : toDb .bool x = .ok y) : Readable .bool x y := by
  have ha : aff .bool = .numeric := by decide
  cases x <;> simp [toDb, boolV] at h <;> subst h
  · exact readable_of _ _ _ _ _ (roundtrip_none _) (by simp [toPy, boolV]) (norm_refl _ _)
  · rename_i b
    exact readable_of _ _ _ (.int (if b then 1 else 0)) (.bool b) (roundtrip_bool .bool b (Or.inr ha))
      (by cases b <;> simp [toPy, boolV]) (norm_refl _ _)
  · rename_i i
    exact readable_of _ _ _ (.int (if (i != 0) then 1 else 0)) (.bool (i != 0)) (roundtrip_bool .bool _ (Or.inr ha))
      (by cases h : (i != 0) <;> simp [toPy, boolV, h]) (by simp [normalises, coerces])

theorem roundtrip_float_int (i : Int) : roundtrip .float (.int i) = .ok (.float (.ofInt i)) := by
  have ha : aff .float = .real := by decide
  by_cases h : int64 i = true <;> simp [roundtrip, lit, evalLit_reprInt, h, ha, applyAff, fetch]

theorem accepted_float (x y : PyVal) (hf : outsideFragment .float x = false) (hk : knownBad .float x = false)
    (h : toDb .float x = .ok y) : Readable .float x y := by
  have ha : aff .float = .real := by decide
  cases x <;> simp [toDb, floatV] at h <;> subst h
  · exact readable_of _ _ _ _ _ (roundtrip_none _) (by simp [toPy, floatV]) (norm_refl _ _)
  · rename_i b
    have hr : roundtrip .float (.bool b) = .ok (.float (.ofInt (if b then 1 else 0))) := by
      cases b <;> simp [roundtrip, lit, Extracted.boolTrue, Extracted.boolFalse, evalLit, Extracted.nullLit, numLit,
        isDigit, valD, int64, ha, applyAff, fetch]
    exact readable_of _ _ _ _ (.float (.ofInt (if b then 1 else 0))) hr (by simp [toPy, floatV])
      (by cases b <;> simp [normalises, pyEq])
  · rename_i i
    have hx : exactInt i = true := by simpa [knownBad, isIntLikeT] using hk
    exact readable_of _ _ _ _ (.float (.ofInt i)) (roundtrip_float_int i) (by simp [toPy, floatV])
      (by simp [normalises, pyEq, hx])
  · simp [outsideFragment] at hf

theorem readable_of_readBack (T : ColT) (x y v : PyVal) (hdb : toDb T y = .ok y) (hrb : readBack T y = .ok v)
    (hn : normalises T x v = true) : Readable T x y := by
  simp only [readBack, hdb, Res.bind] at hrb
  exact Or.inr ⟨v, hrb, hn⟩

theorem accepted_dateTime (T : ColT) (hT : T = .dateTime ∨ T = .timestamp) (x y : PyVal) (hw : wf x)
    (hk : knownBad T x = false) (h : toDb T x = .ok y) : Readable T x y := by
  have hdb : toDb T x = dtFromPython x := by rcases hT with rfl | rfl <;> rfl
  have hdt : isDateTimeT T = true := by rcases hT with rfl | rfl <;> rfl
  rw [hdb] at h
  cases x <;> simp [dtFromPython, passes, Extracted.dtFromPythonPass, knownBad, hdt] at h hk <;> subst h
  · exact readable_of _ _ _ _ _ (roundtrip_none _) (by rcases hT with rfl | rfl <;> simp [toPy, dtToPython]) (norm_refl _ _)
  · rename_i y mo d h mi s us
    have := readBack_dateTime T hT ⟨y, mo, d, h, mi, s, us⟩ hw
    have hdb' : toDb T (dtOf ⟨y, mo, d, h, mi, s, us⟩) = .ok (dtOf ⟨y, mo, d, h, mi, s, us⟩) := by
      rcases hT with rfl | rfl <;> simp [toDb, dtFromPython, dtOf, passes, Extracted.dtFromPythonPass]
    exact readable_of_readBack T _ _ _ hdb' this (norm_refl _ _)
  · rename_i y mo d
    have := readBack_dateTime T hT ⟨y, mo, d, 0, 0, 0, 0⟩ hw
    have hdb' : toDb T (dtOf ⟨y, mo, d, 0, 0, 0, 0⟩) = .ok (dtOf ⟨y, mo, d, 0, 0, 0, 0⟩) := by
      rcases hT with rfl | rfl <;> simp [toDb, dtFromPython, dtOf, passes, Extracted.dtFromPythonPass]
    exact readable_of_readBack T _ _ _ hdb' this (by rcases hT with rfl | rfl <;> simp [normalises, coerces, dtOf])

theorem valid_date_part (y mo d h mi s us : Nat) (hv : (⟨y, mo, d, h, mi, s, us⟩ : DT).valid = true) :
    (⟨y, mo, d, 0, 0, 0, 0⟩ : DT).valid = true := by
  simp [DT.valid] at hv ⊢; omega

theorem valid_time_part (y mo d h mi s us : Nat) (hv : (⟨y, mo, d, h, mi, s, us⟩ : DT).valid = true) :
    (⟨1900, 1, 1, h, mi, s, us⟩ : DT).valid = true := by
  simp [DT.valid, daysIn, isLeap] at hv ⊢; omega

theorem accepted_date (x y : PyVal) (hw : wf x) (hf : outsideFragment .date x = false)
    (hk : knownBad .date x = false) (h : toDb .date x = .ok y) : Readable .date x y := by
  cases x <;> simp [toDb, dateToPython, dtToPython, passes, Extracted.dtToPythonPass, knownBad, outsideFragment] at h hk hf
  · subst h; exact readable_of _ _ _ _ _ (roundtrip_none _) (by simp [toPy, dateToPython, dtToPython]) (norm_refl _ _)
  · rename_i y' mo d hh mi s us
    subst h
    exact readable_of_readBack .date _ (.date y' mo d) (.date y' mo d) (by simp [toDb, dateToPython])
      (readBack_date y' mo d (valid_date_part _ _ _ _ _ _ _ hw)) (by simp [normalises, coerces])
  · rename_i y' mo d
    subst h
    exact readable_of_readBack .date _ (.date y' mo d) (.date y' mo d) (by simp [toDb, dateToPython])
      (readBack_date y' mo d hw) (norm_refl _ _)

theorem accepted_time (x y : PyVal) (hw : wf x) (hf : outsideFragment .time x = false)
    (hk : knownBad .time x = false) (h : toDb .time x = .ok y) : Readable .time x y := by
  cases x <;> simp [toDb, timeToPython, dtToPython, passes, Extracted.dtToPythonPass, knownBad, outsideFragment] at h hk hf
  · subst h; exact readable_of _ _ _ _ _ (roundtrip_none _) (by simp [toPy, timeToPython, dtToPython]) (norm_refl _ _)
  · rename_i y' mo d hh mi s us
    subst h
    exact readable_of_readBack .time _ (.time hh mi s us) (.time hh mi s us) (by simp [toDb, timeToPython])
      (readBack_time hh mi s us (valid_time_part _ _ _ _ _ _ _ hw)) (by simp [normalises, coerces])
  · rename_i hh mi s us
    subst h
    exact readable_of_readBack .time _ (.time hh mi s us) (.time hh mi s us) (by simp [toDb, timeToPython])
      (readBack_time hh mi s us hw) (norm_refl _ _)

theorem readable_via (T : ColT) (x x' y v : PyVal) (hdb : toDb T x' = .ok y) (hrb : readBack T x' = .ok v)
    (hn : normalises T x v = true) : Readable T x y := by
  simp only [readBack, hdb, Res.bind] at hrb
  exact Or.inr ⟨v, hrb, hn⟩

theorem accepted_decimal (T : ColT) (hT : T = .decimal ∨ T = .currency) (x y : PyVal)
    (hf : outsideFragment T x = false) (hk : knownBad T x = false) (h : toDb T x = .ok y) : Readable T x y := by
  have ha : aff T = .numeric := by rcases hT with rfl | rfl <;> decide
  have hil : isIntLikeT T = true := by rcases hT with rfl | rfl <;> rfl
  have hTf : (T == ColT.decimal || T == ColT.currency) = true := by rcases hT with rfl | rfl <;> rfl
  cases x <;> (rcases hT with rfl | rfl <;> simp [toDb, outsideFragment] at h hf) <;> subst h
  all_goals first
    | exact readable_of _ _ _ _ _ (roundtrip_none _) (by simp [toPy]) (norm_refl _ _)
    | (rename_i b
       exact readable_of _ _ _ (.int (if b then 1 else 0)) (.decimal (if b then [49] else [48]))
         (roundtrip_bool _ b (Or.inr ha))
         (by cases b <;> simp [toPy, reprInt, showNat]) (by cases b <;> simp [normalises, coerces]))
    | (rename_i i
       have h64 : int64 i = true := by simp [knownBad, isIntLikeT] at hk; exact hk
       exact readable_of _ _ _ _ (.decimal (reprInt i)) (roundtrip_int _ i (Or.inr ha) h64) (by simp [toPy])
         (by simp [normalises, coerces]))

theorem accepted_decimalString (x y : PyVal) (hw : wf x) (h : toDb .decimalString x = .ok y) :
    Readable .decimalString x y := by
  have ha : aff .decimalString = .text := by decide
  cases x <;> simp [toDb] at h <;> subst h
  · exact readable_of _ _ _ _ _ (roundtrip_none _) (by simp [toPy, stringV]) (norm_refl _ _)
  · rename_i i
    exact readable_of _ _ _ _ (.decimal (reprInt i)) (roundtrip_text _ _ ha (zero_not_mem_reprInt i))
      (by simp [toPy, stringV]) (by simp [normalises, coerces])
  · rename_i t
    exact readable_of _ _ _ _ (.decimal t) (roundtrip_text _ _ ha hw) (by simp [toPy, stringV]) (norm_refl _ _)

theorem accepted_enum (vals : List Str) (x y : PyVal) (hw : wf x) (h : toDb (.enum vals) x = .ok y) :
    Readable (.enum vals) x y := by
  cases x <;> simp [toDb, enumV] at h
  · subst h; exact readable_of _ _ _ _ _ (roundtrip_none _) (by simp [toPy, enumV]) (norm_refl _ _)
  · rename_i s
    by_cases hs : s ∈ vals <;> simp [hs] at h
    subst h
    exact readable_of _ _ _ _ (.str s) (roundtrip_text _ _ (aff_enum vals) hw) (by simp [toPy, enumV, hs]) (norm_refl _ _)

theorem accepted_blob (x y : PyVal) (hw : wf x) (h : toDb .blob x = .ok y) : Readable .blob x y := by
  cases x <;> simp [toDb, binFromPython, Res.bind, stringV] at h <;> subst h
  · exact readable_of _ _ _ _ _ (roundtrip_none _) (by simp [toPy, stringV, Res.bind, binToPython]) (norm_refl _ _)
  · rename_i bs
    exact readable_via .blob _ (.bytes bs) _ _ (by simp [toDb, binFromPython, Res.bind, stringV]) (readBack_blob bs hw)
      (norm_refl _ _)

theorem accepted_pickle (x y : PyVal) (hw : wf x) (h : toDb .pickle x = .ok y) : Readable .pickle x y := by
  cases x <;> simp [toDb, binFromPython, Res.bind, stringV] at h <;> subst h
  · exact readable_of _ _ _ _ _ (roundtrip_none _) (by simp [toPy, stringV, Res.bind, binToPython]) (norm_refl _ _)
  · rename_i bs
    exact readable_via .pickle _ (.pickled bs) _ _ (by simp [toDb, binFromPython, Res.bind, stringV])
      (readBack_pickle bs hw) (norm_refl _ _)

theorem accepted_uuid (x y : PyVal) (hw : wf x) (h : toDb .uuid x = .ok y) : Readable .uuid x y := by
  have ha : aff .uuid = .text := by decide
  cases x <;> simp [toDb] at h <;> subst h
  · exact readable_of _ _ _ _ _ (roundtrip_none _) (by simp [toPy]) (norm_refl _ _)
  · rename_i t
    exact readable_of _ _ _ _ (.uuid t) (roundtrip_text _ _ ha hw) (by simp [toPy]) (norm_refl _ _)

theorem accepted_json (x y : PyVal) (hw : wf x) (h : toDb .json x = .ok y) : Readable .json x y := by
  have ha : aff .json = .text := by decide
  cases x <;> simp [toDb] at h <;> subst h
  · exact readable_of _ _ _ _ _ (roundtrip_none _) (by simp [toPy]) (norm_refl _ _)
  · rename_i t
    exact readable_of _ _ _ _ (.json t) (roundtrip_text _ _ ha hw) (by simp [toPy]) (norm_refl _ _)

theorem accepted_fk (T : ColT) (hT : fkToInt T) (x y : PyVal) (hk : knownBad T x = false) (h : toDb T x = .ok y) :
    Readable T x y := by
  have ha : aff T = .integer := aff_fkToInt T hT
  have hdb : toDb T x = fkFromPython x := by rcases hT with rfl | rfl <;> rfl
  have hpy : ∀ r, toPy T r = .ok r := by intro r; rcases hT with rfl | rfl <;> rfl
  have hTb : (T == ColT.fkInt || T == ColT.fkIntS) = true := by rcases hT with rfl | rfl <;> rfl
  have hil : isIntLikeT T = true := by rcases hT with rfl | rfl <;> rfl
  rw [hdb] at h
  cases x <;> simp [fkFromPython] at h
  · subst h; exact readable_of _ _ _ _ _ (roundtrip_none _) (hpy _) (norm_refl _ _)
  · rename_i b
    subst h
    exact readable_of _ _ _ _ (.int (if b then 1 else 0)) (roundtrip_int _ _ (Or.inl ha) (by cases b <;> decide))
      (hpy _) (by cases b <;> simp [normalises, pyEq])
  · rename_i i
    subst h
    have h64 : int64 i = true := by simp [knownBad, hil] at hk; exact hk.1
    exact readable_of _ _ _ _ (.int i) (roundtrip_int _ _ (Or.inl ha) h64) (hpy _) (norm_refl _ _)
  · -- a float is never accepted by the model: fractional / nan / inf are refused, the others not interpreted
    rename_i t
    cases t with
    | lit t => simp only [fkFromPython] at h; split at h <;> simp at h
    | ofInt i => simp [fkFromPython] at h
  · rename_i s
    cases hi : intText s with
    | none => simp [hi] at h; split at h <;> simp at h
    | some i =>
      simp [hi] at h; subst h
      have h64 : int64 i = true := by simpa [knownBad, hi, hTb] using hk
      exact readable_of _ _ _ _ (.int i) (roundtrip_int _ _ (Or.inl ha) h64) (hpy _)
        (by rcases hT with rfl | rfl <;> simp [normalises, coerces, hi])
  · rename_i id
    subst h
    have h64 : int64 id = true := by simpa [knownBad, hTb] using hk
    exact readable_of _ _ _ _ (.int id) (roundtrip_int _ _ (Or.inl ha) h64) (hpy _)
      (by rcases hT with rfl | rfl <;> simp [normalises, coerces])

theorem accepted_fkStr (x y : PyVal) (hw : wf x) (h : toDb .fkStr x = .ok y) : Readable .fkStr x y := by
  cases x <;> simp [toDb, fkStrFromPython] at h <;> subst h
  · exact readable_of _ _ _ _ _ (roundtrip_none _) (by simp [toPy]) (norm_refl _ _)
  · rename_i i
    exact readable_of _ _ _ _ (.str (reprInt i)) (roundtrip_text _ _ aff_fkStr (zero_not_mem_reprInt i))
      (by simp [toPy]) (by simp [normalises, coerces])
  · rename_i s
    exact readable_of _ _ _ _ (.str s) (roundtrip_text _ _ aff_fkStr hw) (by simp [toPy]) (norm_refl _ _)
  · rename_i id
    exact readable_of _ _ _ _ (.str id) (roundtrip_text _ _ aff_fkStr hw) (by simp [toPy]) (by simp [normalises, coerces])

end SqlObjVerif.Codec
