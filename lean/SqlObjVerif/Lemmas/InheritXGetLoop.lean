import SqlObjVerif.Lemmas.InheritXDict
/-!
Symbolic execution of the TRANSLATED `InheritableSQLObject.get`, part 1: `get(…, childUpdate=True)` is `SQLObject.get`
(`getX_childUpdate`); the `while` loop that fetches the `_parent` chain (`get_while`: it computes `parentsSpec`, by
induction over the class chain; the loop needs at most `T.n` iterations); the dicts `cls.sqlmeta.columns` and
`cls.sqlmeta.childClasses`.
-/
set_option linter.unusedSimpArgs false
namespace SqlObjVerif.Inherit
open SqlObjVerif.PyInh
open SqlObjVerif.PyInh.Extracted

/-- `get(…, childUpdate=True)` is `SQLObject.get` -/
theorem getX_childUpdate (X : Ctx) (C : Calls) (w : XW) (p i : Nat) (cv cr : PVal) (k : Nat) (hk : connOf X cv = some k) :
    getX X C w p i cv .none cr (.bool true) =
      if (w.cur k).has p i then .ret w (.inst k p i) else .exc w ⟨.notFound, 0⟩ := by
  unfold getX getProg get_nlocals
  ihrun
  cases hh : (w.cur k).has p i <;> simp


/-- the list is a class chain, leaf first, ending in a root -/
def IsChain (T : Tree) : List Nat → Prop
  | [] => True
  | [a] => T.parent a = none
  | a :: p :: rest => T.parent a = some p ∧ IsChain T (p :: rest)

theorem anc_isChain {T : Tree} (h : T.WF) : ∀ c, IsChain T (T.anc c) := by
  intro c
  induction c using h.induction with
  | root c hc => rw [anc_root h hc]; exact hc
  | step c p hp ih =>
    rw [anc_cons h hp]
    have : T.anc p = p :: (T.anc p).tail := by
      have := anc_head T p
      cases hl : T.anc p with
      | nil => rw [hl] at this; cases this
      | cons x xs => rw [hl] at this; simp at this; subst this; rfl
    rw [this] at ih ⊢
    exact ⟨hp, ih⟩

/-- how the `while` loop of `get` ends -/
def loopRes (vs : List (Option PVal)) (ps : XW × Bool) : PyInh.Res XW :=
  match ps with
  | (w', true) => .norm { w := w', vars := vs }
  | (w', false) => .exc { w := w', vars := vs } ⟨.notFound, 0⟩

/-- the `while` loop of `get` fetches the `_parent` chain -/
theorem get_while (X : Ctx) (C : Calls) (s : PVal) (k i : Nat) (cv : PVal) (hk : connOf X cv = some k)
    (hgp : ∀ w' p, C.getParent w' k p i =
      if (w'.cur k).has p i then .ret w' (.inst k p i) else .exc w' ⟨.notFound, 0⟩)
    (v2 v3 v4 v5 v6 v7 v9 : Option PVal) :
    ∀ (rest : List Nat) (a : Nat), IsChain X.T (a :: rest) → (a :: rest).Nodup →
      ∀ (fuel : Nat), (a :: rest).length ≤ fuel → ∀ (w : XW) (v10 : Option PVal),
      (∀ a', a' ∈ a :: rest → w.par k a' i = .none) →
      ∃ v8' v10',
        whileLoop (fun st => get_loop0_cond.eval (xIface X C s) st.w st.vars)
          (fun st => get_loop0.exec (xIface X C s) none st) fuel
          { w := w, vars := [some (.nat i), some cv, v2, v3, v4, v5, v6, v7, some (.inst k a i), v9, v10] } =
        loopRes [some (.nat i), some cv, v2, v3, v4, v5, v6, v7, v8', v9, v10'] (parentsSpec k i (a :: rest) w) := by
  intro rest
  induction rest with
  | nil =>
    intro a hch _ fuel hfuel w v10 hfresh
    obtain ⟨n, rfl⟩ : ∃ n, fuel = n + 1 := ⟨fuel - 1, by simp at hfuel; omega⟩
    simp only [IsChain] at hch
    refine ⟨some (.inst k a i), v10, ?_⟩
    simp [whileLoop, get_loop0_cond, Cond.eval, Expr.eval, Env.get, xAttrOf, hch, classOpt, pyBool, parentsSpec, loopRes]
  | cons p rest ih =>
    intro a hch hnd fuel hfuel w v10 hfresh
    obtain ⟨n, rfl⟩ : ∃ n, fuel = n + 1 := ⟨fuel - 1, by simp at hfuel; omega⟩
    obtain ⟨hpa, hch'⟩ := hch
    have hpar0 := hfresh a List.mem_cons_self
    rw [List.nodup_cons] at hnd
    have hcond : get_loop0_cond.eval (xIface X C s) w
        [some (.nat i), some cv, v2, v3, v4, v5, v6, v7, some (.inst k a i), v9, v10] = .ok true := by
      simp [get_loop0_cond, Cond.eval, Expr.eval, Env.get, xAttrOf, hpa, classOpt, pyBool, hpar0]
    by_cases hh : (w.cur k).has p i = true
    · have hbody : get_loop0.exec (xIface X C s) none
          { w := w, vars := [some (.nat i), some cv, v2, v3, v4, v5, v6, v7, some (.inst k a i), v9, v10] } =
          .norm { w := w.setPar k a i (.inst k p i),
                  vars := [some (.nat i), some cv, v2, v3, v4, v5, v6, v7, some (.inst k p i), v9, some (.inst k p i)] } := by
        unfold get_loop0
        ihrun
        simp [kwGet, zipKw, hk, hgp, hh]
      obtain ⟨v8', v10', hih⟩ := ih p hch' hnd.2 n (by simp at hfuel ⊢; omega) (w.setPar k a i (.inst k p i))
        (some (.inst k p i)) (by
          intro a' ha'
          have hne : a' ≠ a := fun e => hnd.1 (e ▸ ha')
          rw [setPar_par_ne _ _ _ _ _ _ _ _ (by simp [hne])]
          exact hfresh a' (List.mem_cons_of_mem _ ha'))
      refine ⟨v8', v10', ?_⟩
      simp only [whileLoop, hcond, hbody, hih, parentsSpec, hh, if_true]
    · have hbody : get_loop0.exec (xIface X C s) none
          { w := w, vars := [some (.nat i), some cv, v2, v3, v4, v5, v6, v7, some (.inst k a i), v9, v10] } =
          .exc { w := w, vars := [some (.nat i), some cv, v2, v3, v4, v5, v6, v7, some (.inst k a i), v9, v10] }
            ⟨.notFound, 0⟩ := by
        unfold get_loop0
        ihrun
        simp [kwGet, zipKw, hk, hgp, hh]
      refine ⟨some (.inst k a i), v10, ?_⟩
      simp only [whileLoop, hcond, hbody, parentsSpec, hh]
      simp [loopRes]

theorem colsDict_isList (T : Tree) (c : Nat) : isListVal (colsDict T c) = true := isListVal_ofList _

theorem colsDict_hasTag (T : Tree) (c : Nat) : vdHas (.str "childName") (colsDict T c) = T.inh c := by
  have h0 : ∀ n, vdGet (PyInh.Val.str "childName")
      (Val.ofList ((List.range n).map fun j => PyInh.Val.pair (.name c j) (colObj c j))) = none := by
    intro n
    have := vdGet_pairsOf (.str "childName") ((List.range n).map fun j => (PyInh.Val.name c j, colObj c j))
    simp only [pairsOf, List.map_map] at this
    rw [show ((fun e : PVal × PVal => PyInh.Val.pair e.1 e.2) ∘ fun j => (PyInh.Val.name c j, colObj c j)) =
      fun j => PyInh.Val.pair (.name c j) (colObj c j) from rfl] at this
    rw [this]
    simp only [Option.map_eq_none_iff, List.find?_eq_none, List.mem_map]
    rintro e ⟨j, _, rfl⟩
    simp
  unfold colsDict vdHas
  cases hi : T.inh c
  · simp [h0]
  · simp [Val.ofList, vdGet]

theorem colsDict_truthy (T : Tree) (c : Nat) : pyBool (colsDict T c) = !T.colless c := by
  unfold colsDict Tree.colless
  cases hi : T.inh c
  · cases hn : T.ncols c with
    | zero => simp [Val.ofList, pyBool]
    | succ n => simp [List.range_succ_eq_map, Val.ofList, pyBool]
  · simp [Val.ofList, pyBool]

theorem find_filter_range (q : Nat → Bool) (f : Nat → PVal) (d : Nat) : ∀ n,
    (((List.range n).filter q).map fun d' => (cname d', f d')).find? (fun e => e.1 == cname d) =
      if d < n ∧ q d = true then some (cname d, f d) else none := by
  intro n
  induction n with
  | zero => simp
  | succ n ih =>
    rw [List.range_succ, List.filter_append, List.map_append, List.find?_append, ih]
    by_cases h : d < n ∧ q d = true
    · have : d < n + 1 ∧ q d = true := ⟨by omega, h.2⟩
      simp [h, this]
    · simp only [h, if_false, Option.none_or]
      by_cases h2 : d = n
      · subst h2
        cases hq : q d <;> simp [hq]
      · have h3 : ¬ (d < n + 1 ∧ q d = true) := by
          intro ⟨h4, h5⟩; exact h ⟨by omega, h5⟩
        have hne : ¬ cname n = cname d := by
          intro e; simp only [cname] at e; cases e; exact h2 rfl
        cases hq : q n <;> simp [h3, hne]

theorem childDict_isList (T : Tree) (c : Nat) : isListVal (childDict T c) = true := isListVal_ofList _

theorem childDict_get (T : Tree) (e d : Nat) :
    vdGet (cname d) (childDict T e) = if d < T.n ∧ T.parent d = some e then some (.cls d) else none := by
  have := vdGet_pairsOf (cname d) (((List.range T.n).filter fun d => T.parent d == some e).map fun d' => (cname d', PyInh.Val.cls d'))
  simp only [pairsOf, List.map_map] at this
  unfold childDict
  rw [show (fun d => PyInh.Val.pair (cname d) (PyInh.Val.cls d)) =
    ((fun e : PVal × PVal => PyInh.Val.pair e.1 e.2) ∘ fun d' => (cname d', PyInh.Val.cls d')) from rfl, this,
    find_filter_range]
  by_cases h : d < T.n ∧ T.parent d = some e
  · simp [h]
  · have : ¬ (d < T.n ∧ (T.parent d == some e) = true) := by simpa using h
    simp [h, this]
end SqlObjVerif.Inherit
