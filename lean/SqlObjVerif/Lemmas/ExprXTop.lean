import SqlObjVerif.Lemmas.Expr
import SqlObjVerif.Lemmas.ExprXMain
import SqlObjVerif.Lemmas.ExprXSpell
/-!
# C03 translation — vocabulary of the restated property theorems

`Emits P d e toks`: the translated source, run on the source tree `e`, builds an object graph, renders it for dialect `d`
to a text, and that text spells the token list `toks`.  `emits_render`: it emits the hand model's `render d (build e)`.
-/
namespace SqlObjVerif.ExprX
open SqlObjVerif.PyExpr SqlObjVerif.PyExpr.Extracted

theorem build_foldR (mk : Expr.BoolE → Expr.BoolE → Expr.BoolE) (o : BinOp)
    (hmk : ∀ a b, Expr.build (mk a b) = .sqlop o (Expr.build a) (Expr.build b)) :
    ∀ (es : List Expr.BoolE) (e : Expr.BoolE),
      Expr.build (Expr.foldR mk e es) = foldRN o (Expr.build e) (es.map fun x => Expr.build x) := by
  intro es
  induction es with
  | nil => intro e; rfl
  | cons b rest ih => intro e; simp only [Expr.foldR, hmk, ih, List.map_cons, foldRN]

/-- what the translated source does with a tree: builds `v`, renders it as the text `s`, which spells tokens `toks` -/
def Emits (P : Params) (d : String) (e : Expr.BoolE) (toks : List Tok) : Prop :=
  ∃ v s, (∀ k, buildX P (ifaceF P (k + 3)) e = .ok v) ∧
    (∀ k, depth (Expr.buildB e) ≤ k → sqlreprX P k v (strOf d) = .ok (.str s)) ∧ Spells P toks s

theorem emits_render (P : Params) (hT : TextOk P) (hfp : ∀ c v, P.fromPython c v = .ok v) (d : String)
    (e : Expr.BoolE) : Emits P d e (Expr.render d false (Expr.buildB e)) :=
  ⟨_, _, fun k => buildX_eq P hfp k e, fun k hk => sqlrepr_toVal P d hT.leafOk _ k hk,
    spells_render P hT d _ (Expr.wf_buildB d e)⟩

/-- a concrete naming / `repr` for non-vacuity examples -/
def P0 : Params where
  table := fun _ => [116]
  field := fun c => if c = 0 then [97] else [98]
  reprInt := fun i => if i < 0 then [45, 49] else [49]
  reprFlt := fun b _ => if b then [45, 48, 46, 53] else [48, 46, 53]
  fromPython := fun _ v => .ok v

end SqlObjVerif.ExprX
