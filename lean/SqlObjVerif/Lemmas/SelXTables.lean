import SqlObjVerif.Lemmas.SelXClone
/-!
# C03 translation — the tables an expression graph uses: `tablesUsedSet` / `components` / `tablesUsedImmediate`

`tablesUsed_toVal`: the module function `tablesUsedSet(node, db)` run through the translated recursion equals the hand
model `tuV` (the set `tablesL` for an expression object, `{}` for anything else — so a list operand of `IN` contributes
no table: what the code does).
-/
namespace SqlObjVerif.SelX
open SqlObjVerif.PyExpr hiding Expr Exprs Stmt Block Res
open SqlObjVerif.PySel SqlObjVerif.PySel.Extracted
open SqlObjVerif.ExprX (Node toVal mkOp mkPrefix fieldVal isObjNode)

set_option linter.unusedSimpArgs false

macro "pytm" : tactic => `(tactic|
  simp [runH, runP, PySel.Block.exec, PySel.Stmt.exec, PySel.Expr.eval, PySel.Exprs.eval, Env.ofArgs, Target.bind, bindAll,
    attrS, attrOf, aget, St.put, callS, callFn, methodS, methodOf, refOf, forLoop, iterOf, mkOp, mkPrefix, fieldVal, *])

macro "pyt" : tactic => `(tactic|
  simp [runH, runP, PySel.Block.exec, PySel.Stmt.exec, PySel.Expr.eval, PySel.Exprs.eval, Env.ofArgs, Target.bind, bindAll,
    attrS, attrOf, aget, St.put, callS, callFn, forLoop, iterOf, mutateS, mutate1, setMut, setOf_setV,
    listOf_setV, mkOp, mkPrefix, fieldVal, *])

/-! ### the translated bodies, for every interface -/

theorem components_base (I : SIface) (h : Heap) (self : Val) :
    runP I SQLExpression_components [self] h = .ok (.list []) := by
  simp only [SQLExpression_components, SQLExpression_components_s0]; pytm

theorem immediate_base (I : SIface) (h : Heap) (self : Val) :
    runP I SQLExpression_tablesUsedImmediate [self] h = .ok (.list []) := by
  simp only [SQLExpression_tablesUsedImmediate, SQLExpression_tablesUsedImmediate_s0]; pytm

theorem components_op (I : SIface) (h : Heap) (c : String) (op : Str) (a b : Val) :
    runP I SQLOp_components [mkOp c op a b] h = .ok (.list [a, b]) := by
  simp only [SQLOp_components, SQLOp_components_s0]; pytm

theorem components_prefix (I : SIface) (h : Heap) (p : Str) (x : Val) :
    runP I SQLPrefix_components [mkPrefix p x] h = .ok (.list [x]) := by
  simp only [SQLPrefix_components, SQLPrefix_components_s0]; pytm

theorem immediate_field (I : SIface) (h : Heap) (P : ExprX.Params) (c : Nat) :
    runP I Field_tablesUsedImmediate [fieldVal P c] h = .ok (.list [.str (P.table c)]) := by
  simp only [Field_tablesUsedImmediate, Field_tablesUsedImmediate_s0]; pytm

/-- `tablesUsed(db)` is `tablesUsedSet(db)` -/
theorem tablesUsed_spec (I : SIface) (h : Heap) (self db : Val) :
    runP I SQLExpression_tablesUsed [self, db] h = methodS I h self "tablesUsedSet" [db] := by
  simp only [SQLExpression_tablesUsed, SQLExpression_tablesUsed_s0]; pyt
  cases methodS I h self "tablesUsedSet" [db] <;> simp [withV]

/-- module-level `tablesUsedSet(obj, db)`: the method when the object has one, else `{}` -/
theorem tablesUsedSet_fn (I : SIface) (h : Heap) (v db : Val) :
    runP I f_tablesUsedSet [v, db] h =
      if I.hasAttr v "tablesUsedSet" then methodS I h v "tablesUsedSet" [db] else .ok (.dict []) := by
  simp only [f_tablesUsedSet, f_tablesUsedSet_s0]
  cases hh : I.hasAttr v "tablesUsedSet"
  · pyt
  · pyt
    cases methodS I h v "tablesUsedSet" [db] <;> simp [withV]

/-- `SQLExpression.tablesUsedSet` for an object with immediate tables `[t]` (a `str`) and no components -/
theorem tus_leaf (I : SIface) (h : Heap) (self db : Val) (t : Str)
    (himm : methodS I h self "tablesUsedImmediate" [] = .ok (.list [.str t]))
    (hcomp : methodS I h self "components" [] = .ok (.list []))
    (hna : I.hasAttr (.str t) "__sqlrepr__" = false) :
    runP I SQLExpression_tablesUsedSet [self, db] h = .ok (setV [.str t]) := by
  simp only [SQLExpression_tablesUsedSet, SQLExpression_tablesUsedSet_s0, SQLExpression_tablesUsedSet_s1,
    SQLExpression_tablesUsedSet_s2, SQLExpression_tablesUsedSet_s3, SQLExpression_tablesUsedSet_for0,
    SQLExpression_tablesUsedSet_for1]
  pyt
  simp [setAdd]

/-- … with no immediate tables and one component -/
theorem tus_unary (I : SIface) (h : Heap) (self db a ra : Val) (xa : List Val)
    (himm : methodS I h self "tablesUsedImmediate" [] = .ok (.list []))
    (hcomp : methodS I h self "components" [] = .ok (.list [a]))
    (ha : (I.E h).call "tablesUsedSet" [a, db] = .ok ra) (hua : updItems ra = some xa) :
    runP I SQLExpression_tablesUsedSet [self, db] h = .ok (setV (setUnion [] xa)) := by
  have hs : ("tablesUsedSet" = "set") = False := by decide
  simp only [SQLExpression_tablesUsedSet, SQLExpression_tablesUsedSet_s0, SQLExpression_tablesUsedSet_s1,
    SQLExpression_tablesUsedSet_s2, SQLExpression_tablesUsedSet_s3, SQLExpression_tablesUsedSet_for0,
    SQLExpression_tablesUsedSet_for1]
  pyt

/-- … and two components -/
theorem tus_binary (I : SIface) (h : Heap) (self db a b ra rb : Val) (xa xb : List Val)
    (himm : methodS I h self "tablesUsedImmediate" [] = .ok (.list []))
    (hcomp : methodS I h self "components" [] = .ok (.list [a, b]))
    (ha : (I.E h).call "tablesUsedSet" [a, db] = .ok ra) (hua : updItems ra = some xa)
    (hb : (I.E h).call "tablesUsedSet" [b, db] = .ok rb) (hub : updItems rb = some xb) :
    runP I SQLExpression_tablesUsedSet [self, db] h = .ok (setV (setUnion (setUnion [] xa) xb)) := by
  simp only [SQLExpression_tablesUsedSet, SQLExpression_tablesUsedSet_s0, SQLExpression_tablesUsedSet_s1,
    SQLExpression_tablesUsedSet_s2, SQLExpression_tablesUsedSet_s3, SQLExpression_tablesUsedSet_for0,
    SQLExpression_tablesUsedSet_for1]
  pyt

/-! ### the hand model: the set of tables an expression graph uses -/

/-- `tablesUsedSet` of an object node (a set as a duplicate-free list).  List operands are NOT descended into:
    `tablesUsedSet(<list>, db)` is `{}` (what the code does) -/
def tablesL (P : ExprX.Params) : Node → List Val
  | .field c => [.str (P.table c)]
  | .sqlop _ l r =>
    setUnion (setUnion [] (if isObjNode l then tablesL P l else [])) (if isObjNode r then tablesL P r else [])
  | .sqlin l r =>
    setUnion (setUnion [] (if isObjNode l then tablesL P l else [])) (if isObjNode r then tablesL P r else [])
  | .modulo l r =>
    setUnion (setUnion [] (if isObjNode l then tablesL P l else [])) (if isObjNode r then tablesL P r else [])
  | .prefix _ x => setUnion [] (if isObjNode x then tablesL P x else [])
  | _ => []

/-- the value of the module function `tablesUsedSet(node, db)` -/
def tuV (P : ExprX.Params) (n : Node) : Val := if isObjNode n then setV (tablesL P n) else .dict []

theorem updItems_tuV (P : ExprX.Params) (n : Node) :
    updItems (tuV P n) = some (if isObjNode n then tablesL P n else []) := by
  unfold tuV; cases isObjNode n <;> simp

def depthT : Node → Nat
  | .sqlop _ l r => max (depthT l) (depthT r) + 1
  | .sqlin l r => max (depthT l) (depthT r) + 1
  | .modulo l r => max (depthT l) (depthT r) + 1
  | .prefix _ x => depthT x + 1
  | _ => 0

/-! ### the tied interface -/

theorem callE_tus (J : SIface) (h : Heap) (v db : Val) :
    callE J h "tablesUsedSet" [v, db] = runP J f_tablesUsedSet [v, db] h := by
  have h1 : ("tablesUsedSet" = "sqlrepr") = False := by decide
  have h2 : ("tablesUsedSet" = "_str_or_sqlrepr") = False := by decide
  simp only [callE, h1, h2, if_false, if_true]

theorem methodE_obj (P : ExprX.Params) (Q : ParamsQ) (J : SIface) (h : Heap) (c : String) (fs : List (String × Val))
    (m : String) (args : List Val) (hc : (c = "@conn") = False) (hm : (m = "_from_python") = False) :
    methodE P Q J h (.obj c fs) m args = runMethodS J h c (.obj c fs) m args := by
  simp only [methodE, hc, hm, if_false]

theorem hasAttr_tus (P : ExprX.Params) (n : Node) : hasAttrX (toVal P n) "tablesUsedSet" = isObjNode n := by
  cases n <;> simp [toVal, mkOp, mkPrefix, fieldVal, hasAttrX, aget, isObjNode] <;> decide

theorem hasAttr_str (t : Str) : hasAttrX (.str t) "__sqlrepr__" = false := by
  simp [hasAttrX]; decide

theorem methodS_toVal (I : SIface) (h : Heap) (P : ExprX.Params) (n : Node) (hn : isObjNode n = true) (m : String)
    (args : List Val) : methodS I h (toVal P n) m args = (I.E h).method (toVal P n) m args := by
  cases n <;> simp [isObjNode] at hn <;> simp [toVal, mkOp, mkPrefix, fieldVal, methodS, refOf, methodOf]

theorem tus_mkOp (P : ExprX.Params) (Q : ParamsQ) (h : Heap) (db : Val) (cls : String)
    (hcls : cls = "SQLOp" ∨ cls = "SQLModulo") (op : Str) (l r : Node) (k : Nat)
    (hl : ((sIfaceF P Q (k + 1)).E h).call "tablesUsedSet" [toVal P l, db] = .ok (tuV P l))
    (hr : ((sIfaceF P Q (k + 1)).E h).call "tablesUsedSet" [toVal P r, db] = .ok (tuV P r)) :
    ((sIfaceF P Q (k + 3)).E h).call "tablesUsedSet" [mkOp cls op (toVal P l) (toVal P r), db] =
      .ok (setV (setUnion (setUnion [] (if isObjNode l then tablesL P l else []))
        (if isObjNode r then tablesL P r else []))) := by
  have hc : (cls = "@conn") = False := by rcases hcls with rfl | rfl <;> decide
  have f1 : findMethodS cls "tablesUsedSet" = some SQLExpression_tablesUsedSet := by rcases hcls with rfl | rfl <;> rfl
  have f2 : findMethodS cls "tablesUsedImmediate" = some SQLExpression_tablesUsedImmediate := by
    rcases hcls with rfl | rfl <;> rfl
  have f3 : findMethodS cls "components" = some SQLOp_components := by rcases hcls with rfl | rfl <;> rfl
  have ha : hasAttrX (mkOp cls op (toVal P l) (toVal P r)) "tablesUsedSet" = true := by
    rcases hcls with rfl | rfl <;> simp [mkOp, hasAttrX, aget] <;> decide
  have hm : ∀ (I : SIface) m args, methodS I h (mkOp cls op (toVal P l) (toVal P r)) m args =
      (I.E h).method (mkOp cls op (toVal P l) (toVal P r)) m args := by
    intro I m args; simp [mkOp, methodS, refOf, methodOf]
  simp only [sIfaceF_E, eLevel, callE_tus, tablesUsedSet_fn, sIfaceF_hasAttr, ha, if_true]
  rw [hm]
  simp only [sIfaceF_E, eLevel]
  rw [show mkOp cls op (toVal P l) (toVal P r) = Val.obj cls _ from rfl,
    methodE_obj _ _ _ _ _ _ _ _ hc (by decide)]
  simp only [runMethodS, f1]
  rw [show Val.obj cls _ = mkOp cls op (toVal P l) (toVal P r) from rfl]
  rw [tus_binary _ h _ db (toVal P l) (toVal P r) (tuV P l) (tuV P r) _ _ ?_ ?_ hl (updItems_tuV P l) hr (updItems_tuV P r)]
  · rw [hm]
    simp only [sIfaceF_E, eLevel]
    rw [show mkOp cls op (toVal P l) (toVal P r) = Val.obj cls _ from rfl,
      methodE_obj _ _ _ _ _ _ _ _ hc (by decide)]
    simp only [runMethodS, f2]
    exact immediate_base _ h _
  · rw [hm]
    simp only [sIfaceF_E, eLevel]
    rw [show mkOp cls op (toVal P l) (toVal P r) = Val.obj cls _ from rfl,
      methodE_obj _ _ _ _ _ _ _ _ hc (by decide)]
    simp only [runMethodS, f3]
    exact components_op _ h _ _ _ _

theorem tus_mkPrefix (P : ExprX.Params) (Q : ParamsQ) (h : Heap) (db : Val) (p : Str) (x : Node) (k : Nat)
    (hx : ((sIfaceF P Q (k + 1)).E h).call "tablesUsedSet" [toVal P x, db] = .ok (tuV P x)) :
    ((sIfaceF P Q (k + 3)).E h).call "tablesUsedSet" [mkPrefix p (toVal P x), db] =
      .ok (setV (setUnion [] (if isObjNode x then tablesL P x else []))) := by
  have ha : hasAttrX (mkPrefix p (toVal P x)) "tablesUsedSet" = true := by
    simp [mkPrefix, hasAttrX, aget]; decide
  have hm : ∀ (I : SIface) m args, methodS I h (mkPrefix p (toVal P x)) m args =
      (I.E h).method (mkPrefix p (toVal P x)) m args := by
    intro I m args; simp [mkPrefix, methodS, refOf, methodOf]
  simp only [sIfaceF_E, eLevel, callE_tus, tablesUsedSet_fn, sIfaceF_hasAttr, ha, if_true]
  rw [hm]
  simp only [sIfaceF_E, eLevel]
  rw [show mkPrefix p (toVal P x) = Val.obj "SQLPrefix" _ from rfl, methodE_obj _ _ _ _ _ _ _ _ (by decide) (by decide)]
  simp only [runMethodS, show findMethodS "SQLPrefix" "tablesUsedSet" = some SQLExpression_tablesUsedSet from rfl]
  rw [show Val.obj "SQLPrefix" _ = mkPrefix p (toVal P x) from rfl]
  rw [tus_unary _ h _ db (toVal P x) (tuV P x) _ ?_ ?_ hx (updItems_tuV P x)]
  · rw [hm]
    simp only [sIfaceF_E, eLevel]
    rw [show mkPrefix p (toVal P x) = Val.obj "SQLPrefix" _ from rfl,
      methodE_obj _ _ _ _ _ _ _ _ (by decide) (by decide)]
    simp only [runMethodS,
      show findMethodS "SQLPrefix" "tablesUsedImmediate" = some SQLExpression_tablesUsedImmediate from rfl]
    exact immediate_base _ h _
  · rw [hm]
    simp only [sIfaceF_E, eLevel]
    rw [show mkPrefix p (toVal P x) = Val.obj "SQLPrefix" _ from rfl,
      methodE_obj _ _ _ _ _ _ _ _ (by decide) (by decide)]
    simp only [runMethodS, show findMethodS "SQLPrefix" "components" = some SQLPrefix_components from rfl]
    exact components_prefix _ h _ _

/-- MAIN: the module function `tablesUsedSet(node, db)` run by the translated recursion (`SQLExpression.tablesUsedSet`
    over `tablesUsedImmediate()` and `components()`, every method resolved along the class chain) is the hand model -/
theorem tablesUsed_toVal (P : ExprX.Params) (Q : ParamsQ) (h : Heap) (db : Val) : ∀ (n : Node) (k : Nat),
    2 * depthT n + 3 ≤ k → ((sIfaceF P Q k).E h).call "tablesUsedSet" [toVal P n, db] = .ok (tuV P n) := by
  intro n
  induction n with
  | field c =>
    intro k hk
    obtain ⟨k, rfl⟩ : ∃ k', k = k' + 3 := ⟨k - 3, by omega⟩
    simp only [sIfaceF_E, eLevel, callE_tus, tablesUsedSet_fn, sIfaceF_hasAttr, hasAttr_tus, isObjNode, if_true]
    rw [methodS_toVal _ _ _ _ rfl]
    simp only [sIfaceF_E, eLevel, toVal, fieldVal]
    rw [methodE_obj _ _ _ _ _ _ _ _ (by decide) (by decide)]
    simp only [runMethodS, show findMethodS "SQLObjectField" "tablesUsedSet" = some SQLExpression_tablesUsedSet from rfl]
    rw [show Val.obj "SQLObjectField" _ = toVal P (.field c) from rfl]
    rw [tus_leaf _ h _ db (P.table c)]
    · rfl
    · rw [methodS_toVal _ _ _ _ rfl]
      simp only [sIfaceF_E, eLevel, toVal, fieldVal]
      rw [methodE_obj _ _ _ _ _ _ _ _ (by decide) (by decide)]
      simp only [runMethodS, show findMethodS "SQLObjectField" "tablesUsedImmediate" = some Field_tablesUsedImmediate from rfl]
      exact immediate_field _ h P c
    · rw [methodS_toVal _ _ _ _ rfl]
      simp only [sIfaceF_E, eLevel, toVal, fieldVal]
      rw [methodE_obj _ _ _ _ _ _ _ _ (by decide) (by decide)]
      simp only [runMethodS, show findMethodS "SQLObjectField" "components" = some SQLExpression_components from rfl]
      exact components_base _ h _
    · rw [sIfaceF_hasAttr]; exact hasAttr_str _
  | sqlop o l r ihl ihr =>
    intro k hk
    obtain ⟨k, rfl⟩ : ∃ k', k = k' + 3 := ⟨k - 3, by simp only [depthT] at hk; omega⟩
    simp only [depthT] at hk
    simp only [toVal, tuV, isObjNode, if_true, tablesL]
    exact tus_mkOp P Q h db _ (Or.inl rfl) _ l r k (ihl (k + 1) (by omega)) (ihr (k + 1) (by omega))
  | sqlin l r ihl ihr =>
    intro k hk
    obtain ⟨k, rfl⟩ : ∃ k', k = k' + 3 := ⟨k - 3, by simp only [depthT] at hk; omega⟩
    simp only [depthT] at hk
    simp only [toVal, tuV, isObjNode, if_true, tablesL]
    exact tus_mkOp P Q h db _ (Or.inl rfl) _ l r k (ihl (k + 1) (by omega)) (ihr (k + 1) (by omega))
  | modulo l r ihl ihr =>
    intro k hk
    obtain ⟨k, rfl⟩ : ∃ k', k = k' + 3 := ⟨k - 3, by simp only [depthT] at hk; omega⟩
    simp only [depthT] at hk
    simp only [toVal, tuV, isObjNode, if_true, tablesL]
    exact tus_mkOp P Q h db _ (Or.inr rfl) _ l r k (ihl (k + 1) (by omega)) (ihr (k + 1) (by omega))
  | «prefix» p x ih =>
    intro k hk
    obtain ⟨k, rfl⟩ : ∃ k', k = k' + 3 := ⟨k - 3, by simp only [depthT] at hk; omega⟩
    simp only [depthT] at hk
    simp only [toVal, tuV, isObjNode, if_true, tablesL]
    exact tus_mkPrefix P Q h db _ x k (ih (k + 1) (by omega))
  | int i =>
    intro k hk
    obtain ⟨k, rfl⟩ : ∃ k', k = k' + 1 := ⟨k - 1, by omega⟩
    simp only [sIfaceF_E, eLevel, callE_tus, tablesUsedSet_fn, sIfaceF_hasAttr, hasAttr_tus, isObjNode, tuV]; rfl
  | flt b i =>
    intro k hk
    obtain ⟨k, rfl⟩ : ∃ k', k = k' + 1 := ⟨k - 1, by omega⟩
    simp only [sIfaceF_E, eLevel, callE_tus, tablesUsedSet_fn, sIfaceF_hasAttr, hasAttr_tus, isObjNode, tuV]; rfl
  | none =>
    intro k hk
    obtain ⟨k, rfl⟩ : ∃ k', k = k' + 1 := ⟨k - 1, by omega⟩
    simp only [sIfaceF_E, eLevel, callE_tus, tablesUsedSet_fn, sIfaceF_hasAttr, hasAttr_tus, isObjNode, tuV]; rfl
  | lnil =>
    intro k hk
    obtain ⟨k, rfl⟩ : ∃ k', k = k' + 1 := ⟨k - 1, by omega⟩
    simp only [sIfaceF_E, eLevel, callE_tus, tablesUsedSet_fn, sIfaceF_hasAttr, hasAttr_tus, isObjNode, tuV]; rfl
  | lcons a b _ _ =>
    intro k hk
    obtain ⟨k, rfl⟩ : ∃ k', k = k' + 1 := ⟨k - 1, by omega⟩
    simp only [sIfaceF_E, eLevel, callE_tus, tablesUsedSet_fn, sIfaceF_hasAttr, hasAttr_tus, isObjNode, tuV]; rfl
end SqlObjVerif.SelX
