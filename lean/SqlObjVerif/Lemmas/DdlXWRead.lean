import SqlObjVerif.Model.DdlXW
import SqlObjVerif.Lemmas.DdlXBase
/-!
# C14 translation (stateful part) — what the database reader `execSQL` does with the texts the model generates
-/
namespace SqlObjVerif.DdlX
open SqlObjVerif.Ddl
open SqlObjVerif.PyDdl hiding Str isUpperC
open SqlObjVerif.PyDdl.Extracted

theorem word_append (t rest : Str) (h : 32 ∉ t) : word (t ++ 32 :: rest) = t := by
  induction t with
  | nil => simp [word]
  | cons a t ih =>
    have ha : a ≠ 32 := fun e => h (by simp [e])
    have ht : 32 ∉ t := fun e => h (by simp [e])
    simp only [word, List.cons_append] at ih ⊢
    rw [List.takeWhile_cons_of_pos (by simpa using ha), ih ht]

theorem word_self (t : Str) (h : 32 ∉ t) : word t = t := by
  induction t with
  | nil => rfl
  | cons a t ih =>
    have ha : a ≠ 32 := fun e => h (by simp [e])
    have ht : 32 ∉ t := fun e => h (by simp [e])
    simp only [word] at ih ⊢
    rw [List.takeWhile_cons_of_pos (by simpa using ha), ih ht]

theorem strip_append (p x : Str) : strip p (p ++ x) = some x := by
  simp [strip]

/-- `CREATE TABLE t (…` -/
theorem exec_create (t rest : Str) (c : Cat) (h : 32 ∉ t) :
    execSQL (pCT ++ t ++ 32 :: rest) c = if t ∈ c.tables then .error () else .ok (addTbl t c) := by
  rw [execSQL, List.append_assoc, strip_append]
  simp only [word_append t rest h]

/-- `DROP TABLE t` / `DROP TABLE t CASCADE` -/
theorem exec_drop (t : Str) (c : Cat) (h : 32 ∉ t) :
    execSQL (pDT ++ t) c = if t ∈ c.tables then .ok (dropTbl t c) else .error () := by
  have h1 : strip pCT (pDT ++ t) = none := by simp [strip, pCT, pDT]
  rw [execSQL, h1]
  simp only [strip_append, word_self t h]

theorem exec_drop' (t rest : Str) (c : Cat) (h : 32 ∉ t) :
    execSQL (pDT ++ t ++ 32 :: rest) c = if t ∈ c.tables then .ok (dropTbl t c) else .error () := by
  have h1 : strip pCT (pDT ++ t ++ 32 :: rest) = none := by simp [strip, pCT, pDT]
  rw [execSQL, h1, List.append_assoc, strip_append]
  simp only [word_append t rest h]

/-- `ALTER TABLE t <clause>` where the clause is neither ` ADD INDEX ` nor ` ADD UNIQUE `: no catalogue effect
    (the clause is given by its first six characters after the blank: they decide) -/
theorem exec_alter (t : Str) (k1 k2 k3 k4 k5 : Nat) (rest : Str) (c : Cat) (h : 32 ∉ t)
    (hk : ¬ (k1 = 65 ∧ k2 = 68 ∧ k3 = 68 ∧ k4 = 32 ∧ (k5 = 73 ∨ k5 = 85))) :
    execSQL (pAT ++ (t ++ 32 :: k1 :: k2 :: k3 :: k4 :: k5 :: rest)) c = .ok c := by
  have s1 : strip pCT (pAT ++ (t ++ 32 :: k1 :: k2 :: k3 :: k4 :: k5 :: rest)) = none := by simp [strip, pCT, pAT]
  have s2 : strip pDT (pAT ++ (t ++ 32 :: k1 :: k2 :: k3 :: k4 :: k5 :: rest)) = none := by simp [strip, pDT, pAT]
  have s3 : strip pCUI (pAT ++ (t ++ 32 :: k1 :: k2 :: k3 :: k4 :: k5 :: rest)) = none := by simp [strip, pCUI, pAT]
  have s4 : strip pCI (pAT ++ (t ++ 32 :: k1 :: k2 :: k3 :: k4 :: k5 :: rest)) = none := by simp [strip, pCI, pAT]
  rw [execSQL, s1, s2, s3, s4, strip_append]
  simp only [execAlter, word_append t _ h, List.drop_left]
  have a1 : strip pAI (32 :: k1 :: k2 :: k3 :: k4 :: k5 :: rest) = none := by
    simp only [strip, pAI, List.isPrefixOf, Bool.and_eq_true, beq_iff_eq, ite_eq_right_iff, reduceCtorEq, imp_false]
    intro hh; exact hk ⟨hh.2.1.symm, hh.2.2.1.symm, hh.2.2.2.1.symm, hh.2.2.2.2.1.symm, Or.inl hh.2.2.2.2.2.1.symm⟩
  have a2 : strip pAU (32 :: k1 :: k2 :: k3 :: k4 :: k5 :: rest) = none := by
    simp only [strip, pAU, List.isPrefixOf, Bool.and_eq_true, beq_iff_eq, ite_eq_right_iff, reduceCtorEq, imp_false]
    intro hh; exact hk ⟨hh.2.1.symm, hh.2.2.1.symm, hh.2.2.2.1.symm, hh.2.2.2.2.1.symm, Or.inr hh.2.2.2.2.2.1.symm⟩
  rw [a1, a2]

/-- MySQL's `ALTER TABLE t ADD INDEX|UNIQUE name (…)` adds the index `(table, name)` -/
theorem exec_index_mysql (decl : Decl) (ix : Index) (c : Cat) (h1 : 32 ∉ decl.tableName) (h2 : 32 ∉ ix.name) :
    execSQL (indexSQL .mysql decl ix) c =
      if (decl.tableName, ix.name) ∈ c.indexes then .error ()
      else .ok { c with indexes := c.indexes ++ [(decl.tableName, ix.name)] } := by
  have pre : ∀ x : Str, strip pCT (pAT ++ x) = none ∧ strip pDT (pAT ++ x) = none ∧ strip pCUI (pAT ++ x) = none ∧
      strip pCI (pAT ++ x) = none := by
    intro x; simp [strip, pCT, pDT, pCUI, pCI, pAT]
  cases hu : ix.unique
  · have e : indexSQL .mysql decl ix = pAT ++ (decl.tableName ++ (pAI ++ (ix.name ++ 32 :: (40 ::
        joinWith (lit ", ") (indexCols decl ix) ++ [41])))) := by
      simp [indexSQL, hu, lit, pAT, pAI]
    obtain ⟨s1, s2, s3, s4⟩ := pre (decl.tableName ++ (pAI ++ (ix.name ++ 32 :: (40 ::
        joinWith (lit ", ") (indexCols decl ix) ++ [41]))))
    rw [e, execSQL, s1, s2, s3, s4, strip_append]
    have w1 : word (decl.tableName ++ (pAI ++ (ix.name ++ 32 :: (40 :: joinWith (lit ", ") (indexCols decl ix) ++ [41])))) =
        decl.tableName := by
      rw [show pAI = 32 :: [65, 68, 68, 32, 73, 78, 68, 69, 88, 32] from rfl, List.cons_append]
      exact word_append _ _ h1
    simp only [execAlter, w1, List.drop_left, strip_append, word_append ix.name _ h2, addIndex]
  · have e : indexSQL .mysql decl ix = pAT ++ (decl.tableName ++ (pAU ++ (ix.name ++ 32 :: (40 ::
        joinWith (lit ", ") (indexCols decl ix) ++ [41])))) := by
      simp [indexSQL, hu, lit, pAT, pAU]
    obtain ⟨s1, s2, s3, s4⟩ := pre (decl.tableName ++ (pAU ++ (ix.name ++ 32 :: (40 ::
        joinWith (lit ", ") (indexCols decl ix) ++ [41]))))
    rw [e, execSQL, s1, s2, s3, s4, strip_append]
    have w1 : word (decl.tableName ++ (pAU ++ (ix.name ++ 32 :: (40 :: joinWith (lit ", ") (indexCols decl ix) ++ [41])))) =
        decl.tableName := by
      rw [show pAU = 32 :: [65, 68, 68, 32, 85, 78, 73, 81, 85, 69, 32] from rfl, List.cons_append]
      exact word_append _ _ h1
    have a1 : strip pAI (pAU ++ (ix.name ++ 32 :: (40 :: joinWith (lit ", ") (indexCols decl ix) ++ [41]))) = none := by
      simp [strip, pAI, pAU]
    simp only [execAlter, w1, List.drop_left, a1, strip_append, word_append ix.name _ h2, addIndex]

/-- the model's `CREATE [UNIQUE] INDEX` text (every dialect but MySQL) adds the index `(table, name)` -/
theorem exec_index (d : Dialect) (hd : d ≠ .mysql) (decl : Decl) (ix : Index) (c : Cat)
    (h1 : 32 ∉ decl.tableName) (h2 : 32 ∉ ix.name) :
    execSQL (indexSQL d decl ix) c =
      if (decl.tableName, ix.name) ∈ c.indexes then .error ()
      else .ok { c with indexes := c.indexes ++ [(decl.tableName, ix.name)] } := by
  have hfull : 32 ∉ decl.tableName ++ 95 :: ix.name := by
    simp only [List.mem_append, List.mem_cons]; rintro (h | h | h)
    · exact h1 h
    · cases h
    · exact h2 h
  have key : ∀ rest : Str, execIndex (decl.tableName ++ 95 :: ix.name ++ 32 :: 79 :: 78 :: 32 :: (decl.tableName ++ 32 :: rest)) c =
      if (decl.tableName, ix.name) ∈ c.indexes then .error ()
      else .ok { c with indexes := c.indexes ++ [(decl.tableName, ix.name)] } := by
    intro rest
    have w1 := word_append (decl.tableName ++ 95 :: ix.name) (79 :: 78 :: 32 :: (decl.tableName ++ 32 :: rest)) hfull
    simp only [execIndex]
    rw [w1]
    have d1 : (decl.tableName ++ 95 :: ix.name ++ 32 :: 79 :: 78 :: 32 :: (decl.tableName ++ 32 :: rest)).drop
        ((decl.tableName ++ 95 :: ix.name).length + 4) = decl.tableName ++ 32 :: rest := by
      rw [show (decl.tableName ++ 95 :: ix.name ++ 32 :: 79 :: 78 :: 32 :: (decl.tableName ++ 32 :: rest)) =
        (decl.tableName ++ 95 :: ix.name ++ [32, 79, 78, 32]) ++ (decl.tableName ++ 32 :: rest) by simp]
      rw [List.drop_left' (by simp; omega)]
    rw [d1, word_append _ _ h1]
    have d2 : (decl.tableName ++ 95 :: ix.name).drop (decl.tableName.length + 1) = ix.name := by
      rw [show decl.tableName ++ 95 :: ix.name = (decl.tableName ++ [95]) ++ ix.name by simp]
      rw [List.drop_left' (by simp)]
    rw [d2]
  have hsq : indexSQL d decl ix = indexSQL .sqlite decl ix := by
    cases d <;> first | exact absurd rfl hd | rfl
  rw [hsq]
  · cases hu : ix.unique
    · have e : indexSQL .sqlite decl ix = pCI ++ (decl.tableName ++ 95 :: ix.name ++ 32 :: 79 :: 78 :: 32 ::
          (decl.tableName ++ 32 :: (40 :: joinWith (lit ", ") (indexCols decl ix) ++ [41]))) := by
        simp [indexSQL, hu, lit, pCI]
      rw [e, execSQL]
      have s1 : strip pCT (pCI ++ (decl.tableName ++ 95 :: ix.name ++ 32 :: 79 :: 78 :: 32 ::
          (decl.tableName ++ 32 :: (40 :: joinWith (lit ", ") (indexCols decl ix) ++ [41])))) = none := by
        simp [strip, pCT, pCI]
      have s2 : strip pDT (pCI ++ (decl.tableName ++ 95 :: ix.name ++ 32 :: 79 :: 78 :: 32 ::
          (decl.tableName ++ 32 :: (40 :: joinWith (lit ", ") (indexCols decl ix) ++ [41])))) = none := by
        simp [strip, pDT, pCI]
      have s3 : strip pCUI (pCI ++ (decl.tableName ++ 95 :: ix.name ++ 32 :: 79 :: 78 :: 32 ::
          (decl.tableName ++ 32 :: (40 :: joinWith (lit ", ") (indexCols decl ix) ++ [41])))) = none := by
        simp [strip, pCUI, pCI]
      rw [s1, s2, s3, strip_append]
      exact key _
    · have e : indexSQL .sqlite decl ix = pCUI ++ (decl.tableName ++ 95 :: ix.name ++ 32 :: 79 :: 78 :: 32 ::
          (decl.tableName ++ 32 :: (40 :: joinWith (lit ", ") (indexCols decl ix) ++ [41]))) := by
        simp [indexSQL, hu, lit, pCUI]
      rw [e, execSQL]
      have s1 : strip pCT (pCUI ++ (decl.tableName ++ 95 :: ix.name ++ 32 :: 79 :: 78 :: 32 ::
          (decl.tableName ++ 32 :: (40 :: joinWith (lit ", ") (indexCols decl ix) ++ [41])))) = none := by
        simp [strip, pCT, pCUI]
      have s2 : strip pDT (pCUI ++ (decl.tableName ++ 95 :: ix.name ++ 32 :: 79 :: 78 :: 32 ::
          (decl.tableName ++ 32 :: (40 :: joinWith (lit ", ") (indexCols decl ix) ++ [41])))) = none := by
        simp [strip, pDT, pCUI]
      rw [s1, s2, strip_append]
      exact key _

/-- the index statement of every dialect adds the index `(table, name)` -/
theorem exec_index_all (d : Dialect) (decl : Decl) (ix : Index) (c : Cat)
    (h1 : 32 ∉ decl.tableName) (h2 : 32 ∉ ix.name) :
    execSQL (indexSQL d decl ix) c =
      if (decl.tableName, ix.name) ∈ c.indexes then .error ()
      else .ok { c with indexes := c.indexes ++ [(decl.tableName, ix.name)] } := by
  by_cases hd : d = .mysql
  · subst hd; exact exec_index_mysql decl ix c h1 h2
  · exact exec_index d hd decl ix c h1 h2

end SqlObjVerif.DdlX
