import SqlObjVerif.Model.DdlXW
import SqlObjVerif.Lemmas.DdlXBase
/-!
# C14 translation (stateful part) — what the database reader `execSQL` does with the texts the model generates
-/
namespace SqlObjVerif.DdlX
open SqlObjVerif.Ddl
open SqlObjVerif.PyDdl hiding Str isUpperC
open SqlObjVerif.PyDdl.Extracted

theorem word_append (t rest : Str) (h : 32 ∉ t) : word (t ++ 32 :: rest) = t := by
  induction t with
  | nil => simp [word]
  | cons a t ih =>
    have ha : a ≠ 32 := fun e => h (by simp [e])
    have ht : 32 ∉ t := fun e => h (by simp [e])
    simp only [word, List.cons_append] at ih ⊢
    rw [List.takeWhile_cons_of_pos (by simpa using ha), ih ht]

theorem word_self (t : Str) (h : 32 ∉ t) : word t = t := by
  induction t with
  | nil => rfl
  | cons a t ih =>
    have ha : a ≠ 32 := fun e => h (by simp [e])
    have ht : 32 ∉ t := fun e => h (by simp [e])
    simp only [word] at ih ⊢
    rw [List.takeWhile_cons_of_pos (by simpa using ha), ih ht]

theorem strip_append (p x : Str) : strip p (p ++ x) = some x := by
  simp [strip]

/-- `CREATE TABLE t (…` -/
theorem exec_create (t rest : Str) (c : Cat) (h : 32 ∉ t) :
    execSQL (pCT ++ t ++ 32 :: rest) c = if t ∈ c.tables then .error () else .ok (addTbl t c) := by
  rw [execSQL, List.append_assoc, strip_append]
  simp only [word_append t rest h]

/-- `DROP TABLE t` / `DROP TABLE t CASCADE` -/
theorem exec_drop (t : Str) (c : Cat) (h : 32 ∉ t) :
    execSQL (pDT ++ t) c = if t ∈ c.tables then .ok (dropTbl t c) else .error () := by
  have h1 : strip pCT (pDT ++ t) = none := by simp [strip, pCT, pDT]
  rw [execSQL, h1]
  simp only [strip_append, word_self t h]

theorem exec_drop' (t rest : Str) (c : Cat) (h : 32 ∉ t) :
    execSQL (pDT ++ t ++ 32 :: rest) c = if t ∈ c.tables then .ok (dropTbl t c) else .error () := by
  have h1 : strip pCT (pDT ++ t ++ 32 :: rest) = none := by simp [strip, pCT, pDT]
  rw [execSQL, h1, List.append_assoc, strip_append]
  simp only [word_append t rest h]

/-- a statement that starts with `ALTER TABLE ` leaves the catalogue as it is -/
theorem exec_alter (rest : Str) (c : Cat) : execSQL (lit "ALTER TABLE " ++ rest) c = .ok c := by
  simp [execSQL, strip, pCT, pDT, pCI, pCUI, lit]

/-- the model's `CREATE [UNIQUE] INDEX` text (every dialect but MySQL) adds the index `(table, name)` -/
theorem exec_index (d : Dialect) (hd : d ≠ .mysql) (decl : Decl) (ix : Index) (c : Cat)
    (h1 : 32 ∉ decl.tableName) (h2 : 32 ∉ ix.name) :
    execSQL (indexSQL d decl ix) c =
      if (decl.tableName, ix.name) ∈ c.indexes then .error ()
      else .ok { c with indexes := c.indexes ++ [(decl.tableName, ix.name)] } := by
  have hfull : 32 ∉ decl.tableName ++ 95 :: ix.name := by
    simp only [List.mem_append, List.mem_cons]; rintro (h | h | h)
    · exact h1 h
    · cases h
    · exact h2 h
  have key : ∀ rest : Str, execIndex (decl.tableName ++ 95 :: ix.name ++ 32 :: 79 :: 78 :: 32 :: (decl.tableName ++ 32 :: rest)) c =
      if (decl.tableName, ix.name) ∈ c.indexes then .error ()
      else .ok { c with indexes := c.indexes ++ [(decl.tableName, ix.name)] } := by
    intro rest
    have w1 := word_append (decl.tableName ++ 95 :: ix.name) (79 :: 78 :: 32 :: (decl.tableName ++ 32 :: rest)) hfull
    simp only [execIndex]
    rw [w1]
    have d1 : (decl.tableName ++ 95 :: ix.name ++ 32 :: 79 :: 78 :: 32 :: (decl.tableName ++ 32 :: rest)).drop
        ((decl.tableName ++ 95 :: ix.name).length + 4) = decl.tableName ++ 32 :: rest := by
      rw [show (decl.tableName ++ 95 :: ix.name ++ 32 :: 79 :: 78 :: 32 :: (decl.tableName ++ 32 :: rest)) =
        (decl.tableName ++ 95 :: ix.name ++ [32, 79, 78, 32]) ++ (decl.tableName ++ 32 :: rest) by simp]
      rw [List.drop_left' (by simp; omega)]
    rw [d1, word_append _ _ h1]
    have d2 : (decl.tableName ++ 95 :: ix.name).drop (decl.tableName.length + 1) = ix.name := by
      rw [show decl.tableName ++ 95 :: ix.name = (decl.tableName ++ [95]) ++ ix.name by simp]
      rw [List.drop_left' (by simp)]
    rw [d2]
  have hsq : indexSQL d decl ix = indexSQL .sqlite decl ix := by
    cases d <;> first | exact absurd rfl hd | rfl
  rw [hsq]
  · cases hu : ix.unique
    · have e : indexSQL .sqlite decl ix = pCI ++ (decl.tableName ++ 95 :: ix.name ++ 32 :: 79 :: 78 :: 32 ::
          (decl.tableName ++ 32 :: (40 :: joinWith (lit ", ") (indexCols decl ix) ++ [41]))) := by
        simp [indexSQL, hu, lit, pCI]
      rw [e, execSQL]
      have s1 : strip pCT (pCI ++ (decl.tableName ++ 95 :: ix.name ++ 32 :: 79 :: 78 :: 32 ::
          (decl.tableName ++ 32 :: (40 :: joinWith (lit ", ") (indexCols decl ix) ++ [41])))) = none := by
        simp [strip, pCT, pCI]
      have s2 : strip pDT (pCI ++ (decl.tableName ++ 95 :: ix.name ++ 32 :: 79 :: 78 :: 32 ::
          (decl.tableName ++ 32 :: (40 :: joinWith (lit ", ") (indexCols decl ix) ++ [41])))) = none := by
        simp [strip, pDT, pCI]
      have s3 : strip pCUI (pCI ++ (decl.tableName ++ 95 :: ix.name ++ 32 :: 79 :: 78 :: 32 ::
          (decl.tableName ++ 32 :: (40 :: joinWith (lit ", ") (indexCols decl ix) ++ [41])))) = none := by
        simp [strip, pCUI, pCI]
      rw [s1, s2, s3, strip_append]
      exact key _
    · have e : indexSQL .sqlite decl ix = pCUI ++ (decl.tableName ++ 95 :: ix.name ++ 32 :: 79 :: 78 :: 32 ::
          (decl.tableName ++ 32 :: (40 :: joinWith (lit ", ") (indexCols decl ix) ++ [41]))) := by
        simp [indexSQL, hu, lit, pCUI]
      rw [e, execSQL]
      have s1 : strip pCT (pCUI ++ (decl.tableName ++ 95 :: ix.name ++ 32 :: 79 :: 78 :: 32 ::
          (decl.tableName ++ 32 :: (40 :: joinWith (lit ", ") (indexCols decl ix) ++ [41])))) = none := by
        simp [strip, pCT, pCUI]
      have s2 : strip pDT (pCUI ++ (decl.tableName ++ 95 :: ix.name ++ 32 :: 79 :: 78 :: 32 ::
          (decl.tableName ++ 32 :: (40 :: joinWith (lit ", ") (indexCols decl ix) ++ [41])))) = none := by
        simp [strip, pDT, pCUI]
      rw [s1, s2, strip_append]
      exact key _

end SqlObjVerif.DdlX
