import SqlObjVerif.Model.Inherit
/-!
# C15 — lemmas about the class tree, the no-orphan invariant and the operations of `Model/Inherit.lean`
-/
namespace SqlObjVerif.Inherit

/-! ## the class tree -/

theorem ancF_eq {T : Tree} (h : T.WF) : ∀ f g c, c ≤ f → c ≤ g → ancF T f c = ancF T g c := by
  intro f
  induction f with
  | zero =>
    intro g c hc _
    have : c = 0 := by omega
    subst this
    cases g with
    | zero => rfl
    | succ g =>
      simp only [ancF]
      cases hp : T.parent 0 with
      | none => rfl
      | some p => have := (h.lt 0 p hp).1; omega
  | succ f ih =>
    intro g c hc hg
    cases g with
    | zero =>
      have : c = 0 := by omega
      subst this
      simp only [ancF]
      cases hp : T.parent 0 with
      | none => rfl
      | some p => have := (h.lt 0 p hp).1; omega
    | succ g =>
      simp only [ancF]
      cases hp : T.parent c with
      | none => rfl
      | some p =>
        have := (h.lt c p hp).1
        simp only
        rw [ih g p (by omega) (by omega)]

theorem anc_cons {T : Tree} (h : T.WF) {c p : Nat} (hp : T.parent c = some p) :
    T.anc c = c :: T.anc p := by
  have hlt := (h.lt c p hp).1
  unfold Tree.anc
  obtain ⟨k, rfl⟩ : ∃ k, c = k + 1 := ⟨c - 1, by omega⟩
  simp only [ancF, hp]
  rw [ancF_eq h k p p (by omega) (by omega)]

theorem anc_root {T : Tree} (_h : T.WF) {c : Nat} (hp : T.parent c = none) : T.anc c = [c] := by
  unfold Tree.anc
  cases c with
  | zero => rfl
  | succ k => simp only [ancF, hp]

/-- induction over the class tree, parents first -/
theorem Tree.WF.induction {T : Tree} (h : T.WF) {P : Nat → Prop}
    (root : ∀ c, T.parent c = none → P c)
    (step : ∀ c p, T.parent c = some p → P p → P c) (c : Nat) : P c := by
  induction c using Nat.strongRecOn with
  | _ c ih =>
    cases hp : T.parent c with
    | none => exact root c hp
    | some p => exact step c p hp (ih p (h.lt c p hp).1)

theorem self_mem_anc {T : Tree} (h : T.WF) (c : Nat) : c ∈ T.anc c := by
  cases hp : T.parent c with
  | none => simp [anc_root h hp]
  | some p => simp [anc_cons h hp]

theorem mem_anc_le {T : Tree} (h : T.WF) : ∀ c a, a ∈ T.anc c → a ≤ c := by
  intro c
  induction c using h.induction with
  | root c hp =>
    intro a ha
    simp [anc_root h hp] at ha; omega
  | step c p hp ih =>
    intro a ha
    simp only [anc_cons h hp, List.mem_cons] at ha
    have := (h.lt c p hp).1
    rcases ha with rfl | ha
    · omega
    · have := ih a ha; omega

theorem mem_anc_parent {T : Tree} (h : T.WF) : ∀ c a p, a ∈ T.anc c → T.parent a = some p → p ∈ T.anc c := by
  intro c
  induction c using h.induction with
  | root c hc =>
    intro a p ha hp
    simp [anc_root h hc] at ha; subst ha; simp [hc] at hp
  | step c q hq ih =>
    intro a p ha hp
    simp only [anc_cons h hq, List.mem_cons] at ha ⊢
    rcases ha with rfl | ha
    · rw [hq] at hp; cases hp; exact Or.inr (self_mem_anc h _)
    · exact Or.inr (ih a p ha hp)

theorem anc_trans {T : Tree} (h : T.WF) : ∀ b a c, a ∈ T.anc b → b ∈ T.anc c → a ∈ T.anc c := by
  intro b
  induction b using h.induction with
  | root b hb =>
    intro a c ha hbc
    simp [anc_root h hb] at ha; subst ha; exact hbc
  | step b p hp ih =>
    intro a c ha hbc
    simp only [anc_cons h hp, List.mem_cons] at ha
    rcases ha with rfl | ha
    · exact hbc
    · exact ih a c ha (mem_anc_parent h c b p hbc hp)

theorem anc_succ {T : Tree} (h : T.WF) : ∀ c a, a ∈ T.anc c → a ≠ c → ∃ s, s ∈ T.anc c ∧ T.parent s = some a := by
  intro c
  induction c using h.induction with
  | root c hc =>
    intro a ha hne
    simp [anc_root h hc] at ha; exact absurd ha hne
  | step c p hp ih =>
    intro a ha hne
    simp only [anc_cons h hp, List.mem_cons] at ha
    rcases ha with rfl | ha
    · exact absurd rfl hne
    · by_cases hap : a = p
      · subst hap; exact ⟨c, self_mem_anc h c, hp⟩
      · obtain ⟨s, hs, hps⟩ := ih a ha hap
        exact ⟨s, by simp [anc_cons h hp, hs], hps⟩

theorem root_cons {T : Tree} (h : T.WF) {c p : Nat} (hp : T.parent c = some p) : T.root c = T.root p := by
  unfold Tree.root
  rw [anc_cons h hp]
  cases hq : T.parent p with
  | none => simp [anc_root h hq]
  | some q => simp [anc_cons h hq, List.getLastD]

theorem root_self {T : Tree} (h : T.WF) {c : Nat} (hp : T.parent c = none) : T.root c = c := by
  simp [Tree.root, anc_root h hp]

theorem root_mem_anc {T : Tree} (h : T.WF) : ∀ c, T.root c ∈ T.anc c := by
  intro c
  induction c using h.induction with
  | root c hc =>
    rw [root_self h hc]; exact self_mem_anc h c
  | step c p hp ih =>
    rw [root_cons h hp, anc_cons h hp]; exact List.mem_cons_of_mem _ ih

theorem root_parent {T : Tree} (h : T.WF) : ∀ c, T.parent (T.root c) = none := by
  intro c
  induction c using h.induction with
  | root c hc =>
    rw [root_self h hc]; exact hc
  | step c p hp ih =>
    rw [root_cons h hp]; exact ih

theorem root_of_mem {T : Tree} (h : T.WF) : ∀ c a, a ∈ T.anc c → T.root a = T.root c := by
  intro c
  induction c using h.induction with
  | root c hc =>
    intro a ha
    simp [anc_root h hc] at ha; rw [ha]
  | step c p hp ih =>
    intro a ha
    simp only [anc_cons h hp, List.mem_cons] at ha
    rcases ha with rfl | ha
    · rfl
    · rw [root_cons h hp]; exact ih a ha


/-! ## specification predicates -/

/-- **the no-orphan invariant**: a row in a subclass table has its counterpart in the parent table,
    tagged with that subclass (`up`); a tag in a parent row names a direct subclass whose table has
    the row (`down`). -/
structure NoOrphan (T : Tree) (db : DB) : Prop where
  up : ∀ c p i, T.parent c = some p → db.has c i = true → ∃ r, db p i = some r ∧ r.child = some c
  down : ∀ p i r c, db p i = some r → r.child = some c → T.parent c = some p ∧ db.has c i = true

/-- `m` is a most-derived class of id `i`: it has the row and the row names no subclass -/
def LeafRow (db : DB) (m i : Nat) : Prop := ∃ r, db m i = some r ∧ r.child = none

theorem has_iff {db : DB} {c i : Nat} : db.has c i = true ↔ ∃ r, db c i = some r := by
  unfold DB.has; cases db c i <;> simp

theorem rows_up {T : Tree} (h : T.WF) {db : DB} (inv : NoOrphan T db) (i : Nat) :
    ∀ c, db.has c i = true → ∀ a, a ∈ T.anc c → db.has a i = true := by
  intro c
  induction c using h.induction with
  | root c hc =>
    intro hr a ha
    simp [anc_root h hc] at ha; subst ha; exact hr
  | step c p hp ih =>
    intro hr a ha
    simp only [anc_cons h hp, List.mem_cons] at ha
    rcases ha with rfl | ha
    · exact hr
    · obtain ⟨r, hr', _⟩ := inv.up c p i hp hr
      exact ih (has_iff.mpr ⟨r, hr'⟩) a ha

/-- every row of id `i` in the tree of a most-derived class `m` lies on `m`'s ancestor chain -/
theorem on_leaf_chain {T : Tree} (h : T.WF) {db : DB} (inv : NoOrphan T db) {m i : Nat}
    (hm : LeafRow db m i) :
    ∀ c, db.has c i = true → (∃ z, z ∈ T.anc c ∧ z ∈ T.anc m) → c ∈ T.anc m := by
  intro c
  induction c using h.induction with
  | root c hc =>
    intro _ ⟨z, hz, hzm⟩
    simp [anc_root h hc] at hz; subst hz; exact hzm
  | step c p hp ih =>
    intro hr ⟨z, hz, hzm⟩
    simp only [anc_cons h hp, List.mem_cons] at hz
    rcases hz with rfl | hz
    · exact hzm
    · obtain ⟨r, hrp, hrc⟩ := inv.up c p i hp hr
      have hpm : p ∈ T.anc m := ih (has_iff.mpr ⟨r, hrp⟩) ⟨z, hz, hzm⟩
      by_cases hpe : p = m
      · subst hpe
        obtain ⟨r', hr', hnone⟩ := hm
        rw [hrp] at hr'; cases hr'; rw [hrc] at hnone; cases hnone
      · obtain ⟨s, hs, hps⟩ := anc_succ h m p hpm hpe
        obtain ⟨rm, hrm, _⟩ := hm
        have hsrow := rows_up h inv i m (has_iff.mpr ⟨rm, hrm⟩) s hs
        obtain ⟨r2, hr2, hr2c⟩ := inv.up s p i hps hsrow
        rw [hrp] at hr2; cases hr2; rw [hrc] at hr2c; cases hr2c
        exact hs

theorem leaf_unique {T : Tree} (h : T.WF) {db : DB} (inv : NoOrphan T db) {m m' i : Nat}
    (hm : LeafRow db m i) (hm' : LeafRow db m' i) (hr : T.root m = T.root m') : m = m' := by
  have h1 : m' ∈ T.anc m := by
    obtain ⟨r, hr', _⟩ := hm'
    exact on_leaf_chain h inv hm m' (has_iff.mpr ⟨r, hr'⟩) ⟨T.root m', root_mem_anc h m', hr ▸ root_mem_anc h m⟩
  have h2 : m ∈ T.anc m' := by
    obtain ⟨r, hr', _⟩ := hm
    exact on_leaf_chain h inv hm' m (has_iff.mpr ⟨r, hr'⟩) ⟨T.root m, root_mem_anc h m, hr ▸ root_mem_anc h m'⟩
  have := mem_anc_le h _ _ h1
  have := mem_anc_le h _ _ h2
  omega

/-! ## create -/

theorem DB.set_same (db : DB) (c i : Nat) (r : Row) : (db.set c i r) c i = some r := by
  simp [DB.set]

theorem DB.set_ne_class (db : DB) {c c' : Nat} (i i' : Nat) (r : Row) (hne : c' ≠ c) :
    (db.set c i r) c' i' = db c' i' := by
  simp [DB.set, hne]

theorem DB.set_ne_id (db : DB) (c c' : Nat) {i i' : Nat} (r : Row) (hne : i' ≠ i) :
    (db.set c i r) c' i' = db c' i' := by
  simp [DB.set, hne]

theorem insertUp_other (tp : Bool) (id : Nat) (vals : Nat → Nat → Val) :
    ∀ (l : List Nat) (tag : Option Nat) (db : DB) (a j : Nat), (a ∉ l ∨ j ≠ id) →
      insertUp tp id vals l tag db a j = db a j := by
  intro l
  induction l with
  | nil => intros; rfl
  | cons x rest ih =>
    intro tag db a j hne
    simp only [insertUp, DB.set]
    have : ¬ (a = x ∧ j = id) := by
      rintro ⟨rfl, rfl⟩
      simp at hne
    rw [if_neg this]
    apply ih
    rcases hne with hne | hne
    · left; intro hmem; exact hne (List.mem_cons_of_mem _ hmem)
    · right; exact hne

theorem insertUp_mem (tp : Bool) (id : Nat) (vals : Nat → Nat → Val) :
    ∀ (l : List Nat) (tag : Option Nat) (db : DB) (a : Nat), a ∈ l →
      ∃ r, insertUp tp id vals l tag db a id = some r ∧ r.vals = vals a := by
  intro l
  induction l with
  | nil => intro _ _ _ h; cases h
  | cons x rest ih =>
    intro tag db a ha
    simp only [insertUp]
    by_cases hax : a = x
    · subst hax; rw [DB.set_same]; exact ⟨_, rfl, rfl⟩
    · rw [DB.set_ne_class _ _ _ _ hax]
      rcases List.mem_cons.mp ha with rfl | hr
      · exact absurd rfl hax
      · exact ih _ db a hr

/-- the tags written by `_create` along the chain of `c` -/
theorem insertUp_child {T : Tree} (h : T.WF) (id : Nat) (vals : Nat → Nat → Val) (db : DB) :
    ∀ c (tag : Option Nat) a, a ∈ T.anc c →
      ∃ r, insertUp true id vals (T.anc c) tag db a id = some r ∧
        ((a = c ∧ r.child = tag) ∨
         (a ≠ c ∧ ∃ s, s ∈ T.anc c ∧ T.parent s = some a ∧ r.child = some s)) := by
  intro c
  induction c using h.induction with
  | root c hc =>
    intro tag a ha
    simp [anc_root h hc] at ha; subst ha
    simp [anc_root h hc, insertUp, DB.set]
  | step c p hp ih =>
    intro tag a ha
    have hlt := (h.lt c p hp).1
    simp only [anc_cons h hp, List.mem_cons] at ha
    rcases ha with rfl | ha
    · simp [anc_cons h hp, insertUp, DB.set]
    · have hle := mem_anc_le h p a ha
      have hne : a ≠ c := by omega
      obtain ⟨r, hr, hcase⟩ := ih (some c) a ha
      refine ⟨r, ?_, Or.inr ⟨hne, ?_⟩⟩
      · simp only [anc_cons h hp, insertUp]
        rw [DB.set_ne_class _ _ _ _ hne]
        simpa using hr
      · rcases hcase with ⟨rfl, hc'⟩ | ⟨_, s, hs, hps, hcs⟩
        · exact ⟨c, by simp [anc_cons h hp], hp, hc'⟩
        · exact ⟨s, by simp [anc_cons h hp, hs], hps, hcs⟩


theorem anc_linear {T : Tree} (h : T.WF) : ∀ k s c', s ∈ T.anc k → c' ∈ T.anc k →
    s ∈ T.anc c' ∨ c' ∈ T.anc s := by
  intro k
  induction k using h.induction with
  | root k hk =>
    intro s c' hs hc'
    simp [anc_root h hk] at hs hc'; subst hs; subst hc'; exact Or.inl (self_mem_anc h _)
  | step k q hq ih =>
    intro s c' hs hc'
    simp only [anc_cons h hq, List.mem_cons] at hs hc'
    rcases hs with rfl | hs
    · rcases hc' with rfl | hc'
      · exact Or.inl (self_mem_anc h _)
      · right; rw [anc_cons h hq]; exact List.mem_cons_of_mem _ hc'
    · rcases hc' with rfl | hc'
      · left; rw [anc_cons h hq]; exact List.mem_cons_of_mem _ hs
      · exact ih s c' hs hc'

/-- a class has at most one child on a given ancestor chain -/
theorem child_on_chain_unique {T : Tree} (h : T.WF) {k s c' p : Nat} (hs : s ∈ T.anc k)
    (hc' : c' ∈ T.anc k) (hps : T.parent s = some p) (hpc : T.parent c' = some p) : s = c' := by
  rcases anc_linear h k s c' hs hc' with hsc | hsc
  · rw [anc_cons h hpc] at hsc
    rcases List.mem_cons.mp hsc with e | hsc
    · exact e
    · have := mem_anc_le h _ _ hsc; have := (h.lt s _ hps).1; omega
  · rw [anc_cons h hps] at hsc
    rcases List.mem_cons.mp hsc with e | hsc
    · exact e.symm
    · have := mem_anc_le h _ _ hsc; have := (h.lt c' _ hpc).1; omega

/-- creating an instance of `c` under an id that is fresh on `c`'s chain keeps the invariant -/
theorem insert_preserves {T : Tree} (h : T.WF) {db : DB} (inv : NoOrphan T db) (c id : Nat)
    (vals : Nat → Nat → Val) (fresh : ∀ a, a ∈ T.anc c → db a id = none) :
    NoOrphan T (insertUp true id vals (T.anc c) none db) := by
  constructor
  · intro c' p' i hp' hrow
    by_cases hin : i = id ∧ c' ∈ T.anc c
    · obtain ⟨rfl, hc'⟩ := hin
      have hp'in := mem_anc_parent h c c' p' hc' hp'
      obtain ⟨r, hr, hcase⟩ := insertUp_child h i vals db c none p' hp'in
      refine ⟨r, hr, ?_⟩
      rcases hcase with ⟨rfl, _⟩ | ⟨_, s, hs, hps, hcs⟩
      · have := mem_anc_le h _ _ hc'
        have := (h.lt c' _ hp').1
        omega
      · have : s = c' := child_on_chain_unique h hs hc' hps hp'
        subst this; exact hcs
    · have hold : insertUp true id vals (T.anc c) none db c' i = db c' i := by
        apply insertUp_other
        by_cases hi : i = id
        · left; intro hm; exact hin ⟨hi, hm⟩
        · right; exact hi
      have hrow' : db.has c' i = true := by unfold DB.has at hrow ⊢; rw [← hold]; exact hrow
      obtain ⟨r, hr, hrc⟩ := inv.up c' p' i hp' hrow'
      refine ⟨r, ?_, hrc⟩
      rw [← hr]
      apply insertUp_other
      by_cases hi : i = id
      · left; intro hm; subst hi; rw [fresh p' hm] at hr; cases hr
      · right; exact hi
  · intro p i r c' hr hrc
    by_cases hin : i = id ∧ p ∈ T.anc c
    · obtain ⟨rfl, hpin⟩ := hin
      obtain ⟨r', hr', hcase⟩ := insertUp_child h i vals db c none p hpin
      rw [hr] at hr'; cases hr'
      rcases hcase with ⟨_, hnone⟩ | ⟨_, s, hs, hps, hcs⟩
      · rw [hrc] at hnone; cases hnone
      · rw [hrc] at hcs; cases hcs
        refine ⟨hps, ?_⟩
        obtain ⟨r2, hr2, _⟩ := insertUp_mem true i vals (T.anc c) none db c' hs
        exact has_iff.mpr ⟨r2, hr2⟩
    · have hold : insertUp true id vals (T.anc c) none db p i = db p i := by
        apply insertUp_other
        by_cases hi : i = id
        · left; intro hm; exact hin ⟨hi, hm⟩
        · right; exact hi
      rw [hold] at hr
      obtain ⟨hpar, hrow⟩ := inv.down p i r c' hr hrc
      refine ⟨hpar, ?_⟩
      by_cases hin' : i = id ∧ c' ∈ T.anc c
      · obtain ⟨rfl, hm⟩ := hin'
        obtain ⟨r2, hr2, _⟩ := insertUp_mem true i vals (T.anc c) none db c' hm
        exact has_iff.mpr ⟨r2, hr2⟩
      · unfold DB.has at hrow ⊢
        rw [insertUp_other]
        · exact hrow
        · by_cases hi : i = id
          · left; intro hm; exact hin' ⟨hi, hm⟩
          · right; exact hi


/-! ## attribute writes -/

theorem updateRow_spec (db : DB) (a i k : Nat) (v : Val) (c j : Nat) :
    updateRow db a i k v c j =
      if c = a ∧ j = i then (db a i).map (fun r => { r with vals := fun k' => if k' = k then v else r.vals k' })
      else db c j := by
  unfold updateRow
  cases hr : db a i with
  | none =>
    by_cases hc : c = a ∧ j = i
    · obtain ⟨rfl, rfl⟩ := hc; simp [hr]
    · simp [hc]
  | some r =>
    by_cases hc : c = a ∧ j = i
    · obtain ⟨rfl, rfl⟩ := hc; simp [DB.set]
    · simp [DB.set, hc]

/-- an UPDATE of a value column changes neither which rows exist nor their tags -/
def SameShape (db db' : DB) : Prop :=
  ∀ c j, (db' c j).map (·.child) = (db c j).map (·.child)

theorem SameShape.refl (db : DB) : SameShape db db := fun _ _ => rfl

theorem SameShape.trans {a b c : DB} (h1 : SameShape a b) (h2 : SameShape b c) : SameShape a c :=
  fun x j => (h2 x j).trans (h1 x j)

theorem updateRow_shape (db : DB) (a i k : Nat) (v : Val) : SameShape db (updateRow db a i k v) := by
  intro c j
  rw [updateRow_spec]
  by_cases hc : c = a ∧ j = i
  · obtain ⟨rfl, rfl⟩ := hc
    cases db c j <;> simp
  · simp [hc]

theorem SameShape.has {db db' : DB} (hs : SameShape db db') (c j : Nat) : db'.has c j = db.has c j := by
  have := hs c j
  unfold DB.has
  cases h1 : db' c j <;> cases h2 : db c j <;> simp [h1, h2] at this ⊢

theorem SameShape.noOrphan {T : Tree} {db db' : DB} (hs : SameShape db db') (inv : NoOrphan T db) :
    NoOrphan T db' := by
  constructor
  · intro c p i hp hrow
    rw [hs.has] at hrow
    obtain ⟨r, hr, hrc⟩ := inv.up c p i hp hrow
    have := hs p i
    rw [hr] at this
    cases h' : db' p i with
    | none => simp [h'] at this
    | some r' =>
      simp [h'] at this
      exact ⟨r', rfl, by rw [this, hrc]⟩
  · intro p i r c hr hrc
    have := hs p i
    rw [hr] at this
    cases h' : db p i with
    | none => simp [h'] at this
    | some r' =>
      simp [h'] at this
      have := inv.down p i r' c h' (by rw [← this, hrc])
      exact ⟨this.1, by rw [hs.has]; exact this.2⟩

theorem foldl_update_shape (i : Nat) (kvs : List (Nat × Nat × Val)) :
    ∀ db : DB, SameShape db (kvs.foldl (fun d x => updateRow d x.1 i x.2.1 x.2.2) db) := by
  induction kvs with
  | nil => intro db; exact SameShape.refl db
  | cons x rest ih =>
    intro db
    exact (updateRow_shape db x.1 i x.2.1 x.2.2).trans (ih _)

/-! ## destroy -/

theorem deleteUp_spec (i : Nat) : ∀ (l : List Nat) (db : DB) (a j : Nat),
    deleteUp i l db a j = if j = i ∧ a ∈ l then none else db a j := by
  intro l
  induction l with
  | nil => intro db a j; simp [deleteUp]
  | cons x rest ih =>
    intro db a j
    simp only [deleteUp, DB.del, ih, List.mem_cons]
    by_cases h1 : a = x <;> by_cases h2 : j = i <;> simp [h1, h2]

theorem deleteDown_spec (i : Nat) : ∀ (l : List Nat) (db : DB) (a j : Nat),
    deleteDown i l db a j = if j = i ∧ a ∈ l then none else db a j := by
  intro l
  induction l with
  | nil => intro db a j; simp [deleteDown]
  | cons x rest ih =>
    intro db a j
    simp only [deleteDown, ih, DB.del, List.mem_cons]
    by_cases h1 : a = x <;> by_cases h2 : j = i <;> simp [h1, h2]

/-- whichever order the DELETEs are sent in, the rows of the whole chain are gone -/
theorem destroyG_spec (pf : Bool) (T : Tree) (db : DB) (m i a j : Nat) :
    destroyG true pf T db m i a j = if j = i ∧ a ∈ T.anc m then none else db a j := by
  unfold destroyG
  cases pf <;> simp [deleteUp_spec, deleteDown_spec]

/-- destroying a most-derived instance keeps the invariant -/
theorem destroy_preserves {T : Tree} (h : T.WF) {db : DB} (inv : NoOrphan T db) (pf : Bool) {m i : Nat}
    (hm : LeafRow db m i) : NoOrphan T (destroyG true pf T db m i) := by
  have hmrow : db.has m i = true := by obtain ⟨r, hr, _⟩ := hm; exact has_iff.mpr ⟨r, hr⟩
  constructor
  · intro c' p' j hp' hrow
    unfold DB.has at hrow
    rw [destroyG_spec] at hrow
    by_cases hin : j = i ∧ c' ∈ T.anc m
    · simp [hin] at hrow
    · rw [if_neg hin] at hrow
      obtain ⟨r, hr, hrc⟩ := inv.up c' p' j hp' hrow
      refine ⟨r, ?_, hrc⟩
      rw [destroyG_spec]
      by_cases hin' : j = i ∧ p' ∈ T.anc m
      · exfalso
        obtain ⟨rfl, hpm⟩ := hin'
        by_cases hpe : p' = m
        · subst hpe
          obtain ⟨r', hr', hnone⟩ := hm
          rw [hr] at hr'; cases hr'; rw [hrc] at hnone; cases hnone
        · obtain ⟨s, hs, hps⟩ := anc_succ h m p' hpm hpe
          have hsrow := rows_up h inv j m hmrow s hs
          obtain ⟨r2, hr2, hr2c⟩ := inv.up s p' j hps hsrow
          rw [hr] at hr2; cases hr2; rw [hrc] at hr2c; cases hr2c
          exact hin ⟨rfl, hs⟩
      · rw [if_neg hin']; exact hr
  · intro p j r c' hr hrc
    rw [destroyG_spec] at hr
    by_cases hin : j = i ∧ p ∈ T.anc m
    · simp [hin] at hr
    · rw [if_neg hin] at hr
      obtain ⟨hpar, hrow⟩ := inv.down p j r c' hr hrc
      refine ⟨hpar, ?_⟩
      unfold DB.has
      rw [destroyG_spec]
      by_cases hin' : j = i ∧ c' ∈ T.anc m
      · exfalso
        exact hin ⟨hin'.1, mem_anc_parent h m c' p hin'.2 hpar⟩
      · rw [if_neg hin']; exact hrow


/-! ## get -/

theorem descend_spec {T : Tree} (h : T.WF) {db : DB} (inv : NoOrphan T db) (sh : Bool) (i : Nat) :
    ∀ fuel e, T.n - e < fuel → db.has e i = true →
      ∃ m, descend sh T db i fuel e = .ok m ∧ LeafRow db m i ∧ e ∈ T.anc m := by
  intro fuel
  induction fuel with
  | zero => intro e hlt; omega
  | succ f ih =>
    intro e hlt hrow
    obtain ⟨r, hr⟩ := has_iff.mp hrow
    unfold descend
    simp only [hr]
    cases hc : r.child with
    | none => exact ⟨e, rfl, ⟨r, hr, hc⟩, self_mem_anc h e⟩
    | some c =>
      obtain ⟨hpar, hcrow⟩ := inv.down e i r c hr hc
      have hlt' := h.lt c e hpar
      simp only [hpar, if_true]
      by_cases hsh : (sh && T.colless c) = true
      · simp only [hsh, if_true]
        refine ⟨c, rfl, ?_, by rw [anc_cons h hpar]; exact List.mem_cons_of_mem _ (self_mem_anc h e)⟩
        obtain ⟨rc, hrc⟩ := has_iff.mp hcrow
        refine ⟨rc, hrc, ?_⟩
        cases hcc : rc.child with
        | none => rfl
        | some c2 =>
          exfalso
          have hp2 := (inv.down c i rc c2 hrc hcc).1
          have hinh := h.inhP c2 c hp2
          simp [Tree.colless, hinh] at hsh
      · simp only [hsh]
        obtain ⟨m, hm, hleaf, hcm⟩ := ih c (by omega) hcrow
        exact ⟨m, by simpa using hm, hleaf, mem_anc_parent h m c e hcm hpar⟩

theorem get_notFound {T : Tree} {db : DB} {e i : Nat} (hno : db e i = none) :
    get T db e i = .notFound := by
  simp [get, descend, hno]

theorem get_ok {T : Tree} (h : T.WF) {db : DB} (inv : NoOrphan T db) {e i : Nat}
    (hrow : db.has e i = true) :
    ∃ m, get T db e i = .ok m ∧ LeafRow db m i ∧ e ∈ T.anc m := by
  obtain ⟨m, hm, hleaf, hem⟩ := descend_spec h inv Extracted.shuntColless i (T.n + 1) e (by omega) hrow
  refine ⟨m, ?_, hleaf, hem⟩
  unfold get
  simp only [hm]
  have hmrow : db.has m i = true := by obtain ⟨r, hr, _⟩ := hleaf; exact has_iff.mpr ⟨r, hr⟩
  have : (T.anc m).all (fun a => a == m || db.has a i) = true := by
    rw [List.all_eq_true]
    intro a ha
    simp [rows_up h inv i m hmrow a ha]
  simp [this]

/-- the instance is the same whichever level of its chain is used as the entry point -/
theorem get_of_leaf {T : Tree} (h : T.WF) {db : DB} (inv : NoOrphan T db) {m e i : Nat}
    (hleaf : LeafRow db m i) (hem : e ∈ T.anc m) : get T db e i = .ok m := by
  have hmrow : db.has m i = true := by obtain ⟨r, hr, _⟩ := hleaf; exact has_iff.mpr ⟨r, hr⟩
  obtain ⟨m', hget, hleaf', hem'⟩ := get_ok h inv (rows_up h inv i m hmrow e hem)
  have : m' = m := leaf_unique h inv hleaf' hleaf
    ((root_of_mem h m' e hem').symm.trans (root_of_mem h m e hem))
  rw [hget, this]

theorem get_ok_inv {T : Tree} (h : T.WF) {db : DB} (inv : NoOrphan T db) {e i m : Nat}
    (hget : get T db e i = .ok m) : LeafRow db m i ∧ e ∈ T.anc m ∧ db.has e i = true := by
  cases hrow : db e i with
  | none => rw [get_notFound hrow] at hget; cases hget
  | some r =>
    have hh : db.has e i = true := has_iff.mpr ⟨r, hrow⟩
    obtain ⟨m', hget', hleaf, hem⟩ := get_ok h inv hh
    rw [hget] at hget'; cases hget'
    exact ⟨hleaf, hem, hh⟩

/-! ## histories -/

theorem mem_dropWhile_of_pos {α : Type} (p : α → Bool) : ∀ (l : List α) (x : α), x ∈ l → p x = true →
    x ∈ l.dropWhile (fun a => !p a) := by
  intro l
  induction l with
  | nil => intro x h; cases h
  | cons y rest ih =>
    intro x hx hp
    rw [List.dropWhile_cons]
    by_cases hy : p y = true
    · simp [hy]; simpa using hx
    · have hy' : p y = false := by simpa using hy
      simp only [hy', Bool.not_false, if_true]
      rcases List.mem_cons.mp hx with rfl | hr
      · rw [hp] at hy'; cases hy'
      · exact ih x hr hp

theorem dropWhile_subset {α : Type} (p : α → Bool) (l : List α) : ∀ x, x ∈ l.dropWhile p → x ∈ l :=
  fun _ hx => (List.dropWhile_sublist p).subset hx

/-- an id that is fresh in the root table is fresh at every level of that tree -/
theorem fresh_tree {T : Tree} (h : T.WF) {db : DB} (inv : NoOrphan T db) {c id : Nat}
    (hfresh : db (T.root c) id = none) : ∀ a, T.root a = T.root c → db a id = none := by
  intro a ha
  cases hr : db a id with
  | none => rfl
  | some r =>
    have := rows_up h inv id a (has_iff.mpr ⟨r, hr⟩) (T.root a) (root_mem_anc h a)
    rw [ha] at this
    simp [DB.has, hfresh] at this

theorem create_fresh {T : Tree} (h : T.WF) {db : DB} (inv : NoOrphan T db) {c id : Nat}
    (hfresh : db (T.root c) id = none) (vals : Nat → Nat → Val) :
    create T db c id vals = (insertUp true id vals (T.anc c) none db, .ok) := by
  unfold create
  have : (T.anc c).any (fun a => db.has a id) = false := by
    rw [List.any_eq_false]
    intro a ha
    simp [DB.has, fresh_tree h inv hfresh a (root_of_mem h c a ha)]
  rw [this]
  rfl

theorem create_preserves {T : Tree} (h : T.WF) {db : DB} (inv : NoOrphan T db) (c id : Nat)
    (vals : Nat → Nat → Val) : NoOrphan T (create T db c id vals).1 := by
  unfold create
  by_cases hd : (T.anc c).any (fun a => db.has a id) = true
  · simp only [hd, if_true]; exact inv
  · simp only [hd]
    have ht : Extracted.createTagsParent = true := rfl
    rw [ht]
    apply insert_preserves h inv
    intro a ha
    have : (T.anc c).any (fun a => db.has a id) = false := by simpa using hd
    rw [List.any_eq_false] at this
    have := this a ha
    unfold DB.has at this
    cases hh : db a id with
    | none => rfl
    | some r => simp [hh] at this

theorem leafRow_shape {db db' : DB} (hs : SameShape db db') {m i : Nat} (hl : LeafRow db m i) :
    LeafRow db' m i := by
  obtain ⟨r, hr, hc⟩ := hl
  have := hs m i
  rw [hr] at this
  cases h' : db' m i with
  | none => simp [h'] at this
  | some r' => simp [h'] at this; exact ⟨r', h', by rw [this, hc]⟩

theorem noOrphan_empty (T : Tree) : NoOrphan T DB.empty :=
  ⟨fun _ _ _ _ hr => by simp [DB.has, DB.empty] at hr, fun _ _ _ _ hr => by simp [DB.empty] at hr⟩

/-! ## select -/

/-- with no orphans, the join over the needed tables plus the `childName` filter says exactly
    "the row exists in `c`'s table" -/
theorem joinDown_kind_eq {T : Tree} (h : T.WF) {db : DB} (inv : NoOrphan T db) (c i : Nat)
    (needed : Nat → Bool) (hroot : needed (T.root c) = true) :
    (joinDown T db c i needed && kindOk T db c i) = db.has c i := by
  unfold joinDown kindOk
  cases hrow : db.has c i with
  | true =>
    have hall : ((T.anc c).dropWhile (fun a => !needed a)).all (fun a => db.has a i) = true := by
      rw [List.all_eq_true]
      intro a ha
      exact rows_up h inv i c hrow a (dropWhile_subset _ _ a ha)
    rw [hall]
    cases hp : T.parent c with
    | none => rfl
    | some p =>
      obtain ⟨r, hr, hrc⟩ := inv.up c p i hp hrow
      simp [hr, hrc]
  | false =>
    cases hp : T.parent c with
    | none =>
      have hc : c ∈ (T.anc c).dropWhile (fun a => !needed a) :=
        mem_dropWhile_of_pos needed _ c (self_mem_anc h c) (by rw [← root_self h hp]; exact hroot)
      have : ((T.anc c).dropWhile (fun a => !needed a)).all (fun a => db.has a i) = false := by
        rw [List.all_eq_false]
        exact ⟨c, hc, by simp [hrow]⟩
      rw [this]; rfl
    | some p =>
      dsimp only
      cases hr : db p i with
      | none => simp
      | some r =>
        by_cases hrc : r.child = some c
        · have := (inv.down p i r c hr hrc).2
          rw [hrow] at this; cases this
        · have : (r.child == some c) = false := by simpa using hrc
          simp [this]

theorem joinUp_eq {T : Tree} (h : T.WF) {db : DB} (inv : NoOrphan T db) (c i : Nat)
    (needed : Nat → Bool) (hc : needed c = true) : joinUp T db c i needed = db.has c i := by
  unfold joinUp
  have hmem : c ∈ ((T.anc c).reverse.dropWhile (fun a => !needed a)).reverse := by
    rw [List.mem_reverse]
    exact mem_dropWhile_of_pos needed _ c (by rw [List.mem_reverse]; exact self_mem_anc h c) hc
  cases hrow : db.has c i with
  | true =>
    rw [List.all_eq_true]
    intro a ha
    rw [List.mem_reverse] at ha
    have := dropWhile_subset _ _ a ha
    rw [List.mem_reverse] at this
    exact rows_up h inv i c hrow a this
  | false =>
    rw [List.all_eq_false]
    exact ⟨c, hmem, by simp [hrow]⟩

theorem selectRow_eq {T : Tree} (h : T.WF) {db : DB} (inv : NoOrphan T db) (c : Nat) (f : Filter) (i : Nat) :
    selectRow T db c f i =
      if (db.has c i && f.eval db i) = true then some (get T db (T.root c) i) else none := by
  unfold selectRow
  rw [joinDown_kind_eq h inv c i (selNeeded T c f) (by simp [selNeeded])]

theorem selectByRow_eq {T : Tree} (h : T.WF) {db : DB} (inv : NoOrphan T db) (c : Nat)
    (kvs : List (Nat × Nat × Val)) (i : Nat) :
    selectByRow T db c kvs i =
      if (db.has c i && kvsHold db i kvs) = true then some (get T db c i) else none := by
  unfold selectByRow
  rw [joinUp_eq h inv c i (byNeeded c kvs) (by simp [byNeeded])]

/-! ## class-level bulk deletes -/

/-- the invariant speaks about one id at a time -/
theorem noOrphan_of_pointwise {T : Tree} {db' : DB}
    (hp : ∀ j, ∃ d, NoOrphan T d ∧ ∀ x, db' x j = d x j) : NoOrphan T db' := by
  constructor
  · intro c p i hpar hrow
    obtain ⟨d, invd, hd⟩ := hp i
    have : d.has c i = true := by unfold DB.has at hrow ⊢; rw [← hd]; exact hrow
    obtain ⟨r, hr, hrc⟩ := invd.up c p i hpar this
    exact ⟨r, by rw [hd]; exact hr, hrc⟩
  · intro p i r c hr hrc
    obtain ⟨d, invd, hd⟩ := hp i
    rw [hd] at hr
    obtain ⟨hpar, hrow⟩ := invd.down p i r c hr hrc
    exact ⟨hpar, by unfold DB.has at hrow ⊢; rw [hd]; exact hrow⟩

theorem deleteSel_spec (T : Tree) (db : DB) (c : Nat) (sel : Nat → Option Res) (c' j : Nat) :
    deleteSel T db c sel c' j =
      match sel j with
      | some (.ok m) => if c' ∈ T.anc m then none else db c' j
      | _ => db c' j := by
  have hb : Extracted.bulkDeleteDestroys = true := rfl
  have hw : Extracted.destroyWalksParents = true := rfl
  unfold deleteSel
  simp only [hb, if_true]
  cases hs : sel j with
  | none => rfl
  | some res =>
    cases res with
    | ok m => simp [destroyInst, hw, destroyG_spec]
    | notFound => rfl
    | keyError => rfl

theorem deleteSel_preserves {T : Tree} (h : T.WF) {db : DB} (inv : NoOrphan T db) (c : Nat)
    (sel : Nat → Option Res) (hsel : ∀ j m, sel j = some (.ok m) → LeafRow db m j) :
    NoOrphan T (deleteSel T db c sel) := by
  apply noOrphan_of_pointwise
  intro j
  cases hs : sel j with
  | none => exact ⟨db, inv, fun x => by rw [deleteSel_spec, hs]⟩
  | some res =>
    cases res with
    | ok m =>
      refine ⟨destroyG true true T db m j, destroy_preserves h inv true (hsel j m hs), ?_⟩
      intro x
      rw [deleteSel_spec, hs, destroyG_spec]
      simp
    | notFound => exact ⟨db, inv, fun x => by rw [deleteSel_spec, hs]⟩
    | keyError => exact ⟨db, inv, fun x => by rw [deleteSel_spec, hs]⟩

theorem selectRow_ok {T : Tree} (h : T.WF) {db : DB} (inv : NoOrphan T db) {c : Nat} {f : Filter}
    {j : Nat} {res : Res} (hs : selectRow T db c f j = some res) :
    db.has c j = true ∧ f.eval db j = true ∧ ∃ m, res = .ok m ∧ LeafRow db m j ∧ c ∈ T.anc m := by
  rw [selectRow_eq h inv] at hs
  by_cases hc : (db.has c j && f.eval db j) = true
  · simp only [hc, if_true, Option.some.injEq] at hs
    simp only [Bool.and_eq_true] at hc
    have hroot := rows_up h inv j c hc.1 (T.root c) (root_mem_anc h c)
    obtain ⟨m, hget, hleaf, hrm⟩ := get_ok h inv hroot
    exact ⟨hc.1, hc.2, m, by rw [← hs, hget], hleaf,
      on_leaf_chain h inv hleaf c hc.1 ⟨T.root c, root_mem_anc h c, hrm⟩⟩
  · simp [hc] at hs

theorem selectByRow_ok {T : Tree} (h : T.WF) {db : DB} (inv : NoOrphan T db) {c : Nat}
    {kvs : List (Nat × Nat × Val)} {j : Nat} {res : Res} (hs : selectByRow T db c kvs j = some res) :
    db.has c j = true ∧ kvsHold db j kvs = true ∧ ∃ m, res = .ok m ∧ LeafRow db m j ∧ c ∈ T.anc m := by
  rw [selectByRow_eq h inv] at hs
  by_cases hc : (db.has c j && kvsHold db j kvs) = true
  · simp only [hc, if_true, Option.some.injEq] at hs
    simp only [Bool.and_eq_true] at hc
    obtain ⟨m, hget, hleaf, hcm⟩ := get_ok h inv hc.1
    exact ⟨hc.1, hc.2, m, by rw [← hs, hget], hleaf, hcm⟩
  · simp [hc] at hs

theorem deleteMany_preserves {T : Tree} (h : T.WF) {db : DB} (inv : NoOrphan T db) (c : Nat) (f : Filter) :
    NoOrphan T (deleteMany T db c f) := by
  apply deleteSel_preserves h inv
  intro j m hs
  obtain ⟨_, _, m', hm', hleaf, _⟩ := selectRow_ok h inv hs
  cases hm'; exact hleaf

theorem deleteBy_preserves {T : Tree} (h : T.WF) {db : DB} (inv : NoOrphan T db) (c : Nat)
    (kvs : List (Nat × Nat × Val)) : NoOrphan T (deleteBy T db c kvs) := by
  apply deleteSel_preserves h inv
  intro j m hs
  obtain ⟨_, _, m', hm', hleaf, _⟩ := selectByRow_ok h inv hs
  cases hm'; exact hleaf

/-! ## histories -/

/-! ### destroy refused by a restriction -/

theorem reverse_anc_head {T : Tree} (h : T.WF) (m : Nat) :
    ∃ rest, (T.anc m).reverse = T.root m :: rest := by
  induction m using h.induction with
  | root c hc => exact ⟨[], by simp [anc_root h hc, root_self h hc]⟩
  | step c p hp ih =>
    obtain ⟨rest, hr⟩ := ih
    exact ⟨rest ++ [c], by rw [anc_cons h hp, List.reverse_cons, hr, root_cons h hp]; rfl⟩

theorem guardedDelete_unblocked (i : Nat) (blocked : Nat → Bool) :
    ∀ (l : List Nat) (db : DB), (∀ a, a ∈ l → blocked a = false) →
      guardedDelete i blocked l db = (deleteDown i l db, true) := by
  intro l
  induction l with
  | nil => intro db _; rfl
  | cons x rest ih =>
    intro db hb
    simp only [guardedDelete, hb x (List.mem_cons_self ..), deleteDown]
    exact ih _ (fun a ha => hb a (List.mem_cons_of_mem _ ha))

/-- a restriction on the root level refuses before any DELETE (the parent is destroyed first) -/
theorem destroyGuarded_root_blocked {T : Tree} (h : T.WF) (db : DB) (m i : Nat) (blocked : Nat → Bool)
    (hb : blocked (T.root m) = true) : destroyGuarded T db m i blocked = (db, .integrity) := by
  have hw : Extracted.destroyWalksParents = true := rfl
  have hp : Extracted.destroyParentFirst = true := rfl
  obtain ⟨rest, hr⟩ := reverse_anc_head h m
  simp [destroyGuarded, deleteOrder, hw, hp, hr, guardedDelete, hb]

theorem destroyGuarded_unblocked (T : Tree) (db : DB) (m i : Nat) (blocked : Nat → Bool)
    (hb : ∀ a, a ∈ T.anc m → blocked a = false) :
    (destroyGuarded T db m i blocked).2 = .ok ∧
    ∀ c j, (destroyGuarded T db m i blocked).1 c j = destroyInst T db m i c j := by
  have hw : Extracted.destroyWalksParents = true := rfl
  have hall : ∀ a, a ∈ deleteOrder T m → blocked a = false := by
    intro a ha
    apply hb
    simp only [deleteOrder, hw, if_true] at ha
    split at ha
    · exact List.mem_reverse.mp ha
    · exact ha
  simp only [destroyGuarded, guardedDelete_unblocked i blocked _ db hall, if_true, true_and]
  intro c j
  simp only [destroyInst, hw, destroyG_spec, deleteDown_spec, deleteOrder, if_true]
  split <;> simp

theorem destroyRootBlocked_noop {T : Tree} (h : T.WF) {db : DB} (inv : NoOrphan T db) (e i : Nat) :
    (destroyGuardedVia T db e i (fun a => a == T.root e)).1 = db := by
  unfold destroyGuardedVia
  cases hg : get T db e i with
  | ok m =>
    have hroot : T.root e = T.root m := root_of_mem h m e (get_ok_inv h inv hg).2.1
    simp only
    rw [destroyGuarded_root_blocked h db m i _ (by simp [hroot])]
  | notFound => rfl
  | keyError => rfl


theorem step_preserves {T : Tree} (h : T.WF) {db : DB} (inv : NoOrphan T db) (op : Op) :
    NoOrphan T (step T db op).1 := by
  cases op with
  | create c id vals => exact create_preserves h inv c id vals
  | write e i a k v =>
    simp only [step, writeVia]
    cases hg : get T db e i with
    | ok m =>
      simp only [writeInst]
      split
      · exact (updateRow_shape db a i k v).noOrphan inv
      · exact inv
    | notFound => exact inv
    | keyError => exact inv
  | set e i kvs =>
    simp only [step, setVia]
    cases hg : get T db e i with
    | ok m =>
      simp only [setInst]
      split
      · exact (foldl_update_shape i kvs db).noOrphan inv
      · exact inv
    | notFound => exact inv
    | keyError => exact inv
  | destroy e i =>
    simp only [step, destroyVia]
    cases hg : get T db e i with
    | ok m =>
      have hw : Extracted.destroyWalksParents = true := rfl
      simp only [destroyInst, hw]
      exact destroy_preserves h inv _ (get_ok_inv h inv hg).1
    | notFound => exact inv
    | keyError => exact inv
  | deleteMany c f => exact deleteMany_preserves h inv c f
  | deleteBy c kvs => exact deleteBy_preserves h inv c kvs
  | destroyRootBlocked e i =>
    simp only [step]
    rw [destroyRootBlocked_noop h inv e i]
    exact inv

theorem run_preserves {T : Tree} (h : T.WF) (ops : List Op) : ∀ db, NoOrphan T db → NoOrphan T (run T ops db) := by
  induction ops with
  | nil => intro db inv; exact inv
  | cons op rest ih => intro db inv; exact ih _ (step_preserves h inv op)

/-! ## several connections -/

theorem mrun_preserves {T : Tree} (h : T.WF) (ops : List MOp) :
    ∀ s : MState, (∀ k, NoOrphan T (s.cur k) ∧ NoOrphan T (s.saved k)) →
      ∀ k, NoOrphan T ((mrun T ops s).cur k) ∧ NoOrphan T ((mrun T ops s).saved k) := by
  induction ops with
  | nil => intro s hs; exact hs
  | cons op rest ih =>
    intro s hs
    apply ih
    intro k
    cases op with
    | on k0 o =>
      simp only [mstep]
      refine ⟨?_, (hs k).2⟩
      by_cases hk : k = k0
      · subst hk; simp only [if_true]; exact step_preserves h (hs k).1 o
      · simp only [hk, if_false]; exact (hs k).1
    | begin k0 =>
      simp only [mstep]
      refine ⟨(hs k).1, ?_⟩
      by_cases hk : k = k0
      · subst hk; simp only [if_true]; exact (hs k).1
      · simp only [hk, if_false]; exact (hs k).2
    | rollback k0 =>
      simp only [mstep]
      refine ⟨?_, (hs k).2⟩
      by_cases hk : k = k0
      · subst hk; simp only [if_true]; exact (hs k).2
      · simp only [hk, if_false]; exact (hs k).1
    | commit k0 => exact hs k

/-! ## `set(**kw)` -/

/-- the stored value of column `k` of class `a` for id `i` -/
def cell (db : DB) (a i k : Nat) : Option Val := (db a i).map (fun r => r.vals k)

theorem cell_update_same (db : DB) (a i k : Nat) (v : Val) (hrow : db.has a i = true) :
    cell (updateRow db a i k v) a i k = some v := by
  obtain ⟨r, hr⟩ := has_iff.mp hrow
  simp [cell, updateRow_spec, hr]

theorem cell_update_other (db : DB) (a i k : Nat) (v : Val) (a' j k' : Nat)
    (hne : ¬ (a' = a ∧ j = i ∧ k' = k)) :
    cell (updateRow db a i k v) a' j k' = cell db a' j k' := by
  unfold cell
  rw [updateRow_spec]
  by_cases hc : a' = a ∧ j = i
  · obtain ⟨rfl, rfl⟩ := hc
    have hk : k' ≠ k := fun hk => hne ⟨rfl, rfl, hk⟩
    cases db a' j <;> simp [hk]
  · rw [if_neg hc]

/-- `set(**kw)` with distinct names: every named cell ends up holding its value, every other
    cell is unchanged -/
theorem foldl_update_cells (i : Nat) :
    ∀ (kvs : List (Nat × Nat × Val)) (db : DB),
      (kvs.Pairwise (fun x y => ¬ (x.1 = y.1 ∧ x.2.1 = y.2.1))) →
      (∀ x, x ∈ kvs → db.has x.1 i = true) →
      (∀ x, x ∈ kvs → cell (kvs.foldl (fun d x => updateRow d x.1 i x.2.1 x.2.2) db) x.1 i x.2.1
          = some x.2.2) ∧
      (∀ a j k, (j ≠ i ∨ ∀ x, x ∈ kvs → ¬ (x.1 = a ∧ x.2.1 = k)) →
          cell (kvs.foldl (fun d x => updateRow d x.1 i x.2.1 x.2.2) db) a j k = cell db a j k) := by
  intro kvs
  induction kvs with
  | nil =>
    intro db _ _
    exact ⟨fun x hx => (by cases hx), fun _ _ _ _ => rfl⟩
  | cons y rest ih =>
    intro db hpw hrows
    rw [List.pairwise_cons] at hpw
    have hrows' : ∀ x, x ∈ rest → (updateRow db y.1 i y.2.1 y.2.2).has x.1 i = true := by
      intro x hx
      rw [(updateRow_shape db y.1 i y.2.1 y.2.2).has]
      exact hrows x (List.mem_cons_of_mem _ hx)
    obtain ⟨ih1, ih2⟩ := ih (updateRow db y.1 i y.2.1 y.2.2) hpw.2 hrows'
    simp only [List.foldl_cons]
    constructor
    · intro x hx
      rcases List.mem_cons.mp hx with rfl | hx
      · rw [ih2 x.1 i x.2.1 (Or.inr (fun z hz hh => hpw.1 z hz ⟨hh.1.symm, hh.2.symm⟩))]
        exact cell_update_same db _ _ _ _ (hrows x (List.mem_cons_self ..))
      · exact ih1 x hx
    · intro a j k hne
      rw [ih2 a j k (by
        rcases hne with hne | hne
        · exact Or.inl hne
        · exact Or.inr (fun x hx => hne x (List.mem_cons_of_mem _ hx)))]
      apply cell_update_other
      rintro ⟨rfl, rfl, rfl⟩
      rcases hne with hne | hne
      · exact hne rfl
      · exact hne y (List.mem_cons_self ..) ⟨rfl, rfl⟩

/-! ## level caches and commit -/

theorem readCached_coherent {T : Tree} {db : DB} {vc : VCache} (hc : Coherent db vc) (m i a k : Nat) :
    readCached T db vc m i a k = readInst T db m i a k := by
  unfold readCached readInst
  split
  · cases hv : vc a i with
    | none => rfl
    | some vals =>
      obtain ⟨r, hr, hk⟩ := hc a i vals hv
      simp [hr, hk]
  · rfl
theorem commitExpire_coherent {db db' : DB} {vc : VCache} (hc : Coherent db vc) (S : Nat → Nat → Bool)
    (hsame : ∀ a j, S a j = false → db' a j = db a j) : Coherent db' (commitExpire vc S) := by
  intro a i vals hv
  unfold commitExpire at hv
  cases hs : S a i with
  | true => simp [hs] at hv
  | false =>
    simp only [hs] at hv
    rw [hsame a i hs]
    exact hc a i vals (by simpa using hv)

/-! ## the example hierarchy used by the non-vacuity examples of Props/C15

`K0(2 cols) ← K1(1) ← {K3(1), K4(0 cols), K5(0 cols, not inheritable)}`, `K0 ← K2(1)`. -/

def T0 : Tree :=
  ⟨6, fun c => if c = 1 ∨ c = 2 then some 0 else if c = 3 ∨ c = 4 ∨ c = 5 then some 1 else none,
   fun c => if c = 0 then 2 else if c = 4 ∨ c = 5 then 0 else 1,
   fun c => c != 5⟩

theorem T0_wf : T0.WF := by
  constructor
  · intro c p hp
    simp only [T0] at hp ⊢
    split at hp
    · cases hp; omega
    · split at hp
      · cases hp; omega
      · cases hp
  · intro c p hp
    simp only [T0] at hp ⊢
    split at hp
    · cases hp; rfl
    · split at hp
      · cases hp; rfl
      · cases hp

/-- a K3, a K5 (column-less, reached through the shunt) and a K2 -/
def db0 : DB := run T0
  [.create 3 1 (fun a k => (10 * a + k : Nat)), .create 5 2 (fun _ _ => 7), .create 2 3 (fun _ _ => 1)]
  DB.empty

end SqlObjVerif.Inherit
