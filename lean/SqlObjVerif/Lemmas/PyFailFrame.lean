import SqlObjVerif.Lemmas.PyFail
/-!
# The frame theorem of the exception-injecting interpreter `Model/PyFail.lean`

For EVERY program of the fragment, every schedule, every validator oracle: the ghost counter `changes` of
the hand model's state never decreases, and if it did not move, `core` (tables, link tables, instances,
registered ids) is unchanged.  The analogue of `Fail.run_frame` for the deep embedding.
-/
namespace SqlObjVerif.PyFail
open SqlObjVerif.PyMain (PV FnKind Flag Expr Cond LExpr Target DRef ColAttr R mapR ofOpt PDict CVal
  dget dhas dset dupdate dictOf sortByKey ofVal toVal? pvIdx pyBool nameOf natOf itemsOf dbNameOf optMap
  updItemOf dictItemOf cvOf Block)
open SqlObjVerif.Fail (Err Schema Inj Extra clsOf hit exec bump applyMem Mem updPending rowVals)

/-- the ghost counter is exact: it never decreases, and if it did not move the core did not change -/
def Fr (a b : Fail.St) : Prop := a.changes ≤ b.changes ∧ (b.changes = a.changes → b.core = a.core)

def OutFr (w : FW) : Outcome → Prop
  | .ret w' _ => Fr w.s w'.s
  | .exc w' _ => Fr w.s w'.s
  | .deadlock w' => Fr w.s w'.s
  | .stuck => True

def ResFr (w : FW) : Res → Prop
  | .norm st' => Fr w.s st'.w.s
  | .ret st' _ => Fr w.s st'.w.s
  | .exc st' _ => Fr w.s st'.w.s
  | .deadlock st' => Fr w.s st'.w.s
  | .stuck => True

theorem Fr.refl (a : Fail.St) : Fr a a := ⟨Nat.le_refl _, fun _ => rfl⟩

theorem Fr.trans {a b c : Fail.St} (h1 : Fr a b) (h2 : Fr b c) : Fr a c := by
  obtain ⟨h1a, h1b⟩ := h1
  obtain ⟨h2a, h2b⟩ := h2
  refine ⟨by omega, fun h => ?_⟩
  rw [h2b (by omega), h1b (by omega)]

/-- a counted step from a state that differs from `s` in ghost fields only -/
theorem Fr_bump (s s1 s2 : Fail.St) (hc1 : s1.changes = s.changes) (hk : s1.core = s.core)
    (hc2 : s2.changes = s1.changes) : Fr s (bump s1 s2) := by
  have hge := Fail.bump_changes_ge s1 s2
  refine ⟨by omega, fun h => ?_⟩
  have h2 := Fail.bump_changes_eq s1 s2 (by omega)
  rw [Fail.bump_core, h2, hk]

theorem ResFr.trans {w w' : FW} {r : Res} (h : Fr w.s w'.s) (hr : ResFr w' r) : ResFr w r := by
  cases r <;> first | trivial | exact Fr.trans h hr

/-! ### primitives -/

theorem memStep_fr (m : Mem) (s : Fail.St) : Fr s (memStep m s) :=
  Fr_bump s s _ rfl rfl rfl

theorem mem_fr (w : FW) (m : Mem) : Fr w.s (w.mem m).s := memStep_fr m w.s

theorem setVal_fr (w : FW) (col : Nat) (x : Fail.Val) : Fr w.s (w.setVal col x).s := by
  unfold FW.setVal; split
  · exact Fr.refl _
  · exact mem_fr _ _

theorem setDirty_fr (w : FW) (b : Bool) : Fr w.s (w.setDirty b).s := by
  unfold FW.setDirty; split
  · exact Fr.refl _
  · exact mem_fr _ _

theorem updCV_fr (w : FW) (asg : List (Nat × Fail.Val)) : Fr w.s (w.updCV asg).s := by
  unfold FW.updCV; split
  · exact Fr.refl _
  · exact Fr_bump w.s w.s _ rfl rfl rfl

theorem clearCV_fr (w : FW) : Fr w.s w.clearCV.s := by
  unfold FW.clearCV; split
  · exact Fr.refl _
  · exact Fr_bump w.s w.s _ rfl rfl rfl

theorem sendStmt_fr (sch : Schema) (inj : Option Inj) (q : Fail.Stmt) (s : Fail.St) :
    Fr s (sendStmt sch inj q s).1 := by
  unfold sendStmt
  dsimp only
  split
  · exact ⟨Nat.le_refl _, fun _ => rfl⟩
  · split
    · exact ⟨Nat.le_refl _, fun _ => rfl⟩
    · rename_i s2 hex
      exact Fr_bump s _ s2 rfl rfl (Fail.exec_changes sch q _ s2 hex)

theorem setProp_fr (w : FW) (k : Nat) : Fr w.s (setProp w k).1 :=
  Fail.run_frame w.sch w.inj _ w.s (setProp w k).1 (setProp w k).2 rfl

/-! ### combinators -/

theorem raisePy_fr (st : St) (e : PyMain.Exc) : ResFr st.w (raisePy st e) := by
  unfold raisePy; split
  · exact Fr.refl _
  · trivial

theorem withR_fr {α : Type} (st : St) (r : R α) (f : α → Res) (hf : ∀ a, ResFr st.w (f a)) :
    ResFr st.w (withR st r f) := by
  cases r with
  | ok a => exact hf a
  | exc e => exact raisePy_fr st e
  | stuck => trivial

theorem ofOptRes_fr {α : Type} (w : FW) (o : Option α) (f : α → Res) (hf : ∀ a, ResFr w (f a)) :
    ResFr w (ofOptRes o f) := by
  cases o with
  | some a => exact hf a
  | none => trivial

theorem afterSend_fr (st : St) (r : Fail.St × Option Err) (k : St → Res) (hr : Fr st.w.s r.1)
    (hk : ∀ st', ResFr st'.w (k st')) : ResFr st.w (afterSend st r k) := by
  unfold afterSend; split
  · exact hr
  · exact ResFr.trans (w' := (st.setW (st.w.setS r.1)).w) hr (hk _)

theorem afterCall_fr (o : Outcome) (st : St) (h : OutFr st.w o) : ResFr st.w (afterCall o st) := by
  cases o <;> exact h

theorem callValidator_fr (st : St) (x : Nat) (fv av : PV) : ResFr st.w (callValidator st x fv av) := by
  unfold callValidator; split
  · split
    · dsimp only
      split
      · exact Fr.refl _
      · exact Fr.refl _
    · trivial
  · trivial

theorem tbind_w {st st' : St} {t : Target} {v : PV} (h : tbind st t v = some st') : st'.w = st.w := by
  unfold tbind at h; split at h
  · cases h; rfl
  · cases h; rfl
  · cases h

theorem bindThen_fr (t : Target) (k : St → Res) (hk : ∀ st', ResFr st'.w (k st')) (st : St) (v : PV) :
    ResFr st.w (bindThen t k st v) := by
  unfold bindThen; split
  · rename_i st' h
    rw [← tbind_w h]; exact hk st'
  · trivial

theorem forLoop_fr {α : Type} (f : St → α → Res) (hf : ∀ st v, ResFr st.w (f st v)) :
    ∀ (vs : List α) (st : St), ResFr st.w (forLoop f vs st) := by
  intro vs
  induction vs with
  | nil => intro st; exact Fr.refl _
  | cons v vs ih =>
    intro st
    rw [forLoop]
    have h := hf st v
    generalize f st v = r at h
    cases r <;> try exact h
    exact ResFr.trans h (ih _)

/-- sequencing: `match r with | .norm st' => k st' | r => r` -/
theorem seq_fr {w : FW} {r : Res} (hr : ResFr w r) (k : St → Res) (hk : ∀ st', ResFr st'.w (k st')) :
    ResFr w (match r with | .norm st' => k st' | r => r) := by
  cases r <;> try exact hr
  exact ResFr.trans hr (hk _)


mutual
theorem stmt_frame (call : CallT) (hcall : ∀ m args kw w, OutFr w (call m args kw w)) : ∀ (s : PyMain.Stmt) (st : St), ResFr st.w (Stmt.exec call st s)
  | .assign x e, st => by
    cases e <;> rw [Stmt.exec]
    all_goals first
      | exact withR_fr _ _ _ fun _ => Fr.refl _
      | exact withR_fr _ _ _ fun _ => withR_fr _ _ _ fun _ => callValidator_fr _ _ _ _
      | (intro _ _ h; cases h)
  | .setFlag f b, st => by
    cases f <;> rw [Stmt.exec]
    all_goals first
      | trivial
      | exact setDirty_fr _ _
      | (intro h; cases h)
  | .setSigSuppress, st => by rw [Stmt.exec]; exact Fr.refl _
  | .delSigSuppress, st => by
    rw [Stmt.exec]; split <;> exact Fr.refl _
  | .setattrSelf n v, st => by
    rw [Stmt.exec]
    refine withR_fr _ _ _ fun nv => ?_
    split
    · exact withR_fr _ _ _ fun _ => ofOptRes_fr _ _ _ fun _ => setVal_fr _ _ _
    · refine withR_fr _ _ _ fun _ => ?_
      split
      · trivial
      · exact afterCall_fr _ _ (hcall _ _ _ _)
    · trivial
  | .delattrSelf _, st => by rw [Stmt.exec]; trivial
  | .listAssign l le, st => by
    rw [Stmt.exec]; exact withR_fr _ _ _ fun _ => Fr.refl _
  | .dictNew d, st => by
    cases d <;> rw [Stmt.exec]
    · exact clearCV_fr _
    · exact Fr.refl _
  | .dictLit1 d k v, st => by
    cases d <;> rw [Stmt.exec]
    · trivial
    · exact withR_fr _ _ _ fun _ => ofOptRes_fr _ _ _ fun _ => withR_fr _ _ _ fun _ => Fr.refl _
  | .dictSet d k v, st => by
    rw [Stmt.exec]
    refine withR_fr _ _ _ fun _ => ofOptRes_fr _ _ _ fun _ => withR_fr _ _ _ fun _ => ?_
    cases d
    · exact ofOptRes_fr _ _ _ fun _ => updCV_fr _ _
    · exact ofOptRes_fr _ _ _ fun _ => Fr.refl _
  | .dictUpdate d src, st => by
    rw [Stmt.exec]
    refine ofOptRes_fr _ _ _ fun _ => ?_
    cases d
    · exact ofOptRes_fr _ _ _ fun _ => updCV_fr _ _
    · exact ofOptRes_fr _ _ _ fun _ => Fr.refl _
  | .dictOfList d le, st => by
    rw [Stmt.exec]
    refine withR_fr _ _ _ fun _ => ofOptRes_fr _ _ _ fun _ => ?_
    cases d
    · trivial
    · exact Fr.refl _
  | .acquire, st => by rw [Stmt.exec]; split <;> exact Fr.refl _
  | .release, st => by
    rw [Stmt.exec]; split
    · exact Fr.refl _
    · trivial
  | .selectOne x le, st => by
    rw [Stmt.exec]
    exact withR_fr _ _ _ fun _ => ofOptRes_fr _ _ _ fun _ =>
      afterSend_fr _ _ _ (sendStmt_fr _ _ _ _) fun _ => Fr.refl _
  | .update le, st => by
    rw [Stmt.exec]
    exact withR_fr _ _ _ fun _ => ofOptRes_fr _ _ _ fun _ =>
      afterSend_fr _ _ _ (sendStmt_fr _ _ _ _) fun _ => Fr.refl _
  | .cacheExpire, st => by rw [Stmt.exec]; exact mem_fr _ _
  | .send _, st => by rw [Stmt.exec]; exact Fr.refl _
  | .callSelf m args, st => by
    rw [Stmt.exec]
    exact withR_fr _ _ _ fun _ => afterCall_fr _ _ (hcall _ _ _ _)
  | .callSelfKw m d, st => by
    rw [Stmt.exec]
    exact ofOptRes_fr _ _ _ fun _ => afterCall_fr _ _ (hcall _ _ _ _)
  | .callOpaque _, st => by rw [Stmt.exec]; trivial
  | .exprStmt e, st => by rw [Stmt.exec]; exact withR_fr _ _ _ fun _ => Fr.refl _
  | .assert c, st => by
    rw [Stmt.exec]
    refine withR_fr _ _ _ fun b => ?_
    cases b
    · trivial
    · exact Fr.refl _
  | .raise e, st => by rw [Stmt.exec]; exact raisePy_fr _ _
  | .ite c t e, st => by
    rw [Stmt.exec]
    refine withR_fr _ _ _ fun b => ?_
    cases b
    · exact block_frame call hcall e st
    · exact block_frame call hcall t st
  | .for t le body, st => by
    rw [Stmt.exec]
    exact withR_fr _ _ _ fun vs => forLoop_fr _ (bindThen_fr t _ fun st' => block_frame call hcall body st') vs st
  | .tryExcept body exc handler orelse, st => by
    rw [Stmt.exec]
    have h := block_frame call hcall body st
    generalize Block.exec call st body = r at h
    cases r <;> try exact h
    · exact ResFr.trans h (block_frame call hcall orelse _)
    · dsimp only
      split
      · exact ResFr.trans h (block_frame call hcall handler _)
      · exact h
  | .tryFinally body fin, st => by
    rw [Stmt.exec]
    have h := block_frame call hcall body st
    generalize Block.exec call st body = r at h
    cases r <;> try exact h
    · exact ResFr.trans h (block_frame call hcall fin _)
    · rename_i st' v
      dsimp only
      have h2 := block_frame call hcall fin st'
      generalize Block.exec call st' fin = r2 at h2
      cases r2 <;> exact ResFr.trans h h2
    · rename_i st' v
      dsimp only
      have h2 := block_frame call hcall fin st'
      generalize Block.exec call st' fin = r2 at h2
      cases r2 <;> exact ResFr.trans h h2
  | .ret e, st => by rw [Stmt.exec]; exact withR_fr _ _ _ fun _ => Fr.refl _
  | .retNone, st => by rw [Stmt.exec]; exact Fr.refl _
  | .pass, st => by rw [Stmt.exec]; exact Fr.refl _
theorem block_frame (call : CallT) (hcall : ∀ m args kw w, OutFr w (call m args kw w)) : ∀ (b : PyMain.Block) (st : St), ResFr st.w (Block.exec call st b)
  | .nil, st => by rw [Block.exec]; exact Fr.refl _
  | .cons s rest, st => by
    rw [Block.exec]
    have h := stmt_frame call hcall s st
    generalize Stmt.exec call st s = r at h
    cases r <;> try exact h
    exact ResFr.trans h (block_frame call hcall rest _)
end

/-- **Frame, for the deep embedding.**  Whatever the program of the fragment, the schedule and the validator
    oracle: if every callee keeps the ghost counter exact, so does every statement and every block. -/
theorem exec_frame (call : CallT) (hcall : ∀ m args kw w, OutFr w (call m args kw w)) :
    (∀ (s : PyMain.Stmt) (st : St), ResFr st.w (Stmt.exec call st s)) ∧
    (∀ (b : PyMain.Block) (st : St), ResFr st.w (Block.exec call st b)) :=
  ⟨stmt_frame call hcall, block_frame call hcall⟩

theorem run_frameX (call : CallT) (hcall : ∀ m args kw w, OutFr w (call m args kw w)) (prog : PyMain.Block)
    (args : List PyMain.PV) (kw : PyMain.PDict) (nlocals nlists ndicts : Nat) (w : FW) :
    OutFr w (PyFail.run call prog args kw nlocals nlists ndicts w) := by
  unfold PyFail.run
  have h := block_frame call hcall prog
    { w := w, vars := args.map some ++ List.replicate nlocals Option.none,
      lists := List.replicate nlists [], dicts := kw :: List.replicate ndicts [] }
  generalize Block.exec call _ prog = r at h
  cases r <;> exact h

theorem noCall_frame : ∀ m args kw w, OutFr w (noCall m args kw w) := fun _ _ _ _ => trivial

theorem propOutcome_frame (w : FW) (r : Fail.St × Option Err) (h : Fr w.s r.1) : OutFr w (propOutcome w r) := by
  unfold propOutcome; split <;> exact h

theorem propCall_frame : ∀ m args kw w, OutFr w (propCall m args kw w) := by
  intro m args kw w
  unfold propCall
  split
  · split
    · exact propOutcome_frame _ _ (setProp_fr _ _)
    · trivial
  · trivial

end SqlObjVerif.PyFail
