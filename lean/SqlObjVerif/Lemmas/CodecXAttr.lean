import Lean.Meta.Tactic.Simp.RegisterCommand
/-! the simp set `pyxs`: the evaluation rules of the PyCodec interpreter and of the `CodecX` interface -/
register_simp_attr pyxs
