import SqlObjVerif.Lemmas.EvSubXHistory
import SqlObjVerif.Lemmas.EvChainXModel
/-!
C19 translator tie, part 22: the declaration history yields `Chain.effective`; `chain_log_eq` for the levels `≤ L` only.
-/
namespace SqlObjVerif.Events
open SqlObjVerif.PyVer (pyBool)

section
variable (ccfg : Chain.CCfg) (enc : Chain.CListener → PVal × PVal) (dec : PVal × PVal → Listener)

/-- the early / late `(receiver, signal)` pairs of level `j` -/
def earlyOf (j : Nat) : List (PVal × PVal) := ((Chain.own ccfg j).filter (·.early)).map enc
def lateOf (j : Nat) : List (PVal × PVal) := ((Chain.own ccfg j).filter fun l => !l.early).map enc

/-- each level's early listeners come before its late ones in its own list (they are registered first) -/
def EarlyFirst (L : Nat) : Prop :=
  ∀ j, j ≤ L → (Chain.own ccfg j).filter (·.early) ++ (Chain.own ccfg j).filter (fun l => !l.early) = Chain.own ccfg j

/-- the connection table after the whole history for a chain of depth `L` -/
def histW (alive : PVal → Bool) (clsV : Nat → PVal) (L : Nat) : LW :=
  lates (lateOf ccfg enc) clsV L (declare alive (earlyOf ccfg enc) clsV L)

theorem effective_of_history (alive : PVal → Bool) (clsV : Nat → PVal) (hinj : ∀ a b, clsV a = clsV b → a = b)
    (hdec : ∀ l, dec (enc l) = Chain.toL l) (hal : ∀ l, alive (enc l).1 = true) (L : Nat) (hef : EarlyFirst ccfg L)
    (j : Nat) (hj : j ≤ L) :
    (connsOf (histW ccfg enc alive clsV L) (clsV j)).map dec = Chain.effective ccfg j := by
  have hal' : ∀ k, ∀ p ∈ earlyOf ccfg enc k, alive p.1 = true := by
    intro k p hp
    simp only [earlyOf, List.mem_map] at hp
    obtain ⟨l, -, rfl⟩ := hp
    exact hal l
  unfold histW
  rw [lates_spec _ _ hinj, ((declare_spec alive (earlyOf ccfg enc) clsV hinj hal' L j).1 hj).2]
  simp only [hj, if_true, List.map_append]
  have hmap : ∀ (l : List Chain.CListener), (l.map enc).map dec = l.map Chain.toL := by
    intro l; rw [List.map_map]; apply List.map_congr_left; intro x _; exact hdec x
  have hflat : ∀ n, ((List.range n).flatMap (earlyOf ccfg enc)).map dec
      = (List.range n).flatMap fun k => ((Chain.own ccfg k).filter (·.early)).map Chain.toL := by
    intro n
    induction n with
    | zero => rfl
    | succ n ih => rw [List.range_succ, List.flatMap_append, List.flatMap_append, List.map_append, ih]; simp [earlyOf, hmap]
  have hown : (earlyOf ccfg enc j).map dec ++ (lateOf ccfg enc j).map dec = (Chain.own ccfg j).map Chain.toL := by
    simp only [earlyOf, lateOf, hmap]
    rw [← List.map_append, hef j hj]
  cases j with
  | zero =>
    simp only [inh, Chain.effective]
    rw [show List.range (0 + 1) = [0] from rfl]
    simpa using hown
  | succ l =>
    simp only [inh, Chain.effective]
    rw [List.range_succ (n := l + 1), List.flatMap_append, List.map_append, hflat]
    simp only [List.flatMap_cons, List.flatMap_nil, List.append_nil, List.append_assoc]
    rw [hown]

end

section
open SqlObjVerif.PyEv (tagLog)
variable (cls : Nat → Cfg) (ccfg : Chain.CCfg)

theorem cLog_construct_le (i : Nat) : ∀ L, (∀ j, j ≤ L → (cls j).listeners = Chain.effective ccfg j) →
    (cLog cls i L).map convT = (Chain.construct ccfg i L).1 ∧ (Chain.construct ccfg i L).2 = List.range (L + 1) := by
  intro L
  induction L with
  | zero =>
    intro hL
    simp [cLog, Chain.construct, dCreate, hL 0 (Nat.le_refl 0), map_convT_tag, convT, Chain.conv, Function.comp_def]
  | succ L ih =>
    intro hL
    have ih' := ih (fun j hj => hL j (Nat.le_succ_of_le hj))
    refine ⟨?_, ?_⟩
    · simp only [cLog, Chain.construct, List.map_append, map_convT_tag, ih'.1, dCreate, hL (L + 1) (Nat.le_refl _)]
      simp [convT, Chain.conv, Function.comp_def]
    · simp only [Chain.construct, ih'.2]
      rw [List.range_succ (n := L + 1)]

theorem flush_sendCreated_mem (i : Nat) (js : List Nat) (hL : ∀ j ∈ js, (cls j).listeners = Chain.effective ccfg j) :
    (js.flatMap fun j => tagLog j (createdLog (cls j) i)).map convT = js.flatMap fun j => Chain.sendCreated ccfg j i := by
  rw [List.map_flatMap]
  induction js with
  | nil => rfl
  | cons j js ih =>
    simp only [List.flatMap_cons, ih (fun k hk => hL k (by simp [hk]))]
    simp [map_convT_tag, createdLog, Chain.sendCreated, hL j (by simp)]

/-- `chain_log_eq` needing the listener placement only for the levels `≤ L` -/
theorem chain_log_eq_le (i L : Nat) (hL : ∀ j, j ≤ L → (cls j).listeners = Chain.effective ccfg j) :
    (cLog cls i L ++ (List.range (L + 1)).flatMap fun j => tagLog j (createdLog (cls j) i)).map convT
      = Chain.createObj ccfg i L := by
  rw [List.map_append, (cLog_construct_le cls ccfg i L hL).1,
    flush_sendCreated_mem cls ccfg i _ (fun j hj => hL j (by simp at hj; omega))]
  simp [Chain.createObj, (cLog_construct_le cls ccfg i L hL).2]

end
end SqlObjVerif.Events
