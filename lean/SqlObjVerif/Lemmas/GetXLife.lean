import SqlObjVerif.Lemmas.GetXGet
set_option linter.unusedSimpArgs false
namespace SqlObjVerif.Cache
open SqlObjVerif.PyGet
open SqlObjVerif.PyGet.Extracted

@[simp] theorem setObj_setObj (s : State) (h : Handle) (a b : Obj) : setObj (setObj s h a) h b = setObj s h b := by
  simp [setObj, upd_upd]

theorem WF_congr {w w' : GW} (h : w.WF) (h1 : w'.made = w.made) (h2 : w'.s.fac = w.s.fac) (h3 : w'.lock = w.lock) :
    w'.WF := by
  intro c hc
  rw [h1] at hc
  rw [h2, h3]; exact h c hc

theorem rep_congr {s s' : State} {c : Cls} (h : Rep s c) (h1 : s'.fac = s.fac)
    (h2 : ∀ x, (s'.obj x).dead = (s.obj x).dead) : Rep s' c := by
  obtain ⟨a, b, d⟩ := h
  refine ⟨by rw [h1]; exact a, by rw [h1]; exact b, ?_⟩
  intro e he
  rw [h1] at he
  rw [h2]; exact d e he

theorem csCreated_fresh (w : GW) (c : Cls) (k : Id) (h : Handle) (hwf : w.WF) (hl : w.lock c = false)
    (hfr : w.s.cfg.cullFraction ≠ 0) (hrep : Rep w.s c) (hk : ahasKey k (w.s.fac c).strong = false) :
    csCall w "created" [.key k, .cls c, .obj h] =
      .ret { w with s := insertEntry (tick w.s c) c k h, made := addMade w.made c } .none := by
  apply csCreated_eq w c k h hwf hl hfr hrep
  intro e he hek
  have : ahasKey k (w.s.fac c).strong = true := (ahasKey_iff k _).2 ⟨e.2, by rw [← hek]; exact he⟩
  rw [hk] at this; cases this

theorem tryGet_none_nokey (s : State) (c : Cls) (k : Id) (hnc : s.cfg.doCache = false → (s.fac c).strong = [])
    (h : tryGet s c k = none) : ahasKey k (s.fac c).strong = false := by
  have key : ∀ l : AList, aget k l = none → ahasKey k l = false := by
    intro l hl
    cases hh : ahasKey k l with
    | false => rfl
    | true =>
      obtain ⟨v, hv⟩ := (ahasKey_iff k l).1 hh
      exact absurd hv ((aget_none_iff).1 hl v)
  cases hd : s.cfg.doCache with
  | false => simp [hnc hd, ahasKey]
  | true =>
    apply key
    unfold tryGet at h
    simp only [hd, if_true] at h
    have hft : Extracted.Cache.tryGetFallsThrough = true := rfl
    cases hw : aget k (s.fac c).weak with
    | none => simpa [hw] using h
    | some x =>
      simp only [hw] at h
      cases hdd : (s.obj x).dead with
      | false => simp [hdd] at h
      | true => simpa [hdd, hft] using h

theorem setObj_dead_same (s : State) (h : Handle) (o : Obj) (ho : o.dead = (s.obj h).dead) (x : Handle) :
    ((setObj s h o).obj x).dead = (s.obj x).dead := by
  simp only [setObj, upd]
  split
  · rename_i hx; subst hx; exact ho
  · rfl

/-- `inst.__setstate__(d)` for the pickled state `(k, e)`: refused with ValueError when `tryGet` finds an instance
    of the row in the cache, else the instance is registered (`cache.created`) -/
theorem setstateG_eq (w : GW) (h : Handle) (k : Id) (e : Bool) (hwf : w.WF)
    (hl : w.lock (w.s.obj h).cls = false) (hfr : w.s.cfg.cullFraction ≠ 0) (hrep : Rep w.s (w.s.obj h).cls)
    (hnc : w.s.cfg.doCache = false → (w.s.fac (w.s.obj h).cls).strong = []) :
    setstateG w h (Vpickle k e) =
      let c := (w.s.obj h).cls
      let S := setObj w.s h { w.s.obj h with id := k, obsolete := false, expired := e }
      let W : GW := { w with s := S, dirty := upd w.dirty h false, wlock := upd w.wlock h false }
      match tryGet S c k with
      | some _ => .exc W .valueError
      | none => .ret { W with s := insertEntry (tick S c) c k h, made := addMade w.made c } .none := by
  unfold setstateG setstateProg setstate_nlocals
  srun
  rw [csTryGet_eq]
  · simp only []
    generalize hT : tryGet _ (w.s.obj h).cls k = T
    cases T with
    | some v => srun
    | none =>
      srun
      rw [csCreated_fresh]
      · exact WF_congr hwf rfl rfl rfl
      · simpa using hl
      · simpa using hfr
      · exact rep_congr hrep rfl (setObj_dead_same _ _ _ rfl)
      · exact tryGet_none_nokey _ _ _ (by simpa using hnc) hT
  · exact WF_congr hwf rfl rfl rfl

theorem relOf_setObj (s : State) (h : Handle) (o : Obj) (ho : o.held = (s.obj h).held) :
    relOf (setObj s h o) = relOf s := by
  funext x
  simp only [relOf, setObj, upd]
  split
  · rename_i hx; subst hx; rw [ho]
  · rfl

/-- `inst.expire()`: the flag, then `cache.expire(id, cls)` = `purge`; the write lock is released -/
theorem expireG_eq (w : GW) (h : Handle) (hwf : w.WF) (hl : w.lock (w.s.obj h).cls = false)
    (hwl : w.wlock h = false)
    (hnc : w.s.cfg.doCache = false → (w.s.fac (w.s.obj h).cls).strong = [])
    (hrel : ∀ e ∈ (w.s.fac (w.s.obj h).cls).strong, e.1 = (w.s.obj h).id → relOf w.s e.2 = false) :
    expireG w h =
      .ret { w with s := purge (setObj w.s h { w.s.obj h with expired := true }) (w.s.obj h).cls (w.s.obj h).id,
                    dirty := upd w.dirty h false } .none := by
  unfold expireG expireProg expire_nlocals
  have e2 : upd (upd w.wlock h true) h false = w.wlock := by rw [upd_upd, ← hwl, upd_self]
  srun
  rw [csExpire_eq]
  case hwf => exact WF_congr hwf rfl rfl rfl
  case hl => simpa using hl
  case hnc => simpa using hnc
  case hrel =>
    intro e he hek
    rw [relOf_setObj]
    · exact hrel e he hek
    · rfl
  all_goals srun

/-- the tail of `inst.destroySelf()`: DELETE, `_obsolete = True`, `cache.expire(id, cls)` = `purge` -/
theorem destroyTailG_eq (w : GW) (h : Handle) (hwf : w.WF) (hl : w.lock (w.s.obj h).cls = false)
    (hnc : w.s.cfg.doCache = false → (w.s.fac (w.s.obj h).cls).strong = [])
    (hrel : ∀ e ∈ (w.s.fac (w.s.obj h).cls).strong, e.1 = (w.s.obj h).id → relOf w.s e.2 = false) :
    destroyTailG w h =
      let o := w.s.obj h
      let s1 : State := { w.s with rows := upd w.s.rows o.cls ((w.s.rows o.cls).filter (fun x => decide (x ≠ o.id))) }
      .ret { w with s := purge (setObj s1 h { o with obsolete := true }) o.cls o.id } .none := by
  unfold destroyTailG destroyTailProg destroyTail_nlocals
  srun
  rw [csExpire_eq]
  case hwf => exact WF_congr hwf rfl rfl rfl
  case hl => simpa using hl
  case hnc => simpa using hnc
  case hrel =>
    intro e he hek
    rw [relOf_setObj]
    · exact hrel e he hek
    · rfl
  all_goals srun

/-- `inst.__getstate__()`: the pickled state, nothing changes -/
theorem getstateG_eq (w : GW) (h : Handle) :
    getstateG w h = .ret w (Vpickle (w.s.obj h).id (w.s.obj h).expired) := by
  unfold getstateG getstateProg getstate_nlocals
  srun

end SqlObjVerif.Cache
