import SqlObjVerif.Lemmas.Graph
/-!
# Simulation: `destroy` on the evolving database ≈ `trav` on the original database + deleted keys
-/
namespace SqlObjVerif.Graph

/-- the current row agrees with the original one on identity and on every cascade / restrict key -/
def RowSim (S : Schema) (r' r : Row) : Prop :=
  r'.cls = r.cls ∧ r'.id = r.id ∧
    ∀ f, ((S.fk r.cls f).policy = .cascade ∨ (S.fk r.cls f).policy = .restrict) → r'.val f = r.val f

/-- the current rows are the original rows outside `D`, in the original order, up to `RowSim` -/
def Sim (S : Schema) (db0 : DB) (D : List Key) (db : DB) : Prop :=
  ∃ g : Row → Row, (∀ r, RowSim S (g r) r) ∧ db.rows = (db0.rows.filter fun r => !D.contains r.key).map g

def ResSim (S : Schema) (db0 : DB) : Res → TRes → Prop
  | .ok db', .ok D' => Sim S db0 D' db'
  | .refused _, .refused => True
  | .fuel _, .fuel => True
  | _, _ => False

def RecSim (S : Schema) (db0 : DB) (rec : DB → Nat → Nat → Res) (trec : List Key → Nat → Nat → TRes) : Prop :=
  ∀ D db k j, Sim S db0 D db → ResSim S db0 (rec db k j) (trec D k j)

theorem Sim.present {S : Schema} {db0 db : DB} {D : List Key} (h : Sim S db0 D db) {k j : Nat}
    (hk : ∃ r0 ∈ db0.rows, r0.key = (k, j)) : Graph.present db k j = !D.contains (k, j) := by
  obtain ⟨g, hg, hrows⟩ := h
  cases hc : D.contains (k, j) with
  | true =>
    simp only [Bool.not_true]
    cases hp : Graph.present db k j with
    | false => rfl
    | true =>
      exfalso
      obtain ⟨r, hr, hkey⟩ := present_iff.mp hp
      rw [hrows, List.mem_map] at hr
      obtain ⟨r0, hr0, rfl⟩ := hr
      rw [List.mem_filter] at hr0
      have : (g r0).key = r0.key := by simp [Row.key, (hg r0).1, (hg r0).2.1]
      rw [this] at hkey
      rw [hkey, hc] at hr0
      simp at hr0
  | false =>
    simp only [Bool.not_false]
    obtain ⟨r0, hr0, hkey⟩ := hk
    apply present_iff.mpr
    refine ⟨g r0, ?_, ?_⟩
    · rw [hrows, List.mem_map]
      exact ⟨r0, List.mem_filter.mpr ⟨hr0, by rw [hkey, hc]; rfl⟩, rfl⟩
    · rw [← hkey]; simp [Row.key, (hg r0).1, (hg r0).2.1]

theorem destroyRows_sim {S : Schema} {db0 : DB} {rec : DB → Nat → Nat → Res} {trec : List Key → Nat → Nat → TRes}
    (h : RecSim S db0 rec trec) (k : Nat) :
    ∀ (ids : List Nat) (D : List Key) (db : DB), Sim S db0 D db → (∀ j ∈ ids, ∃ r0 ∈ db0.rows, r0.key = (k, j)) →
      ResSim S db0 (destroyRows rec k ids db) (travRows trec k ids D) := by
  intro ids
  induction ids with
  | nil => intro D db hs _; exact hs
  | cons i is ih =>
    intro D db hs hk
    unfold destroyRows travRows
    rw [hs.present (hk i (by simp))]
    cases hc : D.contains (k, i) with
    | true =>
      simp only [Bool.not_true, Bool.false_eq_true, if_false, if_true]
      exact ih D db hs (fun j hj => hk j (by simp [hj]))
    | false =>
      simp only [Bool.not_false, if_true, Bool.false_eq_true, if_false]
      have hr := h D db k i hs
      cases h1 : rec db k i <;> cases h2 : trec D k i <;> rw [h1, h2] at hr <;> simp only [ResSim] at hr ⊢
      · exact ih _ _ hr (fun j hj => hk j (by simp [hj]))
      all_goals first | exact hr | trivial

/-- on `RowSim`-related rows the cascade / restrict references are the same -/
theorem refB_iff {S : Schema} {r' r : Row} (h : RowSim S r' r) (p : Policy) (hp : p = .cascade ∨ p = .restrict) (c i : Nat) :
    refB S p r c i = true ↔ ∃ f ∈ depCols S c r.cls, (S.fk r.cls f).policy = p ∧ r'.val f = some i := by
  simp only [refB, List.any_eq_true, Bool.and_eq_true, beq_iff_eq]
  constructor
  · rintro ⟨f, hf, hpol, hv⟩
    exact ⟨f, hf, hpol, by rw [h.2.2 f (by rcases hp with rfl | rfl <;> simp [hpol])]; exact hv⟩
  · rintro ⟨f, hf, hpol, hv⟩
    exact ⟨f, hf, hpol, by rw [← h.2.2 f (by rcases hp with rfl | rfl <;> simp [hpol])]; exact hv⟩

theorem mem_alive {db : DB} {D : List Key} {k : Nat} {r : Row} :
    r ∈ alive db D k ↔ r ∈ db.rows ∧ r.cls = k ∧ D.contains r.key = false := by
  simp [alive, List.mem_filter]

theorem procDep_sim {S : Schema} {db0 : DB} {rec : DB → Nat → Nat → Res} {trec : List Key → Nat → Nat → TRes}
    (h : RecSim S db0 rec trec) (c i : Nat) (D : List Key) (db : DB) (k : Nat) (hs : Sim S db0 D db) :
    ResSim S db0 (procDep S rec c i db k) (travDep S db0 trec c i D k) := by
  obtain ⟨g, hg, hrows⟩ := hs
  unfold procDep travDep
  simp only
  generalize hdb1 : ({ db with links := delDepLinks S k c i db.links } : DB) = db1
  have hrows1 : db1.rows = (db0.rows.filter fun r => !D.contains r.key).map g := by subst hdb1; exact hrows
  have hkey : ∀ r, (g r).key = r.key := fun r => by simp [Row.key, (hg r).1, (hg r).2.1]
  -- membership in the current table
  have hmem1 : ∀ r', r' ∈ db1.rows ↔ ∃ r0 ∈ db0.rows, D.contains r0.key = false ∧ r' = g r0 := by
    intro r'
    rw [hrows1, List.mem_map]
    constructor
    · rintro ⟨r0, h0, rfl⟩
      rw [List.mem_filter] at h0
      exact ⟨r0, h0.1, by simpa using h0.2, rfl⟩
    · rintro ⟨r0, h0, hd, rfl⟩
      exact ⟨r0, List.mem_filter.mpr ⟨h0, by rw [hd]; rfl⟩, rfl⟩
  by_cases hemp : (depCols S c k).isEmpty = true
  · -- no dependent column: nothing to do on either side
    simp only [hemp, if_true]
    have hnil := List.isEmpty_iff.mp hemp
    have hno : ∀ p (r : Row), r ∈ alive db0 D k → refB S p r c i = false := by
      intro p r hr
      have := (mem_alive.mp hr).2.1
      simp [refB, this, hnil]
    have h1 : (alive db0 D k).any (fun r => refB S .restrict r c i) = false := by
      rw [List.any_eq_false]; intro r hr; simp [hno _ r hr]
    have h2 : (alive db0 D k).filter (fun r => refB S .cascade r c i) = [] := by
      rw [List.filter_eq_nil_iff]; intro r hr; simp [hno _ r hr]
    rw [h1, h2]
    simp only [Bool.false_eq_true, if_false, List.map_nil, travRows, ResSim]
    exact ⟨g, hg, hrows1⟩
  · simp only [hemp, Bool.false_eq_true, if_false]
    -- the restriction test
    have hrest : (!(matching db1 k (restrictCols S k (depCols S c k)) i).isEmpty) =
        (alive db0 D k).any (fun r => refB S .restrict r c i) := by
      rw [Bool.eq_iff_iff]
      simp only [Bool.not_eq_true', List.any_eq_true]
      constructor
      · intro hne
        cases hm : matching db1 k (restrictCols S k (depCols S c k)) i with
        | nil => rw [hm] at hne; simp at hne
        | cons r' rs =>
          have hr' : r' ∈ matching db1 k (restrictCols S k (depCols S c k)) i := by rw [hm]; simp
          obtain ⟨hr1, hk, f, hf, hv⟩ := mem_matching.mp hr'
          obtain ⟨r0, h0, hd, rfl⟩ := (hmem1 r').mp hr1
          simp only [restrictCols, List.mem_filter, beq_iff_eq] at hf
          have hc0 : r0.cls = k := by rw [← (hg r0).1]; exact hk
          refine ⟨r0, mem_alive.mpr ⟨h0, hc0, hd⟩, ?_⟩
          exact (refB_iff (hg r0) .restrict (.inr rfl) c i).mpr ⟨f, hc0 ▸ hf.1, hc0 ▸ hf.2, hv⟩
      · rintro ⟨r0, hr0, hb⟩
        obtain ⟨h0, hc0, hd⟩ := mem_alive.mp hr0
        obtain ⟨f, hf, hpol, hv⟩ := (refB_iff (hg r0) .restrict (.inr rfl) c i).mp hb
        have : g r0 ∈ matching db1 k (restrictCols S k (depCols S c k)) i := by
          refine mem_matching.mpr ⟨(hmem1 _).mpr ⟨r0, h0, hd, rfl⟩, (hg r0).1.trans hc0, f, ?_, hv⟩
          simp only [restrictCols, List.mem_filter, beq_iff_eq]
          exact ⟨hc0 ▸ hf, hc0 ▸ hpol⟩
        cases hm : matching db1 k (restrictCols S k (depCols S c k)) i with
        | nil => rw [hm] at this; cases this
        | cons _ _ => rfl
    rw [hrest]
    by_cases hres : (alive db0 D k).any (fun r => refB S .restrict r c i) = true
    · simp only [hres, if_true, ResSim]
    · simp only [hres, Bool.false_eq_true, if_false]
      have hpass : (matching db1 k (restrictCols S k (depCols S c k)) i).isEmpty = true := by
        have := hrest; rw [Bool.not_eq_true] at hres; rw [hres] at this; simpa using this
      -- after the set-null pass
      let g2 : Row → Row := fun r => nullRow S k (depCols S c k) i (g r)
      have hg2 : ∀ r, RowSim S (g2 r) r := by
        intro r
        refine ⟨by simp [g2, nullRow_cls, (hg r).1], by simp [g2, nullRow_id, (hg r).2.1], fun f hp => ?_⟩
        show (nullRow S k (depCols S c k) i (g r)).val f = r.val f
        rw [nullRow_val, if_neg, (hg r).2.2 f hp]
        rintro ⟨hk, _, hnull, _⟩
        rw [← hk, (hg r).1] at hnull
        rcases hp with hp | hp <;> rw [hp] at hnull <;> cases hnull
      have hrows2 : (nullRefs S db1 k (depCols S c k) i).rows = (db0.rows.filter fun r => !D.contains r.key).map g2 := by
        simp only [nullRefs, hrows1, List.map_map]; rfl
      have hsim2 : Sim S db0 D (nullRefs S db1 k (depCols S c k) i) := ⟨g2, hg2, hrows2⟩
      -- a surviving original row still matches iff it references the victim through a cascade key
      have hq : ∀ r0 ∈ db0.rows, D.contains r0.key = false →
          (((g2 r0).cls == k && refsVia (g2 r0) (depCols S c k) i) = (r0.cls == k && refB S .cascade r0 c i)) := by
        intro r0 h0 hd
        have hcls : (g2 r0).cls = r0.cls := (hg2 r0).1
        rw [hcls]
        by_cases hc0 : r0.cls = k
        · simp only [hc0, beq_self_eq_true, Bool.true_and]
          rw [Bool.eq_iff_iff]
          constructor
          · intro hv
            simp only [refsVia, List.any_eq_true, beq_iff_eq] at hv
            obtain ⟨f, hf, hfv⟩ := hv
            have hp := passed_cascade hpass ((hmem1 _).mpr ⟨r0, h0, hd, rfl⟩) ((hg r0).1.trans hc0) hf hfv
            exact (refB_iff (hg2 r0) .cascade (.inl rfl) c i).mpr ⟨f, hc0 ▸ hf, hc0 ▸ hp, hfv⟩
          · intro hb
            obtain ⟨f, hf, hpol, hv⟩ := (refB_iff (hg2 r0) .cascade (.inl rfl) c i).mp hb
            simp only [refsVia, List.any_eq_true, beq_iff_eq]
            exact ⟨f, hc0 ▸ hf, hv⟩
        · have : (r0.cls == k) = false := by simp [hc0]
          simp [this]
      have hids : (matching (nullRefs S db1 k (depCols S c k) i) k (depCols S c k) i).map (·.id) =
          ((alive db0 D k).filter fun r => refB S .cascade r c i).map (·.id) := by
        simp only [matching, hrows2, alive, List.filter_map, List.filter_filter, List.map_map]
        have hid : ((fun r : Row => r.id) ∘ g2) = fun r => r.id := by
          funext r; exact (hg2 r).2.1
        rw [hid]
        congr 1
        apply List.filter_congr
        intro r0 h0
        cases hd : D.contains r0.key with
        | true => simp
        | false =>
          have := hq r0 h0 hd
          simp only [Function.comp] at this ⊢
          simp [this, Bool.and_comm]
      by_cases hcas : hasPolicy S k (depCols S c k) .cascade = true
      · simp only [hcas, if_true]
        rw [hids]
        apply destroyRows_sim h k _ _ _ hsim2
        intro j hj
        simp only [List.mem_map, List.mem_filter] at hj
        obtain ⟨r0, ⟨hr0, _⟩, rfl⟩ := hj
        obtain ⟨h0, hc0, _⟩ := mem_alive.mp hr0
        exact ⟨r0, h0, by simp [Row.key, hc0]⟩
      · simp only [hcas, Bool.false_eq_true, if_false]
        have h2 : (alive db0 D k).filter (fun r => refB S .cascade r c i) = [] := by
          rw [List.filter_eq_nil_iff]
          intro r hr hb
          apply hcas
          simp only [refB, List.any_eq_true, Bool.and_eq_true, beq_iff_eq] at hb
          obtain ⟨f, hf, hpol, _⟩ := hb
          have hc0 := (mem_alive.mp hr).2.1
          exact hasPolicy_iff.mpr ⟨f, hc0 ▸ hf, hc0 ▸ hpol⟩
        rw [h2]
        simp only [List.map_nil, travRows, ResSim]
        exact hsim2

theorem procDeps_sim {S : Schema} {db0 : DB} {rec : DB → Nat → Nat → Res} {trec : List Key → Nat → Nat → TRes}
    (h : RecSim S db0 rec trec) (c i : Nat) :
    ∀ (ks : List Nat) (D : List Key) (db : DB), Sim S db0 D db →
      ResSim S db0 (procDeps S rec c i ks db) (travDeps S db0 trec c i ks D) := by
  intro ks
  induction ks with
  | nil => intro D db hs; exact hs
  | cons k ks ih =>
    intro D db hs
    unfold procDeps travDeps
    have hr := procDep_sim h c i D db k hs
    cases h1 : procDep S rec c i db k <;> cases h2 : travDep S db0 trec c i D k <;> rw [h1, h2] at hr <;>
      simp only [ResSim] at hr ⊢
    · exact ih _ _ hr
    all_goals first | exact hr | trivial

theorem destroyStep_sim {S : Schema} {db0 : DB} {rec : DB → Nat → Nat → Res} {trec : List Key → Nat → Nat → TRes}
    (h : RecSim S db0 rec trec) : RecSim S db0 (destroyStep S rec) (travStep S db0 trec) := by
  intro D db c i hs
  unfold destroyStep travStep
  simp only
  have hs1 : Sim S db0 D { db with links := delOwnLinks S c i db.links } := by
    obtain ⟨g, hg, hrows⟩ := hs
    exact ⟨g, hg, hrows⟩
  have hr := procDeps_sim h c i (dependents S c) D _ hs1
  cases h1 : procDeps S rec c i (dependents S c) { db with links := delOwnLinks S c i db.links } <;>
    cases h2 : travDeps S db0 trec c i (dependents S c) D <;> rw [h1, h2] at hr <;> simp only [ResSim] at hr ⊢
  · -- both went through: the victim's row goes, its key joins `D`
    obtain ⟨g, hg, hrows⟩ := hr
    refine ⟨g, hg, ?_⟩
    simp only [delRow, hrows, List.filter_map, List.filter_filter]
    congr 1
    apply List.filter_congr
    intro r _
    have hk : (g r).cls = r.cls ∧ (g r).id = r.id := ⟨(hg r).1, (hg r).2.1⟩
    simp only [Function.comp, hk.1, hk.2, List.contains_cons, Row.key, Bool.not_or]
    have hpair : ((r.cls, r.id) == (c, i)) = (r.cls == c && r.id == i) := by
      rw [Bool.eq_iff_iff]; simp [Prod.ext_iff]
    rw [hpair]
  all_goals first | exact hr | trivial

theorem trav_sim (S : Schema) (db0 : DB) : ∀ n, RecSim S db0 (destroy S n) (trav S db0 n)
  | 0 => fun _ _ _ _ _ => trivial
  | n + 1 => destroyStep_sim (trav_sim S db0 n)

theorem Sim.init (S : Schema) (db : DB) : Sim S db [] db :=
  ⟨id, fun _ => ⟨rfl, rfl, fun _ _ => rfl⟩, by simp only [List.contains_nil, Bool.not_false, List.map_id]; exact (List.filter_eq_self.mpr (fun _ _ => rfl)).symm⟩

end SqlObjVerif.Graph
