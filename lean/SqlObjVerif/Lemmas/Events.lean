import SqlObjVerif.Model.Events
/-! Helper lemmas for C19: what one `send` amounts to for an arbitrary listener list, the
    single-attribute path equals `set` with a one-key dict, per-operation log shapes. -/
namespace SqlObjVerif.Events

def tags (es : List Entry) : List Tag := es.map Entry.tag

theorem actPost_append (sig : Sig) (a : Act) (pf : List Nat) :
    actPost sig a pf = pf ++ actPost sig a [] := by
  unfold actPost
  split
  · cases a <;> simp
  · simp

/-- kwargs after a `send` = the listeners' edits folded in connection order -/
theorem deliver_kw (sig : Sig) (id : Option Nat) (L : List Listener) :
    ∀ (i : Nat) (kw : Kw) (pf : List Nat), (deliver sig id i L kw pf).1 = rewrite sig L kw := by
  induction L with
  | nil => intro i kw pf; rfl
  | cons l ls ih =>
    intro i kw pf
    simp only [deliver, rewrite]
    split
    · simp only [ih]
    · simp only [ih]

/-- post_funcs after a `send` = what was there plus every appended callback, in connection order -/
theorem deliver_pf (sig : Sig) (id : Option Nat) (L : List Listener) :
    ∀ (i : Nat) (kw : Kw) (pf : List Nat), (deliver sig id i L kw pf).2.1 = pf ++ posts sig L := by
  induction L with
  | nil => intro i kw pf; simp [deliver, posts]
  | cons l ls ih =>
    intro i kw pf
    simp only [deliver, posts]
    split
    · simp only [ih]
      rw [actPost_append]
      simp
    · simp only [ih]
      simp

/-- the calls made by a `send`: every listener connected for `sig`, once, in connection order -/
theorem deliver_tags (sig : Sig) (id : Option Nat) (L : List Listener) :
    ∀ (i : Nat) (kw : Kw) (pf : List Nat),
      tags (deliver sig id i L kw pf).2.2 = (recipients sig i L).map (Tag.ev sig) := by
  induction L with
  | nil => intro i kw pf; rfl
  | cons l ls ih =>
    intro i kw pf
    simp only [deliver, recipients]
    split
    · simp only [tags, List.map_cons, Entry.tag]
      have := ih (i + 1) (actKw sig l.act kw) (actPost sig l.act pf)
      simp only [tags] at this
      rw [this]
    · exact ih _ _ _

/-- every call of a `send` is for that signal and that instance -/
theorem deliver_entries (sig : Sig) (id : Option Nat) (L : List Listener) :
    ∀ (i : Nat) (kw : Kw) (pf : List Nat), ∀ e ∈ (deliver sig id i L kw pf).2.2,
      ∃ lis p, e = Entry.ev sig lis id p := by
  induction L with
  | nil => intro i kw pf e he; simp [deliver] at he
  | cons l ls ih =>
    intro i kw pf e he
    simp only [deliver] at he
    split at he
    · simp only [List.mem_cons] at he
      rcases he with rfl | he
      · exact ⟨_, _, rfl⟩
      · exact ih _ _ _ e he
    · exact ih _ _ _ e he

theorem tags_append (a b : List Entry) : tags (a ++ b) = tags a ++ tags b := by simp [tags]
theorem tags_cons (a : Entry) (b : List Entry) : tags (a :: b) = a.tag :: tags b := by simp [tags]
theorem tags_posts (ps : List Nat) (id : Nat) : tags (ps.map (fun p => Entry.post p id)) = ps.map Tag.post := by
  simp [tags, Entry.tag, Function.comp_def]

theorem afterUpdate_tags (c : Cfg) (id : Nat) : tags (afterUpdate c id) = afterUpdateShape c := by
  simp only [afterUpdate, afterUpdateShape, tags_append, deliver_tags, deliver_pf, tags_posts, evTags, postTags,
    List.nil_append]


theorem kw_single_of (d : Kw) (k : Key) (h1 : d.length = 1) (h2 : (Kw.get d k).isSome = true) :
    ∃ v, d = [(k, v)] := by
  match d, h1 with
  | [(k', v)], _ =>
    simp only [Kw.get, List.lookup] at h2
    by_cases hk : k = k'
    · subst hk; exact ⟨v, rfl⟩
    · have : (k == k') = false := by simpa using hk
      simp [this] at h2

theorem colVec_single (n : Nat) (k : Key) (v : Val) : colVec n [(k, v)] = single n k v := by
  unfold colVec single
  apply List.map_congr_left
  intro j _
  simp only [Kw.get, List.lookup]
  by_cases hk : k = j
  · subst hk; simp
  · have : (j == k) = false := by simpa using (fun h => hk h.symm)
    simp [this, hk]

theorem vecInvalid_single (n : Nat) (k : Key) (v : Val) (hk : k < n) :
    vecInvalid (single n k v) = decide (v = .bad) := by
  unfold vecInvalid single
  by_cases hv : v = .bad
  · subst hv
    simp only [decide_true, List.contains_iff_mem, List.mem_map, List.mem_range]
    exact ⟨k, hk, by simp⟩
  · simp only [hv, decide_false]
    rw [Bool.eq_false_iff]
    intro h
    simp only [List.contains_iff_mem, List.mem_map, List.mem_range] at h
    obtain ⟨j, _, hj⟩ := h
    split at hj
    · simp at hj; exact hv hj
    · simp at hj

theorem vecEmpty_single (n : Nat) (k : Key) (v : Val) (hk : k < n) : vecEmpty (single n k v) = false := by
  unfold vecEmpty single
  rw [Bool.eq_false_iff]
  intro h
  simp only [List.all_eq_true, List.mem_map, List.mem_range] at h
  have := h (some v) ⟨k, hk, by simp⟩
  simp at this

theorem unknownKey_single (n : Nat) (k : Key) (v : Val) (hk : k < n) : unknownKey n [(k, v)] = false := by
  simp [unknownKey]; omega

/-- the single-attribute path (`_SO_setValue`) does exactly what `set` does with a one-key dict -/
theorem assign_eq_set (c : Cfg) (s : State) (h : Nat) (o : Obj) (k : Key) (v : Val) (hk : k < c.ncols) :
    opAssign c s h o k v = opSet c s h o [(k, v)] := by
  unfold opAssign opSet
  simp only []
  split
  · rfl
  · rename_i hch
    simp only [not_or, Decidable.not_not] at hch
    obtain ⟨hlen, hget⟩ := hch
    have hsome : (Kw.get (deliver Sig.update (some o.id) 0 c.listeners [(k, v)] []).1 k).isSome = true := by
      cases hg : Kw.get (deliver Sig.update (some o.id) 0 c.listeners [(k, v)] []).1 k with
      | none => simp [hg] at hget
      | some x => rfl
    obtain ⟨v', hd⟩ := kw_single_of _ k hlen hsome
    have hv' : (Kw.get (deliver Sig.update (some o.id) 0 c.listeners [(k, v)] []).1 k).getD .null = v' := by
      rw [hd]; simp [Kw.get, List.lookup]
    rw [hv']
    unfold setCore
    simp only [hd, colVec_single, vecInvalid_single _ _ _ hk, unknownKey_single _ _ _ hk, vecEmpty_single _ _ _ hk]
    by_cases hb : v' = .bad
    · simp [hb]
    · simp only [hb, decide_false, if_false]
      cases c.lazy <;> simp
theorem tags_nil : tags [] = [] := rfl

theorem opSet_tags_before (c : Cfg) (s : State) (h : Nat) (o : Obj) (kw : Kw) :
    (opSet c s h o kw).2.1 = (deliver .update (some o.id) 0 c.listeners kw []).2.2
      ++ (setCore c s h o (rewrite .update c.listeners kw)).2.1 := by
  simp [opSet, deliver_kw]

/-- eager `set`: success -/
theorem set_eager_ok (c : Cfg) (s : State) (h : Nat) (o : Obj) (kw : Kw) (hl : c.lazy = false)
    (hv : vecInvalid (colVec c.ncols (rewrite .update c.listeners kw)) = false)
    (hu : unknownKey c.ncols (rewrite .update c.listeners kw) = false) :
    (opSet c s h o kw).2.2 = .ok
    ∧ tags (opSet c s h o kw).2.1
        = updateShape c o.id (!vecEmpty (colVec c.ncols (rewrite .update c.listeners kw)))
    ∧ (opSet c s h o kw).1 =
        (if vecEmpty (colVec c.ncols (rewrite .update c.listeners kw)) then s
         else { s with rows := updRows s.rows o.id (colVec c.ncols (rewrite .update c.listeners kw)) }) := by
  simp only [opSet, deliver_kw, setCore, hv, hu, hl]
  cases he : vecEmpty (colVec c.ncols (rewrite .update c.listeners kw))
  · simp [tags_append, tags_cons, deliver_tags, afterUpdate_tags, updateShape, evTags, Entry.tag]
  · simp [tags_append, deliver_tags, afterUpdate_tags, updateShape, evTags]

/-- eager `set`: a rejected value or an unknown keyword — before-events only, nothing changes -/
theorem set_eager_fail (c : Cfg) (s : State) (h : Nat) (o : Obj) (kw : Kw) (hl : c.lazy = false)
    (hbad : vecInvalid (colVec c.ncols (rewrite .update c.listeners kw)) = true
            ∨ unknownKey c.ncols (rewrite .update c.listeners kw) = true) :
    (opSet c s h o kw).2.2 ≠ .ok
    ∧ tags (opSet c s h o kw).2.1 = evTags c .update
    ∧ (opSet c s h o kw).1 = s := by
  simp only [opSet, deliver_kw, setCore, hl]
  cases hv : vecInvalid (colVec c.ncols (rewrite .update c.listeners kw))
  · have hu : unknownKey c.ncols (rewrite .update c.listeners kw) = true := by
      rcases hbad with h | h
      · simp [hv] at h
      · exact h
    simp [hu, tags_append, deliver_tags, evTags, tags_nil]
  · simp [tags_append, deliver_tags, evTags, tags_nil]

/-- lazy `set`: only the before-events; the rewritten column values become pending -/
theorem set_lazy (c : Cfg) (s : State) (h : Nat) (o : Obj) (kw : Kw) (hl : c.lazy = true) :
    tags (opSet c s h o kw).2.1 = evTags c .update
    ∧ (opSet c s h o kw).1.rows = s.rows
    ∧ ((opSet c s h o kw).2.2 = .ok →
        (opSet c s h o kw).1 = s.setObj h { o with pending := mergeVec o.pending (colVec c.ncols (rewrite .update c.listeners kw)) })
    ∧ ((opSet c s h o kw).2.2 ≠ .ok → (opSet c s h o kw).1 = s)
    ∧ ((opSet c s h o kw).2.2 = .ok ↔
        (vecInvalid (colVec c.ncols (rewrite .update c.listeners kw)) = false
          ∧ unknownKey c.ncols (rewrite .update c.listeners kw) = false)) := by
  simp only [opSet, deliver_kw, setCore, hl]
  cases hv : vecInvalid (colVec c.ncols (rewrite .update c.listeners kw))
  · cases hu : unknownKey c.ncols (rewrite .update c.listeners kw) <;>
      simp [tags_append, deliver_tags, evTags, tags_nil, State.setObj]
  · simp [tags_append, deliver_tags, evTags, tags_nil]

theorem syncUpdate_nothing (c : Cfg) (s : State) (h : Nat) (o : Obj) (he : vecEmpty o.pending = true) :
    opSyncUpdate c s h o = (s, [], .ok) := by
  simp [opSyncUpdate, he]

theorem syncUpdate_pending (c : Cfg) (s : State) (h : Nat) (o : Obj) (he : vecEmpty o.pending = false) :
    (opSyncUpdate c s h o).2.2 = .ok
    ∧ tags (opSyncUpdate c s h o).2.1 = Tag.upd o.id :: afterUpdateShape c
    ∧ (opSyncUpdate c s h o).1.rows = updRows s.rows o.id o.pending
    ∧ (opSyncUpdate c s h o).1.objs = s.objs.set h { o with pending := List.replicate c.ncols none } := by
  simp [opSyncUpdate, he, tags_cons, afterUpdate_tags, Entry.tag]

theorem destroy_spec (c : Cfg) (s : State) (o : Obj) :
    (opDestroy c s o).2.2 = .ok
    ∧ tags (opDestroy c s o).2.1 = destroyShape c o.id
    ∧ (opDestroy c s o).1 = { s with rows := delRows s.rows o.id } := by
  simp [opDestroy, tags_append, tags_cons, deliver_tags, deliver_pf, tags_posts, destroyShape, evTags, postTags,
    Entry.tag]

theorem create_ok (c : Cfg) (s : State) (kw : Kw)
    (hv : (newRow c (rewrite .create c.listeners kw)).contains .bad = false)
    (hu : unknownKey c.ncols (rewrite .create c.listeners kw) = false) :
    (opCreate c s kw).2.2 = .ok
    ∧ tags (opCreate c s kw).2.1 = createShape c s.nextId
    ∧ (opCreate c s kw).1 =
        { rows := s.rows ++ [(s.nextId, newRow c (rewrite .create c.listeners kw))], nextId := s.nextId + 1,
          objs := s.objs ++ [{ id := s.nextId, pending := List.replicate c.ncols none }] } := by
  simp only [opCreate, deliver_kw, hv, hu, Bool.false_eq_true, if_false]
  simp [tags_append, tags_cons, deliver_tags, deliver_pf, tags_posts, createShape, evTags, postTags, Entry.tag]

theorem create_fail (c : Cfg) (s : State) (kw : Kw)
    (hbad : (newRow c (rewrite .create c.listeners kw)).contains .bad = true
            ∨ unknownKey c.ncols (rewrite .create c.listeners kw) = true) :
    (opCreate c s kw).2.2 ≠ .ok
    ∧ tags (opCreate c s kw).2.1 = evTags c .create
    ∧ (opCreate c s kw).1 = s := by
  simp only [opCreate, deliver_kw]
  cases hv : (newRow c (rewrite .create c.listeners kw)).contains .bad
  · have hu : unknownKey c.ncols (rewrite .create c.listeners kw) = true := by
      rcases hbad with h | h
      · rw [hv] at h; cases h
      · exact h
    simp [hu, deliver_tags, evTags]
  · simp [deliver_tags, evTags]


theorem rowOf_updRows (rows : List (Nat × List Val)) (id : Nat) (vec : List (Option Val)) (id' : Nat) :
    rowOf? (updRows rows id vec) id' =
      if id' = id then (rowOf? rows id').map (fun r => applyVec r vec) else rowOf? rows id' := by
  induction rows with
  | nil => simp [rowOf?, updRows, List.lookup]
  | cons r rs ih =>
    simp only [rowOf?, updRows, List.map_cons] at ih ⊢
    obtain ⟨rid, rv⟩ := r
    by_cases h1 : id' = rid
    · subst h1
      by_cases h2 : id' = id
      · subst h2; simp [List.lookup]
      · simp [List.lookup, h2]
    · have hb : (id' == rid) = false := by simpa using h1
      by_cases h3 : rid = id
      · subst h3
        simp only [if_true, List.lookup, hb]
        exact ih
      · simp only [h3, if_false, List.lookup, hb]
        exact ih

theorem colVec_get (n : Nat) (kw : Kw) (k : Nat) (hk : k < n) : (colVec n kw)[k]? = some (Kw.get kw k) := by
  simp [colVec, hk]

/-- column `k` of the row after an UPDATE with the column part of `kw`: the kwargs value when the
    dict has the key, else what the row held -/
theorem applyVec_colVec (row : List Val) (n : Nat) (kw : Kw) (k : Nat) (hk : k < n) :
    (applyVec row (colVec n kw))[k]? = (row[k]?).map (fun old => (Kw.get kw k).getD old) := by
  simp only [applyVec, List.getElem?_zipWith, colVec_get n kw k hk]
  cases row[k]? <;> simp

theorem newRow_get (c : Cfg) (kw : Kw) (k : Nat) (hk : k < c.ncols) :
    (newRow c kw)[k]? = some ((Kw.get kw k).getD (c.dflt k)) := by
  simp [newRow, hk]

theorem mergeVec_get (p vec : List (Option Val)) (k : Nat) :
    (mergeVec p vec)[k]? = match p[k]?, vec[k]? with
      | some old, some nv => some (pick old nv)
      | _, _ => none := by
  simp only [mergeVec, List.getElem?_zipWith]
  cases p[k]? <;> cases vec[k]? <;> simp

end SqlObjVerif.Events

namespace SqlObjVerif.Events.Chain
open SqlObjVerif.Events

theorem split_append {α : Type} {l1 l2 pre suf : List α} {e : α} (h : l1 ++ l2 = pre ++ e :: suf) :
    (∃ suf', l1 = pre ++ e :: suf') ∨ (∃ pre', pre = l1 ++ pre' ∧ l2 = pre' ++ e :: suf) := by
  rw [List.append_eq_append_iff] at h
  rcases h with ⟨a, h1, h2⟩ | ⟨a, h1, h2⟩
  · exact Or.inr ⟨a, h1, h2.symm ▸ rfl⟩
  · cases a with
    | nil => simp at h1 h2; exact Or.inr ⟨[], by simp [h1], by simp [h2]⟩
    | cons x a =>
      simp only [List.cons_append, List.cons.injEq] at h2
      obtain ⟨rfl, rfl⟩ := h2
      exact Or.inl ⟨a, h1⟩

def isCreated : CEntry → Prop
  | .ev .created _ _ _ => True
  | _ => False

theorem conv_deliver_create (L : List Listener) (level : Nat) (e : CEntry)
    (he : e ∈ (deliver .create none 0 L [] []).2.2.map (conv level)) : ¬ isCreated e := by
  simp only [List.mem_map] at he
  obtain ⟨x, hx, rfl⟩ := he
  obtain ⟨lis, p, rfl⟩ := deliver_entries .create none L 0 [] [] x hx
  simp [conv, isCreated]

theorem construct_no_created (cfg : CCfg) (id : Nat) (level : Nat) :
    ∀ e ∈ (construct cfg id level).1, ¬ isCreated e := by
  induction level with
  | zero =>
    intro e he
    simp only [construct, List.mem_append, List.mem_cons, List.mem_map] at he
    rcases he with he | rfl | ⟨p, _, rfl⟩
    · exact conv_deliver_create _ 0 e (by simpa using he)
    · simp [isCreated]
    · simp [isCreated]
  | succ l ih =>
    intro e he
    simp only [construct, List.mem_append, List.mem_cons, List.mem_map] at he
    rcases he with (he | he) | rfl | ⟨p, _, rfl⟩
    · exact conv_deliver_create _ (l + 1) e (by simpa using he)
    · exact ih e he
    · simp [isCreated]
    · simp [isCreated]

theorem construct_ins (cfg : CCfg) (id : Nat) (level : Nat) :
    ∀ j, j ≤ level → CEntry.ins j id ∈ (construct cfg id level).1 := by
  induction level with
  | zero =>
    intro j hj
    have : j = 0 := by omega
    subst this
    simp [construct]
  | succ l ih =>
    intro j hj
    simp only [construct, List.mem_append, List.mem_cons]
    by_cases h : j = l + 1
    · subst h; exact Or.inr (Or.inl rfl)
    · exact Or.inl (Or.inr (ih j (by omega)))

theorem sendCreated_entries (cfg : CCfg) (j id : Nat) :
    ∀ e ∈ sendCreated cfg j id, (∃ lis, e = CEntry.ev .created j lis (some id)) ∨ (∃ p, e = CEntry.post p j id) := by
  intro e he
  simp only [sendCreated, List.mem_map, List.mem_append] at he
  obtain ⟨x, hx, rfl⟩ := he
  rcases hx with hx | ⟨p, _, rfl⟩
  · obtain ⟨lis, p, rfl⟩ := deliver_entries .created (some id) _ 0 [] [] x hx
    exact Or.inl ⟨lis, rfl⟩
  · exact Or.inr ⟨p, rfl⟩

/-- created-events of one top-level constructor call are for that object only -/
theorem createObj_created_id (cfg : CCfg) (id level : Nat) (lv lis : Nat) (i : Option Nat)
    (h : CEntry.ev .created lv lis i ∈ createObj cfg id level) : i = some id := by
  simp only [createObj, List.mem_append, List.mem_flatMap] at h
  rcases h with h | ⟨j, _, h⟩
  · exact absurd (by simp [isCreated]) (construct_no_created cfg id level _ h)
  · rcases sendCreated_entries cfg j id _ h with ⟨l, hl⟩ | ⟨p, hp⟩
    · simp at hl; exact hl.2.2
    · simp at hp

theorem runCreates_created_id (cfg : CCfg) (levels : List Nat) :
    ∀ (m : Nat) (lv lis : Nat) (i : Nat), CEntry.ev .created lv lis (some i) ∈ runCreates cfg m levels → m ≤ i := by
  induction levels with
  | nil => intro m lv lis i h; simp [runCreates] at h
  | cons level rest ih =>
    intro m lv lis i h
    simp only [runCreates, List.mem_append] at h
    rcases h with h | h
    · have := createObj_created_id cfg m level lv lis _ h
      simp at this; omega
    · have := ih (m + 1) lv lis i h
      omega

/-- for every chain depth, listener layout and create order: a RowCreatedSignal of object `id`
    is delivered only after the INSERTs of all levels of that object -/
theorem created_after_all_levels (cfg : CCfg) (levels : List Nat) :
    ∀ (nextId n : Nat) (hn : n < levels.length) (pre suf : List CEntry) (lv lis : Nat),
      runCreates cfg nextId levels = pre ++ CEntry.ev .created lv lis (some (nextId + n)) :: suf →
      ∀ j, j ≤ levels[n] → CEntry.ins j (nextId + n) ∈ pre := by
  induction levels with
  | nil => intro nextId n hn; simp at hn
  | cons level rest ih =>
    intro nextId n hn pre suf lv lis h j hj
    simp only [runCreates] at h
    rcases split_append h with ⟨suf', h1⟩ | ⟨pre', hpre, h2⟩
    · -- the event belongs to the first object
      have hid := createObj_created_id cfg nextId level lv lis (some (nextId + n)) (by rw [h1]; simp)
      have hn0 : n = 0 := by simp at hid; omega
      subst hn0
      simp only [List.getElem_cons_zero] at hj
      simp only [createObj] at h1
      rcases split_append h1 with ⟨s2, h3⟩ | ⟨p2, hp2, _⟩
      · have hm : CEntry.ev .created lv lis (some (nextId + 0)) ∈ (construct cfg nextId level).1 := by
          rw [h3]; simp
        exact absurd (by simp [isCreated]) (construct_no_created cfg nextId level _ hm)
      · rw [hp2]
        exact List.mem_append_left _ (by simpa using construct_ins cfg nextId level j hj)
    · -- the event belongs to a later object
      have hmem : CEntry.ev .created lv lis (some (nextId + n)) ∈ runCreates cfg (nextId + 1) rest := by
        rw [h2]; simp
      have hge := runCreates_created_id cfg rest (nextId + 1) lv lis _ hmem
      obtain ⟨n', rfl⟩ : ∃ n', n = n' + 1 := ⟨n - 1, by omega⟩
      have hn' : n' < rest.length := by simpa using hn
      have heq : nextId + (n' + 1) = nextId + 1 + n' := by omega
      rw [heq] at h2 ⊢
      simp only [List.getElem_cons_succ] at hj
      rw [hpre]
      exact List.mem_append_right _ (ih (nextId + 1) n' hn' pre' suf lv lis h2 j hj)

end SqlObjVerif.Events.Chain

namespace SqlObjVerif.Events

/-- ids of the INSERT statements in a log, in order -/
def insIds (log : List Entry) : List Nat :=
  log.filterMap (fun e => match e with | .ins id _ => some id | _ => none)

/-- ids for which listener `ℓ` was called with RowCreatedSignal, in order -/
def createdEvs (ℓ : Nat) (log : List Entry) : List Nat :=
  log.filterMap (fun e => match e with
    | .ev .created l (some id) _ => if l = ℓ then some id else none
    | _ => none)

theorem insIds_append (a b : List Entry) : insIds (a ++ b) = insIds a ++ insIds b := by
  simp [insIds, List.filterMap_append]
theorem createdEvs_append (ℓ : Nat) (a b : List Entry) : createdEvs ℓ (a ++ b) = createdEvs ℓ a ++ createdEvs ℓ b := by
  simp [createdEvs, List.filterMap_append]

theorem insIds_deliver (sig : Sig) (id : Option Nat) (L : List Listener) :
    ∀ (i : Nat) (kw : Kw) (pf : List Nat), insIds (deliver sig id i L kw pf).2.2 = [] := by
  induction L with
  | nil => intro i kw pf; rfl
  | cons l ls ih =>
    intro i kw pf
    simp only [deliver]
    split
    · simp only [insIds, List.filterMap_cons]
      exact ih _ _ _
    · exact ih _ _ _

theorem insIds_posts (ps : List Nat) (id : Nat) : insIds (ps.map (fun p => Entry.post p id)) = [] := by
  induction ps with
  | nil => rfl
  | cons p ps ih => simpa [insIds] using ih

theorem createdEvs_posts (ℓ : Nat) (ps : List Nat) (id : Nat) :
    createdEvs ℓ (ps.map (fun p => Entry.post p id)) = [] := by
  induction ps with
  | nil => rfl
  | cons p ps ih => simpa [createdEvs] using ih

theorem createdEvs_deliver_other (ℓ : Nat) (sig : Sig) (hs : sig ≠ .created) (id : Option Nat) (L : List Listener) :
    ∀ (i : Nat) (kw : Kw) (pf : List Nat), createdEvs ℓ (deliver sig id i L kw pf).2.2 = [] := by
  induction L with
  | nil => intro i kw pf; rfl
  | cons l ls ih =>
    intro i kw pf
    simp only [deliver]
    split
    · simp only [createdEvs, List.filterMap_cons]
      cases sig <;> first | exact absurd rfl hs | exact ih _ _ _
    · exact ih _ _ _

theorem recipients_ge (sig : Sig) (L : List Listener) : ∀ (i : Nat), ∀ x ∈ recipients sig i L, i ≤ x := by
  induction L with
  | nil => intro i x hx; simp [recipients] at hx
  | cons l ls ih =>
    intro i x hx
    simp only [recipients] at hx
    split at hx
    · simp only [List.mem_cons] at hx
      rcases hx with rfl | hx
      · exact Nat.le_refl _
      · have := ih (i + 1) x hx; omega
    · have := ih (i + 1) x hx; omega

/-- a listener connected for RowCreatedSignal is called exactly once by one send -/
theorem createdEvs_deliver (ℓ : Nat) (id : Nat) (L : List Listener) :
    ∀ (i : Nat) (kw : Kw) (pf : List Nat), ℓ ∈ recipients .created i L →
      createdEvs ℓ (deliver .created (some id) i L kw pf).2.2 = [id] := by
  induction L with
  | nil => intro i kw pf h; simp [recipients] at h
  | cons l ls ih =>
    intro i kw pf h
    simp only [recipients] at h
    simp only [deliver]
    split
    · rename_i hsig
      simp only [hsig, if_true, List.mem_cons] at h
      simp only [createdEvs, List.filterMap_cons]
      by_cases hi : i = ℓ
      · subst hi
        simp only [if_true]
        -- no later listener has the same index
        have hnot : i ∉ recipients .created (i + 1) ls := by
          intro hm; have := recipients_ge .created ls (i + 1) i hm; omega
        have : ∀ (L : List Listener) (j : Nat) (kw : Kw) (pf : List Nat), i ∉ recipients .created j L →
            createdEvs i (deliver .created (some id) j L kw pf).2.2 = [] := by
          intro L
          induction L with
          | nil => intro j kw pf _; rfl
          | cons l2 ls2 ih2 =>
            intro j kw pf hn
            simp only [recipients] at hn
            simp only [deliver]
            split
            · rename_i hs2
              simp only [hs2, if_true, List.mem_cons, not_or] at hn
              simp only [createdEvs, List.filterMap_cons]
              have hji : ¬ j = i := fun h => hn.1 h.symm
              simp only [hji, if_false]
              exact ih2 _ _ _ hn.2
            · rename_i hs2
              simp only [hs2, if_false] at hn
              exact ih2 _ _ _ hn
        have h0 := this ls (i + 1) (actKw .created l.act kw) (actPost .created l.act pf) hnot
        simp only [createdEvs] at h0
        rw [h0]
      · have hℓ : ℓ ∈ recipients .created (i + 1) ls := by
          rcases h with h | h
          · exact absurd h.symm hi
          · exact h
        simp only [hi, if_false]
        exact ih _ _ _ hℓ
    · rename_i hsig
      simp only [hsig, if_false] at h
      exact ih _ _ _ h

theorem insIds_afterUpdate (c : Cfg) (id : Nat) : insIds (afterUpdate c id) = [] := by
  simp [afterUpdate, insIds_append, insIds_deliver, insIds_posts]

theorem createdEvs_afterUpdate (ℓ : Nat) (c : Cfg) (id : Nat) : createdEvs ℓ (afterUpdate c id) = [] := by
  simp [afterUpdate, createdEvs_append, createdEvs_deliver_other, createdEvs_posts]

theorem insIds_cons_upd (id : Nat) (v : List (Option Val)) (l : List Entry) : insIds (Entry.upd id v :: l) = insIds l := by
  simp [insIds]
theorem createdEvs_cons_upd (ℓ id : Nat) (v : List (Option Val)) (l : List Entry) :
    createdEvs ℓ (Entry.upd id v :: l) = createdEvs ℓ l := by
  simp [createdEvs]

theorem setCore_quiet (ℓ : Nat) (c : Cfg) (s : State) (h : Nat) (o : Obj) (kw : Kw) :
    insIds (setCore c s h o kw).2.1 = [] ∧ createdEvs ℓ (setCore c s h o kw).2.1 = []
    ∧ (setCore c s h o kw).1.nextId = s.nextId := by
  unfold setCore
  simp only []
  split
  · exact ⟨rfl, rfl, rfl⟩
  · split
    · split <;> exact ⟨rfl, rfl, rfl⟩
    · split
      · exact ⟨rfl, rfl, rfl⟩
      · split
        · exact ⟨insIds_afterUpdate _ _, createdEvs_afterUpdate _ _ _, rfl⟩
        · exact ⟨by rw [insIds_cons_upd]; exact insIds_afterUpdate _ _,
                 by rw [createdEvs_cons_upd]; exact createdEvs_afterUpdate _ _ _, rfl⟩


theorem insIds_cons_ins (id : Nat) (r : List Val) (l : List Entry) : insIds (Entry.ins id r :: l) = id :: insIds l := by
  simp [insIds]
theorem insIds_cons_del (id : Nat) (l : List Entry) : insIds (Entry.del id :: l) = insIds l := by
  simp [insIds]
theorem createdEvs_cons_ins (ℓ id : Nat) (r : List Val) (l : List Entry) :
    createdEvs ℓ (Entry.ins id r :: l) = createdEvs ℓ l := by
  simp [createdEvs]
theorem createdEvs_cons_del (ℓ id : Nat) (l : List Entry) : createdEvs ℓ (Entry.del id :: l) = createdEvs ℓ l := by
  simp [createdEvs]

def Quiet (ℓ : Nat) (s : State) (q : State × List Entry × Out) : Prop :=
  insIds q.2.1 = [] ∧ createdEvs ℓ q.2.1 = [] ∧ q.1.nextId = s.nextId

theorem opSet_quiet (ℓ : Nat) (c : Cfg) (s : State) (h : Nat) (o : Obj) (kw : Kw) : Quiet ℓ s (opSet c s h o kw) := by
  have := setCore_quiet ℓ c s h o (deliver .update (some o.id) 0 c.listeners kw []).1
  simp only [Quiet, opSet, insIds_append, createdEvs_append, insIds_deliver,
    createdEvs_deliver_other ℓ .update (by decide), this, List.append_nil, and_self]

theorem opSyncUpdate_quiet (ℓ : Nat) (c : Cfg) (s : State) (h : Nat) (o : Obj) : Quiet ℓ s (opSyncUpdate c s h o) := by
  unfold opSyncUpdate
  split
  · exact ⟨rfl, rfl, rfl⟩
  · exact ⟨by rw [insIds_cons_upd]; exact insIds_afterUpdate _ _,
           by rw [createdEvs_cons_upd]; exact createdEvs_afterUpdate _ _ _, rfl⟩

theorem opSync_quiet (ℓ : Nat) (c : Cfg) (s : State) (h : Nat) (o : Obj) : Quiet ℓ s (opSync c s h o) := by
  have := opSyncUpdate_quiet ℓ c s h o
  unfold opSync
  simp only []
  split
  · exact this
  · exact this

theorem opDestroy_quiet (ℓ : Nat) (c : Cfg) (s : State) (o : Obj) : Quiet ℓ s (opDestroy c s o) := by
  simp [Quiet, opDestroy, insIds_append, createdEvs_append, insIds_deliver, insIds_posts, createdEvs_posts,
    createdEvs_deliver_other ℓ .destroy (by decide), createdEvs_deliver_other ℓ .destroyed (by decide),
    insIds_cons_del, createdEvs_cons_del]

/-- one step either inserts nothing and calls no created-listener, or inserts exactly the next id
    and calls listener `ℓ` exactly once for it -/
theorem step_ins_created (ℓ : Nat) (c : Cfg) (hℓ : ℓ ∈ recipients .created 0 c.listeners) (s : State) (op : Op) :
    Quiet ℓ s (step c s op) ∨
    (insIds (step c s op).2.1 = [s.nextId] ∧ createdEvs ℓ (step c s op).2.1 = [s.nextId]
      ∧ (step c s op).1.nextId = s.nextId + 1) := by
  cases op with
  | create kw =>
    simp only [step, opCreate]
    split
    · left
      exact ⟨insIds_deliver _ _ _ _ _ _, createdEvs_deliver_other ℓ .create (by decide) _ _ _ _ _, rfl⟩
    · split
      · left
        exact ⟨insIds_deliver _ _ _ _ _ _, createdEvs_deliver_other ℓ .create (by decide) _ _ _ _ _, rfl⟩
      · right
        refine ⟨?_, ?_, rfl⟩
        · simp [insIds_append, insIds_deliver, insIds_posts, insIds_cons_ins]
        · simp only [createdEvs_append, createdEvs_deliver_other ℓ .create (by decide), List.nil_append]
          rw [createdEvs_cons_ins, createdEvs_append, createdEvs_append, createdEvs_posts, createdEvs_posts,
            createdEvs_deliver ℓ s.nextId c.listeners 0 [] [] hℓ]
          rfl
  | assign h k v =>
    left
    simp only [step]
    split
    · exact ⟨rfl, rfl, rfl⟩
    · split
      · rename_i hk
        rw [assign_eq_set _ _ _ _ _ _ hk]
        exact opSet_quiet _ _ _ _ _ _
      · exact ⟨rfl, rfl, rfl⟩
  | set h kw =>
    left
    simp only [step]
    split
    · exact ⟨rfl, rfl, rfl⟩
    · exact opSet_quiet _ _ _ _ _ _
  | syncUpdate h =>
    left
    simp only [step]
    split
    · exact ⟨rfl, rfl, rfl⟩
    · exact opSyncUpdate_quiet _ _ _ _ _
  | sync h =>
    left
    simp only [step]
    split
    · exact ⟨rfl, rfl, rfl⟩
    · exact opSync_quiet _ _ _ _ _
  | destroy h =>
    left
    simp only [step]
    split
    · exact ⟨rfl, rfl, rfl⟩
    · exact opDestroy_quiet _ _ _ _
  | fetch h =>
    left
    simp only [step]
    split
    · exact ⟨rfl, rfl, rfl⟩
    · split <;> exact ⟨rfl, rfl, rfl⟩
  | select => left; exact ⟨rfl, rfl, rfl⟩

/-- for every history: the ids inserted are `s.nextId, s.nextId+1, …` (each once, in order) and a
    listener connected for RowCreatedSignal was called for exactly that sequence of rows -/
theorem run_ins_created (ℓ : Nat) (c : Cfg) (hℓ : ℓ ∈ recipients .created 0 c.listeners) (ops : List Op) :
    ∀ (s : State), s.nextId ≤ (run c s ops).1.nextId
      ∧ insIds (run c s ops).2 = List.range' s.nextId ((run c s ops).1.nextId - s.nextId)
      ∧ createdEvs ℓ (run c s ops).2 = insIds (run c s ops).2 := by
  induction ops with
  | nil => intro s; simp [run, insIds, createdEvs]
  | cons op ops ih =>
    intro s
    simp only [run, insIds_append, createdEvs_append]
    obtain ⟨h1, h2, h3⟩ := ih (step c s op).1
    rcases step_ins_created ℓ c hℓ s op with ⟨q1, q2, q3⟩ | ⟨q1, q2, q3⟩
    · rw [q1, q2, h3, h2, q3]
      rw [q3] at h1
      exact ⟨h1, by simp, by simp⟩
    · rw [q1, q2, h3, h2, q3]
      rw [q3] at h1
      refine ⟨by omega, ?_, by simp⟩
      have : (run c (step c s op).1 ops).1.nextId - s.nextId = ((run c (step c s op).1 ops).1.nextId - (s.nextId + 1)) + 1 := by
        omega
      rw [this, List.range'_succ]
      simp

end SqlObjVerif.Events

namespace SqlObjVerif.Events
/-- in a segment `before ++ write :: rest` whose `before` part holds no callback run, every
    callback run comes after the write -/
theorem post_after_write (A B : List Tag) (w : Tag) (hA : ∀ t ∈ A, ∀ p, t ≠ Tag.post p) (hw : ∀ p, w ≠ Tag.post p)
    (pre suf : List Tag) (p : Nat) (h : A ++ w :: B = pre ++ Tag.post p :: suf) : w ∈ pre := by
  rcases Chain.split_append h with ⟨s', h1⟩ | ⟨pre', hp, h2⟩
  · exact absurd rfl (hA (Tag.post p) (by rw [h1]; simp) p)
  · cases pre' with
    | nil => simp at h2; exact absurd h2.1 (hw p)
    | cons x xs =>
      simp only [List.cons_append, List.cons.injEq] at h2
      rw [hp, h2.1]; simp

theorem evTags_no_post (c : Cfg) (sig : Sig) : ∀ t ∈ evTags c sig, ∀ p, t ≠ Tag.post p := by
  intro t ht p
  simp only [evTags, List.mem_map] at ht
  obtain ⟨_, _, rfl⟩ := ht
  simp

end SqlObjVerif.Events

/-! ## rows created from inside listeners / callbacks (class B) -/
namespace SqlObjVerif.Events

theorem projA_append (a b : List XEntry) : projA (a ++ b) = projA a ++ projA b := by simp [projA, List.filterMap_append]
theorem projB_append (a b : List XEntry) : projB (a ++ b) = projB a ++ projB b := by simp [projB, List.filterMap_append]
theorem projA_mapb (l : List Entry) : projA (l.map XEntry.b) = [] := by
  induction l with
  | nil => rfl
  | cons x xs ih => simpa [projA] using ih
theorem projB_mapb (l : List Entry) : projB (l.map XEntry.b) = l := by
  induction l with
  | nil => rfl
  | cons x xs ih => simpa [projB] using ih
theorem projA_consa (e : Entry) (l : List XEntry) : projA (XEntry.a e :: l) = e :: projA l := by simp [projA]
theorem projB_consa (e : Entry) (l : List XEntry) : projB (XEntry.a e :: l) = projB l := by simp [projB]

theorem projA_bConstruct (c : Cfg) (LB : List Listener) (n : Nat) : projA (bConstruct c LB n) = [] := projA_mapb _
theorem projA_bCreated (LB : List Listener) (n : Nat) : projA (bCreated LB n) = [] := projA_mapb _

theorem projA_flush (LB : List Listener) (q : List Nat) : projA (flush LB q) = [] := by
  induction q with
  | nil => rfl
  | cons x xs ih =>
    simp only [flush, List.flatMap_cons, projA_append, projA_bCreated, List.nil_append] at ih ⊢
    exact ih

/-- the entries of the operated class are untouched by the spawning listeners -/
theorem projA_expandNested (c : Cfg) (LB L : List Listener) (es : List Entry) :
    ∀ nB, projA (expandNested c LB L es nB).1 = es := by
  induction es with
  | nil => intro nB; rfl
  | cons e es ih =>
    intro nB
    simp only [expandNested]
    split
    · simp [projA_consa, projA_append, projA_bConstruct, ih]
    · simp [projA_consa, ih]

theorem projA_expandInline (c : Cfg) (LB L : List Listener) (es : List Entry) :
    ∀ nB, projA (expandInline c LB L es nB).1 = es := by
  induction es with
  | nil => intro nB; rfl
  | cons e es ih =>
    intro nB
    simp only [expandInline]
    split
    · simp [projA_consa, projA_append, projA_bConstruct, projA_bCreated, ih]
    · simp [projA_consa, ih]

/-- **with spawning listeners the class's own log, state and outcome are exactly those of `step`** -/
theorem stepX_projA (c : Cfg) (LB : List Listener) (s : State) (nB : Nat) (op : Op) :
    (stepX c LB s nB op).1.1 = (step c s op).1
    ∧ projA (stepX c LB s nB op).1.2.1 = (step c s op).2.1
    ∧ (stepX c LB s nB op).1.2.2 = (step c s op).2.2 := by
  cases op with
  | create kw =>
    simp only [stepX, step, opCreateX, opCreate]
    split
    · simp [projA_append, projA_expandNested, projA_flush]
    · split
      · simp [projA_append, projA_expandNested, projA_flush]
      · simp [projA_append, projA_consa, projA_expandNested, projA_flush]
  | assign h k v => simp [stepX, projA_expandInline]
  | set h kw => simp [stepX, projA_expandInline]
  | syncUpdate h => simp [stepX, projA_expandInline]
  | sync h => simp [stepX, projA_expandInline]
  | destroy h => simp [stepX, projA_expandInline]
  | fetch h => simp [stepX, projA_expandInline]
  | select => simp [stepX, projA_expandInline]

/-! the rows of class `B` -/

theorem insIds_bConstruct (c : Cfg) (LB : List Listener) (n : Nat) : insIds (projB (bConstruct c LB n)) = [n] := by
  simp only [bConstruct, projB_mapb, insIds_append, insIds_deliver, insIds_cons_ins, insIds_posts, List.nil_append]

theorem createdEvs_bConstruct (ℓ : Nat) (c : Cfg) (LB : List Listener) (n : Nat) :
    createdEvs ℓ (projB (bConstruct c LB n)) = [] := by
  simp only [bConstruct, projB_mapb, createdEvs_append, createdEvs_deliver_other ℓ .create (by decide), createdEvs_cons_ins,
    createdEvs_posts, List.nil_append]

theorem insIds_bCreated (LB : List Listener) (n : Nat) : insIds (projB (bCreated LB n)) = [] := by
  simp only [bCreated, projB_mapb, insIds_append, insIds_deliver, insIds_posts, List.nil_append]

theorem createdEvs_bCreated (ℓ : Nat) (LB : List Listener) (hℓ : ℓ ∈ recipients .created 0 LB) (n : Nat) :
    createdEvs ℓ (projB (bCreated LB n)) = [n] := by
  simp only [bCreated, projB_mapb, createdEvs_append, createdEvs_deliver ℓ n LB 0 [] [] hℓ, createdEvs_posts, List.append_nil]

theorem flush_B (ℓ : Nat) (LB : List Listener) (hℓ : ℓ ∈ recipients .created 0 LB) (q : List Nat) :
    insIds (projB (flush LB q)) = [] ∧ createdEvs ℓ (projB (flush LB q)) = q := by
  induction q with
  | nil => exact ⟨rfl, rfl⟩
  | cons x xs ih =>
    simp only [flush, List.flatMap_cons, projB_append, insIds_append, createdEvs_append, insIds_bCreated,
      createdEvs_bCreated ℓ LB hℓ] at ih ⊢
    exact ⟨ih.1, by rw [ih.2]; rfl⟩

/-- nested context: the ids spawned are `nB, nB+1, …`, all of them pending, none delivered yet -/
theorem expandNested_B (ℓ : Nat) (c : Cfg) (LB L : List Listener) (es : List Entry) :
    ∀ nB, nB ≤ (expandNested c LB L es nB).2.2
      ∧ insIds (projB (expandNested c LB L es nB).1) = List.range' nB ((expandNested c LB L es nB).2.2 - nB)
      ∧ (expandNested c LB L es nB).2.1 = List.range' nB ((expandNested c LB L es nB).2.2 - nB)
      ∧ createdEvs ℓ (projB (expandNested c LB L es nB).1) = [] := by
  induction es with
  | nil => intro nB; simp [expandNested, projB, insIds, createdEvs]
  | cons e es ih =>
    intro nB
    simp only [expandNested]
    split
    · obtain ⟨h1, h2, h3, h4⟩ := ih (nB + 1)
      have hk : (expandNested c LB L es (nB + 1)).2.2 - nB = ((expandNested c LB L es (nB + 1)).2.2 - (nB + 1)) + 1 := by omega
      refine ⟨by simp only; omega, ?_, ?_, ?_⟩
      · simp only [projB_consa, projB_append, insIds_append, insIds_bConstruct, h2]
        rw [hk, List.range'_succ]; rfl
      · simp only [h3]
        rw [hk, List.range'_succ]
      · simp only [projB_consa, projB_append, createdEvs_append, createdEvs_bConstruct, h4, List.append_nil]
    · obtain ⟨h1, h2, h3, h4⟩ := ih nB
      exact ⟨h1, by simpa [projB_consa] using h2, h3, by simpa [projB_consa] using h4⟩

/-- outermost context: every spawned row is inserted and its RowCreatedSignal delivered at once -/
theorem expandInline_B (ℓ : Nat) (c : Cfg) (LB L : List Listener) (hℓ : ℓ ∈ recipients .created 0 LB) (es : List Entry) :
    ∀ nB, nB ≤ (expandInline c LB L es nB).2
      ∧ insIds (projB (expandInline c LB L es nB).1) = List.range' nB ((expandInline c LB L es nB).2 - nB)
      ∧ createdEvs ℓ (projB (expandInline c LB L es nB).1) = insIds (projB (expandInline c LB L es nB).1) := by
  induction es with
  | nil => intro nB; simp [expandInline, projB, insIds, createdEvs]
  | cons e es ih =>
    intro nB
    simp only [expandInline]
    split
    · obtain ⟨h1, h2, h3⟩ := ih (nB + 1)
      have hk : (expandInline c LB L es (nB + 1)).2 - nB = ((expandInline c LB L es (nB + 1)).2 - (nB + 1)) + 1 := by omega
      refine ⟨by simp only; omega, ?_, ?_⟩
      · simp only [projB_consa, projB_append, insIds_append, insIds_bConstruct, insIds_bCreated, h2, List.nil_append]
        rw [hk, List.range'_succ]; rfl
      · simp only [projB_consa, projB_append, insIds_append, createdEvs_append, insIds_bConstruct, insIds_bCreated,
          createdEvs_bConstruct, createdEvs_bCreated ℓ LB hℓ, h3, List.nil_append]
    · obtain ⟨h1, h2, h3⟩ := ih nB
      exact ⟨h1, by simpa [projB_consa] using h2, by simpa [projB_consa] using h3⟩


theorem range_cat (a b c : Nat) (h1 : a ≤ b) (h2 : b ≤ c) :
    List.range' a (b - a) ++ List.range' b (c - b) = List.range' a (c - a) := by
  have h := List.range'_append (s := a) (m := b - a) (n := c - b) (step := 1)
  have hb : a + 1 * (b - a) = b := by omega
  have hc : b - a + (c - b) = c - a := by omega
  rw [hb, hc] at h
  exact h

/-- **every row created from inside a listener or a callback is inserted once and gets its
    RowCreatedSignal exactly once** (per listener `ℓ` of its class), whatever operation triggered it -/
theorem stepX_B (ℓ : Nat) (c : Cfg) (LB : List Listener) (hℓ : ℓ ∈ recipients .created 0 LB) (s : State) (nB : Nat) (op : Op) :
    nB ≤ (stepX c LB s nB op).2
    ∧ insIds (projB (stepX c LB s nB op).1.2.1) = List.range' nB ((stepX c LB s nB op).2 - nB)
    ∧ createdEvs ℓ (projB (stepX c LB s nB op).1.2.1) = insIds (projB (stepX c LB s nB op).1.2.1) := by
  have inl : ∀ (q : State × List Entry × Out),
      nB ≤ (expandInline c LB c.listeners q.2.1 nB).2
      ∧ insIds (projB (expandInline c LB c.listeners q.2.1 nB).1) = List.range' nB ((expandInline c LB c.listeners q.2.1 nB).2 - nB)
      ∧ createdEvs ℓ (projB (expandInline c LB c.listeners q.2.1 nB).1) = insIds (projB (expandInline c LB c.listeners q.2.1 nB).1) :=
    fun q => expandInline_B ℓ c LB c.listeners hℓ q.2.1 nB
  cases op with
  | create kw =>
    simp only [stepX, opCreateX]
    have e1 := expandNested_B ℓ c LB c.listeners (deliver .create none 0 c.listeners kw []).2.2 nB
    generalize expandNested c LB c.listeners (deliver .create none 0 c.listeners kw []).2.2 nB = x1 at e1
    obtain ⟨a1, a2, a3, a4⟩ := e1
    have f1 := flush_B ℓ LB hℓ x1.2.1
    split
    · simp only [projB_append, insIds_append, createdEvs_append, f1.1, f1.2, a2, a4, List.append_nil, List.nil_append]
      exact ⟨a1, trivial, a3⟩
    · split
      · simp only [projB_append, insIds_append, createdEvs_append, f1.1, f1.2, a2, a4, List.append_nil, List.nil_append]
        exact ⟨a1, trivial, a3⟩
      · have e2 := expandNested_B ℓ c LB c.listeners
          ((deliver .create none 0 c.listeners kw []).2.1.map (fun p => Entry.post p s.nextId)) x1.2.2
        generalize expandNested c LB c.listeners
          ((deliver .create none 0 c.listeners kw []).2.1.map (fun p => Entry.post p s.nextId)) x1.2.2 = x2 at e2
        obtain ⟨b1, b2, b3, b4⟩ := e2
        have e3 := expandNested_B ℓ c LB c.listeners
          ((deliver .created (some s.nextId) 0 c.listeners [] []).2.2 ++
            (deliver .created (some s.nextId) 0 c.listeners [] []).2.1.map (fun p => Entry.post p s.nextId)) x2.2.2
        generalize expandNested c LB c.listeners
          ((deliver .created (some s.nextId) 0 c.listeners [] []).2.2 ++
            (deliver .created (some s.nextId) 0 c.listeners [] []).2.1.map (fun p => Entry.post p s.nextId)) x2.2.2 = x3 at e3
        obtain ⟨c1, c2, c3, c4⟩ := e3
        have f2 := flush_B ℓ LB hℓ x2.2.1
        have f3 := flush_B ℓ LB hℓ x3.2.1
        simp only [projB_append, projB_consa, insIds_append, createdEvs_append, f1.1, f1.2, f2.1, f2.2, f3.1, f3.2,
          a2, a4, b2, b4, c2, c4, List.append_nil, List.nil_append]
        rw [a3, b3, c3]
        have r12 := range_cat nB x1.2.2 x2.2.2 a1 b1
        have r13 := range_cat nB x2.2.2 x3.2.2 (by omega) c1
        refine ⟨by omega, ?_, ?_⟩
        · rw [← List.append_assoc, r12, r13]
        · rfl
  | assign h k v => exact inl _
  | set h kw => exact inl _
  | syncUpdate h => exact inl _
  | sync h => exact inl _
  | destroy h => exact inl _
  | fetch h => exact inl _
  | select => exact inl _

/-- the same for whole histories: the `B` rows created by the listeners of a history are
    `nB, nB+1, …`, each inserted once, each announced to `ℓ` exactly once, in the same order -/
theorem runX_B (ℓ : Nat) (c : Cfg) (LB : List Listener) (hℓ : ℓ ∈ recipients .created 0 LB) (ops : List Op) :
    ∀ (s : State) (nB : Nat), nB ≤ (runX c LB s nB ops).1.2
      ∧ insIds (projB (runX c LB s nB ops).2) = List.range' nB ((runX c LB s nB ops).1.2 - nB)
      ∧ createdEvs ℓ (projB (runX c LB s nB ops).2) = insIds (projB (runX c LB s nB ops).2) := by
  induction ops with
  | nil => intro s nB; simp [runX, projB, insIds, createdEvs]
  | cons op ops ih =>
    intro s nB
    simp only [runX, projB_append, insIds_append, createdEvs_append]
    obtain ⟨h1, h2, h3⟩ := stepX_B ℓ c LB hℓ s nB op
    obtain ⟨g1, g2, g3⟩ := ih (stepX c LB s nB op).1.1 (stepX c LB s nB op).2
    refine ⟨by omega, ?_, by rw [h3, g3]⟩
    rw [h2, g2, range_cat nB _ _ h1 g1]

/-- and the class's own log of a history is the one without spawning listeners -/
theorem runX_projA (c : Cfg) (LB : List Listener) (ops : List Op) :
    ∀ (s : State) (nB : Nat), (runX c LB s nB ops).1.1 = (run c s ops).1 ∧ projA (runX c LB s nB ops).2 = (run c s ops).2 := by
  induction ops with
  | nil => intro s nB; exact ⟨rfl, rfl⟩
  | cons op ops ih =>
    intro s nB
    obtain ⟨h1, h2, _⟩ := stepX_projA c LB s nB op
    simp only [runX, run, projA_append, h2]
    rw [h1]
    exact ⟨(ih _ _).1, by rw [(ih _ _).2]⟩

end SqlObjVerif.Events
