import SqlObjVerif.Lemmas.QueryXRepr
/-!
# C11 — the translated lookups: `_SO_selectOneAlt`, `_SO_fetchAlternateID` (alternate ids), `SODatabaseIndex.get(**kw)`
-/
namespace SqlObjVerif.QueryX
open SqlObjVerif.PyQ
open SqlObjVerif.PyQ.Extracted

def kSelectResults : Str := ['s', 'e', 'l', 'e', 'c', 't', 'R', 'e', 's', 'u', 'l', 't', 's']
def kStaticTables : Str := ['s', 't', 'a', 't', 'i', 'c', 'T', 'a', 'b', 'l', 'e', 's']
def kClause : Str := ['c', 'l', 'a', 'u', 's', 'e']

section
variable (sch : Schema) (P : Params) (fnRec : String → List Val → List (Str × Val) → R Val)
  (cm : Val → String → List Val → List (Str × Val) → R Val) (cv : Val → List Val → R Val)

/-- the comprehension of `_SO_selectOneAlt`: a column name becomes `SQLConstant(name)` -/
theorem selectOneAlt_comp (env : Env) : ∀ (names : List Str),
    filterMapR (compStep (.one 5) env (fun e => selectOneAlt_comp0_c.eval (qIface sch P fnRec cm cv) e)
      (fun e => selectOneAlt_comp0_e.eval (qIface sch P fnRec cm cv) e)) (names.map .str) =
      .ok (names.map fun n => constV (.str n))
  | [] => rfl
  | n :: names => by
    have ih := selectOneAlt_comp env names
    simp only [List.map_cons, filterMapR, ih]
    unfold selectOneAlt_comp0_c selectOneAlt_comp0_e
    pyqw [compStep, constV]

/-- **`_SO_selectOneAlt(so, columnNames, condition)`**: `SELECT <names as constants> FROM <table> WHERE <condition>`
    built by `Select(…)`, rendered by `self.sqlrepr`, run by `self.queryOne` -/
theorem selectOneAlt_translated (conn cond : Val) (n0 : Str) (names : List Str) :
    selectOneAltX (qIface sch P fnRec cm cv) conn clsV (.list ((n0 :: names).map .str)) cond =
      ofR ((fnRec "Select" [.list ((n0 :: names).map fun n => constV (.str n))]
          [(kStaticTables, .list [.str sch.table]), (kClause, cond)]).bind fun q =>
        (methodOf (qIface sch P fnRec cm cv) conn "sqlrepr" [q] []).bind fun t =>
          methodOf (qIface sch P fnRec cm cv) conn "queryOne" [t] []) := by
  unfold selectOneAltX run selectOneAlt selectOneAlt_s0 selectOneAlt_s1
  have hc := fun env => selectOneAlt_comp sch P fnRec cm cv env (n0 :: names)
  simp only [List.map_cons] at hc ⊢
  cases h1 : fnRec "Select" [.list (constV (.str n0) :: names.map fun n => constV (.str n))]
      [(kStaticTables, .list [.str sch.table]), (kClause, cond)] with
  | ok q =>
    cases h2 : methodOf (qIface sch P fnRec cm cv) conn "sqlrepr" [q] [] with
    | ok t =>
      cases h3 : methodOf (qIface sch P fnRec cm cv) conn "queryOne" [t] [] <;>
        simp only [kStaticTables, kClause] at h1 <;> pyqw [hc, h1, h2, h3, ofR]
    | exc e => simp only [kStaticTables, kClause] at h1; pyqw [hc, h1, h2, ofR]
    | stuck => simp only [kStaticTables, kClause] at h1; pyqw [hc, h1, h2, ofR]
  | exc e => simp only [kStaticTables, kClause] at h1; pyqw [hc, h1, ofR]
  | stuck => simp only [kStaticTables, kClause] at h1; pyqw [hc, h1, ofR]

/-- what `_SO_fetchAlternateID` does with the answer `(result, obj)` of `_findAlternateID` (alternate-id lookups:
    `idxName` is `None`) -/
def altOut (I : Iface) (cls connection : Val) (result obj : Val) : Out :=
  match result with
  | .tuple (idv :: rest) =>
    if truthy obj = true then .ret obj
    else if truthy connection = true then
      ofR (methodOf I cls "get" [idv] [(kConnection, connection), (kSelectResults, .tuple rest)])
    else ofR (methodOf I cls "get" [idv] [(kSelectResults, .tuple rest)])
  | _ => .exc .notFound

/-- **`_SO_fetchAlternateID`** (`idxName=None`): no row (`result` is `None` or empty) → `SQLObjectNotFound`; a row →
    the instance `cls.get(row[0], selectResults=row[1:])` -/
theorem fetchAlternateID_translated (name dbName value connection result obj : Val)
    (hres : result = .none ∨ result = .tuple [] ∨ ∃ idv rest, result = .tuple (idv :: rest))
    (hfind : cm clsV "_findAlternateID" [name, dbName, value, connection] [] = .ok (.tuple [result, obj])) :
    fetchAlternateIDX (qIface sch P fnRec cm cv) clsV name dbName value connection .none =
      altOut (qIface sch P fnRec cm cv) clsV connection result obj := by
  unfold fetchAlternateIDX run fetchAlternateID fetchAlternateID_s0 fetchAlternateID_s1 fetchAlternateID_s2
    fetchAlternateID_s3 fetchAlternateID_s4 altOut
  rcases hres with rfl | rfl | ⟨idv, rest, rfl⟩
  · pyqw [hfind]
  · pyqw [hfind]
  · by_cases ho : truthy obj = true
    · pyqw [hfind, ho]
    · by_cases hc : truthy connection = true
      · cases hg : cm clsV "get" [idv] [(kConnection, connection), (kSelectResults, .tuple rest)] <;>
          simp only [kConnection, kSelectResults] at hg <;>
          pyqw [hfind, ho, hc, hg, ofR, normIdx, pySlice, sliceL, sliceBound, clampIdx, kConnection, kSelectResults]
      · cases hg : cm clsV "get" [idv] [(kSelectResults, .tuple rest)] <;>
          simp only [kSelectResults] at hg <;>
          pyqw [hfind, ho, hc, hg, ofR, normIdx, pySlice, sliceL, sliceBound, clampIdx, kConnection, kSelectResults]

def kColumn : Str := ['c', 'o', 'l', 'u', 'm', 'n']

/-- a unique `DatabaseIndex` over the columns `icols` of the class -/
def indexV (icols : List Query.ColSpec) : Val :=
  .obj "SODatabaseIndex" [("unique", .bool true), ("descriptions", .list (icols.map fun c => .dict [(kColumn, colV c)])),
    ("soClass", clsV)]

theorem indexGet_comp (env : Env) : ∀ (icols : List Query.ColSpec),
    filterMapR (compStep (.one 6) env (fun e => indexGet_comp0_c.eval (qIface sch P fnRec cm cv) e)
      (fun e => indexGet_comp0_e.eval (qIface sch P fnRec cm cv) e)) (icols.map fun c => .dict [(kColumn, colV c)]) =
      .ok (icols.map colV)
  | [] => rfl
  | c :: icols => by
    have ih := indexGet_comp env icols
    simp only [List.map_cons, filterMapR, ih]
    unfold indexGet_comp0_c indexGet_comp0_e
    pyqw [compStep, kColumn]

/-- **`SODatabaseIndex.get(**kw)`** of a unique index: a wrong number of keywords is a TypeError, otherwise
    `soClass.selectBy(connection=None, **kw).getOne()` -/
theorem indexGet_translated (icols : List Query.ColSpec) (kw : List (Str × Val)) (hk : aget kConnection kw = none) :
    indexGetX (qIface sch P fnRec cm cv) (indexV icols) [] kw =
      if kw ≠ [] ∧ kw.length ≠ icols.length then .exc .typeError
      else ofR ((cm clsV "selectBy" [] ((kConnection, .none) :: kw)).bind fun sel =>
        methodOf (qIface sch P fnRec cm cv) sel "getOne" [] []) := by
  unfold indexGetX run indexGet indexGet_s0 indexGet_s1 indexGet_s2 indexGet_s3 indexGet_s4 indexGet_s5 indexGet_s6 indexV
  have hc := fun env => indexGet_comp sch P fnRec cm cv env icols
  simp only [kConnection] at hk
  by_cases hnil : kw = []
  · subst hnil
    cases h1 : cm clsV "selectBy" [] [(kConnection, .none)] with
    | ok sel =>
      cases h2 : methodOf (qIface sch P fnRec cm cv) sel "getOne" [] [] <;> simp only [kConnection] at h1 <;>
        pyqw [hc, popOf, h1, h2, ofR, kConnection]
    | exc e => simp only [kConnection] at h1; pyqw [hc, popOf, h1, ofR, kConnection]
    | stuck => simp only [kConnection] at h1; pyqw [hc, popOf, h1, ofR, kConnection]
  · have ht : truthy (.dict kw) = true := by cases kw <;> simp_all
    by_cases hl : kw.length = icols.length
    · have hl' : ((kw.length : Int) == (icols.length : Int)) = true := by simp [hl]
      cases h1 : cm clsV "selectBy" [] ((kConnection, .none) :: kw) with
      | ok sel =>
        cases h2 : methodOf (qIface sch P fnRec cm cv) sel "getOne" [] [] <;> simp only [kConnection] at h1 <;>
          simp [Stmt.exec, Block.exec, Expr.eval, Exprs.eval, callFn, Target.bind, zipKw, dictMethod, Res.seq_norm, Env.ofArgs,
            attrOf_obj, aget, hc, popOf, hk, h1, h2, ofR, kConnection, hnil, hl, hl', ht]
      | exc e => simp only [kConnection] at h1; simp [Stmt.exec, Block.exec, Expr.eval, Exprs.eval, callFn, Target.bind, zipKw,
          dictMethod, Res.seq_norm, Env.ofArgs, attrOf_obj, aget, hc, popOf, hk, h1, ofR, kConnection, hnil, hl, hl', ht]
      | stuck => simp only [kConnection] at h1; simp [Stmt.exec, Block.exec, Expr.eval, Exprs.eval, callFn, Target.bind, zipKw,
          dictMethod, Res.seq_norm, Env.ofArgs, attrOf_obj, aget, hc, popOf, hk, h1, ofR, kConnection, hnil, hl, hl', ht]
    · have hl' : ((kw.length : Int) == (icols.length : Int)) = false := by simp; omega
      simp [Stmt.exec, Block.exec, Expr.eval, Exprs.eval, callFn, Target.bind, zipKw, dictMethod, Res.seq_norm, Env.ofArgs,
        attrOf_obj, aget, hc, popOf, hk, ofR, kConnection, hnil, hl, hl', ht]
end
end SqlObjVerif.QueryX
