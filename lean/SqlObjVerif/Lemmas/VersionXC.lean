import SqlObjVerif.Model.VersionXC
import SqlObjVerif.Lemmas.PyVersion
/-!
Symbolic execution of the TRANSLATED class-construction code of `sqlobject/versioning/__init__.py` (`getColumns`,
`Versioning.__init__ / __addtoclass__ / createTable / createVersionTable`; PyVersion programs regenerated from /repo on
every run) against the hand-written reading in `Model/VersionXC.lean`.
-/
namespace SqlObjVerif.VersionC
open SqlObjVerif.PyVer
open SqlObjVerif.PyVer.Extracted

@[simp] theorem xcIface_self (X : CX) (C : Calls) (s : Val) : (xcIface X C s).self = s := rfl
@[simp] theorem xcIface_attr (X : CX) (C : Calls) (s : Val) : (xcIface X C s).attr = xcAttr X := rfl
@[simp] theorem xcIface_setAttr (X : CX) (C : Calls) (s : Val) (w : CW) (o : Val) (n : String) (v : Val) :
    (xcIface X C s).setAttr w o n v = some (w.setAttr o n v) := rfl
@[simp] theorem xcIface_global (X : CX) (C : Calls) (s : Val) (n : String) :
    (xcIface X C s).global n = if knownGlobals.contains n then some (glob n) else none := rfl
@[simp] theorem xcIface_isinstance (X : CX) (C : Calls) (s : Val) (w : CW) : (xcIface X C s).isinstance w = xcIsinstance := rfl
@[simp] theorem xcIface_contains (X : CX) (C : Calls) (s : Val) : (xcIface X C s).contains = xcContains X := rfl
@[simp] theorem xcIface_getItem (X : CX) (C : Calls) (s : Val) (w : CW) : (xcIface X C s).getItem w = xcGetItem X := rfl
@[simp] theorem xcIface_delItem (X : CX) (C : Calls) (s : Val) : (xcIface X C s).delItem = xcDelItem := rfl
@[simp] theorem xcIface_items (X : CX) (C : Calls) (s : Val) (w : CW) : (xcIface X C s).items w = xcItems X := rfl
@[simp] theorem xcIface_dictOf (X : CX) (C : Calls) (s : Val) : (xcIface X C s).dictOf = xcDictOf := rfl
@[simp] theorem xcIface_call (X : CX) (C : Calls) (s : Val) : (xcIface X C s).call = xcCall := rfl
@[simp] theorem xcIface_callFn (X : CX) (C : Calls) (s : Val) : (xcIface X C s).callFn = xcCallFn := rfl
@[simp] theorem xcIface_proc (X : CX) (C : Calls) (s : Val) : (xcIface X C s).proc = xcProc C := rfl

@[simp] theorem dictOfVal_obj {W : Type} (I : Iface W) (w : W) (t : String) (a b : Val) :
    dictOfVal I w (.obj t a b) = R.ofOpt (I.dictOf w (.obj t a b)) := rfl
@[simp] theorem itemsOfVal_obj {W : Type} (I : Iface W) (w : W) (t : String) (a b : Val) :
    itemsOfVal I w (.obj t a b) = R.ofOpt ((I.items w (.obj t a b)).map Val.ofList) := rfl
@[simp] theorem inVal_obj {W : Type} (I : Iface W) (w : W) (k : Val) (t : String) (a b : Val) :
    inVal I w k (.obj t a b) = R.ofOpt (I.contains w (.obj t a b) k) := rfl

macro "vcwith" "[" ts:Lean.Parser.Tactic.simpLemma,* "]" : tactic => `(tactic|
  simp [PyVer.run, Block.exec, Stmt.exec, Cond.eval, Expr.eval, Exprs.eval, evalArgs, evalOpt, Env.get, St.setVar,
        St.setOpt, zipKw, paramsOf, xcAttr, xcCall, xcCallFn, xcContains, xcGetItem, xcIsinstance, xcDictOf, xcItems,
        xcProc, forLoop, Val.toList, strOf, $ts,*, *])

theorem toList_ofList (l : List Val) : Val.toList (Val.ofList l) = some l := by
  induction l with
  | nil => rfl
  | cons a l ih => simp [Val.ofList, Val.toList, ih]

theorem iterOf_ofList {W : Type} (I : Iface W) (w : W) (l : List Val) : iterOf I w (Val.ofList l) = some l := by
  cases l with
  | nil => rfl
  | cons a l => simp [Val.ofList, iterOf, Val.toList, toList_ofList]

/-- one pass of `for column, defi in …items():` -/
theorem getColumns_step (X : CX) (C : Calls) (w : CW) (c j : Nat) (d : ColDef) (cols : Val) (o2 o3 o4 o5 o6 : Option Val) :
    Block.exec (xcIface X C .none)
        (({ w := w, vars := [some (.dictv cols), some (.cls c), o2, o3, o4, o5, o6] } : St CW).setVar 2 (.str d.name)
          |>.setVar 3 (defObj c j d)) getColumns_loop0
      = .norm { w := w, vars := [some (.dictv (colStep w c cols j d)), some (.cls c), some (.str (colKey d)),
          some (defObj c j d), some (.dictv (stripKw (w.kw c j))), some (.str "unique"),
          some (newcol d.klass [] (stripKw (w.kw c j)))] } := by
  by_cases h1 : strEndsWith d.name "ID" = true <;> by_cases h2 : d.fk = true <;>
    by_cases h3 : vdHas (.str "alternateID") (w.kw c j) = true <;>
    by_cases h4 : vdHas (.str "unique") (delIf "alternateID" (w.kw c j)) = true <;>
    simp only [delIf, h3, if_true, if_false, Bool.false_eq_true] at h4 <;>
    vcwith [getColumns_loop0, getColumns_loop1, defObj, colStep, colKey, stripKw, delIf, newcol, Val.ofList, vMem]

end SqlObjVerif.VersionC
