import SqlObjVerif.Model.Query
/-! # Lemmas for C11: verified insertion sort, the ORDER BY comparator, DISTINCT, aggregates -/
namespace SqlObjVerif.Query

/-! ### insertion sort -/
theorem insertBy_perm {α} (le : α → α → Bool) (a : α) (l : List α) : (insertBy le a l).Perm (a :: l) := by
  induction l with
  | nil => exact List.Perm.refl _
  | cons b l ih =>
    unfold insertBy
    split
    · exact List.Perm.refl _
    · exact (List.Perm.cons b ih).trans (List.Perm.swap a b l)

theorem sortBy_perm {α} (le : α → α → Bool) (l : List α) : (sortBy le l).Perm l := by
  induction l with
  | nil => exact List.Perm.refl _
  | cons a l ih => exact (insertBy_perm le a _).trans (List.Perm.cons a ih)

/-- sorted: every element may come before every later one -/
def Sorted {α} (le : α → α → Bool) (l : List α) : Prop := l.Pairwise (fun a b => le a b = true)

theorem insertBy_sorted {α} (le : α → α → Bool)
    (total : ∀ a b, le a b = true ∨ le b a = true)
    (trans : ∀ a b c, le a b = true → le b c = true → le a c = true)
    (a : α) (l : List α) (h : Sorted le l) : Sorted le (insertBy le a l) := by
  induction l with
  | nil => simp [insertBy, Sorted]
  | cons b l ih =>
    unfold insertBy
    have hb := List.pairwise_cons.mp h
    split
    · rename_i hab
      refine List.pairwise_cons.mpr ⟨?_, h⟩
      intro x hx
      rcases List.mem_cons.mp hx with rfl | hx
      · exact hab
      · exact trans _ _ _ hab (hb.1 x hx)
    · rename_i hab
      have hba : le b a = true := by
        rcases total a b with h1 | h1
        · exact absurd h1 hab
        · exact h1
      refine List.pairwise_cons.mpr ⟨?_, ih hb.2⟩
      intro x hx
      have := (insertBy_perm le a l).mem_iff.mp hx
      rcases List.mem_cons.mp this with rfl | hx
      · exact hba
      · exact hb.1 x hx

theorem sortBy_sorted {α} (le : α → α → Bool)
    (total : ∀ a b, le a b = true ∨ le b a = true)
    (trans : ∀ a b c, le a b = true → le b c = true → le a c = true)
    (l : List α) : Sorted le (sortBy le l) := by
  induction l with
  | nil => simp [sortBy, Sorted]
  | cons a l ih => exact insertBy_sorted le total trans a _ ih

/-! ### the ORDER BY comparator -/
theorem ltVal_irrefl (x : Val) : ltVal x x = false := by
  cases x <;> simp [ltVal]

theorem ltVal_trichotomy (x y : Val) (h : x ≠ y) : ltVal x y = true ∨ ltVal y x = true := by
  cases x <;> cases y <;> simp_all [ltVal] <;> omega

theorem ltVal_asymm (x y : Val) (h : ltVal x y = true) : ltVal y x = false := by
  cases x <;> cases y <;> simp_all [ltVal] <;> omega

theorem ltVal_trans (x y z : Val) (h1 : ltVal x y = true) (h2 : ltVal y z = true) : ltVal x z = true := by
  cases x <;> cases y <;> cases z <;> simp_all [ltVal] <;> omega

theorem ltVal_ne (x y : Val) (h : ltVal x y = true) : x ≠ y := by
  intro e; subst e; simp [ltVal_irrefl] at h

theorem leKeys_total (ks : List Key) (a b : Row) : leKeys ks a b = true ∨ leKeys ks b a = true := by
  induction ks with
  | nil => simp [leKeys]
  | cons k ks ih =>
    obtain ⟨c, d⟩ := k
    unfold leKeys
    by_cases h : a.get c = b.get c
    · rw [if_pos h, if_pos h.symm]; exact ih
    · have h' : ¬ b.get c = a.get c := fun e => h e.symm
      simp only [h, h', if_false]
      cases d
      · simpa using ltVal_trichotomy _ _ h
      · simpa using (ltVal_trichotomy _ _ h).symm

theorem leKeys_trans (ks : List Key) (a b c : Row) (h1 : leKeys ks a b = true) (h2 : leKeys ks b c = true) :
    leKeys ks a c = true := by
  induction ks with
  | nil => simp [leKeys]
  | cons k ks ih =>
    obtain ⟨col, d⟩ := k
    unfold leKeys at h1 h2 ⊢
    by_cases hab : a.get col = b.get col
    · by_cases hbc : b.get col = c.get col
      · simp only [hab, hbc, if_true] at h1 h2 ⊢
        exact ih h1 h2
      · simp only [hab, hbc, if_true, if_false] at h1 h2 ⊢
        exact h2
    · by_cases hbc : b.get col = c.get col
      · rw [hbc] at h1 hab
        rw [if_neg hab] at h1 ⊢
        exact h1
      · simp only [hab, hbc, if_false] at h1 h2
        cases d
        · simp only [Bool.false_eq_true, if_false] at h1 h2 ⊢
          have := ltVal_trans _ _ _ h1 h2
          have hne := ltVal_ne _ _ this
          simp [hne, this]
        · simp only [if_true] at h1 h2 ⊢
          have := ltVal_trans _ _ _ h2 h1
          have hne := ltVal_ne _ _ this
          have hne' : ¬ a.get col = c.get col := fun e => hne e.symm
          simp [hne', this]

def flipKeys (ks : List Key) : List Key := ks.map fun k => (k.1, !k.2)

theorem leKeys_flip (ks : List Key) (a b : Row) : leKeys (flipKeys ks) a b = leKeys ks b a := by
  induction ks with
  | nil => simp [flipKeys, leKeys]
  | cons k ks ih =>
    obtain ⟨c, d⟩ := k
    simp only [flipKeys, List.map_cons] at ih ⊢
    unfold leKeys
    by_cases h : a.get c = b.get c
    · rw [if_pos h, if_pos h.symm]; exact ih
    · have h' : ¬ b.get c = a.get c := fun e => h e.symm
      simp only [h, h', if_false]
      cases d <;> simp


/-! ### what an order expression means: its innermost term and the parity of the DESC nest -/
def OExpr.base : OExpr → Term
  | .field c => .field c
  | .const s => .const s
  | .desc e => e.base

def OExpr.isDesc : OExpr → Bool
  | .field _ => false
  | .const _ => false
  | .desc e => !e.isDesc

theorem key_eq_aux (e : OExpr) :
    e.key = ⟨e.base, if e.isDesc then 1 else 0⟩ ∧ (OExpr.desc e).key = ⟨e.base, if e.isDesc then 0 else 1⟩ := by
  induction e with
  | field c => simp [OExpr.key, OExpr.base, OExpr.isDesc]
  | const s => simp [OExpr.key, OExpr.base, OExpr.isDesc]
  | desc e ih =>
    refine ⟨?_, ?_⟩
    · rw [ih.2]; simp [OExpr.base, OExpr.isDesc]; cases e.isDesc <;> rfl
    · rw [OExpr.key]
      simp only [Extracted.descOfDescCancels, if_true]
      rw [ih.1]; simp [OExpr.base, OExpr.isDesc]; cases e.isDesc <;> rfl

theorem key_eq (e : OExpr) : e.key = ⟨e.base, if e.isDesc then 1 else 0⟩ := (key_eq_aux e).1

theorem key_dir (e : OExpr) : e.key.dir = some e.isDesc := by
  rw [key_eq]; cases e.isDesc <;> rfl

theorem key_reverser (rev : Bool) (e : OExpr) :
    (applyReverser rev e).key.term = e.base ∧ (applyReverser rev e).key.dir = some (e.isDesc != rev) := by
  cases rev
  · simp only [applyReverser, Extracted.reverserWhenNot, Bool.false_eq_true, if_false, key_dir]
    simp [key_eq]
  · simp only [applyReverser, Extracted.reverserWhenReversed, if_true, key_dir]
    simp [key_eq, OExpr.base, OExpr.isDesc]


/-! ### the INTENDED meaning of the user's order specification (specification side) -/

/-- the column an order string names if it is an attribute of the class, else the raw text -/
def Schema.nameTerm (sch : Schema) (n : Name) : Term :=
  match sch.lookupPy n with
  | some i => .field (.col i)
  | none => .const n

/-- one user-level key ↦ (what is sorted on, descending?): a leading `-` means descending, every
    `DESC(…)` flips the direction -/
def OrderArg.intent (sch : Schema) : OrderArg → Term × Bool
  | .expr e => (e.base, e.isDesc)
  | .str ('-' :: t) => (sch.nameTerm t, true)
  | .str s => (sch.nameTerm s, false)

theorem munge_intent (sch : Schema) (a : OrderArg) :
    (mungeOrderBy sch a).base = (a.intent sch).1 ∧ (mungeOrderBy sch a).isDesc = (a.intent sch).2 := by
  have hp : Extracted.descPrefix = '-' := by decide
  cases a with
  | expr e => simp [mungeOrderBy, OrderArg.intent]
  | str s =>
    cases s with
    | nil =>
      simp only [mungeOrderBy, splitPrefix, OrderArg.intent, Schema.nameTerm, Extracted.descWhenPlain]
      cases sch.lookupPy [] <;> simp [wrapIf, Extracted.mungeColumn, Extracted.mungeRaw, OExpr.base, OExpr.isDesc]
    | cons c t =>
      by_cases hc : c = '-'
      · subst hc
        simp only [mungeOrderBy, splitPrefix, hp, if_true, OrderArg.intent, Schema.nameTerm, Extracted.descWhenPrefixed]
        cases sch.lookupPy t <;> simp [wrapIf, Extracted.mungeColumn, Extracted.mungeRaw, OExpr.base, OExpr.isDesc]
      · have : OrderArg.intent sch (.str (c :: t)) = (sch.nameTerm (c :: t), false) := by
          unfold OrderArg.intent
          split
          · rename_i h; cases h
          · rename_i h; injection h with h; injection h with h1 h2; exact absurd h1 hc
          · rename_i h; injection h with h; subst h; rfl
        rw [this]
        simp only [mungeOrderBy, splitPrefix, hp, hc, if_false, Schema.nameTerm, Extracted.descWhenPlain]
        cases sch.lookupPy (c :: t) <;> simp [wrapIf, Extracted.mungeColumn, Extracted.mungeRaw, OExpr.base, OExpr.isDesc]

/-- intended resolved key list: every key's direction is negated when the select is reversed -/
def intentKeys (sch : Schema) (joined rev : Bool) : List OrderArg → Option (List Key)
  | [] => some []
  | a :: as =>
    match sch.resolveTerm joined (a.intent sch).1, intentKeys sch joined rev as with
    | some c, some rest => some ((c, (a.intent sch).2 != rev) :: rest)
    | _, _ => none

theorem resolveKeys_eq_intent (sch : Schema) (joined rev : Bool) (args : List OrderArg) :
    resolveKeys sch joined (args.map fun a => (applyReverser rev (mungeOrderBy sch a)).key)
      = intentKeys sch joined rev args := by
  induction args with
  | nil => rfl
  | cons a as ih =>
    simp only [List.map_cons, resolveKeys, intentKeys, ih]
    have hk := key_reverser rev (mungeOrderBy sch a)
    have hm := munge_intent sch a
    rw [hk.1, hk.2, hm.1, hm.2]
    cases sch.resolveTerm joined (a.intent sch).1 <;> cases intentKeys sch joined rev as <;> rfl


def OrderBy.args : OrderBy → List OrderArg
  | .none => []
  | .one a => [a]
  | .many _ l => l

def distinctIf {α} [DecidableEq α] (d : Bool) (l : List α) : List α := if d then dedup l else l

/-- user-level description of a select: what was asked for, before any munging -/
structure USel where
  clause : Expr
  order : OrderBy
  rev : Bool
  dist : Bool

/-- the `SelectResults` state the library holds for it -/
def Sel.ofU (sch : Schema) (u : USel) : Sel := ⟨u.clause, mungeAll sch u.order, u.rev, u.dist⟩

theorem sorted_nil_keys (l : List Row) : Sorted (leKeys []) l := by
  induction l with
  | nil => exact List.Pairwise.nil
  | cons a l ih => exact List.pairwise_cons.mpr ⟨fun _ _ => rfl, ih⟩

/-- lists and tuples of keys are both translated key by key -/
theorem mungeSeq_eq (sch : Schema) (k : SeqKind) (l : List OrderArg) : mungeSeq sch k l = l.map (mungeOrderBy sch) := by
  cases k <;> simp [mungeSeq, Extracted.mungedSeqKinds]

theorem evalSelect_spec (sch : Schema) (db : Db) (u : USel) (keys : List Key)
    (ho : ∀ k, u.order ≠ .many k [])
    (hk : intentKeys sch u.clause.usesOth u.rev u.order.args = some keys) :
    ∃ out, evalSelect sch db (Sel.ofU sch u) = some out
      ∧ out.Perm (distinctIf u.dist (source db u.clause)) ∧ Sorted (leKeys keys) out := by
  obtain ⟨clause, order, rev, dist⟩ := u
  simp only at ho hk
  have sorted_ok : ∀ l : List Row, Sorted (leKeys keys) (sortBy (leKeys keys) l) :=
    fun l => sortBy_sorted _ (leKeys_total keys) (leKeys_trans keys) l
  cases order with
  | none =>
    simp only [OrderBy.args, intentKeys, Option.some.injEq] at hk
    subst hk
    refine ⟨distinctIf dist (source db clause), ?_, List.Perm.refl _, sorted_nil_keys _⟩
    simp only [evalSelect, evalRows, queryForSelect, orderKeys, Sel.ofU, mungeAll, distinctIf]
    rfl
  | one a =>
    have h := resolveKeys_eq_intent sch clause.usesOth rev [a]
    simp only [OrderBy.args] at hk
    rw [hk] at h
    refine ⟨sortBy (leKeys keys) (distinctIf dist (source db clause)), ?_, sortBy_perm _ _, sorted_ok _⟩
    simp only [evalSelect, evalRows, queryForSelect, orderKeys, Sel.ofU, mungeAll, distinctIf]
    simp only [List.map_cons, List.map_nil] at h
    rw [h]; rfl
  | many k l =>
    cases l with
    | nil => exact absurd rfl (ho k)
    | cons a as =>
      have h := resolveKeys_eq_intent sch clause.usesOth rev (a :: as)
      simp only [OrderBy.args] at hk
      rw [hk] at h
      refine ⟨sortBy (leKeys keys) (distinctIf dist (source db clause)), ?_, sortBy_perm _ _, sorted_ok _⟩
      simp only [evalSelect, evalRows, queryForSelect, orderKeys, Sel.ofU, mungeAll, mungeSeq_eq, distinctIf, List.map_cons,
        List.map_map]
      simp only [List.map_cons] at h
      change Option.map _ (resolveKeys sch clause.usesOth
        ((applyReverser rev (mungeOrderBy sch a)).key ::
          List.map (fun a => (applyReverser rev (mungeOrderBy sch a)).key) as)) = _
      rw [h]; rfl


theorem intentKeys_not_rev (sch : Schema) (joined rev : Bool) (args : List OrderArg) :
    intentKeys sch joined (!rev) args = (intentKeys sch joined rev args).map flipKeys := by
  induction args with
  | nil => rfl
  | cons a as ih =>
    simp only [intentKeys, ih]
    cases sch.resolveTerm joined (a.intent sch).1 <;> cases intentKeys sch joined rev as <;>
      simp [flipKeys]

theorem sorted_reverse {α} (le : α → α → Bool) (l : List α) (h : Sorted le l) :
    Sorted (fun a b => le b a) l.reverse := by
  unfold Sorted at *
  rw [List.pairwise_reverse]
  exact h

/-- a sorted permutation is unique when the comparator has no ties on the elements -/
theorem sorted_perm_unique {α} (le : α → α → Bool) (l1 l2 : List α)
    (hp : l1.Perm l2) (h1 : Sorted le l1) (h2 : Sorted le l2)
    (anti : ∀ a ∈ l1, ∀ b ∈ l1, le a b = true → le b a = true → a = b) : l1 = l2 := by
  induction l1 generalizing l2 with
  | nil => exact (List.Perm.nil_eq hp)
  | cons a t ih =>
    cases l2 with
    | nil => exact absurd hp.symm (List.Perm.nil_eq · |> fun h => by cases h)
    | cons b t2 =>
      have h1' := List.pairwise_cons.mp h1
      have h2' := List.pairwise_cons.mp h2
      have hab : a = b := by
        have ha : a ∈ b :: t2 := hp.mem_iff.mp (List.mem_cons_self)
        have hb : b ∈ a :: t := hp.mem_iff.mpr (List.mem_cons_self)
        rcases List.mem_cons.mp ha with e | ha
        · exact e
        · rcases List.mem_cons.mp hb with e | hb'
          · exact e.symm
          · exact anti a (List.mem_cons_self) b hb (h1'.1 b hb') (h2'.1 a ha)
      subst hab
      have ht : t.Perm t2 := List.Perm.cons_inv hp
      rw [ih t2 ht h1'.2 h2'.2 (fun x hx y hy => anti x (List.mem_cons_of_mem _ hx) y (List.mem_cons_of_mem _ hy))]


theorem mem_dedup {α} [DecidableEq α] (x : α) (l : List α) : x ∈ dedup l ↔ x ∈ l := by
  induction l with
  | nil => simp [dedup]
  | cons a l ih =>
    unfold dedup
    split
    · rename_i h
      rw [ih]
      constructor
      · exact List.mem_cons_of_mem _
      · intro hx
        rcases List.mem_cons.mp hx with rfl | hx
        · exact h
        · exact hx
    · simp [ih]

theorem nodup_dedup {α} [DecidableEq α] (l : List α) : (dedup l).Nodup := by
  induction l with
  | nil => simp [dedup]
  | cons a l ih =>
    unfold dedup
    split
    · exact ih
    · rename_i h
      exact List.nodup_cons.mpr ⟨fun hm => h ((mem_dedup a l).mp hm), ih⟩

theorem dedup_perm_of_mem_iff {α} [DecidableEq α] (l1 l2 : List α) (h : ∀ x, x ∈ l1 ↔ x ∈ l2) :
    (dedup l1).Perm (dedup l2) :=
  (List.perm_ext_iff_of_nodup (nodup_dedup l1) (nodup_dedup l2)).mpr fun x => by
    rw [mem_dedup, mem_dedup, h]

theorem dedup_perm {α} [DecidableEq α] (l1 l2 : List α) (h : l1.Perm l2) : (dedup l1).Perm (dedup l2) :=
  dedup_perm_of_mem_iff l1 l2 fun _ => h.mem_iff

theorem dedup_map_length {α β} [DecidableEq α] [DecidableEq β] (f : α → β) (l : List α)
    (inj : ∀ a ∈ l, ∀ b ∈ l, f a = f b → a = b) : (dedup (l.map f)).length = (dedup l).length := by
  induction l with
  | nil => rfl
  | cons a l ih =>
    have ih' := ih fun x hx y hy => inj x (List.mem_cons_of_mem _ hx) y (List.mem_cons_of_mem _ hy)
    have hiff : f a ∈ l.map f ↔ a ∈ l := by
      constructor
      · intro h
        obtain ⟨b, hb, e⟩ := List.mem_map.mp h
        have := inj b (List.mem_cons_of_mem _ hb) a (List.mem_cons_self) e
        exact this ▸ hb
      · exact List.mem_map_of_mem
    simp only [List.map_cons, dedup]
    by_cases h : a ∈ l
    · rw [if_pos h, if_pos (hiff.mpr h)]; exact ih'
    · rw [if_neg h, if_neg (fun x => h (hiff.mp x))]; simp [ih']

theorem sumL_perm (l1 l2 : List Int) (h : l1.Perm l2) : sumL l1 = sumL l2 := by
  induction h with
  | nil => rfl
  | cons a _ ih => simp [sumL, ih]
  | swap a b l => simp only [sumL]; omega
  | trans _ _ ih1 ih2 => exact ih1.trans ih2

theorem minL_perm (l1 l2 : List Int) (h : l1.Perm l2) : minL l1 = minL l2 := by
  induction h with
  | nil => rfl
  | cons a _ ih => simp [minL, ih]
  | swap a b l =>
    simp only [minL]
    cases minL l with
    | none => simp only [Option.some.injEq]; split <;> split <;> omega
    | some m => simp only [Option.some.injEq]; grind
  | trans _ _ ih1 ih2 => exact ih1.trans ih2

theorem maxL_perm (l1 l2 : List Int) (h : l1.Perm l2) : maxL l1 = maxL l2 := by
  induction h with
  | nil => rfl
  | cons a _ ih => simp [maxL, ih]
  | swap a b l =>
    simp only [maxL]
    cases maxL l with
    | none => simp only [Option.some.injEq]; split <;> split <;> omega
    | some m => simp only [Option.some.injEq]; grind
  | trans _ _ ih1 ih2 => exact ih1.trans ih2

theorem aggOf_perm (f : AggFn) (l1 l2 : List Int) (h : l1.Perm l2) : aggOf f l1 = aggOf f l2 := by
  have he : l1.isEmpty = l2.isEmpty := by
    cases l1 <;> cases l2 <;> simp_all
  cases f <;> simp only [aggOf, sumL_perm _ _ h, minL_perm _ _ h, maxL_perm _ _ h, h.length_eq, he]

/-- `minL` is the least element (specification of MIN) -/
theorem minL_spec (l : List Int) :
    (l = [] → minL l = none) ∧ (∀ m, minL l = some m → m ∈ l ∧ ∀ x ∈ l, m ≤ x) := by
  induction l with
  | nil => simp [minL]
  | cons a l ih =>
    refine ⟨fun h => (by cases h), ?_⟩
    intro m hm
    simp only [minL] at hm
    cases hl : minL l with
    | none =>
      rw [hl] at hm
      simp only [Option.some.injEq] at hm
      subst hm
      have : l = [] := by
        cases l with
        | nil => rfl
        | cons b t => simp only [minL] at hl; split at hl <;> cases hl
      subst this
      simp
    | some m' =>
      rw [hl] at hm
      simp only [Option.some.injEq] at hm
      have := ih.2 m' hl
      refine ⟨?_, ?_⟩
      · subst hm; split
        · exact List.mem_cons_self
        · exact List.mem_cons_of_mem _ this.1
      · intro x hx
        rcases List.mem_cons.mp hx with rfl | hx
        · subst hm; split <;> omega
        · have := this.2 x hx
          subst hm; split <;> omega

theorem maxL_spec (l : List Int) :
    (l = [] → maxL l = none) ∧ (∀ m, maxL l = some m → m ∈ l ∧ ∀ x ∈ l, x ≤ m) := by
  induction l with
  | nil => simp [maxL]
  | cons a l ih =>
    refine ⟨fun h => (by cases h), ?_⟩
    intro m hm
    simp only [maxL] at hm
    cases hl : maxL l with
    | none =>
      rw [hl] at hm
      simp only [Option.some.injEq] at hm
      subst hm
      have : l = [] := by
        cases l with
        | nil => rfl
        | cons b t => simp only [maxL] at hl; split at hl <;> cases hl
      subst this
      simp
    | some m' =>
      rw [hl] at hm
      simp only [Option.some.injEq] at hm
      have := ih.2 m' hl
      refine ⟨?_, ?_⟩
      · subst hm; split
        · exact List.mem_cons_self
        · exact List.mem_cons_of_mem _ this.1
      · intro x hx
        rcases List.mem_cons.mp hx with rfl | hx
        · subst hm; split <;> omega
        · have := this.2 x hx
          subst hm; split <;> omega


theorem and3_true (a b : TV) : and3 a b = some true ↔ a = some true ∧ b = some true := by
  cases a with
  | none => cases b with
    | none => simp [and3]
    | some y => cases y <;> simp [and3]
  | some x => cases x <;> cases b with
    | none => simp [and3]
    | some y => cases y <;> simp [and3]

theorem holds_and (a b : Expr) (e : Env) : holds (.and a b) e = (holds a e && holds b e) := by
  rw [Bool.eq_iff_iff]
  simp only [holds, Expr.eval, beq_iff_eq, Bool.and_eq_true, and3_true]

theorem condsEval_true (r : Row) (cs : List Cond) :
    condsEval r cs = some true ↔ ∀ c ∈ cs, c.eval r = some true := by
  induction cs with
  | nil => simp [condsEval]
  | cons c cs ih => simp [condsEval, and3_true, ih]

/-- the condition built for keyword value `v`: TRUE exactly when the column holds that value,
    `None` meaning NULL (three-valued: `col = x` is UNKNOWN on a NULL column, `col IS NULL` is never UNKNOWN) -/
theorem mkCond_true (c : ColRef) (v : KwVal) (r : Row) :
    (mkCond c v).eval r = some true ↔ r.get c = v.toVal := by
  unfold mkCond Cond.eval
  cases hv : v.toVal with
  | none => simp [Extracted.clauseOpNone]
  | some x =>
    simp only [Option.isNone_some, Bool.false_eq_true, if_false, Extracted.clauseOpValue]
    cases hr : r.get c with
    | none => simp [cmp3]
    | some y => simp [cmp3, CmpOp.holds]

/-- keyword `→` column binding made by the loop of `_SO_columnClause` -/
def Bound (sch : Schema) (kw : Kw) (c : ColRef) (v : KwVal) : Prop :=
  (c = .id ∧ kwLookup kw idKey = some v) ∨
  ∃ i col, c = .col i ∧ sch.cols[i]? = some col ∧ colVal kw col = some v

theorem mem_colConds (kw : Kw) (cs : List ColSpec) (k : Nat) (cond : Cond) :
    cond ∈ colConds kw cs k ↔ ∃ i col v, cs[i]? = some col ∧ colVal kw col = some v ∧ cond = mkCond (.col (k + i)) v := by
  induction cs generalizing k with
  | nil => simp [colConds]
  | cons c cs ih =>
    unfold colConds
    constructor
    · intro h
      cases hv : colVal kw c with
      | none =>
        rw [hv] at h
        obtain ⟨i, col, v, h1, h2, h3⟩ := (ih (k + 1)).mp h
        exact ⟨i + 1, col, v, by simpa using h1, h2, by rw [h3]; congr 2; omega⟩
      | some v =>
        rw [hv] at h
        rcases List.mem_cons.mp h with h | h
        · exact ⟨0, c, v, rfl, hv, by simpa using h⟩
        · obtain ⟨i, col, v', h1, h2, h3⟩ := (ih (k + 1)).mp h
          exact ⟨i + 1, col, v', by simpa using h1, h2, by rw [h3]; congr 2; omega⟩
    · rintro ⟨i, col, v, h1, h2, h3⟩
      cases i with
      | zero =>
        simp only [List.getElem?_cons_zero, Option.some.injEq] at h1
        subst h1
        rw [h2]
        exact List.mem_cons.mpr (Or.inl (by simpa using h3))
      | succ i =>
        simp only [List.getElem?_cons_succ] at h1
        have : cond ∈ colConds kw cs (k + 1) :=
          (ih (k + 1)).mpr ⟨i, col, v, h1, h2, by rw [h3]; congr 2; omega⟩
        cases colVal kw c with
        | none => exact this
        | some _ => exact List.mem_cons_of_mem _ this

theorem mem_kwData (sch : Schema) (kw : Kw) (cond : Cond) :
    cond ∈ kwData sch kw ↔ ∃ c v, Bound sch kw c v ∧ cond = mkCond c v := by
  unfold kwData Bound
  rw [List.mem_append, mem_colConds]
  constructor
  · rintro (h | ⟨i, col, v, h1, h2, h3⟩)
    · cases hk : kwLookup kw idKey with
      | none => rw [hk] at h; simp at h
      | some v =>
        rw [hk] at h
        simp only [List.mem_singleton] at h
        exact ⟨.id, v, Or.inl ⟨rfl, rfl⟩, h⟩
    · exact ⟨.col i, v, Or.inr ⟨i, col, rfl, h1, h2⟩, by simpa using h3⟩
  · rintro ⟨c, v, (⟨rfl, hk⟩ | ⟨i, col, rfl, h1, h2⟩), h3⟩
    · left; rw [hk]; simp [h3]
    · right; exact ⟨i, col, v, h1, h2, by simpa using h3⟩

/-- rows for which the keyword clause is TRUE = rows whose bound columns hold the given values -/
theorem kwClause_holds (sch : Schema) (kw : Kw) (e : Env) :
    holds (.kw (kwData sch kw)) e = true ↔ ∀ c v, Bound sch kw c v → e.row.get c = v.toVal := by
  simp only [holds, Expr.eval, beq_iff_eq, condsEval_true]
  constructor
  · intro h c v hb
    exact (mkCond_true c v e.row).mp (h _ ((mem_kwData sch kw _).mpr ⟨c, v, hb, rfl⟩))
  · intro h cond hc
    obtain ⟨c, v, hb, rfl⟩ := (mem_kwData sch kw cond).mp hc
    exact (mkCond_true c v e.row).mpr (h c v hb)


theorem mem_source (db : Db) (c : Expr) (r : Row) :
    r ∈ source db c ↔ r ∈ db.rows ∧
      (if c.usesOth then ∃ g ∈ db.oth, holds c ⟨g, r⟩ = true else holds c ⟨none, r⟩ = true) := by
  unfold source
  split
  · simp only [List.mem_flatMap, List.mem_map, List.mem_filter]
    constructor
    · rintro ⟨a, ha, g, ⟨hg, hh⟩, rfl⟩; exact ⟨ha, g, hg, hh⟩
    · rintro ⟨ha, g, hg, hh⟩; exact ⟨r, ha, g, ⟨hg, hh⟩, rfl⟩
  · simp [List.mem_filter]

theorem source_subset (db : Db) (c : Expr) (r : Row) (h : r ∈ source db c) : r ∈ db.rows :=
  ((mem_source db c r).mp h).1

/-- without a join the source is the table filtered (order and multiplicity kept) -/
theorem source_eq_filter (db : Db) (c : Expr) (h : c.usesOth = false) :
    source db c = db.rows.filter fun r => holds c ⟨none, r⟩ := by
  simp [source, h]

theorem columnClause_some (sch : Schema) (kw : Kw) (cl : Option Expr) (h : columnClause sch kw = some cl) :
    (∀ kv ∈ kw, consumed kw sch.cols kv.1 = true) ∧
    cl = (if (kwData sch kw).isEmpty then none else some (.kw (kwData sch kw))) := by
  unfold columnClause at h
  split at h
  · rename_i hall
    simp only [Option.some.injEq] at h
    refine ⟨?_, h.symm⟩
    intro kv hkv
    have := List.all_eq_true.mp hall kv hkv
    simpa using this
  · cases h

theorem columnClause_none (sch : Schema) (kw : Kw) :
    columnClause sch kw = none ↔ ∃ kv ∈ kw, consumed kw sch.cols kv.1 = false := by
  unfold columnClause
  split
  · rename_i hall
    simp only [reduceCtorEq, false_iff, not_exists, not_and]
    intro kv hkv
    have := List.all_eq_true.mp hall kv hkv
    simp at this ⊢
    simpa using this
  · rename_i hall
    simp only [true_iff]
    have : ¬ ∀ kv ∈ kw, consumed kw sch.cols kv.1 = true := by
      intro h; apply hall; apply List.all_eq_true.mpr; intro kv hkv; simpa using h kv hkv
    refine Classical.byContradiction fun hc => this ?_
    intro kv hkv
    cases hh : consumed kw sch.cols kv.1 with
    | true => rfl
    | false => exact absurd ⟨kv, hkv, hh⟩ hc

theorem clause_holds (sch : Schema) (kw : Kw) (cl : Option Expr) (h : columnClause sch kw = some cl) (e : Env) :
    holds (cl.getD .tt) e = true ↔ ∀ c v, Bound sch kw c v → e.row.get c = v.toVal := by
  have h2 := (columnClause_some sch kw cl h).2
  by_cases hd : (kwData sch kw).isEmpty = true
  · rw [h2, if_pos hd]
    simp only [Option.getD_none, holds, Expr.eval, beq_self_eq_true, true_iff]
    intro c v hb
    have := (mem_kwData sch kw (mkCond c v)).mpr ⟨c, v, hb, rfl⟩
    rw [List.isEmpty_iff.mp hd] at this
    cases this
  · rw [h2, if_neg hd]
    exact kwClause_holds sch kw e

theorem selectBy_usesOth (sch : Schema) (kw : Kw) (s : Sel) (h : selectBy sch kw = some s) : s.clause.usesOth = false := by
  unfold selectBy at h
  cases hc : columnClause sch kw with
  | none => rw [hc] at h; cases h
  | some cl =>
    rw [hc] at h
    simp only [Option.map_some, Option.some.injEq] at h
    subst h
    have := (columnClause_some sch kw cl hc).2
    subst this
    simp only [Sel.new]
    split <;> rfl


/-! ### specification side of the chainable methods -/
def USel.apply (u : USel) : SelOp → USel
  | .orderBy o => { u with order := o }
  | .rev => { u with rev := !u.rev }
  | .dist => { u with dist := true }
  | .filter none => u
  | .filter (some c) => { u with clause := .and u.clause c }

theorem apply_ofU (sch : Schema) (u : USel) (op : SelOp) : (Sel.ofU sch u).apply sch op = Sel.ofU sch (u.apply op) := by
  cases op with
  | filter c => cases c <;> rfl
  | _ => rfl

theorem foldl_apply_ofU (sch : Schema) (ops : List SelOp) (u : USel) :
    ops.foldl (Sel.apply sch) (Sel.ofU sch u) = Sel.ofU sch (ops.foldl USel.apply u) := by
  induction ops generalizing u with
  | nil => rfl
  | cons op ops ih => simp only [List.foldl_cons, apply_ofU, ih]

/-- what `cls.select(clause, orderBy=…, reversed=…, distinct=…)` asks for -/
def USel.new (sch : Schema) (clause : Option Expr) (orderBy : Option OrderBy) (rev dist : Bool) : USel :=
  ⟨clause.getD .tt, orderBy.getD sch.defaultOrder, rev, dist⟩

theorem new_ofU (sch : Schema) (clause : Option Expr) (orderBy : Option OrderBy) (rev dist : Bool) :
    Sel.new sch clause orderBy rev dist = Sel.ofU sch (USel.new sch clause orderBy rev dist) := rfl

/-- every evaluated plan returns a permutation of the filtered (distinct) rows -/
theorem evalRows_perm (sch : Schema) (db : Db) (p : Plan) (out : List Row) (h : evalRows sch db p = some out) :
    out.Perm (distinctIf p.distinct (source db p.where_)) := by
  unfold evalRows at h
  simp only at h
  split at h
  · simp only [Option.some.injEq] at h; subst h; exact List.Perm.refl _
  · cases h
  · cases hk : resolveKeys sch p.where_.usesOth _ with
    | none => rw [hk] at h; cases h
    | some keys =>
      rw [hk] at h
      simp only [Option.map_some, Option.some.injEq] at h
      subst h
      exact sortBy_perm _ _

/-! ### specification of the aggregates over an in-memory list of rows -/
def foldSpec (m : AggMethod) (dist : Bool) (rows : List Row) (c : ColRef) : AggVal :=
  let vals := distinctIf dist (rows.filterMap (·.get c))
  match m with
  | .sum => .int (if vals.isEmpty then none else some (sumL vals))
  | .min => .int (minL vals)
  | .max => .int (maxL vals)
  | .avg => .ratio (if vals.isEmpty then none else some (sumL vals, vals.length))

theorem foldSpec_eq (m : AggMethod) (dist : Bool) (rows : List Row) (c : ColRef) :
    foldSpec m dist rows c = aggOf m.fn (distinctIf dist (rows.filterMap (·.get c))) := by
  cases m <;> rfl

/-- the id is a key of the table -/
def KeyIds (db : Db) : Prop := ∀ r ∈ db.rows, ∀ r' ∈ db.rows, r.id = r'.id → r = r'

theorem agg_vals_perm (dist : Bool) (c : ColRef) (src out : List Row) (h : out.Perm (distinctIf dist src)) :
    (distinctIf dist (out.filterMap (·.get c))).Perm (distinctIf dist (src.filterMap (·.get c))) := by
  cases dist with
  | false => exact h.filterMap _
  | true =>
    simp only [distinctIf, if_true] at h ⊢
    apply dedup_perm_of_mem_iff
    intro x
    simp only [List.mem_filterMap]
    constructor
    · rintro ⟨r, hr, e⟩; exact ⟨r, (mem_dedup r src).mp (h.mem_iff.mp hr), e⟩
    · rintro ⟨r, hr, e⟩; exact ⟨r, h.mem_iff.mpr ((mem_dedup r src).mpr hr), e⟩

theorem evalAgg_aggPlan (sch : Schema) (db : Db) (s : Sel) (m : AggMethod) (t : Term) (c : ColRef)
    (ht : sch.resolveTerm s.clause.usesOth t = some c) :
    evalAgg sch db (aggPlan s m t)
      = some (aggOf m.fn (distinctIf s.distinct ((source db s.clause).filterMap (·.get c)))) := by
  simp only [evalAgg, aggPlan, accumulatePlan, queryForSelect, ht, Option.map_some, distinctIf,
    Extracted.aggDistinctWhenDistinct, Extracted.aggDistinctWhenPlain]
  cases s.distinct <;> rfl

theorem evalAgg_countPlan (sch : Schema) (db : Db) (s : Sel) :
    evalAgg sch db (countPlan s)
      = some (.int (some (if s.distinct then (dedup ((source db s.clause).map (·.id))).length
                          else (source db s.clause).length))) := by
  simp only [evalAgg, countPlan, accumulatePlan, queryForSelect, Extracted.countWhenDistinct, Extracted.countWhenPlain]
  cases s.distinct <;> rfl

theorem holds_eqOrNull (c : ColRef) (v : Val) (g : Val) (r : Row) :
    holds (eqOrNull c v) ⟨g, r⟩ = true ↔ r.get c = v := by
  cases v with
  | none => simp [eqOrNull, holds, Expr.eval, Operand.eval]
  | some x =>
    simp only [eqOrNull, holds, Expr.eval, Operand.eval, beq_iff_eq]
    cases r.get c with
    | none => simp [cmp3]
    | some y => simp [cmp3, CmpOp.holds]

theorem eqOrNull_usesOth (c : ColRef) (v : Val) : (eqOrNull c v).usesOth = false := by
  cases v <;> rfl

/-! ### n-ary AND / OR -/
theorem or3_false_right (x : TV) : or3 x (some false) = x := by
  cases x with
  | none => rfl
  | some b => cases b <;> rfl

theorem and3_true_right (x : TV) : and3 x (some true) = x := by
  cases x with
  | none => rfl
  | some b => cases b <;> rfl

theorem or3_true (a b : TV) : or3 a b = some true ↔ a = some true ∨ b = some true := by
  cases a with
  | none => cases b with
    | none => simp [or3]
    | some y => cases y <;> simp [or3]
  | some x => cases x <;> cases b with
    | none => simp [or3]
    | some y => cases y <;> simp [or3]

theorem nary_or_eval (e : Env) : ∀ (l : List Expr) (x : Expr), nary .or l = some x →
    x.eval e = or3L (l.map (Expr.eval e))
  | [], _, h => by simp [nary] at h
  | [a], x, h => by
    simp only [nary, Option.some.injEq] at h
    subst h
    simp [or3L, or3_false_right]
  | a :: b :: rest, x, h => by
    have hs : fnSpec .or = (.or, .or) := rfl
    simp only [nary, hs] at h
    cases ht : nary .or (b :: rest) with
    | none => rw [ht] at h; cases h
    | some t =>
      rw [ht] at h
      simp only [Option.some.injEq] at h
      subst h
      have ih := nary_or_eval e (b :: rest) t ht
      simp only [mkBool, Expr.eval, ih, List.map_cons, or3L]

theorem nary_and_eval (e : Env) : ∀ (l : List Expr) (x : Expr), nary .and l = some x →
    x.eval e = and3L (l.map (Expr.eval e))
  | [], _, h => by simp [nary] at h
  | [a], x, h => by
    simp only [nary, Option.some.injEq] at h
    subst h
    simp [and3L, and3_true_right]
  | a :: b :: rest, x, h => by
    have hs : fnSpec .and = (.and, .and) := rfl
    simp only [nary, hs] at h
    cases ht : nary .and (b :: rest) with
    | none => rw [ht] at h; cases h
    | some t =>
      rw [ht] at h
      simp only [Option.some.injEq] at h
      subst h
      have ih := nary_and_eval e (b :: rest) t ht
      simp only [mkBool, Expr.eval, ih, List.map_cons, and3L]

theorem or3L_true (l : List TV) : or3L l = some true ↔ ∃ x ∈ l, x = some true := by
  induction l with
  | nil => simp [or3L]
  | cons a l ih =>
    simp only [or3L, or3_true, ih, List.mem_cons]
    constructor
    · rintro (h | ⟨x, hx, e⟩)
      · exact ⟨a, Or.inl rfl, h⟩
      · exact ⟨x, Or.inr hx, e⟩
    · rintro ⟨x, (rfl | hx), e⟩
      · exact Or.inl e
      · exact Or.inr ⟨x, hx, e⟩

theorem and3L_true (l : List TV) : and3L l = some true ↔ ∀ x ∈ l, x = some true := by
  induction l with
  | nil => simp [and3L]
  | cons a l ih =>
    simp only [and3L, and3_true, ih, List.mem_cons]
    constructor
    · rintro ⟨h, hl⟩ x (rfl | hx)
      · exact h
      · exact hl x hx
    · intro h
      exact ⟨h a (Or.inl rfl), fun x hx => h x (Or.inr hx)⟩

theorem nary_isSome (f : BoolOp) : ∀ (l : List Expr), l ≠ [] → (nary f l).isSome = true
  | [], h => absurd rfl h
  | [a], _ => rfl
  | a :: b :: rest, _ => by
    have := nary_isSome (fnSpec f).2 (b :: rest) (by simp)
    simp only [nary]
    cases h : nary (fnSpec f).2 (b :: rest) with
    | none => rw [h] at this; cases this
    | some t => rfl

end SqlObjVerif.Query
