import SqlObjVerif.Lemmas.DdlXId
/-!
# C14 translation — `SODatabaseIndex.<dialect>CreateIndexSQL` and `<Connection>.createIndexSQL` = `indexSQL`
-/
namespace SqlObjVerif.DdlX
open SqlObjVerif.Ddl
open SqlObjVerif.PyDdl hiding Str isUpperC
open SqlObjVerif.PyDdl.Extracted

theorem withR_ret_out' (env : Env) (r : R Val) (k : Env → Res) :
    ((withR env r fun v => Res.ret env v).seq k).out = r := by
  cases r <;> simp [withR, Res.out]

def descV (db : Str) : Val := Val.dict [(.str [99, 111, 108, 117, 109, 110], .obj C_SOCol [("dbName", .str db)])]

/-- the loop over `self.descriptions` (plain columns) -/
theorem index_loop (call : Callee → List Val → R Val) (body : Block)
    (hb : body = SODatabaseIndex__sqliteCreateIndexSQL_for0 ∨ body = SODatabaseIndex__mysqlCreateIndexSQL_for0)
    (dbs : List Str) : ∀ (acc : List Str) (env : Env), env 3 = some (.list (acc.map .str)) →
      ∃ env', forLoop (loopStep 4 fun e => Block.exec call IX e body) (dbs.map descV) env = .norm env' ∧
        env' 3 = some (.list ((acc ++ dbs).map .str)) ∧ (∀ k, k ≠ 3 → k ≠ 4 → env' k = env k) := by
  induction dbs with
  | nil => intro acc env h; exact ⟨env, rfl, by simpa using h, fun _ _ _ => rfl⟩
  | cons db dbs ih =>
    intro acc env h
    obtain ⟨env', h1, h2, h3⟩ := ih (acc ++ [db]) ((env.put 4 (descV db)).put 3 (.list (acc.map .str ++ [.str db])))
      (by simp)
    refine ⟨env', ?_, by simpa using h2, ?_⟩
    · rw [← h1]
      rcases hb with rfl | rfl <;> pyxwith [forLoop, loopStep, descV, keyOf]
    · intro k k3 k4; rw [h3 k k3 k4]; simp [k3, k4]

@[simp] theorem ixV_descriptions (I : Iface) (decl : Decl) (ix : Index) :
    attrOf I (ixV decl ix) "descriptions" = .ok (.list ((indexCols decl ix).map descV)) := rfl
@[simp] theorem ixV_unique (I : Iface) (decl : Decl) (ix : Index) : attrOf I (ixV decl ix) "unique" = .ok (.bool ix.unique) := rfl
@[simp] theorem ixV_name (I : Iface) (decl : Decl) (ix : Index) : attrOf I (ixV decl ix) "name" = .ok (.str ix.name) := rfl
@[simp] theorem ixV_soClass (I : Iface) (decl : Decl) (ix : Index) :
    attrOf I (ixV decl ix) "soClass" = .ok (ownerV decl.tableName) := rfl
@[simp] theorem ownerV_table (I : Iface) (tb : Str) :
    (attrOf I (ownerV tb) "sqlmeta").bind (fun v => attrOf I v "table") = .ok (.str tb) := rfl
@[simp] theorem recvCls_ixV (decl : Decl) (ix : Index) : recvCls (ixV decl ix) = .ok C_SODatabaseIndex := rfl
@[simp] theorem metaV_table (I : Iface) (decl : Decl) (c0 : Val) (x : ClsX) :
    attrOf I (metaV decl c0 x) "table" = .ok (.str decl.tableName) := rfl

/-- `sqliteCreateIndexSQL` and its six aliases -/
theorem ix_sqlite_call (n : Nat) (m : Nat) (decl : Decl) (ix : Index) (sv : Val)
    (hm : prog.resolve (.meth C_SODatabaseIndex m) = some SODatabaseIndex__sqliteCreateIndexSQL_fn) :
    callN prog ddlI (n + 1) (.meth C_SODatabaseIndex m) [ixV decl ix, sv] = .ok (.str (indexSQL .sqlite decl ix)) := by
  rw [callX_succ _ _ _ _ hm]
  obtain ⟨env', h1, h2, h3⟩ := index_loop (callN prog ddlI n) _ (Or.inl rfl) (indexCols decl ix) []
    (((Env.ofArgs [ixV decl ix, sv]).put 2
      (.str (if ix.unique then [85, 78, 73, 81, 85, 69, 32, 73, 78, 68, 69, 88] else [73, 78, 68, 69, 88]))).put 3
        (.list [])) (by simp)
  have e2 := h3 2 (by decide) (by decide)
  have e0 := h3 0 (by decide) (by decide)
  simp only [Env.put_apply, Env.ofArgs_zero, Env.ofArgs_succ] at e0 e2
  cases hu : ix.unique <;> simp only [hu, if_true, if_false, Bool.false_eq_true] at h1 e2 <;>
    simp [SODatabaseIndex__sqliteCreateIndexSQL_fn, SODatabaseIndex__sqliteCreateIndexSQL,
      SODatabaseIndex__sqliteCreateIndexSQL_s0, SODatabaseIndex__sqliteCreateIndexSQL_s1,
      SODatabaseIndex__sqliteCreateIndexSQL_s2, SODatabaseIndex__sqliteCreateIndexSQL_s3,
      SODatabaseIndex__sqliteCreateIndexSQL_s4, Fn.run, Fn.args, Block.exec, Stmt.exec, Expr.eval, Exprs.eval,
      Res.seq_norm, hu, h1, h2, e0, e2, pyFmt, fmtPos, indexSQL, lit, allStr_map_str, joinStr_eq_joinWith]

theorem ix_mysql_call (n : Nat) (decl : Decl) (c0 : Val) (x : ClsX) (ix : Index) :
    callN prog ddlI (n + 1) (.meth C_SODatabaseIndex M_mysqlCreateIndexSQL) [ixV decl ix, soClassV decl c0 x] =
      .ok (.str (indexSQL .mysql decl ix)) := by
  rw [callX_succ _ _ _ _ res_SODatabaseIndex_mysqlCreateIndexSQL]
  obtain ⟨env', h1, h2, h3⟩ := index_loop (callN prog ddlI n) _ (Or.inr rfl) (indexCols decl ix) []
    (((Env.ofArgs [ixV decl ix, soClassV decl c0 x]).put 2
      (.str (if ix.unique then [85, 78, 73, 81, 85, 69] else [73, 78, 68, 69, 88]))).put 3 (.list [])) (by simp)
  have e1 := h3 1 (by decide) (by decide)
  have e2 := h3 2 (by decide) (by decide)
  have e0 := h3 0 (by decide) (by decide)
  simp only [Env.put_apply, Env.ofArgs_zero, Env.ofArgs_succ] at e0 e1 e2
  cases hu : ix.unique <;> simp only [hu, if_true, if_false, Bool.false_eq_true] at h1 e2 <;>
    simp [SODatabaseIndex__mysqlCreateIndexSQL_fn, SODatabaseIndex__mysqlCreateIndexSQL,
      SODatabaseIndex__mysqlCreateIndexSQL_s0, SODatabaseIndex__mysqlCreateIndexSQL_s1,
      SODatabaseIndex__mysqlCreateIndexSQL_s2, SODatabaseIndex__mysqlCreateIndexSQL_s3,
      Fn.run, Fn.args, Block.exec, Stmt.exec, Expr.eval, Exprs.eval,
      Res.seq_norm, hu, h1, h2, e0, e1, e2, pyFmt, fmtPos, indexSQL, lit, allStr_map_str, joinStr_eq_joinWith]

/-- **`<Connection>.createIndexSQL(soClass, index)` translated = `indexSQL`** (through
    `index.<dialect>CreateIndexSQL`; the six aliases of `sqliteCreateIndexSQL` are resolved by the class table) -/
theorem createIndexSQL_eq (n : Nat) (d : Dialect) (c : Caps) (decl : Decl) (c0 : Val) (x : ClsX) (ix : Index) :
    callN prog ddlI (n + 2) (.meth (connCls d) M_createIndexSQL) [connV d c, soClassV decl c0 x, ixV decl ix] =
      .ok (.str (indexSQL d decl ix)) := by
  have hs := fun m hm => ix_sqlite_call n m decl ix (soClassV decl c0 x) hm
  have hmy := ix_mysql_call n decl c0 x ix
  cases d <;> rw [callX_succ _ _ _ _ (by rfl)]
  case sqlite => have h := hs M_sqliteCreateIndexSQL rfl; pyxwith [withR_ret_out']
  case mysql => pyxwith [withR_ret_out']
  case postgres => have h := hs M_postgresCreateIndexSQL rfl; pyxwith [withR_ret_out']; rfl
  case firebird => have h := hs M_firebirdCreateIndexSQL rfl; pyxwith [withR_ret_out']; rfl
  case mssql => have h := hs M_mssqlCreateIndexSQL rfl; pyxwith [withR_ret_out']; rfl
  case sybase => have h := hs M_sybaseCreateIndexSQL rfl; pyxwith [withR_ret_out']; rfl
  case maxdb => have h := hs M_maxdbCreateIndexSQL rfl; pyxwith [withR_ret_out']; rfl

end SqlObjVerif.DdlX
