import SqlObjVerif.Lemmas.TxXExpire
import SqlObjVerif.Lemmas.PyTx
/-!
Symbolic execution of the TRANSLATED `Transaction.rollback` and `__del__`: the list comprehension
(`rollback_comp`), the nested loops by induction over the list `allIDs()` returned (`rollback_inner`,
`rollback_outer`: they compute `expireKeys`), `expireKeys_eq` + the interface assumption `AllIDsSpec` turn that into
the hand model's `rollbackExpire`; `_makeObsolete` is the translated program itself (`makeObsoleteX_eq`).
-/
namespace SqlObjVerif.Tx
open SqlObjVerif.PyTx
open SqlObjVerif.PyTx.Extracted

theorem expireKeys_cons (dc : Bool) (c : Conn) (k : Key) (ks : List Key) :
    expireKeys dc c (k :: ks) = expireKeys dc (expireKey dc c k) ks := rfl

theorem expireKeys_append (dc : Bool) (c : Conn) (ks ks' : List Key) :
    expireKeys dc c (ks ++ ks') = expireKeys dc (expireKeys dc c ks) ks' := by
  simp [expireKeys, List.foldl_append]

/-- the inner loop of `rollback` for the cache of class `c`: `for id in list(ids): …` -/
theorem rollback_inner (A : AllIDs) (c : Nat) (v0 v1 v3 : Option PVal) (is : List Nat) :
    ∀ (x : XT) (v4 v5 : Option PVal), ∃ v4' v5',
      forLoop (fun st a => rollback_for1.exec (iface1 A) none (st.setVar 4 a)) (is.map Val.int)
        { w := x, vars := [v0, v1, some (.ref 4 c), v3, v4, v5] } =
      .norm { w := { x with t := expireKeys x.dc x.t (is.map (mkKey c)) },
              vars := [v0, v1, some (.ref 4 c), v3, v4', v5'] } := by
  induction is with
  | nil => intro x v4 v5; exact ⟨v4, v5, rfl⟩
  | cons i is ih =>
    intro x v4 v5
    simp only [List.map_cons, forLoop, expireKeys_cons]
    cases ht : x.t.tryGet x.dc (mkKey c i) with
    | none =>
      have : rollback_for1.exec (iface1 A) none (St.setVar { w := x, vars := [v0, v1, some (.ref 4 c), v3, v4, v5] } 4 (Val.int i))
          = .norm { w := x, vars := [v0, v1, some (.ref 4 c), v3, some (.int i), some .none] } := by
        unfold rollback_for1
        txrun
        simp [txQuery, optInst, ht]
      rw [this]
      simp only [expireKey, ht]
      exact ih x _ _
    | some j =>
      have : rollback_for1.exec (iface1 A) none (St.setVar { w := x, vars := [v0, v1, some (.ref 4 c), v3, v4, v5] } 4 (Val.int i))
          = .norm { w := { x with t := expireInst x.t j }, vars := [v0, v1, some (.ref 4 c), v3, some (.int i), some (.ref 6 j)] } := by
        unfold rollback_for1
        txrun
        simp [txQuery, optInst, ht]
      rw [this]
      simp only [expireKey, ht]
      exact ih { x with t := expireInst x.t j } _ _


/-- the keys the loops visit: class by class, the ids in the order `allIDs()` gave them -/
def subKeys (idsf : Nat → List Nat) (cs : List Nat) : List Key := cs.flatMap fun c => (idsf c).map (mkKey c)

def rbEntry (idsf : Nat → List Nat) (c : Nat) : PVal := .pair (.ref 4 c) (Val.ofList ((idsf c).map Val.int))

/-- the outer loop of `rollback`: `for subCache, ids in subCaches: …` -/
theorem rollback_outer (A : AllIDs) (idsf : Nat → List Nat) (v0 v1 : Option PVal) (cs : List Nat) :
    ∀ (x : XT) (v2 v3 v4 v5 : Option PVal), ∃ v2' v3' v4' v5',
      forLoop (pairBody fun st p q => rollback_for0.exec (iface1 A) none ((st.setVar 2 p).setVar 3 q)) (cs.map (rbEntry idsf))
        { w := x, vars := [v0, v1, v2, v3, v4, v5] } =
      .norm { w := { x with t := expireKeys x.dc x.t (subKeys idsf cs) }, vars := [v0, v1, v2', v3', v4', v5'] } := by
  induction cs with
  | nil => intro x v2 v3 v4 v5; exact ⟨v2, v3, v4, v5, rfl⟩
  | cons c cs ih =>
    intro x v2 v3 v4 v5
    obtain ⟨a4, a5, hin⟩ := rollback_inner A c v0 v1 (some (Val.ofList ((idsf c).map Val.int))) (idsf c) x v4 v5
    have : rollback_for0.exec (iface1 A) none
        (St.setVar (St.setVar { w := x, vars := [v0, v1, v2, v3, v4, v5] } 2 (.ref 4 c)) 3 (Val.ofList ((idsf c).map Val.int)))
        = .norm { w := { x with t := expireKeys x.dc x.t ((idsf c).map (mkKey c)) },
                  vars := [v0, v1, some (.ref 4 c), some (Val.ofList ((idsf c).map Val.int)), a4, a5] } := by
      unfold rollback_for0
      simp only [St.setVar] at hin
      simp [Block.exec, Stmt.exec, Expr.eval, Env.get, St.setVar]
      rw [hin]
    simp only [List.map_cons, forLoop, rbEntry, pairBody]
    rw [this]
    simp only [subKeys, List.flatMap_cons, expireKeys_append]
    exact ih _ _ _ _ _


@[simp] theorem txIface_self (A : AllIDs) (call) : (txIface A call).self = .ref 7 0 := rfl
@[simp] theorem txIface_getAttr (A : AllIDs) (call) : (txIface A call).getAttr = txGetAttr := rfl
@[simp] theorem txIface_setAttr (A : AllIDs) (call) : (txIface A call).setAttr = txSetAttr := rfl
@[simp] theorem txIface_attrOf (A : AllIDs) (call) : (txIface A call).attrOf = txAttrOf := rfl
@[simp] theorem txIface_query (A : AllIDs) (call) : (txIface A call).query = txQuery A := rfl
@[simp] theorem txIface_call (A : AllIDs) (call) : (txIface A call).call = call := rfl
@[simp] theorem txIface_callFn (A : AllIDs) (call) : (txIface A call).callFn = txCallFn := rfl
@[simp] theorem txIface_global (A : AllIDs) (call) (n : String) : (txIface A call).global n =
    if n = "PY2" then some (.bool false) else if n = "CommitSignal" ∨ n = "RollbackSignal" then some (.str n) else none := rfl

/-- `[(sub, sub.allIDs()) for sub in self.cache.allSubCaches()]` -/
theorem rollback_comp (A : AllIDs) (call) (x : XT) (env : Env) :
    Expr.eval (txIface A call) x env
      (.comp 1 (.query (.selfAttr ["cache"]) "allSubCaches" .nil) (.pair (.var 1) (.query (.var 1) "allIDs" .nil)))
    = .ok (Val.ofList ((A.classes x.t).map (rbEntry (A.ids x.dc x.t)))) := by
  simp [Expr.eval, Exprs.eval, txGetAttr, txQuery]
  rw [mapR_map_ok _ _ (rbEntry (A.ids x.dc x.t))]
  intro c _
  simp [Env.get_put_self, rbEntry]

macro "txrun2" : tactic => `(tactic|
  simp [PyTx.run, Block.exec, Stmt.exec, Cond.eval, Expr.eval, Exprs.eval, Env.get, St.setVar, St.setOpt, afterCall,
        Res.toCall, pyBool, zipKw, ExcPat.catches, txGetAttr, txSetAttr, txAttrOf, txCall0, txCall1,
        txCallFn, img, Val.isNone, isListVal, *])

theorem mkKey_clsOf_idOf (k : Nat) : mkKey (clsOf k) (idOf k) = k := by
  show k / 1000 * 1000 + k % 1000 = k
  omega
theorem clsOf_mkKey (c i : Nat) (h : i < 1000) : clsOf (mkKey c i) = c := by
  show (c * 1000 + i) / 1000 = c
  omega
theorem idOf_mkKey (c i : Nat) (h : i < 1000) : idOf (mkKey c i) = i := by
  show (c * 1000 + i) % 1000 = i
  omega

theorem subKeys_spec (A : AllIDs) (dc : Bool) (t : Conn) (hA : AllIDsSpec A dc t) (k : Key) :
    (subKeys (A.ids dc t) (A.classes t)).contains k = t.inAllIDs dc k := by
  have hk : mkKey (clsOf k) (idOf k) = k := mkKey_clsOf_idOf k
  cases hin : t.inAllIDs dc k
  · rw [Bool.eq_false_iff]
    intro hc
    simp only [subKeys, List.contains_eq_mem, List.mem_flatMap, List.mem_map, decide_eq_true_eq] at hc
    obtain ⟨c, hc1, i, hi1, hi2⟩ := hc
    have hs := hA.small c i hi1
    have h1 : clsOf k = c := by rw [← hi2]; exact clsOf_mkKey c i hs
    have h2 : idOf k = i := by rw [← hi2]; exact idOf_mkKey c i hs
    have := (hA.mem k).1 ⟨by rw [h1]; exact hc1, by rw [h1, h2]; exact hi1⟩
    rw [hin] at this; cases this
  · have := (hA.mem k).2 hin
    simp only [subKeys, List.contains_eq_mem, List.mem_flatMap, List.mem_map, decide_eq_true_eq]
    exact ⟨clsOf k, this.1, idOf k, this.2, hk⟩

theorem rollbackX_eq (A : AllIDs) (s : Tx.St) (hA : AllIDsSpec A s.dc s.t) (lo : Low) (wf : ConnWF s.t) :
    rollbackX A (img s lo) = .ret (img (opRollback s).1 (if s.obsolete then lo else lo.release)) .none := by
  unfold rollbackX rollbackProg rollback_nlocals opRollback
  cases hob : s.obsolete
  · -- the expiry loops give `rollbackExpire`
    have hexp : expireKeys s.dc s.t (subKeys (A.ids s.dc s.t) (A.classes s.t)) = s.rollbackExpire := by
      rw [expireKeys_eq wf, rollbackExpire_eq]
      apply expireOn_congr
      intro k hk
      rw [subKeys_spec A _ _ hA]
      exact tryGet_inAllIDs _ _ _ hk
    have hmo := makeObsoleteX_eq A { s with ws := fun _ => none, lock := false, t := s.rollbackExpire } lo hob
    simp [img, hob] at hmo
    cases hdb : lo.debug
    · simp only [PyTx.run, Block.exec, Stmt.exec, rollback_comp]
      txrun2
      obtain ⟨a2, a3, a4, a5, hout⟩ := rollback_outer A (A.ids s.dc s.t) (some (Val.ofList (List.map (rbEntry (A.ids s.dc s.t)) (A.classes s.t)))) none (A.classes s.t)
        (img s lo).lowRollback none none none none
      simp only [St.setVar, img, hob] at hout
      simp only [Bool.not_false] at hout
      rw [hout]
      simp only [XT.lowRollback, hexp, hmo]
    · simp only [PyTx.run, Block.exec, Stmt.exec, rollback_comp]
      txrun2
      obtain ⟨a2, a3, a4, a5, hout⟩ := rollback_outer A (A.ids s.dc s.t) (some (Val.ofList (List.map (rbEntry (A.ids s.dc s.t)) (A.classes s.t)))) none (A.classes s.t)
        (img s lo).lowRollback none none none none
      simp only [St.setVar, img, hob] at hout
      simp only [Bool.not_false] at hout
      rw [hout]
      simp only [XT.lowRollback, hexp, hmo]
  · txrun2


@[simp] theorem img_obsolete (s : Tx.St) (lo : Low) : (img s lo).obsolete = s.obsolete := rfl

/-- `Transaction.__del__`: nothing when obsolete, else `rollback()` -/
theorem delX_eq (A : AllIDs) (s : Tx.St) (hA : AllIDsSpec A s.dc s.t) (lo : Low) (wf : ConnWF s.t) :
    delX A (img s lo) = .ret (img (opRollback s).1 (if s.obsolete then lo else lo.release)) .none := by
  have hrb := rollbackX_eq A s hA lo wf
  unfold delX delProg del_nlocals
  cases hob : s.obsolete
  · simp only [hob] at hrb
    simp [PyTx.run, Block.exec, Stmt.exec, Cond.eval, Expr.eval, Exprs.eval, afterCall, St.setOpt, Res.toCall, pyBool, zipKw,
      txGetAttr, txCall2, hob, hrb]
  · simp [PyTx.run, Block.exec, Stmt.exec, Cond.eval, Expr.eval, Res.toCall, pyBool, txGetAttr, hob, opRollback]

end SqlObjVerif.Tx
