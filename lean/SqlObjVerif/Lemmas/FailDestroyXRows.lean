import SqlObjVerif.Lemmas.FailDestroyXCols
/-!
C06, translated `destroySelf`, part 3: the two loops over a select result.
* ENTERING such a loop sends the SELECT (which the injected error may hit) and fetches every matching row
  (`for_select`: the `for` statement = `.stmt (.select k) <| .dyn … fetchAll … <| fold of the body's tree`);
* the set-null pass (`for5_loop`): the inner loop over the keys of `setnull` (`for6_loop`) finds the columns of the
  candidate row that hold the victim's id, `row.set(**clear)` and the lazy `syncUpdate()` are the hand model's trees —
  one row is `nullRowSeg`, all rows its fold (segment (e));
* the cascade pass (`for8_loop`): the fold of the recursive call (segment (f), `rec` a parameter).
-/
namespace SqlObjVerif.PyDestroyF
open SqlObjVerif.PyDestroy (Val keysOf)
end SqlObjVerif.PyDestroyF

namespace SqlObjVerif.FailDX
open SqlObjVerif.PyDestroy (Val Const Exc R CallRes Expr Exprs Cond Stmt Block Env St Res forLoop zipKw pyBool
  lenOf keysOf pairsOf vlSnoc isListVal vdSet starKwOf afterCall)
open SqlObjVerif.PyDestroyF
open SqlObjVerif.PyDestroy.Extracted
open SqlObjVerif.Fail (Err Schema Inj Pol Col Join Cls clsOf colOf fkCols Mem In Prog)
open SqlObjVerif.PyFail (sendStmt memStep)

variable (sch : Schema) (inj : Option Inj) (recC : Nat → Nat → Fail.St → CallRes Hnd Fail.St) (c id : Nat)

/-! ### select results -/

theorem atomsOf_map (k i : Nat) (fs : List Nat) : atomsOf k (Val.ofList (fs.map (atomV k i))) = some (fs.map fun f => (f, i)) := by
  induction fs with
  | nil => rfl
  | cons f fs ih => simp [Val.ofList, atomsOf, ih, atomV, atomOf]

/-- `sqlbuilder.OR(k.q.f1 == i, k.q.f2 == i, …)` over the columns of `fk` -/
def orV (k i : Nat) (fk : List (Nat × Pol)) : PVal := .app "OR" (Val.ofList (fk.map fun a => atomV k i a.1))

theorem whereOf_or (k i : Nat) (fk : List (Nat × Pol)) : whereOf k (orV k i fk) = some (fk.map fun a => (a.1, i)) := by
  have := atomsOf_map k i (fk.map (·.1))
  simp only [List.map_map] at this
  unfold orV
  simp only [whereOf, if_true]
  exact this

theorem selOf_selV (k i : Nat) (fk : List (Nat × Pol)) : selOf (selV k (orV k i fk)) = some (k, fk.map fun a => (a.1, i)) := by
  simp [selOf, selV, whereOf_or]

theorem selRows_eq (s : Fail.St) (k i : Nat) (fk : List (Nat × Pol)) :
    selRows s k (fk.map fun a => (a.1, i)) = (s.tab k).filter fun r => Fail.rowRefs fk i r.vals := by
  unfold selRows rowSat Fail.rowRefs
  simp [List.any_map, Function.comp_def]

theorem fFn_or (fdc) (as : List PVal) : fFn fdc "sqlbuilder.OR" as = .ok (.app "OR" (Val.ofList as)) := by
  simp [fFn]

theorem fFn_fdc (fdc) (c' k : Nat) : fFn fdc "findDependantColumns" [.obj (.cname c'), .obj (.cls k)] = fdc c' k := by
  simp [fFn]

theorem fQuery_select (s : Fail.St) (k i : Nat) (fk : List (Nat × Pol)) :
    fQuery sch inj s (.obj (.cls k)) "select" [orV k i fk] [(.str "connection", .obj .conn)] = .ok s (selV k (orV k i fk)) := by
  simp [fQuery, whereOf_or]

theorem fQuery_count (s : Fail.St) (k i : Nat) (fk : List (Nat × Pol)) :
    fQuery sch inj s (selV k (orV k i fk)) "count" [] [] =
      sendE (sendStmt sch inj (.select k) s) fun s1 => .int ((s1.tab k).filter fun r => Fail.rowRefs fk i r.vals).length := by
  have := selOf_selV k i fk
  unfold selV at this ⊢
  simp [fQuery, this, selRows_eq]

theorem fIter_sel (s : Fail.St) (k i : Nat) (fk : List (Nat × Pol)) :
    fIter sch inj s (selV k (orV k i fk)) =
      match sendStmt sch inj (.select k) s with
      | (s1, some e) => .exc s1 (errName e)
      | (s1, none) => .ok (fetchRows k (Fail.refRows s1 fk k i) s1) ((Fail.refRows s1 fk k i).map fun r => .obj (.row k r)) := by
  simp only [fIter, selOf_selV, selRows_eq]
  rfl

theorem fQuery_depends (s : Fail.St) (k j : Nat) :
    fQuery sch inj s (.obj (.inst k j)) "_SO_depends" [] [] = .ok s (Val.ofList ((dependentsF sch k).map fun d => .obj (.cls d))) := by
  simp [fQuery]

/-- **entering a loop over a select result**: the `for` statement is the SELECT, the fetch pass and the fold of the
    tree `F` of its body — given that the loop over the materialised rows is that fold -/
theorem for_select (k : Nat) (fk : List (Nat × Pol)) (x : Nat) (body : Block) (F : Fail.Row → Prog → Prog)
    (frame : Env Hnd → Prop) (env : Env Hnd) (hrefl : frame env)
    (hloop : ∀ (rows : List Fail.Row) (s : Fail.St), ∃ env',
      forLoop (fun st a => execB (dIface sch inj recC c id) (st.setVar x a) body) (rows.map fun r => .obj (.row k r)) ⟨s, env⟩ =
        resSt env' (Fail.run sch inj (rows.foldr F .done) s) ∧ frame env')
    (s : Fail.St) (h10 : env 10 = some (selV k (orV k id fk))) : ∃ env',
    execS (dIface sch inj recC c id) ⟨s, env⟩ (.for x (.var 10) body) =
      resSt env' (Fail.run sch inj (.stmt (.select k) <| .dyn fun s1 =>
        Fail.fetchAll k (Fail.refRows s1 fk k id) <| (Fail.refRows s1 fk k id).foldr F .done) s) ∧ frame env' := by
  rw [run_stmt]
  simp only [execS, evalE, h10, ofOpt_some, bind_ok]
  unfold selV
  simp only [iterF_app, fIface_iter]
  have := fIter_sel sch inj s k id fk
  unfold selV at this
  rw [this]
  rcases sendStmt sch inj (.select k) s with ⟨s1, _ | e⟩
  · simp only [run_dyn, run_fetchAll]
    exact hloop _ _
  · exact ⟨env, rfl, hrefl⟩

/-! ### the set-null pass -/

@[simp] theorem keysOf_dbody (ns : List Nat) : keysOf (dbody ns) = some (ns.map fun f => .obj (.name f)) := by
  induction ns with
  | nil => rfl
  | cons f ns ih => unfold dbody at ih ⊢; simp [Val.ofList, keysOf, ih]

theorem kwCols_dbody (ns : List Nat) : (pairsOf (dbody ns)).bind kwCols = some ns := by
  induction ns with
  | nil => rfl
  | cons f ns ih =>
    unfold dbody at ih ⊢
    simp only [List.map_cons, Val.ofList, pairsOf]
    cases hp : pairsOf (Val.ofList (ns.map fun f => (.pair (.obj (.name f)) .none : PVal))) with
    | none => simp [hp] at ih
    | some l => simp [hp] at ih; simp [kwCols, ih]

theorem pairsOf_dbody (ns : List Nat) : ∃ l, pairsOf (dbody ns) = some l ∧ kwCols l = some ns := by
  have := kwCols_dbody ns
  cases hp : pairsOf (dbody ns) with
  | none => simp [hp] at this
  | some l => exact ⟨l, rfl, by simpa [hp] using this⟩

/-- `for name in setnull`: which of the `cascade='null'` columns of this row object hold the victim's id -/
theorem for6_step (k f : Nat) (r : Fail.Row) (s : Fail.St) (env : Env Hnd) (cs : List Nat)
    (h12 : env 12 = some (.obj (.row k r))) (h13 : env 13 = some (.dict (dbody cs))) : ∃ envA,
    execB (dIface sch inj recC c id) (St.setVar ⟨s, env⟩ 14 (.obj (.name f))) destroySelf_for6 = .norm ⟨s, envA⟩ ∧
    envA 13 = some (.dict (dbody (if rowVal s k r f = some (id : Int) then addKey f cs else cs))) ∧
    ∀ x, x ≠ 13 → x ≠ 14 → envA x = env x := by
  by_cases hv : rowVal s k r f = some (id : Int)
  · refine ⟨(env.put 14 (.obj (.name f))).put 13 (.dict (dbody (addKey f cs))), ?_, ?_, ?_⟩
    · unfold destroySelf_for6
      fdrun
      simp [vdSet_dbody]
    · simp [hv]
    · intro x h13 h14; simp [h13, h14]
  · refine ⟨env.put 14 (.obj (.name f)), ?_, ?_, ?_⟩
    · unfold destroySelf_for6
      fdrun
    · simp [hv, h13]
    · intro x h13 h14; simp [h14]

theorem for6_loop (k : Nat) (r : Fail.Row) (s : Fail.St) (ns : List Nat) :
    ∀ (env : Env Hnd) (cs : List Nat), env 12 = some (.obj (.row k r)) → env 13 = some (.dict (dbody cs)) →
    ∃ env', forLoop (fun st a => execB (dIface sch inj recC c id) (st.setVar 14 a) destroySelf_for6) (ns.map fun f => .obj (.name f)) ⟨s, env⟩ =
        .norm ⟨s, env'⟩ ∧
      env' 13 = some (.dict (dbody (addKeys cs (ns.filter fun f => rowVal s k r f == some (id : Int))))) ∧
      ∀ x, x ≠ 13 → x ≠ 14 → env' x = env x := by
  induction ns with
  | nil => intro env cs _ h; exact ⟨env, rfl, by simpa [addKeys] using h, fun _ _ _ => rfl⟩
  | cons f ns ih =>
    intro env cs h12 h13
    obtain ⟨envA, hA, a13, af⟩ := for6_step sch inj recC c id k f r s env cs h12 h13
    simp only [List.map_cons, forLoop, hA]
    obtain ⟨env', e1, e13, ef⟩ := ih envA _ (by rw [af 12 (by decide) (by decide)]; exact h12) a13
    refine ⟨env', e1, ?_, fun x x13 x14 => by rw [ef x x13 x14, af x x13 x14]⟩
    rw [e13]
    by_cases hv : rowVal s k r f = some (id : Int) <;> simp [addKeys, hv]

theorem fCall_set (s : Fail.St) (k : Nat) (r : Fail.Row) (kw : List (PVal × PVal)) (fs : List Nat) (h : kwCols kw = some fs) :
    fCall sch inj recC s (.obj (.row k r)) "set" [] kw =
      outCall (Fail.run sch inj (Fail.setProg sch k r.id (fs.map fun j => (j, In.ok none)) [] .done) s) := by
  simp [fCall, h]

theorem fCall_sync (s : Fail.St) (k : Nat) (r : Fail.Row) :
    fCall sch inj recC s (.obj (.row k r)) "syncUpdate" [] [] = outCall (Fail.run sch inj (Fail.syncProg k r.id .done) s) := by
  simp [fCall]

theorem fCall_destroy (s : Fail.St) (k : Nat) (r : Fail.Row) :
    fCall sch inj recC s (.obj (.row k r)) "destroySelf" [] [] = recC k r.id s := by
  simp [fCall]

/-- one run of the body of the set-null pass is the hand model's tree for one row -/
theorem for5_step (k : Nat) (fk : List (Nat × Pol)) (hnd : (Fail.nullCols fk).Nodup) (r : Fail.Row) (s : Fail.St) (env : Env Hnd)
    (h11 : env 11 = some (.dict (dbody (Fail.nullCols fk)))) : ∃ envA,
    execB (dIface sch inj recC c id) (St.setVar ⟨s, env⟩ 12 (.obj (.row k r))) destroySelf_for5 =
      resSt envA (Fail.run sch inj (nullRowSeg sch fk k id r .done) s) ∧
    ∀ x, x ≠ 12 → x ≠ 13 → x ≠ 14 → envA x = env x := by
  obtain ⟨env6, h6, h613, h6f⟩ := for6_loop sch inj recC c id k r s (Fail.nullCols fk)
    ((env.put 12 (.obj (.row k r))).put 13 (.dict (dbody []))) [] (by simp) (by simp)
  have hclear : addKeys [] ((Fail.nullCols fk).filter fun f => rowVal s k r f == some (id : Int)) =
      (Fail.nullCols fk).filter fun f => rowVal s k r f == some (id : Int) := by
    rw [addKeys_nodup _ [] (hnd.filter _) (fun _ _ => by simp)]; simp
  rw [hclear] at h613
  obtain ⟨kw, hkw, hcols⟩ := pairsOf_dbody ((Fail.nullCols fk).filter fun f => rowVal s k r f == some (id : Int))
  have e12 : env6 12 = some (.obj (.row k r)) := by rw [h6f 12 (by decide) (by decide)]; simp
  refine ⟨env6, ?_, ?_⟩
  · have hm : Fail.run sch inj (nullRowSeg sch fk k id r .done) s =
        bindRun sch inj (Fail.run sch inj (Fail.setProg sch k r.id
          (((Fail.nullCols fk).filter fun f => rowVal s k r f == some (id : Int)).map fun j => (j, In.ok none)) [] .done) s)
          (if (clsOf sch k).lazy then Fail.syncProg k r.id .done else .done) := by
      unfold nullRowSeg
      rw [run_dyn]
      exact nat_setProg sch inj k r.id _ _ s
    rw [hm]
    unfold destroySelf_for5
    simp only [execB, execS, evalE, St.setVar, dbody, Val.ofList, List.map_nil] at h6 ⊢
    simp [h11, h6, Res.seq, evalC, evalE, evalEs, starKwOf, zipKw, h613, hkw, e12, fCall_set _ _ _ _ _ _ _ _ hcols,
      afterCall_outCall]
    rcases Fail.run sch inj (Fail.setProg sch k r.id
          (((Fail.nullCols fk).filter fun f => rowVal s k r f == some (id : Int)).map fun j => (j, In.ok none)) [] .done) s
      with ⟨s1, _ | e⟩
    · by_cases hl : (clsOf sch k).lazy = true
      · simp [hl, e12, fCall_sync, afterCall_outCall]
        rcases Fail.run sch inj (Fail.syncProg k r.id .done) s1 with ⟨s2, _ | e⟩ <;> simp
      · simp [hl, e12, run_done]
    · simp
  · intro x h12 h13 h14
    rw [h6f x h13 h14]; simp [h12, h13]

/-- **segment (e), the loop**: the set-null pass over the materialised rows is the fold of `nullRowSeg` -/
theorem for5_loop (k : Nat) (fk : List (Nat × Pol)) (hnd : (Fail.nullCols fk).Nodup) (rows : List Fail.Row) :
    ∀ (s : Fail.St) (env : Env Hnd), env 11 = some (.dict (dbody (Fail.nullCols fk))) → ∃ env',
      forLoop (fun st a => execB (dIface sch inj recC c id) (st.setVar 12 a) destroySelf_for5) (rows.map fun r => .obj (.row k r)) ⟨s, env⟩ =
        resSt env' (Fail.run sch inj (rows.foldr (nullRowSeg sch fk k id) .done) s) ∧
      ∀ x, x ≠ 12 → x ≠ 13 → x ≠ 14 → env' x = env x := by
  induction rows with
  | nil => intro s env _; exact ⟨env, by simp [forLoop, run_done], fun _ _ _ _ => rfl⟩
  | cons r rows ih =>
    intro s env h11
    obtain ⟨envA, hA, af⟩ := for5_step sch inj recC c id k fk hnd r s env h11
    simp only [List.map_cons, forLoop, hA, List.foldr_cons]
    rw [nat_nullRow sch inj fk k id r (rows.foldr (nullRowSeg sch fk k id) .done) s]
    rcases Fail.run sch inj (nullRowSeg sch fk k id r .done) s with ⟨s1, _ | e⟩
    · obtain ⟨env', e1, ef⟩ := ih s1 envA (by rw [af 11 (by decide) (by decide) (by decide)]; exact h11)
      exact ⟨env', by simpa using e1, fun x a b d => by rw [ef x a b d, af x a b d]⟩
    · exact ⟨envA, rfl, af⟩

/-! ### the cascade pass -/

/-- **segment (f), the loop**: the cascade pass over the materialised rows is the fold of the recursive call -/
theorem for8_loop (recP : Nat → Nat → Prog → Prog) (hnat : ∀ k j, Natural sch inj (recP k j))
    (hrec : ∀ k j s, recC k j s = outCall (Fail.run sch inj (recP k j .done) s)) (k : Nat) (rows : List Fail.Row) :
    ∀ (s : Fail.St) (env : Env Hnd), ∃ env',
      forLoop (fun st a => execB (dIface sch inj recC c id) (st.setVar 12 a) destroySelf_for8) (rows.map fun r => .obj (.row k r)) ⟨s, env⟩ =
        resSt env' (Fail.run sch inj (rows.foldr (fun r acc => recP k r.id acc) .done) s) ∧
      ∀ x, x ≠ 12 → env' x = env x := by
  induction rows with
  | nil => intro s env; exact ⟨env, by simp [forLoop, run_done], fun _ _ => rfl⟩
  | cons r rows ih =>
    intro s env
    have hb : execB (dIface sch inj recC c id) (St.setVar ⟨s, env⟩ 12 (.obj (.row k r))) destroySelf_for8 =
        resSt (env.put 12 (.obj (.row k r))) (Fail.run sch inj (recP k r.id .done) s) := by
      unfold destroySelf_for8
      fdrun
      simp only [fCall_destroy, hrec, afterCall_outCall]
      rcases Fail.run sch inj (recP k r.id .done) s with ⟨s1, _ | e⟩ <;> simp
    simp only [List.map_cons, forLoop, hb, List.foldr_cons]
    rw [hnat k r.id (rows.foldr (fun r acc => recP k r.id acc) .done) s]
    rcases Fail.run sch inj (recP k r.id .done) s with ⟨s1, _ | e⟩
    · obtain ⟨env', e1, ef⟩ := ih s1 (env.put 12 (.obj (.row k r)))
      exact ⟨env', by simpa using e1, fun x a => by rw [ef x a]; simp [a]⟩
    · exact ⟨env.put 12 (.obj (.row k r)), rfl, fun x a => by simp [a]⟩

end SqlObjVerif.FailDX
