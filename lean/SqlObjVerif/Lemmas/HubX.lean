import SqlObjVerif.Model.HubX
import SqlObjVerif.Lemmas.Hub
/-!
Symbolic execution of the TRANSLATED `ConnectionHub.doInTransaction` (a PyTx program regenerated from
/repo's dbconnection.py on every run) against the hand-written model `Model/Hub.lean`.
`hubrun` evaluates the interpreter on the concrete program under the facts of the path (which binding the
thread resolves to, how the body ended).  A semantic edit of `doInTransaction` changes the program and
breaks these proofs; renaming a local does not change the program.
-/
namespace SqlObjVerif.Hub
open SqlObjVerif.PyTx
open SqlObjVerif.PyTx.Extracted

theorem upd_upd_same {α : Type} (f : Nat → α) (k : Nat) (a b : α) : upd (upd f k a) k b = upd f k b := by
  funext x; simp only [upd_apply]; split <;> rfl

theorem upd_self {α : Type} (f : Nat → α) (k : Nat) : upd f k (f k) = f := by
  funext x; simp only [upd_apply]; split
  · rename_i h; rw [h]
  · rfl

theorem excTo_excOf (e : Exc) : excTo (excOf e) = e := by
  obtain ⟨k, i⟩ := e
  cases k <;> rfl

theorem excOf_cls (e : Exc) :
    (excOf e).cls = (match e.kind with | .exc => ExcCls.exception | .baseOnly => ExcCls.baseOnly) := by
  obtain ⟨k, i⟩ := e
  cases k <;> rfl

theorem abs_rep (w : World) : abs (rep w) = w := rfl

macro "hubrun" : tactic => `(tactic|
  simp [PyTx.run, Block.exec, Stmt.exec, Cond.eval, Expr.eval, Exprs.eval, Env.get, St.setVar, St.setOpt, afterCall,
        Res.toCall, pyBool, zipKw, ExcPat.catches, hubIface, hubGetAttr, hubSetAttr, hubCall, hubCallFn,
        crefVal, valCRef, absRes, rep, abs, XW.release, excTo_excOf, excOf_cls, upd_upd_same, upd_self, *])

/-- neither a thread-level nor a process-level binding: the AttributeError of `self.processConnection` escapes,
    nothing changed -/
theorem doInTransactionX_unbound (w : World) (tid : Nat) (b : Body) (h : w.hub.resolve tid = none) :
    absRes (doInTransactionX tid b (rep w)) = some (doInTx w tid b) := by
  unfold doInTransactionX doInTransactionProg doInTransaction_nlocals doInTx
  have ht : w.hub.thread tid = none := by
    unfold Hub.resolve at h; cases h1 : w.hub.thread tid <;> simp [h1] at h ⊢
  have hp : w.hub.proc = none := by
    unfold Hub.resolve at h; rw [ht] at h; cases h1 : w.hub.proc <;> simp [h1] at h ⊢
  hubrun
  rfl

/-- the binding is a database connection, read at level `lvl`: the three ways the body can end -/
theorem doInTransactionX_level (w : World) (tid : Nat) (b : Body) (lvl : Level) (c : Nat)
    (hres : w.hub.resolve tid = some (lvl, .base c))
    (hlvl : (lvl = .thread ∧ w.hub.thread tid = some (.base c)) ∨
            (lvl = .process ∧ w.hub.thread tid = none ∧ w.hub.proc = some (.base c))) :
    absRes (doInTransactionX tid b (rep w)) = some (doInTx w tid b) := by
  unfold doInTransactionX doInTransactionProg doInTransaction_nlocals doInTx
  simp only [hres]
  have hrest := bind_bind_restore w.hub tid lvl (.base c) (.tx c) hres
  generalize hr : runBody (w.hub.bind lvl tid (.tx c)) tid ⟨w.db, w.db⟩ b = r at *
  obtain ⟨r1, r2⟩ := r
  rcases hlvl with ⟨rfl, ht⟩ | ⟨rfl, ht, hp⟩
  · cases r2 with
    | none => hubrun                       -- body returned: commit(close=True), return value, restore
    | some e =>
      cases hk : e.kind
      · hubrun                             -- Exception subclass: rollback, re-raise, restore
      · hubrun                             -- BaseException only: not caught; restore only
  · cases r2 with
    | none => hubrun
    | some e =>
      cases hk : e.kind
      · hubrun
      · hubrun

theorem resolve_cases (h : Hub) (tid : Nat) (lvl : Level) (r : CRef) (hres : h.resolve tid = some (lvl, r)) :
    (lvl = .thread ∧ h.thread tid = some r) ∨ (lvl = .process ∧ h.thread tid = none ∧ h.proc = some r) := by
  unfold Hub.resolve at hres
  cases ht : h.thread tid with
  | some r' => simp [ht] at hres; exact Or.inl ⟨hres.1.symm, by rw [hres.2]⟩
  | none =>
    simp only [ht] at hres
    cases hp : h.proc with
    | none => simp [hp] at hres
    | some r' => simp [hp] at hres; exact Or.inr ⟨hres.1.symm, rfl, by rw [hres.2]⟩

/-- **the translated `doInTransaction` is the hand model's `doInTx`**, from the image of every model world, for every
    calling thread and body, whenever the thread's binding is not already a transaction (nested use is outside the
    hand model) -/
theorem doInTransactionX_eq (w : World) (tid : Nat) (b : Body)
    (hn : ∀ lvl c, w.hub.resolve tid ≠ some (lvl, .tx c)) :
    absRes (doInTransactionX tid b (rep w)) = some (doInTx w tid b) := by
  cases hres : w.hub.resolve tid with
  | none => exact doInTransactionX_unbound w tid b hres
  | some p =>
    obtain ⟨lvl, r⟩ := p
    cases r with
    | tx c => exact absurd hres (hn lvl c)
    | base c => exact doInTransactionX_level w tid b lvl c hres (resolve_cases _ _ _ _ hres)

end SqlObjVerif.Hub
