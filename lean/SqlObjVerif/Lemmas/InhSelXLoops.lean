import SqlObjVerif.Lemmas.InhSelXBase
import SqlObjVerif.Lemmas.InheritXGet
/-!
Symbolic execution of the TRANSLATED `InheritableSelectResults.__init__`, part 1: its six loops.  Each lemma is stated for
an ARBITRARY state with pointwise hypotheses on the locals read and pointwise conclusions on the locals written
(+ frame), by induction over the iterated list / the class chain walked by the `while` loops (`IsChain`); the loops
compute the pure association-list functions `step3` / `step2` / `linksTo` / `joinsOf` of `Model/InhSelX.lean`.
-/
set_option linter.unusedSimpArgs false
namespace SqlObjVerif.InhSel
open SqlObjVerif.PyIS
open SqlObjVerif.PyIS.Extracted
open SqlObjVerif.Inherit hiding Val Res Cmp Out


/-- loop 1: `for registryClass in allClasses: if str(registryClass.sqlmeta.table) in tablesSet: tableRegistry[rc] = rc` -/
theorem loop1_run (X : SCtx) (s : SVal) (tabs : List Nat) : ∀ (l : List Nat) (st : St SW) (R : AL),
    st.env 6 = some (tabSet tabs) → st.env 9 = some (dictV R) →
    ∃ st', forLoop (fun st a => selInit_loop1.exec (sIface X s) none (st.setVar 11 a)) (fun st => .norm st)
        (l.map Val.cls) st = .norm st' ∧ st'.w = st.w ∧
      st'.env 9 = some (dictV (l.foldl (regStep tabs) R)) ∧
      ∀ y, y ≠ 9 → y ≠ 11 → st'.env y = st.env y := by
  intro l
  induction l with
  | nil => intro st R h6 h9; exact ⟨st, rfl, rfl, h9, fun _ _ _ => rfl⟩
  | cons c l ih =>
    intro st R h6 h9
    have hstep : ∃ st1, selInit_loop1.exec (sIface X s) none (st.setVar 11 (.cls c)) = .norm st1 ∧ st1.w = st.w ∧
        st1.env 9 = some (dictV (regStep tabs R c)) ∧
        ∀ y, y ≠ 9 → y ≠ 11 → st1.env y = st.env y := by
      unfold selInit_loop1 regStep
      by_cases hc : c ∈ tabs
      · isrun
        intro y h1 h2; simp [h1, h2]
      · isrun
        intro y h1 h2; simp [h1, h2]
    obtain ⟨st1, e1, w1, r1, f1⟩ := hstep
    obtain ⟨st', e2, w2, r2, f2⟩ := ih st1 _ (by rw [f1 6 (by decide) (by decide)]; exact h6) r1
    refine ⟨st', ?_, w2.trans w1, ?_, fun y h1 h2 => (f2 y h1 h2).trans (f1 y h1 h2)⟩
    · simp only [List.map_cons, forLoop, e1, e2]
    · simpa using r2


/-- one iteration of `while currentClass:` at class `y` -/
theorem loop3_body (X : SCtx) (s : SVal) (copy : AL) (x y : Nat) (st : St SW) (R : AL)
    (h12 : st.env 12 = some (dictV copy)) (h13 : st.env 13 = some (.cls x)) (h14 : st.env 14 = some (.cls y))
    (h9 : st.env 9 = some (dictV R)) :
    ∃ st1, selInit_loop3.exec (sIface X s) none st = .norm st1 ∧ st1.w = st.w ∧
      st1.env 9 = some (dictV (step3 copy x R y)) ∧ st1.env 14 = some (sClassOpt (X.T.parent y)) ∧
      ∀ z, z ≠ 9 → z ≠ 14 → st1.env z = st.env z := by
  unfold selInit_loop3 step3
  cases h1 : alGet y copy <;> cases h2 : alGet y R <;> isrun <;> (intro z hz1 hz2; simp [hz1, hz2])


theorem loop3_cond_cls (X : SCtx) (s : SVal) (st : St SW) (y : Nat) (h14 : st.env 14 = some (.cls y)) :
    selInit_loop3_cond.eval (sIface X s) st.w st.env = .ok true := by
  unfold selInit_loop3_cond; isrun

theorem loop3_cond_none (X : SCtx) (s : SVal) (st : St SW) (h14 : st.env 14 = some .none) :
    selInit_loop3_cond.eval (sIface X s) st.w st.env = .ok false := by
  unfold selInit_loop3_cond; isrun

/-- the `while currentClass:` walk up the chain `y :: ys` -/
theorem loop3_run (X : SCtx) (s : SVal) (copy : AL) (x : Nat) : ∀ (ys : List Nat) (y : Nat), IsChain X.T (y :: ys) →
    ∀ (fuel : Nat), (y :: ys).length + 1 ≤ fuel → ∀ (st : St SW) (R : AL),
    st.env 12 = some (dictV copy) → st.env 13 = some (.cls x) → st.env 14 = some (.cls y) →
    st.env 9 = some (dictV R) →
    ∃ st', whileLoop (fun st => selInit_loop3_cond.eval (sIface X s) st.w st.env)
        (fun st => selInit_loop3.exec (sIface X s) none st) (fun st => .norm st) fuel st = .norm st' ∧ st'.w = st.w ∧
      st'.env 9 = some (dictV ((y :: ys).foldl (step3 copy x) R)) ∧
      ∀ z, z ≠ 9 → z ≠ 14 → st'.env z = st.env z := by
  intro ys
  induction ys with
  | nil =>
    intro y hch fuel hfuel st R h12 h13 h14 h9
    obtain ⟨n, rfl⟩ : ∃ n, fuel = n + 2 := ⟨fuel - 2, by simp at hfuel; omega⟩
    simp only [IsChain] at hch
    obtain ⟨st1, e1, w1, r1, c1, f1⟩ := loop3_body X s copy x y st R h12 h13 h14 h9
    rw [hch] at c1
    refine ⟨st1, ?_, w1, by simpa using r1, f1⟩
    simp only [whileLoop, loop3_cond_cls X s st y h14, e1, loop3_cond_none X s st1 c1]
  | cons p ys ih =>
    intro y hch fuel hfuel st R h12 h13 h14 h9
    obtain ⟨n, rfl⟩ : ∃ n, fuel = n + 1 := ⟨fuel - 1, by simp at hfuel; omega⟩
    obtain ⟨hpy, hch'⟩ := hch
    obtain ⟨st1, e1, w1, r1, c1, f1⟩ := loop3_body X s copy x y st R h12 h13 h14 h9
    rw [hpy] at c1
    obtain ⟨st', e2, w2, r2, f2⟩ := ih p hch' n (by simp at hfuel ⊢; omega) st1 _
      (by rw [f1 12 (by decide) (by decide)]; exact h12) (by rw [f1 13 (by decide) (by decide)]; exact h13) c1 r1
    refine ⟨st', ?_, w2.trans w1, by simpa using r2, fun z h1 h2 => (f2 z h1 h2).trans (f1 z h1 h2)⟩
    simp only [whileLoop, loop3_cond_cls X s st y h14, e1, e2]

theorem anc_eq_cons (T : Tree) (c : Nat) : T.anc c = c :: (T.anc c).tail := by
  have := anc_head T c
  cases hl : T.anc c with
  | nil => rw [hl] at this; cases this
  | cons x xs => rw [hl] at this; simp at this; subst this; rfl

/-- loop 2: `for childClass in tableRegistryCopy:` -/
theorem loop2_run (X : SCtx) (h : X.T.WF) (s : SVal) (copy : AL) : ∀ (l : List Nat) (st : St SW) (R : AL),
    st.env 12 = some (dictV copy) → st.env 9 = some (dictV R) →
    ∃ st', forLoop (fun st a => selInit_loop2.exec (sIface X s) none (st.setVar 13 a)) (fun st => .norm st)
        (l.map Val.cls) st = .norm st' ∧ st'.w = st.w ∧
      st'.env 9 = some (dictV (l.foldl (step2 X.T copy) R)) ∧
      ∀ z, z ≠ 9 → z ≠ 13 → z ≠ 14 → st'.env z = st.env z := by
  intro l
  induction l with
  | nil => intro st R h12 h9; exact ⟨st, rfl, rfl, h9, fun _ _ _ _ => rfl⟩
  | cons x l ih =>
    intro st R h12 h9
    have hstep : ∃ st1, (selInit_loop2.exec (sIface X s) none (st.setVar 13 (.cls x)) = .norm st1 ∨
          selInit_loop2.exec (sIface X s) none (st.setVar 13 (.cls x)) = .cont st1) ∧ st1.w = st.w ∧
        st1.env 9 = some (dictV (step2 X.T copy R x)) ∧
        ∀ z, z ≠ 9 → z ≠ 13 → z ≠ 14 → st1.env z = st.env z := by
      unfold selInit_loop2 step2
      cases hx : alGet x R with
      | none =>
        isrun
        intro z h1 h2 h3; simp [h2]
      | some v =>
        isrun
        generalize hF : whileLoop _ _ _ _ _ = r
        have hch := anc_isChain h x
        rw [anc_eq_cons] at hch
        have hfu := anc_fuel h x
        rw [anc_eq_cons] at hfu
        obtain ⟨st', e2, w2, r2, f2⟩ := loop3_run X s copy x (X.T.anc x).tail x hch (X.T.n + 2) (by omega)
          { w := st.w, env := (st.env.put 13 (.cls x)).put 14 (.cls x) } R (by simp [h12]) (by simp) (by simp)
          (by simp [h9])
        rw [← anc_eq_cons] at r2
        rw [e2] at hF
        subst hF
        refine ⟨st', by simp, w2, r2, ?_⟩
        intro z h1 h2 h3
        rw [f2 z h1 h3]; simp [h2, h3]
    obtain ⟨st1, e1, w1, r1, f1⟩ := hstep
    obtain ⟨st', e2, w2, r2, f2⟩ := ih st1 _ (by rw [f1 12 (by decide) (by decide) (by decide)]; exact h12) r1
    refine ⟨st', ?_, w2.trans w1, by simpa using r2, fun z h1 h2 h3 => (f2 z h1 h2 h3).trans (f1 z h1 h2 h3)⟩
    rcases e1 with e1 | e1 <;> simp only [List.map_cons, forLoop, e1, e2]



/-- the `while currentClass != minParentClass and currentClass.sqlmeta.parentClass:` walk up the chain `a :: ys` -/
theorem loop5_run (X : SCtx) (s : SVal) (t : Nat) : ∀ (ys : List Nat) (a : Nat), IsChain X.T (a :: ys) →
    ∀ (fuel : Nat), (a :: ys).length + 1 ≤ fuel → ∀ (st : St SW) (J : List Sql) (tabs : List Nat),
    st.env 14 = some (.cls a) → st.env 16 = some (.cls t) → st.env 15 = some (sqlList J) →
    st.env 6 = some (tabSet tabs) →
    ∃ st' tabs', whileLoop (fun st => selInit_loop5_cond.eval (sIface X s) st.w st.env)
        (fun st => selInit_loop5.exec (sIface X s) none st) (fun st => .norm st) fuel st = .norm st' ∧ st'.w = st.w ∧
      st'.env 15 = some (sqlList (J ++ linksTo t (a :: ys))) ∧ st'.env 6 = some (tabSet tabs') ∧
      ∀ z, z ≠ 6 → z ≠ 14 → z ≠ 15 → z ≠ 17 → st'.env z = st.env z := by
  intro ys
  induction ys with
  | nil =>
    intro a hch fuel hfuel st J tabs h14 h16 h15 h6
    obtain ⟨n, rfl⟩ : ∃ n, fuel = n + 1 := ⟨fuel - 1, by simp at hfuel; omega⟩
    simp only [IsChain] at hch
    refine ⟨st, tabs, ?_, rfl, by simpa [linksTo] using h15, h6, fun _ _ _ _ _ => rfl⟩
    have : selInit_loop5_cond.eval (sIface X s) st.w st.env = .ok false := by
      unfold selInit_loop5_cond; isrun
    simp only [whileLoop, this]
  | cons b ys ih =>
    intro a hch fuel hfuel st J tabs h14 h16 h15 h6
    obtain ⟨n, rfl⟩ : ∃ n, fuel = n + 1 := ⟨fuel - 1, by simp at hfuel; omega⟩
    obtain ⟨hpa, hch'⟩ := hch
    by_cases hat : a = t
    · subst hat
      refine ⟨st, tabs, ?_, rfl, by simpa [linksTo] using h15, h6, fun _ _ _ _ _ => rfl⟩
      have : selInit_loop5_cond.eval (sIface X s) st.w st.env = .ok false := by
        unfold selInit_loop5_cond; isrun
      simp only [whileLoop, this]
    · have hc : selInit_loop5_cond.eval (sIface X s) st.w st.env = .ok true := by
        unfold selInit_loop5_cond; isrun
      obtain ⟨tabs1, ht1, _⟩ := vsAdd_tabSet b tabs
      have hbody : ∃ st1, selInit_loop5.exec (sIface X s) none st = .norm st1 ∧ st1.w = st.w ∧
          st1.env 14 = some (.cls b) ∧ st1.env 15 = some (sqlList (J ++ [.idEq a b])) ∧
          st1.env 6 = some (tabSet tabs1) ∧ ∀ z, z ≠ 6 → z ≠ 14 → z ≠ 15 → z ≠ 17 → st1.env z = st.env z := by
        unfold selInit_loop5
        isrun
        intro z h1 h2 h3 h4; simp [h1, h2, h3, h4]
      obtain ⟨st1, e1, w1, c1, j1, t1, f1⟩ := hbody
      obtain ⟨st', tabs', e2, w2, j2, t2, f2⟩ := ih b hch' n (by simp at hfuel ⊢; omega) st1 _ tabs1 c1
        (by rw [f1 16 (by decide) (by decide) (by decide) (by decide)]; exact h16) j1 t1
      refine ⟨st', tabs', ?_, w2.trans w1, ?_, t2, fun z h1 h2 h3 h4 => (f2 z h1 h2 h3 h4).trans (f1 z h1 h2 h3 h4)⟩
      · simp only [whileLoop, hc, e1, e2]
      · simpa [linksTo, hat] using j2

/-- loop 4: `for (currentClass, minParentClass) in tableRegistry.items():` -/
theorem loop4_run (X : SCtx) (h : X.T.WF) (s : SVal) : ∀ (l : AL) (st : St SW) (J : List Sql) (tabs : List Nat),
    st.env 15 = some (sqlList J) → st.env 6 = some (tabSet tabs) →
    ∃ st', forLoop (pairBody fun st p q => selInit_loop4.exec (sIface X s) none ((st.setVar 14 p).setVar 16 q))
        (fun st => .norm st) (l.map fun p => Val.pair (.cls p.1) (.cls p.2)) st = .norm st' ∧ st'.w = st.w ∧
      st'.env 15 = some (sqlList (J ++ joinsOf X.T l)) ∧
      ∀ z, z ≠ 6 → z ≠ 14 → z ≠ 15 → z ≠ 16 → z ≠ 17 → st'.env z = st.env z := by
  intro l
  induction l with
  | nil => intro st J tabs h15 h6; exact ⟨st, rfl, rfl, by simpa [joinsOf] using h15, fun _ _ _ _ _ _ => rfl⟩
  | cons p l ih =>
    intro st J tabs h15 h6
    obtain ⟨c, t⟩ := p
    have hch := anc_isChain h c
    rw [anc_eq_cons] at hch
    have hfu := anc_fuel h c
    rw [anc_eq_cons] at hfu
    obtain ⟨st1, tabs1, e1, w1, j1, t1, f1⟩ := loop5_run X s t (X.T.anc c).tail c hch (X.T.n + 2) (by omega)
      { w := st.w, env := (st.env.put 14 (.cls c)).put 16 (.cls t) } J tabs (by simp) (by simp) (by simp [h15])
      (by simp [h6])
    rw [← anc_eq_cons] at j1
    obtain ⟨st', e2, w2, j2, f2⟩ := ih st1 _ tabs1 j1 t1
    refine ⟨st', ?_, w2.trans w1, ?_, ?_⟩
    · simp only [List.map_cons, forLoop, pairBody]
      have : selInit_loop4.exec (sIface X s) none ((st.setVar 14 (.cls c)).setVar 16 (.cls t)) = .norm st1 := by
        unfold selInit_loop4
        isrun
      simp only [this, e2]
    · simpa [joinsOf, List.append_assoc] using j2
    · intro z h1 h2 h3 h4 h5
      rw [f2 z h1 h2 h3 h4 h5, f1 z h1 h2 h3 h5]; simp [h2, h4]

/-! result-first variants (the state is found by unification with `hF`) -/

theorem loop1_run' {X : SCtx} {s : SVal} {l : List Nat} {st : St SW} {r : Res SW}
    (hF : forLoop (fun st a => selInit_loop1.exec (sIface X s) none (st.setVar 11 a)) (fun st => .norm st)
        (l.map Val.cls) st = r) (tabs : List Nat) (R : AL)
    (h6 : st.env 6 = some (tabSet tabs)) (h9 : st.env 9 = some (dictV R)) :
    ∃ st', r = .norm st' ∧ st'.w = st.w ∧ st'.env 9 = some (dictV (l.foldl (regStep tabs) R)) ∧
      ∀ y, y ≠ 9 → y ≠ 11 → st'.env y = st.env y := by
  obtain ⟨st', e, rest⟩ := loop1_run X s tabs l st R h6 h9
  exact ⟨st', hF.symm.trans e, rest⟩

theorem loop2_run' {X : SCtx} (h : X.T.WF) {s : SVal} {l : AL} {st : St SW} {r : Res SW}
    (hF : forLoop (fun st a => selInit_loop2.exec (sIface X s) none (st.setVar 13 a)) (fun st => .norm st)
        (l.map fun p => Val.cls p.1) st = r) (copy R : AL)
    (h12 : st.env 12 = some (dictV copy)) (h9 : st.env 9 = some (dictV R)) :
    ∃ st', r = .norm st' ∧ st'.w = st.w ∧ st'.env 9 = some (dictV ((l.map (·.1)).foldl (step2 X.T copy) R)) ∧
      ∀ z, z ≠ 9 → z ≠ 13 → z ≠ 14 → st'.env z = st.env z := by
  obtain ⟨st', e, rest⟩ := loop2_run X h s copy (l.map (·.1)) st R h12 h9
  rw [List.map_map] at e
  exact ⟨st', hF.symm.trans e, rest⟩

theorem loop4_run' {X : SCtx} (h : X.T.WF) {s : SVal} {l : AL} {st : St SW} {r : Res SW}
    (hF : forLoop (pairBody fun st p q => selInit_loop4.exec (sIface X s) none ((st.setVar 14 p).setVar 16 q))
        (fun st => .norm st) (l.map fun p => Val.pair (.cls p.1) (.cls p.2)) st = r) (J : List Sql) (tabs : List Nat)
    (h15 : st.env 15 = some (sqlList J)) (h6 : st.env 6 = some (tabSet tabs)) :
    ∃ st', r = .norm st' ∧ st'.w = st.w ∧ st'.env 15 = some (sqlList (J ++ joinsOf X.T l)) ∧
      ∀ z, z ≠ 6 → z ≠ 14 → z ≠ 15 → z ≠ 16 → z ≠ 17 → st'.env z = st.env z := by
  obtain ⟨st', e, rest⟩ := loop4_run X h s l st J tabs h15 h6
  exact ⟨st', hF.symm.trans e, rest⟩

end SqlObjVerif.InhSel
