import SqlObjVerif.Lemmas.ConcXSim
/-! # ConcX — basic lemmas for the simulation proofs: Conc's association lists ARE the dicts of the embedding -/
namespace SqlObjVerif.ConcX
open SqlObjVerif.PyCache (Val Block Stmt Dict DictAttr Expr Cond dget dset ddel dhasKey)
open SqlObjVerif.PyCache.Extracted
open SqlObjVerif.PyCacheSS
open SqlObjVerif.Conc (Id Obj Op Out K Pc State AInv holds aget aset adel akeys goto)

theorem dget_eq_aget (k : Nat) (l : Dict) : dget k l = aget l k := by
  induction l with
  | nil => rfl
  | cons e l ih => obtain ⟨a, b⟩ := e; simp [dget, aget, ih]

theorem dhasKey_eq (k : Nat) (l : Dict) : dhasKey k l = (aget l k).isSome := by
  induction l with
  | nil => rfl
  | cons e l ih =>
    obtain ⟨a, b⟩ := e
    simp only [dhasKey, List.any_cons, aget] at ih ⊢
    by_cases h : a = k <;> simp [h, ih]

theorem ddel_eq_adel (k : Nat) (l : Dict) : ddel k l = adel l k := by
  induction l with
  | nil => rfl
  | cons e l ih =>
    obtain ⟨a, b⟩ := e
    simp only [ddel, adel] at ih ⊢
    by_cases h : a = k <;> simp [List.filter_cons, h, ← ih]

theorem dset_eq_aset (k v : Nat) (l : Dict) (h : (akeys l).Nodup) : dset k v l = aset l k v := by
  induction l with
  | nil => rfl
  | cons e l ih =>
    obtain ⟨a, b⟩ := e
    simp only [akeys, List.map_cons, List.nodup_cons] at h
    have ih' := ih h.2
    by_cases hk : a = k
    · subst hk
      have hno : dhasKey a l = false := by
        rw [dhasKey_eq]
        cases hg : aget l a with
        | none => rfl
        | some o =>
          exfalso; apply h.1
          have := (Conc.mem_akeys l a).2 (by rw [hg]; simp)
          exact this
      have hmap : ∀ (l' : Dict), (∀ e ∈ l', e.1 ≠ a) → l'.map (fun e => if e.1 = a then (a, v) else e) = l' := by
        intro l' hl'
        induction l' with
        | nil => rfl
        | cons e' l' ih2 =>
          have h1 := hl' e' (List.mem_cons_self)
          simp only [List.map_cons, h1, if_false]
          rw [ih2 (fun e he => hl' e (List.mem_cons_of_mem _ he))]
      have hall : ∀ e ∈ l, e.1 ≠ a := by
        intro e he hea
        apply h.1
        exact List.mem_map.2 ⟨e, he, hea⟩
      simp [dset, dhasKey, aset, hmap l hall]
    · simp only [dset, dhasKey, List.any_cons, aset, hk, if_false] at ih' ⊢
      by_cases hh : (l.any fun e => decide (e.fst = k)) = true
      · simp only [hh, if_true] at ih' ⊢
        simp [hk, ih']
      · simp only [hh] at ih' ⊢
        simpa using ih'


/-- the translated thread `x` makes the step `Conc` makes (both blocked / finished, or both move and end related,
    the shared state being the image of `Conc`'s again) -/
def Good (s : State) (t : Tid) (x : XTh) : Prop :=
  match Conc.step s t with
  | some s' => (match stepTh t (absG s) x with
    | some (x', g') => g' = absG s' ∧ ThSim s'.dc (s'.th t) x'
    | none => False)
  | none => stepTh t (absG s) x = none

theorem silentRun_succ (t : Tid) (n : Nat) (g : XShared) (th : XTh) :
    silentRun t (n + 1) g th =
      if parked t g th then some (th, g)
      else match microX t g th with
        | some (th', g') => silentRun t n g' th'
        | none => none := rfl

theorem silentRun_parked (t : Tid) (n : Nat) (g : XShared) (th : XTh) (h : parked t g th = true) :
    silentRun t n g th = some (th, g) := by
  cases n <;> simp [silentRun, h]

end SqlObjVerif.ConcX
