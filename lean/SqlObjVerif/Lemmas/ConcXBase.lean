import SqlObjVerif.Lemmas.ConcXSim
/-! # ConcX — basic lemmas for the simulation proofs: Conc's association lists ARE the dicts of the embedding -/
namespace SqlObjVerif.ConcX
open SqlObjVerif.PyCache (Val Block Stmt Dict DictAttr Expr Cond dget dset ddel dhasKey)
open SqlObjVerif.PyCache.Extracted
open SqlObjVerif.PyCacheSS
open SqlObjVerif.Conc (Id Obj Op Out K Pc State AInv holds aget aset adel akeys goto finish entry)

theorem dget_eq_aget (k : Nat) (l : Dict) : dget k l = aget l k := by
  induction l with
  | nil => rfl
  | cons e l ih => obtain ⟨a, b⟩ := e; simp [dget, aget, ih]

theorem dhasKey_eq (k : Nat) (l : Dict) : dhasKey k l = (aget l k).isSome := by
  induction l with
  | nil => rfl
  | cons e l ih =>
    obtain ⟨a, b⟩ := e
    simp only [dhasKey, List.any_cons, aget] at ih ⊢
    by_cases h : a = k <;> simp [h, ih]

theorem ddel_eq_adel (k : Nat) (l : Dict) : ddel k l = adel l k := by
  induction l with
  | nil => rfl
  | cons e l ih =>
    obtain ⟨a, b⟩ := e
    simp only [ddel, adel] at ih ⊢
    by_cases h : a = k <;> simp [List.filter_cons, h, ← ih]

theorem dset_eq_aset (k v : Nat) (l : Dict) (h : (akeys l).Nodup) : dset k v l = aset l k v := by
  induction l with
  | nil => rfl
  | cons e l ih =>
    obtain ⟨a, b⟩ := e
    simp only [akeys, List.map_cons, List.nodup_cons] at h
    have ih' := ih h.2
    by_cases hk : a = k
    · subst hk
      have hno : dhasKey a l = false := by
        rw [dhasKey_eq]
        cases hg : aget l a with
        | none => rfl
        | some o =>
          exfalso; apply h.1
          have := (Conc.mem_akeys l a).2 (by rw [hg]; simp)
          exact this
      have hmap : ∀ (l' : Dict), (∀ e ∈ l', e.1 ≠ a) → l'.map (fun e => if e.1 = a then (a, v) else e) = l' := by
        intro l' hl'
        induction l' with
        | nil => rfl
        | cons e' l' ih2 =>
          have h1 := hl' e' (List.mem_cons_self)
          simp only [List.map_cons, h1, if_false]
          rw [ih2 (fun e he => hl' e (List.mem_cons_of_mem _ he))]
      have hall : ∀ e ∈ l, e.1 ≠ a := by
        intro e he hea
        apply h.1
        exact List.mem_map.2 ⟨e, he, hea⟩
      simp [dset, dhasKey, aset, hmap l hall]
    · simp only [dset, dhasKey, List.any_cons, aset, hk, if_false] at ih' ⊢
      by_cases hh : (l.any fun e => decide (e.fst = k)) = true
      · simp only [hh, if_true] at ih' ⊢
        simp [hk, ih']
      · simp only [hh] at ih' ⊢
        simpa using ih'


/-- the translated thread `x` makes the step `Conc` makes (both blocked / finished, or both move and end related,
    the shared state being the image of `Conc`'s again) -/
def Good (s : State) (t : Tid) (x : XTh) : Prop :=
  match Conc.step s t with
  | some s' => (match stepTh t (absG s) x with
    | some (x', g') => g' = absG s' ∧ ThSim s'.dc (s'.th t) x'
    | none => False)
  | none => stepTh t (absG s) x = none

/-- stated for a thread given by its fields, so that `simp` does not unfold it on `finishX …` -/
theorem silentRun_succ (t : Tid) (n : Nat) (g : XShared) (cpc : CPc) (m : MTh) (prog : List Op) (outs : List Out) :
    silentRun t (n + 1) g ⟨cpc, m, prog, outs⟩ =
      if parked t g ⟨cpc, m, prog, outs⟩ then some (⟨cpc, m, prog, outs⟩, g)
      else match microX t g ⟨cpc, m, prog, outs⟩ with
        | some (th', g') => silentRun t n g' th'
        | none => none := rfl

theorem silentRun_parked (t : Tid) (n : Nat) (g : XShared) (th : XTh) (h : parked t g th = true) :
    silentRun t n g th = some (th, g) := by
  cases n <;> simp [silentRun, h]


/-! ## starting the next operation -/
set_option hygiene false in
/-- symbolic evaluation of the translated machine -/
macro "xrun" "[" ts:Lean.Parser.Tactic.simpLemma,* "]" : tactic =>
  `(tactic| simp [stepTh, accessX, microX, MTh.result, mk, nextAccess, pendingOf, micro, execStmt, doneStep, fin, unload, MTh.clr,
      goRun, goDone, pushRun, viewSt, viewSelf, keepV, retained, putDict, setIntS,
      G, GN, C, CN, EB, EF, AB, AF, CB, CF, getProg, putProg, finishPutProg, createdProg, expireProg, expireAllProg, cullProg,
      cull_for0, cull_for1, expireAll_for0,
      get_nlocals, get_nlists, put_nlocals, put_nlists, finishPut_nlocals, finishPut_nlists, created_nlocals, created_nlists,
      expire_nlocals, expire_nlists, expireAll_nlocals, expireAll_nlists, cull_nlocals, cull_nlists, cull_nargs,
      bdrop, bhead, sThen, sElse, sBody, sHandler, sOrelse, sFin,
      stmtReadsCC, stmtDict, stmtWritesCC, exprReadsCC, exprDict, getOnly, condReadsCC, condDict,
      PyCache.Expr.eval, PyCache.Cond.eval, PyCache.St.getVar, PyCache.St.getList, PyCache.Self.getDict, PyCache.Self.getInt,
      PyCache.wrap, PyCache.unwrap, PyCache.Val.isNone, PyCache.strongRefs, PyCache.Cmp.holds,
      dget_eq_aget, dhasKey_eq, ddel_eq_adel,
      FUEL, silentRun_succ, parked, onReturn, park, enter, startOf, afterCachesX, MTh.start, MTh.idle, concOps, meths,
      absG, absSh, $ts,*])

/-- the thread parked at the first shared access of operation `op` -/
def entryPark (dc c : Bool) (rest : List Op) (outs : List Out) : Op → XTh
  | .get i =>
    if c then
      (if dc then { cpc := .inM (.get i), m := mk (.run G) [.seq .nil] [some (.key i), none] [], prog := rest, outs := outs }
       else { cpc := .inM (.get i),
              m := mk (.run (sBody (bhead GN))) [.tryKey (sHandler (bhead GN)) (sOrelse (bhead GN)), .seq (bdrop 1 GN), .seq .nil]
                     [some (.key i), none] [], prog := rest, outs := outs })
    else { cpc := .csGet (.get i), m := MTh.idle, prog := rest, outs := outs }
  | .create i => { cpc := .insert i, m := MTh.idle, prog := rest, outs := outs }
  | .expire i =>
    if c then { cpc := .inM .unit, m := mk (.run expireProg) [] [some (.key i)] [], prog := rest, outs := outs }
    else { cpc := .csGet (.expire i), m := MTh.idle, prog := rest, outs := outs }
  | .expireAll =>
    if dc then
      (if c then { cpc := .inM .unit, m := mk (.run (bdrop 1 expireAllProg)) [] [none, none] [], prog := rest, outs := outs }
       else { cpc := .csGet .expireAll, m := MTh.idle, prog := rest, outs := outs })
    else { cpc := .eaEntry, m := MTh.idle, prog := rest, outs := outs }
  | .cull => { cpc := .cuEntry, m := MTh.idle, prog := rest, outs := outs }

theorem silentRun_entryX (t : Tid) (n : Nat) (g : XShared) (rest : List Op) (outs : List Out) (op : Op) :
    silentRun t (n + 6) g (entryX g.sh.doCache g.caches { cpc := .idle, m := MTh.idle, prog := rest, outs := outs } op)
      = some (entryPark g.sh.doCache g.caches rest outs op, g) := by
  obtain ⟨sh, c, db, fresh⟩ := g
  obtain ⟨cache, ec, cc, off, freq, frac, dc, owner, gen, hold, olds, heap⟩ := sh
  cases op <;> cases c <;> cases dc <;> xrun [entryX, entryPark]

def finPark (g : XShared) (x : XTh) (o : Out) : XTh :=
  match x.prog with
  | [] => { cpc := .idle, m := MTh.idle, prog := [], outs := x.outs ++ [o] }
  | op :: rest => entryPark g.sh.doCache g.caches rest (x.outs ++ [o]) op

theorem silentRun_finishX (t : Tid) (n : Nat) (g : XShared) (x : XTh) (o : Out) :
    silentRun t (n + 6) g (finishX g x o) = some (finPark g x o, g) := by
  unfold finishX finPark
  cases x.prog with
  | nil => exact silentRun_parked _ _ _ _ rfl
  | cons op rest => exact silentRun_entryX t n g rest _ op

theorem thsim_entryPark (dc c : Bool) (rest : List Op) (outs : List Out) (op : Op) :
    ThSim dc { pc := entry dc c op, prog := rest, outs := outs } (entryPark dc c rest outs op) := by
  cases op <;> cases c <;> cases dc <;>
    exact ⟨rfl, rfl, by simp [entry, entryPark, PcSim, ccOK, csOK, ccCK, ccB, ccVs]⟩

/-- the `ConcX` thread after `finishX` + its silent run corresponds to the `Conc` thread after `finish` -/
theorem thsim_finPark (dc : Bool) (s : State) (t : Tid) (o : Out) (g : XShared) (x : XTh) (h0 : s.dc = dc)
    (hdc : g.sh.doCache = s.dc)
    (hc : g.caches = s.caches) (hp : x.prog = (s.th t).prog) (ho : x.outs = (s.th t).outs) :
    ThSim dc ((finish s t o).th t) (finPark g x o) := by
  subst h0
  unfold finish finPark
  rw [hp, ho, hdc, hc]
  cases (s.th t).prog with
  | nil => exact ⟨by simp, by simp, by simp [PcSim]⟩
  | cons op rest =>
    simp only [Conc.setTh_self]
    exact thsim_entryPark _ _ _ _ _


set_option hygiene false in
/-- `xrun` that also knows how an operation ends and the next one starts -/
macro "xstep" "[" ts:Lean.Parser.Tactic.simpLemma,* "]" : tactic =>
  `(tactic| xrun [silentRun_finishX, Conc.releaseFinish, $ts,*])

theorem offOf'_setTh (lock : Option Tid) (th : Tid → Conc.Th) (t : Tid) (v : Conc.Th) (off frac : Nat) (h : lock ≠ some t) :
    offOf' lock (Conc.setTh th t v) off frac = offOf' lock th off frac := by
  unfold offOf'
  cases lock with
  | none => rfl
  | some u =>
    have : u ≠ t := fun e => h (by rw [e])
    simp [Conc.setTh, this]

theorem offOf'_finish (lock : Option Tid) (s : State) (t : Tid) (o : Out) (off frac : Nat) (h : lock ≠ some t) :
    offOf' lock (finish s t o).th off frac = offOf' lock s.th off frac := by
  unfold finish
  split <;> exact offOf'_setTh _ _ _ _ _ _ h

theorem nonholder (s : State) (t : Tid) (ha : AInv s) (h : holds (s.th t).pc = false) : s.lock ≠ some t := by
  intro hl
  have := (ha.holder t).2 hl
  rw [h] at this; cases this

theorem orelease_none (olds : List (Nat × Dict × Nat)) (g : Nat) (h : Conc.oget olds g = none) :
    Conc.orelease olds g = olds := by
  induction olds with
  | nil => rfl
  | cons e r ih =>
    obtain ⟨g', m, c⟩ := e
    simp only [Conc.oget] at h
    by_cases hg : g' = g
    · simp [hg] at h
    · simp only [hg, if_false] at h
      simp [Conc.orelease, hg, ih h]

set_option hygiene false in
/-- the common start of the per-pc proofs: `hx : ThSim s.dc (s.th t) x`, `hpc : (s.th t).pc = …` -/
macro "xintro" : tactic =>
  `(tactic| (obtain ⟨hprog, houts, hp⟩ := hx
             rw [hpc] at hp
             simp only [PcSim] at hp
             obtain ⟨cpc, m, prog, outs⟩ := x
             simp only at hprog houts hp
             subst hprog houts
             unfold Good Conc.step
             rw [hpc]
             dsimp only))

set_option hygiene false in
/-- splits `offOf' … = offOf' … ∧ ThSim …` after a step to `goto … t pc'`, leaving the `PcSim` goal -/
macro "xclose0" "[" ts:Lean.Parser.Tactic.simpLemma,* "]" : tactic =>
  `(tactic| (try (refine And.intro (by first
                                        | (simp only [goto, offOf'_setTh _ _ _ _ _ _ hnl]; done)
                                        | simp [offOf', goto, Conc.setTh, $ts,*]) ?_)
             refine ThSim.mk (by simp [goto, Conc.setTh]) (by simp [goto, Conc.setTh]) ?_))

set_option hygiene false in
/-- closes `offOf' … = offOf' … ∧ ThSim …` after a step to `goto … t pc'` -/
macro "xclose" "[" ts:Lean.Parser.Tactic.simpLemma,* "]" : tactic =>
  `(tactic| (xclose0 [$ts,*]
             simp [goto, Conc.setTh, PcSim, mk, MTh.idle, ccB, ccCK, ccVs, ccOK, csOK, outerFs, outerOK, G, GN, C, CN, EB, EF, AB, AF, CB, CF,
                 getProg, putProg, finishPutProg,
                 createdProg, expireProg, expireAllProg, cullProg, cull_for0, cull_for1, expireAll_for0,
                 bdrop, bhead, sThen, sElse, sBody, sHandler, sOrelse, sFin, $ts,*]))

set_option hygiene false in
/-- closes the goal after a step that ends the operation (`finish`) -/
macro "xfin" "[" ts:Lean.Parser.Tactic.simpLemma,* "]" : tactic =>
  `(tactic| first
    | exact ⟨by first | (simp only [offOf'_finish _ _ _ _ _ _ hnl]) | simp [offOf', $ts,*],
             thsim_finPark _ _ _ _ _ _ (by first | rfl | simp [*]) (by first | rfl | simp [*]) (by first | rfl | simp [*]) rfl rfl⟩
    | exact thsim_finPark _ _ _ _ _ _ (by first | rfl | simp [*]) (by first | rfl | simp [*]) (by first | rfl | simp [*]) rfl rfl)

end SqlObjVerif.ConcX
