import SqlObjVerif.Lemmas.OrmValX
/-!
Symbolic execution of the translated `_SO_selectInit` and `sync` (see `Lemmas/OrmValX.lean`).
-/
namespace SqlObjVerif.OrmVal
open SqlObjVerif.PyMain
open SqlObjVerif.PyMain.Extracted

/-- what `to_python` of column `c` shows for a stored value (the value itself when the column has no validator) -/
def decE (k : Klass) (c : Nat) (v : CVal) : CVal := if k.hasTo c then k.dec c v else v
def encE (k : Klass) (c : Nat) (v : CVal) : CVal := if k.hasFrom c then k.enc c v else v

/-- `_SO_selectInit(row)` from ANY world: one attribute per column, the others untouched -/
theorem selectInitX_run (cls : Cls) (id : Id) (n : Nat) (h : Hnd) (w : World State) (row : Row) (hk : w.k.ncols = n) :
    selectInitX cls id n h w (.row ((List.range n).map row)) =
      .ret { w with o := { w.o with vals := fun c => if c < w.k.ncols then some (decE w.k c (row c)) else w.o.vals c } } .none := by
  subst hk
  unfold selectInitX selectInitProg selectInit_nlocals selectInit_nlists selectInit_ndicts
  pymrun
  generalize hF : forLoop _ _ _ = r
  obtain ⟨st', rfl, a, b, rfl⟩ := forLoop_map_inv hF
    (fun done st => ∃ a b, st = { w := { w with o := { w.o with vals := fun c => if c ∈ done then some (decE w.k c (row c)) else w.o.vals c } },
                                  vars := [some (PV.row (List.map row (List.range w.k.ncols))), a, b], lists := [], dicts := [[]] })
    ⟨Option.none, Option.none, by simp⟩
    (by
      rintro done c rest st hcs ⟨a, b, rfl⟩
      refine ⟨_, ?_, ⟨some (.col c), some (ofVal (decE w.k c (row c))), rfl⟩⟩
      simp only [bind_two, selectInit_for0]
      cases hto : w.k.hasTo c <;> pymrun <;> simp [decE, hto]
      all_goals (funext k; by_cases hk : k = c <;> simp [hk, hto]))
  clear hF
  simp


theorem decE_klassOf (cfg : Cfg) (i : Iface) (cls : Cls) (hi : i.Ok cfg cls) (c : Nat) (v : CVal) :
    decE (klassOf cfg i cls) c v = cfg.dec cls c v := by
  unfold decE klassOf
  cases hto : i.hasTo c
  · simp [hi.dec c v hto]
  · simp [hto]

theorem vals_loadRow (cfg : Cfg) (i : Iface) (cls : Cls) (hi : i.Ok cfg cls) (cached : Col → Option Val) (row : Row)
    (hattrs : ∀ c, cfg.ncols cls ≤ c → cached c = none) :
    (fun c => if c < cfg.ncols cls then some (decE (klassOf cfg i cls) c (row c)) else cached c) =
      loadRow (cfg.dec cls) (cfg.ncols cls) row := by
  funext c
  unfold loadRow
  by_cases hc : c < cfg.ncols cls
  · simp [hc, decE_klassOf cfg i cls hi]
  · simp [hc]; exact hattrs c (Nat.le_of_not_gt hc)

/-- `_SO_selectInit(row)` on the image of an instance: its attributes become `loadRow` of the row -/
theorem selectInitX_eq (cfg : Cfg) (i : Iface) (s : State) (h : Hnd) (o : Inst) (cv : Pend) (fail : Bool) (row : Row)
    (hattrs : ∀ c, cfg.ncols o.cls ≤ c → o.cached c = none) (hi : i.Ok cfg o.cls) :
    selectInitX o.cls o.id (cfg.ncols o.cls) h (absW cfg i s o cv fail) (.row ((List.range (cfg.ncols o.cls)).map row)) =
      .ret (absW cfg i s { o with cached := loadRow (cfg.dec o.cls) (cfg.ncols o.cls) row } cv fail) .none := by
  rw [selectInitX_run o.cls o.id (cfg.ncols o.cls) h _ row rfl]
  have hv := vals_loadRow cfg i o.cls hi o.cached row hattrs
  exact congrArg (fun f => Outcome.ret (absW cfg i s { o with cached := f } cv fail) PV.none) hv

/-- the image of instance `h` of state `s` reads back as `s` -/
theorem conc_absW (cfg : Cfg) (i : Iface) (s : State) (h : Hnd) (o : Inst) (cv : Pend) (fail : Bool)
    (ho : s.objs h = some o) (hrep : Rep cv o.pending) :
    conc o.cls o.id h (absW cfg i s o cv fail) = some s := by
  obtain ⟨cls, id, cached, expired, dirty, pending, obsolete, inCache⟩ := o
  have hs := hrep.sorted
  simp only at hs
  subst hs
  simp [conc, absW, pyObj, instOf]
  exact setObj_self _ _ _ ho

theorem syncX_eq (cfg : Cfg) (i : Iface) (s : State) (h : Hnd) (o : Inst) (cv : Pend) (fail : Bool)
    (ho : s.objs h = some o) (hrep : Rep cv o.pending) (hcols : ∀ e ∈ o.pending, e.1 < cfg.ncols o.cls)
    (hattrs : ∀ c, cfg.ncols o.cls ≤ c → o.cached c = none) (hn : cfg.ncols o.cls ≠ 0) (hi : i.Ok cfg o.cls) :
    absUnit o.cls o.id h (syncX o.cls o.id (cfg.ncols o.cls) h (absW cfg i s o cv fail)) = some (opSync cfg s h fail) := by
  obtain ⟨cls, id, cached, expired, dirty, pending, obsolete, inCache⟩ := o
  have hs := hrep.sorted
  simp only at hs hcols hattrs hn hi
  subst hs
  unfold syncX syncProg sync_nlocals sync_nlists sync_ndicts opSync
  cases hlz : cfg.lazyUpdate cls
  · cases hdb : s.db cls id with
    | none =>
      pymrun
      simp [absUnit, conc, instOf, excOut, opReload, ho, hdb]
      exact setObj_self _ _ _ (by simpa [logStmt] using ho)
    | some row =>
      pymrun
      rw [selectInitX_run cls id (cfg.ncols cls) h _ row rfl]
      pymrun
      have hv := vals_loadRow cfg i cls hi cached row hattrs
      simp only [klassOf, hlz] at hv
      simp [absUnit, conc, instOf, opReload, ho, hdb, hv]
  · by_cases hcv : cv = []
    · subst hcv
      cases hdb : s.db cls id with
      | none =>
        pymrun
        simp [absUnit, conc, instOf, excOut, opReload, ho, hdb]
        exact setObj_self _ _ _ (by simpa [logStmt] using ho)
      | some row =>
        pymrun
        rw [selectInitX_run cls id (cfg.ncols cls) h _ row rfl]
        pymrun
        have hv := vals_loadRow cfg i cls hi cached row hattrs
        simp only [klassOf, hlz] at hv
        simp [absUnit, conc, instOf, opReload, ho, hdb, hv]
    · have hne : sortByKey cv ≠ [] := by rw [Ne, sortByKey_eq_nil]; exact hcv
      pymrun
      rw [syncUpdateX_run _ _ _ _ _ rfl (fun e he => hcols e ((mem_sortByKey _ _).mpr he))]
      cases fail
      · cases hdb : s.db cls id with
        | none =>
          have hdb' : updRow s.db cls id (sortByKey cv) cls id = Option.none := by simp [updRow, hdb]
          pymrun
          simp [absUnit, conc, instOf, excOut, opReload, opSyncUpdate, sendUpdate, setObj, logStmt, ho, hdb', hne]
        | some row =>
          have hdb' : updRow s.db cls id (sortByKey cv) cls id = some (applyUpd row (sortByKey cv)) := by simp [updRow, hdb]
          pymrun
          rw [selectInitX_run cls id (cfg.ncols cls) h _ (applyUpd row (sortByKey cv)) rfl]
          pymrun
          have hv := vals_loadRow cfg i cls hi cached (applyUpd row (sortByKey cv)) hattrs
          simp only [klassOf, hlz] at hv
          simp [absUnit, conc, instOf, opReload, opSyncUpdate, sendUpdate, setObj, logStmt, ho, hdb', hv, hne]
          funext k; by_cases hk : k = h <;> simp [hk]
      · pymrun
        simp [absUnit, conc, instOf, excOut, opSyncUpdate, sendUpdate, ho, hne]
        exact setObj_self _ _ _ ho

end SqlObjVerif.OrmVal
