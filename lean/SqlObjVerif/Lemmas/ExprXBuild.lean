import SqlObjVerif.Lemmas.ExprXCalls
/-!
# C03 translation — which class the object built for a source tree has, and the comparison / arithmetic dispatch

`clsE e` is the Python class of `build e`; from it: when Python's dispatch takes the reflected method (`isConst`,
`isPlainOp` / `isModulo` of the hand model are exactly "plain number" and the proper-subclass pair `SQLOp` / `SQLModulo`).
-/
namespace SqlObjVerif.ExprX
open SqlObjVerif.PyExpr SqlObjVerif.PyExpr.Extracted

set_option linter.unusedSimpArgs false

def clsE : {s : Expr.Srt} → E s → String
  | _, .col _ => "SQLObjectField"
  | _, .rcol _ => "SQLObjectField"
  | _, .const _ => "int"
  | _, .fconst _ _ => "float"
  | _, .wconst _ _ _ => "float"
  | _, .ar o _ _ => if o = .mod then "SQLModulo" else "SQLOp"
  | _, .neg _ => "SQLPrefix"
  | _, .pos _ => "SQLPrefix"
  | _, .b2i b => clsE b
  | _, .cmp _ _ _ => "SQLOp"
  | _, .andOp _ _ => "SQLOp"
  | _, .orOp _ _ => "SQLOp"
  | _, .andFn _ _ => "SQLOp"
  | _, .orFn _ _ => "SQLOp"
  | _, .notOp _ => "SQLPrefix"
  | _, .notFn _ => "SQLPrefix"
  | _, .isin _ _ => "SQLOp"
  | _, .notin _ _ => if Expr.Extracted.notinNegates then "SQLPrefix" else "SQLOp"
  | _, .isnull _ => "SQLOp"
  | _, .isnotnull _ => "SQLOp"
  | _, .eqNone _ => "SQLOp"
  | _, .neNone _ => "SQLOp"
  | _, .inil => "list"
  | _, .inull _ => "list"
  | _, .icons _ _ => "list"

@[simp] theorem nodeCls_field (c : Nat) : nodeCls (.field c) = "SQLObjectField" := rfl
@[simp] theorem nodeCls_sqlop (o : BinOp) (l r : Node) : nodeCls (.sqlop o l r) = "SQLOp" := rfl
@[simp] theorem nodeCls_sqlin (l r : Node) : nodeCls (.sqlin l r) = "SQLOp" := rfl
@[simp] theorem nodeCls_modulo (l r : Node) : nodeCls (.modulo l r) = "SQLModulo" := rfl
@[simp] theorem nodeCls_prefix (p : PreOp) (x : Node) : nodeCls (.prefix p x) = "SQLPrefix" := rfl
@[simp] theorem nodeCls_int (i : Int) : nodeCls (.int i) = "int" := rfl
@[simp] theorem nodeCls_flt (b : Bool) (i : Nat) : nodeCls (.flt b i) = "float" := rfl
@[simp] theorem nodeCls_none : nodeCls .none = "NoneType" := rfl
@[simp] theorem nodeCls_lnil : nodeCls .lnil = "list" := rfl
@[simp] theorem nodeCls_lcons (h t : Node) : nodeCls (.lcons h t) = "list" := rfl

theorem nodeCls_applyOv (ov : Expr.OvBin) (a b : Node) : nodeCls (Expr.applyOv ov a b) = "SQLOp" := by
  unfold Expr.applyOv; split <;> rfl

theorem nodeCls_noneRule (rule : Expr.NoneRule) (ov : Expr.OvBin) (a : Node) :
    nodeCls (Expr.noneRule rule ov a) = "SQLOp" := by
  cases rule <;> simp only [Expr.noneRule, nodeCls_sqlop, nodeCls_applyOv]

theorem nodeCls_build : ∀ {s : Expr.Srt} (e : E s), nodeCls (Expr.build e) = clsE e := by
  intro s e
  induction e <;> simp only [Expr.build, clsE] <;> (repeat' split) <;>
    first
    | rfl
    | simp only [nodeCls_field, nodeCls_sqlop, nodeCls_sqlin, nodeCls_modulo, nodeCls_prefix, nodeCls_int, nodeCls_flt,
        nodeCls_none, nodeCls_lnil, nodeCls_lcons, nodeCls_applyOv, nodeCls_noneRule, *]

theorem clsE_bool (b : E .bool) : (clsE b = "SQLOp" ∨ clsE b = "SQLPrefix") ∧ Expr.boolIsPlainOp b = (clsE b == "SQLOp") := by
  cases b <;> simp [clsE, Expr.boolIsPlainOp, Expr.Extracted.notinNegates]

theorem clsE_num (e : E .num) :
    (clsE e = "SQLObjectField" ∨ clsE e = "int" ∨ clsE e = "float" ∨ clsE e = "SQLModulo" ∨ clsE e = "SQLOp" ∨
      clsE e = "SQLPrefix") ∧
    Expr.isConst e = (clsE e == "int" || clsE e == "float") ∧ Expr.isCol e = (clsE e == "SQLObjectField") ∧
    Expr.isPlainOp e = (clsE e == "SQLOp") ∧ Expr.isModulo e = (clsE e == "SQLModulo") := by
  cases e with
  | b2i b =>
    have h := clsE_bool b
    rcases h.1 with h1 | h1 <;> simp [clsE, Expr.isConst, Expr.isCol, Expr.isPlainOp, Expr.isModulo, h1, h.2]
  | ar o l r => by_cases ho : o = .mod <;> simp [clsE, Expr.isConst, Expr.isCol, Expr.isPlainOp, Expr.isModulo, ho]
  | _ => simp [clsE, Expr.isConst, Expr.isCol, Expr.isPlainOp, Expr.isModulo]

theorem isObjNode_eq (n : Node) : isObjNode n = exprClasses.contains (nodeCls n) := by
  cases n <;> simp [isObjNode, exprClasses]

/-! ### arithmetic -/

theorem upper_spell (o : Expr.ArOp) : ((arNames o).2.2).map upperC = (arNames o).2.2 := by cases o <;> decide
theorem upper_cspell (o : Expr.CmpOp) : ((cmpNames o).2.2).map upperC = (cmpNames o).2.2 := by cases o <;> decide

theorem ar_direct (P : Params) (k : Nat) (o : Expr.ArOp) (ho : o ≠ .mod) (a b : Node) (ha : isObjNode a = true) :
    callM (ifaceF P (k + 1)) (toVal P a) (arNames o).1 [toVal P b] =
      .ok (toVal P (Expr.applyOv (Expr.arOv o) a b)) := by
  cases o
  · exact callM_ov P k a b ha _ _ _ rs_add add_spec
  · exact callM_ov P k a b ha _ _ _ rs_sub sub_spec
  · exact callM_ov P k a b ha _ _ _ rs_mul mul_spec
  · exact callM_ov P k a b ha _ _ _ rs_truediv truediv_spec
  · exact absurd rfl ho

theorem ar_refl (P : Params) (k : Nat) (o : Expr.ArOp) (ho : o ≠ .mod) (a b : Node) (hb : isObjNode b = true) :
    callM (ifaceF P (k + 1)) (toVal P b) (arNames o).2.1 [toVal P a] =
      .ok (toVal P (Expr.applyOv (Expr.arRov o) b a)) := by
  cases o
  · exact callM_ov P k b a hb _ _ _ rs_radd radd_spec
  · exact callM_ov P k b a hb _ _ _ rs_rsub rsub_spec
  · exact callM_ov P k b a hb _ _ _ rs_rmul rmul_spec
  · exact callM_ov P k b a hb _ _ _ rs_rtruediv rtruediv_spec
  · exact absurd rfl ho

theorem ar_const (P : Params) (I : Iface) (hI : I.isSub = isSub) (o : Expr.ArOp) (ho : o ≠ .mod) (a b : Node) :
    callD I "SQLOp" [.str (arNames o).2.2, toVal P a, toVal P b] =
      .ok (toVal P (Expr.applyOv (Expr.arOv o) a b)) := by
  rw [call_SQLOp I hI _ _ _ (notSub_toVal P a), upper_spell]
  cases o <;> first | rfl | exact absurd rfl ho

/-! ### comparisons -/

theorem field_of_cls (a : Node) (h : nodeCls a = "SQLObjectField") : ∃ c, a = .field c := by
  cases a <;> simp [nodeCls] at h
  exact ⟨_, rfl⟩

theorem plain_of_cls (a : Node) (ha : isObjNode a = true) (h : ¬ nodeCls a = "SQLObjectField") :
    nodeCls a ∈ plainClasses := by
  cases a <;> simp [isObjNode, nodeCls, plainClasses] at ha h ⊢

theorem methodD_fromPython (P : Params) (c : Nat) (v : Val) :
    methodD P (fieldVal P c) "_from_python" [v] = P.fromPython c v := by
  simp [methodD, fieldVal, aget]

/-- `a == b` / `a != b` for an object `a` and a `b` that is not `None` -/
theorem eq_direct (P : Params) (hfp : ∀ c v, P.fromPython c v = .ok v) (k : Nat) (a b : Node)
    (ha : isObjNode a = true) (hb : (nodeCls b == "NoneType") = false) :
    callM (ifaceF P (k + 1)) (toVal P a) "__eq__" [toVal P b] =
      .ok (toVal P (Expr.applyOv (Expr.cmpOv (nodeCls a == "SQLObjectField") .eq) a b)) ∧
    callM (ifaceF P (k + 1)) (toVal P a) "__ne__" [toVal P b] =
      .ok (toVal P (Expr.applyOv (Expr.cmpOv (nodeCls a == "SQLObjectField") .ne) a b)) := by
  by_cases hf : nodeCls a = "SQLObjectField"
  · obtain ⟨c, rfl⟩ := field_of_cls a hf
    have hm : (ifaceF P (k + 1)).method (fieldVal P c) "_from_python" [toVal P b] = .ok (toVal P b) := by
      rw [ifaceF_method, methodD_fromPython, hfp]
    constructor
    · rw [callM_toVal P _ _ ha _ _ ["SQLObjectField"] (by simp [nodeCls]) rs_feq]
      simp only [toVal]
      rw [show fieldVal P c = .obj "SQLObjectField" _ from rfl, field_eq_spec, isNoneV_toVal, hb]
      simp only [Bool.false_eq_true, if_false]
      rw [show Val.obj "SQLObjectField" _ = fieldVal P c from rfl, hm, R.bind_ok, toOut_toR, ifaceF_call,
        show fieldVal P c = toVal P (.field c) from rfl, call_ov P _ (ifaceF_isSub P k)]
      rfl
    · rw [callM_toVal P _ _ ha _ _ ["SQLObjectField"] (by simp [nodeCls]) rs_fne]
      simp only [toVal]
      rw [show fieldVal P c = .obj "SQLObjectField" _ from rfl, field_ne_spec, isNoneV_toVal, hb]
      simp only [Bool.false_eq_true, if_false]
      rw [show Val.obj "SQLObjectField" _ = fieldVal P c from rfl, hm, R.bind_ok, toOut_toR, ifaceF_call,
        show fieldVal P c = toVal P (.field c) from rfl, call_ov P _ (ifaceF_isSub P k)]
      rfl
  · have hp := plain_of_cls a ha hf
    have hfb : (nodeCls a == "SQLObjectField") = false := by simpa using hf
    constructor
    · rw [callM_toVal P _ _ ha _ _ plainClasses hp rs_eq, eq_spec, isNoneV_toVal, hb]
      simp only [Bool.false_eq_true, if_false, toOut_toR, ifaceF_call]
      rw [call_ov P _ (ifaceF_isSub P k), hfb]; rfl
    · rw [callM_toVal P _ _ ha _ _ plainClasses hp rs_ne, ne_spec, isNoneV_toVal, hb]
      simp only [Bool.false_eq_true, if_false, toOut_toR, ifaceF_call]
      rw [call_ov P _ (ifaceF_isSub P k), hfb]; rfl

theorem cmp_direct (P : Params) (hfp : ∀ c v, P.fromPython c v = .ok v) (k : Nat) (o : Expr.CmpOp) (a b : Node)
    (ha : isObjNode a = true) (hb : (nodeCls b == "NoneType") = false) :
    callM (ifaceF P (k + 1)) (toVal P a) (cmpNames o).1 [toVal P b] =
      .ok (toVal P (Expr.applyOv (Expr.cmpOv (nodeCls a == "SQLObjectField") o) a b)) := by
  cases o
  · exact callM_ov P k a b ha _ _ _ rs_lt lt_spec
  · exact callM_ov P k a b ha _ _ _ rs_le le_spec
  · exact callM_ov P k a b ha _ _ _ rs_gt gt_spec
  · exact callM_ov P k a b ha _ _ _ rs_ge ge_spec
  · exact (eq_direct P hfp k a b ha hb).1
  · exact (eq_direct P hfp k a b ha hb).2

theorem cmpNames_flip (o : Expr.CmpOp) : (cmpNames o).2.1 = (cmpNames o.flip).1 := by cases o <;> rfl

theorem cmp_const (P : Params) (I : Iface) (hI : I.isSub = isSub) (o : Expr.CmpOp) (a b : Node) :
    callD I "SQLOp" [.str (cmpNames o).2.2, toVal P a, toVal P b] =
      .ok (toVal P (Expr.applyOv (Expr.cmpOv false o) a b)) := by
  rw [call_SQLOp I hI _ _ _ (notSub_toVal P a), upper_cspell]
  cases o <;> rfl

def allCls : List String := ["SQLObjectField", "int", "float", "SQLModulo", "SQLOp", "SQLPrefix"]

/-- the only proper-subclass pair among the classes of built operands is (`SQLOp`, `SQLModulo`) -/
theorem prio_table : ∀ ca ∈ allCls, ∀ cb ∈ allCls,
    (isSub cb "SQLExpression" && ca != cb && isSub cb ca) = (ca == "SQLOp" && cb == "SQLModulo") := by decide

theorem isExpr_table : ∀ ca ∈ allCls, isSub ca "SQLExpression" = !(ca == "int" || ca == "float") := by decide

/-! ### the classes of built operands -/

theorem clsE_mem (e : E .num) : clsE e ∈ allCls := by
  rcases (clsE_num e).1 with h | h | h | h | h | h <;> simp [h, allCls]

theorem isExpr_build_num (P : Params) (e : E .num) : isExpr (toVal P (Expr.build e)) = !Expr.isConst e := by
  rw [isExpr, typeName_toVal, nodeCls_build, isExpr_table _ (clsE_mem e), (clsE_num e).2.1]

theorem isObj_build_num (e : E .num) : isObjNode (Expr.build e) = !Expr.isConst e := by
  rw [← isExpr_toVal ⟨fun _ => [], fun _ => [], fun _ => [], fun _ _ => [], fun _ v => .ok v⟩, isExpr_build_num]

theorem isObj_build_bool (b : E .bool) : isObjNode (Expr.build b) = true := by
  rw [isObjNode_eq, nodeCls_build]
  rcases (clsE_bool b).1 with h | h <;> simp [h, exprClasses]

theorem notNone_build_num (e : E .num) : (nodeCls (Expr.build e) == "NoneType") = false := by
  rw [nodeCls_build]
  rcases (clsE_num e).1 with h | h | h | h | h | h <;> simp [h]

theorem prio_build (P : Params) (l r : E .num) :
    (isExpr (toVal P (Expr.build r)) && typeName (toVal P (Expr.build l)) != typeName (toVal P (Expr.build r)) &&
      isSub (typeName (toVal P (Expr.build r))) (typeName (toVal P (Expr.build l)))) =
    (Expr.isPlainOp l && Expr.isModulo r) := by
  rw [isExpr, typeName_toVal, typeName_toVal, nodeCls_build, nodeCls_build,
    prio_table _ (clsE_mem l) _ (clsE_mem r), (clsE_num l).2.2.2.1, (clsE_num r).2.2.2.2]

theorem clsE_items (l : E .items) : clsE l = "list" := by cases l <;> rfl

theorem isCol_eq (e : E .num) : Expr.isCol e = (nodeCls (Expr.build e) == "SQLObjectField") := by
  rw [nodeCls_build, (clsE_num e).2.2.1]

theorem plain_not_const (e : E .num) (h : Expr.isPlainOp e = true) : Expr.isConst e = false := by
  have := clsE_num e
  rw [this.2.2.2.1] at h
  rw [this.2.1]
  have h' : clsE e = "SQLOp" := by simpa using h
  simp [h']

theorem modulo_obj (e : E .num) (h : Expr.isModulo e = true) : isObjNode (Expr.build e) = true := by
  have := clsE_num e
  rw [this.2.2.2.2] at h
  have h' : clsE e = "SQLModulo" := by simpa using h
  rw [isObjNode_eq, nodeCls_build, h']; decide

/-- `x == None` / `x != None` for an object `x` -/
theorem eq_none (P : Params) (k : Nat) (a : Node) (ha : isObjNode a = true) :
    callM (ifaceF P (k + 2)) (toVal P a) "__eq__" [.none] =
      .ok (toVal P (if nodeCls a == "SQLObjectField"
        then Expr.noneRule Expr.Extracted.fieldEqNone Expr.Extracted.fieldEq a
        else Expr.noneRule Expr.Extracted.exprEqNone Expr.Extracted.exprEq a)) ∧
    callM (ifaceF P (k + 2)) (toVal P a) "__ne__" [.none] =
      .ok (toVal P (if nodeCls a == "SQLObjectField"
        then Expr.noneRule Expr.Extracted.fieldNeNone Expr.Extracted.fieldNe a
        else Expr.noneRule Expr.Extracted.exprNeNone Expr.Extracted.exprNe a)) := by
  by_cases hf : nodeCls a = "SQLObjectField"
  · obtain ⟨c, rfl⟩ := field_of_cls a hf
    constructor
    · rw [callM_toVal P _ _ ha _ _ ["SQLObjectField"] (by simp [nodeCls]) rs_feq]
      simp only [toVal]
      rw [show fieldVal P c = .obj "SQLObjectField" _ from rfl, field_eq_spec]
      simp only [isNoneV_none, if_true, noneCall, Expr.Extracted.fieldEqNone, toOut_toR, ifaceF_call]
      rw [show Val.obj "SQLObjectField" _ = toVal P (.field c) from rfl, call_ISNULL]; rfl
    · rw [callM_toVal P _ _ ha _ _ ["SQLObjectField"] (by simp [nodeCls]) rs_fne]
      simp only [toVal]
      rw [show fieldVal P c = .obj "SQLObjectField" _ from rfl, field_ne_spec]
      simp only [isNoneV_none, if_true, noneCall, Expr.Extracted.fieldNeNone, toOut_toR, ifaceF_call]
      rw [show Val.obj "SQLObjectField" _ = toVal P (.field c) from rfl, call_ISNOTNULL]; rfl
  · have hp := plain_of_cls a ha hf
    have hfb : (nodeCls a == "SQLObjectField") = false := by simpa using hf
    constructor
    · rw [callM_toVal P _ _ ha _ _ plainClasses hp rs_eq, eq_spec]
      simp only [isNoneV_none, if_true, noneCall, Expr.Extracted.exprEqNone, toOut_toR, ifaceF_call, call_ISNULL, hfb]
      rfl
    · rw [callM_toVal P _ _ ha _ _ plainClasses hp rs_ne, ne_spec]
      simp only [isNoneV_none, if_true, noneCall, Expr.Extracted.exprNeNone, toOut_toR, ifaceF_call, call_ISNOTNULL,
        hfb]
      rfl
end SqlObjVerif.ExprX
