import SqlObjVerif.Model.FailInhXT
import SqlObjVerif.Lemmas.FailInhXc
import SqlObjVerif.Lemmas.FailCreateXMain
import SqlObjVerif.Lemmas.FailDestroyXInh
/-!
C06, the COMPOSED inheritable create (`Model/FailInhXT.lean`) — part (a): the two bridges.
`superCreateT_eq`: on a keyword dict whose own-level keywords name pairwise distinct columns of the class and leave no
required column out, `super()._create(id, **kw)` RUN as the translated `SQLObject._create` (`PyCreate.create_good`:
whole-state equality with `Fail.createProg`, `missing = false`, keywords completed by `kwFullOf`; for an explicit id
`ownTree_eq_createProg`) is the call the interface `xIface` of `Model/FailInhX.lean` ASSUMES, for the context whose
`complete` is `kwFullOf` (`Agrees`).  `destroyCallT_eq`: `self._parent.destroySelf()` RUN as the translated
`destroySelf` (`FailDX.C06_translated_inhdestroy_eq_model`), then the `drop` steps (`FailDX.nat_destroyProg`: the hand
tree only uses its continuation), is the assumed call — for every world.
-/
namespace SqlObjVerif.Fail.InhX
open SqlObjVerif.PyInh (CallRes)

/-- a `Good` end of the translated `SQLObject._create` is the end of the hand tree's run, for the caller -/
theorem endCreate_good (ctx : PyCreate.Ctx) (w : FW) (o : PyCreate.Outcome) (r : St × Option Err)
    (h : PyCreate.Good ctx o r) : endCreate w o = fromRun w r := by
  cases o with
  | ret xw v => obtain ⟨hr, _⟩ := h; subst hr; rfl
  | exc xw e => obtain ⟨hr, _⟩ := h; subst hr; rfl
  | deadlock xw => exact h.elim
  | stuck => exact h.elim

/-- the translated `SQLObject._create` on a new instance = the hand tree `Fail.createProg`, whole state -/
theorem plainCreate_eq (X : Ctx) (T : Tr) (c : Nat) (s : St) (idv : PyCreate.Val) (id? : Option Nat)
    (hid : PyCreate.idArg idv = some id?) (pk : List (Nat × In)) (w : FW)
    (hnd : (pk.map (·.1)).Nodup) (hlt : ∀ e ∈ pk, e.1 < (clsOf X.sch c).cols.length)
    (hm : PyCreate.missingOf (T.dflt c) (T.dsql c) (clsOf X.sch c).cols.length pk = false) :
    endCreate w (plainCreate X T c s idv pk) =
      fromRun w (run X.sch X.inj (Fail.createProg X.sch c id? false
        (PyCreate.kwFullOf (T.dflt c) (clsOf X.sch c).cols.length pk) [] fun _ => .done) s) := by
  have hg := PyCreate.create_good (PyCreate.mkCtx (T.dflt c) (T.dsql c)) (by simp [PyCreate.mkCtx, PyCreate.Extracted.closTable])
    (createXW X T c s pk) idv id? hid pk hnd (clsOf X.sch c).cols.length rfl hlt rfl rfl rfl rfl rfl rfl rfl
  rw [show (PyCreate.mkCtx (T.dflt c) (T.dsql c)).dflt = T.dflt c from rfl,
    show (PyCreate.mkCtx (T.dflt c) (T.dsql c)).dsql = T.dsql c from rfl, hm] at hg
  exact endCreate_good _ w _ _ hg

theorem superCreateT_eq (X : Ctx) (T : Tr) (hag : Agrees X T) (c : Nat) (w : FW) (idv star : PVal)
    (L : List (PVal × PVal)) (hent : entriesOf star = L)
    (hnd : ((kwList X c L).map (·.1)).Nodup) (hlt : ∀ e ∈ kwList X c L, e.1 < (clsOf X.sch c).cols.length)
    (hm : PyCreate.missingOf (T.dflt c) (T.dsql c) (clsOf X.sch c).cols.length (kwList X c L) = false) :
    superCreateT X T c w idv star = superCreate X c w idv star := by
  subst hent
  cases idv <;> try rfl
  · -- None
    simp only [superCreateT, superCreate, pkOf]
    rw [plainCreate_eq X T c w.st (.pv .none) none rfl _ w hnd hlt hm, hag.1]
  · -- an id
    rename_i pid
    simp only [superCreateT, superCreate, pkOf]
    rw [plainCreate_eq X T c w.st (.pv (.nat pid)) (some pid) rfl _ w hnd hlt hm, hag.1, ownTree_eq_createProg]

theorem destroyCallT_eq (X : Ctx) (T : Tr) (hinh : ∀ c, (clsOf X.sch c).parent ≠ none → T.isInh c = true)
    (w : FW) (p pid : Nat) : destroyCallT X T w p pid = destroyCall X w p pid := by
  unfold destroyCallT destroyCall
  rw [FailDX.C06_translated_inhdestroy_eq_model X.sch X.inj T.isInh hinh,
    FailDX.nat_destroyProg X.sch X.inj X.fuel p pid (dropsOf (ancs X.sch X.depth p) pid) w.st]
  generalize run X.sch X.inj (destroyProg X.sch X.fuel p pid .done) w.st = r
  obtain ⟨s1, oe⟩ := r
  cases oe <;> rfl
end SqlObjVerif.Fail.InhX
