import SqlObjVerif.Lemmas.FailDestroyXCols
/-!
C06, translated `destroySelf`, part 6: the TRANSLATED `findDependantColumns`, run under the injecting semantics,
returns exactly the column objects of `Fail.fkCols` — the value the interface of `destroySelf` assumes for it
(`fdcModel`) — and sends nothing (`fdcF_eq`).
-/
namespace SqlObjVerif.FailDX
open SqlObjVerif.PyDestroy (Val Const Exc R CallRes Expr Exprs Cond Stmt Block Env St Res forLoop zipKw pyBool
  lenOf keysOf pairsOf vlSnoc isListVal vdSet starKwOf afterCall)
open SqlObjVerif.PyDestroyF
open SqlObjVerif.PyDestroy.Extracted
open SqlObjVerif.Fail (Err Schema Inj Pol Col Join Cls clsOf colOf fkCols Mem In Prog)

/-- the selection `Fail.fkCols` makes, per column -/
def gfk (c : Nat) (jc : Nat × Col) : Option (Nat × Pol) :=
  match jc.2.fk with
  | some (t, p) => if t == c && p != .none then some (jc.1, p) else none
  | none => none

theorem fkCols_eq (cols : List Col) (c : Nat) : fkCols cols c = (fkCols.enumFrom cols).filterMap (gfk c) := rfl

variable (sch : Schema) (inj : Option Inj) (c : Nat)

theorem fdc_step (I : IfaceF Hnd Fail.St) (hI : I = fIface sch inj (fun _ _ => .stuck) (fun _ _ _ => .stuck) .none)
    (k : Nat) (jc : Nat × Col) (s : Fail.St) (env : Env Hnd) (acc : List PVal) (h0 : env 0 = some (.obj (.cname c)))
    (h2 : env 2 = some (Val.ofList acc)) : ∃ envA,
    execB I (St.setVar ⟨s, env⟩ 3 (.obj (.col k jc.1 jc.2.fk))) findDependantColumns_for0 = .norm ⟨s, envA⟩ ∧
    envA 2 = some (Val.ofList (acc ++ ((gfk c jc).toList.map (colV c k)))) ∧
    ∀ x, x ≠ 2 → x ≠ 3 → envA x = env x := by
  subst hI
  unfold gfk
  rcases hfk : jc.2.fk with _ | ⟨t, p⟩
  · refine ⟨env.put 3 (.obj (.col k jc.1 none)), ?_, ?_, ?_⟩
    · unfold findDependantColumns_for0
      fdrun
      simp [colTarget]
    · simp [h2]
    · intro x h2 h3; simp [h3]
  · by_cases hp : (t == c && p != Pol.none) = true
    · simp only [Bool.and_eq_true, beq_iff_eq, bne_iff_ne] at hp
      obtain ⟨rfl, hp⟩ := hp
      refine ⟨(env.put 3 (.obj (.col k jc.1 (some (t, p))))).put 2 (Val.ofList (acc ++ [colV t k (jc.1, p)])), ?_, ?_, ?_⟩
      · unfold findDependantColumns_for0 colV
        fdrun
        simp [colTarget]
      · simp [hp]
      · intro x h2 h3; simp [h2, h3]
    · refine ⟨env.put 3 (.obj (.col k jc.1 (some (t, p)))), ?_, ?_, ?_⟩
      · simp only [Bool.and_eq_true, beq_iff_eq, bne_iff_ne, not_and, Decidable.not_not] at hp
        unfold findDependantColumns_for0
        fdrun
        by_cases ht : t = c
        · simp [colTarget, ht, hp ht]
        · simp [colTarget, ht]
      · simp [hp, h2]
      · intro x h2 h3; simp [h3]

theorem fdc_loop (I : IfaceF Hnd Fail.St) (hI : I = fIface sch inj (fun _ _ => .stuck) (fun _ _ _ => .stuck) .none)
    (k : Nat) (s : Fail.St) (l : List (Nat × Col)) :
    ∀ (env : Env Hnd) (acc : List PVal), env 0 = some (.obj (.cname c)) → env 2 = some (Val.ofList acc) → ∃ env',
      forLoop (fun st a => execB I (st.setVar 3 a) findDependantColumns_for0) (l.map fun jc => .obj (.col k jc.1 jc.2.fk)) ⟨s, env⟩ =
        .norm ⟨s, env'⟩ ∧
      env' 2 = some (Val.ofList (acc ++ (l.filterMap (gfk c)).map (colV c k))) := by
  induction l with
  | nil => intro env acc _ h2; exact ⟨env, rfl, by simpa using h2⟩
  | cons jc l ih =>
    intro env acc h0 h2
    obtain ⟨envA, hA, a2, af⟩ := fdc_step sch inj c I hI k jc s env acc h0 h2
    simp only [List.map_cons, forLoop, hA]
    obtain ⟨env', e1, e2⟩ := ih envA _ (by rw [af 0 (by decide) (by decide)]; exact h0) a2
    refine ⟨env', e1, ?_⟩
    rw [e2]
    cases hg : gfk c jc <;> simp [hg]

/-- the TRANSLATED `findDependantColumns(name of c, k)` returns the column objects of `Fail.fkCols` — the interface
    value `fdcModel` — and changes nothing, sends nothing -/
theorem fdcF_eq (k : Nat) (s : Fail.St) :
    (match fdcModel sch c k with
     | .ok v => CallRes.ret s v
     | _ => .stuck) = fdcF sch inj c k s := by
  unfold fdcF PyDestroyF.runF findDependantColumnsProg fdcModel
  have a0 : (SqlObjVerif.PyDestroy.Env.ofArgs [.obj (.cname c), .obj (.cls k)] : Env Hnd) 0 = some (.obj (.cname c)) := rfl
  have a1 : (SqlObjVerif.PyDestroy.Env.ofArgs [.obj (.cname c), .obj (.cls k)] : Env Hnd) 1 = some (.obj (.cls k)) := rfl
  generalize (SqlObjVerif.PyDestroy.Env.ofArgs [.obj (.cname c), .obj (.cls k)] : Env Hnd) = env0 at a0 a1
  obtain ⟨env', h1, h2⟩ := fdc_loop sch inj c _ rfl k s (fkCols.enumFrom (clsOf sch k).cols)
    (env0.put 2 .nil) [] (by simp [a0]) (by simp [Val.ofList])
  simp only [St.setVar] at h1
  simp [execB, execS, evalE, St.setVar, a1, h1, h2, Res.toCall, fkCols_eq]
  rfl

end SqlObjVerif.FailDX
