import SqlObjVerif.Lemmas.QueryXLookup
/-!
# C11 — the unique-index branch (`idxName` given) of the translated `_SO_fetchAlternateID`: the message loop over
`range(len(name))` and the `SQLObjectNotFound`
-/
namespace SqlObjVerif.QueryX
open SqlObjVerif.PyQ
open SqlObjVerif.PyQ.Extracted

theorem forLoop_snoc (f : Env → Val → Res) (l : List Val) (x : Val) (env : Env) :
    forLoop f (l ++ [x]) env = match forLoop f l env with
      | .norm e => forLoop f [x] e
      | r => r := by
  induction l generalizing env with
  | nil => simp [forLoop]
  | cons a l ih =>
    simp only [List.cons_append, forLoop]
    cases f env a with
    | norm e => simp only [ih]; cases forLoop f l e <;> simp [forLoop]
    | _ => rfl

theorem joinStrs_map' (sep : Str) : ∀ (l : List Str), joinStrs sep (l.map .str) = some (joinS sep l)
  | [] => rfl
  | [a] => rfl
  | a :: b :: l => by
    have := joinStrs_map' sep (b :: l)
    simp only [List.map_cons] at this ⊢
    simp [joinStrs, joinS, this]

theorem normIdx_nat (n i : Nat) (h : i < n) : normIdx n (i : Int) = some i := by
  simp [normIdx, h]

section
variable (sch : Schema) (P : Params) (fnRec : String → List Val → List (Str × Val) → R Val)
  (cm : Val → String → List Val → List (Str × Val) → R Val) (cv : Val → List Val → R Val)

/-- the message loop of the unique-index branch: every round appends a `str` to `names` -/
theorem altNames_loop (ns : List Str) (vs : List Val) (hlen : vs.length = ns.length) :
    ∀ (m : Nat), m ≤ ns.length → ∀ (env : Env) (acc : List Str), env 1 = some (.tuple (ns.map .str)) →
      env 3 = some (.tuple vs) → env 8 = some (.list (acc.map .str)) →
      ∃ (env' : Env) (acc' : List Str), forLoop (loopStep (.one 9) fun e => Block.exec (qIface sch P fnRec cm cv) e fetchAlternateID_for0)
          (intRange m) env = .norm env' ∧ env' 8 = some (.list (acc'.map .str)) ∧ env' 1 = env 1 ∧ env' 3 = env 3 ∧
          env' 0 = env 0 ∧ env' 5 = env 5 ∧ env' 6 = env 6
  | 0, _, env, acc, _, _, h8 => ⟨env, acc, rfl, h8, rfl, rfl, rfl, rfl, rfl⟩
  | m + 1, hm, env, acc, h1, h3, h8 => by
    obtain ⟨e1, acc1, l1, i8, i1, i3, i0, i5, i6⟩ := altNames_loop ns vs hlen m (by omega) env acc h1 h3 h8
    have hmn : m < ns.length := by omega
    have hmv : m < vs.length := by omega
    have g1 : (ns.map Val.str)[m]? = some (.str ns[m]) := by simp [hmn]
    have g3 : vs[m]? = some vs[m] := by simp [hmv]
    have step : loopStep (.one 9) (fun e => Block.exec (qIface sch P fnRec cm cv) e fetchAlternateID_for0) e1 (.int (m : Int)) =
        .norm ((e1.put 9 (.int (m : Int))).put 8 (.list ((acc1 ++ [ns[m] ++ [' ', '=', ' '] ++ P.repr vs[m]]).map .str))) := by
      unfold fetchAlternateID_for0
      have j1 : e1 1 = some (.tuple (ns.map .str)) := by rw [i1, h1]
      have j3 : e1 3 = some (.tuple vs) := by rw [i3, h3]
      pyqw [loopStep, mutateOf, rebind, i8, j1, j3, normIdx_nat _ _ hmn, normIdx_nat _ _ hmv, g1, g3, List.length_map]
    refine ⟨(e1.put 9 (.int (m : Int))).put 8 (.list ((acc1 ++ [ns[m] ++ [' ', '=', ' '] ++ P.repr vs[m]]).map .str)),
      acc1 ++ [ns[m] ++ [' ', '=', ' '] ++ P.repr vs[m]], ?_, by simp, ?_, ?_, ?_, ?_, ?_⟩
    · simp only [intRange, forLoop_snoc, l1, forLoop, step]
    all_goals simp [*]

/-- `if not result:` of the unique-index branch (`idxName` given): the message is built, then `SQLObjectNotFound` -/
theorem altMiss_idx (ns : List Str) (vs : List Val) (hlen : vs.length = ns.length) (idx : Str) (result : Val)
    (hres : truthy result = false) (env : Env) (h1 : env 1 = some (.tuple (ns.map .str))) (h3 : env 3 = some (.tuple vs))
    (h5 : env 5 = some (.str idx)) (h6 : env 6 = some result) :
    ∃ env', Stmt.exec (qIface sch P fnRec cm cv) env fetchAlternateID_s1 = .exc env' .notFound := by
  obtain ⟨e1, acc1, l1, i8, i1, i3, i0, i5, i6⟩ := altNames_loop sch P fnRec cm cv ns vs hlen ns.length (Nat.le_refl _)
    (env.put 8 (.list [])) [] (by simp [h1]) (by simp [h3]) (by simp)
  unfold fetchAlternateID_s1
  have hj := joinStrs_map' [',', ' '] acc1
  pyqw [h1, h3, h5, h6, hres, l1, i8, hj, List.length_map]

/-- **`_SO_fetchAlternateID`, unique-index branch** (`idxName` given): no row → `SQLObjectNotFound`, for every
    number of index columns (the message loop over `range(len(name))` never fails) -/
theorem fetchAlternateID_idx_miss (ns : List Str) (vs : List Val) (hlen : vs.length = ns.length) (idx : Str)
    (dbName connection result obj : Val) (hres : truthy result = false)
    (hfind : cm clsV "_findAlternateID" [.tuple (ns.map .str), dbName, .tuple vs, connection] [] = .ok (.tuple [result, obj])) :
    fetchAlternateIDX (qIface sch P fnRec cm cv) clsV (.tuple (ns.map .str)) dbName (.tuple vs) connection (.str idx) =
      .exc .notFound := by
  unfold fetchAlternateIDX run fetchAlternateID
  simp only [exec_cons]
  have e0 : Stmt.exec (qIface sch P fnRec cm cv)
      (Env.ofArgs [clsV, .tuple (ns.map .str), dbName, .tuple vs, connection, .str idx]) fetchAlternateID_s0 =
      .norm (((Env.ofArgs [clsV, .tuple (ns.map .str), dbName, .tuple vs, connection, .str idx]).put 6 result).put 7 obj) := by
    unfold fetchAlternateID_s0
    pyqw [hfind]
  obtain ⟨env', h⟩ := altMiss_idx sch P fnRec cm cv ns vs hlen idx result hres
    (((Env.ofArgs [clsV, .tuple (ns.map .str), dbName, .tuple vs, connection, .str idx]).put 6 result).put 7 obj)
    rfl rfl rfl rfl
  rw [e0, Res.seq_norm, h]
  simp
end
end SqlObjVerif.QueryX
