import SqlObjVerif.Lemmas.ConcXGet
import SqlObjVerif.Lemmas.ConcXMisc
import SqlObjVerif.Lemmas.ConcXCull
import SqlObjVerif.Lemmas.ConcB
/-!
# C09 — `Conc` and the translated system `ConcX` move in lock step

`sim_step`: from related states, for every thread `t`: `Conc.step s t` and `ConcX.step x t` are both `none`
(thread finished, or blocked on the cache lock), or both move and end related again.  The `ConcX` step is ONE shared
access (the one `accessX` names) followed by at most `FUEL` silent micro-steps of the translated programs.
`sim_run`: hence for every schedule.  `sim_init`: the initial states are related.
-/
namespace SqlObjVerif.ConcX
open SqlObjVerif.PyCacheSS
open SqlObjVerif.Conc (Id Obj Op Out K Pc State AInv)

/-- all 45 program-counter kinds -/
theorem good_all (s : State) (t : Tid) (ha : AInv s) (hf : 0 < s.frac) (x : XTh) (hx : ThSim s.dc (s.th t) x) :
    Good s t x := by
  cases hpc : (s.th t).pc with
  | idle => exact good_idle s t hpc x hx
  | csGet k => exact good_csGet s t k ha hpc x hx
  | csSet k => exact good_csSet s t k ha hpc x hx
  | ccTest k => exact good_ccTest s t k ha hpc x hx
  | ccRead k => exact good_ccRead s t k ha hpc x hx
  | ccWrite k v => exact good_ccWrite s t k v ha hpc x hx
  | ccReset k => exact good_ccReset s t k ha hpc x hx
  | probeL i => exact good_probeL s t i ha hpc x hx
  | probe i g => exact good_probe s t i g ha hpc x hx
  | acq i => exact good_acq s t i ha hpc x hx
  | relook i => exact good_relook s t i ha hpc x hx
  | relRel i o => exact good_relRel s t i o ha hpc x hx
  | weakGet i => exact good_weakGet s t i ha hpc x hx
  | weakDel i o => exact good_weakDel s t i o ha hpc x hx
  | weakDelDead i o => exact good_weakDelDead s t i o ha hpc x hx
  | strongSet i o => exact good_strongSet s t i o ha hpc x hx
  | relSet i o => exact good_relSet s t i o ha hpc x hx
  | select i => exact good_select s t i ha hpc x hx
  | put i o => exact good_put s t i o ha hpc x hx
  | finRel i o => exact good_finRel s t i o ha hpc x hx
  | finRelNF i => exact good_finRelNF s t i ha hpc x hx
  | nProbe i => exact good_nProbe s t i ha hpc x hx
  | nAcq i => exact good_nAcq s t i ha hpc x hx
  | nRelook i => exact good_nRelook s t i ha hpc x hx
  | insert i => exact good_insert s t i ha hpc x hx
  | crSetL i o => exact good_crSetL s t i o ha hpc x hx
  | crSet i o g => exact good_crSet s t i o g ha hpc x hx
  | crSelect i o => exact good_crSelect s t i o ha hpc x hx
  | exAcq i => exact good_exAcq s t i ha hpc x hx
  | exInStrong i => exact good_exInStrong s t i ha hpc x hx
  | exDelStrong i => exact good_exDelStrong s t i ha hpc x hx
  | exInWeak i => exact good_exInWeak s t i ha hpc x hx
  | exDelWeak i => exact good_exDelWeak s t i ha hpc x hx
  | exRel => exact good_exRel s t ha hpc x hx
  | exRelErr => exact good_exRelErr s t hpc x hx
  | eaEntry => exact good_eaEntry s t ha hpc x hx
  | eaAcq => exact good_eaAcq s t ha hpc x hx
  | eaNext pos used => exact good_eaNext s t pos used ha hpc x hx
  | eaSetWeak k v pos used => exact good_eaSetWeak s t k v pos used ha hpc x hx
  | eaSwap => exact good_eaSwap s t ha hpc x hx
  | eaRel => exact good_eaRel s t ha hpc x hx
  | eaRelErr => exact good_eaRelErr s t ha hpc x hx
  | cuEntry => exact good_cuEntry s t ha hpc x hx
  | cuAcq k => exact good_cuAcq s t k ha hpc x hx
  | cuWeakKeys k => exact good_cuWeakKeys s t k ha hpc x hx
  | cuWeakChk k ks => exact good_cuWeakChk s t k ks ha hpc x hx
  | cuWeakPop k key o rest => exact good_cuWeakPop s t k key o rest ha hpc x hx
  | cuStrongKeys k => exact good_cuStrongKeys s t k ha hf hpc x hx
  | cuStrongGet k i rest => exact good_cuStrongGet s t k i rest ha hpc x hx
  | cuStrongDel k i o rest => exact good_cuStrongDel s t k i o rest ha hf hpc x hx
  | cuWeakSet k i o rest => exact good_cuWeakSet s t k i o rest ha hf hpc x hx
  | cuRel k => exact good_cuRel s t k ha hpc x hx
  | cuRelErr => exact good_cuRelErr s t hpc x hx

end SqlObjVerif.ConcX
namespace SqlObjVerif.Conc
theorem frac_step (s s' : State) (t : Tid) (hs : step s t = some s') : s'.frac = s.frac := by
  step_cases <;> simp
end SqlObjVerif.Conc
namespace SqlObjVerif.ConcX
open SqlObjVerif.PyCacheSS
open SqlObjVerif.Conc (Id Obj Op Out K Pc State AInv frac_step)

theorem frac_run (s : State) (sched : List Tid) : (Conc.run s sched).frac = s.frac := by
  induction sched generalizing s with
  | nil => rfl
  | cons t ts ih =>
    unfold Conc.run
    cases h : Conc.step s t with
    | none => exact ih s
    | some s' => dsimp only; rw [ih s', frac_step s s' t h]

/-- lock step, one thread, one action -/
theorem sim_step (s : State) (x : XState) (t : Tid) (hs : Sim s x) (ha : AInv s) (hf : 0 < s.frac) :
    match Conc.step s t with
    | some s' => ∃ x', step x t = some x' ∧ Sim s' x'
    | none => step x t = none := by
  have hg := good_all s t ha hf (x.th t) (hs.th t)
  unfold Good at hg
  unfold step
  rw [hs.g]
  cases hst : Conc.step s t with
  | none => rw [hst] at hg; dsimp only at hg ⊢; rw [hg]
  | some s' =>
    rw [hst] at hg
    dsimp only at hg ⊢
    cases hx : stepTh t (absG s) (x.th t) with
    | none => rw [hx] at hg; exact hg.elim
    | some r =>
      obtain ⟨x', g'⟩ := r
      rw [hx] at hg
      dsimp only at hg ⊢
      refine ⟨_, rfl, ⟨hg.1, ?_⟩⟩
      intro u
      by_cases hu : u = t
      · subst hu; simpa [setThX] using hg.2
      · have h1 : s'.th u = s.th u := Conc.step_th_ne s s' t u hst hu
        have h2 : s'.dc = s.dc := Conc.dc_step s s' t hst
        simp only [setThX, hu, if_false]
        rw [h1, h2]
        exact hs.th u

theorem sim_run (s : State) (x : XState) (sched : List Tid) (hs : Sim s x) (ha : AInv s) (hf : 0 < s.frac) :
    Sim (Conc.run s sched) (run x sched) := by
  induction sched generalizing s x with
  | nil => exact hs
  | cons t ts ih =>
    have h := sim_step s x t hs ha hf
    unfold Conc.run run
    cases hst : Conc.step s t with
    | none => rw [hst] at h; dsimp only at h ⊢; rw [h]; exact ih s x hs ha hf
    | some s' =>
      rw [hst] at h
      obtain ⟨x', hx', hs'⟩ := h
      dsimp only
      rw [hx']
      exact ih s' x' hs' (Conc.ainv_step s s' t ha hst) (by rw [frac_step s s' t hst]; exact hf)

theorem sim_init (dc caches : Bool) (strong weak : Conc.AMap) (db : List Id) (fresh freq frac cc off : Nat)
    (pins : List Obj) (progs : Tid → List Op) :
    Sim (Conc.mkInit dc caches strong weak db fresh freq frac cc off pins progs)
      (mkInitX dc caches strong weak db fresh freq frac cc off pins progs) := by
  refine ⟨rfl, ?_⟩
  intro t
  simp only [Conc.mkInit, mkInitX]
  cases progs t with
  | nil => exact ⟨rfl, rfl, by simp [Conc.startTh, startX, PcSim]⟩
  | cons op rest =>
    simp only [Conc.startTh, startX]
    have := silentRun_entryX t 58 ⟨⟨strong, weak, cc, off, freq, frac, dc, none, 0, 0, [], ⟨[], pins⟩⟩, caches, db, fresh⟩ rest [] op
    simp only [FUEL]
    rw [this]
    exact thsim_entryPark dc caches rest [] op

/-- related threads have finished together -/
theorem pcsim_finished (dc : Bool) (pc : Pc) (cpc : CPc) (m : MTh) (h : PcSim dc pc cpc m) :
    (cpc == CPc.idle) = decide (pc = Pc.idle) := by
  cases pc
  case cuWeakChk k ks =>
    cases ks with
    | nil => exact h.elim
    | cons key rest => simp only [PcSim] at h; obtain ⟨_, h1, _⟩ := h; rw [h1]; rfl
  all_goals
    first
    | exact h.elim
    | (simp only [PcSim] at h; obtain ⟨h1, _⟩ := h; rw [h1]; rfl)
    | (simp only [PcSim] at h; obtain ⟨_, h1, _⟩ := h; rw [h1]; rfl)

end SqlObjVerif.ConcX
