import SqlObjVerif.Model.CodecW
/-!
# CodecW — evaluation rules for the PyMainV interpreter (the simp set of `Lemmas/OrmValX.lean`, for this value universe)
-/
namespace SqlObjVerif.CodecW
open SqlObjVerif.Codec (PyVal ColT DbVal)
open SqlObjVerif.PyMainV
open SqlObjVerif.PyMainV.Extracted

@[simp] theorem toVal_ofVal (v : CVal) : toVal? (ofVal v) = some v := rfl
@[simp] theorem toVal_val (v : CVal) : toVal? (PV.val v) = some v := rfl

section
variable {G : Type} {α β : Type}
@[simp] theorem R.bind_ok (a : α) (f : α → R β) : (R.ok a).bind f = f a := rfl
@[simp] theorem R.bind_exc (e : Exc) (f : α → R β) : (R.exc e : R α).bind f = .exc e := rfl
@[simp] theorem R.bind_unmodelled (f : α → R β) : (R.unmodelled : R α).bind f = .unmodelled := rfl
@[simp] theorem R.bind_stuck (f : α → R β) : (R.stuck : R α).bind f = .stuck := rfl
@[simp] theorem ofOpt_some (a : α) : ofOpt (some a) = .ok a := rfl
@[simp] theorem ofOpt_none : ofOpt (Option.none : Option α) = .stuck := rfl
@[simp] theorem withR_ok (st : St G) (a : α) (f : α → Res G) : withR st (.ok a) f = f a := rfl
@[simp] theorem withR_exc (st : St G) (e : Exc) (f : α → Res G) : withR st (.exc e) f = .exc st e := rfl
@[simp] theorem withR_unmodelled (st : St G) (f : α → Res G) : withR st (R.unmodelled : R α) f = .unmodelled := rfl
@[simp] theorem withR_stuck (st : St G) (f : α → Res G) : withR st .stuck f = .stuck := rfl
@[simp] theorem ofOptRes_some (a : α) (f : α → Res G) : ofOptRes (some a) f = f a := rfl
@[simp] theorem ofOptRes_none (f : α → Res G) : ofOptRes (Option.none : Option α) f = .stuck := rfl
@[simp] theorem tbind_one (st : St G) (x : Nat) (v : PV) : Target.bind st (.one x) v = some (st.setVar x v) := rfl
@[simp] theorem tbind_two (st : St G) (x y : Nat) (a b : PV) :
    Target.bind st (.two x y) (.pair a b) = some ((st.setVar x a).setVar y b) := rfl
@[simp] theorem bind_one (k : St G → Res G) (st : St G) (x : Nat) (v : PV) :
    bindThen (.one x) k st v = k (st.setVar x v) := rfl
@[simp] theorem bind_two (k : St G → Res G) (st : St G) (x y : Nat) (a b : PV) :
    bindThen (.two x y) k st (.pair a b) = k ((st.setVar x a).setVar y b) := rfl
end

@[simp] theorem pvIdx_pair0 (a b : PV) : pvIdx (.pair a b) 0 = .ok a := rfl
@[simp] theorem pvIdx_pair1 (a b : PV) : pvIdx (.pair a b) 1 = .ok b := rfl
@[simp] theorem pvIdx_row (r : List CVal) (i : Nat) : pvIdx (.row r) i = match r[i]? with
    | some v => .ok (ofVal v)
    | Option.none => .stuck := by cases i <;> rfl
@[simp] theorem colAttrOf_name (k : Klass) (c : Nat) : colAttrOf k (.col c) .name = .ok (.name c) := rfl
@[simp] theorem colAttrOf_dbName (k : Klass) (c : Nat) : colAttrOf k (.col c) .dbName = .ok (.dbName c) := rfl
@[simp] theorem colAttrOf_toPython (k : Klass) (c : Nat) :
    colAttrOf k (.col c) .toPython = .ok (if k.hasTo c then .fn .toPy c else .none) := rfl
@[simp] theorem colAttrOf_fromPython (k : Klass) (c : Nat) :
    colAttrOf k (.col c) .fromPython = .ok (if k.hasFrom c then .fn .fromPy c else .none) := rfl
@[simp] theorem colAttrOf_creationOrder (k : Klass) (c : Nat) : colAttrOf k (.col c) .creationOrder = .ok (.nat c) := rfl
@[simp] theorem callFn_from (k : Klass) (c : Nat) (v : CVal) : callFn k (.fn .fromPy c) (.val v) = resR (k.enc c v) := rfl
@[simp] theorem callFn_to (k : Klass) (c : Nat) (v : CVal) : callFn k (.fn .toPy c) (.val v) = resR (k.dec c v) := rfl
@[simp] theorem callFn_to' (k : Klass) (c : Nat) (v : CVal) : callFn k (.fn .toPy c) (ofVal v) = resR (k.dec c v) := rfl
@[simp] theorem resR_ok (y : CVal) : resR (.ok y) = .ok (.val y) := rfl
@[simp] theorem resR_invalid : resR .invalid = .exc .invalid := rfl
@[simp] theorem resR_reject : resR .reject = .exc .other := rfl
@[simp] theorem resR_unmodelled : resR .unmodelled = .unmodelled := rfl
@[simp] theorem nameOf_name (c : Nat) : nameOf (.name c) = some c := rfl
@[simp] theorem natOf_nat (c : Nat) : natOf (.nat c) = some c := rfl
@[simp] theorem dbNameOf_dbName (c : Nat) : dbNameOf (.dbName c) = some c := rfl
@[simp] theorem updItemOf_pair (c : Nat) (v : PV) : updItemOf (.pair (.dbName c) v) = (toVal? v).map fun x => (c, x) := rfl
@[simp] theorem dictItemOf_pair (c : Nat) (v : PV) : dictItemOf (.pair (.name c) v) = some (c, v) := rfl
@[simp] theorem pyBool_none : pyBool PV.none = some false := rfl
@[simp] theorem pyBool_vnone : pyBool (.val .none) = some false := rfl
@[simp] theorem pyBool_bool (b : Bool) : pyBool (PV.bool b) = some b := rfl
@[simp] theorem pyBool_vbool (b : Bool) : pyBool (.val (.bool b)) = some b := rfl
@[simp] theorem pyBool_row (r : List CVal) : pyBool (.row r) = some (!r.isEmpty) := rfl
@[simp] theorem pyBool_fn (k : FnKind) (c : Nat) : pyBool (.fn k c) = some true := rfl
@[simp] theorem isNone_none : PV.isNone PV.none = true := rfl
@[simp] theorem isNone_row (r : List CVal) : PV.isNone (.row r) = false := rfl

syntax "pvrunw" "[" Lean.Parser.Tactic.simpLemma,* "]" : tactic
macro_rules
  | `(tactic| pvrunw [$ls,*]) => `(tactic|
  simp [PyMainV.run, Block.exec, Stmt.exec, Cond.eval, Expr.eval, LExpr.eval, St.getVar, St.setVar, St.getList, St.setList,
        St.setObj, St.setG, St.getDict, St.setDict, Obj.getFlag, Obj.setFlag, Obj.setVal, itemsOf,
        Res.toOutcome, mapR, optMap, cvOf, forLoop, dget, dhas, dset, dupdate, dictOf, sortByKey, insByKey, $ls,*, *])

macro "pvrun" : tactic => `(tactic|
  simp [PyMainV.run, Block.exec, Stmt.exec, Cond.eval, Expr.eval, LExpr.eval, St.getVar, St.setVar, St.getList, St.setList,
        St.setObj, St.setG, St.getDict, St.setDict, Obj.getFlag, Obj.setFlag, Obj.setVal, itemsOf,
        Res.toOutcome, mapR, optMap, cvOf, forLoop, dget, dhas, dset, dupdate, dictOf, sortByKey, insByKey, *])

end SqlObjVerif.CodecW
