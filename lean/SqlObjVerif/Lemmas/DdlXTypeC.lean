import SqlObjVerif.Lemmas.DdlXTypeA
/-!
# C14 translation — the `_<dialect>Type` methods of BLOBCol / PickleCol
-/
namespace SqlObjVerif.DdlX
open SqlObjVerif.Ddl
open SqlObjVerif.PyDdl hiding Str isUpperC
open SqlObjVerif.PyDdl.Extracted

/-- which of the MySQL size classes a length falls into -/
theorem len_ranges (len : Nat) :
    len = 0 ∨ (0 < len ∧ len < 256) ∨ (256 ≤ len ∧ len < 65536) ∨ (65536 ≤ len ∧ len < 16777216) ∨ 16777216 ≤ len := by
  omega

/-- BLOBCol (`pk = false`) or PickleCol -/
def blobKind (pk : Bool) (len : Nat) (v : Option Bool) : Kind := if pk then .pickle len v else .blob len v

macro "blobeval" : tactic =>
  `(tactic| pyxc [blobKind, tyM, typePieces, blobType, lookupThreshold, Ddl.Extracted.tables, joinStr, pyPow])

set_option maxHeartbeats 2000000 in
theorem blob_mysql (n : Nat) (T : Tables) (st : Style) (tb : Str) (c0 : Val) (pk : Bool) (len : Nat) (v : Option Bool)
    (c : Caps)
    (name : Str) (dbn : Option Str) (nn : Bool) (uq : Option Bool) (alt : Bool) (ds : Option Str) (db : Str) :
    callN prog ddlI (n + 4) (.meth (clsOf (blobKind pk len v)) (tyM .mysql))
        [colV T st tb c0 ⟨name, dbn, blobKind pk len v, nn, uq, alt, ds⟩] =
      tyRes (typePieces TX .mysql c db (blobKind pk len v)) := by
  obtain ⟨vc, hvc⟩ : ∃ vc, varcharEff len v false = vc := ⟨_, rfl⟩
  rcases len_ranges len with h | ⟨h, h'⟩ | ⟨h, h'⟩ | ⟨h, h'⟩ | h
  · subst h
    cases pk <;> cases vc <;> blobeval
  · have h0 : ((len : Int) != 0) = true := by simp; omega
    have i1 : ¬ ((16777216 : Int) ≤ len) := by omega
    have i2 : ¬ ((65536 : Int) ≤ len) := by omega
    have i3 : ¬ ((256 : Int) ≤ len) := by omega
    have n1 : ¬ (16777216 ≤ len) := by omega
    have n2 : ¬ (65536 ≤ len) := by omega
    have n3 : ¬ (256 ≤ len) := by omega
    cases pk <;> cases vc <;> blobeval
  · have h0 : ((len : Int) != 0) = true := by simp; omega
    have i1 : ¬ ((16777216 : Int) ≤ len) := by omega
    have i2 : ¬ ((65536 : Int) ≤ len) := by omega
    have i3 : ((256 : Int) ≤ len) := by omega
    have n1 : ¬ (16777216 ≤ len) := by omega
    have n2 : ¬ (65536 ≤ len) := by omega
    have n3 : (256 ≤ len) := by omega
    cases pk <;> cases vc <;> blobeval
  · have h0 : ((len : Int) != 0) = true := by simp; omega
    have i1 : ¬ ((16777216 : Int) ≤ len) := by omega
    have i2 : ((65536 : Int) ≤ len) := by omega
    have n1 : ¬ (16777216 ≤ len) := by omega
    have n2 : (65536 ≤ len) := by omega
    cases pk <;> cases vc <;> blobeval
  · have h0 : ((len : Int) != 0) = true := by simp; omega
    have i1 : ((16777216 : Int) ≤ len) := by omega
    have n1 : (16777216 ≤ len) := by omega
    cases pk <;> cases vc <;> blobeval

set_option maxHeartbeats 2000000 in
theorem blob_type (n : Nat) (T : Tables) (st : Style) (tb : Str) (c0 : Val) (pk : Bool) (len : Nat) (v : Option Bool)
    (d : Dialect) (c : Caps)
    (name : Str) (dbn : Option Str) (nn : Bool) (uq : Option Bool) (alt : Bool) (ds : Option Str) (db : Str) :
    callN prog ddlI (n + 4) (.meth (clsOf (blobKind pk len v)) (tyM d))
        [colV T st tb (connDuring d c c0) ⟨name, dbn, blobKind pk len v, nn, uq, alt, ds⟩] =
      tyRes (typePieces TX d c db (blobKind pk len v)) := by
  by_cases hd : d = .mysql
  · subst hd; exact blob_mysql n T st tb _ pk len v c name dbn nn uq alt ds db
  obtain ⟨vc, hvc⟩ : ∃ vc, varcharEff len v false = vc := ⟨_, rfl⟩
  obtain ⟨mi, mx⟩ := c
  by_cases hl : len = 0
  · subst hl
    cases d <;> first | exact absurd rfl hd | skip
    all_goals cases pk <;>
      pyxc [blobKind, tyM, connDuring, typePieces, blobType, strType, strSqlType, Ddl.Extracted.tables, joinStr, handle] <;>
      (cases mx <;> rfl)
  · have h1 : ((len : Int) != 0) = true := by simp; omega
    cases d <;> first | exact absurd rfl hd | skip
    all_goals cases pk <;> cases vc <;>
      pyxc [blobKind, tyM, connDuring, typePieces, blobType, strType, strSqlType, Ddl.Extracted.tables, joinStr, handle,
        wordParen] <;>
      (cases mx <;> rfl)

end SqlObjVerif.DdlX
