import SqlObjVerif.Model.FailDestroyX
/-!
C06, translated `destroySelf`, part 0 (no interpreter): the hand model's trees are in continuation-passing style
(`seg cont`), the translated program is in direct style.  `Natural P` says that the segment `P` only USES its
continuation: `run (P k) s = bindRun (run (P .done) s) k`.  Combinators (`nat_stmt`, `nat_mem`, `nat_dyn`, `nat_comp`,
`nat_foldr` …) prove it for every segment of `Fail.destroyProg`, for `setProg` / `syncProg`, and — by induction on the
fuel — for `destroyProg` itself (any schema, inheritable or not).  Also: the loop over the whole registry equals the
loop over the dependent classes (`depLoop_dependents`).
-/
namespace SqlObjVerif.FailDX
open SqlObjVerif.Fail
open SqlObjVerif.PyFail (sendStmt memStep)

/-! the interpreter's primitives are the cases of `Fail.run` (restated from `Lemmas/PyFail.lean`, whose import closure
    — the PyMain lemmas — this development does not need) -/
theorem run_stmt (sch : Schema) (inj : Option Inj) (q : Stmt) (k : Prog) (s : St) :
    run sch inj (.stmt q k) s =
      match sendStmt sch inj q s with
      | (s1, some e) => (s1, some e)
      | (s1, Option.none) => run sch inj k s1 := by
  simp only [run, sendStmt]
  split <;> simp_all
  split <;> simp_all
theorem run_mem (sch : Schema) (inj : Option Inj) (m : Mem) (k : Prog) (s : St) :
    run sch inj (.mem m k) s = run sch inj k (memStep m s) := by
  simp only [run, memStep]
theorem run_done (sch : Schema) (inj : Option Inj) (s : St) : run sch inj .done s = (s, Option.none) := by
  simp only [run]
theorem run_fail (sch : Schema) (inj : Option Inj) (e : Err) (s : St) : run sch inj (.fail e) s = (s, some e) := by
  simp only [run]
theorem run_event (sch : Schema) (inj : Option Inj) (g : Nat) (k : Prog) (s : St) :
    run sch inj (.event g k) s = run sch inj k s := by
  simp only [run]
theorem run_validate (sch : Schema) (inj : Option Inj) (b : Bool) (k : Prog) (s : St) :
    run sch inj (.validate b k) s = if b then run sch inj k s else (s, some .invalid) := by
  simp only [run]
theorem run_dyn (sch : Schema) (inj : Option Inj) (f : St → Prog) (s : St) :
    run sch inj (.dyn f) s = run sch inj (f s) s := by
  simp only [run]

/-- go on with `k` after a piece of the operation that did not raise -/
def bindRun (sch : Schema) (inj : Option Inj) (r : St × Option Err) (k : Prog) : St × Option Err :=
  match r with
  | (s, none) => run sch inj k s
  | (s, some e) => (s, some e)

@[simp] theorem bindRun_ok (sch inj) (s : St) (k : Prog) : bindRun sch inj (s, none) k = run sch inj k s := rfl
@[simp] theorem bindRun_err (sch inj) (s : St) (e : Err) (k : Prog) : bindRun sch inj (s, some e) k = (s, some e) := rfl

theorem bindRun_done (sch inj) (r : St × Option Err) : bindRun sch inj r .done = r := by
  rcases r with ⟨s, _ | e⟩
  · simp [run_done]
  · rfl

theorem bindRun_assoc (sch inj) (r : St × Option Err) (k1 k2 : Prog) :
    bindRun sch inj (bindRun sch inj r k1) k2 =
      match r with
      | (s, none) => bindRun sch inj (run sch inj k1 s) k2
      | (s, some e) => (s, some e) := by
  rcases r with ⟨s, _ | e⟩ <;> rfl

def Natural (sch : Schema) (inj : Option Inj) (P : Prog → Prog) : Prop :=
  ∀ k s, run sch inj (P k) s = bindRun sch inj (run sch inj (P .done) s) k

section comb
variable {sch : Schema} {inj : Option Inj}

theorem nat_id : Natural sch inj fun k => k := by
  intro k s; simp [run_done]

theorem nat_fail (e : Err) : Natural sch inj fun _ => .fail e := by
  intro k s; simp [run_fail]

theorem nat_stmt (q : Stmt) {P : Prog → Prog} (h : Natural sch inj P) : Natural sch inj fun k => .stmt q (P k) := by
  intro k s
  rw [run_stmt, run_stmt]
  rcases sendStmt sch inj q s with ⟨s1, _ | e⟩
  · exact h k s1
  · rfl

theorem nat_mem (m : Mem) {P : Prog → Prog} (h : Natural sch inj P) : Natural sch inj fun k => .mem m (P k) := by
  intro k s
  rw [run_mem, run_mem]
  exact h k _

theorem nat_event (g : Nat) {P : Prog → Prog} (h : Natural sch inj P) : Natural sch inj fun k => .event g (P k) := by
  intro k s
  rw [run_event, run_event]
  exact h k _

theorem nat_validate (b : Bool) {P : Prog → Prog} (h : Natural sch inj P) :
    Natural sch inj fun k => .validate b (P k) := by
  intro k s
  rw [run_validate, run_validate]
  cases b
  · rfl
  · exact h k _

theorem nat_dyn {F : St → Prog → Prog} (h : ∀ s, Natural sch inj (F s)) : Natural sch inj fun k => .dyn fun s => F s k := by
  intro k s
  show run sch inj (.dyn fun s => F s k) s = bindRun sch inj (run sch inj (.dyn fun s => F s .done) s) k
  simp only [run]
  exact h s k s

theorem nat_ite (b : Bool) {P Q : Prog → Prog} (hP : Natural sch inj P) (hQ : Natural sch inj Q) :
    Natural sch inj fun k => if b then P k else Q k := by
  cases b
  · exact hQ
  · exact hP

theorem nat_comp {P Q : Prog → Prog} (hP : Natural sch inj P) (hQ : Natural sch inj Q) :
    Natural sch inj fun k => P (Q k) := by
  intro k s
  rw [hP (Q k) s, hP (Q .done) s]
  rcases run sch inj (P .done) s with ⟨s1, _ | e⟩
  · exact hQ k s1
  · rfl

theorem nat_foldr {α : Type} (F : α → Prog → Prog) (h : ∀ a, Natural sch inj (F a)) (l : List α) :
    Natural sch inj fun k => l.foldr F k := by
  induction l with
  | nil => exact nat_id
  | cons a l ih => exact nat_comp (h a) ih

/-- how a natural segment composes with the rest -/
theorem Natural.run_comp {P : Prog → Prog} (hP : Natural sch inj P) (k : Prog) (s : St) :
    run sch inj (P k) s = bindRun sch inj (run sch inj (P .done) s) k := hP k s
end comb

section segs
variable (sch : Schema) (inj : Option Inj)

theorem nat_ownLinks (cl : Cls) (id : Nat) : Natural sch inj (ownLinksSeg cl id) :=
  nat_foldr (fun (j : Join) acc => .stmt (.delLinks j.tab j.side id) acc) (fun _ => nat_stmt _ nat_id) cl.joins

theorem nat_freeLinks (kc : Cls) (c vid : Nat) : Natural sch inj (freeLinksSeg kc c vid) :=
  nat_foldr (fun (j : Join) acc => .stmt (.delLinks j.tab (!j.side) vid) acc) (fun _ => nat_stmt _ nat_id) _

theorem nat_fetchAll (kidx : Nat) (rows : List Row) : Natural sch inj (fetchAll kidx rows) :=
  nat_foldr (fun (r : Row) acc => .mem (.fetch kidx r.id) acc) (fun _ => nat_mem _ nat_id) rows

theorem nat_restrict (fk : List (Nat × Pol)) (kidx vid : Nat) : Natural sch inj (restrictSeg fk kidx vid) := by
  unfold restrictSeg
  exact nat_ite _ nat_id (nat_stmt _ (nat_dyn (F := fun s k => if restrictingRows s fk kidx vid then .fail .integrity else k)
    fun s => nat_ite _ (nat_fail _) nat_id))

theorem nat_validates (kw : List (Nat × In)) : Natural sch inj (validates kw) :=
  nat_foldr (fun a acc => .validate a.2.fromOk (.validate a.2.toOk acc))
    (fun _ => nat_validate _ (nat_validate _ nat_id)) kw

/-- `set()` with column keywords only -/
theorem nat_setProg (c id : Nat) (kw : List (Nat × In)) : Natural sch inj (setProg sch c id kw []) := by
  unfold setProg
  simp only [extras, List.foldr_nil, precheck, hasUnknown, List.any_nil, Bool.false_eq_true, if_false]
  by_cases hl : (clsOf sch c).lazy = true
  · simp only [hl, if_true]
    exact nat_event _ (nat_comp (nat_validates sch inj kw) (nat_mem _ (nat_ite _ nat_id (nat_mem _ nat_id))))
  · simp only [hl, if_false, Bool.false_eq_true]
    exact nat_event _ (nat_comp (nat_validates sch inj kw)
      (nat_ite _ (nat_mem _ (nat_event _ nat_id)) (nat_stmt _ (nat_mem _ (nat_event _ nat_id)))))

theorem nat_syncProg (c id : Nat) : Natural sch inj (syncProg c id) := by
  unfold syncProg
  exact nat_dyn (F := fun s k => if (pendingOf s c id).isEmpty then k
      else .stmt (.update c id (sortAsg (pendingOf s c id))) <| .mem (.synced c id) <| .event 2 k)
    fun s => nat_ite _ nat_id (nat_stmt _ (nat_mem _ (nat_event _ nat_id)))

/-- the body of the set-null pass for one row -/
def nullRowSeg (sch : Schema) (fk : List (Nat × Pol)) (kidx vid : Nat) (r : Row) (acc : Prog) : Prog :=
  .dyn fun s1 =>
    let vs := instVals s1 kidx r.id r.vals
    let clear := (nullCols fk).filter fun j => vs.getD j none == some (Int.ofNat vid)
    setProg sch kidx r.id (clear.map fun j => (j, In.ok none)) [] <|
      (if (clsOf sch kidx).lazy then syncProg kidx r.id acc else acc)

theorem nat_nullRow (fk : List (Nat × Pol)) (kidx vid : Nat) (r : Row) : Natural sch inj (nullRowSeg sch fk kidx vid r) := by
  unfold nullRowSeg
  exact nat_dyn (F := fun s1 k => setProg sch kidx r.id
      ((((nullCols fk).filter fun j => (instVals s1 kidx r.id r.vals).getD j none == some (Int.ofNat vid))).map fun j => (j, In.ok none)) [] <|
      (if (clsOf sch kidx).lazy then syncProg kidx r.id k else k))
    fun s1 => nat_comp (nat_setProg sch inj _ _ _) (nat_ite _ (nat_syncProg sch inj _ _) nat_id)

theorem nullSeg_eq (fk : List (Nat × Pol)) (kidx vid : Nat) (cont : Prog) :
    nullSeg sch fk kidx vid cont =
      if (nullCols fk).isEmpty then cont else
        .stmt (.select kidx) <| .dyn fun s =>
          fetchAll kidx (refRows s fk kidx vid) <| (refRows s fk kidx vid).foldr (nullRowSeg sch fk kidx vid) cont := rfl

theorem nat_null (fk : List (Nat × Pol)) (kidx vid : Nat) : Natural sch inj (nullSeg sch fk kidx vid) := by
  intro k s
  rw [nullSeg_eq, nullSeg_eq]
  exact nat_ite _ nat_id (nat_stmt _ (nat_dyn
    (F := fun s k => fetchAll kidx (refRows s fk kidx vid) <| (refRows s fk kidx vid).foldr (nullRowSeg sch fk kidx vid) k)
    fun s => nat_comp (nat_fetchAll sch inj _ _) (nat_foldr _ (nat_nullRow sch inj fk kidx vid) _))) k s

theorem nat_cascade (rec : Nat → Nat → Prog → Prog) (hrec : ∀ k j, Natural sch inj (rec k j))
    (fk : List (Nat × Pol)) (kidx vid : Nat) : Natural sch inj (cascadeSeg rec fk kidx vid) := by
  unfold cascadeSeg
  exact nat_ite _ (nat_stmt _ (nat_dyn
    (F := fun s k => fetchAll kidx (refRows s fk kidx vid) <| (refRows s fk kidx vid).foldr (fun r acc => rec kidx r.id acc) k)
    fun s => nat_comp (nat_fetchAll sch inj _ _) (nat_foldr (fun (r : Row) acc => rec kidx r.id acc) (fun r => hrec kidx r.id) _))) nat_id

theorem nat_depEntry (rec : Nat → Nat → Prog → Prog) (hrec : ∀ k j, Natural sch inj (rec k j)) (c vid kidx : Nat) :
    Natural sch inj (depEntry rec sch c vid kidx) := by
  unfold depEntry
  exact nat_ite _ (nat_freeLinks sch inj _ _ _)
    (nat_comp (nat_freeLinks sch inj _ _ _) (nat_comp (nat_restrict sch inj _ _ _)
      (nat_comp (nat_null sch inj _ _ _) (nat_cascade sch inj rec hrec _ _ _))))

theorem nat_depLoop (rec : Nat → Nat → Prog → Prog) (hrec : ∀ k j, Natural sch inj (rec k j)) (c id : Nat) (ks : List Nat) :
    Natural sch inj (depLoop rec sch c id ks) :=
  nat_foldr (fun kidx acc => depEntry rec sch c id kidx acc) (fun k => nat_depEntry sch inj rec hrec c id k) ks

theorem nat_destroyTail (c id : Nat) : Natural sch inj (destroyTail c id) :=
  nat_stmt _ (nat_mem _ (nat_mem _ (nat_event _ nat_id)))

/-- one activation of `destroySelf`, the recursive call a parameter -/
def ownProg (rec : Nat → Nat → Prog → Prog) (sch : Schema) (c id : Nat) (ks : List Nat) (k : Prog) : Prog :=
  .event 5 <| ownLinksSeg (clsOf sch c) id <| depLoop rec sch c id ks <| destroyTail c id k

theorem nat_ownProg (rec : Nat → Nat → Prog → Prog) (hrec : ∀ k j, Natural sch inj (rec k j)) (c id : Nat) (ks : List Nat) :
    Natural sch inj (ownProg rec sch c id ks) :=
  nat_event _ (nat_comp (nat_ownLinks sch inj _ _) (nat_comp (nat_depLoop sch inj rec hrec c id ks) (nat_destroyTail sch inj c id)))

theorem destroyProg_succ (fuel c id : Nat) (k : Prog) :
    destroyProg sch (fuel + 1) c id k =
      match (clsOf sch c).parent with
      | some p => destroyProg sch fuel p id (ownProg (destroyProg sch fuel) sch c id (List.range sch.length) k)
      | none => ownProg (destroyProg sch fuel) sch c id (List.range sch.length) k := by
  rw [destroyProg]; rfl

/-- `destroyProg` only uses its continuation — any schema, any fuel -/
theorem nat_destroyProg : ∀ (fuel c id : Nat), Natural sch inj (destroyProg sch fuel c id)
  | 0, c, id => by
    have : destroyProg sch 0 c id = fun _ => .fail .recursion := by funext k; rw [destroyProg]
    rw [this]; exact nat_fail _
  | fuel + 1, c, id => by
    have ih := nat_destroyProg fuel
    have hown := nat_ownProg sch inj (destroyProg sch fuel) (fun k j => ih k j) c id (List.range sch.length)
    intro k s
    rw [destroyProg_succ, destroyProg_succ]
    cases (clsOf sch c).parent with
    | none => exact hown k s
    | some p => exact nat_comp (ih p id) hown k s

end segs

/-! ### the loop over the whole registry = the loop over the dependent classes -/

theorem depEntry_nondep (rec : Nat → Nat → Prog → Prog) (sch : Schema) (c id k : Nat) (acc : Prog)
    (h : (!(fkCols (clsOf sch k).cols c).isEmpty || (clsOf sch k).joins.any fun j => j.other == c) = false) :
    depEntry rec sch c id k acc = acc := by
  simp only [Bool.or_eq_false_iff, Bool.not_eq_false', List.any_eq_false, beq_iff_eq] at h
  unfold depEntry
  simp only [h.1, if_true, freeLinksSeg]
  have : (clsOf sch k).joins.filter (fun j => j.other == c) = [] := by
    rw [List.filter_eq_nil_iff]
    intro j hj; simpa using h.2 j hj
  rw [this]; rfl

theorem depLoop_filter (rec : Nat → Nat → Prog → Prog) (sch : Schema) (c id : Nat) (cont : Prog) (ks : List Nat) :
    depLoop rec sch c id (ks.filter fun k =>
        !(fkCols (clsOf sch k).cols c).isEmpty || (clsOf sch k).joins.any fun j => j.other == c) cont =
      depLoop rec sch c id ks cont := by
  induction ks with
  | nil => rfl
  | cons k ks ih =>
    unfold depLoop at ih ⊢
    by_cases h : (!(fkCols (clsOf sch k).cols c).isEmpty || (clsOf sch k).joins.any fun j => j.other == c) = true
    · simp only [List.filter_cons, h, if_true, List.foldr_cons]
      rw [ih]
    · have h' := Bool.eq_false_iff.mpr h
      simp only [List.filter_cons, h', Bool.false_eq_true, if_false, List.foldr_cons]
      rw [ih, depEntry_nondep rec sch c id k _ h']

theorem depLoop_dependents (rec : Nat → Nat → Prog → Prog) (sch : Schema) (c id : Nat) (cont : Prog) :
    depLoop rec sch c id (dependentsF sch c) cont = depLoop rec sch c id (List.range sch.length) cont :=
  depLoop_filter rec sch c id cont _

theorem ownProg_dependents (rec : Nat → Nat → Prog → Prog) (sch : Schema) (c id : Nat) (k : Prog) :
    ownProg rec sch c id (dependentsF sch c) k = ownProg rec sch c id (List.range sch.length) k := by
  unfold ownProg; rw [depLoop_dependents]

/-- the fetch pass of a loop entry -/
theorem run_fetchAll (sch inj) (kidx : Nat) (rows : List Row) (k : Prog) (s : St) :
    run sch inj (fetchAll kidx rows k) s = run sch inj k (fetchRows kidx rows s) := by
  unfold fetchAll fetchRows
  induction rows generalizing s with
  | nil => rfl
  | cons r rows ih => simp only [List.foldr_cons, List.foldl_cons, run_mem]; exact ih _

end SqlObjVerif.FailDX
