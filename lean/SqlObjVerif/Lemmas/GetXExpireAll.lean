import SqlObjVerif.Lemmas.GetXLoops
import SqlObjVerif.Lemmas.GetXPaths
set_option linter.unusedSimpArgs false
namespace SqlObjVerif.Cache
open SqlObjVerif.PyGet
open SqlObjVerif.PyGet.Extracted

macro "xrun" : tactic => `(tactic|
  simp [PyGet.run, Block.exec, Stmt.exec, Cond.eval, Expr.eval, evalList, evalOpt, eval2, afterCall, St.setVar, St.setOpt,
        St.setAll, Env.get, Res.toCall, pyBool, zipKw, Val.isNone, ExcPat.catches, toList_ofList,
        soIface, soAttr, soSetAttr, soCall, connCall, knownOpaque, noExt, ext3, VcacheSet, Vconn, VnewLock, Vcols, Vrow,
        Vpickle, optV, Vsr, getCall_conn_sr, getCall_sr_conn, getCall_sr, getCall_conn, *])

theorem soIface_self (v : Val) (ext) : (soIface v ext).self = v := rfl
theorem soIface_attrOf (v : Val) (ext) : (soIface v ext).attrOf = soAttr := rfl
theorem soIface_call (v : Val) (ext) : (soIface v ext).call = soCall ext := rfl
theorem soIface_truthy_ref (v : Val) (ext) (w : GW) (k : String) (i : Nat) : (soIface v ext).truthy w (.ref k i) = some true := rfl

macro "yrun" : tactic => `(tactic|
  simp [PyGet.run, Block.exec, Stmt.exec, Cond.eval, Expr.eval, evalList, evalOpt, eval2, afterCall, St.setVar, St.setOpt,
        St.setAll, Env.get, Res.toCall, pyBool, zipKw, Val.isNone, toList_ofList,
        soIface_self, soIface_attrOf, soIface_call, soIface_truthy_ref, soAttr, soCall, VcacheSet, Vconn, *])

/-- `cls.delete(id, connection)` = `cls.get(id, connection=connection)`, then `destroySelf()` of what it returned
    (`destroy`: the cascade is C12's subject; its tail is `C04_translated_destroy_tail_eq_model`) -/
theorem deleteG_eq (destroy : GW → Handle → CallRes GW) (w : GW) (c : Cls) (k : Id) (conn : Val) :
    (∀ W h, getG w c k conn .none = .ret W (.obj h) → deleteG destroy w c k conn = CallRes.unit (destroy W h)) ∧
    (∀ W e, getG w c k conn .none = .exc W e → deleteG destroy w c k conn = .exc W e) := by
  unfold deleteG deleteProg delete_nlocals
  constructor
  · intro W h hg
    xrun
    cases destroy W h <;> rfl
  · intro W e hg
    xrun

/-- a loop `for item in <list>: item.expire()`, unrolled -/
def expireFold : List Handle → GW → CallRes GW
  | [], w => .ret w .none
  | h :: hs, w => match expireCall w h with
    | .ret w' _ => expireFold hs w'
    | r => r

theorem loop_expire (I : Iface GW) (hI : ∀ w h, I.call w (.obj h) "expire" [] [] = expireCall w h)
    (x : Nat) (hs : List Handle) (w : GW) (vars : List (Option Val)) (hx : x < vars.length) :
    (match expireFold hs w with
     | .ret w' _ => ∃ vars', PyGet.forLoop (fun st v => (Block.cons (.call none (.var x) "expire" [] [] []) .nil).exec I (st.setVar x v))
          (hs.map Val.obj) ⟨w, vars⟩ = .norm ⟨w', vars'⟩
     | .exc w' e => ∃ vars', PyGet.forLoop (fun st v => (Block.cons (.call none (.var x) "expire" [] [] []) .nil).exec I (st.setVar x v))
          (hs.map Val.obj) ⟨w, vars⟩ = .exc ⟨w', vars'⟩ e
     | .stuck => PyGet.forLoop (fun st v => (Block.cons (.call none (.var x) "expire" [] [] []) .nil).exec I (st.setVar x v))
          (hs.map Val.obj) ⟨w, vars⟩ = .stuck) := by
  induction hs generalizing w vars with
  | nil => exact ⟨vars, rfl⟩
  | cons h hs ih =>
    simp only [expireFold, List.map_cons, PyGet.forLoop]
    have hget : Env.get (vars.set x (some (Val.obj h))) x = some (Val.obj h) := by
      simp [Env.get, hx]
    have hb : (Block.cons (.call none (.var x) "expire" [] [] []) .nil).exec I
        (St.setVar ⟨w, vars⟩ x (Val.obj h)) =
        (match expireCall w h with
         | .ret w' _ => .norm ⟨w', vars.set x (some (Val.obj h))⟩
         | .exc w' e => .exc ⟨w', vars.set x (some (Val.obj h))⟩ e
         | .stuck => .stuck) := by
      simp only [Block.exec, Stmt.exec, Expr.eval, evalList, afterCall, St.setVar, St.setOpt, zipKw, hget, hI]
      cases expireCall w h <;> rfl
    rw [hb]
    cases hf : expireCall w h with
    | ret w' v => simp only; exact ih w' _ (by simpa using hx)
    | exc w' e => exact ⟨_, rfl⟩
    | stuck => rfl

/-- between calls, after `weakrefAll`: no lock held, nothing strongly cached -/
structure Quiet (w : GW) : Prop where
  wf : w.WF
  lock : ∀ c, w.lock c = false
  wlock : ∀ h, w.wlock h = false
  nostrong : ∀ c, (w.s.fac c).strong = []

theorem expireOne_fac (s : State) (h : Handle) (c : Cls) :
    (expireOne s h).fac c =
      if c = (s.obj h).cls then { s.fac c with strong := aerase (s.obj h).id (s.fac c).strong,
                                               weak := aerase (s.obj h).id (s.fac c).weak }
      else s.fac c := by
  unfold expireOne
  rw [purge_eq]
  simp only [setFac, setObj, upd]
  split
  · rename_i hc; subst hc; rfl
  · rfl

theorem quiet_expire {w : GW} (q : Quiet w) (h : Handle) :
    Quiet { w with s := expireOne w.s h, dirty := upd w.dirty h false } := by
  refine ⟨?_, q.lock, q.wlock, ?_⟩
  · intro c hc
    refine ⟨?_, (q.wf c hc).2⟩
    show (expireOne w.s h).fac c = emptyFactory
    rw [expireOne_fac]
    split
    · simp [(q.wf c hc).1, emptyFactory, aerase]
    · exact (q.wf c hc).1
  · intro c
    show ((expireOne w.s h).fac c).strong = []
    rw [expireOne_fac]
    split
    · simp [q.nostrong c, aerase]
    · exact q.nostrong c

theorem expireCall_quiet {w : GW} (q : Quiet w) (h : Handle) :
    expireCall w h = .ret { w with s := expireOne w.s h, dirty := upd w.dirty h false } .none := by
  have := expireG_eq w h q.wf (q.lock _) (q.wlock h) (fun _ => q.nostrong _)
    (by intro e he; rw [q.nostrong] at he; cases he)
  unfold expireG at this
  unfold expireCall
  rw [this]
  rfl

theorem expireFold_quiet (hs : List Handle) {w : GW} (q : Quiet w) :
    expireFold hs w = .ret { w with s := hs.foldl expireOne w.s,
                                    dirty := hs.foldl (fun d h => upd d h false) w.dirty } .none := by
  induction hs generalizing w with
  | nil => rfl
  | cons h hs ih =>
    simp only [expireFold, expireCall_quiet q h, List.foldl_cons]
    exact ih (quiet_expire q h)

/-- `connection.expireAll()`: `cache.weakrefAll()` = the model's `weakrefAll`, then `item.expire()` = the model's
    `expireOne` for every instance `cache.getAll()` lists (per class in dict order: the live, truthy weak entries) -/
theorem connExpireAllG_eq (w : GW) (hwf : w.WF) (hl : ∀ c, w.lock c = false) (hwl : ∀ h, w.wlock h = false)
    (hr : NoRel w.s) (hnc : w.s.cfg.doCache = false → ∀ c, (w.s.fac c).strong = []) :
    connExpireAllG w =
      let W1 : GW := { w with s := weakrefAll w.s }
      let items := W1.made.flatMap (facObjs W1)
      .ret { W1 with s := items.foldl expireOne W1.s, dirty := items.foldl (fun d h => upd d h false) w.dirty } .none := by
  have h1 := csWeakrefAll_all w hwf hl hr
  have h2 := csGetAll_all { w with s := weakrefAll w.s }
  have q : Quiet { w with s := weakrefAll w.s } := by
    refine ⟨?_, hl, hwl, ?_⟩
    · intro c hc
      refine ⟨?_, (hwf c hc).2⟩
      show (weakrefAll w.s).fac c = emptyFactory
      unfold weakrefAll
      split
      · simp [(hwf c hc).1, emptyFactory, asetAll]
      · exact (hwf c hc).1
    · intro c
      show ((weakrefAll w.s).fac c).strong = []
      unfold weakrefAll
      cases hd : w.s.cfg.doCache with
      | true => simp
      | false => simpa using hnc hd c
  have h3 := loop_expire (soIface Vconn (ext3 (fun _ _ => .stuck)))
    (by intro w h; simp [soIface, soCall, ext3])
    1 ((w.made.flatMap (facObjs { w with s := weakrefAll w.s }))) { w with s := weakrefAll w.s }
    [some VcacheSet, none, some (Val.ofList ((w.made.flatMap (facObjs { w with s := weakrefAll w.s })).map Val.obj))]
    (by simp)
  rw [expireFold_quiet _ q] at h3
  obtain ⟨vars', h3⟩ := h3
  rw [← show connExpireAll_loop0 = Block.cons (.call none (.var 1) "expire" [] [] []) .nil from rfl] at h3
  simp only [St.setVar, VcacheSet, Vconn] at h3
  unfold connExpireAllG connExpireAllProg connExpireAll_nlocals
  yrun

end SqlObjVerif.Cache
