import SqlObjVerif.Lemmas.CodecWSet
/-!
# CodecW — the translated `_SO_setValue` on a lazy class and the translated `syncUpdate`
-/
namespace SqlObjVerif.CodecW
open SqlObjVerif.Codec (PyVal ColT DbVal)
open SqlObjVerif.PyMainV
open SqlObjVerif.PyMainV.Extracted

/-- the instance after a deferred write of column `c`: database-side value pending, converted value cached, dirty -/
def pendObj (creating : Bool) (vals : Nat → Option PyVal) (c : Nat) (y wc : PyVal) : Obj :=
  { vals := fun k => if k = c then some wc else vals k, createValues := [(c, y)], expired := false, dirty := true,
    creating := creating, obsolete := false, sigSuppress := false, inCache := true, lock := false }

theorem setValueX_lazy (C : Cls) (vals : Nat → Option PyVal) (g : Row) (c : Nat) (v y wc : PyVal) (hc : c < C.n)
    (hl : C.lazyUpdate = true) (he : (klassOf C).enc c v = .ok y) (hd : (klassOf C).dec c y = .ok wc) :
    setValueX C (worldOf C (objOf vals) g) c v = .ret (worldOf C (pendObj false vals c y wc) g) .none := by
  have h1 := k_hasTo C c hc
  have h2 := k_ncols C
  have h3 := k_lazy C
  unfold setValueX setValueProg setValue_nlocals setValue_nlists setValue_ndicts worldOf objOf
  pvrun
  simp [worldOf, pendObj]

/-- the flush of the pending write -/
def flushOut (C : Cls) (vals : Nat → Option PyVal) (g : Row) (c : Nat) (y wc : PyVal) : Codec.Res Row → Outcome Row
  | .ok g' => .ret (worldOf C (objOf fun k => if k = c then some wc else vals k) g') .none
  | .unmodelled => .unmodelled
  | _ => .exc (worldOf C (pendObj false vals c y wc) g) .dbError

theorem syncUpdateX_pend (C : Cls) (vals : Nat → Option PyVal) (g : Row) (c : Nat) (y wc : PyVal) (hc : c < C.n) :
    syncUpdateX C (worldOf C (pendObj false vals c y wc) g) = flushOut C vals g c y wc (applyUpd C g [(c, y)]) := by
  have h2 := k_ncols C
  have h5 := conn_upd C
  have hn : C.n ≠ 0 := by omega
  unfold syncUpdateX syncUpdateProg syncUpdate_nlocals syncUpdate_nlists syncUpdate_ndicts worldOf pendObj
  cases hu : applyUpd C g [(c, y)] <;> pvrun <;> simp [flushOut, worldOf, objOf, pendObj]

end SqlObjVerif.CodecW
