import SqlObjVerif.Lemmas.FailChain
namespace SqlObjVerif.Fail

/-! ## the same with an error injected at one statement `J` of the operation -/

/-- the INSERT of `(pid, vals)` into table `c` is accepted on core `K` -/
def insertOk (sch : Schema) (K : Core) (c pid : Nat) (vals : List Val) : Bool :=
  !((K.tabs.getD c []).any fun r => r.id == pid) &&
    (reject (clsOf sch c).cols (K.tabs.getD c []) pid (enum vals)).isNone

theorem exec_insert_ok (sch : Schema) (c : Nat) (id? : Option Nat) (vals : List Val) (s : St)
    (h : insertOk sch s.core c (id?.getD (s.seqs.getD c 0 + 1)) vals = true) :
    ∃ s2, exec sch (.insert c id? vals) s = .ok s2 := by
  simp only [insertOk, Bool.and_eq_true, Bool.not_eq_true', Option.isNone_iff_eq_none] at h
  unfold exec
  simp only [St.tab, h.1, Bool.false_eq_true, if_false, h.2]
  exact ⟨_, rfl⟩

theorem hit_eq_of_some {inj : Option Inj} {J n : Nat} (hJ : ∀ n, n ≠ J → hit inj n = none) {e : Err}
    (h : hit inj n = some e) : n = J := by
  by_cases hn : n = J
  · exact hn
  · rw [hJ n hn] at h; cases h

theorem run_childBody_J (sch inj) (J : Nat) (hJ : ∀ n, n ≠ J → hit inj n = none) (c pid : Nat)
    (kw : List (Nat × In)) (s : St)
    (hv : s.n + 1 ≤ J → allOk kw = true)
    (ha : s.n + 1 < J → insertOk sch s.core c pid (valsOf (clsOf sch c).cols.length (asgOf kw)) = true)
    (hs : s.n + 2 ≠ J) :
    (∃ s1 e, run sch inj (childBody sch c pid kw) s = (s1, some e) ∧ s1.core = s.core ∧ J ≤ s1.n) ∨
    (∃ s1, run sch inj (childBody sch c pid kw) s = (s1, none) ∧
      s1.core = mkLevel s.core c pid (valsOf (clsOf sch c).cols.length (asgOf kw)) ∧
      (∀ row ∈ s.core.tabs.getD c [], (row.id != pid) = true) ∧ s1.n = s.n + 2) := by
  unfold childBody
  rw [run_validates]
  split
  · simp only [run]
    cases hh : hit inj (s.n + 1) with
    | some e0 =>
      have := hit_eq_of_some hJ hh
      exact .inl ⟨_, e0, rfl, rfl, by simp; omega⟩
    | none =>
      simp only
      rcases exec_insert_cases sch c (some pid) _ { s with n := s.n + 1, log := _ :: s.log } with ⟨e, he⟩ | ⟨s2, he, hc, _, hn2, hrows⟩
      · rw [he]
        refine .inl ⟨_, e, rfl, rfl, ?_⟩
        by_cases hlt : s.n + 1 < J
        · obtain ⟨s2, hok⟩ := exec_insert_ok sch c (some pid) _ { s with n := s.n + 1, log := _ :: s.log } (ha hlt)
          rw [hok] at he; cases he
        · simp; omega
      · rw [he]
        have hsel : hit inj (s2.n + 1) = none := hJ _ (by rw [hn2]; simpa using hs)
        simp only [exec, bump_n, hsel]
        refine .inr ⟨_, rfl, ?_, hrows, ?_⟩
        · simp only [bump_core, hc, mkLevel, Option.getD_some]
        · simp only [bump_n, hn2]
  · rename_i hbad
    refine .inl ⟨s, .invalid, rfl, rfl, ?_⟩
    by_cases hle : s.n + 1 ≤ J
    · exact absurd (hv hle) hbad
    · omega

theorem run_create_root_J (sch inj) (J : Nat) (hJ : ∀ n, n ≠ J → hit inj n = none) (r : Nat)
    (kw : List (Nat × In)) (k : Nat → Prog) (s : St)
    (hv : s.n + 1 ≤ J → allOk kw = true)
    (ha : s.n + 1 < J → insertOk sch s.core r (s.seqs.getD r 0 + 1) (valsOf (clsOf sch r).cols.length (asgOf kw)) = true)
    (hs : s.n + 2 ≠ J) :
    (∃ s1 e, run sch inj (createProg sch r none false kw [] k) s = (s1, some e) ∧ s1.core = s.core ∧ J ≤ s1.n) ∨
    (∃ s1, run sch inj (createProg sch r none false kw [] k) s = run sch inj (k (s.seqs.getD r 0 + 1)) s1 ∧
      s1.core = mkLevel s.core r (s.seqs.getD r 0 + 1) (valsOf (clsOf sch r).cols.length (asgOf kw)) ∧
      (∀ row ∈ s.core.tabs.getD r [], (row.id != s.seqs.getD r 0 + 1) = true) ∧ s1.n = s.n + 2) := by
  unfold createProg
  simp only [run, run_validates, Bool.false_eq_true, if_false]
  split
  · simp only [run_precheck, hasUnknown, List.any_nil, Bool.false_eq_true, if_false, run_extrasPure, extrasErr, run]
    cases hh : hit inj (s.n + 1) with
    | some e0 =>
      have := hit_eq_of_some hJ hh
      exact .inl ⟨_, e0, rfl, rfl, by simp; omega⟩
    | none =>
      simp only
      rcases exec_insert_cases sch r none _ { s with n := s.n + 1, log := _ :: s.log } with ⟨e, he⟩ | ⟨s2, he, hc, hl, hn2, hrows⟩
      · rw [he]
        refine .inl ⟨_, e, rfl, rfl, ?_⟩
        by_cases hlt : s.n + 1 < J
        · obtain ⟨s2, hok⟩ := exec_insert_ok sch r none _ { s with n := s.n + 1, log := _ :: s.log } (ha hlt)
          rw [hok] at he; cases he
        · simp; omega
      · rw [he]
        have hsel : hit inj (s2.n + 1) = none := hJ _ (by rw [hn2]; simpa using hs)
        simp only [exec, bump_lastId, hl, Option.getD_none, bump_n, hsel]
        refine .inr ⟨_, rfl, ?_, hrows, ?_⟩
        · simp only [bump_core, hc, mkLevel, Option.getD_none]
        · simp only [bump_n, hn2]
  · rename_i hbad
    refine .inl ⟨s, .invalid, rfl, rfl, ?_⟩
    by_cases hle : s.n + 1 ≤ J
    · exact absurd (hv hle) hbad
    · omega


/-- per level (leaf first; `n0` = statements sent before the operation): a level whose INSERT comes
    before statement `J` has valid values and its INSERT is accepted; the level whose INSERT is
    statement `J` has valid values; `J` is no read-back SELECT -/
def LvOK (sch : Schema) (K : Core) (pid n0 J : Nat) : List (Nat × List (Nat × In)) → Prop
  | [] => True
  | (c, kw) :: anc => LvOK sch K pid n0 J anc ∧
      (n0 + 2 * anc.length + 1 ≤ J → allOk kw = true) ∧
      (n0 + 2 * anc.length + 1 < J → insertOk sch K c pid (valsOf (clsOf sch c).cols.length (asgOf kw)) = true) ∧
      n0 + 2 * anc.length + 2 ≠ J

theorem insertOk_congr (sch : Schema) (K K' : Core) (c pid : Nat) (vals : List Val)
    (h : K'.tabs.getD c [] = K.tabs.getD c []) : insertOk sch K' c pid vals = insertOk sch K c pid vals := by
  unfold insertOk; rw [h]

theorem createInh_casesJ (sch : Schema) (inj : Option Inj) (J : Nat) (hJ : ∀ n, n ≠ J → hit inj n = none) (fuel : Nat) :
    ∀ (L : List (Nat × List (Nat × In))), L ≠ [] → Chain sch (L.map (·.1)) → (L.map (·.1)).Nodup →
      (∀ x ∈ L.map (·.1), NoDepsB sch x = true) → L.length ≤ fuel →
    ∀ (k : Nat → Prog) (s : St),
      (∀ t ∈ L.map (·.1), t < s.core.tabs.length ∧ FreshIR s.core t (s.seqs.getD (rootOf L) 0 + 1)) →
      LvOK sch s.core (s.seqs.getD (rootOf L) 0 + 1) s.n J L →
      (∃ s1 e, run sch inj (createInh sch fuel L k) s = (s1, some e) ∧ s1.core = s.core) ∨
      (∃ s1, run sch inj (createInh sch fuel L k) s = run sch inj (k (s.seqs.getD (rootOf L) 0 + 1)) s1 ∧
        Near s1.core s.core (s.seqs.getD (rootOf L) 0 + 1) (· ∈ L.map (·.1)) (· ∈ L.map (·.1)) (· ∈ L.map (·.1)) ∧
        (∀ t ∈ L.map (·.1), Fresh0 s.core t (s.seqs.getD (rootOf L) 0 + 1)) ∧ s1.n = s.n + 2 * L.length) := by
  intro L
  induction L with
  | nil => intro h; exact absurd rfl h
  | cons a rest ih =>
    intro _ hch hnd hdeps hlen k s hfr hok
    obtain ⟨c, kw⟩ := a
    cases rest with
    | nil =>
      have hc := hfr c (by simp)
      simp only [LvOK, List.length_nil, Nat.mul_zero, Nat.add_zero, true_and] at hok
      rw [show createInh sch fuel [(c, kw)] k = createProg sch c none false kw [] k by rw [createInh]]
      rcases run_create_root_J sch inj J hJ c kw k s hok.1 hok.2.1 hok.2.2 with ⟨s1, e, h1, hc1, _⟩ | ⟨s1, h1, hc1, hrows, hn1⟩
      · exact .inl ⟨s1, e, h1, hc1⟩
      · have hf0 : Fresh0 s.core c (s.seqs.getD c 0 + 1) := ⟨hrows, hc.2.1, hc.2.2⟩
        refine .inr ⟨s1, h1, ?_, ?_, by simpa using hn1⟩
        · rw [hc1]
          exact near_mono (near_mk c _ (near_refl s.core _) hf0 hc.1)
            (fun x hx => by simpa using hx) (fun x hx => by simpa using hx) (fun x hx => by simpa using hx)
        · intro t ht
          simp at ht; subst ht; exact hf0
    | cons b rest' =>
      obtain ⟨p, pkw⟩ := b
      simp only [List.map_cons, Chain] at hch
      have hroot : rootOf ((c, kw) :: (p, pkw) :: rest') = rootOf ((p, pkw) :: rest') := rfl
      rw [hroot] at hfr hok ⊢
      rw [createInh_step]
      have hnd' : c ∉ ((p, pkw) :: rest').map (·.1) ∧ (((p, pkw) :: rest').map (·.1)).Nodup :=
        List.nodup_cons.mp hnd
      have hcnot := hnd'.1
      have hanc := ih (by simp) (by simpa using hch.2) hnd'.2
        (fun x hx => hdeps x (by simp at hx ⊢; exact .inr hx))
        (by simp at hlen ⊢; omega)
        (fun pid => .guard (childBody sch c pid kw) (destroyProg sch fuel p pid (drops ((p, pkw) :: rest') pid)) (k pid))
        s (fun t ht => hfr t (by simp at ht ⊢; exact .inr ht)) hok.1
      generalize s.seqs.getD (rootOf ((p, pkw) :: rest')) 0 + 1 = pid at hanc hfr hok ⊢
      rcases hanc with ⟨s1, e, h1, hc1⟩ | ⟨s1, h1, hnear, hfresh, hn1⟩
      · exact .inl ⟨s1, e, h1, hc1⟩
      · rw [h1]
        simp only [run]
        have hcfr := hfr c (by simp)
        have htab : s1.core.tabs.getD c [] = s.core.tabs.getD c [] := by
          obtain ⟨ex, hex, _, hne⟩ := hnear.tabs c
          have : ex = [] := by
            cases ex with
            | nil => rfl
            | cons a l => exact absurd (hne (by simp)) hcnot
          rw [hex, this, List.append_nil]
        rcases run_childBody_J sch inj J hJ c pid kw s1
            (by rw [hn1]; exact hok.2.1)
            (by rw [hn1, insertOk_congr sch s.core s1.core c pid _ htab]; exact hok.2.2.1)
            (by rw [hn1]; exact hok.2.2.2) with ⟨s2, e, h2, hc2, hJle⟩ | ⟨s2, h2, hc2, hrows, hn2⟩
        · left
          rw [h2]
          simp only
          have hdc := destroy_chain sch pid
            (((p, pkw) :: rest').map (·.1)) fuel (drops ((p, pkw) :: rest') pid) (by simp)
            (by simpa using hch.2) (fun x hx => hdeps x (by simp at hx ⊢; exact .inr hx)) (by simp at hlen ⊢; omega)
          rw [show (((p, pkw) :: rest').map (·.1)).head! = p from rfl] at hdc
          rw [hdc]
          obtain ⟨s3, h3, hc3, _⟩ := run_tails sch inj pid (((p, pkw) :: rest').map (·.1)) (drops ((p, pkw) :: rest') pid) s2
            (fun n hn => hJ n (by omega))
          obtain ⟨s4, h4, hc4⟩ := run_drops sch inj pid ((p, pkw) :: rest') s3
          rw [h3]
          unfold drops
          rw [h4]
          refine ⟨s4, e, rfl, ?_⟩
          rw [hc4, hc3, hc2]
          exact restore _ hnear (fun t ht => ⟨hfresh t ht, (hfr t (by simp at ht ⊢; exact .inr ht)).1⟩)
        · right
          rw [h2]
          simp only
          have hf0 : Fresh0 s.core c pid := by
            refine ⟨?_, hcfr.2.1, hcfr.2.2⟩
            intro row hrow
            exact hrows row (by rw [htab]; exact hrow)
          refine ⟨s2, rfl, ?_, ?_, ?_⟩
          · rw [hc2]
            exact near_mono (near_mk c _ hnear hf0 (by rw [hnear.len]; exact hcfr.1))
              (fun x hx => by simp at hx ⊢; exact hx.symm) (fun x hx => by simp at hx ⊢; exact hx.symm)
              (fun x hx => by simp at hx ⊢; exact hx.symm)
          · intro t ht
            simp at ht
            rcases ht with rfl | ht
            · exact hf0
            · exact hfresh t (by simp; exact ht)
          · rw [hn2, hn1]; simp; omega

end SqlObjVerif.Fail
