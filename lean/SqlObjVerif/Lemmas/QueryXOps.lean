import SqlObjVerif.Lemmas.QueryXInit
/-!
# C11 — the translated chainable methods, `getOne`, `__iter__` / `lazyIter`, `accumulate` of `SelectResults`

Each theorem is generic in the interface: it says which call of another method the translated function makes (the
chain theorems of `Lemmas/QueryXChain.lean` resolve these calls with the translated callees).
-/
namespace SqlObjVerif.QueryX
open SqlObjVerif.PyQ
open SqlObjVerif.PyQ.Extracted

section
variable (I : Iface)

/-- `_getConnection`: the explicit connection if there is a true one, else the class's -/
theorem getConnection_translated (sch : Schema) (P : Params) fnRec cm cv (c : String) (fs : List (String × Val))
    (d : List (Str × Val)) (hops : aget "ops" fs = some (.dict d)) (hsc : aget "sourceClass" fs = some clsV) :
    getConnectionX (qIface sch P fnRec cm cv) (.obj c fs) =
      .ret (if truthy ((aget kConnection d).getD .none) = true then (aget kConnection d).getD .none else P.conn) := by
  unfold getConnectionX run srGetConnection srGetConnection_s0
  by_cases h : truthy ((aget kConnection d).getD .none) = true <;> simp only [kConnection] at h <;> pyqw [h, kConnection]

/-- `clone(**newOps)` = `self.__class__(self.sourceClass, self.clause, self.clauseTables, **{**self.ops, **newOps})` -/
theorem clone_translated (sc cl ct ts : Val) (d newOps : List (Str × Val)) :
    cloneX I (srObj sc cl (.dict d) ct ts) newOps =
      ofR (I.callMethod (srObj sc cl (.dict d) ct ts) "__class__" [sc, cl, ct] (aupdate d newOps)) := by
  unfold cloneX run srClone srClone_s0 srClone_s1 srClone_s2 srObj
  pyqw [mutateOf, rebind]
  cases I.callMethod _ "__class__" [sc, cl, ct] (aupdate d newOps) <;> simp [ofR]

theorem orderBy_translated (self o : Val) (c : String) (fs : List (String × Val)) (hs : self = .obj c fs) :
    orderByX I self o = ofR (I.callMethod self "clone" [] [(kOrderBy, o)]) := by
  subst hs
  unfold orderByX run srOrderBy srOrderBy_s0
  pyqw [kOrderBy]
  cases I.callMethod _ "clone" [] _ <;> simp [ofR]

theorem reversed_translated (sc cl ct ts : Val) (d : List (Str × Val)) :
    reversedX I (srObj sc cl (.dict d) ct ts) =
      ofR (I.callMethod (srObj sc cl (.dict d) ct ts) "clone" [] [(kReversed, .bool (!truthy ((aget kReversed d).getD (.bool false))))]) := by
  unfold reversedX run srReversed srReversed_s0 srObj
  pyqw [kReversed]
  cases I.callMethod _ "clone" [] _ <;> simp [ofR]

theorem distinct_translated (self : Val) (c : String) (fs : List (String × Val)) (hs : self = .obj c fs) :
    distinctX I self = ofR (I.callMethod self "clone" [] [(kDistinct, .bool true)]) := by
  subst hs
  unfold distinctX run srDistinct srDistinct_s0
  pyqw [kDistinct]
  cases I.callMethod _ "clone" [] _ <;> simp [ofR]

theorem newClause_translated (sc cl ct ts c' : Val) (d : List (Str × Val)) :
    newClauseX I (srObj sc cl (.dict d) ct ts) c' =
      ofR (I.callMethod (srObj sc cl (.dict d) ct ts) "__class__" [sc, c', ct] d) := by
  unfold newClauseX run srNewClause srNewClause_s0 srObj
  pyq
  cases I.callMethod _ "__class__" _ d <;> simp [ofR]

/-- `filter(None)` is `self`; otherwise `self.newClause(AND(self.clause, c))` (the clause is an expression object) -/
theorem filter_translated (sch : Schema) (P : Params) fnRec cm cv (sc cl ct ts c' : Val) (d : List (Str × Val))
    (hcl : isStrV cl = false) :
    filterX (qIface sch P fnRec cm cv) (srObj sc cl (.dict d) ct ts) c' =
      if isNoneV c' = true then .ret (srObj sc cl (.dict d) ct ts)
      else ofR ((fnRec "AND" [cl, c'] []).bind fun a => cm (srObj sc cl (.dict d) ct ts) "newClause" [a] []) := by
  unfold filterX run srFilter srFilter_s0 srFilter_s1 srFilter_s2 srFilter_s3 srObj
  by_cases h : isNoneV c' = true
  · pyqw [h]
  · pyqw [h, hcl]
    cases fnRec "AND" [cl, c'] [] <;> simp [ofR]
    cases cm _ "newClause" _ [] <;> simp [ofR]

theorem accumulateOne_translated (self f a : Val) (c : String) (fs : List (String × Val)) (hs : self = .obj c fs) :
    accumulateOneX I self f a = ofR (I.callMethod self "accumulateMany" [.tuple [f, a]] []) := by
  subst hs
  unfold accumulateOneX run srAccumulateOne srAccumulateOne_s0
  pyq
  cases I.callMethod _ "accumulateMany" _ [] <;> simp [ofR]

theorem sum_translated (self a : Val) (c : String) (fs : List (String × Val)) (hs : self = .obj c fs) :
    sumX I self a = ofR (I.callMethod self "accumulateOne" [.str ['S', 'U', 'M'], a] []) := by
  subst hs
  unfold sumX run srSum srSum_s0
  pyq
  cases I.callMethod _ "accumulateOne" _ [] <;> simp [ofR]

theorem min_translated (self a : Val) (c : String) (fs : List (String × Val)) (hs : self = .obj c fs) :
    minX I self a = ofR (I.callMethod self "accumulateOne" [.str ['M', 'I', 'N'], a] []) := by
  subst hs
  unfold minX run srMin srMin_s0
  pyq
  cases I.callMethod _ "accumulateOne" _ [] <;> simp [ofR]

theorem max_translated (self a : Val) (c : String) (fs : List (String × Val)) (hs : self = .obj c fs) :
    maxX I self a = ofR (I.callMethod self "accumulateOne" [.str ['M', 'A', 'X'], a] []) := by
  subst hs
  unfold maxX run srMax srMax_s0
  pyq
  cases I.callMethod _ "accumulateOne" _ [] <;> simp [ofR]

theorem avg_translated (self a : Val) (c : String) (fs : List (String × Val)) (hs : self = .obj c fs) :
    avgX I self a = ofR (I.callMethod self "accumulateOne" [.str ['A', 'V', 'G'], a] []) := by
  subst hs
  unfold avgX run srAvg srAvg_s0
  pyq
  cases I.callMethod _ "accumulateOne" _ [] <;> simp [ofR]

theorem lazyIter_translated (self : Val) (c : String) (fs : List (String × Val)) (hs : self = .obj c fs) :
    lazyIterX I self = ofR ((I.callMethod self "_getConnection" [] []).bind fun conn => methodOf I conn "iterSelect" [self] []) := by
  subst hs
  unfold lazyIterX run srLazyIter srLazyIter_s0 srLazyIter_s1
  cases h : I.callMethod (.obj c fs) "_getConnection" [] [] with
  | ok conn =>
    pyqw [h]
    cases methodOf I conn "iterSelect" _ [] <;> simp [ofR]
  | exc e => pyqw [h, ofR]
  | stuck => pyqw [h, ofR]

/-- the hand model's outcomes of `getOne` as outcomes of the interpreter -/
def oneOut (dflt : Val) : Query.OneRes Val → Out
  | .value x => .ret x
  | .default => .ret dflt
  | .notFound => .exc .notFound
  | .integrity => .exc .integrityError
  | .pyNone => .ret .none
  | .indexError => .exc .indexError
  | .typeError => .exc .typeError

/-- **`getOne` = `Query.getOne`** on the list `list(self)` gives -/
theorem getOne_translated (self dflt : Val) (c : String) (fs : List (String × Val)) (hs : self = .obj c fs)
    (l : List Val) (hl : I.fn "list" [self] [] = .ok (.list l)) :
    getOneX I self dflt = oneOut dflt (Query.getOne (!isGlobV "NoDefault" dflt) l) := by
  subst hs
  unfold getOneX run srGetOne srGetOne_s0 srGetOne_s1 srGetOne_s2 srGetOne_s3 srGetOne_s4
  have e : Query.Extracted.getOneBranches = [(.empty, .defaultOrNotFound), (.lenGt 1, .integrityError), (.always, .first)] := rfl
  match l with
  | [] =>
    by_cases hd : isGlobV "NoDefault" dflt = true <;>
      pyqw [hl, hd, Query.getOne, Query.getOneWith, e, Query.OneGuard.holds, Query.OneAction.run, oneOut]
  | [x] =>
    pyqw [hl, Query.getOne, Query.getOneWith, e, Query.OneGuard.holds, Query.OneAction.run, oneOut, normIdx]
  | x :: y :: t =>
    have : ((t.length : Int) + 1 + 1 > 1) := by omega
    pyqw [hl, Query.getOne, Query.getOneWith, e, Query.OneGuard.holds, Query.OneAction.run, oneOut, this]

theorem iter_translated (self : Val) (c : String) (fs : List (String × Val)) (hs : self = .obj c fs) :
    iterX I self = ofR ((I.callMethod self "lazyIter" [] []).bind fun it => (callFn I "list" [it] []).bind fun l =>
      callFn I "iter" [l] []) := by
  subst hs
  unfold iterX run srIter srIter_s0
  simp [Stmt.exec, Block.exec, Expr.eval, Exprs.eval, Env.ofArgs, zipKw, Res.seq_norm]
  cases I.callMethod (.obj c fs) "lazyIter" [] [] <;> simp [ofR]
  rename_i it
  cases callFn I "list" [it] [] <;> simp [ofR]
  rename_i l
  cases callFn I "iter" [l] [] <;> simp [ofR]

/-- `accumulate` wraps what is not an SQL expression into `SQLConstant` -/
def wrapConst (v : Val) : Val := if isSqlV v = true then v else constV v

theorem accumulate_loop (sch : Schema) (P : Params) fnRec cm cv : ∀ (l : List Val) (env : Env) (acc : List Val),
    env 3 = some (.list acc) →
    ∃ env', forLoop (loopStep (.one 4) fun e => Block.exec (qIface sch P fnRec cm cv) e srAccumulate_for0) l env = .norm env' ∧
      env' 3 = some (.list (acc ++ l.map wrapConst)) ∧ env' 0 = env 0 ∧ env' 2 = env 2
  | [], env, acc, h => ⟨env, rfl, by simp [h], rfl, rfl⟩
  | v :: l, env, acc, h => by
    have step : loopStep (.one 4) (fun e => Block.exec (qIface sch P fnRec cm cv) e srAccumulate_for0) env v =
        .norm (((env.put 4 v).put 4 (wrapConst v)).put 3 (.list (acc ++ [wrapConst v]))) := by
      unfold srAccumulate_for0 wrapConst
      by_cases hv : isSqlV v = true
      · pyqw [loopStep, hv, mutateOf, rebind, h]
        funext y; by_cases h4 : y = 4 <;> simp [h4]
      · pyqw [loopStep, hv, mutateOf, rebind, h]
    obtain ⟨env', h1, h2, h3, h4⟩ := accumulate_loop sch P fnRec cm cv l
      (((env.put 4 v).put 4 (wrapConst v)).put 3 (.list (acc ++ [wrapConst v]))) (acc ++ [wrapConst v]) rfl
    refine ⟨env', ?_, ?_, ?_, ?_⟩
    · simp only [forLoop, step]; exact h1
    · simp [h2]
    · simp [h3]
    · simp [h4]

/-- **`accumulate(*expressions)`** = `conn.accumulateSelect(self, *wrapped)` -/
theorem accumulate_translated (sch : Schema) (P : Params) fnRec cm cv (self : Val) (c : String) (fs : List (String × Val))
    (hs : self = .obj c fs) (conn : Val) (hgc : cm self "_getConnection" [] [] = .ok conn) (exprs : List Val) :
    accumulateX (qIface sch P fnRec cm cv) self exprs =
      ofR (methodOf (qIface sch P fnRec cm cv) conn "accumulateSelect" (self :: exprs.map wrapConst) []) := by
  subst hs
  unfold accumulateX run srAccumulate
  simp only [exec_cons]
  have e0 : Stmt.exec (qIface sch P fnRec cm cv) (Env.ofArgs [.obj c fs, .tuple exprs]) srAccumulate_s0 =
      .norm ((Env.ofArgs [.obj c fs, .tuple exprs]).put 2 conn) := by
    unfold srAccumulate_s0; pyqw [hgc]
  have e1 : Stmt.exec (qIface sch P fnRec cm cv) ((Env.ofArgs [.obj c fs, .tuple exprs]).put 2 conn) srAccumulate_s1 =
      .norm (((Env.ofArgs [.obj c fs, .tuple exprs]).put 2 conn).put 3 (.list [])) := by
    unfold srAccumulate_s1; pyq
  obtain ⟨env', h1, h2, h3, h4⟩ := accumulate_loop sch P fnRec cm cv exprs
    (((Env.ofArgs [.obj c fs, .tuple exprs]).put 2 conn).put 3 (.list [])) [] rfl
  have e2 : Stmt.exec (qIface sch P fnRec cm cv) (((Env.ofArgs [.obj c fs, .tuple exprs]).put 2 conn).put 3 (.list []))
      srAccumulate_s2 = .norm env' := by
    unfold srAccumulate_s2
    rw [Stmt.exec]
    simp only [Expr.eval]
    rw [show (((Env.ofArgs [.obj c fs, .tuple exprs]).put 2 conn).put 3 (.list [])) 1 = some (.tuple exprs) from rfl]
    simp only [ofOpt_some, withR_ok, seqOf_tuple]
    exact h1
  rw [e0, Res.seq_norm, e1, Res.seq_norm, e2, Res.seq_norm]
  have h0 : env' 0 = some (.obj c fs) := by rw [h3]; rfl
  have h2' : env' 2 = some conn := by rw [h4]; rfl
  unfold srAccumulate_s3
  simp only [List.nil_append] at h2
  pyqw [h0, h2', h2]
  cases methodOf (qIface sch P fnRec cm cv) conn "accumulateSelect" _ [] <;> simp [ofR]
end
end SqlObjVerif.QueryX
