import SqlObjVerif.Lemmas.EvMainXFinish
/-!
C19 translator tie, part 10: the defaults loop of the translated `_create` and what it makes of the kwargs (`newRow` of the model).
-/
namespace SqlObjVerif.Events
open SqlObjVerif.PyEv
open SqlObjVerif.PyEv.Extracted
open SqlObjVerif.PyMain (R mapR ofOpt dget dhas dset dupdate dictOf sortByKey insByKey Exc FnKind)

/-- the kwargs after `_create` put in the default of every column that was not passed -/
def addDefaults (c : Cfg) : List Nat → Kw → Kw
  | [], kw => kw
  | j :: js, kw => addDefaults c js (if dhas j kw then kw else kw ++ [(j, c.dflt j)])

/-- the defaults loop of `_create` (loop 0) -/
theorem defaults_loop {ops : Ops} {call : Calls} : ∀ (js : List Nat) (K : Kw) (st : St), st.dicts 0 = some (kwPV K) →
    ∃ st', forLoop (bindThen (.one 1) fun st' => Block.exec ops call st' create_for0) (js.map PV.col) st = .norm st'
      ∧ st'.w = st.w ∧ st'.lists = st.lists ∧ st'.dicts 0 = some (kwPV (addDefaults st.w.c js K))
      ∧ (∀ y, y ≠ 0 → st'.dicts y = st.dicts y) ∧ (∀ y, y ≠ 1 → y ≠ 2 → st'.vars y = st.vars y) := by
  intro js
  induction js with
  | nil => intro K st h0; exact ⟨st, rfl, rfl, rfl, h0, fun _ _ => rfl, fun _ _ _ => rfl⟩
  | cons j js ih =>
    intro K st h0
    have hstep : ∃ st1, (bindThen (.one 1) fun st' => Block.exec ops call st' create_for0) st (.col j) = .norm st1
        ∧ st1.w = st.w ∧ st1.lists = st.lists
        ∧ st1.dicts 0 = some (kwPV (if dhas j K then K else K ++ [(j, st.w.c.dflt j)]))
        ∧ (∀ y, y ≠ 0 → st1.dicts y = st.dicts y) ∧ (∀ y, y ≠ 1 → y ≠ 2 → st1.vars y = st.vars y) := by
      cases hh : dhas j K
      · evwith [create_for0, h0, hh, dset, kwPV_append, kwPV_cons]
        refine ⟨?_, ?_⟩
        · intro y hy; simp [hy]
        · intro y h1 h2; simp [h1, h2]
      · evwith [create_for0, h0, hh]
        intro y h1 _ h1'; exact absurd h1' h1
    obtain ⟨st1, h1, hw, hl, hd0, hd, hv⟩ := hstep
    obtain ⟨st', hf, hw', hl', hd0', hd', hv'⟩ := ih _ st1 hd0
    refine ⟨st', ?_, hw'.trans hw, hl'.trans hl, ?_, fun y a => (hd' y a).trans (hd y a), fun y a b => (hv' y a b).trans (hv y a b)⟩
    · simp only [List.map_cons, forLoop, h1]; exact hf
    · rw [hd0', hw]; rfl


theorem lookup_none_of_dhas {α : Type} (k : Nat) (l : List (Nat × α)) (h : dhas k l = false) : List.lookup k l = none := by
  rw [dhas_eq_lookup] at h
  cases hl : List.lookup k l with
  | none => rfl
  | some x => rw [hl] at h; simp at h

theorem lookup_addDefaults (c : Cfg) (k : Nat) : ∀ (js : List Nat) (kw : Kw),
    List.lookup k (addDefaults c js kw) = match List.lookup k kw with
      | some v => some v
      | none => if k ∈ js then some (c.dflt k) else none := by
  intro js
  induction js with
  | nil => intro kw; simp only [addDefaults]; cases List.lookup k kw <;> simp
  | cons j js ih =>
    intro kw
    rw [addDefaults, ih]
    cases hh : dhas j kw
    · have hj := lookup_none_of_dhas j kw hh
      simp only [Bool.false_eq_true, if_false, List.lookup_append]
      cases hk : List.lookup k kw with
      | some v => simp
      | none =>
        by_cases hkj : k = j
        · subst hkj; simp [List.lookup]
        · have : (k == j) = false := by simpa using hkj
          simp [List.lookup, this, hkj]
    · simp only [if_true]
      cases hk : List.lookup k kw with
      | some v => rfl
      | none =>
        have hkj : k ≠ j := by
          intro e; subst e
          rw [dhas_eq_lookup, hk] at hh; simp at hh
        simp [hkj]

theorem addDefaults_nodup (c : Cfg) : ∀ (js : List Nat) (kw : Kw), (kw.map (·.1)).Nodup → ((addDefaults c js kw).map (·.1)).Nodup := by
  intro js
  induction js with
  | nil => intro kw h; exact h
  | cons j js ih =>
    intro kw h
    rw [addDefaults]
    apply ih
    cases hh : dhas j kw
    · simp only [Bool.false_eq_true, if_false, List.map_append, List.map_cons, List.map_nil]
      rw [List.nodup_append]
      refine ⟨h, by simp, ?_⟩
      intro a ha b hb hab
      simp only [List.mem_singleton] at hb
      subst hb; subst hab
      have := (dhas_iff a kw).mpr ha
      rw [hh] at this; simp at this
    · simpa using h

theorem extraOf_addDefaults (c : Cfg) (n : Nat) : ∀ (js : List Nat) (kw : Kw), (∀ j ∈ js, j < n) →
    extraOf n (addDefaults c js kw) = extraOf n kw := by
  intro js
  induction js with
  | nil => intro kw _; rfl
  | cons j js ih =>
    intro kw hj
    rw [addDefaults, ih _ (fun x hx => hj x (by simp [hx]))]
    cases dhas j kw
    · simp [extraOf, List.filter_append, blt_true (hj j (by simp))]
    · rfl

theorem colVec_addDefaults (c : Cfg) (kw : Kw) :
    colVec c.ncols (addDefaults c (List.range c.ncols) kw) = (newRow c kw).map some := by
  unfold colVec newRow Kw.get
  rw [List.map_map]
  apply List.map_congr_left
  intro k hk
  rw [lookup_addDefaults]
  cases hl : List.lookup k kw <;> simp [hk, hl]

theorem vecInvalid_map_some (l : List Val) : vecInvalid (l.map some) = l.contains .bad := by
  unfold vecInvalid
  induction l with
  | nil => rfl
  | cons a l ih => simp at ih ⊢

theorem insRow_addDefaults (c : Cfg) (kw : Kw) :
    insRow c.ncols (colsOf c.ncols (addDefaults c (List.range c.ncols) kw)) = newRow c kw := by
  unfold insRow
  rw [colVec_colsOf, colVec_addDefaults, List.map_map]
  conv => rhs; rw [← List.map_id (newRow c kw)]
  apply List.map_congr_left
  intro x _; rfl

end SqlObjVerif.Events
