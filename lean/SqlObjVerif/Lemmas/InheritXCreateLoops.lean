import SqlObjVerif.Lemmas.InheritXDict
/-!
Symbolic execution of the TRANSLATED `InheritableSQLObject._create`, part 1: the loop that splits `kw` into the
parent's keywords and the own ones (`create_loop0_run`), the loop that checks the required columns
(`create_loop1_run`: a no-op when every own column has a keyword), and what `SQLObject._create` reads from the
own keywords (`valsOf_own`, `tagOf_own`).
-/
namespace SqlObjVerif.Inherit
open SqlObjVerif.PyInh
open SqlObjVerif.PyInh.Extracted

theorem create_loop0_run (X : Ctx) (C : Calls) (s : PVal) (p : Nat) (v0 v1 v7 v8 v9 : Option PVal) :
    ∀ (rest nk pk : List (PVal × PVal)) (w : XW) (v5 v6 : Option PVal),
      (∀ e, e ∈ rest → KwKey e.1) → (rest.map (·.1)).Nodup →
      (∀ e, e ∈ rest → (∀ e', e' ∈ nk → e'.1 ≠ e.1) ∧ (∀ e', e' ∈ pk → e'.1 ≠ e.1)) →
      ∃ v5' v6',
        forLoop (pairBody fun st a b => create_loop0.exec (xIface X C s) none ((st.setVar 5 a).setVar 6 b)) (pairsOf rest)
          { w := w, vars := [v0, v1, some (.cls p), some (Val.ofList (pairsOf nk)), some (Val.ofList (pairsOf pk)),
                             v5, v6, v7, v8, v9] } =
        .norm { w := w, vars := [v0, v1, some (.cls p),
                  some (Val.ofList (pairsOf (nk ++ rest.filter fun e => !toParent X p e.1))),
                  some (Val.ofList (pairsOf (pk ++ rest.filter fun e => toParent X p e.1))), v5', v6', v7, v8, v9] } := by
  intro rest
  induction rest with
  | nil => intro nk pk w v5 v6 _ _ _; exact ⟨v5, v6, by simp [pairsOf, forLoop]⟩
  | cons e rest ih =>
    intro nk pk w v5 v6 hkey hnd hfresh
    obtain ⟨key, val⟩ := e
    have hk := hkey (key, val) List.mem_cons_self
    obtain ⟨hf1, hf2⟩ := hfresh (key, val) List.mem_cons_self
    simp only [List.map_cons, List.nodup_cons, List.mem_map, not_exists, not_and] at hnd
    obtain ⟨hnotin, hnd'⟩ := hnd
    have hrest : ∀ e, e ∈ rest → KwKey e.1 := fun e he => hkey e (List.mem_cons_of_mem _ he)
    by_cases hP : toParent X p key = true
    · -- to the parent
      have hstep : create_loop0.exec (xIface X C s) none
          (St.setVar (St.setVar { w := w, vars := [v0, v1, some (.cls p), some (Val.ofList (pairsOf nk)),
            some (Val.ofList (pairsOf pk)), v5, v6, v7, v8, v9] } 5 key) 6 val) =
          .norm { w := w, vars := [v0, v1, some (.cls p), some (Val.ofList (pairsOf nk)),
            some (Val.ofList (pairsOf (pk ++ [(key, val)]))), some key, some val, v7, v8, v9] } := by
        unfold create_loop0
        rcases hk with ⟨a, j, rfl⟩ | rfl
        · simp only [toParent] at hP
          ihrun
          simp [isListVal_ofList, vdSet_fresh _ _ pk hf2]
        · simp [toParent] at hP
      obtain ⟨v5', v6', hih⟩ := ih nk (pk ++ [(key, val)]) w (some key) (some val) hrest hnd' (by
        intro e' he'
        obtain ⟨g1, g2⟩ := hfresh e' (List.mem_cons_of_mem _ he')
        refine ⟨g1, ?_⟩
        intro e'' he''
        rcases List.mem_append.mp he'' with h1 | h1
        · exact g2 e'' h1
        · simp only [List.mem_singleton] at h1
          subst h1
          intro heq
          exact hnotin e' he' heq.symm)
      refine ⟨v5', v6', ?_⟩
      simp only [pairsOf, List.map_cons, forLoop, pairBody] at hih ⊢
      simp only [pairsOf] at hstep
      rw [hstep]; dsimp only; rw [hih]
      simp [hP]
    · -- stays here
      have hP' : toParent X p key = false := by simpa using hP
      have hstep : create_loop0.exec (xIface X C s) none
          (St.setVar (St.setVar { w := w, vars := [v0, v1, some (.cls p), some (Val.ofList (pairsOf nk)),
            some (Val.ofList (pairsOf pk)), v5, v6, v7, v8, v9] } 5 key) 6 val) =
          .norm { w := w, vars := [v0, v1, some (.cls p), some (Val.ofList (pairsOf (nk ++ [(key, val)]))),
            some (Val.ofList (pairsOf pk)), some key, some val, v7, v8, v9] } := by
        unfold create_loop0
        rcases hk with ⟨a, j, rfl⟩ | rfl
        · simp only [toParent] at hP'
          ihrun
          simp [isListVal_ofList, vdSet_fresh _ _ nk hf1]
        · ihrun
          simp [isListVal_ofList, vdSet_fresh _ _ nk hf1]
      obtain ⟨v5', v6', hih⟩ := ih (nk ++ [(key, val)]) pk w (some key) (some val) hrest hnd' (by
        intro e' he'
        obtain ⟨g1, g2⟩ := hfresh e' (List.mem_cons_of_mem _ he')
        refine ⟨?_, g2⟩
        intro e'' he''
        rcases List.mem_append.mp he'' with h1 | h1
        · exact g1 e'' h1
        · simp only [List.mem_singleton] at h1
          subst h1
          intro heq
          exact hnotin e' he' heq.symm)
      refine ⟨v5', v6', ?_⟩
      simp only [pairsOf, List.map_cons, forLoop, pairBody] at hih ⊢
      simp only [pairsOf] at hstep
      rw [hstep]; dsimp only; rw [hih]
      simp [hP']

theorem create_loop0_run' (X : Ctx) (C : Calls) (s : PVal) (p : Nat) {v0 v1 v5 v6 v7 v8 v9 : Option PVal}
    {rest : List (PVal × PVal)} {w : XW} {r : PyInh.Res XW}
    (hF : forLoop (pairBody fun st a b => create_loop0.exec (xIface X C s) none ((st.setVar 5 a).setVar 6 b)) (pairsOf rest)
          { w := w, vars := [v0, v1, some (.cls p), some .nil, some .nil, v5, v6, v7, v8, v9] } = r)
    (hkey : ∀ e, e ∈ rest → KwKey e.1) (hnd : (rest.map (·.1)).Nodup) :
    ∃ v5' v6', r = .norm { w := w, vars := [v0, v1, some (.cls p),
                  some (Val.ofList (pairsOf (rest.filter fun e => !toParent X p e.1))),
                  some (Val.ofList (pairsOf (rest.filter fun e => toParent X p e.1))), v5', v6', v7, v8, v9] } := by
  obtain ⟨v5', v6', h⟩ := create_loop0_run X C s p v0 v1 v7 v8 v9 rest [] [] w v5 v6 hkey hnd
    (fun e _ => ⟨fun e' h' => absurd h' List.not_mem_nil, fun e' h' => absurd h' List.not_mem_nil⟩)
  refine ⟨v5', v6', ?_⟩
  rw [← hF]
  simpa [pairsOf, Val.ofList] using h

/-- the columns `self.sqlmeta.columnList` iterates over -/
def ColOf (X : Ctx) (a : Nat) (col : PVal) : Prop := (∃ j, j < X.T.ncols a ∧ col = colObj a j) ∨ col = tagCol a

theorem create_loop1_run (X : Ctx) (C : Calls) (s : PVal) (a : Nat) (kwv : PVal) (hl : isListVal kwv = true)
    (hkw : ∀ j, j < X.T.ncols a → vdHas (.name a j) kwv = true)
    (v0 v2 v3 v4 v5 v6 v8 v9 : Option PVal) : ∀ (cols : List PVal) (w : XW) (v7 : Option PVal),
      (∀ col, col ∈ cols → ColOf X a col) → ∃ v7',
      forLoop (fun st col => create_loop1.exec (xIface X C s) none (st.setVar 7 col)) cols
        { w := w, vars := [v0, some kwv, v2, v3, v4, v5, v6, v7, v8, v9] } =
      .norm { w := w, vars := [v0, some kwv, v2, v3, v4, v5, v6, v7', v8, v9] } := by
  intro cols
  induction cols with
  | nil => intro w v7 _; exact ⟨v7, rfl⟩
  | cons col cols ih =>
    intro w v7 hc
    have hstep : create_loop1.exec (xIface X C s) none
        (St.setVar { w := w, vars := [v0, some kwv, v2, v3, v4, v5, v6, v7, v8, v9] } 7 col) =
        .norm { w := w, vars := [v0, some kwv, v2, v3, v4, v5, v6, some col, v8, v9] } := by
      unfold create_loop1
      rcases hc col List.mem_cons_self with ⟨j, hj, rfl⟩ | rfl
      · have := hkw j hj
        cases hd : X.nodefault a j <;> (simp only [colObj]; ihrun) <;> simp [noDefault]
      · simp only [tagCol]; ihrun; simp [noDefault]
    obtain ⟨v7', hih⟩ := ih w (some col) (fun c hc' => hc c (List.mem_cons_of_mem _ hc'))
    exact ⟨v7', by simp only [forLoop]; rw [hstep]; dsimp only; rw [hih]⟩

theorem create_loop1_run' (X : Ctx) (C : Calls) (s : PVal) (a : Nat) {kwv : PVal} (hl : isListVal kwv = true)
    (hkw : ∀ j, j < X.T.ncols a → vdHas (.name a j) kwv = true)
    {v0 v2 v3 v4 v5 v6 v7 v8 v9 : Option PVal} {cols : List PVal} {w : XW} {r : PyInh.Res XW}
    (hF : forLoop (fun st col => create_loop1.exec (xIface X C s) none (st.setVar 7 col)) cols
        { w := w, vars := [v0, some kwv, v2, v3, v4, v5, v6, v7, v8, v9] } = r)
    (hc : ∀ col, col ∈ cols → ColOf X a col) :
    ∃ v7', r = .norm { w := w, vars := [v0, some kwv, v2, v3, v4, v5, v6, v7', v8, v9] } := by
  obtain ⟨v7', h⟩ := create_loop1_run X C s a kwv hl hkw v0 v2 v3 v4 v5 v6 v8 v9 cols w v7 hc
  exact ⟨v7', by rw [← hF, h]⟩

theorem colList_cols (X : Ctx) (a : Nat) : ∀ col, col ∈ (List.range (X.T.ncols a)).map (colObj a) ++
    (if X.T.inh a then [tagCol a] else []) → ColOf X a col := by
  intro col hc
  rcases List.mem_append.mp hc with h | h
  · simp only [List.mem_map, List.mem_range] at h
    obtain ⟨j, hj, rfl⟩ := h
    exact Or.inl ⟨j, hj, rfl⟩
  · cases hi : X.T.inh a <;> simp [hi] at h
    exact Or.inr h

theorem vdHas_own (X : Ctx) (a : Nat) (tag : Option Nat) (j : Nat) (hj : j < X.T.ncols a) :
    vdHas (.name a j) (Val.ofList (pairsOf (ownKw X a ++ tagEntry tag))) = true := by
  simp only [vdHas, vdGet_pairsOf, List.find?_append, ownKw, find_range_name, hj, if_true]
  simp

theorem vdGet_own (X : Ctx) (a : Nat) (tag : Option Nat) (j : Nat) :
    vdGet (.name a j) (Val.ofList (pairsOf (ownKw X a ++ tagEntry tag))) =
      if j < X.T.ncols a then some (.int (X.vals a j)) else none := by
  simp only [vdGet_pairsOf, List.find?_append, ownKw, find_range_name]
  by_cases hj : j < X.T.ncols a
  · simp [hj]
  · cases tag <;> simp [hj, tagEntry]

theorem valsOf_own (X : Ctx) (a : Nat) (tag : Option Nat) (hvals : ∀ a j, X.T.ncols a ≤ j → X.vals a j = 0) :
    valsOf a (Val.ofList (pairsOf (ownKw X a ++ tagEntry tag))) = X.vals a := by
  funext j
  simp only [valsOf, vdGet_own]
  by_cases hj : j < X.T.ncols a
  · simp [hj]
  · simp [hj, hvals a j (by omega)]

theorem tagOf_own (X : Ctx) (a : Nat) (tag : Option Nat) :
    tagOf (Val.ofList (pairsOf (ownKw X a ++ tagEntry tag))) = tag := by
  have h0 : (ownKw X a).find? (fun e => e.1 == PyInh.Val.str "childName") = none := by
    rw [List.find?_eq_none]
    intro e he
    obtain ⟨j, _, rfl⟩ := (mem_ownKw X a e).1 he
    simp
  simp only [tagOf, vdGet_pairsOf, List.find?_append, h0, Option.none_or]
  cases tag <;> simp [tagEntry, cname]
end SqlObjVerif.Inherit
