import SqlObjVerif.Lemmas.Fail
/-! # Quiet segments: the syntactic side of C06 for `destroySelf`

A *segment* is a piece of an operation in continuation-passing form (`Prog → Prog`).  `QS seg K cnt`:
on every state whose core is `K` the segment either stops with an exception and core `K`, or hands
core `K` to its continuation after exactly `cnt` statements none of which was hit by the injected
error.  Quiet segments compose; the entries of `destroySelf`'s dependents loop are quiet under
conditions that are read off the schema and the tables. -/
namespace SqlObjVerif.Fail

def NoHit (inj : Option Inj) (n cnt : Nat) : Prop :=
  ∀ i, inj = some i → ¬ (n < i.k ∧ i.k ≤ n + cnt)

def QS (sch : Schema) (inj : Option Inj) (seg : Prog → Prog) (K : Core) (cnt : Nat) : Prop :=
  ∀ (s : St) (k : Prog), s.core = K →
    (∃ s1 e, run sch inj (seg k) s = (s1, some e) ∧ s1.core = K) ∨
    (∃ s1, run sch inj (seg k) s = run sch inj k s1 ∧ s1.core = K ∧ s1.changes = s.changes ∧
      s1.n = s.n + cnt ∧ NoHit inj s.n cnt)

/-- a segment that always stops with an exception and an unchanged core -/
def QStop (sch : Schema) (inj : Option Inj) (seg : Prog → Prog) (K : Core) : Prop :=
  ∀ (s : St) (k : Prog), s.core = K → ∃ s1 e, run sch inj (seg k) s = (s1, some e) ∧ s1.core = K

theorem QS_id (sch inj K) : QS sch inj (fun k => k) K 0 := by
  intro s k hs
  exact .inr ⟨s, rfl, hs, rfl, rfl, by intro i _ h; omega⟩

theorem QS_comp {sch inj K} {f g : Prog → Prog} {a b : Nat}
    (hf : QS sch inj f K a) (hg : QS sch inj g K b) : QS sch inj (fun k => f (g k)) K (a + b) := by
  intro s k hs
  rcases hf s (g k) hs with ⟨s1, e, h1, hc⟩ | ⟨s1, h1, hc, hch, hn, hno⟩
  · exact .inl ⟨s1, e, h1, hc⟩
  · rcases hg s1 k hc with ⟨s2, e, h2, hc2⟩ | ⟨s2, h2, hc2, hch2, hn2, hno2⟩
    · exact .inl ⟨s2, e, by rw [h1, h2], hc2⟩
    · refine .inr ⟨s2, by rw [h1, h2], hc2, by omega, by omega, ?_⟩
      intro i hi h
      have h1' := hno i hi
      have h2' := hno2 i hi
      omega

theorem QS_stop_comp {sch inj K} {f g : Prog → Prog} {a : Nat}
    (hf : QS sch inj f K a) (hg : QStop sch inj g K) : QStop sch inj (fun k => f (g k)) K := by
  intro s k hs
  rcases hf s (g k) hs with ⟨s1, e, h1, hc⟩ | ⟨s1, h1, hc, _, _, _⟩
  · exact ⟨s1, e, h1, hc⟩
  · obtain ⟨s2, e, h2, hc2⟩ := hg s1 k hc
    exact ⟨s2, e, by rw [h1, h2], hc2⟩

theorem QStop_comp {sch inj K} {f g : Prog → Prog} (hf : QStop sch inj f K) :
    QStop sch inj (fun k => f (g k)) K := by
  intro s k hs
  exact hf s (g k) hs

/-- a statement that the database accepts without changing anything -/
theorem QS_stmt {sch inj K} (q : Stmt)
    (hq : ∀ s : St, s.core = K → ∃ s2, exec sch q s = .ok s2 ∧ s2.core = K ∧ s2.n = s.n ∧ s2.changes = s.changes) :
    QS sch inj (fun k => .stmt q k) K 1 := by
  intro s k hs
  cases hhit : hit inj (s.n + 1) with
  | some e =>
    refine .inl ⟨{ s with n := s.n + 1, log := q :: s.log }, e, ?_, hs⟩
    simp only [run, hhit]
  | none =>
    obtain ⟨s2, hex, hc, hn, hch⟩ := hq { s with n := s.n + 1, log := q :: s.log } hs
    refine .inr ⟨s2, ?_, hc, hch, hn, ?_⟩
    · simp only [run, hhit, hex]
      have : bump { s with n := s.n + 1, log := q :: s.log } s2 = s2 := by
        unfold bump; rw [if_pos]; rw [hc]; exact hs.symm
      rw [this]
    · intro i hi h
      have : i.k = s.n + 1 := by omega
      simp [hit, hi, this] at hhit

theorem QS_dyn {sch inj K cnt} (F : St → Prog → Prog)
    (h : ∀ s : St, s.core = K → QS sch inj (F s) K cnt) :
    QS sch inj (fun k => .dyn fun s => F s k) K cnt := by
  intro s k hs
  have := h s hs s k hs
  simpa only [run] using this

theorem QStop_dyn {sch inj K} (F : St → Prog → Prog)
    (h : ∀ s : St, s.core = K → QStop sch inj (F s) K) :
    QStop sch inj (fun k => .dyn fun s => F s k) K := by
  intro s k hs
  have := h s hs s k hs
  simpa only [run] using this

theorem QStop_fail (sch inj K) (e : Err) : QStop sch inj (fun _ => .fail e) K := by
  intro s k hs
  exact ⟨s, e, by simp [run], hs⟩

theorem QS_foldr {sch inj K} {α} (seg : α → Prog → Prog) (xs : List α)
    (h : ∀ x ∈ xs, QS sch inj (seg x) K 1) :
    QS sch inj (fun k => xs.foldr (fun x acc => seg x acc) k) K xs.length := by
  induction xs with
  | nil => exact QS_id sch inj K
  | cons x xs ih =>
    have h1 := h x (by simp)
    have h2 := ih (fun y hy => h y (by simp [hy]))
    have := QS_comp h1 h2
    simpa [List.foldr_cons, Nat.add_comm] using this

/-! ## the database side: statements that change nothing -/

theorem list_set_getD_eq {α} (l : List α) (i : Nat) (d : α) : l.set i (l.getD i d) = l := by
  by_cases h : i < l.length
  · exact list_set_getD_self l i d h
  · exact List.set_eq_of_length_le (by omega)

theorem exec_select_ok (sch : Schema) (c : Nat) (s : St) :
    ∃ s2, exec sch (.select c) s = .ok s2 ∧ s2.core = s.core ∧ s2.n = s.n ∧ s2.changes = s.changes :=
  ⟨s, rfl, rfl, rfl, rfl⟩

/-- no link row of table `t` mentions `vid` on the given side -/
def linksQuiet (K : Core) (t : Nat) (side : Bool) (vid : Nat) : Bool :=
  (K.links.getD t []).all fun l => (if side then l.2 else l.1) != vid

theorem exec_delLinks_quiet (sch : Schema) (t : Nat) (side : Bool) (vid : Nat) (s : St)
    (h : linksQuiet s.core t side vid = true) :
    ∃ s2, exec sch (.delLinks t side vid) s = .ok s2 ∧ s2.core = s.core ∧ s2.n = s.n ∧ s2.changes = s.changes := by
  refine ⟨_, rfl, ?_, rfl, rfl⟩
  have hf : ((s.core.links.getD t []).filter fun l => (if side then l.2 else l.1) != vid) = s.core.links.getD t [] :=
    List.filter_eq_self.mpr (by simpa [linksQuiet] using h)
  show ({ s.core with links := s.core.links.set t _ } : Core) = s.core
  rw [hf, list_set_getD_eq]


/-! ## the entries of the dependents loop -/

/-- core-level readings of the tables (the segments read `s.tab`, i.e. `s.core.tabs`) -/
def restrictingRowsK (K : Core) (fk : List (Nat × Pol)) (kidx vid : Nat) : Bool :=
  (K.tabs.getD kidx []).any fun r => rowRefs (restrictCols fk) vid r.vals

def refRowsK (K : Core) (fk : List (Nat × Pol)) (kidx vid : Nat) : List Row :=
  (K.tabs.getD kidx []).filter fun r => rowRefs fk vid r.vals

theorem restrictingRows_eq (s : St) (fk kidx vid) : restrictingRows s fk kidx vid = restrictingRowsK s.core fk kidx vid := rfl
theorem refRows_eq (s : St) (fk kidx vid) : refRows s fk kidx vid = refRowsK s.core fk kidx vid := rfl

theorem QS_freeLinks (sch inj K) (kc : Cls) (c vid : Nat)
    (h : ((kc.joins.filter fun j => j.other == c).all fun j => linksQuiet K j.tab (!j.side) vid) = true) :
    QS sch inj (freeLinksSeg kc c vid) K (kc.joins.filter fun j => j.other == c).length := by
  unfold freeLinksSeg
  refine QS_foldr (fun (j : Join) k => Prog.stmt (.delLinks j.tab (!j.side) vid) k) _ ?_
  intro j hj
  apply QS_stmt
  intro s hs
  subst hs
  exact exec_delLinks_quiet _ _ _ _ s ((List.all_eq_true.mp h) j hj)

theorem QS_ownLinks (sch inj K) (cl : Cls) (id : Nat)
    (h : (cl.joins.all fun j => linksQuiet K j.tab j.side id) = true) :
    QS sch inj (ownLinksSeg cl id) K cl.joins.length := by
  unfold ownLinksSeg
  refine QS_foldr (fun (j : Join) k => Prog.stmt (.delLinks j.tab j.side id) k) _ ?_
  intro j hj
  apply QS_stmt
  intro s hs
  subst hs
  exact exec_delLinks_quiet _ _ _ _ s ((List.all_eq_true.mp h) j hj)

def restrictCnt (fk : List (Nat × Pol)) : Nat := if (restrictCols fk).isEmpty then 0 else 1
def nullCnt (fk : List (Nat × Pol)) : Nat := if (nullCols fk).isEmpty then 0 else 1
def cascadeCnt (fk : List (Nat × Pol)) : Nat := if hasCascade fk then 1 else 0

/-- the restriction test is effect-free whatever it finds -/
theorem QS_restrict (sch inj K) (fk : List (Nat × Pol)) (kidx vid : Nat) :
    QS sch inj (restrictSeg fk kidx vid) K (restrictCnt fk) := by
  unfold restrictSeg restrictCnt
  split
  · exact QS_id sch inj K
  · have h1 : QS sch inj (fun k => Prog.stmt (.select kidx) k) K 1 :=
      QS_stmt _ (fun s hs => by obtain ⟨s2, h⟩ := exec_select_ok sch kidx s; exact ⟨s2, h.1, h.2.1 ▸ hs, h.2.2⟩)
    have h2 : QS sch inj (fun k => Prog.dyn fun s => if restrictingRows s fk kidx vid then .fail .integrity else k) K 0 := by
      apply QS_dyn (fun s k => if restrictingRows s fk kidx vid then .fail .integrity else k)
      intro s hs
      by_cases hr : restrictingRows s fk kidx vid = true
      · intro s' k hs'
        simp only [hr, if_true]
        exact .inl ⟨s', .integrity, by simp [run], hs'⟩
      · simp only [hr]
        exact QS_id sch inj K
    exact QS_comp h1 h2

/-- … and it stops the operation when a row references the victim through a `cascade=False` key -/
theorem QStop_restrict (sch inj K) (fk : List (Nat × Pol)) (kidx vid : Nat)
    (h : restrictingRowsK K fk kidx vid = true) : QStop sch inj (restrictSeg fk kidx vid) K := by
  have hne : (restrictCols fk).isEmpty = false := by
    cases hh : (restrictCols fk) with
    | nil => simp [restrictingRowsK, hh, rowRefs] at h
    | cons a l => rfl
  unfold restrictSeg
  simp only [hne]
  have h1 : QS sch inj (fun k => Prog.stmt (.select kidx) k) K 1 :=
    QS_stmt _ (fun s hs => by obtain ⟨s2, h⟩ := exec_select_ok sch kidx s; exact ⟨s2, h.1, h.2.1 ▸ hs, h.2.2⟩)
  have h2 : QStop sch inj (fun k => Prog.dyn fun s => if restrictingRows s fk kidx vid then .fail .integrity else k) K := by
    apply QStop_dyn (fun s k => if restrictingRows s fk kidx vid then .fail .integrity else k)
    intro s hs s' k hs'
    rw [restrictingRows_eq, hs, h]
    exact ⟨s', .integrity, by simp [run], hs'⟩
  exact QS_stop_comp h1 h2

theorem QS_null (sch inj K) (fk : List (Nat × Pol)) (kidx vid : Nat)
    (h : refRowsK K fk kidx vid = []) : QS sch inj (nullSeg sch fk kidx vid) K (nullCnt fk) := by
  unfold nullSeg nullCnt
  split
  · exact QS_id sch inj K
  · have h1 : QS sch inj (fun k => Prog.stmt (.select kidx) k) K 1 :=
      QS_stmt _ (fun s hs => by obtain ⟨s2, h⟩ := exec_select_ok sch kidx s; exact ⟨s2, h.1, h.2.1 ▸ hs, h.2.2⟩)
    refine QS_comp (b := 0) h1 ?_
    apply QS_dyn (fun s k => fetchAll kidx (refRows s fk kidx vid) <| (refRows s fk kidx vid).foldr
        (fun r acc => .dyn fun s1 =>
          let vs := instVals s1 kidx r.id r.vals
          let clear := (nullCols fk).filter fun j => vs.getD j none == some (Int.ofNat vid)
          setProg sch kidx r.id (clear.map fun j => (j, In.ok none)) [] <|
            (if (clsOf sch kidx).lazy then syncProg kidx r.id acc else acc)) k)
    intro s hs
    rw [refRows_eq, hs, h]
    exact QS_id sch inj K

theorem QS_cascade (sch inj K) (rec : Nat → Nat → Prog → Prog) (fk : List (Nat × Pol)) (kidx vid : Nat)
    (h : refRowsK K fk kidx vid = []) : QS sch inj (cascadeSeg rec fk kidx vid) K (cascadeCnt fk) := by
  unfold cascadeSeg cascadeCnt
  split
  · have h1 : QS sch inj (fun k => Prog.stmt (.select kidx) k) K 1 :=
      QS_stmt _ (fun s hs => by obtain ⟨s2, h⟩ := exec_select_ok sch kidx s; exact ⟨s2, h.1, h.2.1 ▸ hs, h.2.2⟩)
    refine QS_comp (b := 0) h1 ?_
    apply QS_dyn (fun s k => fetchAll kidx (refRows s fk kidx vid) <|
      (refRows s fk kidx vid).foldr (fun r acc => rec kidx r.id acc) k)
    intro s hs
    rw [refRows_eq, hs, h]
    exact QS_id sch inj K
  · exact QS_id sch inj K


def entryFk (sch : Schema) (c kidx : Nat) : List (Nat × Pol) := fkCols (clsOf sch kidx).cols c

/-- no link row of class `kidx`'s joins towards the victim's class mentions the victim -/
def EntryLinksQuiet (sch : Schema) (K : Core) (c vid kidx : Nat) : Bool :=
  ((clsOf sch kidx).joins.filter fun j => j.other == c).all fun j => linksQuiet K j.tab (!j.side) vid

/-- some row of class `kidx` references the victim through a `cascade=False` key -/
def EntryRefuses (sch : Schema) (K : Core) (c vid kidx : Nat) : Bool :=
  restrictingRowsK K (entryFk sch c kidx) kidx vid

/-- class `kidx` has nothing to do for this victim: no link rows, no referencing row (any policy) -/
def EntryPasses (sch : Schema) (K : Core) (c vid kidx : Nat) : Bool :=
  EntryLinksQuiet sch K c vid kidx && (refRowsK K (entryFk sch c kidx) kidx vid).isEmpty

/-- the statements a passing entry sends: one DELETE per join, the COUNT of the restriction test,
    the SELECT of the null pass, the SELECT of the cascade pass -/
def entryCnt (sch : Schema) (c kidx : Nat) : Nat :=
  ((clsOf sch kidx).joins.filter fun j => j.other == c).length +
    (restrictCnt (entryFk sch c kidx) + (nullCnt (entryFk sch c kidx) + cascadeCnt (entryFk sch c kidx)))

theorem fk_empty_cnt (fk : List (Nat × Pol)) (h : fk.isEmpty = true) :
    restrictCnt fk + (nullCnt fk + cascadeCnt fk) = 0 := by
  have : fk = [] := by simpa using h
  subst this
  simp [restrictCnt, nullCnt, cascadeCnt, restrictCols, nullCols, hasCascade]

theorem QS_entry_pass (sch inj K) (rec : Nat → Nat → Prog → Prog) (c vid kidx : Nat)
    (h : EntryPasses sch K c vid kidx = true) :
    QS sch inj (depEntry rec sch c vid kidx) K (entryCnt sch c kidx) := by
  simp only [EntryPasses, Bool.and_eq_true, List.isEmpty_iff] at h
  obtain ⟨hl, hr⟩ := h
  unfold depEntry entryCnt
  simp only
  split
  · rename_i hfk
    rw [show entryFk sch c kidx = fkCols (clsOf sch kidx).cols c from rfl, fk_empty_cnt _ hfk, Nat.add_zero]
    exact QS_freeLinks sch inj K _ c vid hl
  · exact QS_comp (QS_freeLinks sch inj K _ c vid hl)
      (QS_comp (QS_restrict sch inj K _ kidx vid)
        (QS_comp (QS_null sch inj K _ kidx vid hr) (QS_cascade sch inj K rec _ kidx vid hr)))

theorem QStop_entry_refuse (sch inj K) (rec : Nat → Nat → Prog → Prog) (c vid kidx : Nat)
    (hl : EntryLinksQuiet sch K c vid kidx = true) (hr : EntryRefuses sch K c vid kidx = true) :
    QStop sch inj (depEntry rec sch c vid kidx) K := by
  have hne : (fkCols (clsOf sch kidx).cols c).isEmpty = false := by
    cases hh : fkCols (clsOf sch kidx).cols c with
    | nil => simp [EntryRefuses, entryFk, hh, restrictingRowsK, restrictCols, rowRefs] at hr
    | cons a l => rfl
  unfold depEntry
  simp only [hne]
  exact QS_stop_comp (QS_freeLinks sch inj K _ c vid hl)
    (QStop_comp (g := fun k => nullSeg sch _ kidx vid (cascadeSeg rec _ kidx vid k))
      (QStop_restrict sch inj K _ kidx vid hr))

def loopCnt (sch : Schema) (c : Nat) (ks : List Nat) : Nat := (ks.map (entryCnt sch c)).sum

theorem QS_depLoop_pass (sch inj K) (rec : Nat → Nat → Prog → Prog) (c vid : Nat) (ks : List Nat)
    (h : ∀ kidx ∈ ks, EntryPasses sch K c vid kidx = true) :
    QS sch inj (depLoop rec sch c vid ks) K (loopCnt sch c ks) := by
  induction ks with
  | nil => exact QS_id sch inj K
  | cons x xs ih =>
    have h1 := QS_entry_pass sch inj K rec c vid x (h x (by simp))
    have h2 := ih (fun y hy => h y (by simp [hy]))
    have := QS_comp h1 h2
    have e1 : depLoop rec sch c vid (x :: xs) = fun k => depEntry rec sch c vid x (depLoop rec sch c vid xs k) := rfl
    have e2 : loopCnt sch c (x :: xs) = entryCnt sch c x + loopCnt sch c xs := by simp [loopCnt]
    rw [e1, e2]; exact this

theorem depLoop_append (rec : Nat → Nat → Prog → Prog) (sch : Schema) (c vid : Nat) (l1 l2 : List Nat) (k : Prog) :
    depLoop rec sch c vid (l1 ++ l2) k = depLoop rec sch c vid l1 (depLoop rec sch c vid l2 k) := by
  simp [depLoop, List.foldr_append]

/-- **destroySelf, syntactically.**  Victim `(c, id)` of a non-inheritable class; `pre` = the classes
    of the registry visited first, all with nothing to do (no link rows, no referencing rows); the
    victim has no link rows of its own.  If then the next class refuses (a row references the victim
    through a `cascade=False` key), or the injected error falls on one of the statements sent so far,
    or there is no further class, a failure of the operation is a no-op. -/
theorem destroy_noop_syn (sch : Schema) (inj : Option Inj) (fuel c id : Nat) (s s' : St) (e : Err)
    (pre post : List Nat)
    (hpar : (clsOf sch c).parent = none)
    (hsplit : List.range sch.length = pre ++ post)
    (hown : ((clsOf sch c).joins.all fun j => linksQuiet s.core j.tab j.side id) = true)
    (hpre : ∀ kidx ∈ pre, EntryPasses sch s.core c id kidx = true)
    (hstop : (∃ r rest, post = r :: rest ∧ EntryLinksQuiet sch s.core c id r = true ∧ EntryRefuses sch s.core c id r = true) ∨
             (∃ i, inj = some i ∧ s.n < i.k ∧ i.k ≤ s.n + ((clsOf sch c).joins.length + loopCnt sch c pre)) ∨
             post = [])
    (h : run sch inj (destroyProg sch (fuel + 1) c id .done) s = (s', some e)) : s'.core = s.core := by
  unfold destroyProg at h
  simp only [hpar, run, hsplit, depLoop_append] at h
  have hA := QS_comp (QS_ownLinks sch inj s.core (clsOf sch c) id hown)
    (QS_depLoop_pass sch inj s.core (destroyProg sch fuel) c id pre hpre)
  rcases hA s (depLoop (destroyProg sch fuel) sch c id post (destroyTail c id .done)) rfl with
    ⟨s1, e1, h1, hc⟩ | ⟨s1, h1, hc, _, hn, hno⟩
  · rw [h1] at h
    simp only [Prod.mk.injEq] at h
    rw [← h.1, hc]
  · rw [h1] at h
    rcases hstop with ⟨r, rest, hp, hl, hr⟩ | ⟨i, hi, hlt, hle⟩ | hp
    · subst hp
      obtain ⟨s2, e2, h2, hc2⟩ := QStop_entry_refuse sch inj s.core (destroyProg sch fuel) c id r hl hr s1
        (depLoop (destroyProg sch fuel) sch c id rest (destroyTail c id .done)) hc
      have : depLoop (destroyProg sch fuel) sch c id (r :: rest) (destroyTail c id .done) =
          depEntry (destroyProg sch fuel) sch c id r (depLoop (destroyProg sch fuel) sch c id rest (destroyTail c id .done)) := rfl
      rw [this, h2] at h
      simp only [Prod.mk.injEq] at h
      rw [← h.1, hc2]
    · exact absurd ⟨hlt, hle⟩ (hno i hi)
    · subst hp
      have : depLoop (destroyProg sch fuel) sch c id [] (destroyTail c id .done) = destroyTail c id .done := rfl
      rw [this] at h
      unfold destroyTail at h
      rw [run_stmt_tail sch inj _ _ s1 s' e (by intro s2; simp [run]) h, hc]

end SqlObjVerif.Fail
