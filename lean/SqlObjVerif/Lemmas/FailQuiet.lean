import SqlObjVerif.Lemmas.Fail
/-! # Quiet segments: the syntactic side of C06 for `destroySelf`

A *segment* is a piece of an operation in continuation-passing form (`Prog → Prog`).  `QS seg K cnt`:
on every state whose core is `K` the segment either stops with an exception and core `K`, or hands
core `K` to its continuation after exactly `cnt` statements none of which was hit by the injected
error.  Quiet segments compose; the entries of `destroySelf`'s dependents loop are quiet under
conditions that are read off the schema and the tables. -/
namespace SqlObjVerif.Fail

def NoHit (inj : Option Inj) (n cnt : Nat) : Prop :=
  ∀ i, inj = some i → ¬ (n < i.k ∧ i.k ≤ n + cnt)

def QS (sch : Schema) (inj : Option Inj) (seg : Prog → Prog) (K : Core) (cnt : Nat) : Prop :=
  ∀ (s : St) (k : Prog), s.core = K →
    (∃ s1 e, run sch inj (seg k) s = (s1, some e) ∧ s1.core = K) ∨
    (∃ s1, run sch inj (seg k) s = run sch inj k s1 ∧ s1.core = K ∧ s1.changes = s.changes ∧
      s1.n = s.n + cnt ∧ NoHit inj s.n cnt)

/-- a segment that always stops with an exception and an unchanged core -/
def QStop (sch : Schema) (inj : Option Inj) (seg : Prog → Prog) (K : Core) : Prop :=
  ∀ (s : St) (k : Prog), s.core = K → ∃ s1 e, run sch inj (seg k) s = (s1, some e) ∧ s1.core = K

theorem QS_id (sch inj K) : QS sch inj (fun k => k) K 0 := by
  intro s k hs
  exact .inr ⟨s, rfl, hs, rfl, rfl, by intro i _ h; omega⟩

theorem QS_comp {sch inj K} {f g : Prog → Prog} {a b : Nat}
    (hf : QS sch inj f K a) (hg : QS sch inj g K b) : QS sch inj (fun k => f (g k)) K (a + b) := by
  intro s k hs
  rcases hf s (g k) hs with ⟨s1, e, h1, hc⟩ | ⟨s1, h1, hc, hch, hn, hno⟩
  · exact .inl ⟨s1, e, h1, hc⟩
  · rcases hg s1 k hc with ⟨s2, e, h2, hc2⟩ | ⟨s2, h2, hc2, hch2, hn2, hno2⟩
    · exact .inl ⟨s2, e, by rw [h1, h2], hc2⟩
    · refine .inr ⟨s2, by rw [h1, h2], hc2, by omega, by omega, ?_⟩
      intro i hi h
      have h1' := hno i hi
      have h2' := hno2 i hi
      omega

theorem QS_stop_comp {sch inj K} {f g : Prog → Prog} {a : Nat}
    (hf : QS sch inj f K a) (hg : QStop sch inj g K) : QStop sch inj (fun k => f (g k)) K := by
  intro s k hs
  rcases hf s (g k) hs with ⟨s1, e, h1, hc⟩ | ⟨s1, h1, hc, _, _, _⟩
  · exact ⟨s1, e, h1, hc⟩
  · obtain ⟨s2, e, h2, hc2⟩ := hg s1 k hc
    exact ⟨s2, e, by rw [h1, h2], hc2⟩

theorem QStop_comp {sch inj K} {f g : Prog → Prog} (hf : QStop sch inj f K) :
    QStop sch inj (fun k => f (g k)) K := by
  intro s k hs
  exact hf s (g k) hs

/-- a statement that the database accepts without changing anything -/
theorem QS_stmt {sch inj K} (q : Stmt)
    (hq : ∀ s : St, s.core = K → ∃ s2, exec sch q s = .ok s2 ∧ s2.core = K ∧ s2.n = s.n ∧ s2.changes = s.changes) :
    QS sch inj (fun k => .stmt q k) K 1 := by
  intro s k hs
  cases hhit : hit inj (s.n + 1) with
  | some e =>
    refine .inl ⟨{ s with n := s.n + 1, log := q :: s.log }, e, ?_, hs⟩
    simp only [run, hhit]
  | none =>
    obtain ⟨s2, hex, hc, hn, hch⟩ := hq { s with n := s.n + 1, log := q :: s.log } hs
    refine .inr ⟨s2, ?_, hc, hch, hn, ?_⟩
    · simp only [run, hhit, hex]
      have : bump { s with n := s.n + 1, log := q :: s.log } s2 = s2 := by
        unfold bump; rw [if_pos]; rw [hc]; exact hs.symm
      rw [this]
    · intro i hi h
      have : i.k = s.n + 1 := by omega
      simp [hit, hi, this] at hhit

theorem QS_dyn {sch inj K cnt} (F : St → Prog → Prog)
    (h : ∀ s : St, s.core = K → QS sch inj (F s) K cnt) :
    QS sch inj (fun k => .dyn fun s => F s k) K cnt := by
  intro s k hs
  have := h s hs s k hs
  simpa only [run] using this

theorem QStop_dyn {sch inj K} (F : St → Prog → Prog)
    (h : ∀ s : St, s.core = K → QStop sch inj (F s) K) :
    QStop sch inj (fun k => .dyn fun s => F s k) K := by
  intro s k hs
  have := h s hs s k hs
  simpa only [run] using this

theorem QStop_fail (sch inj K) (e : Err) : QStop sch inj (fun _ => .fail e) K := by
  intro s k hs
  exact ⟨s, e, by simp [run], hs⟩

theorem QS_foldr {sch inj K} {α} (seg : α → Prog → Prog) (xs : List α)
    (h : ∀ x ∈ xs, QS sch inj (seg x) K 1) :
    QS sch inj (fun k => xs.foldr (fun x acc => seg x acc) k) K xs.length := by
  induction xs with
  | nil => exact QS_id sch inj K
  | cons x xs ih =>
    have h1 := h x (by simp)
    have h2 := ih (fun y hy => h y (by simp [hy]))
    have := QS_comp h1 h2
    simpa [List.foldr_cons, Nat.add_comm] using this

/-! ## the database side: statements that change nothing -/

theorem list_set_getD_eq {α} (l : List α) (i : Nat) (d : α) : l.set i (l.getD i d) = l := by
  by_cases h : i < l.length
  · exact list_set_getD_self l i d h
  · exact List.set_eq_of_length_le (by omega)

theorem exec_select_ok (sch : Schema) (c : Nat) (s : St) :
    ∃ s2, exec sch (.select c) s = .ok s2 ∧ s2.core = s.core ∧ s2.n = s.n ∧ s2.changes = s.changes :=
  ⟨s, rfl, rfl, rfl, rfl⟩

/-- no link row of table `t` mentions `vid` on the given side -/
def linksQuiet (K : Core) (t : Nat) (side : Bool) (vid : Nat) : Bool :=
  (K.links.getD t []).all fun l => (if side then l.2 else l.1) != vid

theorem exec_delLinks_quiet (sch : Schema) (t : Nat) (side : Bool) (vid : Nat) (s : St)
    (h : linksQuiet s.core t side vid = true) :
    ∃ s2, exec sch (.delLinks t side vid) s = .ok s2 ∧ s2.core = s.core ∧ s2.n = s.n ∧ s2.changes = s.changes := by
  refine ⟨_, rfl, ?_, rfl, rfl⟩
  have hf : ((s.core.links.getD t []).filter fun l => (if side then l.2 else l.1) != vid) = s.core.links.getD t [] :=
    List.filter_eq_self.mpr (by simpa [linksQuiet] using h)
  show ({ s.core with links := s.core.links.set t _ } : Core) = s.core
  rw [hf, list_set_getD_eq]


/-! ## the entries of the dependents loop -/

/-- core-level readings of the tables (the segments read `s.tab`, i.e. `s.core.tabs`) -/
def restrictingRowsK (K : Core) (fk : List (Nat × Pol)) (kidx vid : Nat) : Bool :=
  (K.tabs.getD kidx []).any fun r => rowRefs (restrictCols fk) vid r.vals

def refRowsK (K : Core) (fk : List (Nat × Pol)) (kidx vid : Nat) : List Row :=
  (K.tabs.getD kidx []).filter fun r => rowRefs fk vid r.vals

theorem restrictingRows_eq (s : St) (fk kidx vid) : restrictingRows s fk kidx vid = restrictingRowsK s.core fk kidx vid := rfl
theorem refRows_eq (s : St) (fk kidx vid) : refRows s fk kidx vid = refRowsK s.core fk kidx vid := rfl

theorem QS_freeLinks (sch inj K) (kc : Cls) (c vid : Nat)
    (h : ((kc.joins.filter fun j => j.other == c).all fun j => linksQuiet K j.tab (!j.side) vid) = true) :
    QS sch inj (freeLinksSeg kc c vid) K (kc.joins.filter fun j => j.other == c).length := by
  unfold freeLinksSeg
  refine QS_foldr (fun (j : Join) k => Prog.stmt (.delLinks j.tab (!j.side) vid) k) _ ?_
  intro j hj
  apply QS_stmt
  intro s hs
  subst hs
  exact exec_delLinks_quiet _ _ _ _ s ((List.all_eq_true.mp h) j hj)

theorem QS_ownLinks (sch inj K) (cl : Cls) (id : Nat)
    (h : (cl.joins.all fun j => linksQuiet K j.tab j.side id) = true) :
    QS sch inj (ownLinksSeg cl id) K cl.joins.length := by
  unfold ownLinksSeg
  refine QS_foldr (fun (j : Join) k => Prog.stmt (.delLinks j.tab j.side id) k) _ ?_
  intro j hj
  apply QS_stmt
  intro s hs
  subst hs
  exact exec_delLinks_quiet _ _ _ _ s ((List.all_eq_true.mp h) j hj)

def restrictCnt (fk : List (Nat × Pol)) : Nat := if (restrictCols fk).isEmpty then 0 else 1
def nullCnt (fk : List (Nat × Pol)) : Nat := if (nullCols fk).isEmpty then 0 else 1
def cascadeCnt (fk : List (Nat × Pol)) : Nat := if hasCascade fk then 1 else 0

/-- the restriction test is effect-free whatever it finds -/
theorem QS_restrict (sch inj K) (fk : List (Nat × Pol)) (kidx vid : Nat) :
    QS sch inj (restrictSeg fk kidx vid) K (restrictCnt fk) := by
  unfold restrictSeg restrictCnt
  split
  · exact QS_id sch inj K
  · have h1 : QS sch inj (fun k => Prog.stmt (.select kidx) k) K 1 :=
      QS_stmt _ (fun s hs => by obtain ⟨s2, h⟩ := exec_select_ok sch kidx s; exact ⟨s2, h.1, h.2.1 ▸ hs, h.2.2⟩)
    have h2 : QS sch inj (fun k => Prog.dyn fun s => if restrictingRows s fk kidx vid then .fail .integrity else k) K 0 := by
      apply QS_dyn (fun s k => if restrictingRows s fk kidx vid then .fail .integrity else k)
      intro s hs
      by_cases hr : restrictingRows s fk kidx vid = true
      · intro s' k hs'
        simp only [hr, if_true]
        exact .inl ⟨s', .integrity, by simp [run], hs'⟩
      · simp only [hr]
        exact QS_id sch inj K
    exact QS_comp h1 h2

/-- … and it stops the operation when a row references the victim through a `cascade=False` key -/
theorem QStop_restrict (sch inj K) (fk : List (Nat × Pol)) (kidx vid : Nat)
    (h : restrictingRowsK K fk kidx vid = true) : QStop sch inj (restrictSeg fk kidx vid) K := by
  have hne : (restrictCols fk).isEmpty = false := by
    cases hh : (restrictCols fk) with
    | nil => simp [restrictingRowsK, hh, rowRefs] at h
    | cons a l => rfl
  unfold restrictSeg
  simp only [hne]
  have h1 : QS sch inj (fun k => Prog.stmt (.select kidx) k) K 1 :=
    QS_stmt _ (fun s hs => by obtain ⟨s2, h⟩ := exec_select_ok sch kidx s; exact ⟨s2, h.1, h.2.1 ▸ hs, h.2.2⟩)
  have h2 : QStop sch inj (fun k => Prog.dyn fun s => if restrictingRows s fk kidx vid then .fail .integrity else k) K := by
    apply QStop_dyn (fun s k => if restrictingRows s fk kidx vid then .fail .integrity else k)
    intro s hs s' k hs'
    rw [restrictingRows_eq, hs, h]
    exact ⟨s', .integrity, by simp [run], hs'⟩
  exact QS_stop_comp h1 h2

theorem QS_null (sch inj K) (fk : List (Nat × Pol)) (kidx vid : Nat)
    (h : refRowsK K fk kidx vid = []) : QS sch inj (nullSeg sch fk kidx vid) K (nullCnt fk) := by
  unfold nullSeg nullCnt
  split
  · exact QS_id sch inj K
  · have h1 : QS sch inj (fun k => Prog.stmt (.select kidx) k) K 1 :=
      QS_stmt _ (fun s hs => by obtain ⟨s2, h⟩ := exec_select_ok sch kidx s; exact ⟨s2, h.1, h.2.1 ▸ hs, h.2.2⟩)
    refine QS_comp (b := 0) h1 ?_
    apply QS_dyn (fun s k => fetchAll kidx (refRows s fk kidx vid) <| (refRows s fk kidx vid).foldr
        (fun r acc => .dyn fun s1 =>
          let vs := instVals s1 kidx r.id r.vals
          let clear := (nullCols fk).filter fun j => vs.getD j none == some (Int.ofNat vid)
          setProg sch kidx r.id (clear.map fun j => (j, In.ok none)) [] <|
            (if (clsOf sch kidx).lazy then syncProg kidx r.id acc else acc)) k)
    intro s hs
    rw [refRows_eq, hs, h]
    exact QS_id sch inj K

theorem QS_cascade (sch inj K) (rec : Nat → Nat → Prog → Prog) (fk : List (Nat × Pol)) (kidx vid : Nat)
    (h : refRowsK K fk kidx vid = []) : QS sch inj (cascadeSeg rec fk kidx vid) K (cascadeCnt fk) := by
  unfold cascadeSeg cascadeCnt
  split
  · have h1 : QS sch inj (fun k => Prog.stmt (.select kidx) k) K 1 :=
      QS_stmt _ (fun s hs => by obtain ⟨s2, h⟩ := exec_select_ok sch kidx s; exact ⟨s2, h.1, h.2.1 ▸ hs, h.2.2⟩)
    refine QS_comp (b := 0) h1 ?_
    apply QS_dyn (fun s k => fetchAll kidx (refRows s fk kidx vid) <|
      (refRows s fk kidx vid).foldr (fun r acc => rec kidx r.id acc) k)
    intro s hs
    rw [refRows_eq, hs, h]
    exact QS_id sch inj K
  · exact QS_id sch inj K


def entryFk (sch : Schema) (c kidx : Nat) : List (Nat × Pol) := fkCols (clsOf sch kidx).cols c

/-- no link row of class `kidx`'s joins towards the victim's class mentions the victim -/
def EntryLinksQuiet (sch : Schema) (K : Core) (c vid kidx : Nat) : Bool :=
  ((clsOf sch kidx).joins.filter fun j => j.other == c).all fun j => linksQuiet K j.tab (!j.side) vid

/-- some row of class `kidx` references the victim through a `cascade=False` key -/
def EntryRefuses (sch : Schema) (K : Core) (c vid kidx : Nat) : Bool :=
  restrictingRowsK K (entryFk sch c kidx) kidx vid

/-- class `kidx` has nothing to do for this victim: no link rows, no referencing row (any policy) -/
def EntryPasses (sch : Schema) (K : Core) (c vid kidx : Nat) : Bool :=
  EntryLinksQuiet sch K c vid kidx && (refRowsK K (entryFk sch c kidx) kidx vid).isEmpty

/-- the statements a passing entry sends: one DELETE per join, the COUNT of the restriction test,
    the SELECT of the null pass, the SELECT of the cascade pass -/
def entryCnt (sch : Schema) (c kidx : Nat) : Nat :=
  ((clsOf sch kidx).joins.filter fun j => j.other == c).length +
    (restrictCnt (entryFk sch c kidx) + (nullCnt (entryFk sch c kidx) + cascadeCnt (entryFk sch c kidx)))

theorem fk_empty_cnt (fk : List (Nat × Pol)) (h : fk.isEmpty = true) :
    restrictCnt fk + (nullCnt fk + cascadeCnt fk) = 0 := by
  have : fk = [] := by simpa using h
  subst this
  simp [restrictCnt, nullCnt, cascadeCnt, restrictCols, nullCols, hasCascade]

theorem QS_entry_pass (sch inj K) (rec : Nat → Nat → Prog → Prog) (c vid kidx : Nat)
    (h : EntryPasses sch K c vid kidx = true) :
    QS sch inj (depEntry rec sch c vid kidx) K (entryCnt sch c kidx) := by
  simp only [EntryPasses, Bool.and_eq_true, List.isEmpty_iff] at h
  obtain ⟨hl, hr⟩ := h
  unfold depEntry entryCnt
  simp only
  split
  · rename_i hfk
    rw [show entryFk sch c kidx = fkCols (clsOf sch kidx).cols c from rfl, fk_empty_cnt _ hfk, Nat.add_zero]
    exact QS_freeLinks sch inj K _ c vid hl
  · exact QS_comp (QS_freeLinks sch inj K _ c vid hl)
      (QS_comp (QS_restrict sch inj K _ kidx vid)
        (QS_comp (QS_null sch inj K _ kidx vid hr) (QS_cascade sch inj K rec _ kidx vid hr)))

theorem QStop_entry_refuse (sch inj K) (rec : Nat → Nat → Prog → Prog) (c vid kidx : Nat)
    (hl : EntryLinksQuiet sch K c vid kidx = true) (hr : EntryRefuses sch K c vid kidx = true) :
    QStop sch inj (depEntry rec sch c vid kidx) K := by
  have hne : (fkCols (clsOf sch kidx).cols c).isEmpty = false := by
    cases hh : fkCols (clsOf sch kidx).cols c with
    | nil => simp [EntryRefuses, entryFk, hh, restrictingRowsK, restrictCols, rowRefs] at hr
    | cons a l => rfl
  unfold depEntry
  simp only [hne]
  exact QS_stop_comp (QS_freeLinks sch inj K _ c vid hl)
    (QStop_comp (g := fun k => nullSeg sch _ kidx vid (cascadeSeg rec _ kidx vid k))
      (QStop_restrict sch inj K _ kidx vid hr))

def loopCnt (sch : Schema) (c : Nat) (ks : List Nat) : Nat := (ks.map (entryCnt sch c)).sum

theorem QS_depLoop_pass (sch inj K) (rec : Nat → Nat → Prog → Prog) (c vid : Nat) (ks : List Nat)
    (h : ∀ kidx ∈ ks, EntryPasses sch K c vid kidx = true) :
    QS sch inj (depLoop rec sch c vid ks) K (loopCnt sch c ks) := by
  induction ks with
  | nil => exact QS_id sch inj K
  | cons x xs ih =>
    have h1 := QS_entry_pass sch inj K rec c vid x (h x (by simp))
    have h2 := ih (fun y hy => h y (by simp [hy]))
    have := QS_comp h1 h2
    have e1 : depLoop rec sch c vid (x :: xs) = fun k => depEntry rec sch c vid x (depLoop rec sch c vid xs k) := rfl
    have e2 : loopCnt sch c (x :: xs) = entryCnt sch c x + loopCnt sch c xs := by simp [loopCnt]
    rw [e1, e2]; exact this

theorem depLoop_append (rec : Nat → Nat → Prog → Prog) (sch : Schema) (c vid : Nat) (l1 l2 : List Nat) (k : Prog) :
    depLoop rec sch c vid (l1 ++ l2) k = depLoop rec sch c vid l1 (depLoop rec sch c vid l2 k) := by
  simp [depLoop, List.foldr_append]

/-- **destroySelf, syntactically.**  Victim `(c, id)` of a non-inheritable class; `pre` = the classes
    of the registry visited first, all with nothing to do (no link rows, no referencing rows); the
    victim has no link rows of its own.  If then the next class refuses (a row references the victim
    through a `cascade=False` key), or the injected error falls on one of the statements sent so far,
    or there is no further class, a failure of the operation is a no-op. -/
theorem destroy_noop_syn (sch : Schema) (inj : Option Inj) (fuel c id : Nat) (s s' : St) (e : Err)
    (pre post : List Nat)
    (hpar : (clsOf sch c).parent = none)
    (hsplit : List.range sch.length = pre ++ post)
    (hown : ((clsOf sch c).joins.all fun j => linksQuiet s.core j.tab j.side id) = true)
    (hpre : ∀ kidx ∈ pre, EntryPasses sch s.core c id kidx = true)
    (hstop : (∃ r rest, post = r :: rest ∧ EntryLinksQuiet sch s.core c id r = true ∧ EntryRefuses sch s.core c id r = true) ∨
             (∃ i, inj = some i ∧ s.n < i.k ∧ i.k ≤ s.n + ((clsOf sch c).joins.length + loopCnt sch c pre)) ∨
             post = [])
    (h : run sch inj (destroyProg sch (fuel + 1) c id .done) s = (s', some e)) : s'.core = s.core := by
  unfold destroyProg at h
  simp only [hpar, run, hsplit, depLoop_append] at h
  have hA := QS_comp (QS_ownLinks sch inj s.core (clsOf sch c) id hown)
    (QS_depLoop_pass sch inj s.core (destroyProg sch fuel) c id pre hpre)
  rcases hA s (depLoop (destroyProg sch fuel) sch c id post (destroyTail c id .done)) rfl with
    ⟨s1, e1, h1, hc⟩ | ⟨s1, h1, hc, _, hn, hno⟩
  · rw [h1] at h
    simp only [Prod.mk.injEq] at h
    rw [← h.1, hc]
  · rw [h1] at h
    rcases hstop with ⟨r, rest, hp, hl, hr⟩ | ⟨i, hi, hlt, hle⟩ | hp
    · subst hp
      obtain ⟨s2, e2, h2, hc2⟩ := QStop_entry_refuse sch inj s.core (destroyProg sch fuel) c id r hl hr s1
        (depLoop (destroyProg sch fuel) sch c id rest (destroyTail c id .done)) hc
      have : depLoop (destroyProg sch fuel) sch c id (r :: rest) (destroyTail c id .done) =
          depEntry (destroyProg sch fuel) sch c id r (depLoop (destroyProg sch fuel) sch c id rest (destroyTail c id .done)) := rfl
      rw [this, h2] at h
      simp only [Prod.mk.injEq] at h
      rw [← h.1, hc2]
    · exact absurd ⟨hlt, hle⟩ (hno i hi)
    · subst hp
      have : depLoop (destroyProg sch fuel) sch c id [] (destroyTail c id .done) = destroyTail c id .done := rfl
      rw [this] at h
      unfold destroyTail at h
      rw [run_stmt_tail sch inj _ _ s1 s' e (by intro s2; simp [run]) h, hc]


/-! ## the statement that is hit: whatever comes next, failing AT its first statement changes nothing -/

/-- if the next statement to be sent is the one the injected error falls on, the program stops
    there with an unchanged core -/
def HeadQuiet (sch : Schema) (inj : Option Inj) (p : Prog) : Prop :=
  ∀ (s : St) (e0 : Err), hit inj (s.n + 1) = some e0 →
    ∃ s1 e, run sch inj p s = (s1, some e) ∧ s1.core = s.core

theorem HeadQuiet_stmt (sch inj) (q : Stmt) (k : Prog) : HeadQuiet sch inj (.stmt q k) := by
  intro s e0 h
  exact ⟨{ s with n := s.n + 1, log := q :: s.log }, e0, by simp only [run, h], rfl⟩

theorem HeadQuiet_freeLinks (sch inj) (kc : Cls) (c vid : Nat) (k : Prog) (hk : HeadQuiet sch inj k) :
    HeadQuiet sch inj (freeLinksSeg kc c vid k) := by
  unfold freeLinksSeg
  cases (kc.joins.filter fun j => j.other == c) with
  | nil => exact hk
  | cons j js => exact HeadQuiet_stmt sch inj _ _

theorem HeadQuiet_restrict (sch inj) (fk : List (Nat × Pol)) (kidx vid : Nat) (k : Prog) (hk : HeadQuiet sch inj k) :
    HeadQuiet sch inj (restrictSeg fk kidx vid k) := by
  unfold restrictSeg; split
  · exact hk
  · exact HeadQuiet_stmt sch inj _ _

theorem HeadQuiet_null (sch inj) (fk : List (Nat × Pol)) (kidx vid : Nat) (k : Prog) (hk : HeadQuiet sch inj k) :
    HeadQuiet sch inj (nullSeg sch fk kidx vid k) := by
  unfold nullSeg; split
  · exact hk
  · exact HeadQuiet_stmt sch inj _ _

theorem HeadQuiet_cascade (sch inj) (rec : Nat → Nat → Prog → Prog) (fk : List (Nat × Pol)) (kidx vid : Nat) (k : Prog)
    (hk : HeadQuiet sch inj k) : HeadQuiet sch inj (cascadeSeg rec fk kidx vid k) := by
  unfold cascadeSeg; split
  · exact HeadQuiet_stmt sch inj _ _
  · exact hk

/-- an entry is the composition of its four segments also when the class has no key to the victim -/
theorem depEntry_eq (rec : Nat → Nat → Prog → Prog) (sch : Schema) (c vid kidx : Nat) (k : Prog) :
    depEntry rec sch c vid kidx k =
      freeLinksSeg (clsOf sch kidx) c vid (restrictSeg (entryFk sch c kidx) kidx vid
        (nullSeg sch (entryFk sch c kidx) kidx vid (cascadeSeg rec (entryFk sch c kidx) kidx vid k))) := by
  unfold depEntry entryFk
  simp only
  split
  · rename_i h
    have : fkCols (clsOf sch kidx).cols c = [] := by simpa using h
    rw [this]
    simp [restrictSeg, nullSeg, cascadeSeg, restrictCols, nullCols, hasCascade]
  · rfl

theorem HeadQuiet_entry (sch inj) (rec : Nat → Nat → Prog → Prog) (c vid kidx : Nat) (k : Prog)
    (hk : HeadQuiet sch inj k) : HeadQuiet sch inj (depEntry rec sch c vid kidx k) := by
  rw [depEntry_eq]
  exact HeadQuiet_freeLinks _ _ _ _ _ _ (HeadQuiet_restrict _ _ _ _ _ _ (HeadQuiet_null _ _ _ _ _ _
    (HeadQuiet_cascade _ _ _ _ _ _ _ hk)))

theorem HeadQuiet_depLoop (sch inj) (rec : Nat → Nat → Prog → Prog) (c vid : Nat) (ks : List Nat) (k : Prog)
    (hk : HeadQuiet sch inj k) : HeadQuiet sch inj (depLoop rec sch c vid ks k) := by
  induction ks with
  | nil => exact hk
  | cons x xs ih => exact HeadQuiet_entry sch inj rec c vid x _ ih

theorem HeadQuiet_tail (sch inj) (c id : Nat) (k : Prog) : HeadQuiet sch inj (destroyTail c id k) :=
  HeadQuiet_stmt sch inj _ _

/-- the head of a non-passing entry whose link rows are quiet: the join DELETEs and the restriction
    test are effect-free -/
theorem QS_entry_head (sch inj K) (c vid kidx : Nat)
    (hl : EntryLinksQuiet sch K c vid kidx = true) :
    QS sch inj (fun k => freeLinksSeg (clsOf sch kidx) c vid (restrictSeg (entryFk sch c kidx) kidx vid k)) K
      (((clsOf sch kidx).joins.filter fun j => j.other == c).length + restrictCnt (entryFk sch c kidx)) :=
  QS_comp (QS_freeLinks sch inj K _ c vid hl) (QS_restrict sch inj K _ kidx vid)

def headCnt (sch : Schema) (K : Core) (c vid : Nat) (post : List Nat) : Nat :=
  match post with
  | [] => 0
  | r :: _ => if EntryLinksQuiet sch K c vid r then
      ((clsOf sch r).joins.filter fun j => j.other == c).length + restrictCnt (entryFk sch c r) else 0

/-- **destroySelf, syntactically, with the statement that is hit.**  As `destroy_noop_syn`; the
    injected error may also fall on the first statement after the classes with nothing to do, or —
    when the next class has no link rows to free — on its join DELETEs, its restriction test, or
    the statement after them. -/
theorem destroy_noop_syn_hit (sch : Schema) (inj : Option Inj) (fuel c id : Nat) (s s' : St) (e : Err)
    (pre post : List Nat)
    (hpar : (clsOf sch c).parent = none)
    (hsplit : List.range sch.length = pre ++ post)
    (hown : ((clsOf sch c).joins.all fun j => linksQuiet s.core j.tab j.side id) = true)
    (hpre : ∀ kidx ∈ pre, EntryPasses sch s.core c id kidx = true)
    (hstop : ∃ i, inj = some i ∧ s.n < i.k ∧
      i.k ≤ s.n + ((clsOf sch c).joins.length + loopCnt sch c pre + headCnt sch s.core c id post) + 1)
    (h : run sch inj (destroyProg sch (fuel + 1) c id .done) s = (s', some e)) : s'.core = s.core := by
  obtain ⟨i, hi, hlt, hle⟩ := hstop
  unfold destroyProg at h
  simp only [hpar, run, hsplit, depLoop_append] at h
  have hA := QS_comp (QS_ownLinks sch inj s.core (clsOf sch c) id hown)
    (QS_depLoop_pass sch inj s.core (destroyProg sch fuel) c id pre hpre)
  have hhit : ∀ n, n = i.k → hit inj n = some i.err := by intro n hn; simp [hit, hi, hn]
  -- finish from a state `s1` that reached statement count `i.k - 1` with an unchanged core
  have fin : ∀ (p : Prog) (s1 : St), HeadQuiet sch inj p → s1.core = s.core → s1.n + 1 = i.k →
      run sch inj p s1 = (s', some e) → s'.core = s.core := by
    intro p s1 hp hc hn hr
    obtain ⟨s2, e2, h2, hc2⟩ := hp s1 i.err (hhit _ hn)
    rw [h2] at hr
    simp only [Prod.mk.injEq] at hr
    rw [← hr.1, hc2, hc]
  rcases hA s (depLoop (destroyProg sch fuel) sch c id post (destroyTail c id .done)) rfl with
    ⟨s1, e1, h1, hc⟩ | ⟨s1, h1, hc, _, hn, hno⟩
  · rw [h1] at h
    simp only [Prod.mk.injEq] at h
    rw [← h.1, hc]
  · rw [h1] at h
    have hgt : s.n + ((clsOf sch c).joins.length + loopCnt sch c pre) < i.k := by
      have := hno i hi; omega
    cases post with
    | nil =>
      simp only [headCnt, Nat.add_zero] at hle
      exact fin _ s1 (HeadQuiet_depLoop sch inj _ c id [] _ (HeadQuiet_tail sch inj c id _)) hc (by omega) h
    | cons r rest =>
      by_cases hl : EntryLinksQuiet sch s.core c id r = true
      · simp only [headCnt, hl, if_true] at hle
        have e1 : depLoop (destroyProg sch fuel) sch c id (r :: rest) (destroyTail c id .done) =
            depEntry (destroyProg sch fuel) sch c id r (depLoop (destroyProg sch fuel) sch c id rest (destroyTail c id .done)) := rfl
        rw [e1, depEntry_eq] at h
        rcases QS_entry_head sch inj s.core c id r hl s1 _ hc with ⟨s2, e2, h2, hc2⟩ | ⟨s2, h2, hc2, _, hn2, hno2⟩
        · rw [h2] at h
          simp only [Prod.mk.injEq] at h
          rw [← h.1, hc2]
        · rw [h2] at h
          have := hno2 i hi
          exact fin _ s2 (HeadQuiet_null _ _ _ _ _ _ (HeadQuiet_cascade _ _ _ _ _ _ _
            (HeadQuiet_depLoop sch inj _ c id rest _ (HeadQuiet_tail sch inj c id _)))) hc2 (by omega) h
      · simp only [headCnt, hl, Bool.false_eq_true, if_false, Nat.add_zero] at hle
        exact fin _ s1 (HeadQuiet_depLoop sch inj _ c id (r :: rest) _ (HeadQuiet_tail sch inj c id _)) hc (by omega) h


theorem HeadQuiet_fail (sch inj) (e : Err) : HeadQuiet sch inj (.fail e) := by
  intro s e0 _
  exact ⟨s, e, by simp [run], rfl⟩

theorem HeadQuiet_event (sch inj) (n : Nat) (k : Prog) (hk : HeadQuiet sch inj k) : HeadQuiet sch inj (.event n k) := by
  intro s e0 h
  obtain ⟨s1, e, h1, hc⟩ := hk s e0 h
  exact ⟨s1, e, by simpa only [run] using h1, hc⟩

theorem HeadQuiet_ownLinks (sch inj) (cl : Cls) (id : Nat) (k : Prog) (hk : HeadQuiet sch inj k) :
    HeadQuiet sch inj (ownLinksSeg cl id k) := by
  unfold ownLinksSeg
  cases cl.joins with
  | nil => exact hk
  | cons j js => exact HeadQuiet_stmt sch inj _ _

/-- whatever the victim (inheritable or not, referenced or not): an error at the first statement of
    `destroySelf` finds nothing changed -/
theorem HeadQuiet_destroy (sch inj) : ∀ (fuel c id : Nat) (k : Prog), HeadQuiet sch inj (destroyProg sch fuel c id k) := by
  intro fuel
  induction fuel with
  | zero => intro c id k; unfold destroyProg; exact HeadQuiet_fail sch inj _
  | succ fuel ih =>
    intro c id k
    unfold destroyProg
    simp only
    split
    · exact ih _ _ _
    · exact HeadQuiet_event _ _ _ _ (HeadQuiet_ownLinks _ _ _ _ _ (HeadQuiet_depLoop _ _ _ _ _ _ _ (HeadQuiet_tail _ _ _ _ _)))


/-! ## quiet segments that certainly pass (no later statement is hit, nothing refuses) -/

def QP (sch : Schema) (inj : Option Inj) (seg : Prog → Prog) (K : Core) : Prop :=
  ∀ (s : St) (k : Prog), s.core = K → (∀ n, s.n < n → hit inj n = none) →
    ∃ s1, run sch inj (seg k) s = run sch inj k s1 ∧ s1.core = K ∧ s.n ≤ s1.n

theorem QP_id (sch inj K) : QP sch inj (fun k => k) K := by
  intro s k hs _; exact ⟨s, rfl, hs, Nat.le_refl _⟩

theorem QP_comp {sch inj K} {f g : Prog → Prog} (hf : QP sch inj f K) (hg : QP sch inj g K) :
    QP sch inj (fun k => f (g k)) K := by
  intro s k hs hno
  obtain ⟨s1, h1, hc1, hn1⟩ := hf s (g k) hs hno
  obtain ⟨s2, h2, hc2, hn2⟩ := hg s1 k hc1 (fun n hn => hno n (by omega))
  exact ⟨s2, by rw [h1, h2], hc2, by omega⟩

theorem QP_stmt {sch inj K} (q : Stmt)
    (hq : ∀ s : St, s.core = K → ∃ s2, exec sch q s = .ok s2 ∧ s2.core = K ∧ s2.n = s.n ∧ s2.changes = s.changes) :
    QP sch inj (fun k => .stmt q k) K := by
  intro s k hs hno
  obtain ⟨s2, hex, hc, hn, _⟩ := hq { s with n := s.n + 1, log := q :: s.log } hs
  refine ⟨s2, ?_, hc, by rw [hn]; simp⟩
  simp only [run, hno (s.n + 1) (by omega), hex]
  have : bump { s with n := s.n + 1, log := q :: s.log } s2 = s2 := by
    unfold bump; rw [if_pos]; rw [hc]; exact hs.symm
  rw [this]

theorem QP_dyn {sch inj K} (F : St → Prog → Prog) (h : ∀ s : St, s.core = K → QP sch inj (F s) K) :
    QP sch inj (fun k => .dyn fun s => F s k) K := by
  intro s k hs hno
  have := h s hs s k hs hno
  simpa only [run] using this

theorem QP_foldr {sch inj K} {α} (seg : α → Prog → Prog) (xs : List α)
    (h : ∀ x ∈ xs, QP sch inj (seg x) K) : QP sch inj (fun k => xs.foldr (fun x acc => seg x acc) k) K := by
  induction xs with
  | nil => exact QP_id sch inj K
  | cons x xs ih =>
    exact QP_comp (h x (by simp)) (ih (fun y hy => h y (by simp [hy])))

theorem QP_select (sch inj K) (kidx : Nat) : QP sch inj (fun k => Prog.stmt (.select kidx) k) K :=
  QP_stmt _ (fun s hs => by obtain ⟨s2, h⟩ := exec_select_ok sch kidx s; exact ⟨s2, h.1, h.2.1 ▸ hs, h.2.2⟩)

theorem QP_freeLinks (sch inj K) (kc : Cls) (c vid : Nat)
    (h : ((kc.joins.filter fun j => j.other == c).all fun j => linksQuiet K j.tab (!j.side) vid) = true) :
    QP sch inj (freeLinksSeg kc c vid) K := by
  unfold freeLinksSeg
  refine QP_foldr (fun (j : Join) k => Prog.stmt (.delLinks j.tab (!j.side) vid) k) _ ?_
  intro j hj
  apply QP_stmt
  intro s hs
  subst hs
  exact exec_delLinks_quiet _ _ _ _ s ((List.all_eq_true.mp h) j hj)

theorem QP_ownLinks (sch inj K) (cl : Cls) (id : Nat)
    (h : (cl.joins.all fun j => linksQuiet K j.tab j.side id) = true) : QP sch inj (ownLinksSeg cl id) K := by
  unfold ownLinksSeg
  refine QP_foldr (fun (j : Join) k => Prog.stmt (.delLinks j.tab j.side id) k) _ ?_
  intro j hj
  apply QP_stmt
  intro s hs
  subst hs
  exact exec_delLinks_quiet _ _ _ _ s ((List.all_eq_true.mp h) j hj)

/-- no referencing row at all: in particular none through a `cascade=False` key -/
theorem restricting_of_refRows_nil (K : Core) (fk : List (Nat × Pol)) (kidx vid : Nat)
    (h : refRowsK K fk kidx vid = []) : restrictingRowsK K fk kidx vid = false := by
  unfold restrictingRowsK
  rw [Bool.eq_false_iff]
  intro hany
  obtain ⟨r, hr, hrr⟩ := List.any_eq_true.mp hany
  have : r ∈ refRowsK K fk kidx vid := by
    unfold refRowsK
    refine List.mem_filter.mpr ⟨hr, ?_⟩
    unfold rowRefs restrictCols at hrr
    unfold rowRefs
    obtain ⟨a, ha, hav⟩ := List.any_eq_true.mp hrr
    exact List.any_eq_true.mpr ⟨a, (List.mem_filter.mp ha).1, hav⟩
  rw [h] at this; cases this

theorem QP_restrict (sch inj K) (fk : List (Nat × Pol)) (kidx vid : Nat)
    (h : restrictingRowsK K fk kidx vid = false) : QP sch inj (restrictSeg fk kidx vid) K := by
  unfold restrictSeg
  split
  · exact QP_id sch inj K
  · refine QP_comp (QP_select sch inj K kidx) ?_
    apply QP_dyn (fun s k => if restrictingRows s fk kidx vid then .fail .integrity else k)
    intro s hs
    rw [restrictingRows_eq, hs, h]
    exact QP_id sch inj K

theorem QP_null (sch inj K) (fk : List (Nat × Pol)) (kidx vid : Nat)
    (h : refRowsK K fk kidx vid = []) : QP sch inj (nullSeg sch fk kidx vid) K := by
  unfold nullSeg
  split
  · exact QP_id sch inj K
  · refine QP_comp (QP_select sch inj K kidx) ?_
    apply QP_dyn (fun s k => fetchAll kidx (refRows s fk kidx vid) <| (refRows s fk kidx vid).foldr
        (fun r acc => .dyn fun s1 =>
          let vs := instVals s1 kidx r.id r.vals
          let clear := (nullCols fk).filter fun j => vs.getD j none == some (Int.ofNat vid)
          setProg sch kidx r.id (clear.map fun j => (j, In.ok none)) [] <|
            (if (clsOf sch kidx).lazy then syncProg kidx r.id acc else acc)) k)
    intro s hs
    rw [refRows_eq, hs, h]
    exact QP_id sch inj K

theorem QP_cascade (sch inj K) (rec : Nat → Nat → Prog → Prog) (fk : List (Nat × Pol)) (kidx vid : Nat)
    (h : refRowsK K fk kidx vid = []) : QP sch inj (cascadeSeg rec fk kidx vid) K := by
  unfold cascadeSeg
  split
  · refine QP_comp (QP_select sch inj K kidx) ?_
    apply QP_dyn (fun s k => fetchAll kidx (refRows s fk kidx vid) <|
      (refRows s fk kidx vid).foldr (fun r acc => rec kidx r.id acc) k)
    intro s hs
    rw [refRows_eq, hs, h]
    exact QP_id sch inj K
  · exact QP_id sch inj K

theorem QP_entry_pass (sch inj K) (rec : Nat → Nat → Prog → Prog) (c vid kidx : Nat)
    (h : EntryPasses sch K c vid kidx = true) : QP sch inj (depEntry rec sch c vid kidx) K := by
  simp only [EntryPasses, Bool.and_eq_true, List.isEmpty_iff] at h
  obtain ⟨hl, hr⟩ := h
  have : depEntry rec sch c vid kidx = fun k => freeLinksSeg (clsOf sch kidx) c vid (restrictSeg (entryFk sch c kidx) kidx vid
        (nullSeg sch (entryFk sch c kidx) kidx vid (cascadeSeg rec (entryFk sch c kidx) kidx vid k))) := by
    funext k; exact depEntry_eq rec sch c vid kidx k
  rw [this]
  exact QP_comp (QP_freeLinks sch inj K _ c vid hl)
    (QP_comp (QP_restrict sch inj K _ kidx vid (restricting_of_refRows_nil K _ kidx vid hr))
      (QP_comp (QP_null sch inj K _ kidx vid hr) (QP_cascade sch inj K rec _ kidx vid hr)))

theorem QP_depLoop_pass (sch inj K) (rec : Nat → Nat → Prog → Prog) (c vid : Nat) (ks : List Nat)
    (h : ∀ kidx ∈ ks, EntryPasses sch K c vid kidx = true) : QP sch inj (depLoop rec sch c vid ks) K := by
  unfold depLoop
  exact QP_foldr (fun kidx acc => depEntry rec sch c vid kidx acc) ks
    (fun kidx hk => QP_entry_pass sch inj K rec c vid kidx (h kidx hk))

/-- a victim nobody references and without link rows: everything before the own DELETE is quiet -/
def AllPass (sch : Schema) (K : Core) (t vid : Nat) : Prop :=
  ((clsOf sch t).joins.all fun j => linksQuiet K j.tab j.side vid) = true ∧
  ∀ kidx ∈ List.range sch.length, EntryPasses sch K t vid kidx = true

theorem QP_destroy_head (sch inj K) (rec : Nat → Nat → Prog → Prog) (t vid : Nat) (h : AllPass sch K t vid) :
    QP sch inj (fun k => ownLinksSeg (clsOf sch t) vid (depLoop rec sch t vid (List.range sch.length) k)) K :=
  QP_comp (QP_ownLinks sch inj K _ vid h.1) (QP_depLoop_pass sch inj K rec t vid _ h.2)


/-! ## the converse: link rows never come back -/

/-- every link row of `K'` is a link row of `K` (same table) -/
def LinksSub (K' K : Core) : Prop := ∀ t, ∀ l ∈ K'.links.getD t [], l ∈ K.links.getD t []

theorem LinksSub_refl (K : Core) : LinksSub K K := fun _ _ h => h

theorem LinksSub_trans {A B C : Core} (h1 : LinksSub A B) (h2 : LinksSub B C) : LinksSub A C :=
  fun t l h => h2 t l (h1 t l h)

theorem LinksSub_of_eq {A B : Core} (h : A.links = B.links) : LinksSub A B := by
  intro t l hl; rw [← h]; exact hl

theorem exec_links_sub (sch : Schema) (q : Stmt) (s s2 : St) (h : exec sch q s = .ok s2) : LinksSub s2.core s.core := by
  unfold exec at h
  split at h
  · cases h; exact LinksSub_refl _
  · dsimp only at h
    split at h
    · cases h
    · split at h
      · cases h
      · cases h; exact LinksSub_of_eq rfl
  · dsimp only at h
    split at h
    · split at h
      · cases h
      · cases h; exact LinksSub_of_eq rfl
    · cases h; exact LinksSub_refl _
  · cases h; exact LinksSub_of_eq rfl
  · cases h
    rename_i t side id
    intro t' l hl
    simp only at hl
    by_cases ht : t = t'
    · subst ht
      by_cases hlen : t < s.core.links.length
      · rw [getD_set_eq' _ _ _ _ hlen] at hl
        exact (List.mem_filter.mp hl).1
      · rw [List.set_eq_of_length_le (by omega)] at hl; exact hl
    · rw [getD_set_ne' _ _ _ _ _ ht] at hl; exact hl
where
  getD_set_eq' {α} (l : List α) (i : Nat) (a d : α) (h : i < l.length) : (l.set i a).getD i d = a := by
    simp [List.getD, h]
  getD_set_ne' {α} (l : List α) (i j : Nat) (a d : α) (h : i ≠ j) : (l.set i a).getD j d = l.getD j d := by
    simp [List.getD, List.getElem?_set, h]

theorem applyMem_links (m : Mem) (K : Core) : (applyMem m K).links = K.links := by
  cases m <;> simp only [applyMem, mapInst] <;> (try rfl) <;> (split <;> try rfl) <;> (split <;> rfl)

/-- **For every program:** whatever it does, whatever fails, no link row appears that was not there. -/
theorem run_links_sub (sch : Schema) (inj : Option Inj) (p : Prog) :
    ∀ (s s' : St) (r : Option Err), run sch inj p s = (s', r) → LinksSub s'.core s.core := by
  induction p with
  | done => intro s s' r h; simp [run] at h; obtain ⟨rfl, _⟩ := h; exact LinksSub_refl _
  | fail e => intro s s' r h; simp [run] at h; obtain ⟨rfl, _⟩ := h; exact LinksSub_refl _
  | validate ok k ih =>
    intro s s' r h
    simp only [run] at h
    split at h
    · exact ih s s' r h
    · simp at h; obtain ⟨rfl, _⟩ := h; exact LinksSub_refl _
  | event sig k ih => intro s s' r h; simp only [run] at h; exact ih s s' r h
  | stmt q k ih =>
    intro s s' r h
    simp only [run] at h
    split at h
    · simp at h; obtain ⟨rfl, _⟩ := h; exact LinksSub_refl _
    · split at h
      · simp at h; obtain ⟨rfl, _⟩ := h; exact LinksSub_refl _
      · rename_i s2 hex
        have h1 := exec_links_sub sch q _ s2 hex
        have h2 := ih _ s' r h
        rw [bump_core] at h2
        exact LinksSub_trans h2 h1
  | mem m k ih =>
    intro s s' r h
    simp only [run] at h
    have h2 := ih _ s' r h
    rw [bump_core] at h2
    exact LinksSub_trans h2 (LinksSub_of_eq (applyMem_links m s.core))
  | dyn f ih => intro s s' r h; simp only [run] at h; exact ih s s s' r h
  | guard b hd k ihb ihh ihk =>
    intro s s' r h
    simp only [run] at h
    split at h
    · rename_i s1 hb
      exact LinksSub_trans (ihk s1 s' r h) (ihb s s1 none hb)
    · rename_i s1 e hb
      have h1 := ihb s s1 (some e) hb
      split at h
      · rename_i s2 hh
        simp at h; obtain ⟨rfl, _⟩ := h
        exact LinksSub_trans (ihh s1 s2 none hh) h1
      · rename_i s2 e2 hh
        simp at h; obtain ⟨rfl, _⟩ := h
        exact LinksSub_trans (ihh s1 s2 (some e2) hh) h1


theorem linksQuiet_of_sub {K' K : Core} (h : LinksSub K' K) (t : Nat) (side : Bool) (vid : Nat)
    (hq : linksQuiet K t side vid = true) : linksQuiet K' t side vid = true := by
  unfold linksQuiet at hq ⊢
  rw [List.all_eq_true] at hq ⊢
  intro l hl
  exact hq l (h t l hl)

theorem exec_delLinks_after (sch : Schema) (t : Nat) (side : Bool) (vid : Nat) (s : St) :
    ∃ s2, exec sch (.delLinks t side vid) s = .ok s2 ∧ linksQuiet s2.core t side vid = true := by
  refine ⟨_, rfl, ?_⟩
  unfold linksQuiet
  rw [List.all_eq_true]
  intro l hl
  simp only at hl
  by_cases hlen : t < s.core.links.length
  · rw [exec_links_sub.getD_set_eq' _ _ _ _ hlen] at hl
    exact (List.mem_filter.mp hl).2
  · rw [List.set_eq_of_length_le (by omega)] at hl
    have : s.core.links.getD t [] = [] := by simp [List.getD, List.getElem?_eq_none (by omega : s.core.links.length ≤ t)]
    rw [this] at hl; cases hl

/-- once the DELETE of a related join's link rows has run (uninjected), no row of that table
    mentions the victim, however the operation goes on and ends -/
theorem run_delLinks_fold_final (sch : Schema) (vid : Nat) (T : Join → Nat) (S : Join → Bool) :
    ∀ (js : List Join) (k : Prog) (s s' : St) (r : Option Err),
      run sch none (js.foldr (fun j acc => .stmt (.delLinks (T j) (S j) vid) acc) k) s = (s', r) →
      ∀ j ∈ js, linksQuiet s'.core (T j) (S j) vid = true := by
  intro js
  induction js with
  | nil => intro k s s' r _ j hj; cases hj
  | cons j0 js ih =>
    intro k s s' r h j hj
    simp only [List.foldr_cons, run, hit] at h
    obtain ⟨s2, hex, hq⟩ := exec_delLinks_after sch (T j0) (S j0) vid { s with n := s.n + 1, log := _ :: s.log }
    rw [hex] at h
    simp only at h
    rcases List.mem_cons.mp hj with rfl | hj
    · have hsub := run_links_sub sch none _ _ s' r h
      rw [bump_core] at hsub
      exact linksQuiet_of_sub hsub _ _ _ hq
    · exact ih k _ s' r h j hj

/-- the victim has link rows of its own: an uninjected `destroySelf` — however it ends — has deleted them -/
theorem destroy_own_links_changed (sch : Schema) (fuel c id : Nat) (k : Prog) (s s' : St) (r : Option Err)
    (hpar : (clsOf sch c).parent = none)
    (hloud : ((clsOf sch c).joins.all fun j => linksQuiet s.core j.tab j.side id) = false)
    (h : run sch none (destroyProg sch (fuel + 1) c id k) s = (s', r)) : s'.core ≠ s.core := by
  unfold destroyProg at h
  simp only [hpar, run, ownLinksSeg] at h
  have hfin := run_delLinks_fold_final sch id (fun j => j.tab) (fun j => j.side) _ _ s s' r h
  intro heq
  have : ((clsOf sch c).joins.all fun j => linksQuiet s.core j.tab j.side id) = true := by
    rw [List.all_eq_true]
    intro j hj
    rw [← heq]; exact hfin j hj
  rw [this] at hloud; cases hloud

/-- … and likewise when the first class with something to do has link rows towards the victim -/
theorem destroy_entry_links_changed (sch : Schema) (fuel c id : Nat) (s s' : St) (r : Option Err)
    (pre : List Nat) (m : Nat) (post : List Nat)
    (hpar : (clsOf sch c).parent = none)
    (hsplit : List.range sch.length = pre ++ m :: post)
    (hown : ((clsOf sch c).joins.all fun j => linksQuiet s.core j.tab j.side id) = true)
    (hpre : ∀ kidx ∈ pre, EntryPasses sch s.core c id kidx = true)
    (hloud : EntryLinksQuiet sch s.core c id m = false)
    (h : run sch none (destroyProg sch (fuel + 1) c id .done) s = (s', r)) : s'.core ≠ s.core := by
  unfold destroyProg at h
  simp only [hpar, run, hsplit, depLoop_append] at h
  have hA := QP_comp (QP_ownLinks sch none s.core (clsOf sch c) id hown)
    (QP_depLoop_pass sch none s.core (destroyProg sch fuel) c id pre hpre)
  obtain ⟨s1, h1, hc1, _⟩ := hA s (depLoop (destroyProg sch fuel) sch c id (m :: post) (destroyTail c id .done)) rfl
    (fun _ _ => rfl)
  rw [h1] at h
  have e1 : depLoop (destroyProg sch fuel) sch c id (m :: post) (destroyTail c id .done) =
      depEntry (destroyProg sch fuel) sch c id m (depLoop (destroyProg sch fuel) sch c id post (destroyTail c id .done)) := rfl
  rw [e1, depEntry_eq] at h
  unfold freeLinksSeg at h
  have hfin := run_delLinks_fold_final sch id (fun j => j.tab) (fun j => !j.side) _ _ s1 s' r h
  intro heq
  have : EntryLinksQuiet sch s.core c id m = true := by
    unfold EntryLinksQuiet
    rw [List.all_eq_true]
    intro j hj
    rw [← heq]; exact hfin j hj
  rw [this] at hloud; cases hloud

end SqlObjVerif.Fail
