import SqlObjVerif.Lemmas.FailDestroyXMain
import SqlObjVerif.Lemmas.FailDestroyXFdc
import SqlObjVerif.Lemmas.FailDestroyXInh
/-!
C06, translated `destroySelf`, part 7: NON-VACUITY.  The witness `W1` of `Props/C06.lean`
(`C06_destroy_refused_witness`: classes `A`, `C` — reference to A with `cascade='null'` —, `D` — reference to A with
`cascade=False` —; `A#1.destroySelf()` is refused by D after C#1 was nulled) run through the TRANSLATED program by
the kernel: the same tables, the same exception, the same number of statements as the hand model; and the same with
a database error injected at statement 3 (the restriction test of D, sent from inside the `if` condition).
-/
namespace SqlObjVerif.FailDX
open SqlObjVerif.Fail

/-- `W1.sch` of `Props/C06.lean` -/
def W1sch : Schema :=
  [{ cols := [{}] }, { cols := [{ fk := some (0, .null) }] }, { cols := [{ fk := some (0, .restrict) }] }]

/-- `W1.s` of `Props/C06.lean` (`mkSt`, written out) -/
def W1s : St :=
  { core := { tabs := [[⟨1, [some 7]⟩], [⟨1, [some 1]⟩], [⟨1, [some 1]⟩]], links := [],
              insts := [⟨0, 1, [some 7], [], false, false⟩, ⟨1, 1, [some 1], [], false, false⟩,
                        ⟨2, 1, [some 1], [], false, false⟩],
              reg := [(0, 1), (1, 1), (2, 1)] },
    seqs := [1, 1, 1], lastId := 0, n := 0, changes := 0, log := [] }

theorem W1_noParent : NoParent W1sch := by
  intro c
  rcases c with _ | _ | _ | n <;> rfl

/-- tables, exception class, statement counter, statement log -/
def viewOf : PyDestroy.CallRes Hnd St → Option (List (List Row) × Option String × Nat × List Stmt)
  | .ret s _ => some (s.core.tabs, none, s.n, s.log)
  | .exc s e => some (s.core.tabs, some e, s.n, s.log)
  | .stuck => none

/-- the TRANSLATED program on W1: refused (`SQLObjectIntegrityError`) after C#1 was nulled; three statements -/
theorem W1_translated_refused :
    viewOf (destroyF W1sch none (fuelOf W1s) 0 1 W1s) =
      some ([[⟨1, [some 7]⟩], [⟨1, [none]⟩], [⟨1, [some 1]⟩]], some "SQLObjectIntegrityError", 3,
            [.select 2, .update 1 1 [(0, none)], .select 1]) := by
  decide +kernel

/-- … and the hand model gives the same -/
example : viewOf (outCall (run W1sch none (destroyProg W1sch (fuelOf W1s) 0 1 .done) W1s)) =
    viewOf (destroyF W1sch none (fuelOf W1s) 0 1 W1s) := by
  decide +kernel

/-- a database error injected at statement 3 (the COUNT(*) of the restriction test): raised from inside the `if`
    condition of the translated program, C#1 already nulled -/
theorem W1_translated_injected :
    viewOf (destroyF W1sch (some ⟨3, .operational⟩) (fuelOf W1s) 0 1 W1s) =
      some ([[⟨1, [some 7]⟩], [⟨1, [none]⟩], [⟨1, [some 1]⟩]], some "OperationalError", 3,
            [.select 2, .update 1 1 [(0, none)], .select 1]) := by
  decide +kernel

example : viewOf (outCall (run W1sch (some ⟨3, .operational⟩) (destroyProg W1sch (fuelOf W1s) 0 1 .done) W1s)) =
    viewOf (destroyF W1sch (some ⟨3, .operational⟩) (fuelOf W1s) 0 1 W1s) := by
  decide +kernel

/-- the general theorem applies to W1 -/
example (inj : Option Inj) :
    destroyF W1sch inj (fuelOf W1s) 0 1 W1s = outCall (run W1sch inj (destroyProg W1sch (fuelOf W1s) 0 1 .done) W1s) :=
  C06_translated_destroy_eq_model W1sch W1_noParent inj _ _ _ _

/-- a successful cascade through the translated program (C references A with `cascade=True`): both rows gone -/
example : viewOf (destroyF [{ cols := [{}] }, { cols := [{ fk := some (0, .cascade) }] }] none 5 0 1
      { W1s with core := { W1s.core with tabs := [[⟨1, [some 7]⟩], [⟨1, [some 1]⟩]] } }) =
    some ([[], []], none, 3, [.delete 0 1, .delete 1 1, .select 1]) := by
  decide +kernel

/-! ### the inheritable override -/

/-- parent `P` (class 0), child `K` (class 1, `parent = P`), `D` (class 2) references P with `cascade=False` -/
def Isch : Schema := [{ cols := [{}] }, { cols := [{}], parent := some 0 }, { cols := [{ fk := some (0, .restrict) }] }]

def Is (dRows : List Row) : St :=
  { core := { tabs := [[⟨1, [some 7]⟩], [⟨1, [some 8]⟩], dRows], links := [],
              insts := [⟨0, 1, [some 7], [], false, false⟩, ⟨1, 1, [some 8], [], false, false⟩],
              reg := [(0, 1), (1, 1)] },
    seqs := [1, 1, 5], lastId := 0, n := 0, changes := 0, log := [] }

def viewI (r : Option Out) : Option (List (List Row) × Option Err × List Stmt) :=
  r.map fun r => (r.1.core.tabs, r.2, r.1.log)

/-- `K#1.destroySelf()` through the TRANSLATED override: the parent instance `P#1` goes first and is refused by D#5 -/
example : viewI (destroyI Isch none (fun c => decide (c < 2)) 4 1 1 (Is [⟨5, [some 1]⟩])) =
    some ([[⟨1, [some 7]⟩], [⟨1, [some 8]⟩], [⟨5, [some 1]⟩]], some .integrity, [.select 2]) := by
  decide +kernel

/-- nobody references `P#1`: parent row, then child row deleted -/
example : viewI (destroyI Isch none (fun c => decide (c < 2)) 4 1 1 (Is [])) =
    some ([[], [], []], none, [.delete 1 1, .delete 0 1, .select 2]) := by
  decide +kernel

/-- a database error at the child's own DELETE (statement 3): the parent row is already gone -/
example : viewI (destroyI Isch (some ⟨3, .operational⟩) (fun c => decide (c < 2)) 4 1 1 (Is [])) =
    some ([[], [⟨1, [some 8]⟩], []], some .operational, [.delete 1 1, .delete 0 1, .select 2]) := by
  decide +kernel

/-- … as the hand model says (the general theorem, instantiated) -/
example (inj : Option Inj) (rows : List Row) :
    destroyI Isch inj (fun c => decide (c < 2)) 4 1 1 (Is rows) = some (run Isch inj (destroyProg Isch 4 1 1 .done) (Is rows)) :=
  C06_translated_inhdestroy_eq_model Isch inj _ (by
    intro c h
    rcases c with _ | _ | _ | n
    · rfl
    · rfl
    · exact absurd rfl h
    · exact absurd rfl h) _ _ _ _

end SqlObjVerif.FailDX
