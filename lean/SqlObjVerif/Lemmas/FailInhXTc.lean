import SqlObjVerif.Lemmas.FailInhXTb
/-!
C06, the COMPOSED inheritable create — part (c): ONE LEVEL of the translated `InheritableSQLObject._create` under
`xIfaceT` (the proofs of `Lemmas/FailInhXc.lean` replayed; where the program reaches `super()._create` /
`self._parent.destroySelf()`, the bridges `superCreateT_eq` / `destroyCallT_eq` of part (a) turn the RUN of the
translated callee into the call `xIface` assumed — under `LevelOk` for this level's keywords).
-/
set_option linter.unusedSimpArgs false
namespace SqlObjVerif.Fail.InhX
open SqlObjVerif.PyInh (Iface CallRes R Exc ExcCls vdGet vdHas vdSet forLoop pairBody isListVal pyBool)
open SqlObjVerif.PyInh.Extracted (create_loop0 create_loop1)

theorem createXT_root (X : Ctx) (T : Tr) (hag : Agrees X T) (C : Construct) (w : FW) (c : Nat) (es : List (PVal × PVal)) (tag : Option Nat)
    (hp : (clsOf X.sch c).parent = none) (hlev : LevelOk X T c es tag)
    (kwv : PVal) (hkw : kwv = dictOf X [c] es tag ∨ kwv = .cons (.pair (.str "kw") (dictOf X [c] es tag)) .nil) :
    createXT X T C w c .none kwv = createCall (rootSpec X c (levelKw X c es tag) w) := by
  have hk0 := dictOf_noKw X [c] es tag
  have hl : isListVal (dictOf X [c] es tag) = true := isListVal_ofList _
  have hent : entriesOf (dictOf X [c] es tag) = es.filter (fun e => keyIn [c] e.1) ++ tagEntry X tag :=
    entriesOf_ofList _
  have hsc : ∀ w' idv, superCreateT X T c w' idv (dictOf X [c] es tag) = superCreate X c w' idv (dictOf X [c] es tag) :=
    fun w' idv => superCreateT_eq X T hag c w' idv _ _ hent hlev.1 hlev.2.1 hlev.2.2
  unfold createXT PyInh.Extracted.createProg PyInh.Extracted.create_nlocals rootSpec createCall levelKw
  rcases hkw with rfl | rfl
  all_goals
    fhrunT
    simp [vdHas, vdGet, hk0, hl, hsc, superCreate, hent]
    generalize run X.sch X.inj _ w.st = r
    obtain ⟨s1, oe⟩ := r
    cases oe <;> simp [fromRun] <;> fhrunT

set_option hygiene false in
macro "child_tacT" H:ident : tactic => `(tactic| (
  obtain ⟨hp, hanc, hc, hnd, hreq, hcons⟩ := $H
  have hk0 := dictOf_noKw X (c :: p :: rest) es tag
  have hl : isListVal (dictOf X (c :: p :: rest) es tag) = true := isListVal_ofList _
  have htl : PyInh.Val.toList (dictOf X (c :: p :: rest) es tag) =
      some (pairsOf (es.filter (fun e => keyIn (c :: p :: rest) e.1) ++ tagEntry X tag)) := toList_ofList _
  have hkeys := dict_keys_ok X (c :: p :: rest) es tag
  have hnd' := dict_keys_nodup X (c :: p :: rest) es tag hnd
  have hso := split_own X c (p :: rest) hc es tag
  have hsp := split_parent X c (p :: rest) es tag
  have htp : (fun e : PVal × PVal => toParent X p e.1) = fun e => keyIn (p :: rest) e.1 := by
    funext e; exact toParent_eq X p _ hanc e.1
  have htn : (fun e : PVal × PVal => !toParent X p e.1) = fun e => !keyIn (p :: rest) e.1 := by
    funext e; rw [toParent_eq X p _ hanc e.1]
  have hent : entriesOf (PyInh.Val.ofList (pairsOf (es.filter (fun e => keyIn [c] e.1) ++ tagEntry X tag))) =
      es.filter (fun e => keyIn [c] e.1) ++ tagEntry X tag := entriesOf_ofList _
  have hsc : ∀ w' idv, superCreateT X T c w' idv
      (PyInh.Val.ofList (pairsOf (es.filter (fun e => keyIn [c] e.1) ++ tagEntry X tag))) =
      superCreate X c w' idv (PyInh.Val.ofList (pairsOf (es.filter (fun e => keyIn [c] e.1) ++ tagEntry X tag))) :=
    fun w' idv => superCreateT_eq X T hag c w' idv _ _ hent hlev.1 hlev.2.1 hlev.2.2
  have hdc : ∀ w' p' pid', destroyCallT X T w' p' pid' = destroyCall X w' p' pid' := destroyCallT_eq X T hinh
  unfold createXT PyInh.Extracted.createProg PyInh.Extracted.create_nlocals
  fhrunT
  simp [vdHas, vdGet, hk0, hl, htl]
  generalize hF : forLoop _ _ _ = r
  obtain ⟨v5', v6', rfl⟩ := create_loop0_runT' X T C _ p hF hkeys hnd'
  simp only [htp, htn, hso, hsp]
  clear hF
  fhrunT
  simp [colList, toList_ofList]
  generalize hF : forLoop _ _ _ = r
  obtain ⟨v7', rfl⟩ := create_loop1_runT' X T C _ c (isListVal_ofList _)
    (fun j hj hd => by obtain ⟨v, hv⟩ := hreq j hj hd; exact vdHas_own X c es tag j v hv) hF (colList_cols X c)
  simp [isListVal_ofList, parentKw_eq, kwGet, PyInh.zipKw, hcons, consRes]
  clear hF
  cases oe with
  | some e => simp [afterParent, createCall]
  | none =>
    simp only [afterParent, ownW, createCall]
    fhrunT
    simp only [hsc, superCreate, hent, levelKw, setPar_st]
    generalize run X.sch X.inj (ownTree _ _ _ _) _ = r
    obtain ⟨s2, oe2⟩ := r
    cases oe2 with
    | none => simp [fromRun]
    | some e =>
      simp [fromRun, cleanupW]
      fhrunT
      simp [hdc, destroyCall, hanc]
      generalize run X.sch X.inj (destroyProg _ _ _ _ _) _ = r3
      obtain ⟨s3, oe3⟩ := r3
      cases oe3 <;> simp [fromRun] <;> fhrunT))

/-- a child level entered with `**kw` (the application's call) -/
theorem createXT_child_plain (X : Ctx) (T : Tr) (hag : Agrees X T) (hinh : ∀ c, (clsOf X.sch c).parent ≠ none → T.isInh c = true) (C : Construct) (w : FW) (c p : Nat) (rest : List Nat) (es : List (PVal × PVal))
    (tag : Option Nat) (w1 : FW) (oe : Option Err) (H : ChildHyp X C w c p rest es w1 oe) (hlev : LevelOk X T c es tag) :
    createXT X T C w c .none (dictOf X (c :: p :: rest) es tag) =
      createCall (afterParent X c p (levelKw X c es tag) w1 oe) := by
  child_tacT H

/-- a child level entered with `kw=<dict>` (the constructor call of the level below) -/
theorem createXT_child_wrapped (X : Ctx) (T : Tr) (hag : Agrees X T) (hinh : ∀ c, (clsOf X.sch c).parent ≠ none → T.isInh c = true) (C : Construct) (w : FW) (c p : Nat) (rest : List Nat) (es : List (PVal × PVal))
    (tag : Option Nat) (w1 : FW) (oe : Option Err) (H : ChildHyp X C w c p rest es w1 oe) (hlev : LevelOk X T c es tag) :
    createXT X T C w c .none (.cons (.pair (.str "kw") (dictOf X (c :: p :: rest) es tag)) .nil) =
      createCall (afterParent X c p (levelKw X c es tag) w1 oe) := by
  child_tacT H

theorem createXT_child (X : Ctx) (T : Tr) (hag : Agrees X T) (hinh : ∀ c, (clsOf X.sch c).parent ≠ none → T.isInh c = true) (C : Construct) (w : FW) (c p : Nat) (rest : List Nat) (es : List (PVal × PVal))
    (tag : Option Nat) (w1 : FW) (oe : Option Err) (H : ChildHyp X C w c p rest es w1 oe) (hlev : LevelOk X T c es tag)
    (kwv : PVal) (hkw : kwv = dictOf X (c :: p :: rest) es tag ∨
      kwv = .cons (.pair (.str "kw") (dictOf X (c :: p :: rest) es tag)) .nil) :
    createXT X T C w c .none kwv = createCall (afterParent X c p (levelKw X c es tag) w1 oe) := by
  rcases hkw with rfl | rfl
  · exact createXT_child_plain X T hag hinh C w c p rest es tag w1 oe H hlev
  · exact createXT_child_wrapped X T hag hinh C w c p rest es tag w1 oe H hlev
end SqlObjVerif.Fail.InhX
