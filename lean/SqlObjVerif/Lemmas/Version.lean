import SqlObjVerif.Model.Version
import SqlObjVerif.Lemmas.Events
/-! Helper lemmas for C20: the history invariant `HInv` and its preservation. -/
namespace SqlObjVerif.Version
open SqlObjVerif.Events

theorem versionsOf_append (s : VState) (v : VRow) (m : Nat) (nv : Nat) :
    versionsOf { s with versions := s.versions ++ [v], nextV := nv } m
      = versionsOf s m ++ (if v.master = m then [v.vals] else []) := by
  simp only [versionsOf, List.filter_append, List.map_append]
  by_cases h : v.master = m <;> simp [h]

theorem rowOf_append (rows : List (Nat × List Val)) (n : Nat) (row : List Val) (m : Nat) :
    rowOf? (rows ++ [(n, row)]) m = (rowOf? rows m).or (if m = n then some row else none) := by
  induction rows with
  | nil =>
    simp only [rowOf?, List.nil_append, List.lookup]
    by_cases h : m = n
    · subst h; simp
    · have : (m == n) = false := by simpa using h
      simp [this, h]
  | cons r rs ih =>
    obtain ⟨rid, rv⟩ := r
    simp only [rowOf?, List.cons_append, List.lookup] at ih ⊢
    cases hb : (m == rid)
    · simpa using ih
    · simp

theorem rowOf_lt (rows : List (Nat × List Val)) (n : Nat) (h : ∀ r ∈ rows, r.1 < n) : rowOf? rows n = none := by
  induction rows with
  | nil => rfl
  | cons r rs ih =>
    obtain ⟨rid, rv⟩ := r
    have h1 : rid < n := h (rid, rv) (by simp)
    have hb : (n == rid) = false := by simpa using (by omega : n ≠ rid)
    simp only [rowOf?, List.lookup, hb]
    exact ih (fun r hr => h r (by simp [hr]))

theorem rowOf_mem (rows : List (Nat × List Val)) (m : Nat) (row : List Val) (h : rowOf? rows m = some row) :
    (m, row) ∈ rows := by
  induction rows with
  | nil => simp [rowOf?, List.lookup] at h
  | cons r rs ih =>
    obtain ⟨rid, rv⟩ := r
    simp only [rowOf?, List.lookup] at h ih
    cases hb : (m == rid)
    · rw [hb] at h; exact List.mem_cons_of_mem _ (ih h)
    · rw [hb] at h
      simp only [Option.some.injEq] at h
      have : m = rid := by simpa using hb
      subst this; subst h; simp

theorem updRows_ids (rows : List (Nat × List Val)) (id : Nat) (vec : List (Option Val)) (n : Nat)
    (h : ∀ r ∈ rows, r.1 < n) : ∀ r ∈ updRows rows id vec, r.1 < n := by
  intro r hr
  simp only [updRows, List.mem_map] at hr
  obtain ⟨r0, hr0, rfl⟩ := hr
  split <;> exact h r0 hr0

/-- the history invariant and the freshness facts it needs -/
structure HInv (s : VState) : Prop where
  hist : ∀ m row, rowOf? s.masters m = some row → versionsOf s m ++ [row] = s.hist m
  vfresh : ∀ v ∈ s.versions, v.master < s.nextM
  mfresh : ∀ r ∈ s.masters, r.1 < s.nextM

theorem hinv_init : HInv vinit :=
  ⟨by intro m row h; simp [vinit, rowOf?, List.lookup] at h, by simp [vinit], by simp [vinit]⟩

theorem versionsOf_fresh (s : VState) (h : ∀ v ∈ s.versions, v.master < s.nextM) : versionsOf s s.nextM = [] := by
  simp only [versionsOf, List.map_eq_nil_iff, List.filter_eq_nil_iff]
  intro v hv
  have := h v hv
  simp; omega

theorem hinv_create (c : VCfg) (s : VState) (kw : Kw) (hI : HInv s) : HInv (vCreate c s kw).1 := by
  unfold vCreate
  simp only []
  split
  · exact hI
  · split
    · exact hI
    · split
      · exact hI
      · refine ⟨?_, ?_, ?_⟩
        · intro m row hm
          simp only [rowOf_append] at hm
          by_cases hmn : m = s.nextM
          · subst hmn
            rw [rowOf_lt _ _ hI.mfresh] at hm
            simp only [Option.none_or, if_true, Option.some.injEq] at hm
            subst hm
            have := versionsOf_fresh s hI.vfresh
            simp only [versionsOf] at this ⊢
            simp [this, setHist]
          · simp only [hmn, if_false, Option.or_none] at hm
            have := hI.hist m row hm
            simp only [versionsOf] at this ⊢
            simp [setHist, hmn, this]
        · intro v hv
          have := hI.vfresh v hv
          simp only; omega
        · intro r hr
          simp only [List.mem_append, List.mem_singleton] at hr
          rcases hr with hr | rfl
          · have := hI.mfresh r hr; simp only; omega
          · simp

theorem hinv_update (c : VCfg) (s : VState) (m : Nat) (vec : List (Option Val)) (unk : Bool) (hI : HInv s)
    (hok : (vUpdateVec c s m vec unk).2 = .ok ∨ (vUpdateVec c s m vec unk).2 = .nohandle) :
    HInv (vUpdateVec c s m vec unk).1 := by
  unfold vUpdateVec at hok ⊢
  cases hr : rowOf? s.masters m with
  | none => simpa [hr] using hI
  | some row =>
    simp only [hr] at hok ⊢
    have hm_lt : m < s.nextM := hI.mfresh _ (rowOf_mem _ _ _ hr)
    split
    · rename_i h; simp [h] at hok
    · split
      · rename_i h0 h; simp [h0, h] at hok
      · split
        · rename_i h1 h2 h3; simp [h1, h2, h3] at hok
        · split
          · -- nothing written
            refine ⟨?_, ?_, ?_⟩
            · intro m' row' hm'
              simp only at hm'
              have hv := versionsOf_append s ⟨s.nextV, m, row⟩ m' (s.nextV + 1)
              simp only [versionsOf] at hv ⊢
              simp only [hv]
              by_cases hmm : m = m'
              · subst hmm
                rw [hr] at hm'; simp only [Option.some.injEq] at hm'; subst hm'
                have := hI.hist m row hr
                simp only [versionsOf] at this
                simp [setHist, ← this]
              · have := hI.hist m' row' hm'
                simp only [versionsOf] at this
                have hne : ¬ m' = m := fun h => hmm h.symm
                simp [hmm, setHist, hne, this]
            · intro v hv
              simp only [List.mem_append, List.mem_singleton] at hv
              rcases hv with hv | rfl
              · exact hI.vfresh v hv
              · exact hm_lt
            · exact hI.mfresh
          · refine ⟨?_, ?_, ?_⟩
            · intro m' row' hm'
              simp only [rowOf_updRows] at hm'
              have hv := versionsOf_append s ⟨s.nextV, m, row⟩ m' (s.nextV + 1)
              simp only [versionsOf] at hv ⊢
              simp only [hv]
              by_cases hmm : m = m'
              · subst hmm
                simp only [if_true, hr, Option.map_some, Option.some.injEq] at hm'
                subst hm'
                have := hI.hist m row hr
                simp only [versionsOf] at this
                simp [setHist, ← this]
              · have hne : ¬ m' = m := fun h => hmm h.symm
                simp only [hne, if_false] at hm'
                have := hI.hist m' row' hm'
                simp only [versionsOf] at this
                simp [hmm, setHist, hne, this]
            · intro v hv
              simp only [List.mem_append, List.mem_singleton] at hv
              rcases hv with hv | rfl
              · exact hI.vfresh v hv
              · exact hm_lt
            · exact updRows_ids _ _ _ _ hI.mfresh

/-- the outcome of an update that did not fail is `ok` or "no such master / version" -/
theorem not_failed (op : VOp) (o : VOut) (h : updFailed op o = false) (hop : ∀ kw, op ≠ .create kw) :
    o = .ok ∨ o = .nohandle := by
  cases op <;> cases o <;> simp_all [updFailed]

theorem hinv_step (c : VCfg) (s : VState) (op : VOp) (hI : HInv s) (hnf : updFailed op (vstep c s op).2 = false) :
    HInv (vstep c s op).1 := by
  cases op with
  | create kw => exact hinv_create c s kw hI
  | assign m k v =>
    have := not_failed _ _ hnf (by simp)
    simp only [vstep] at this ⊢
    split
    · rename_i hk; simp only [hk, if_true] at this; exact hinv_update c s m _ _ hI this
    · exact hI
  | set m kw =>
    have := not_failed _ _ hnf (by simp)
    exact hinv_update c s m _ _ hI this
  | restore vid =>
    have := not_failed _ _ hnf (by simp)
    simp only [vstep, vRestore] at this ⊢
    split
    · exact hI
    · rename_i v hv; simp only [hv] at this; exact hinv_update c s v.master _ _ hI this

theorem hinv_run (c : VCfg) (ops : List VOp) : ∀ (s : VState), HInv s → noFailedUpdate c s ops = true → HInv (vrun c s ops) := by
  induction ops with
  | nil => intro s h _; exact h
  | cons op ops ih =>
    intro s h hn
    simp only [noFailedUpdate, Bool.and_eq_true, Bool.not_eq_true'] at hn
    exact ih _ (hinv_step c s op h hn.1) hn.2

theorem applyVec_map_some (row vals : List Val) (h : row.length = vals.length) : applyVec row (vals.map some) = vals := by
  induction row generalizing vals with
  | nil => cases vals with
    | nil => rfl
    | cons _ _ => simp at h
  | cons x xs ih =>
    cases vals with
    | nil => simp at h
    | cons y ys =>
      simp only [applyVec, List.map_cons, List.zipWith_cons_cons, Option.getD_some, List.cons.injEq, true_and]
      exact ih ys (by simpa using h)

/-- the databases are independent: what database `d` looks like after a history is what its own
    operations alone make of it -/
theorem drun_proj (c : VCfg) (ops : List (Nat × VOp)) :
    ∀ (S : DState) (d : Nat),
      (drun c S ops) d = vrun c (S d) ((ops.filter (fun p => p.1 = d)).map (·.2)) := by
  induction ops with
  | nil => intro S d; rfl
  | cons p ops ih =>
    intro S d
    obtain ⟨d', op⟩ := p
    simp only [drun, dstep]
    rw [ih _ d]
    by_cases hd : d' = d
    · subst hd
      simp [dset, vrun]
    · have hne : ¬ d = d' := fun e => hd e.symm
      simp [dset, hd, hne]

end SqlObjVerif.Version
