import SqlObjVerif.Model.OrmValX
import SqlObjVerif.Lemmas.OrmVal
/-!
Symbolic execution of the TRANSLATED `SQLObject` instance methods (PyMain programs regenerated from
/repo's main.py on every run) against the hand-written model `Model/OrmVal.lean`: each `…X_eq`
theorem says that running the translated method from the image of ANY model state (any Python dict
standing for the pending values) ends in a world whose reading (`absUnit` / `absVal`) is exactly what
the hand model's function for that method yields.  `pymrun` evaluates the interpreter on the concrete
program under the path's facts; loops are handled with Hoare-style rules (`forLoop_map_inv`).
A semantic edit of main.py changes the programs and breaks these proofs.

This file: the tactic, the loop rules, `expire`, `syncUpdate`.
-/
namespace SqlObjVerif.OrmVal
open SqlObjVerif.PyMain
open SqlObjVerif.PyMain.Extracted

@[simp] theorem toVal_ofVal (v : CVal) : toVal? (ofVal v) = some v := by cases v <;> rfl
@[simp] theorem toVal_none : toVal? PV.none = some Option.none := rfl
@[simp] theorem toVal_int (i : Int) : toVal? (PV.int i) = some (some i) := rfl
@[simp] theorem toVal_bad : toVal? PV.bad = Option.none := rfl

section
variable {G : Type} {α β : Type}
@[simp] theorem R.bind_ok (a : α) (f : α → R β) : (R.ok a).bind f = f a := rfl
@[simp] theorem R.bind_exc (e : Exc) (f : α → R β) : (R.exc e : R α).bind f = .exc e := rfl
@[simp] theorem R.bind_stuck (f : α → R β) : (R.stuck : R α).bind f = .stuck := rfl
@[simp] theorem ofOpt_some (a : α) : ofOpt (some a) = .ok a := rfl
@[simp] theorem ofOpt_none : ofOpt (Option.none : Option α) = .stuck := rfl
@[simp] theorem withR_ok (st : St G) (a : α) (f : α → Res G) : withR st (.ok a) f = f a := rfl
@[simp] theorem withR_exc (st : St G) (e : Exc) (f : α → Res G) : withR st (.exc e) f = .exc st e := rfl
@[simp] theorem withR_stuck (st : St G) (f : α → Res G) : withR st .stuck f = .stuck := rfl
@[simp] theorem ofOptRes_some (a : α) (f : α → Res G) : ofOptRes (some a) f = f a := rfl
@[simp] theorem ofOptRes_none (f : α → Res G) : ofOptRes (Option.none : Option α) f = .stuck := rfl
@[simp] theorem afterCall_ret (w : World G) (v : PV) (st : St G) : afterCall (.ret w v) st = .norm { st with w := w } := rfl
@[simp] theorem afterCall_exc (w : World G) (e : Exc) (st : St G) : afterCall (.exc w e) st = .exc { st with w := w } e := rfl
@[simp] theorem afterCall_deadlock (w : World G) (st : St G) : afterCall (.deadlock w) st = .deadlock { st with w := w } := rfl
@[simp] theorem afterCall_stuck (st : St G) : afterCall (.stuck : Outcome G) st = .stuck := rfl
@[simp] theorem tbind_one (st : St G) (x : Nat) (v : PV) : Target.bind st (.one x) v = some (st.setVar x v) := rfl
@[simp] theorem tbind_two (st : St G) (x y : Nat) (a b : PV) :
    Target.bind st (.two x y) (.pair a b) = some ((st.setVar x a).setVar y b) := rfl
@[simp] theorem bind_one (k : St G → Res G) (st : St G) (x : Nat) (v : PV) :
    bindThen (.one x) k st v = k (st.setVar x v) := rfl
@[simp] theorem bind_two (k : St G → Res G) (st : St G) (x y : Nat) (a b : PV) :
    bindThen (.two x y) k st (.pair a b) = k ((st.setVar x a).setVar y b) := rfl
end

@[simp] theorem pvIdx_pair0 (a b : PV) : pvIdx (.pair a b) 0 = .ok a := rfl
@[simp] theorem pvIdx_pair1 (a b : PV) : pvIdx (.pair a b) 1 = .ok b := rfl
@[simp] theorem pvIdx_row (r : List CVal) (i : Nat) : pvIdx (.row r) i = match r[i]? with
    | some v => .ok (ofVal v)
    | Option.none => .stuck := by cases i <;> rfl
@[simp] theorem colAttrOf_name (k : Klass) (c : Nat) : colAttrOf k (.col c) .name = .ok (.name c) := rfl
@[simp] theorem colAttrOf_dbName (k : Klass) (c : Nat) : colAttrOf k (.col c) .dbName = .ok (.dbName c) := rfl
@[simp] theorem colAttrOf_toPython (k : Klass) (c : Nat) :
    colAttrOf k (.col c) .toPython = .ok (if k.hasTo c then .fn .toPy c else .none) := rfl
@[simp] theorem colAttrOf_fromPython (k : Klass) (c : Nat) :
    colAttrOf k (.col c) .fromPython = .ok (if k.hasFrom c then .fn .fromPy c else .none) := rfl
@[simp] theorem colAttrOf_creationOrder (k : Klass) (c : Nat) : colAttrOf k (.col c) .creationOrder = .ok (.nat c) := rfl
@[simp] theorem callFn_from_bad (k : Klass) (c : Nat) : callFn k (.fn .fromPy c) .bad = .exc .invalid := rfl
@[simp] theorem callFn_from (k : Klass) (c : Nat) (v : CVal) : callFn k (.fn .fromPy c) (ofVal v) = .ok (ofVal (k.enc c v)) := by
  cases v <;> rfl
@[simp] theorem callFn_to (k : Klass) (c : Nat) (v : CVal) : callFn k (.fn .toPy c) (ofVal v) = .ok (ofVal (k.dec c v)) := by
  cases v <;> rfl
@[simp] theorem nameOf_name (c : Nat) : nameOf (.name c) = some c := rfl
@[simp] theorem natOf_nat (c : Nat) : natOf (.nat c) = some c := rfl
@[simp] theorem dbNameOf_dbName (c : Nat) : dbNameOf (.dbName c) = some c := rfl
@[simp] theorem updItemOf_pair (c : Nat) (v : PV) : updItemOf (.pair (.dbName c) v) = (toVal? v).map fun x => (c, x) := rfl
@[simp] theorem dictItemOf_pair (c : Nat) (v : PV) : dictItemOf (.pair (.name c) v) = some (c, v) := rfl
@[simp] theorem pyBool_none : pyBool .none = some false := rfl
@[simp] theorem pyBool_bool (b : Bool) : pyBool (.bool b) = some b := rfl
@[simp] theorem pyBool_row (r : List CVal) : pyBool (.row r) = some (!r.isEmpty) := rfl
@[simp] theorem pyBool_fn (k : FnKind) (c : Nat) : pyBool (.fn k c) = some true := rfl
@[simp] theorem isNone_none : PV.isNone .none = true := rfl
@[simp] theorem isNone_row (r : List CVal) : PV.isNone (.row r) = false := rfl

@[simp] theorem optMap_map {α β γ : Type} (f : β → Option γ) (g : α → β) (l : List α) :
    optMap f (l.map g) = optMap (fun x => f (g x)) l := by
  induction l with
  | nil => rfl
  | cons a l ih => simp [optMap, ih]

@[simp] theorem optMap_some {α β : Type} (g : α → β) (l : List α) : optMap (fun x => some (g x)) l = some (l.map g) := by
  induction l with
  | nil => rfl
  | cons a l ih => simp [optMap, ih]

@[simp] theorem optMap_some_id {α : Type} (l : List α) : optMap (fun x => some x) l = some l := by
  induction l with
  | nil => rfl
  | cons a l ih => simp [optMap, ih]

theorem ormConn_selectOne (cls : Cls) (id : Id) (n : Nat) (h : Hnd) (g : State) (cols : List Nat) :
    (ormConn cls id n h).selectOne g cols =
      if cols = List.range n then
        some (logStmt g (.selectRow cls id), (g.db cls id).map fun row => (List.range n).map row)
      else match cols with
        | [c] => some (logStmt g (.selectCol cls id c), (g.db cls id).map fun row => [row c])
        | _ => Option.none := rfl
theorem ormConn_update (cls : Cls) (id : Id) (n : Nat) (h : Hnd) (g : State) (p : Pend) (fail : Bool) :
    (ormConn cls id n h).update g p fail =
      { g with db := if fail then g.db else updRow g.db cls id p, updates := g.updates + 1,
               log := g.log ++ [.update cls id p] } := rfl
theorem ormConn_cacheExpire (cls : Cls) (id : Id) (n : Nat) (h : Hnd) (g : State) :
    (ormConn cls id n h).cacheExpire g = evictOthers g h cls id := rfl

theorem callTable_syncUpdate (cls : Cls) (id : Id) (n : Nat) (h : Hnd) (kw : PDict) (w : World State) :
    callTable cls id n h "syncUpdate" [] kw w = syncUpdateX cls id n h w := by
  simp [callTable, syncUpdateX]

theorem callTable_selectInit (cls : Cls) (id : Id) (n : Nat) (h : Hnd) (r : PV) (kw : PDict) (w : World State) :
    callTable cls id n h "_SO_selectInit" [r] kw w = selectInitX cls id n h w r := by
  simp [callTable, selectInitX]

@[simp] theorem mapR_map {α β γ : Type} (f : β → R γ) (g : α → β) (l : List α) :
    mapR f (l.map g) = mapR (fun x => f (g x)) l := by
  induction l with
  | nil => rfl
  | cons a l ih => simp [mapR, ih]

@[simp] theorem mapR_ok {α β : Type} (g : α → β) (l : List α) : mapR (fun x => R.ok (g x)) l = .ok (l.map g) := by
  induction l with
  | nil => rfl
  | cons a l ih => simp [mapR, ih]

/-- a list computed element by element, every element succeeding -/
theorem mapR_ok_of {α β : Type} {f : α → R β} {l : List α} {m : R (List β)} (hm : mapR f l = m) (g : α → β)
    (hf : ∀ x ∈ l, f x = .ok (g x)) : m = .ok (l.map g) := by
  subst hm
  induction l with
  | nil => rfl
  | cons a l ih =>
    simp only [mapR, hf a (by simp), R.bind_ok, List.map_cons]
    rw [ih (fun x hx => hf x (by simp [hx]))]
    rfl

macro "pymrun" : tactic => `(tactic|
  simp [PyMain.run, Block.exec, Stmt.exec, Cond.eval, Expr.eval, LExpr.eval, St.getVar, St.setVar, St.getList, St.setList,
        St.setObj, St.setG, St.getDict, St.setDict, Obj.getFlag, Obj.setFlag, Obj.setVal, itemsOf,
        Res.toOutcome, mapR, optMap, cvOf, forLoop,
        absW, pyObj, klassOf, ormConn_selectOne, ormConn_update, ormConn_cacheExpire, callTable_syncUpdate, callTable_selectInit, *])

/-- Hoare rule for a loop over `cs.map g` that runs to its end: `I done st` after the prefix `done` -/
theorem forLoop_map_inv {G α β : Type} {f : St G → α → Res G} {g : β → α} {cs : List β} {st : St G} {r : Res G}
    (hr : forLoop f (cs.map g) st = r) (I : List β → St G → Prop) (hI : I [] st)
    (step : ∀ done c rest st, cs = done ++ c :: rest → I done st → ∃ st', f st (g c) = .norm st' ∧ I (done ++ [c]) st') :
    ∃ st', r = .norm st' ∧ I cs st' := by
  suffices h : ∀ (rest done : List β) (st : St G), cs = done ++ rest → I done st → forLoop f (rest.map g) st = r →
      ∃ st', r = .norm st' ∧ I cs st' from h cs [] st rfl hI hr
  intro rest
  induction rest with
  | nil =>
    intro done st hcs hI hr
    simp at hcs; subst hcs
    exact ⟨st, by rw [← hr]; rfl, hI⟩
  | cons c rest ih =>
    intro done st hcs hI hr
    obtain ⟨st1, h1, h2⟩ := step done c rest st hcs hI
    simp only [List.map_cons, forLoop, h1] at hr
    exact ih (done ++ [c]) st1 (by simp [hcs]) h2 hr

theorem expireX_eq (cfg : Cfg) (i : Iface) (s : State) (h : Hnd) (o : Inst) (cv : Pend) (fail : Bool)
    (ho : s.objs h = some o) (hattrs : ∀ c, cfg.ncols o.cls ≤ c → o.cached c = none) :
    absUnit o.cls o.id h (expireX o.cls o.id (cfg.ncols o.cls) h (absW cfg i s o cv fail)) = some (opExpire s h) := by
  unfold expireX expireProg expire_nlocals expire_nlists expire_ndicts opExpire
  pymrun
  generalize hF : forLoop _ _ _ = r
  obtain ⟨st', rfl, a, rfl⟩ := forLoop_map_inv hF
    (fun done st => ∃ a, st = { w := { absW cfg i s o cv fail with o := { pyObj o cv with lock := true, vals := fun c => if c ∈ done then Option.none else o.cached c } },
                                vars := [a], lists := [], dicts := [[]] })
    ⟨Option.none, by simp [absW, pyObj, klassOf]⟩
    (by
      rintro done c rest st hcs ⟨a, rfl⟩
      cases hv : (if c ∈ done then Option.none else o.cached c)
      · refine ⟨_, ?_, ⟨some (.col c), rfl⟩⟩
        simp [expire_for0]
        pymrun
        funext k; by_cases hk : k = c <;> simp [hk, hv]
      · refine ⟨_, ?_, ⟨some (.col c), rfl⟩⟩
        simp [expire_for0]
        pymrun
        funext k; by_cases hk : k = c <;> simp [hk])
  clear hF
  pymrun
  have hvals : (fun c => if c < cfg.ncols o.cls then Option.none else o.cached c) = noCache := by
    funext c; unfold noCache
    by_cases hc : c < cfg.ncols o.cls
    · simp [hc]
    · simp [hc]; exact hattrs c (Nat.le_of_not_gt hc)
  simp [absUnit, conc, instOf, ormConn, expireInst, sortByKey, hvals]

theorem insByKey_map {α β : Type} (g : Nat × α → β) (x : Nat × α) (l : List (Nat × α)) :
    insByKey (x.1, g x) (l.map fun e => (e.1, g e)) = (insByKey x l).map fun e => (e.1, g e) := by
  induction l with
  | nil => rfl
  | cons y r ih =>
    simp only [List.map_cons, insByKey]
    split
    · rfl
    · simp [ih]

theorem sortByKey_map {α β : Type} (g : Nat × α → β) (l : List (Nat × α)) :
    sortByKey (l.map fun e => (e.1, g e)) = (sortByKey l).map fun e => (e.1, g e) := by
  induction l with
  | nil => rfl
  | cons x l ih =>
    simp only [sortByKey, List.map_cons, List.foldr_cons] at ih ⊢
    rw [ih, insByKey_map]

@[simp] theorem sortByKey_nil {α : Type} : sortByKey ([] : List (Nat × α)) = [] := rfl

theorem insByKey_ne_nil {α : Type} (x : Nat × α) (l : List (Nat × α)) : insByKey x l ≠ [] := by
  cases l with
  | nil => simp [insByKey]
  | cons y r => simp only [insByKey]; split <;> simp

theorem sortByKey_eq_nil {α : Type} (l : List (Nat × α)) : sortByKey l = [] ↔ l = [] := by
  cases l with
  | nil => simp [sortByKey]
  | cons x l => simp [sortByKey, insByKey_ne_nil]

theorem mem_insByKey {α : Type} (x e : Nat × α) (l : List (Nat × α)) : e ∈ insByKey x l ↔ e = x ∨ e ∈ l := by
  induction l with
  | nil => simp [insByKey]
  | cons y r ih =>
    simp only [insByKey]
    split
    · simp
    · simp [ih]; constructor <;> (intro h; rcases h with h | h | h <;> simp [h])

theorem mem_sortByKey {α : Type} (e : Nat × α) (l : List (Nat × α)) : e ∈ sortByKey l ↔ e ∈ l := by
  induction l with
  | nil => simp [sortByKey]
  | cons x l ih =>
    simp only [sortByKey, List.foldr_cons] at ih ⊢
    rw [mem_insByKey, ih]; simp

theorem sortByKey_sorted (p : Pend) (hs : PSorted p) : sortByKey p = p := by
  induction p with
  | nil => rfl
  | cons x l ih =>
    unfold PSorted at hs ih
    rw [List.pairwise_cons] at hs
    have : sortByKey (x :: l) = insByKey x (sortByKey l) := rfl
    rw [this, ih hs.2]
    cases l with
    | nil => rfl
    | cons y r =>
      have := hs.1 y (by simp)
      simp [insByKey, this]

/-- a sorted pending list is itself a dict that stands for it -/
theorem rep_of_sorted (p : Pend) (hs : PSorted p) : Rep p p := by
  refine ⟨?_, sortByKey_sorted p hs⟩
  unfold PSorted at hs
  rw [List.Nodup, List.pairwise_map]
  exact hs.imp (fun hab => Nat.ne_of_lt hab)

theorem setObj_self (s : State) (h : Hnd) (o : Inst) (ho : s.objs h = some o) : setObj s h o = s := by
  unfold setObj
  have : (fun k => if k = h then some o else s.objs k) = s.objs := by
    funext k; by_cases hk : k = h <;> simp [hk, ho]
  rw [this]

theorem instOf_pyObj (o : Inst) (cv : Pend) (hrep : Rep cv o.pending) : instOf o.cls o.id (pyObj o cv) = o := by
  simp [instOf, pyObj, hrep.sorted]

/-- `syncUpdate()` from ANY world whose lock is free and whose pending keys are columns -/
theorem syncUpdateX_run (cls : Cls) (id : Id) (n : Nat) (h : Hnd) (w : World State) (hl : w.o.lock = false)
    (hcols : ∀ e ∈ w.o.createValues, e.1 < w.k.ncols) :
    syncUpdateX cls id n h w =
      if w.o.createValues = [] then .ret w .none
      else if w.fail then
        .exc { w with g := (ormConn cls id n h).update w.g (sortByKey w.o.createValues) true } .dbError
      else .ret { w with o := { w.o with createValues := [], dirty := false },
                         g := (ormConn cls id n h).update w.g (sortByKey w.o.createValues) false } .none := by
  unfold syncUpdateX syncUpdateProg syncUpdate_nlocals syncUpdate_nlists syncUpdate_ndicts
  obtain ⟨⟨vals, cv, expired, dirty, creating, obsolete, sup, inCache, lock⟩, g, k, fail⟩ := w
  simp only at hl hcols
  subst hl
  by_cases hcv : cv = []
  · subst hcv
    pymrun
  · have hn : k.ncols ≠ 0 := by
      obtain ⟨e, he⟩ := List.exists_mem_of_ne_nil _ hcv
      have := hcols e he
      intro h0; rw [h0] at this; exact absurd this (Nat.not_lt_zero _)
    pymrun
    generalize hM : mapR _ cv = m
    have hm := mapR_ok_of hM (fun e => (e.1, PV.pair (.name e.1) (ofVal e.2))) (by
      intro x hx
      have := hcols x hx
      simp [this])
    subst hm
    clear hM
    simp only [R.bind_ok, sortByKey_map, List.map_map]
    pymrun
    generalize hM : mapR _ (sortByKey cv) = m
    have hm := mapR_ok_of hM (fun e => PV.pair (.dbName e.1) (ofVal e.2)) (by
      intro x hx
      have := hcols x (by rw [← mem_sortByKey]; exact hx)
      simp [this])
    subst hm
    clear hM
    cases fail <;> pymrun

theorem syncUpdateX_eq (cfg : Cfg) (i : Iface) (s : State) (h : Hnd) (o : Inst) (cv : Pend) (fail : Bool)
    (ho : s.objs h = some o) (hrep : Rep cv o.pending) (hcols : ∀ e ∈ o.pending, e.1 < cfg.ncols o.cls) :
    absUnit o.cls o.id h (syncUpdateX o.cls o.id (cfg.ncols o.cls) h (absW cfg i s o cv fail)) = some (opSyncUpdate s h fail) := by
  obtain ⟨cls, id, cached, expired, dirty, pending, obsolete, inCache⟩ := o
  have hs := hrep.sorted
  simp only at hs hcols
  subst hs
  rw [syncUpdateX_run _ _ _ _ _ rfl (fun e he => hcols e ((mem_sortByKey _ _).mpr he))]
  unfold opSyncUpdate
  by_cases hcv : cv = []
  · subst hcv
    simp [absW, pyObj, absUnit, conc, instOf, ho]
    exact setObj_self _ _ _ (by simpa using ho)
  · have hne : sortByKey cv ≠ [] := by rw [Ne, sortByKey_eq_nil]; exact hcv
    cases fail
    · simp [absW, pyObj, klassOf, absUnit, conc, instOf, ormConn, sendUpdate, ho, hcv, hne]
    · simp only [absW, pyObj, absUnit, conc, instOf, excOut, ormConn, sendUpdate, Bool.or_self, Bool.false_eq_true, if_false, if_true,
        Option.bind_some, Option.map_some, ho, hcv, hne, List.isEmpty_iff]
      simp only [Option.some.injEq, Prod.mk.injEq, and_true]
      exact setObj_self _ _ _ ho

end SqlObjVerif.OrmVal
