import SqlObjVerif.Lemmas.SelXSqlrepr
import SqlObjVerif.Lemmas.ExprXRenderF
import SqlObjVerif.Lemmas.ExprXSpell
/-!
# C03 translation — `sqlrepr(<Select>)` and `IN (subselect)` on the model, through the tied interface

`select_sqlrepr_nodes`: for a Select whose items and clause are images of expression nodes, the translated
`Select.__sqlrepr__` (with `_str_or_sqlrepr`, `sqlrepr` of the nodes and the `tablesUsedSet` recursion all resolved to
translated programs) returns `selectText` over the nodes' `renderS` texts and their table sets.
`insubquery_sqlrepr`: `sqlrepr(INSubquery(item, <Select>))` is `<item> IN (<that text>)`.
-/
namespace SqlObjVerif.SelX
open SqlObjVerif.PyExpr hiding Expr Exprs Stmt Block Res
open SqlObjVerif.PySel SqlObjVerif.PySel.Extracted
open SqlObjVerif.ExprX (Node toVal isObjNode renderS strOf)

set_option linter.unusedSimpArgs false

/-- the pure interfaces of the Select-aware family are tied to the translated renderers -/
theorem tiedE (P : ExprX.Params) (Q : ParamsQ) (h : Heap) : ExprX.Tied P (fun k => (sIfaceF P Q k).E h) := by
  refine ⟨fun k v db hne => ?_, fun k => rfl, fun k => sIfaceF_isSub P Q k h, fun k => by cases k <;> rfl,
    fun k => by cases k <;> rfl⟩
  show callE (sIfaceF P Q k) h "sqlrepr" [v, db] = _
  unfold callE
  rw [if_pos rfl]
  simp only []
  rw [if_neg hne]

/-- `_str_or_sqlrepr(node, d)` through the tied interface is the text-level hand model of the node -/
theorem sos_toVal (P : ExprX.Params) (Q : ParamsQ) (hL : ExprX.LeafOk P) (h : Heap) (d : String) (n : Node) (k : Nat)
    (hk : ExprX.depth n ≤ k) :
    ((sIfaceF P Q (k + 2)).E h).call "_str_or_sqlrepr" [toVal P n, .str (strOf d)] = .ok (.str (renderS P d n)) := by
  show callE (sIfaceF P Q (k + 1)) h "_str_or_sqlrepr" _ = _
  unfold callE
  rw [if_neg (by decide), if_pos rfl, str_or_sqlrepr_spec, sIfaceF_isSub]
  have hns : ExprX.isSub (typeName (toVal P n)) "str" = false := by
    rw [ExprX.typeName_toVal]; cases n <;> simp only [ExprX.nodeCls] <;> decide
  rw [hns]
  exact ExprX.sqlrepr_toValF P _ (tiedE P Q h) d hL n k hk

/-! ### the table set of a node as strings -/

def tablesS (P : ExprX.Params) : Node → List Str
  | .field c => [P.table c]
  | .sqlop _ l r =>
    unionStr (unionStr [] (if isObjNode l then tablesS P l else [])) (if isObjNode r then tablesS P r else [])
  | .sqlin l r =>
    unionStr (unionStr [] (if isObjNode l then tablesS P l else [])) (if isObjNode r then tablesS P r else [])
  | .modulo l r =>
    unionStr (unionStr [] (if isObjNode l then tablesS P l else [])) (if isObjNode r then tablesS P r else [])
  | .prefix _ x => unionStr [] (if isObjNode x then tablesS P x else [])
  | _ => []

theorem ite_map (b : Bool) (A : List Str) :
    (if b = true then A.map Val.str else []) = (if b = true then A else []).map Val.str := by cases b <;> rfl

theorem tablesL_eq (P : ExprX.Params) : ∀ n : Node, tablesL P n = (tablesS P n).map .str := by
  intro n
  induction n with
  | sqlop o l r ihl ihr =>
    simp only [tablesL, tablesS, ihl, ihr, ite_map]
    rw [show ([] : List Val) = ([] : List Str).map Val.str from rfl, setUnion_map, setUnion_map]
  | sqlin l r ihl ihr =>
    simp only [tablesL, tablesS, ihl, ihr, ite_map]
    rw [show ([] : List Val) = ([] : List Str).map Val.str from rfl, setUnion_map, setUnion_map]
  | modulo l r ihl ihr =>
    simp only [tablesL, tablesS, ihl, ihr, ite_map]
    rw [show ([] : List Val) = ([] : List Str).map Val.str from rfl, setUnion_map, setUnion_map]
  | «prefix» p x ih =>
    simp only [tablesL, tablesS, ih, ite_map]
    rw [show ([] : List Val) = ([] : List Str).map Val.str from rfl, setUnion_map]
  | _ => rfl

/-- the table names a thing contributes -/
def contribS (P : ExprX.Params) (n : Node) : List Str := if isObjNode n then tablesS P n else []

theorem contributes_toVal (P : ExprX.Params) (Q : ParamsQ) (h : Heap) (db : Val) (n : Node) (k : Nat)
    (hk : 2 * depthT n + 3 ≤ k) : Contributes (sIfaceF P Q k) h db (toVal P n) (contribS P n) := by
  unfold Contributes contribS
  rw [sIfaceF_isSub, ← ExprX.isExpr, ExprX.isExpr_toVal]
  cases hb : isObjNode n
  · left; exact ⟨rfl, rfl⟩
  · right
    refine ⟨rfl, tuV P n, tablesUsed_toVal P Q h db n k hk, ?_⟩
    rw [updItems_tuV, hb, if_pos rfl, tablesL_eq]; rfl

theorem allR_map {α β γ : Type} (r : β → γ → Prop) (f : α → β) (g : α → γ) :
    ∀ l : List α, (∀ a ∈ l, r (f a) (g a)) → ExprX.AllR r (l.map f) (l.map g)
  | [], _ => .nil
  | a :: l, h => .cons (h a (List.mem_cons_self)) (allR_map r f g l fun x hx => h x (List.mem_cons_of_mem _ hx))

/-- the clause of a Select in the model: none (`NoDefault`) or an expression node -/
def clauseV (P : ExprX.Params) : Option Node → Val
  | Option.none => noDefault
  | some c => toVal P c

theorem limitCall_tied (P : ExprX.Params) (Q : ParamsQ) (k : Nat) (h : Heap) (d : String) (sel : Str) (st : Int) (en : Val) :
    limitCall (sIfaceF P Q (k + 1)) h (.str (strOf d)) sel st en = Q.limitOffset (.str (strOf d)) (.str sel) (.int st) en := by
  unfold limitCall
  rw [sIfaceF_E]
  simp only [eLevel]
  unfold callE
  rw [if_neg (by decide), if_neg (by decide), if_neg (by decide), if_pos rfl]
  simp only [R.bind_ok, connV]
  simp [methodS, refOf, methodOf, eLevel, methodE, limitOffsetD, aget]

/-- **`sqlrepr(<Select>, d)` by the translated source on the model of a Select** (items and clause are expression
    nodes; no joins, GROUP BY, HAVING, ORDER BY, DISTINCT ON; all columns): the text is
    `SELECT [DISTINCT] <renderS items> [FROM <sorted tables>] [WHERE <renderS clause>]`, the tables being the static ones
    plus those `tablesUsedSet` finds in the items and the clause; then the dialect's LIMIT / OFFSET hand-off (parameter
    `Q.limitOffset`) and ` FOR UPDATE` -/
theorem select_sqlrepr_nodes (P : ExprX.Params) (Q : ParamsQ) (hT : ExprX.TextOk P) (d : String) (h : Heap) (p : Nat)
    (o : OpsM) (hp : h.cells p = some (opsDict o)) (bd bf : Bool) (ns : List Node) (cn : Option Node) (sts : List Str)
    (st : Int) (sel2 : Str) (k : Nat)
    (hd : o.distinct = .bool bd) (hdo : o.distinctOn = noDefault) (hlz : o.lazyColumns = .bool false)
    (hit : o.items = .list (ns.map (toVal P))) (hcl : o.clause = clauseV P cn) (hj : o.join = noDefault)
    (hst : o.staticTables = .list (sts.map .str)) (hg : o.groupBy = noDefault) (hhv : o.having = noDefault)
    (hob : o.orderBy = noDefault ∨ o.orderBy = .none) (hfu : o.forUpdate = .bool bf) (hstart : o.start = .int st)
    (hlim : o.limit = noDefault ∨ ∃ l, o.limit = .int l) (hen : o.end_ = .none ∨ ∃ e, o.end_ = .int e)
    (hk : ∀ n ∈ ns ++ cn.toList, ExprX.depth n ≤ k ∧ 2 * depthT n + 1 ≤ k)
    (hcall : (st != 0 || !isNoneV (endOf o.limit st o.end_)) = true →
      Q.limitOffset (.str (strOf d)) (.str (selectText Q.strLe bd (ns.map (renderS P d))
        (((ns ++ cn.toList).map (contribS P)).foldl unionStr (sts.foldl addStr [])) (cn.map (renderS P d))))
        (.int st) (endOf o.limit st o.end_) = .ok (.str sel2)) :
    runP (sIfaceF P Q (k + 2)) Select_sqlrepr [selObj p, .str (strOf d)] h =
      .ok (.str ((if (st != 0 || !isNoneV (endOf o.limit st o.end_)) then sel2
          else selectText Q.strLe bd (ns.map (renderS P d))
            (((ns ++ cn.toList).map (contribS P)).foldl unionStr (sts.foldl addStr [])) (cn.map (renderS P d))) ++
        (if bf then [32, 70, 79, 82, 32, 85, 80, 68, 65, 84, 69] else []))) := by
  have hL := hT.leafOk
  have hth : thingsOf (ns.map (toVal P)) o.clause = (ns ++ cn.toList).map (toVal P) := by
    rw [hcl]
    cases cn with
    | none => simp [thingsOf, clauseV, noDefault, globV]
    | some c =>
      have : (typeName (toVal P c) == "@NoDefault") = false := by
        rw [ExprX.typeName_toVal]; cases c <;> simp only [ExprX.nodeCls] <;> decide
      simp [thingsOf, clauseV, this]
  have := Select_sqlrepr_spec (sIfaceF P Q (k + 2)) (fun h' => sIfaceF_isSub P Q _ h') h p (.str (strOf d)) o hp bd bf
    (ns.map (toVal P)) (ns.map (renderS P d)) sts ((ns ++ cn.toList).map (contribS P)) (cn.map (renderS P d)) st sel2
    hd hdo hlz hit hj hst hg hhv hob hfu hstart hlim hen
    (allR_map _ _ _ ns fun n hn => sos_toVal P Q hL h d n k (by have := (hk n (by simp [hn])).1; omega))
    (by intro hc; rw [hcl]; cases cn with
        | none => simp [clauseV, noDefault, globV]
        | some c => simp at hc)
    (by intro t ht; rw [hcl]; cases cn with
        | none => simp at ht
        | some c =>
          simp only [Option.map_some, Option.some.injEq] at ht; subst ht
          refine ⟨?_, sos_toVal P Q hL h d c k (by have := (hk c (by simp)).1; omega)⟩
          rw [clauseV, ExprX.typeName_toVal]; cases c <;> simp only [ExprX.nodeCls] <;> decide)
    (by rw [hth]; exact allR_map _ _ _ _ fun n hn => contributes_toVal P Q h _ n (k + 2) (by have := (hk n hn).2; omega))
    (by intro hneed; rw [sIfaceF_strLe, limitCall_tied]; exact hcall hneed)
  rw [sIfaceF_strLe] at this
  exact this

/-! ### `IN (subselect)`: rendered through the translated `INSubquery.__sqlrepr__` and `Select.__sqlrepr__` -/

theorem callE_select (J : SIface) (h : Heap) (p : Nat) (db : Val) :
    callE J h "sqlrepr" [selObj p, db] = runP J Select_sqlrepr [selObj p, db] h := by
  unfold callE
  rw [if_pos rfl]
  exact if_pos rfl

theorem callE_insub (J : SIface) (h : Heap) (fs : List (String × Val)) (db : Val) :
    callE J h "sqlrepr" [.obj "INSubquery" fs, db] =
      (PyExpr.run (J.E h) PyExpr.Extracted.INSubquery_sqlrepr [.obj "INSubquery" fs, db]).toR := by
  have hf : ExprX.findMethod "INSubquery" "__sqlrepr__" = some PyExpr.Extracted.INSubquery_sqlrepr := by rfl
  unfold callE
  rw [if_pos rfl]
  show (if typeName (Val.obj "INSubquery" fs) = "Select" then _ else _) = _
  rw [if_neg (by simp only [typeName]; decide)]
  simp only [ExprX.sqlreprD, hf]

/-- `sqlrepr(INSubquery(item, <Select>), db)` through the tied interface: `<item> IN (<text of the Select>)`, the Select
    rendered by the translated `Select.__sqlrepr__` from its ops dict in the heap -/
theorem insubquery_sqlrepr (P : ExprX.Params) (Q : ParamsQ) (k : Nat) (h : Heap) (item db : Val) (p : Nat) (s1 t : Str)
    (h1 : ((sIfaceF P Q (k + 1)).E h).call "sqlrepr" [item, db] = .ok (.str s1))
    (ht : runP (sIfaceF P Q k) Select_sqlrepr [selObj p, db] h = .ok (.str t)) :
    ((sIfaceF P Q (k + 2)).E h).call "sqlrepr" [.obj "INSubquery" [("item", item), ("subquery", selObj p)], db] =
      .ok (.str (s1 ++ 32 :: ([73, 78] ++ 32 :: 40 :: (t ++ [41])))) := by
  have hop : ExprX.findClassAttr "INSubquery" "op" = some (.str [73, 78]) := by rfl
  have h2 : ((sIfaceF P Q (k + 1)).E h).call "sqlrepr" [selObj p, db] = .ok (.str t) := by
    rw [sIfaceF_E]; simp only [eLevel]; rw [callE_select]; exact ht
  rw [sIfaceF_E]; simp only [eLevel]
  rw [callE_insub, ExprX.INSubquery_sqlrepr_spec _ _ _ _ [73, 78] s1 t item (selObj p) (by simp [aget]) (by simp [aget])
    (by simp [aget]) (by rw [sIfaceF_E]; exact hop) h1 h2]
  rfl
end SqlObjVerif.SelX
