import SqlObjVerif.Lemmas.DdlXFk
import SqlObjVerif.Lemmas.DdlXEnum
/-!
# C14 translation — the reference constraints: `<Connection>.createReferenceConstraint`,
`SOForeignKey.<dialect>CreateReferenceConstraint` (the cascade → ON DELETE choice) = `alterFk`
-/
namespace SqlObjVerif.DdlX
open SqlObjVerif.Ddl
open SqlObjVerif.PyDdl hiding Str isUpperC
open SqlObjVerif.PyDdl.Extracted

/-! ### `s.split('.')[-1]` -/

def lastD : List Str → Str
  | [] => []
  | [a] => a
  | _ :: b :: l => lastD (b :: l)

theorem getElem_last (l : List Str) (a : Str) : (a :: l)[l.length]? = some (lastD (a :: l)) := by
  induction l generalizing a with
  | nil => rfl
  | cons b l ih => simpa [lastD] using ih b

theorem pyIndex_last (l : List Str) (a : Str) :
    pyIndex (.list ((a :: l).map .str)) (.int (-1)) = .ok (.str (lastD (a :: l))) := by
  have h : normIdx ((a :: l).map Val.str).length (-1) = some l.length := by
    simp [normIdx]
  rw [pyIndex_list, h]
  simp only [Option.bind_some, List.getElem?_map, getElem_last]
  rfl

def dotStep (acc : Str) (c : Nat) : Str := if c = 46 then [] else acc ++ [c]

theorem afterLastDot_eq (s : Str) : afterLastDot s = s.foldl dotStep [] := rfl

theorem split_foldl (s : Str) : ∀ acc, ∃ h t, splitChar 46 s = h :: t ∧
    s.foldl dotStep acc = (if t = [] then acc ++ h else lastD (h :: t)) := by
  induction s with
  | nil => intro acc; exact ⟨[], [], rfl, by simp⟩
  | cons a s ih =>
    intro acc
    by_cases ha : a = 46
    · subst ha
      obtain ⟨h, t, hs, hf⟩ := ih []
      refine ⟨[], h :: t, by simp [splitChar, hs], ?_⟩
      simp only [List.foldl_cons, dotStep, if_true, hf, reduceCtorEq, if_false, lastD]
      cases t with
      | nil => simp [lastD]
      | cons b t => simp
    · obtain ⟨h, t, hs, hf⟩ := ih (acc ++ [a])
      refine ⟨a :: h, t, by simp [splitChar, ha, hs], ?_⟩
      simp only [List.foldl_cons, dotStep, ha, if_false, hf]
      cases t with
      | nil => simp
      | cons b t => simp [lastD]

/-- `s.split('.')[-1]` = the hand model's `afterLastDot` -/
theorem split_last (s : Str) :
    pyIndex (.list ((splitChar 46 s).map .str)) (.int (-1)) = .ok (.str (afterLastDot s)) := by
  obtain ⟨h, t, hs, hf⟩ := split_foldl s []
  rw [hs, pyIndex_last, afterLastDot_eq, hf]
  cases t with
  | nil => simp [lastD]
  | cons b t => simp

/-- the same, in the form simp leaves it -/
theorem split_last' (s : Str) :
    idxRes ((normIdx (splitChar 46 s).length (-1)).bind fun x => Option.map Val.str (splitChar 46 s)[x]?) id =
      .ok (.str (afterLastDot s)) := by
  simpa using split_last s

/-! ### the constraint of one foreign key -/

macro "rceval" : tactic =>
  `(tactic| pyxc [connCls, extX, findClassX, strMethod, split_last', cascadeV, alterFk, lit, Col.db,
      Ddl.Extracted.tables, Ddl.Extracted.fkAction])

set_option maxHeartbeats 2000000 in
/-- `<Connection>.createReferenceConstraint(soClass, col)` for a foreign key = `alterFk`: an `ALTER TABLE … ADD
    CONSTRAINT … FOREIGN KEY … REFERENCES … <ON DELETE action>` statement on MySQL / PostgreSQL (the action chosen
    from `cascade`: None ↦ nothing, 'null' ↦ SET NULL, true ↦ CASCADE, false ↦ RESTRICT), `None` elsewhere -/
theorem fk_refConstraint (n : Nat) (T : Tables) (d : Dialect) (c : Caps) (sv : Val) (decl : Decl) (c0 : Val)
    (tT tI : Str) (tS : Bool) (cas : Cascade)
    (name : Str) (dbn : Option Str) (nn : Bool) (uq : Option Bool) (alt : Bool) (ds : Option Str) :
    callN prog ddlI (n + 2) (.meth (connCls d) M_createReferenceConstraint)
        [connV d c, sv, colV T decl.style decl.tableName c0 (fkCol name dbn tT tI tS cas nn uq alt ds)] =
      .ok (optStr (alterFk TX d decl (fkCol name dbn tT tI tS cas nn uq alt ds))) := by
  cases d <;> cases cas <;> rceval

end SqlObjVerif.DdlX
