import SqlObjVerif.Lemmas.EvMainXSetRun
/-!
C19 translator tie, part 7: `set` as translated = the model's `opSet` (eager and lazy classes).
-/
namespace SqlObjVerif.Events
open SqlObjVerif.PyEv
open SqlObjVerif.PyEv.Extracted
open SqlObjVerif.PyMain (R mapR ofOpt dget dhas dset dupdate dictOf sortByKey insByKey Exc FnKind)

theorem lookup_map_dset {α : Type} (k c : Nat) (v : α) : ∀ d : List (Nat × α),
    List.lookup k (d.map fun e => if e.1 = c then (c, v) else e) =
      if k = c then (if dhas c d then some v else none) else List.lookup k d := by
  intro d
  induction d with
  | nil => by_cases hk : k = c <;> simp [dhas, hk]
  | cons e d ih =>
    obtain ⟨a, b⟩ := e
    have hd : dhas c ((a, b) :: d) = (decide (a = c) || dhas c d) := by simp [dhas]
    rw [hd]
    simp only [List.map_cons]
    by_cases hac : a = c
    · subst hac
      simp only [if_true, List.lookup_cons, ih]
      by_cases hk : k = a
      · subst hk; simp
      · have : (k == a) = false := by simpa using hk
        simp [hk, this]
    · simp only [hac, if_false, List.lookup_cons, ih]
      by_cases hk : k = c
      · subst hk
        have : (k == a) = false := by simpa using fun e => hac e.symm
        simp [this]
      · simp [hk]

theorem lookup_dset {α : Type} (k c : Nat) (v : α) (d : List (Nat × α)) :
    List.lookup k (dset c v d) = if k = c then some v else List.lookup k d := by
  unfold dset
  split
  · next h => rw [lookup_map_dset]; simp [h]
  · next h =>
    have hn : List.lookup c d = none := by
      cases hl : List.lookup c d with
      | none => rfl
      | some x => rw [dhas_eq_lookup, hl] at h; simp at h
    rw [List.lookup_append]
    by_cases hk : k = c
    · subst hk; simp [hn, List.lookup]
    · have : (k == c) = false := by simpa using hk
      simp [hk, List.lookup, this]

theorem lookup_dupdate {α : Type} (k : Nat) (new : List (Nat × α)) (hnd : (new.map (·.1)).Nodup) : ∀ d : List (Nat × α),
    List.lookup k (dupdate new d) = match List.lookup k new with
      | some v => some v
      | none => List.lookup k d := by
  induction new with
  | nil => intro d; rfl
  | cons x l ih =>
    intro d
    obtain ⟨a, b⟩ := x
    simp only [List.map_cons, List.nodup_cons] at hnd
    rw [dupdate_cons, ih hnd.2, lookup_dset, List.lookup_cons]
    by_cases hk : k = a
    · subst hk
      have : List.lookup k l = none := by
        cases hl : List.lookup k l with
        | none => rfl
        | some x => exact absurd (List.mem_map_of_mem (f := (·.1)) (lookup_mem _ _ _ hl)) hnd.1
      simp [this]
    · have hb : (k == a) = false := by simpa using hk
      simp [hk, hb]

theorem zipWith_map_same {α β γ δ : Type} (f : β → γ → δ) (g : α → β) (h : α → γ) (l : List α) :
    List.zipWith f (l.map g) (l.map h) = l.map fun x => f (g x) (h x) := by
  induction l with
  | nil => rfl
  | cons a l ih => simp [ih]

/-- `_SO_createValues.update(kw)` read per column is the model's `mergeVec` -/
theorem colVec_dupdate (n : Nat) (kw cv : Kw) (hnd : (kw.map (·.1)).Nodup) :
    colVec n (dupdate (colsOf n kw) cv) = mergeVec (colVec n cv) (colVec n kw) := by
  unfold mergeVec colVec Kw.get
  rw [zipWith_map_same]
  apply List.map_congr_left
  intro k hk
  have hk' : k < n := by simpa using hk
  have h1 := lookup_dupdate k (colsOf n kw) (keys_filter_nodup _ _ hnd) cv
  have h2 : List.lookup k (colsOf n kw) = List.lookup k kw := by
    unfold colsOf
    rw [lookup_filter_key (fun j => Nat.blt j n)]
    simp only [blt_true hk', if_true]
  rw [h1, h2]
  cases List.lookup k kw <;> rfl


@[simp] theorem map_snd_tag (lvl : Nat) (l : List Entry) : List.map ((fun x => x.snd) ∘ fun e => (lvl, e)) l = l := by
  simp [Function.comp_def]

/-- **`set` as translated = the model's `opSet`** -/
theorem setX_eq (fuel : Nat) (c : Cfg) (s : State) (h : Nat) (o : Events.Obj) (cv kw : Kw)
    (ho : s.objs[h]? = some o) (hrep : Rep c.ncols cv o.pending) (hnd : (kw.map (·.1)).Nodup) :
    absUnit s h (setX fuel (absW c s (pyObj o cv)) [] (kwPV kw)) = some (opSet c s h o kw) := by
  obtain ⟨id, pending⟩ := o
  obtain ⟨hcn, hcols, hvec⟩ := hrep
  simp only at hvec
  subst hvec
  have hr := setSig_nodup (absW c s (pyObj ⟨id, colVec c.ncols cv⟩ cv)) kw hnd
  have hsig : setSig (absW c s (pyObj ⟨id, colVec c.ncols cv⟩ cv)) kw = deliver .update (some id) 0 c.listeners kw [] := by
    simp [setSig, absW, pyObj]
  rw [hsig] at hr
  unfold opSet setCore
  dsimp only
  rw [vecInvalid_kw _ _ hr, unknownKey_kw, vecEmpty_kw _ _ hr]
  cases hlz : c.lazy
  · obtain ⟨vals', hx⟩ := (setX_run fuel (absW c s (pyObj ⟨id, colVec c.ncols cv⟩ cv)) kw hnd).2
      (by simp [absW, pyObj, hlz]) rfl id rfl
    rw [hx, hsig]
    simp only [afterSig, hsig]
    simp only [eagerOut, absW, pyObj]
    generalize deliver Sig.update (some id) 0 c.listeners kw [] = D at hr ⊢
    by_cases hany : (colsOf c.ncols D.1).any (fun e => decide (e.2 = .bad)) = true
    · simp [hany, absUnit, outOf, excOut, quiet, objOf, untag, tagLog, objs_set_self _ _ _ ho]
    · by_cases hex : (extraOf c.ncols D.1).isEmpty = true
      · by_cases hce : (colsOf c.ncols D.1).isEmpty = true <;>
          simp [hany, hex, hce, absUnit, outOf, quiet, objOf, untag, tagLog, objs_set_self _ _ _ ho, Function.comp_def]
      · simp [hany, hex, absUnit, outOf, excOut, quiet, objOf, untag, tagLog, objs_set_self _ _ _ ho]
  · obtain ⟨vals', hx⟩ := (setX_run fuel (absW c s (pyObj ⟨id, colVec c.ncols cv⟩ cv)) kw hnd).1
      (by simp [absW, pyObj, hlz]) cv rfl
    rw [hx, hsig]
    simp only [afterSig, hsig]
    simp only [lazyOut, absW, pyObj]
    generalize deliver Sig.update (some id) 0 c.listeners kw [] = D at hr ⊢
    by_cases hany : (colsOf c.ncols D.1).any (fun e => decide (e.2 = .bad)) = true
    · simp [hany, absUnit, outOf, excOut, quiet, objOf, untag, tagLog, objs_set_self _ _ _ ho]
    · by_cases hex : (extraOf c.ncols D.1).isEmpty = true
      · simp [hany, hex, absUnit, outOf, quiet, objOf, untag, tagLog, State.setObj, colVec_dupdate _ _ _ hr]
      · simp [hany, hex, absUnit, outOf, excOut, quiet, objOf, untag, tagLog, objs_set_self _ _ _ ho]

end SqlObjVerif.Events
