import SqlObjVerif.Model.InhIterNX
import SqlObjVerif.Lemmas.InhIterXFetch
/-!
The TRANSLATED `InheritableIteration.next`, one step with a row left in the current batch (`nextX_batch`).  The steps
that fetch a new batch / end the iteration and the drain theorem are not done.
-/
set_option linter.unusedSimpArgs false
namespace SqlObjVerif.InhIter
open SqlObjVerif.PyIS
open SqlObjVerif.PyIS.Extracted
open SqlObjVerif.InhSel (toList_ofList isListVal_ofList)

@[simp] theorem nIface_self (X : NCtx) : (nIface X).self = .ref 30 0 := rfl
@[simp] theorem nIface_attrOf (X : NCtx) : (nIface X).attrOf = nAttrOf X := rfl
@[simp] theorem nIface_setAttrOf (X : NCtx) : (nIface X).setAttrOf = nSetAttrOf := rfl
@[simp] theorem nIface_call (X : NCtx) : (nIface X).call = nCall X := rfl

macro "nxrun" "[" ts:Lean.Parser.Tactic.simpLemma,* "]" : tactic => `(tactic|
  simp [PyIS.run, Block.exec, Stmt.exec, Cond.eval, Expr.eval, Expr.evalList, eval2, evalArgs, evalStar, St.setVar,
        St.setOpt, afterCall, Res.toCall, zipKw, withList, setAttrRes, delItemRes, delIdxRes, subscriptRes, orThen, listOnly,
        indexRes, Env.ofArgs, nAttrOf, nSetAttrOf, nCall, iAttrOf, Val.isNone, natOf, $ts,*])

/-- the child row handed to `get` for id `j`, and the dict afterwards -/
def crOf (ch : Val) (j : Nat) : Val := (vdGet (.nat j) ch).getD .none
def chAfter (ch : Val) (j : Nat) : Val := if vdHas (.nat j) ch then vdDel (.nat j) ch else ch

theorem isListVal_vdDel (k : Val) : ∀ d, isListVal d = true → isListVal (vdDel k d) = true := by
  intro d
  fun_induction vdDel k d <;> simp_all [isListVal]

/-- `next()` with a row left in the current batch: that row is delivered (`get` is handed the rest of the row and the
    prefetched child row, which leaves the dict), the batch shrinks by it, the cursors are not touched -/
theorem nextX_batch (X : NCtx) (w : IW) (r : Nat × List Val × Option Nat) (rest : List Val)
    (hres : w.results = .cons (rowOf r) (Val.ofList rest)) (hch : isListVal w.children = true) :
    nextX X w = .ret { w with results := Val.ofList rest, children := chAfter w.children r.1 }
      (X.getRes r.1 (Val.ofList (r.2.1 ++ [tagV r.2.2])) (crOf w.children r.1)) := by
  unfold nextX iterNextProg
  have hl : isListVal (Val.ofList rest) = true := isListVal_ofList _
  cases hg : vdGet (.nat r.1) w.children with
  | none =>
    nxrun [hres, hch, rowOf, rowV, isListVal, vlIdx, vlLen, vlDelIdx, vlDrop, hl, hg, crOf, chAfter, isListVal_ofList, vdHas]
  | some cr =>
    nxrun [hres, hch, rowOf, rowV, isListVal, vlIdx, vlLen, vlDelIdx, vlDrop, hl, hg, crOf, chAfter, isListVal_ofList, vdHas]
end SqlObjVerif.InhIter
