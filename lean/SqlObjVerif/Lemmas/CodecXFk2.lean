import SqlObjVerif.Lemmas.CodecXBase
/-!
# CodecX — the translated ForeignKeyValidator.from_python on a float (c408a4f: a fractional float given to a key of an
int-keyed class is refused)
-/
namespace SqlObjVerif.PyCodec

open SqlObjVerif.Codec (Str PyVal FTok)
open Extracted

theorem fkInt_float_lit_first (t : Str) :
    runV (cfgFkInt true) fkFromPython (.float (.lit t)) = some (Codec.fkFromPython (.float (.lit t))) := by
  cases h : Codec.floatClass t <;>
  pyxw [fkFromPython, fkFromPython_s0, fkFromPython_s1, fkFromPython_s2, fkFromPython_s3, fkFromPython_s4,
    fkFromPython_s5, Codec.fkFromPython, floatFracM, clsIn, h]

theorem fkInt_float_lit_later (t : Str) :
    runV (cfgFkInt false) fkFromPython (.float (.lit t)) = some (Codec.fkFromPython (.float (.lit t))) := by
  cases h : Codec.floatClass t <;>
  pyxw [fkFromPython, fkFromPython_s0, fkFromPython_s1, fkFromPython_s2, fkFromPython_s3, fkFromPython_s4,
    fkFromPython_s5, Codec.fkFromPython, floatFracM, clsIn, h]

theorem fkInt_float_ofInt (first : Bool) (i : Int) :
    runV (cfgFkInt first) fkFromPython (.float (.ofInt i)) = some (Codec.fkFromPython (.float (.ofInt i))) := by
  cases first <;>
  pyxw [fkFromPython, fkFromPython_s0, fkFromPython_s1, fkFromPython_s2, fkFromPython_s3, fkFromPython_s4,
    fkFromPython_s5, Codec.fkFromPython, floatFracM, clsIn]

theorem fkInt_float (first : Bool) (t : FTok) :
    runV (cfgFkInt first) fkFromPython (.float t) = some (Codec.fkFromPython (.float t)) := by
  cases t with
  | lit t => cases first
             · exact fkInt_float_lit_later t
             · exact fkInt_float_lit_first t
  | ofInt i => exact fkInt_float_ofInt first i

end SqlObjVerif.PyCodec
