import SqlObjVerif.Lemmas.EvSubXListen
/-!
C19 translator tie, part 21: a top-down declaration history of an inheritance chain (class, its early listeners, subclass, …,
then the late listeners): the clone list and the connections of every level.
-/
namespace SqlObjVerif.Events
open SqlObjVerif.PyVer

/-- register the `(receiver, signal)` pairs `ps` on class `c`, one translated `listen` each -/
def regAll (c : PVal) (ps : List (PVal × PVal)) (w : LW) : LW :=
  ps.foldl (fun w p => listened w p.1 c p.2 (.bool true)) w

theorem regAll_spec (c c' : PVal) : ∀ (ps : List (PVal × PVal)) (w : LW),
    clonesOf (regAll c ps w).clones c' = (if c' = c then clonesOf w.clones c ++ ps.map encClone else clonesOf w.clones c')
    ∧ connsOf (regAll c ps w) c' = (if c' = c then connsOf w c ++ ps else connsOf w c') := by
  intro ps
  induction ps with
  | nil => intro w; by_cases h : c' = c <;> simp [regAll, h]
  | cons p ps ih =>
    intro w
    have := ih (listened w p.1 c p.2 (.bool true))
    simp only [regAll, List.foldl_cons] at this ⊢
    rw [this.1, this.2, clonesOf_listened, connsOf_listened, clonesOf_listened, connsOf_listened]
    by_cases h : c' = c <;> simp [h]

theorem subclassed_single (alive : PVal → Bool) (w : LW) (base new : PVal) (ps : List (PVal × PVal))
    (h : clonesOf w.clones base = ps.map encClone) (hal : ∀ p ∈ ps, alive p.1 = true) :
    subclassed [base] alive w new = regAll new ps w := by
  simp only [subclassed, List.foldl_cons, List.foldl_nil, h, regAll]
  clear h
  induction ps generalizing w with
  | nil => rfl
  | cons p ps ih =>
    simp only [List.map_cons, List.foldl_cons]
    rw [← ih _ (fun q hq => hal q (by simp [hq]))]
    simp [copyOne, encClone, weakOf, hal p (by simp)]

theorem regAll_wf (c : PVal) : ∀ (ps : List (PVal × PVal)) (w : LW), ClonesWF w → ClonesWF (regAll c ps w) := by
  intro ps
  induction ps with
  | nil => intro w h; exact h
  | cons p ps ih => intro w h; exact ih _ (listened_wf _ _ _ _ _ h)

section
variable (alive : PVal → Bool) (E Lt : Nat → List (PVal × PVal)) (clsV : Nat → PVal)

/-- the top-down declaration history: class 0, its early listeners, class 1 (base 0), its early listeners, … -/
def declare : Nat → LW
  | 0 => regAll (clsV 0) (E 0) ⟨[], []⟩
  | L + 1 => regAll (clsV (L + 1)) (E (L + 1)) (subclassed [clsV L] alive (declare L) (clsV (L + 1)))

/-- … then the late listeners of every level `≤ n` -/
def lates : Nat → LW → LW
  | 0, w => regAll (clsV 0) (Lt 0) w
  | n + 1, w => regAll (clsV (n + 1)) (Lt (n + 1)) (lates n w)

def inh (j : Nat) : List (PVal × PVal) := (List.range (j + 1)).flatMap E

theorem declare_spec (hinj : ∀ a b, clsV a = clsV b → a = b) (hal : ∀ j, ∀ p ∈ E j, alive p.1 = true) : ∀ L j,
    (j ≤ L → clonesOf (declare alive E clsV L).clones (clsV j) = (inh E j).map encClone ∧ connsOf (declare alive E clsV L) (clsV j) = inh E j)
    ∧ (L < j → clonesOf (declare alive E clsV L).clones (clsV j) = [] ∧ connsOf (declare alive E clsV L) (clsV j) = []) := by
  intro L
  induction L with
  | zero =>
    intro j
    have h := regAll_spec (clsV 0) (clsV j) (E 0) ⟨[], []⟩
    refine ⟨fun hj => ?_, fun hj => ?_⟩
    · have : j = 0 := by omega
      subst this
      simpa [declare, inh, clonesOf, connsOf] using h
    · have hne : ¬ clsV j = clsV 0 := fun e => by have := hinj _ _ e; omega
      simpa [declare, hne, clonesOf, connsOf] using h
  | succ L ih =>
    intro j
    have hL := (ih L).1 (Nat.le_refl L)
    have hsub := subclassed_single alive (declare alive E clsV L) (clsV L) (clsV (L + 1)) (inh E L) hL.1
      (by intro p hp; simp only [inh, List.mem_flatMap] at hp; obtain ⟨k, -, hk⟩ := hp; exact hal k p hk)
    have hnew := (ih (L + 1)).2 (Nat.lt_succ_self L)
    have h1 := regAll_spec (clsV (L + 1)) (clsV j) (inh E L) (declare alive E clsV L)
    have h2 := regAll_spec (clsV (L + 1)) (clsV j) (E (L + 1)) (regAll (clsV (L + 1)) (inh E L) (declare alive E clsV L))
    have h1s := regAll_spec (clsV (L + 1)) (clsV (L + 1)) (inh E L) (declare alive E clsV L)
    simp only [declare, hsub]
    by_cases hj : j = L + 1
    · subst hj
      refine ⟨fun _ => ?_, fun h => by omega⟩
      rw [h2.1, h2.2, h1s.1, h1s.2, hnew.1, hnew.2]
      simp [inh, List.range_succ (n := L + 1)]
    · have hne : ¬ clsV j = clsV (L + 1) := fun e => hj (hinj _ _ e)
      rw [h2.1, h2.2, h1.1, h1.2]
      simp only [hne, if_false]
      exact ⟨fun h => (ih j).1 (by omega), fun h => (ih j).2 (by omega)⟩

theorem declare_wf : ∀ L, ClonesWF (declare alive E clsV L) := by
  intro L
  induction L with
  | zero => exact regAll_wf _ _ _ (by intro p hp; simp at hp)
  | succ L ih =>
    apply regAll_wf
    simp only [subclassed, List.foldl_cons, List.foldl_nil]
    exact foldl_copy_wf alive _ _ _ ih

theorem lates_spec (hinj : ∀ a b, clsV a = clsV b → a = b) (w : LW) : ∀ n j,
    connsOf (lates Lt clsV n w) (clsV j) = connsOf w (clsV j) ++ (if j ≤ n then Lt j else []) := by
  intro n
  induction n with
  | zero =>
    intro j
    have h := (regAll_spec (clsV 0) (clsV j) (Lt 0) w).2
    by_cases hj : j = 0
    · subst hj; simpa [lates] using h
    · have hne : ¬ clsV j = clsV 0 := fun e => hj (hinj _ _ e)
      have : ¬ j ≤ 0 := by omega
      simpa [lates, hne, this] using h
  | succ n ih =>
    intro j
    have h := (regAll_spec (clsV (n + 1)) (clsV j) (Lt (n + 1)) (lates Lt clsV n w)).2
    simp only [lates]
    rw [h]
    by_cases hj : j = n + 1
    · subst hj
      have : ¬ n + 1 ≤ n := by omega
      simp [ih, this]
    · have hne : ¬ clsV j = clsV (n + 1) := fun e => hj (hinj _ _ e)
      have hiff : (j ≤ n + 1) = (j ≤ n) := by apply propext; omega
      simp [hne, ih, hiff]

end
end SqlObjVerif.Events
