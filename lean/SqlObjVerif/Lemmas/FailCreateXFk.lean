import SqlObjVerif.Lemmas.FailCreateXMain
import SqlObjVerif.Lemmas.FailPropXCreate
/-!
C06, operation CREATE with ForeignKeys given by object among the keywords (`Cls(x=other, a=1)` for a ForeignKey
column `xID`): the pure list facts.  `byObject` (the columns the default loop of `_create` passes over because
`column.foreignName in kw`), `fkCol` (a by-object keyword as an ordinary entry of the hand model's keyword list), the
split of the completed keyword dict into plain columns and by-object keywords (`full_filter_lt`, `full_filter_ge`), and
what the object under construction holds after `set` (`dupdate` / `updPending` of distinct columns append).
-/
namespace SqlObjVerif.PyCreate
open SqlObjVerif.PyMain (PV R mapR ofOpt PDict dget dhas dset dupdate sortByKey ofVal toVal? pvIdx pyBool)
open SqlObjVerif.PyCreate.Extracted
open SqlObjVerif.Fail (Err Schema Inj Extra In clsOf colOf Mem valsOf allOk updPending asgOf)
open SqlObjVerif.PyFail (FW sendStmt memStep excErr mkW kwPV vqOf vqEx viewObs runObs obs fkOf)

/-- column `j` is a ForeignKey column and one of the keywords `pd` is its by-object name -/
def byObject (sch : Schema) (c : Nat) (props : Nat → Extra) (pd : List (Nat × In)) (j : Nat) : Bool :=
  (colOf (clsOf sch c).cols j).fk.isSome &&
    pd.any fun e => !Nat.blt e.1 (clsOf sch c).cols.length && fkTo (props e.1) j

theorem fkGiven_eq (w : FW) (pd : List (Nat × In)) (j : Nat) : fkGiven w pd j = byObject w.sch w.c w.props pd j := by
  simp [fkGiven, byObject, fkIn, kwPV, fkKeyFor, FW.ncols, List.any_map, Function.comp_def]

/-- a ForeignKey-by-object keyword as an entry of the hand model's keyword list: its column, the id (a value both
    validators accept) -/
def fkCol (props : Nat → Extra) (e : Nat × In) : Nat × In := ((fkOf props e).1, In.ok (fkOf props e).2)

theorem asgOf_append_fk (props : Nat → Extra) (kw exs : List (Nat × In)) :
    asgOf (kw ++ exs.map (fkCol props)) = asgOf kw ++ exs.map (fkOf props) := by
  simp [asgOf, fkCol, In.val]

theorem allOk_append_fk (props : Nat → Extra) (kw exs : List (Nat × In)) :
    allOk (kw ++ exs.map (fkCol props)) = allOk kw := by
  simp [allOk, fkCol, In.isOk, In.fromOk, In.toOk]

/-- the oracle of the whole list = the plain columns', then what the by-object setters consume (`In.ok`: true, true) -/
theorem vqOf_append_fk (props : Nat → Extra) (kw exs : List (Nat × In))
    (hfk : ∀ e ∈ exs, ∃ col v, props e.1 = .fk col v) :
    vqOf (kw ++ exs.map (fkCol props)) = vqOf kw ++ vqEx (exs.map fun e => props e.1) := by
  have : ∀ l : List (Nat × In), (∀ e ∈ l, ∃ col v, props e.1 = Extra.fk col v) →
      vqOf (l.map (fkCol props)) = vqEx (l.map fun e => props e.1) := by
    intro l
    induction l with
    | nil => intro _; rfl
    | cons e l ih =>
      intro h
      obtain ⟨col, v, hp⟩ := h e (by simp)
      have h1 : vqOf (fkCol props e :: l.map (fkCol props)) = true :: true :: vqOf (l.map (fkCol props)) := rfl
      rw [List.map_cons, List.map_cons, h1, ih (fun x hx => h x (by simp [hx])), hp]
      rfl
  simp only [vqOf, List.flatMap_append] at this ⊢
  rw [this exs hfk]

theorem hasKey_filter (pd : List (Nat × In)) (n j : Nat) (hj : j < n) :
    hasKey (pd.filter fun e => Nat.blt e.1 n) j = hasKey pd j := by
  have hb : Nat.blt j n = true := by simpa [Nat.blt_eq] using hj
  rw [Bool.eq_iff_iff]
  simp only [hasKey, List.any_eq_true, List.mem_filter, beq_iff_eq]
  constructor
  · rintro ⟨e, ⟨he, _⟩, rfl⟩; exact ⟨e, he, rfl⟩
  · rintro ⟨e, he, rfl⟩; exact ⟨e, ⟨he, hb⟩, rfl⟩

theorem defaulted_filter (dflt : Nat → Option In) (pd : List (Nat × In)) (n : Nat) (cs : List Nat) (hcs : ∀ j ∈ cs, j < n) :
    defaulted dflt pd cs = defaulted dflt (pd.filter fun e => Nat.blt e.1 n) cs := by
  induction cs with
  | nil => rfl
  | cons j cs ih =>
    have := ih (fun j' hj' => hcs j' (by simp [hj']))
    simp only [defaulted, List.filterMap_cons] at this ⊢
    rw [hasKey_filter pd n j (hcs j (by simp)), this]

theorem kwFullOf_pd (dflt : Nat → Option In) (n : Nat) (pd : List (Nat × In)) :
    kwFullOf dflt n pd = pd ++ defaulted dflt (pd.filter fun e => Nat.blt e.1 n) (List.range n) := by
  unfold kwFullOf
  rw [← defaulted_filter dflt pd n (List.range n) (fun j hj => List.mem_range.1 hj)]

theorem missingOf_filter (dflt : Nat → Option In) (dsql : Nat → Bool) (pd : List (Nat × In)) (n : Nat) (cs : List Nat)
    (hcs : ∀ j ∈ cs, j < n) :
    (cs.any fun j => !hasKey pd j && (dflt j).isNone && !dsql j) =
      (cs.any fun j => !hasKey (pd.filter fun e => Nat.blt e.1 n) j && (dflt j).isNone && !dsql j) := by
  induction cs with
  | nil => rfl
  | cons j cs ih =>
    simp only [List.any_cons, ih (fun j' hj' => hcs j' (by simp [hj'])), hasKey_filter pd n j (hcs j (by simp))]

theorem missingOf_pd (dflt : Nat → Option In) (dsql : Nat → Bool) (n : Nat) (pd : List (Nat × In)) :
    missingOf dflt dsql n pd = missingOf dflt dsql n (pd.filter fun e => Nat.blt e.1 n) :=
  missingOf_filter dflt dsql pd n (List.range n) (fun _ hj => List.mem_range.1 hj)

theorem defaulted_lt (dflt : Nat → Option In) (pk : List (Nat × In)) (n : Nat) : ∀ e ∈ defaulted dflt pk (List.range n), e.1 < n := by
  intro e he
  have : e.1 ∈ (defaulted dflt pk (List.range n)).map (·.1) := List.mem_map_of_mem he
  rw [defaulted_keys] at this
  exact List.mem_range.1 (List.mem_filter.1 this).1

/-- the completed keyword dict: its column-name keys … -/
theorem full_filter_lt (pd dd : List (Nat × In)) (n : Nat) (hdd : ∀ e ∈ dd, e.1 < n) :
    (pd ++ dd).filter (fun e => Nat.blt e.1 n) = pd.filter (fun e => Nat.blt e.1 n) ++ dd := by
  rw [List.filter_append, List.filter_eq_self (l := dd) |>.2 (fun e he => by simpa [Nat.blt_eq] using hdd e he)]

/-- … and its other keys -/
theorem full_filter_ge (pd dd : List (Nat × In)) (n : Nat) (hdd : ∀ e ∈ dd, e.1 < n) :
    (pd ++ dd).filter (fun e => !Nat.blt e.1 n) = pd.filter (fun e => !Nat.blt e.1 n) := by
  rw [List.filter_append, List.filter_eq_nil_iff (l := dd) |>.2 (fun e he => by simpa [Nat.blt_eq] using hdd e he), List.append_nil]

/-- a column given by object is not defaulted -/
theorem defaulted_mask (skip : Nat → Bool) (dflt : Nat → Option In) (pk : List (Nat × In)) (cs : List Nat) (j : Nat)
    (hs : skip j = true) : j ∉ (defaulted (maskD skip dflt) pk cs).map (·.1) := by
  rw [defaulted_keys]
  intro h
  have := (List.mem_filter.1 h).2
  simp [maskD, hs] at this

end SqlObjVerif.PyCreate
